import QcelVerif.Model.FragmentsSrc
import QcelVerif.Lemmas.Fragments
import QcelVerif.Props.C15Frag
import QcelVerif.Props.C15Nre
import QcelVerif.Props.C15FormulaStr
namespace QcelVerif.FragSrc
open QcelVerif.FragAst QcelVerif.Fragments QcelVerif.ChgMult

/-! ## helper lemmas about the evaluator's list functions -/

theorem mapO_eq_some_map {α β} (f : α → Option β) (g : α → β) : ∀ (l : List α), (∀ a ∈ l, f a = some (g a)) →
    mapO f l = some (l.map g)
  | [], _ => rfl
  | a :: t, h => by
    simp [mapO, h a (by simp), mapO_eq_some_map f g t (fun b hb => h b (by simp [hb]))]

theorem osum_intL (l : List Int) : osum (intL l) = some (isum l) := by
  induction l with
  | nil => rfl
  | cons x t ih => simp [intL, osum, isum] at *; simp [ih]

/-- test -/
example : osum (intL [1, 2, 3]) = some 6 := by decide

theorem nth?_intL (l : List Int) (i : Nat) (h : i < l.length) : nth? (intL l) (i : Int) = some (some (l.getD i 0)) := by
  simp [nth?, intL, h, List.getD_eq_getElem?_getD]

theorem nth?_natL (l : List Nat) (i : Nat) (h : i < l.length) : nth? (natL l) (i : Int) = some (some ((l.getD i 0 : Nat) : Int)) := by
  simp [nth?, natL, h, List.getD_eq_getElem?_getD]

/-- `Zeff = [z * int(real) for z, real in zip(self.atomic_numbers, self.real)]` -/
def zeffOf (zs : List Int) (real : List Bool) : List Int := List.zipWith (fun z r => z * b2i r) zs real

theorem zeff_comp (inp v : List Val) (x y : Nat) (hxy : x ≠ y) (hx : x < v.length) (hy : y < v.length)
    (zs : List Int) (real : List Bool)
    (h6 : inp[6]? = some (.l (intL zs))) (h7 : inp[7]? = some (.l (boolL real))) :
    evalE inp v (.zipComp (.mul (.var x) (.var y)) x y (.inp 6) (.inp 7)) = some (.l (intL (zeffOf zs real))) := by
  simp only [evalE, h6, h7]
  have : (intL zs).zip (boolL real) = (zs.zip real).map (fun p => (some p.1, some (b2i p.2))) := by
    simp [intL, boolL, List.zip_map]
  rw [this, mapO_eq_some_map _ (fun p => some (p.1.getD 0 * p.2.getD 0))]
  · simp [intL, zeffOf, List.map_zip_eq_zipWith]
  · intro a ha
    obtain ⟨p, _, rfl⟩ := List.mem_map.1 ha
    simp [setSlot, hx, hy, List.getElem_set, hxy.symm]

/-! ## nelectrons -/

theorem srcNel_none (zs : List Int) (real : List Bool) (frags : List (List Nat)) (fc : List Int) (c : Int) :
    srcNel zs real frags fc c none = some (isum (zeffOf zs real) - c) := by
  have hz := zeff_comp (inputs zs.length zs real frags fc [] c)
    [.s none, .s none, .s none, .s none, .s none, .s none, .s none, .s none] 2 3 (by decide) (by decide) (by decide)
    zs real rfl rfl
  simp only [srcNel, run, Gen.FragmentsSrc.nelectrons, Gen.FragmentsSrc.neSlots, Gen.FragmentsSrc.NE.v_ifr, exec,
    Option.map_none, List.replicate, List.foldl, setSlot, List.set, hz]
  simp [evalE, osum_intL, inputs, readInt, b2v, Val.truthy]

theorem contains_natL (fr : List Nat) (i : Nat) : (natL fr).contains (some (i : Int)) = fr.contains i := by
  induction fr with
  | nil => rfl
  | cons a t ih => simp [natL] at *

theorem mem_natL (fr : List Nat) (i : Nat) : some (i : Int) ∈ natL fr ↔ i ∈ fr := by
  simp [natL]

theorem compO_enum {cond : Nat × Option Int → Option Bool} {body : Nat × Option Int → Option (Option Int)}
    (fr : List Nat) (hc : ∀ i x, cond (i, some x) = some (fr.contains i)) (hb : ∀ i x, body (i, some x) = some (some x)) :
    ∀ (Z : List Int) (n : Nat), compO cond body (enumFrom' n (intL Z)) =
      some (intL (((Z.zipIdx n).filter (fun p => fr.contains p.2)).map (·.1)))
  | [], _ => rfl
  | z :: t, n => by
    have ih := compO_enum fr hc hb t (n + 1)
    simp only [intL, List.map_cons, enumFrom', compO, hc, hb, List.zipIdx_cons, List.filter_cons] at ih ⊢
    cases h : fr.contains n <;> simp [ih]

theorem srcNel_some (zs : List Int) (real : List Bool) (frags : List (List Nat)) (fc : List Int) (c : Int) (k : Nat)
    (fr : List Nat) (q : Int) (hfr : frags[k]? = some fr) (hq : fc[k]? = some q) :
    srcNel zs real frags fc c (some k) = some (zeffIn (zeffOf zs real) fr - q) := by
  have hz := zeff_comp (inputs zs.length zs real frags fc [] c)
    [.s none, .s (some (k : Int)), .s none, .s none, .s none, .s none, .s none, .s none] 2 3 (by decide) (by simp) (by simp)
    zs real rfl rfl
  simp only [srcNel, run, Gen.FragmentsSrc.nelectrons, Gen.FragmentsSrc.neSlots, Gen.FragmentsSrc.NE.v_ifr, exec,
    Option.map_some, List.replicate, List.foldl, setSlot, List.set, hz, List.length_cons, List.length_nil, Nat.reduceAdd,
    Nat.reduceLT, reduceIte]
  have hk : nth? (frags.map natL) (k : Int) = some (natL fr) := by simp [nth?, hfr]
  have hq' : nth? (intL fc) (k : Int) = some (some q) := by simp [nth?, intL, hq]
  simp only [evalE, inputs, setSlot, List.set, List.getElem?_cons_succ, List.getElem?_cons_zero, hk, hq', Option.map_some]
  rw [compO_enum fr]
  · simp [osum_intL, readInt, zeffIn, b2v, Val.truthy]
  · intro i x; simp [b2v, Val.truthy, mem_natL]; split <;> simp_all
  · intro i x; simp

/-! ## nuclear repulsion energy -/

section nre
variable {K : Type} [Field K]

/-- the order in which the source adds the pair terms: for every atom in turn, its terms with all EARLIER atoms -/
def triSum {β} (f : β → β → K) : List β → List β → K
  | _, [] => 0
  | pre, x :: t => ksum (pre.map (f x)) + triSum f (pre ++ [x]) t

theorem triSum_eq {β} (f : β → β → K) : ∀ (l pre : List β),
    triSum f pre l = ksum (l.map (fun x => ksum (pre.map (f x)))) + pairSum f l
  | [], _ => by simp [triSum, pairSum, ksum]
  | x :: t, pre => by
    simp only [triSum, triSum_eq f t, List.map_cons, ksum, pairSum, List.map_append, ksum_eq_sum, List.sum_append,
      List.map_nil, List.sum_cons, List.sum_nil, List.sum_map_add]
    simp
    ring

theorem triSum_nil {β} (f : β → β → K) (l : List β) : triSum f [] l = pairSum f l := by
  rw [triSum_eq]; simp [ksum_eq_sum]

/-- one pair term `Zeff[x] * Zeff[y] / dist(x, y)` -/
def zterm (Z : List Int) (dist : Nat → Nat → K) (x y : Nat) : K := ((Z.getD x 0 * Z.getD y 0 : Int) : K) / dist x y

/-- the state of `nuclear_repulsion_energy` inside its loops -/
def nst (r0 ifr z2 z3 : Val) (Z : List Int) (A : List Nat) (a6 a7 a8 : Val) (acc d : K) : St K :=
  ⟨[r0, ifr, z2, z3, .l (intL Z), .l (natL A), a6, a7, a8], [acc, d]⟩

def nreInner : Stmt :=
  (.seq (.kset 1 (.dist (.var 7) (.var 8))) (.kadd 0 (.div (.ofInt (.mul (.idx (.var 4) (.var 7)) (.idx (.var 4) (.var 8)))) (.var 1))))

theorem nre_inner (inp : List Val) (dist : Nat → Nat → K) (r0 ifr z2 z3 : Val) (Z : List Int) (A : List Nat) (i : Int) (x : Nat)
    (hx : x < Z.length) : ∀ (ys : List Nat) (a8 : Val) (acc d : K), (∀ y ∈ ys, y < Z.length) →
    ∃ a8' d', foldO (fun st a => exec inp dist nreInner { st with v := setSlot st.v 8 a })
        (nst r0 ifr z2 z3 Z A (.s (some i)) (.s (some (x : Int))) a8 acc d) ((natL ys).map .s) =
      some (nst r0 ifr z2 z3 Z A (.s (some i)) (.s (some (x : Int))) a8' (acc + ksum (ys.map (zterm Z dist x))) d')
  | [], a8, acc, d, _ => ⟨a8, d, by simp [foldO, natL, ksum]⟩
  | y :: t, a8, acc, d, h => by
    have hy : y < Z.length := h y (by simp)
    have hstep : exec inp dist nreInner { nst r0 ifr z2 z3 Z A (.s (some i)) (.s (some (x : Int))) a8 acc d with
          v := setSlot (nst r0 ifr z2 z3 Z A (.s (some i)) (.s (some (x : Int))) a8 acc d).v 8 (.s (some (y : Int))) } =
        some (nst r0 ifr z2 z3 Z A (.s (some i)) (.s (some (x : Int))) (.s (some (y : Int))) (acc + zterm Z dist x y) (dist x y)) := by
      simp [nst, nreInner, exec, evalK, evalE, setSlot, nth?_intL, hx, hy, zterm]
    obtain ⟨a8', d', ih⟩ := nre_inner inp dist r0 ifr z2 z3 Z A i x hx t (.s (some (y : Int))) (acc + zterm Z dist x y) (dist x y)
      (fun z hz => h z (by simp [hz]))
    refine ⟨a8', d', ?_⟩
    simp only [natL, List.map_cons, foldO, hstep] at ih ⊢
    rw [ih]; simp [ksum, add_assoc]

def nreOuter : Stmt := .forIn 8 (.slice (.var 5) (.var 6)) nreInner

theorem take_natL (pre rest : List Nat) : (natL (pre ++ rest)).take pre.length = natL pre := by
  simp [natL, List.map_append, List.take_left']

theorem nre_outer (inp : List Val) (dist : Nat → Nat → K) (r0 ifr z2 z3 : Val) (Z : List Int) (A : List Nat)
    (hA : ∀ y ∈ A, y < Z.length) : ∀ (rest pre : List Nat) (a6 a7 a8 : Val) (acc d : K), A = pre ++ rest →
    ∃ a6' a7' a8' d', foldO (fun st (p : Nat × Val) =>
          exec inp dist nreOuter { st with v := setSlot (setSlot st.v 6 (.s (some (p.1 : Nat)))) 7 p.2 })
        (nst r0 ifr z2 z3 Z A a6 a7 a8 acc d) (enumFrom' pre.length ((natL rest).map .s)) =
      some (nst r0 ifr z2 z3 Z A a6' a7' a8' (acc + triSum (zterm Z dist) pre rest) d')
  | [], pre, a6, a7, a8, acc, d, _ => ⟨a6, a7, a8, d, by simp [foldO, natL, enumFrom', triSum]⟩
  | x :: t, pre, a6, a7, a8, acc, d, h => by
    have hx : x < Z.length := hA x (by simp [h])
    have hpre : ∀ y ∈ pre, y < Z.length := fun y hy => hA y (by simp [h, hy])
    obtain ⟨b8, e, hin⟩ := nre_inner inp dist r0 ifr z2 z3 Z A (pre.length : Nat) x hx pre a8 acc d hpre
    have hstep : exec inp dist nreOuter { nst r0 ifr z2 z3 Z A a6 a7 a8 acc d with
          v := setSlot (setSlot (nst r0 ifr z2 z3 Z A a6 a7 a8 acc d).v 6 (.s (some (pre.length : Nat)))) 7 (.s (some (x : Int))) } =
        some (nst r0 ifr z2 z3 Z A (.s (some (pre.length : Nat))) (.s (some (x : Int))) b8
          (acc + ksum (pre.map (zterm Z dist x))) e) := by
      rw [← hin]
      simp [nst, nreOuter, exec, evalE, setSlot, Val.items, h, take_natL]
    obtain ⟨a6', a7', a8', d', ih⟩ := nre_outer inp dist r0 ifr z2 z3 Z A hA t (pre ++ [x])
      (.s (some (pre.length : Nat))) (.s (some (x : Int))) b8 (acc + ksum (pre.map (zterm Z dist x))) e (by simp [h])
    refine ⟨a6', a7', a8', d', ?_⟩
    simp only [natL, List.map_cons, enumFrom', foldO, hstep, List.length_append, List.length_cons, List.length_nil] at ih ⊢
    rw [ih]; simp [triSum, add_assoc]

/-- [regenerated from molecule.py] the body of `nuclear_repulsion_energy` is: Zeff comprehension, `atoms = range(n)`, the
`if ifr is not None` replacement, `nre = 0.0`, and the double loop over `enumerate(atoms)` / `atoms[:iat1]` with the
`Zeff[at1] * Zeff[at2] / dist` term the loop lemmas are about -/
theorem nre_shape : Gen.FragmentsSrc.nre =
    (.seq (.set 4 (.zipComp (.mul (.var 2) (.var 3)) 2 3 (.inp 6) (.inp 7)))
    (.seq (.set 5 (.range (.int 0) (.len (.inp 3))))
    (.seq (.ite (.not_ (.isNone (.var 1))) (.set 5 (.idx (.inp 0) (.var 1))) .skip)
    (.seq (.kset 0 .zero) (.forEnum 6 7 (.var 5) nreOuter))))) ∧
    Gen.FragmentsSrc.nreSlots = 9 ∧ Gen.FragmentsSrc.nreKSlots = 2 ∧ Gen.FragmentsSrc.nreRet = 0 ∧
    Gen.FragmentsSrc.NRE.v_ifr = 1 := by decide

theorem pairSum_zterm (Z : List Int) (dist : Nat → Nat → K) (A : List Nat) :
    pairSum (zterm Z dist) A = nreMol Z dist (some A) := by
  simp only [nreMol, Option.getD_some, nre]
  exact (pairSum_map (fun i => (Z.getD i 0, i)) (zterm Z dist) (nreTerm dist) (fun a b => rfl) A).symm

/-- the loops of the body, from the state after `nre = 0.0` -/
theorem nre_loops (inp : List Val) (dist : Nat → Nat → K) (r0 ifr z2 z3 a6 a7 a8 : Val) (Z : List Int) (A : List Nat)
    (hA : ∀ y ∈ A, y < Z.length) (d : K) :
    ∃ st', exec inp dist (.forEnum 6 7 (.var 5) nreOuter) (nst r0 ifr z2 z3 Z A a6 a7 a8 0 d) = some st' ∧
      st'.k[0]? = some (nreMol Z dist (some A)) := by
  obtain ⟨a6', a7', a8', d', h⟩ := nre_outer inp dist r0 ifr z2 z3 Z A hA A [] a6 a7 a8 0 d rfl
  refine ⟨nst r0 ifr z2 z3 Z A a6' a7' a8' (0 + triSum (zterm Z dist) [] A) d', ?_, ?_⟩
  · simp only [exec, nst, evalE, List.getElem?_cons_succ, List.getElem?_cons_zero, Option.bind_some, Val.items]
    simp only [List.length_cons, List.length_nil, Nat.reduceAdd, Nat.reduceLT, and_self, reduceIte]
    exact h
  · simp [nst, triSum_nil, pairSum_zterm]

theorem exec_seq (inp : List Val) (dist : Nat → Nat → K) (a b : Stmt) (st : St K) :
    exec inp dist (.seq a b) st = (exec inp dist a st).bind (exec inp dist b) := by
  simp only [exec]; cases exec inp dist a st <;> rfl

/-- the straight-line part of the body: the state when the loops start -/
theorem nre_prefix (n : Nat) (zs : List Int) (real : List Bool) (frags : List (List Nat)) (dist : Nat → Nat → K)
    (ifr : Option Nat) (A : List Nat)
    (hsel : match ifr with
      | none => A = List.range n
      | some k => frags[k]? = some A) (rest : Stmt) :
    exec (inputs n zs real frags [] [] 0) dist
      (.seq (.set 4 (.zipComp (.mul (.var 2) (.var 3)) 2 3 (.inp 6) (.inp 7)))
      (.seq (.set 5 (.range (.int 0) (.len (.inp 3))))
      (.seq (.ite (.not_ (.isNone (.var 1))) (.set 5 (.idx (.inp 0) (.var 1))) .skip)
      (.seq (.kset 0 .zero) rest))))
      ⟨[.s none, .s (ifr.map (fun (k : Nat) => (k : Int))), .s none, .s none, .s none, .s none, .s none, .s none, .s none], [0, 0]⟩ =
    exec (inputs n zs real frags [] [] 0) dist rest
      (nst (.s none) (.s (ifr.map (fun (k : Nat) => (k : Int)))) (.s none) (.s none) (zeffOf zs real) A (.s none) (.s none) (.s none) 0 0) := by
  have hz := zeff_comp (inputs n zs real frags [] [] 0)
    [.s none, .s (ifr.map (fun (k : Nat) => (k : Int))), .s none, .s none, .s none, .s none, .s none, .s none, .s none] 2 3
    (by decide) (by simp) (by simp) zs real rfl rfl
  have h1 : exec (inputs n zs real frags [] [] 0) dist (.set 4 (.zipComp (.mul (.var 2) (.var 3)) 2 3 (.inp 6) (.inp 7)))
      ⟨[.s none, .s (ifr.map (fun (k : Nat) => (k : Int))), .s none, .s none, .s none, .s none, .s none, .s none, .s none], [0, 0]⟩ =
      some ⟨[.s none, .s (ifr.map (fun (k : Nat) => (k : Int))), .s none, .s none, .l (intL (zeffOf zs real)), .s none, .s none, .s none, .s none], [(0 : K), 0]⟩ := by
    simp only [exec, hz]; simp [setSlot]
  have h2 : exec (inputs n zs real frags [] [] 0) dist (.set 5 (.range (.int 0) (.len (.inp 3))))
      ⟨[.s none, .s (ifr.map (fun (k : Nat) => (k : Int))), .s none, .s none, .l (intL (zeffOf zs real)), .s none, .s none, .s none, .s none], [(0 : K), 0]⟩ =
      some ⟨[.s none, .s (ifr.map (fun (k : Nat) => (k : Int))), .s none, .s none, .l (intL (zeffOf zs real)), .l (natL (List.range n)), .s none, .s none, .s none], [(0 : K), 0]⟩ := by
    simp [exec, evalE, inputs, setSlot, natL]
  have h3 : exec (inputs n zs real frags [] [] 0) dist (.ite (.not_ (.isNone (.var 1))) (.set 5 (.idx (.inp 0) (.var 1))) .skip)
      ⟨[.s none, .s (ifr.map (fun (k : Nat) => (k : Int))), .s none, .s none, .l (intL (zeffOf zs real)), .l (natL (List.range n)), .s none, .s none, .s none], [(0 : K), 0]⟩ =
      some ⟨[.s none, .s (ifr.map (fun (k : Nat) => (k : Int))), .s none, .s none, .l (intL (zeffOf zs real)), .l (natL A), .s none, .s none, .s none], [(0 : K), 0]⟩ := by
    cases ifr with
    | none => simp at hsel; simp [exec, evalE, b2v, Val.truthy, hsel]
    | some k => simp at hsel; simp [exec, evalE, b2v, Val.truthy, inputs, nth?, hsel, setSlot]
  have h4 : exec (inputs n zs real frags [] [] 0) dist (.kset 0 .zero)
      ⟨[.s none, .s (ifr.map (fun (k : Nat) => (k : Int))), .s none, .s none, .l (intL (zeffOf zs real)), .l (natL A), .s none, .s none, .s none], [(0 : K), 0]⟩ =
      some (nst (.s none) (.s (ifr.map (fun (k : Nat) => (k : Int)))) (.s none) (.s none) (zeffOf zs real) A (.s none) (.s none) (.s none) 0 0) := by
    simp [exec, evalK, nst]
  rw [exec_seq, h1, Option.bind_some, exec_seq, h2, Option.bind_some, exec_seq, h3, Option.bind_some, exec_seq, h4, Option.bind_some]

/-- **source-derived NRE = the model's pair sum** (any field, any distance function, any molecule whose selected atoms have a
`Zeff` entry): `ifr = None` walks `range(n)`, `ifr = k` walks `fragments[k]` -/
theorem srcNre_eq (n : Nat) (zs : List Int) (real : List Bool) (frags : List (List Nat)) (dist : Nat → Nat → K)
    (ifr : Option Nat) (A : List Nat)
    (hsel : match ifr with
      | none => A = List.range n
      | some k => frags[k]? = some A)
    (hA : ∀ y ∈ A, y < (zeffOf zs real).length) :
    srcNre n zs real frags dist ifr = some (nreMol (zeffOf zs real) dist (some A)) := by
  obtain ⟨st', h1, h2⟩ := nre_loops (inputs n zs real frags [] [] 0) dist (.s none) (.s (ifr.map (fun (k : Nat) => (k : Int))))
    (.s none) (.s none) (.s none) (.s none) (.s none) (zeffOf zs real) A hA 0
  have hrun : run (inputs n zs real frags [] [] 0) dist Gen.FragmentsSrc.nreSlots Gen.FragmentsSrc.nreKSlots
      [(Gen.FragmentsSrc.NRE.v_ifr, .s (ifr.map (fun (k : Nat) => (k : Int))))] Gen.FragmentsSrc.nre = some st' := by
    rw [nre_shape.1, nre_shape.2.1, nre_shape.2.2.1, nre_shape.2.2.2.2]
    simp only [run, List.replicate, List.foldl, setSlot, List.set]
    rw [nre_prefix n zs real frags dist ifr A hsel, h1]
  simp only [srcNre, hrun, nre_shape.2.2.2.1, h2]

end nre

/-! ## molecular_formula_from_symbols -/

section formula
open QcelVerif.Formula

/-- [regenerated from molecular_formula.py] the rearrangement between `sorted(count.keys())` and the output loop, and the
output loop body, are the statements the theorems below are about -/
theorem formula_shape :
    Gen.FragmentsSrc.formulaRearrange =
      [.ite (.and_ (.orderIs "hill") (.has "C")) [.ite (.has "H") [.toFront "H"] [], .toFront "C"] []] ∧
    Gen.FragmentsSrc.formulaOut = [.key, .countIfGt 1] := by
  constructor <;> rfl

theorem srcElementOrder_eq (ord : Order) (o : List String) :
    execFs (ordName ord) Gen.FragmentsSrc.formulaRearrange o =
      some (match ord with
        | .alphabetical => o
        | .hill => hillOrder "C" "H" o) := by
  rw [formula_shape.1]
  cases ord
  · simp [execFs, execF, evalFC, ordName]
  · by_cases hC : "C" ∈ o <;> by_cases hH : "H" ∈ o <;>
      simp [execFs, execF, evalFC, ordName, hillOrder, hC, hH]

/-- **source-derived molecular_formula_from_symbols = the model**, for every symbol list and both orders (never raises) -/
theorem srcFromSymbols_eq (syms : List String) (ord : Order) :
    srcFromSymbols syms ord = some (fromSymbols syms ord) := by
  simp only [srcFromSymbols, srcElementOrder_eq, Option.map_some, formula_shape.2, fromSymbols, render, tokens, elementOrder]
  congr 1
  have hpiece : ∀ (k : String) (c : Nat), (k ++ if 1 < c then c.repr else "") = (if 1 < c then k ++ c.repr else k) := by
    intro k c; split <;> simp
  cases ord <;> simp [renderF, outPiece, List.map_map, Function.comp_def, hpiece]

end formula

/-! ## get_fragment, `group_fragments=True` -/

/-- a list of lists under construction: Python's `[]` is also the empty list of lists -/
def llv (xss : List (List (Option Int))) : Val :=
  match xss with
  | [] => .l []
  | _ => .ll xss

theorem appendVal_llv (xss : List (List (Option Int))) (ys : List (Option Int)) :
    appendVal (llv xss) (.l ys) = some (llv (xss ++ [ys])) := by
  cases xss <;> simp [llv, appendVal]

theorem appendVal_l_s (xs : List (Option Int)) (a : Option Int) : appendVal (.l xs) (.s a) = some (.l (xs ++ [a])) := rfl

theorem nth?_range (n i : Nat) (h : i < n) : nth? (natL (List.range n)) (i : Int) = some (some (i : Int)) := by
  simp [nth?, natL, h]

section grouped
variable (h0 h1 h2 h3 h4 : Val) (t17 t18 t19 t20 t21 t22 t23 t24 t25 t26 t27 t28 t29 t30 t31 t32 : Val)

/-- the state of `get_fragment` inside the loops of the grouped path (slots 5..16 vary) -/
def gst (gb sy ma ra fr fc fm sz fs x14 x15 x16 : Val) : St Int :=
  ⟨[h0, h1, h2, h3, h4, gb, sy, ma, ra, fr, fc, fm, sz, fs, x14, x15, x16,
    t17, t18, t19, t20, t21, t22, t23, t24, t25, t26, t27, t28, t29, t30, t31, t32], []⟩

def gInner (b : Int) : Stmt :=
  (.seq (.append 6 (.idx (.inp 1) (.var 16))) (.seq (.append 8 (.int b)) (.append 7 (.idx (.inp 2) (.var 16)))))

theorem g_inner (n : Nat) (zs : List Int) (real : List Bool) (frags : List (List Nat)) (fcs fms : List Int) (c : Int) (b : Int)
    (gb fr fc fm sz fs x14 x15 : Val) : ∀ (ys : List Nat) (S M F : List (Option Int)) (x16 : Val), (∀ y ∈ ys, y < n) →
    ∃ x16', foldO (fun st a => exec (inputs n zs real frags fcs fms c) (fun _ _ => (0 : Int)) (gInner b)
          { st with v := setSlot st.v 16 a })
        (gst h0 h1 h2 h3 h4 t17 t18 t19 t20 t21 t22 t23 t24 t25 t26 t27 t28 t29 t30 t31 t32
          gb (.l S) (.l M) (.l F) fr fc fm sz fs x14 x15 x16) ((natL ys).map .s) =
      some (gst h0 h1 h2 h3 h4 t17 t18 t19 t20 t21 t22 t23 t24 t25 t26 t27 t28 t29 t30 t31 t32
          gb (.l (S ++ natL ys)) (.l (M ++ natL ys)) (.l (F ++ List.replicate ys.length (some b))) fr fc fm sz fs x14 x15 x16')
  | [], S, M, F, x16, _ => ⟨x16, by simp [foldO, natL]⟩
  | y :: t, S, M, F, x16, h => by
    have hy : y < n := h y (by simp)
    obtain ⟨x16', ih⟩ := g_inner n zs real frags fcs fms c b gb fr fc fm sz fs x14 x15 t (S ++ [some (y : Int)])
      (M ++ [some (y : Int)]) (F ++ [some b]) (.s (some (y : Int))) (fun z hz => h z (by simp [hz]))
    refine ⟨x16', ?_⟩
    have hstep : exec (inputs n zs real frags fcs fms c) (fun _ _ => (0 : Int)) (gInner b)
        { gst h0 h1 h2 h3 h4 t17 t18 t19 t20 t21 t22 t23 t24 t25 t26 t27 t28 t29 t30 t31 t32
            gb (.l S) (.l M) (.l F) fr fc fm sz fs x14 x15 x16 with
          v := setSlot (gst h0 h1 h2 h3 h4 t17 t18 t19 t20 t21 t22 t23 t24 t25 t26 t27 t28 t29 t30 t31 t32
            gb (.l S) (.l M) (.l F) fr fc fm sz fs x14 x15 x16).v 16 (.s (some (y : Int))) } =
        some (gst h0 h1 h2 h3 h4 t17 t18 t19 t20 t21 t22 t23 t24 t25 t26 t27 t28 t29 t30 t31 t32
            gb (.l (S ++ [some (y : Int)])) (.l (M ++ [some (y : Int)])) (.l (F ++ [some b])) fr fc fm sz fs x14 x15 (.s (some (y : Int)))) := by
      simp [gst, gInner, exec, evalE, setSlot, inputs, nth?_range, hy, appendVal]
    simp only [natL, List.map_cons, foldO, hstep] at ih ⊢
    rw [ih]
    simp [List.replicate_succ]

theorem exec_seq' {K : Type} [Add K] [Mul K] [Div K] [Zero K] [IntCast K] (inp : List Val) (dist : Nat → Nat → K)
    (a b : Stmt) (st : St K) :
    exec inp dist (.seq a b) st = (exec inp dist a st).bind (exec inp dist b) := by
  simp only [exec]; cases exec inp dist a st <;> rfl

section eqs
variable {K : Type} [Add K] [Mul K] [Div K] [Zero K] [IntCast K] (inp : List Val) (dist : Nat → Nat → K)

/-! the equations of `exec` for the statements that are not `seq` (used with `exec_seq'`, so that `simp` never opens a
sequence whose first statement it cannot evaluate) -/
theorem exec_set_eq (k : Nat) (e : Expr) (st : St K) : exec inp dist (.set k e) st =
    (match evalE inp st.v e with
      | some a => if k < st.v.length then some { st with v := setSlot st.v k a } else none
      | none => none) := by rfl

theorem exec_ite_eq (c : Expr) (t e : Stmt) (st : St K) : exec inp dist (.ite c t e) st =
    (match evalE inp st.v c with
      | some x => if x.truthy then exec inp dist t st else exec inp dist e st
      | none => none) := by rfl

theorem exec_skip_eq (st : St K) : exec inp dist .skip st = some st := by simp only [exec]

theorem exec_forIn_eq (x : Nat) (src : Expr) (body : Stmt) (st : St K) : exec inp dist (.forIn x src body) st =
    (match (evalE inp st.v src).bind Val.items with
      | some items =>
          if x < st.v.length then
            foldO (fun st a => exec inp dist body { st with v := setSlot st.v x a }) st items
          else none
      | none => none) := by rfl

end eqs

def gOuter (isReal : Bool) : Stmt :=
  (.seq (.set 15 (.len (.idx (.inp 0) (.var 14))))
  (.seq (.append 5 (.idx (.inp 3) (.idx (.inp 0) (.var 14))))
  (.seq (.forIn 16 (.idx (.inp 0) (.var 14)) (gInner (if isReal then 1 else 0)))
  (.seq (.append 9 (.range (.var 13) (.add (.var 13) (.var 15))))
  (.seq (.addAssign 13 (.var 15))
  (.seq (.append 10 (if isReal then .idx (.inp 4) (.var 14) else .int 0))
        (.append 11 (if isReal then .idx (.inp 5) (.var 14) else .int 1))))))))

theorem mapO_natL_range (n : Nat) (fr : List Nat) (h : ∀ y ∈ fr, y < n) :
    mapO (fancy (natL (List.range n))) (natL fr) = some (natL fr) := by
  have := mapO_eq_some_map (fancy (natL (List.range n))) id (natL fr) (by
        intro a ha
        obtain ⟨y, hy, rfl⟩ := List.mem_map.1 ha
        simp [fancy, nth?_range n y (h y hy)])
  simpa using this

/-- one turn of a block loop of the grouped path (real blocks: `isReal`, ghost blocks: not) -/
theorem g_outer_step (n : Nat) (zs : List Int) (real : List Bool) (frags : List (List Nat)) (fcs fms : List Int) (c : Int)
    (isReal : Bool) (sz : Val) (k : Nat) (fr : List Nat) (cf mf : Int)
    (hk : frags[k]? = some fr) (hfr : ∀ y ∈ fr, y < n) (hcf : fcs[k]? = some cf) (hmf : fms[k]? = some mf)
    (B FR : List (List (Option Int))) (S M F C Mu : List (Option Int)) (start : Nat) (x14 x15 x16 : Val) :
    ∃ x16', exec (inputs n zs real frags fcs fms c) (fun _ _ => (0 : Int)) (gOuter isReal)
        { gst h0 h1 h2 h3 h4 t17 t18 t19 t20 t21 t22 t23 t24 t25 t26 t27 t28 t29 t30 t31 t32
            (llv B) (.l S) (.l M) (.l F) (llv FR) (.l C) (.l Mu) sz (.s (some (start : Nat))) x14 x15 x16 with
          v := setSlot (gst h0 h1 h2 h3 h4 t17 t18 t19 t20 t21 t22 t23 t24 t25 t26 t27 t28 t29 t30 t31 t32
            (llv B) (.l S) (.l M) (.l F) (llv FR) (.l C) (.l Mu) sz (.s (some (start : Nat))) x14 x15 x16).v 14 (.s (some (k : Int))) } =
      some (gst h0 h1 h2 h3 h4 t17 t18 t19 t20 t21 t22 t23 t24 t25 t26 t27 t28 t29 t30 t31 t32
        (llv (B ++ [natL fr])) (.l (S ++ natL fr)) (.l (M ++ natL fr))
        (.l (F ++ List.replicate fr.length (some (if isReal then 1 else 0))))
        (llv (FR ++ [natL ((List.range fr.length).map (start + ·))]))
        (.l (C ++ [some (if isReal then cf else 0)])) (.l (Mu ++ [some (if isReal then mf else 1)])) sz
        (.s (some ((start + fr.length : Nat) : Int))) (.s (some (k : Int))) (.s (some (fr.length : Nat))) x16') := by
  have hk' : nth? (frags.map natL) (k : Int) = some (natL fr) := by simp [nth?, hk]
  have hcf' : nth? (intL fcs) (k : Int) = some (some cf) := by simp [nth?, intL, hcf]
  have hmf' : nth? (intL fms) (k : Int) = some (some mf) := by simp [nth?, intL, hmf]
  obtain ⟨x16', hin⟩ := g_inner h0 h1 h2 h3 h4 t17 t18 t19 t20 t21 t22 t23 t24 t25 t26 t27 t28 t29 t30 t31 t32
    n zs real frags fcs fms c (if isReal then 1 else 0) (llv (B ++ [natL fr])) (llv FR) (.l C) (.l Mu) sz
    (.s (some (start : Nat))) (.s (some (k : Int))) (.s (some (fr.length : Nat))) fr S M F x16 hfr
  refine ⟨x16', ?_⟩
  simp only [gOuter, exec_seq']
  simp only [gst, exec, evalE, setSlot, List.set, inputs, List.getElem?_cons_succ, List.getElem?_cons_zero, hk',
    Option.map_some, List.length_cons, List.length_nil, Nat.reduceAdd, Nat.reduceLT, reduceIte, Option.bind_some,
    mapO_natL_range n fr hfr, appendVal_llv, Val.items]
  simp only [gst, setSlot, inputs] at hin
  simp only [natL, List.length_map] at hin ⊢
  simp only [hin, Option.bind_some]
  cases isReal <;>
    simp [evalE, appendVal_llv, appendVal_l_s, hcf', hmf', List.map_map, Function.comp_def]

/-- a requested fragment number names a fragment whose atoms exist and which has a charge and a multiplicity -/
def FragOK (n : Nat) (frags : List (List Nat)) (fcs fms : List Int) (k : Nat) : Prop :=
  ∃ fr cf mf, frags[k]? = some fr ∧ (∀ y ∈ fr, y < n) ∧ fcs[k]? = some cf ∧ fms[k]? = some mf

set_option maxRecDepth 4000 in
/-- a block loop of the grouped path over the fragment numbers `ks` -/
theorem g_outer (n : Nat) (zs : List Int) (real : List Bool) (frags : List (List Nat)) (fcs fms : List Int) (c : Int)
    (isReal : Bool) (sz : Val) : ∀ (ks : List Nat) (B FR : List (List (Option Int))) (S M F C Mu : List (Option Int))
      (start : Nat) (x14 x15 x16 : Val), (∀ k ∈ ks, FragOK n frags fcs fms k) →
    ∃ x14' x15' x16', foldO (fun st a => exec (inputs n zs real frags fcs fms c) (fun _ _ => (0 : Int)) (gOuter isReal)
          { st with v := setSlot st.v 14 a })
        (gst h0 h1 h2 h3 h4 t17 t18 t19 t20 t21 t22 t23 t24 t25 t26 t27 t28 t29 t30 t31 t32
          (llv B) (.l S) (.l M) (.l F) (llv FR) (.l C) (.l Mu) sz (.s (some (start : Nat))) x14 x15 x16)
        ((natL ks).map .s) =
      some (gst h0 h1 h2 h3 h4 t17 t18 t19 t20 t21 t22 t23 t24 t25 t26 t27 t28 t29 t30 t31 t32
        (llv (B ++ ks.map (fun k => natL (frags.getD k []))))
        (.l (S ++ natL (ks.flatMap (fun k => frags.getD k []))))
        (.l (M ++ natL (ks.flatMap (fun k => frags.getD k []))))
        (.l (F ++ List.replicate (ks.flatMap (fun k => frags.getD k [])).length (some (if isReal then 1 else 0))))
        (llv (FR ++ (ranges start (ks.map (fun k => (frags.getD k []).length))).map natL))
        (.l (C ++ ks.map (fun k => some (if isReal then fcs.getD k 0 else 0))))
        (.l (Mu ++ ks.map (fun k => some (if isReal then fms.getD k 0 else 1)))) sz
        (.s (some ((start + (ks.flatMap (fun k => frags.getD k [])).length : Nat) : Int))) x14' x15' x16')
  | [], B, FR, S, M, F, C, Mu, start, x14, x15, x16, _ => ⟨x14, x15, x16, by simp [foldO, natL, ranges]⟩
  | k :: t, B, FR, S, M, F, C, Mu, start, x14, x15, x16, h => by
    obtain ⟨fr, cf, mf, hk, hfr, hcf, hmf⟩ := h k (by simp)
    obtain ⟨y16, hstep⟩ := g_outer_step h0 h1 h2 h3 h4 t17 t18 t19 t20 t21 t22 t23 t24 t25 t26 t27 t28 t29 t30 t31 t32
      n zs real frags fcs fms c isReal sz k fr cf mf hk hfr hcf hmf B FR S M F C Mu start x14 x15 x16
    obtain ⟨x14', x15', x16', ih⟩ := g_outer n zs real frags fcs fms c isReal sz t (B ++ [natL fr]) 
      (FR ++ [natL ((List.range fr.length).map (start + ·))]) (S ++ natL fr) (M ++ natL fr)
      (F ++ List.replicate fr.length (some (if isReal then 1 else 0)))
      (C ++ [some (if isReal then cf else 0)]) (Mu ++ [some (if isReal then mf else 1)]) (start + fr.length)
      (.s (some (k : Int))) (.s (some (fr.length : Nat))) y16 (fun j hj => h j (by simp [hj]))
    refine ⟨x14', x15', x16', ?_⟩
    have e1 : frags.getD k [] = fr := by simp [List.getD_eq_getElem?_getD, hk]
    have e2 : fcs.getD k 0 = cf := by simp [List.getD_eq_getElem?_getD, hcf]
    have e3 : fms.getD k 0 = mf := by simp [List.getD_eq_getElem?_getD, hmf]
    simp only [natL, List.map_cons, foldO] at ih ⊢
    simp only [natL] at hstep
    simp only [hstep, ih, e1, e2, e3, ranges, List.map_cons, List.flatMap_cons, List.append_assoc, List.singleton_append,
      List.length_append, List.replicate_add, List.map_append, Nat.add_assoc, natL]

end grouped

/-! ### the whole body -/

/-- the `constructor_dict[...] = ...` statements at the end of `get_fragment` -/
def gfSuffix : Stmt :=
  (.seq (.set 26 (.var 9)) (.seq (.set 27 (.var 10)) (.seq (.set 28 (.var 11)) (.seq (.set 29 (.var 6))
  (.seq (.set 30 (.vstack (.var 5))) (.seq (.set 31 (.var 8)) (.set 32 (.var 7))))))))

/-- the body of `get_fragment` around the `if group_fragments:` statement -/
def gfTop (grouped ordered : Stmt) : Stmt :=
  (.seq (.ite (.isInt (.var 1)) (.set 1 (.list1 (.var 1))) .skip) (.seq (.ite (.isInt (.var 2)) (.set 2 (.list1 (.var 2))) (.ite (.isNone (.var 2)) (.set 2 .nil) .skip)) (.seq (.ite (.anyCommon (.var 1) (.var 2)) (.raise 0) .skip) (.seq (.set 5 .nil) (.seq (.set 6 .nil) (.seq (.set 7 .nil) (.seq (.set 8 .nil) (.seq (.set 9 .nil) (.seq (.set 10 .nil) (.seq (.set 11 .nil) (.seq (.set 12 (.int 0)) (.seq (.ite (.var 4) grouped ordered) gfSuffix))))))))))))

def gGrouped : Stmt :=
  (.seq (.set 13 (.int 0)) (.seq (.forIn 14 (.var 1) (gOuter true))
  (.seq (.set 17 (.sum (.var 10))) (.seq (.set 19 (.add (.sum (.comp (.sub (.var 18) (.int 1)) 18 (.var 11) (.int 1))) (.int 1)))
  (.forIn 14 (.var 2) (gOuter false))))))

def gOrdered : Stmt :=
  (.seq (.set 20 (.mul (.list1 .none) (.len (.inp 1)))) (.seq (.forEnum 21 22 (.inp 0) (.forIn 23 (.var 22) (.setIdx 20 (.var 23) (.var 21)))) (.seq (.set 24 (.mul (.list1 .none) (.len (.inp 1)))) (.seq (.forIn 23 (.range (.int 0) (.len (.inp 1))) (.seq (.set 21 (.idx (.var 20) (.var 23))) (.ite (.or_ (.isIn (.var 21) (.var 1)) (.isIn (.var 21) (.var 2))) (.seq (.append 5 (.idx (.inp 3) (.var 23))) (.seq (.append 6 (.idx (.inp 1) (.var 23))) (.seq (.append 8 (.isIn (.var 21) (.var 1))) (.seq (.append 7 (.idx (.inp 2) (.var 23))) (.seq (.setIdx 24 (.var 23) (.var 12)) (.addAssign 12 (.int 1))))))) (.setIdx 24 (.var 23) .none)))) (.seq (.forEnum 21 22 (.inp 0) (.seq (.ite (.or_ (.isIn (.var 21) (.var 1)) (.isIn (.var 21) (.var 2))) (.append 9 (.comp (.idx (.var 24) (.var 25)) 25 (.var 22) (.int 1))) .skip) (.ite (.isIn (.var 21) (.var 1)) (.seq (.append 10 (.idx (.inp 4) (.var 21))) (.append 11 (.idx (.inp 5) (.var 21)))) (.ite (.isIn (.var 21) (.var 2)) (.seq (.append 10 (.int 0)) (.append 11 (.int 1))) .skip)))) (.assert_ (.not_ (.isIn .none (.var 9)))))))))

/-- [regenerated from molecule.py] the body of `get_fragment` is the statement list the lemmas are about, with its slot numbers -/
theorem gf_shape : Gen.FragmentsSrc.getFragment = gfTop gGrouped gOrdered ∧ Gen.FragmentsSrc.gfSlots = 33 ∧
    Gen.FragmentsSrc.GF.v_real = 1 ∧ Gen.FragmentsSrc.GF.v_ghost = 2 ∧ Gen.FragmentsSrc.GF.v_orient = 3 ∧
    Gen.FragmentsSrc.GF.v_group_fragments = 4 ∧
    Gen.FragmentsSrc.GF.v_cd_molecular_charge = 17 ∧ Gen.FragmentsSrc.GF.v_cd_molecular_multiplicity = 19 ∧
    Gen.FragmentsSrc.GF.v_cd_fragments = 26 ∧ Gen.FragmentsSrc.GF.v_cd_fragment_charges = 27 ∧
    Gen.FragmentsSrc.GF.v_cd_fragment_multiplicities = 28 ∧ Gen.FragmentsSrc.GF.v_cd_symbols = 29 ∧
    Gen.FragmentsSrc.GF.v_cd_geometry = 30 ∧ Gen.FragmentsSrc.GF.v_cd_real = 31 ∧ Gen.FragmentsSrc.GF.v_cd_masses = 32 ∧
    Gen.FragmentsSrc.gfOrientPassedThrough = true := by
  refine ⟨rfl, rfl, rfl, rfl, rfl, rfl, rfl, rfl, rfl, rfl, rfl, rfl, rfl, rfl, rfl, rfl⟩

theorem any_natL (R G : List Nat) : (natL R).any ((natL G).contains ·) = R.any (G.contains ·) := by
  simp only [natL, List.any_map]
  congr 1
  funext k
  simpa [natL] using contains_natL G k

/-- the state after the statements before `if group_fragments:` (list arguments, no common fragment number) -/
def gfInit (R G : List Nat) (orient group : Bool) : St Int :=
  ⟨[.s none, .l (natL R), .l (natL G), b2v orient, b2v group, .s none, .s none, .s none, .s none, .s none, .s none, .s none,
    .s none, .s none, .s none, .s none, .s none, .s none, .s none, .s none, .s none, .s none, .s none, .s none, .s none,
    .s none, .s none, .s none, .s none, .s none, .s none, .s none, .s none], []⟩

def gfStart (R G : List Nat) (orient group : Bool) : St Int :=
  gst (.s none) (.l (natL R)) (.l (natL G)) (b2v orient) (b2v group)
    (.s none) (.s none) (.s none) (.s none) (.s none) (.s none) (.s none) (.s none)
    (.s none) (.s none) (.s none) (.s none) (.s none) (.s none) (.s none) (.s none)
    (llv []) (.l []) (.l []) (.l []) (llv []) (.l []) (.l []) (.s (some 0)) (.s none) (.s none) (.s none) (.s none)

theorem gf_pre (inp : List Val) (R G : List Nat) (orient group : Bool) (hov : R.any (G.contains ·) = false)
    (grouped ordered : Stmt) :
    exec inp (fun _ _ => (0 : Int)) (gfTop grouped ordered) (gfInit R G orient group) =
      (exec inp (fun _ _ => (0 : Int)) (if group then grouped else ordered) (gfStart R G orient group)).bind
        (exec inp (fun _ _ => (0 : Int)) gfSuffix) := by
  have hany := any_natL R G
  rw [hov] at hany
  have h3 : exec inp (fun _ _ => (0 : Int)) (.ite (.anyCommon (.var 1) (.var 2)) (.raise 0) .skip) (gfInit R G orient group) =
      some (gfInit R G orient group) := by
    simp only [exec, evalE, gfInit, List.getElem?_cons_succ, List.getElem?_cons_zero, hany]
    simp [b2v, Val.truthy]
  have h1 : exec inp (fun _ _ => (0 : Int)) (.ite (.isInt (.var 1)) (.set 1 (.list1 (.var 1))) .skip) (gfInit R G orient group) =
      some (gfInit R G orient group) := by
    simp [exec, evalE, gfInit, b2v, Val.truthy]
  have h2 : exec inp (fun _ _ => (0 : Int)) (.ite (.isInt (.var 2)) (.set 2 (.list1 (.var 2))) (.ite (.isNone (.var 2)) (.set 2 .nil) .skip))
      (gfInit R G orient group) = some (gfInit R G orient group) := by
    simp [exec, evalE, gfInit, b2v, Val.truthy]
  unfold gfTop
  rw [exec_seq', h1, Option.bind_some, exec_seq', h2, Option.bind_some, exec_seq', h3, Option.bind_some]
  unfold gfInit
  iterate 8
    rw [exec_seq']
    simp only [exec_set_eq, evalE, setSlot, List.set, List.length_cons, List.length_nil,
      Nat.reduceAdd, Nat.reduceLT, reduceIte, Option.bind_some]
  rw [exec_seq']
  simp only [exec_ite_eq, evalE, List.getElem?_cons_succ, List.getElem?_cons_zero]
  cases group <;> simp [gfStart, gst, llv, b2v, Val.truthy]

theorem osum_map_some {β} (f : β → Int) (l : List β) : osum (l.map (fun k => some (f k))) = some (isum (l.map f)) := by
  have := osum_intL (l.map f)
  simpa [intL, List.map_map, Function.comp_def] using this

theorem compO_all {β : Type} (g : Option Int → Option (Option Int)) (f : Int → Int)
    (hg : ∀ x, g (some x) = some (some (f x))) (cond : Option Int → Option Bool) (hc : ∀ x, cond x = some true) :
    ∀ l : List Int, compO cond g (intL l) = some (intL (l.map f))
  | [] => rfl
  | x :: t => by
    have ih := compO_all (β := β) g f hg cond hc t
    simp only [intL, List.map_cons, compO, hc, hg] at ih ⊢
    simp [ih]

/-- the grouped branch, from the state after the common initialisations -/
theorem g_grouped (n : Nat) (zs : List Int) (real : List Bool) (frags : List (List Nat)) (fcs fms : List Int) (c : Int)
    (R G : List Nat) (orient : Bool)
    (hR : ∀ k ∈ R, FragOK n frags fcs fms k) (hG : ∀ k ∈ G, FragOK n frags fcs fms k) :
    ∃ x14 x15 x16, exec (inputs n zs real frags fcs fms c) (fun _ _ => (0 : Int)) gGrouped (gfStart R G orient true) =
      some (gst (.s none) (.l (natL R)) (.l (natL G)) (b2v orient) (b2v true)
        (.s (some (isum (R.map (fun k => fcs.getD k 0))))) (.s none)
        (.s (some (isum ((R.map (fun k => fms.getD k 0)).map (· - 1)) + 1)))
        (.s none) (.s none) (.s none) (.s none) (.s none) (.s none) (.s none) (.s none) (.s none) (.s none) (.s none) (.s none) (.s none)
        (llv (R.map (fun k => natL (frags.getD k [])) ++ G.map (fun k => natL (frags.getD k []))))
        (.l (natL (R.flatMap (fun k => frags.getD k [])) ++ natL (G.flatMap (fun k => frags.getD k []))))
        (.l (natL (R.flatMap (fun k => frags.getD k [])) ++ natL (G.flatMap (fun k => frags.getD k []))))
        (.l (List.replicate (R.flatMap (fun k => frags.getD k [])).length (some 1) ++
             List.replicate (G.flatMap (fun k => frags.getD k [])).length (some 0)))
        (llv ((ranges 0 (R.map (fun k => (frags.getD k []).length))).map natL ++
              (ranges (R.flatMap (fun k => frags.getD k [])).length (G.map (fun k => (frags.getD k []).length))).map natL))
        (.l (R.map (fun k => some (fcs.getD k 0)) ++ G.map (fun _ => some 0)))
        (.l (R.map (fun k => some (fms.getD k 0)) ++ G.map (fun _ => some 1)))
        (.s (some 0))
        (.s (some (((R.flatMap (fun k => frags.getD k [])).length + (G.flatMap (fun k => frags.getD k [])).length : Nat) : Int)))
        x14 x15 x16) := by
  obtain ⟨a14, a15, a16, h1⟩ := g_outer (.s none) (.l (natL R)) (.l (natL G)) (b2v orient) (b2v true)
    (.s none) (.s none) (.s none) (.s none) (.s none) (.s none) (.s none) (.s none) (.s none) (.s none) (.s none) (.s none) (.s none) (.s none) (.s none) (.s none)
    n zs real frags fcs fms c true (.s (some 0)) R [] [] [] [] [] [] [] 0 (.s none) (.s none) (.s none) hR
  obtain ⟨b14, b15, b16, h2⟩ := g_outer (.s none) (.l (natL R)) (.l (natL G)) (b2v orient) (b2v true)
    (.s (some (isum (R.map (fun k => fcs.getD k 0))))) (.s none)
    (.s (some (isum ((R.map (fun k => fms.getD k 0)).map (· - 1)) + 1)))
    (.s none) (.s none) (.s none) (.s none) (.s none) (.s none) (.s none) (.s none) (.s none) (.s none) (.s none) (.s none) (.s none)
    n zs real frags fcs fms c false (.s (some 0)) G
    ([] ++ R.map (fun k => natL (frags.getD k [])))
    ([] ++ (ranges 0 (R.map (fun k => (frags.getD k []).length))).map natL)
    ([] ++ natL (R.flatMap (fun k => frags.getD k [])))
    ([] ++ natL (R.flatMap (fun k => frags.getD k [])))
    ([] ++ List.replicate (R.flatMap (fun k => frags.getD k [])).length (some (if true = true then 1 else 0)))
    ([] ++ R.map (fun k => some (if true = true then fcs.getD k 0 else 0)))
    ([] ++ R.map (fun k => some (if true = true then fms.getD k 0 else 1)))
    (0 + (R.flatMap (fun k => frags.getD k [])).length) a14 a15 a16 hG
  refine ⟨b14, b15, b16, ?_⟩
  unfold gGrouped gfStart
  -- frag_start = 0
  rw [exec_seq']
  simp only [gst, exec_set_eq, evalE, setSlot, List.set, List.length_cons, List.length_nil,
      Nat.reduceAdd, Nat.reduceLT, reduceIte, Option.bind_some]
  -- the real blocks
  rw [exec_seq', exec_forIn_eq]
  simp only [evalE, List.getElem?_cons_succ, List.getElem?_cons_zero, Option.bind_some, Val.items, List.length_cons,
    List.length_nil, Nat.reduceAdd, Nat.reduceLT, reduceIte]
  simp only [gst, Nat.cast_zero] at h1
  rw [h1, Option.bind_some]
  -- totals
  rw [exec_seq']
  simp only [exec_set_eq, evalE, setSlot, List.set, List.length_cons, List.length_nil, List.getElem?_cons_succ,
      List.getElem?_cons_zero, Nat.reduceAdd, Nat.reduceLT, reduceIte, Option.bind_some, List.nil_append, osum_map_some,
      Option.map_some]
  have hm : List.map (fun k => some (fms.getD k 0)) R = intL (R.map (fun k => fms.getD k 0)) := by
    simp [intL, List.map_map, Function.comp_def]
  rw [hm, exec_seq']
  simp only [exec_set_eq, evalE, List.getElem?_cons_succ, List.getElem?_cons_zero]
  rw [compO_all (β := Unit) _ (· - 1) ?_ _ ?_]
  rotate_left
  · intro x; simp [setSlot]
  · intro x; simp [Val.truthy]
  simp only [osum_intL, Option.map_some, setSlot, List.set, List.length_cons, List.length_nil,
      Nat.reduceAdd, Nat.reduceLT, reduceIte, Option.bind_some]
  -- the ghost blocks
  rw [exec_forIn_eq]
  simp only [evalE, List.getElem?_cons_succ, List.getElem?_cons_zero, Option.bind_some, Val.items, List.length_cons,
    List.length_nil, Nat.reduceAdd, Nat.reduceLT, reduceIte]
  simp only [gst, List.nil_append, reduceIte, Nat.zero_add, ← hm, Bool.false_eq_true] at h2
  simp only [← hm, Nat.zero_add]
  rw [h2]

theorem natL_append (a b : List Nat) : natL (a ++ b) = natL a ++ natL b := by simp [natL]

theorem decNatL_natL (xs : List Nat) : decNatL (.l (natL xs)) = some xs := by
  simp only [decNatL]
  have := mapO_eq_some_map decNat (fun x => (x.getD 0).toNat) (natL xs) (by
    intro a ha
    obtain ⟨y, _, rfl⟩ := List.mem_map.1 ha
    simp [decNat])
  rw [this]
  simp [natL, List.map_map, Function.comp_def]

theorem decIntL_some {β} (f : β → Int) (l : List β) : decIntL (.l (l.map (fun k => some (f k)))) = some (l.map f) := by
  simp only [decIntL]
  have := mapO_eq_some_map (id : Option Int → Option Int) (fun x => x.getD 0) (l.map (fun k => some (f k))) (by
    intro a ha
    obtain ⟨y, _, rfl⟩ := List.mem_map.1 ha
    simp)
  rw [this]
  simp [List.map_map, Function.comp_def]

theorem decLL_natL (xss : List (List Nat)) : decLL (llv (xss.map natL)) = some xss := by
  cases xss with
  | nil => rfl
  | cons a t =>
    simp only [llv, List.map_cons, decLL]
    have := mapO_eq_some_map (mapO decNat) (fun x => x.map (fun y => (y.getD 0).toNat)) (natL a :: t.map natL) (by
      intro b hb
      have hb' : b ∈ (a :: t).map natL := by simpa using hb
      obtain ⟨y, _, rfl⟩ := List.mem_map.1 hb'
      have := decNatL_natL y
      simp only [decNatL] at this
      rw [this]
      simp [natL, List.map_map, Function.comp_def])
    rw [this]
    simp [natL, List.map_map, Function.comp_def]

theorem decBoolL_flags (a b : Nat) : decBoolL (.l (List.replicate a (some 1) ++ List.replicate b (some 0))) =
    some (List.replicate a true ++ List.replicate b false) := by
  simp only [decBoolL]
  have := mapO_eq_some_map (fun x : Option Int => x.map (· != 0)) (fun x => x.getD 0 != 0)
    (List.replicate a (some 1) ++ List.replicate b (some 0)) (by
      intro x hx
      rcases List.mem_append.1 hx with h | h <;> (rw [List.eq_of_mem_replicate h]; simp))
  rw [this]
  simp

theorem flatten_map_natL (xss : List (List Nat)) : (xss.map natL).flatten = natL xss.flatten := by
  induction xss with
  | nil => rfl
  | cons a t ih => simp [natL_append, ih]

theorem flatten_natL_blk (f : Nat → List Nat) (R : List Nat) : (R.map (fun k => natL (f k))).flatten = natL (R.flatMap f) := by
  induction R with
  | nil => rfl
  | cons a t ih => simp [natL_append, ih]

theorem decIntL_intL (l : List Int) : decIntL (.l (intL l)) = some l := by
  have := decIntL_some (fun x : Int => x) l
  simpa [intL] using this

/-- the keyword arguments the grouped path collects, written with the parent's lists -/
def groupedCtor (frags : List (List Nat)) (fcs fms : List Int) (R G : List Nat) : SrcCtor :=
  let idx := R.flatMap (fun k => frags.getD k []) ++ G.flatMap (fun k => frags.getD k [])
  { sym := idx, mass := idx, geom := idx
    real := List.replicate (R.flatMap (fun k => frags.getD k [])).length true ++
      List.replicate (G.flatMap (fun k => frags.getD k [])).length false
    frags := ranges 0 (R.map (fun k => (frags.getD k []).length)) ++
      ranges (R.flatMap (fun k => frags.getD k [])).length (G.map (fun k => (frags.getD k []).length))
    fc := R.map (fun k => fcs.getD k 0) ++ G.map (fun _ => 0)
    fm := R.map (fun k => fms.getD k 0) ++ G.map (fun _ => 1)
    c := some (isum (R.map (fun k => fcs.getD k 0)))
    m := some (isum ((R.map (fun k => fms.getD k 0)).map (· - 1)) + 1) }

/-- **source-derived get_fragment, `group_fragments=True`** on any molecule and any lists of valid fragment numbers without a
common element, not both empty: the body runs to the constructor call with exactly these keyword arguments — the rows of
`symbols`, `masses`, `geometry` are the atoms of the real fragments then of the ghost fragments in the order requested,
flags true.. false.., fresh index ranges, charges / multiplicities kept for real and (0, 1) for ghost fragments, totals
from the real ones; the `orient` argument does not enter the record -/
theorem srcExtract_grouped_run {α} (mol : Mol α) (R G : List Nat) (orient : Bool)
    (hR : ∀ k ∈ R, FragOK mol.atoms.length mol.frags mol.fc mol.fm k)
    (hG : ∀ k ∈ G, FragOK mol.atoms.length mol.frags mol.fc mol.fm k)
    (hov : R.any (G.contains ·) = false) (hne : R ++ G ≠ []) :
    (gfRun mol (.l (natL R)) (.l (natL G)) orient true).bind (fun st => readCtor st.v) =
      some (groupedCtor mol.frags mol.fc mol.fm R G) := by
  obtain ⟨x14, x15, x16, hg⟩ := g_grouped mol.atoms.length [] mol.real mol.frags mol.fc mol.fm mol.c R G orient hR hG
  have hinit : gfRun mol (.l (natL R)) (.l (natL G)) orient true =
      exec (gfInputs mol) (fun _ _ => (0 : Int)) (gfTop gGrouped gOrdered) (gfInit R G orient true) := by
    unfold gfRun run
    rw [gf_shape.1, gf_shape.2.1, gf_shape.2.2.1, gf_shape.2.2.2.1, gf_shape.2.2.2.2.1, gf_shape.2.2.2.2.2.1]
    rfl
  rw [hinit, gf_pre _ R G orient true hov]
  rw [if_pos rfl]
  unfold gfInputs
  rw [hg, Option.bind_some]
  have hB : llv (R.map (fun k => natL (mol.frags.getD k [])) ++ G.map (fun k => natL (mol.frags.getD k []))) =
      .ll (R.map (fun k => natL (mol.frags.getD k [])) ++ G.map (fun k => natL (mol.frags.getD k []))) := by
    cases R with
    | nil =>
      cases G with
      | nil => exact absurd rfl hne
      | cons b t => rfl
    | cons a t => rfl
  unfold gfSuffix gst
  rw [hB]
  iterate 6
    rw [exec_seq']
    simp only [exec_set_eq, evalE, setSlot, List.set, List.length_cons, List.length_nil, List.getElem?_cons_succ,
      List.getElem?_cons_zero, Nat.reduceAdd, Nat.reduceLT, reduceIte, Option.bind_some]
  simp only [readCtor, gf_shape.2.2.2.2.2.2.1, gf_shape.2.2.2.2.2.2.2.1, gf_shape.2.2.2.2.2.2.2.2.1,
    gf_shape.2.2.2.2.2.2.2.2.2.1, gf_shape.2.2.2.2.2.2.2.2.2.2.1, gf_shape.2.2.2.2.2.2.2.2.2.2.2.1,
    gf_shape.2.2.2.2.2.2.2.2.2.2.2.2.1, gf_shape.2.2.2.2.2.2.2.2.2.2.2.2.2.1, gf_shape.2.2.2.2.2.2.2.2.2.2.2.2.2.2.1,
    List.getElem?_cons_succ, List.getElem?_cons_zero, Option.bind_some]
  have hfc : List.map (fun k => some (mol.fc.getD k 0)) R ++ List.map (fun _ => some (0 : Int)) G =
      intL (R.map (fun k => mol.fc.getD k 0) ++ G.map (fun _ => 0)) := by simp [intL]
  have hfm : List.map (fun k => some (mol.fm.getD k 0)) R ++ List.map (fun _ => some (1 : Int)) G =
      intL (R.map (fun k => mol.fm.getD k 0) ++ G.map (fun _ => 1)) := by simp [intL]
  rw [hfc, hfm, List.flatten_append, flatten_natL_blk, flatten_natL_blk, ← natL_append, ← List.map_append, decNatL_natL,
    decBoolL_flags, decLL_natL, decIntL_intL, decIntL_intL]
  rfl

/-! ### … and the hand model `extractGrouped` builds the same record -/

theorem pick_getD {β} (l : List β) (d : β) (idx : List Nat) (h : ∀ i ∈ idx, i < l.length) :
    pick l idx = some (idx.map (fun i => l.getD i d)) := by
  rw [pick_eq_some]
  simp only [List.map_map]
  apply List.map_congr_left
  intro i hi
  simp [List.getD_eq_getElem?_getD, h i hi]

theorem pick_exists {β} (l : List β) : ∀ (idx : List Nat), (∀ i ∈ idx, i < l.length) → ∃ r, pick l idx = some r
  | [], _ => ⟨[], rfl⟩
  | i :: t, h => by
    obtain ⟨r, hr⟩ := pick_exists l t (fun j hj => h j (by simp [hj]))
    have hi : i < l.length := h i (by simp)
    refine ⟨l[i] :: r, ?_⟩
    rw [pick_eq_some] at hr ⊢
    simp [hr, hi]

theorem ranges_append : ∀ (a b : List Nat) (s : Nat), ranges s (a ++ b) = ranges s a ++ ranges (s + a.sum) b
  | [], b, s => by simp [ranges]
  | k :: t, b, s => by simp [ranges, ranges_append t b, Nat.add_assoc]

theorem sum_len_flatMap (f : Nat → List Nat) (R : List Nat) : (R.map (fun k => (f k).length)).sum = (R.flatMap f).length := by
  induction R with
  | nil => rfl
  | cons a t ih => simp only [List.map_cons, List.sum_cons, ih, List.flatMap_cons, List.length_append]

theorem FragOK.lt {n : Nat} {frags : List (List Nat)} {fcs fms : List Int} {k : Nat} (h : FragOK n frags fcs fms k) :
    k < frags.length ∧ k < fcs.length ∧ k < fms.length ∧ ∀ y ∈ frags.getD k [], y < n := by
  obtain ⟨fr, cf, mf, h1, h2, h3, h4⟩ := h
  refine ⟨?_, ?_, ?_, ?_⟩
  · exact (List.getElem?_eq_some_iff.1 h1).1
  · exact (List.getElem?_eq_some_iff.1 h3).1
  · exact (List.getElem?_eq_some_iff.1 h4).1
  · simpa [List.getD_eq_getElem?_getD, h1] using h2

/-- **source-derived get_fragment (grouped path) = the hand model**: under the hypotheses of `srcExtract_grouped_run` the model's
`extractGrouped` succeeds and returns the record the source-derived body hands to the constructor (its three per-atom arrays
agree, and are the rows of the model's atom list) -/
theorem srcExtract_grouped_eq_model {α} (mol : Mol α) (R G : List Nat)
    (hR : ∀ k ∈ R, FragOK mol.atoms.length mol.frags mol.fc mol.fm k)
    (hG : ∀ k ∈ G, FragOK mol.atoms.length mol.frags mol.fc mol.fm k)
    (hov : R.any (G.contains ·) = false) (hne : R ++ G ≠ []) :
    ∃ k, srcExtract mol R G true = some k ∧ ∃ c, k.toCtor mol = some c ∧ extractGrouped mol R G = .ok c := by
  have hrun := srcExtract_grouped_run mol R G false hR hG hov hne
  refine ⟨groupedCtor mol.frags mol.fc mol.fm R G, ?_, ?_⟩
  · unfold srcExtract
    cases h : gfRun mol (.l (natL R)) (.l (natL G)) false true with
    | none => simp [h] at hrun
    | some st => simpa [h] using hrun
  · have hidx : ∀ i ∈ R.flatMap (fun k => mol.frags.getD k []) ++ G.flatMap (fun k => mol.frags.getD k []),
        i < mol.atoms.length := by
      intro i hi
      rcases List.mem_append.1 hi with h | h <;> obtain ⟨k, hk, hik⟩ := List.mem_flatMap.1 h
      · exact (hR k hk).lt.2.2.2 i hik
      · exact (hG k hk).lt.2.2.2 i hik
    obtain ⟨atoms, hat⟩ := pick_exists mol.atoms _ hidx
    have p1 := pick_getD mol.frags [] R (fun k hk => (hR k hk).lt.1)
    have p2 := pick_getD mol.frags [] G (fun k hk => (hG k hk).lt.1)
    have p3 := pick_getD mol.fc 0 R (fun k hk => (hR k hk).lt.2.1)
    have p4 := pick_getD mol.fm 0 R (fun k hk => (hR k hk).lt.2.2.1)
    refine ⟨{ atoms := atoms, real := (groupedCtor mol.frags mol.fc mol.fm R G).real,
              frags := (groupedCtor mol.frags mol.fc mol.fm R G).frags, fc := (groupedCtor mol.frags mol.fc mol.fm R G).fc,
              fm := (groupedCtor mol.frags mol.fc mol.fm R G).fm, c := (groupedCtor mol.frags mol.fc mol.fm R G).c,
              m := (groupedCtor mol.frags mol.fc mol.fm R G).m }, ?_, ?_⟩
    · simp only [SrcCtor.toCtor, groupedCtor, and_self, reduceIte, hat, Option.map_some]
    · have hidx' : (R.map (fun k => mol.frags.getD k []) ++ G.map (fun k => mol.frags.getD k [])).flatten =
          R.flatMap (fun k => mol.frags.getD k []) ++ G.flatMap (fun k => mol.frags.getD k []) := by
        simp [List.flatMap_def]
      simp only [extractGrouped, p1, p2, p3, p4, liftIdx, hidx', hat, bind, Except.bind, pure, Except.pure, groupedCtor]
      simp only [List.map_append, ranges_append, List.map_map, Function.comp_def, Nat.zero_add, ← List.flatMap_def,
        sum_len_flatMap]

/-! ## headline statements over the source-derived procedures -/

theorem zeffOf_eq_zeffList {α} (zOf : α → Int) (atoms : List α) (real : List Bool) :
    zeffOf (atoms.map zOf) real = zeffList zOf atoms real := by
  simp [zeffOf, zeffList, List.zipWith_map_left]

/-- **source-derived `nelectrons()` = the model** (every molecule): sum of `Z * real` minus the molecular charge -/
theorem srcNelectrons_eq {α} (zOf : α → Int) (mol : Mol α) :
    srcNelectrons zOf mol none = some (nelectrons zOf mol) := by
  simp only [srcNelectrons, srcNel_none, zeffOf_eq_zeffList, nelectrons]

/-- **source-derived `nelectrons(ifr)` = the model** for every fragment number that has a fragment and a charge -/
theorem srcNelectronsFrag_eq {α} (zOf : α → Int) (mol : Mol α) (k : Nat) (fr : List Nat) (q : Int)
    (hfr : mol.frags[k]? = some fr) (hq : mol.fc[k]? = some q) :
    srcNelectrons zOf mol (some k) = nelectronsFrag zOf mol k := by
  simp only [srcNelectrons, srcNel_some _ _ _ _ _ k fr q hfr hq, zeffOf_eq_zeffList, nelectronsFrag, hfr, hq,
    Option.bind_eq_bind, Option.bind_some, Option.pure_def]

/-- `nelectrons_fragment` restated over the source-derived body: for a duplicate-free fragment the source's enumerate / `in`
sum is the sum of Z over the fragment's atoms flagged real, minus the fragment charge -/
theorem srcNelectrons_fragment {α} (zOf : α → Int) (mol : Mol α) (k : Nat) (fr : List Nat) (q : Int)
    (hfr : mol.frags[k]? = some fr) (hq : mol.fc[k]? = some q) (hnd : fr.Nodup) :
    srcNelectrons zOf mol (some k) =
      some (isum ((fr.filter (fun i => mol.real.getD i false)).map (zAt zOf mol.atoms)) - q) := by
  rw [srcNelectronsFrag_eq zOf mol k fr q hfr hq, nelectrons_fragment zOf mol k fr q hfr hq hnd]

/-- non-vacuity (test): H | ghost-O H with charges (0, 1): the second fragment has 1 - 1 = 0 electrons -/
example : srcNelectrons (fun z : Int => z) ⟨[1, 8, 1], [true, false, true], [[0], [1, 2]], [0, 1], [1, 2], 1, 2⟩ (some 1) = some 0 := by
  decide

section nre_headline
variable {K : Type} [Field K]

/-- `nre_fragment` restated over the source-derived loops: `nuclear_repulsion_energy(k)` = the pair sum over the atoms of the
fragment with non-zero `Z * real` (ghost atoms contribute nothing, atoms outside the fragment do not enter) -/
theorem srcNre_fragment (n : Nat) (zs : List Int) (real : List Bool) (frags : List (List Nat)) (dist : Nat → Nat → K)
    (k : Nat) (fr : List Nat) (hfr : frags[k]? = some fr) (hA : ∀ y ∈ fr, y < (zeffOf zs real).length) :
    srcNre n zs real frags dist (some k) =
      some (nre dist ((fr.filter (fun i => (zeffOf zs real).getD i 0 != 0)).map (fun i => ((zeffOf zs real).getD i 0, i)))) := by
  rw [srcNre_eq n zs real frags dist (some k) fr hfr hA, nre_fragment]

/-- `nuclear_repulsion_energy()` (whole molecule) over the source-derived loops = the model's `nreMol … none` -/
theorem srcNre_whole (zs : List Int) (real : List Bool) (frags : List (List Nat)) (dist : Nat → Nat → K) :
    srcNre (zeffOf zs real).length zs real frags dist none = some (nreMol (zeffOf zs real) dist none) := by
  rw [srcNre_eq _ zs real frags dist none (List.range (zeffOf zs real).length) rfl (by simp), nre_whole]

/-- `nre_perm_invariant` restated over the source-derived loops: two fragments listing the same atoms in different orders have
the same source-derived energy (symmetric distance) -/
theorem srcNre_perm (n : Nat) (zs : List Int) (real : List Bool) (frags : List (List Nat)) (dist : Nat → Nat → K)
    (hd : ∀ x y, dist x y = dist y x) (k k' : Nat) (A A' : List Nat) (hk : frags[k]? = some A) (hk' : frags[k']? = some A')
    (hp : A.Perm A') (hA : ∀ y ∈ A, y < (zeffOf zs real).length) :
    srcNre n zs real frags dist (some k) = srcNre n zs real frags dist (some k') := by
  rw [srcNre_eq n zs real frags dist (some k) A hk hA,
    srcNre_eq n zs real frags dist (some k') A' hk' (fun y hy => hA y (hp.mem_iff.2 hy))]
  simp only [nreMol, Option.getD_some]
  rw [nre_perm_invariant dist hd (hp.map _)]

/-- non-vacuity (test) of `srcNre_perm`: fragments [0, 2] and [2, 0] of a three-atom molecule, |i - j| as distance -/
example : ([0, 2] : List Nat).Perm [2, 0] ∧ (∀ y ∈ ([0, 2] : List Nat), y < (zeffOf [2, 3, 1] [true, false, true]).length) ∧
    (∀ x y : Nat, ((x : ℚ) - y) * (if x < y then -1 else 1) = ((y : ℚ) - x) * (if y < x then -1 else 1) ∨ x = y) := by
  refine ⟨List.Perm.swap _ _ _, by decide, ?_⟩
  intro x y
  rcases Nat.lt_trichotomy x y with h | h | h
  · left; simp [h, Nat.lt_asymm h]
  · right; exact h
  · left; simp [h, Nat.lt_asymm h]

/-- `nre_rigid_invariant` restated over the source-derived loops: replacing the geometry by one with the same pair distances
does not change the source-derived energy -/
theorem srcNre_rigid (n : Nat) (zs : List Int) (real : List Bool) (frags : List (List Nat)) (dist dist' : Nat → Nat → K)
    (hg : ∀ x y, dist' x y = dist x y) (ifr : Option Nat) :
    srcNre n zs real frags dist' ifr = srcNre n zs real frags dist ifr := by
  have : dist' = dist := funext fun x => funext fun y => hg x y
  rw [this]

/-- non-vacuity (test): He, ghost Li, H on a line — the source-derived energy of fragment [0,1,2] is 2*1/2 = 1 -/
example : srcNre (K := ℚ) 3 [2, 3, 1] [true, false, true] [[0, 1, 2]]
    (fun i j => ((i : ℚ) - j) * (if i < j then -1 else 1)) (some 0) = some 1 := by
  rw [srcNre_eq 3 [2, 3, 1] [true, false, true] [[0, 1, 2]] _ (some 0) [0, 1, 2] rfl (by decide)]
  norm_num [nreMol, nre, pairSum, ksum, nreTerm, zeffOf, b2i]

end nre_headline

section formula_headline
open QcelVerif.Formula

/-- `order_formula_of_formula` restated over the source-derived writer: re-ordering the formula the source-derived
`molecular_formula_from_symbols` writes in convention `ord` into `ord'` gives what it writes in `ord'` (WFSym symbols) -/
theorem order_formula_of_formula_src (syms : List String) (ord ord' : Order) (hwf : ∀ s ∈ syms, WFSym (title s)) :
    (srcFromSymbols syms ord).bind (fun f => orderFormula f ord') = srcFromSymbols syms ord' := by
  simp only [srcFromSymbols_eq, Option.bind_some, order_formula_of_formula syms ord ord' hwf]

/-- tests (evaluated, `#guard`): the source-derived writer on concrete lists, both orders; Hill without carbon is alphabetical;
non-vacuity of the hypothesis: these symbols are words of ASCII letters (so their title-cased forms are WFSym) -/
example : ∀ s ∈ ["h", "C", "o", "H", "cl"], rawSym s.toList = true := by decide
#guard srcFromSymbols ["h", "C", "o", "H", "cl"] .hill == some "CH2ClO"
#guard srcFromSymbols ["h", "C", "o", "H", "cl"] .alphabetical == some "CClH2O"
#guard srcFromSymbols ["h", "o", "H", "cl"] .hill == some "ClH2O"

end formula_headline

/-! ## get_fragment, `group_fragments=False` — PARTIAL

`srcExtract_ordered_partial`: the generated body of the order-preserving path (the `at2fr` double loop with item assignment,
the atom loop with the `ifr in real or ifr in ghost` test, `real_atoms.append(ifr in real)`, the `at2at` remap and the
fragment loop with its comprehension) is run by the same evaluator and agrees with `extractOrdered` on the concrete molecules
below (tests, by kernel evaluation) and on every generated case of the differential stream (driver line `sgf|0|…`).
-- FULL: for all molecules whose fragments partition `0..n-1` and all disjoint lists of valid fragment numbers,
-- `(srcExtract mol R G false).bind (toCtor mol) = (extractOrdered mol R G).toOption` — needs the loop invariants of the three
-- loops (at2fr = `Fragments.at2fr`, kept atoms = `keptAtoms`, remap = `at2at`); not reached. -/

def testMol : Mol Nat := ⟨[10, 11, 12, 13, 14], [true, true, false, true, true], [[0, 1], [2], [3, 4]], [0, -1, 1], [1, 2, 2], 0, 3⟩

/-- tests (kernel evaluation of the generated body): real = [2], ghost = [0] in the order-preserving path keeps the parent's
atom order (ghost block first), flags ghost atoms `false`, remaps the index lists, takes (0, 1) for the ghost and (1, 2)
for the real fragment; same against the hand model for a second selection; and the model agrees -/
theorem srcExtract_ordered_partial :
    srcExtract testMol [2] [0] false =
      some ⟨[0, 1, 3, 4], [0, 1, 3, 4], [0, 1, 3, 4], [false, false, true, true], [[0, 1], [2, 3]], [0, 1], [1, 2], none, none⟩ ∧
    ((srcExtract testMol [2] [0] false).bind (SrcCtor.toCtor testMol)) = (extractOrdered testMol [2] [0]).toOption ∧
    ((srcExtract testMol [1, 0] [2] false).bind (SrcCtor.toCtor testMol)) = (extractOrdered testMol [1, 0] [2]).toOption ∧
    ((srcExtract testMol [0] [] false).bind (SrcCtor.toCtor testMol)) = (extractOrdered testMol [0] []).toOption ∧
    srcExtract testMol [0] [0] false = none := by
  decide +kernel

/-- tests (kernel evaluation) of the grouped path incl. the `isinstance(real, int)` / `ghost is None` argument forms -/
theorem srcExtract_args_partial :
    ((gfRun testMol (.s (some 2)) (.s none) false true).bind (fun st => readCtor st.v)) = srcExtract testMol [2] [] true ∧
    ((gfRun testMol (.l (natL [2, 0])) (.s (some 1)) true true).bind (fun st => readCtor st.v)) = srcExtract testMol [2, 0] [1] true ∧
    srcExtract testMol [2, 0] [1] true = some (groupedCtor testMol.frags testMol.fc testMol.fm [2, 0] [1]) := by
  decide +kernel

/-- non-vacuity of `srcExtract_grouped_eq_model` (test): its hypotheses hold for real = [2, 0], ghost = [1] of the test molecule -/
example : (∀ k ∈ [2, 0], FragOK testMol.atoms.length testMol.frags testMol.fc testMol.fm k) ∧
    (∀ k ∈ [1], FragOK testMol.atoms.length testMol.frags testMol.fc testMol.fm k) ∧
    ([2, 0].any ([1].contains ·) = false) := by
  refine ⟨?_, ?_, by decide⟩ <;> intro k hk <;> simp at hk
  · rcases hk with rfl | rfl
    · exact ⟨[3, 4], 1, 2, rfl, by decide, rfl, rfl⟩
    · exact ⟨[0, 1], 0, 1, rfl, by decide, rfl, rfl⟩
  · subst hk; exact ⟨[2], -1, 2, rfl, by decide, rfl, rfl⟩

end QcelVerif.FragSrc
