import QcelVerif.Props.C02Pred
/-! C02: attribute and float theorems about `PhysicalConstantsContext("CODATA2014")` (kernel evaluation). -/
namespace QcelVerif.Constants
open QcelVerif
set_option maxRecDepth 100000

/-- **Attributes are faithful and floats are nearest (2014)**: for every entry of `pc` (published
constants, calorie-joule relationship, legacy names, aliases) the attribute named by the mangled
label holds `float(data)`; no two labels share a mangled name (as many attributes as entries, so no
attribute is overwritten by another constant); and every such float is the double nearest to the
Decimal — right sign, finite, neither neighbouring double closer, even mantissa on a tie. -/
theorem attrs_and_floats_2014 : withCtx ctx2014 ctxChecks = true := by decide +kernel

end QcelVerif.Constants
