import QcelVerif.Model.F64Check
/-!
# ConstTie — shared helper of the `Props/ConstTie<Cxx>.lean` files (core Lean only)

`Gen/SrcConsts.lean` (rewritten from the working tree's Python sources on every run by `tools/gen_srcconsts.py`)
gives every float literal four ways: `X` the exact decimal value of its source text, `X_dec` the decimal as
(negative, coefficient, exponent), `X_bits` the IEEE-754 binary64 pattern and `X_f64` the exact value of that double.
`FloatLit.ok` re-checks, by kernel evaluation, that these belong together:

  * `X_dec` denotes `X`;
  * `X_bits` is the double nearest to `X_dec` (ties to even) — the independent statement `F64Check.nearestOk`,
    not an algorithm; `0.0` is `+0`;
  * the value of `X_bits` is `X_f64`.

So `X_f64` is *proved* to be what a correctly rounding `float()` makes of the literal: CPython's parser is not
trusted for the tied constants, only "CPython rounds literals correctly" (already in the trusted base, §1.6-5).
-/
namespace QcelVerif.ConstTie
open QcelVerif

/-- the value of the (possibly negative) double with bit pattern `bits` -/
def f64Signed (bits : Nat) : Rat :=
  if bits / 2 ^ 63 = 1 then - F64Check.f64Val (bits % 2 ^ 63) else F64Check.f64Val (bits % 2 ^ 63)

/-- decimal text ↔ exact value ↔ nearest double ↔ value of the double -/
def FloatLit.ok (exact : Rat) (dec : Bool × Nat × Int) (bits : Nat) (f64 : Rat) : Bool :=
  let d : Dec := ⟨dec.1, dec.2.1, dec.2.2⟩
  decide (d.val = exact) &&
  (if dec.2.1 = 0 then bits % 2 ^ 63 == 0 else F64Check.nearestOk d bits) &&
  decide (f64Signed bits = f64)

/-- test: `0.1` -/
example : FloatLit.ok ((1 : Rat) / 10) (false, 1, -1) 4591870180066957722 ((3602879701896397 : Rat) / 36028797018963968) = true := by
  decide +kernel
/-- test: a neighbouring double is refused -/
example : FloatLit.ok ((1 : Rat) / 10) (false, 1, -1) 4591870180066957723 ((3602879701896397 : Rat) / 36028797018963968) = false := by
  decide +kernel
/-- test: `-1.0` -/
example : FloatLit.ok (-1 : Rat) (true, 10, -1) 13830554455654793216 (-1 : Rat) = true := by decide +kernel
/-- test: `0.0` -/
example : FloatLit.ok 0 (false, 0, -1) 0 0 = true := by decide +kernel

end QcelVerif.ConstTie
