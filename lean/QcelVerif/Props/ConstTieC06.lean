import QcelVerif.Model.NucleusShipped
import QcelVerif.Gen.SrcConsts
import QcelVerif.Props.ConstTieLib
/-!
# C06 — the literals inside `Model/Nucleus.lean` are those of `nucleus.py`

The model of `reconcile_nucleus` carries four literals inline: the ±`mmtol` widening of an element's physical mass
window (`offerZ`), the nonphysical mass floor `x > 0.5` (`MPred.holds`), the nonphysical mass-number floor `x >= 1`
and the unknown-A sentinel `-1` (`APred.holds`, `massToA`).  `Gen/SrcConsts.lean` is rewritten on every run from
`qcelemental/molparse/nucleus.py` (by `ast`).  Each theorem states the behaviour of the model function that
identifies the literal, for all arguments, with the generated value in its place.  (`mtol` is an argument of the
model; its default `1.0e-3` is tied as a literal and compared with the harness's `DOC_DEFAULTS` by the translator.)
Core Lean only.

PROPERTY-THEOREMS: nucleus_float_literals_ok nonphysical_mass_floor_matches_source physical_mass_window_matches_source
  mass_number_ranges_match_source unknown_A_sentinel_matches_source mtol_edge_inside
-/
namespace QcelVerif.Nucleus
open QcelVerif QcelVerif.ConstTie

theorem nucleus_float_literals_ok :
    FloatLit.ok Src.reconcile_nucleus.mtol Src.reconcile_nucleus.mtol_dec Src.reconcile_nucleus.mtol_bits Src.reconcile_nucleus.mtol_f64 = true ∧
    FloatLit.ok Src.reconcile_nucleus.mmtol Src.reconcile_nucleus.mmtol_dec Src.reconcile_nucleus.mmtol_bits Src.reconcile_nucleus.mmtol_f64 = true ∧
    FloatLit.ok Src.reconcile_nucleus.nonphysical_mass_above Src.reconcile_nucleus.nonphysical_mass_above_dec
      Src.reconcile_nucleus.nonphysical_mass_above_bits Src.reconcile_nucleus.nonphysical_mass_above_f64 = true := by
  decide +kernel

/-- `nonphysical=True`: the only demand on a mass is `x > 0.5` (strict), with the source's literal as a double -/
theorem nonphysical_mass_floor_matches_source (rd : Rat → Rat) (lo hi x : Rat) :
    MPred.holds rd (.range true lo hi) x = decide (Src.reconcile_nucleus.nonphysical_mass_above_f64 < x) := by
  have h : Src.reconcile_nucleus.nonphysical_mass_above_f64 = 1 / 2 := by decide +kernel
  simp [MPred.holds, h]

/-- the physical mass window an element offers is `[fl(mmin − mmtol), fl(mmax + mmtol)]`, both ends closed, with
the source's `mmtol` as a double: whatever `offerZ` answers, its mass test is that window over the element's range -/
theorem physical_mass_window_matches_source (N : NTables) (rd : Rat → Rat) (rng : Nat → Option Range) (np : Bool)
    (z : Int) (o : ZOffer) (h : offerZ N rd rng np z = .ok o) :
    ∃ r, rng o.sym = some r ∧
      o.mPred = .range np (rd (r.mmin - Src.reconcile_nucleus.mmtol_f64)) (rd (r.mmax + Src.reconcile_nucleus.mmtol_f64)) ∧
      (∀ x, MPred.holds rd (.range false (rd (r.mmin - Src.reconcile_nucleus.mmtol_f64)) (rd (r.mmax + Src.reconcile_nucleus.mmtol_f64))) x
            = (decide (rd (r.mmin - Src.reconcile_nucleus.mmtol_f64) ≤ x) && decide (x ≤ rd (r.mmax + Src.reconcile_nucleus.mmtol_f64)))) ∧
      Src.reconcile_nucleus.mass_window_closed = true := by
  have hm : Src.reconcile_nucleus.mmtol_f64 = 1 / 2 := by decide +kernel
  rw [hm]
  unfold offerZ at h
  cases h1 : N.pt.toE (.int z) false with
  | none => simp [h1, ofOpt, bind, Except.bind] at h
  | some sym =>
    cases h2 : tableMass N rd (.int z) with
    | error e => simp [h1, h2, ofOpt, bind, Except.bind] at h
    | ok zm =>
      cases h3 : N.pt.toA (.int z) with
      | none => simp [h1, h2, h3, ofOpt, bind, Except.bind] at h
      | some zA =>
        cases h4 : rng sym with
        | none => simp [h1, h2, h3, h4, ofOpt, bind, Except.bind] at h
        | some r =>
          simp [h1, h2, h3, h4, ofOpt, bind, Except.bind, pure, Except.pure] at h
          subst h
          exact ⟨r, h4, rfl, fun x => rfl, by decide⟩

/-- test (non-vacuity): with the shipped table and the double rounding, hydrogen gets an offer -/
example : (offerZ shippedN rd64 (elRange shippedN rd64) false 1).toOption.isSome = true := by decide +kernel

/-- the mass-number tests: the sentinel `S = -1` always passes; otherwise `x >= 1` (nonphysical) or the element's
closed range `[amin, amax]` -/
theorem mass_number_ranges_match_source (lo hi x : Int) :
    APred.holds (.range true lo hi) x
      = (x == Src.reconcile_nucleus.unknown_A || decide (Src.reconcile_nucleus.nonphysical_A_min ≤ x)) ∧
    APred.holds (.range false lo hi) x
      = (x == Src.reconcile_nucleus.unknown_A || (decide (lo ≤ x) && decide (x ≤ hi))) := by
  have h1 : Src.reconcile_nucleus.unknown_A = -1 := by decide
  have h2 : Src.reconcile_nucleus.nonphysical_A_min = 1 := by decide
  simp [APred.holds, h1, h2]

/-- the `A` a mass value suggests is the rounded mass, or the source's sentinel: the sentinel exactly when the
nuclide `E + str(round(mass))` is not tabulated or its mass is further than `mtol` away (`> mtol`, strict) -/
theorem unknown_A_sentinel_matches_source (N : NTables) (rd : Rat → Rat) (sym : Nat) (mtol m : Rat) :
    massToA N rd sym mtol m =
      match tableMass N rd (.str (PStr.unpack sym ++ intStr (roundHalfEven m))) with
      | .ok tm => if mtol < absR (rd (tm - m)) then Src.reconcile_nucleus.unknown_A else roundHalfEven m
      | .error _ => Src.reconcile_nucleus.unknown_A := by
  have h1 : Src.reconcile_nucleus.unknown_A = -1 := by decide
  rw [h1]; rfl

/-- at the tolerance edge (`|x − a_mass| = mtol`) the mass-number clue's mass test passes (`<= mtol`), and the source
says the same (`abs(x - a_mass) <= mtol` accepts, `abs(to_mass - m) > mtol` drops) -/
theorem mtol_edge_inside (rd : Rat → Rat) (am mtol x : Rat) (h : absR (rd (x - am)) = mtol) :
    MPred.holds rd (.near am mtol) x = true ∧ Src.reconcile_nucleus.mtol_closed = true := by
  refine ⟨?_, by decide⟩
  simp [MPred.holds, h]

/-- test (non-vacuity of `mtol_edge_inside`): identity rounding, a_mass = 12, x = 12 + 1/1000 -/
example : absR ((fun q => q) ((12 + 1 / 1000 : Rat) - 12)) = 1 / 1000 := by decide +kernel

end QcelVerif.Nucleus
