import QcelVerif.Lemmas.Protocols
import QcelVerif.Gen.ResultSpec
/-!
# C20 — the hand model against the generated description of the source

`Gen/ResultSpec.lean` is rewritten on every run from the text of qcelemental/models/results.py, procedures.py and
common_models.py (harness/c20_spec.py, by `ast`).  The theorems below are about those finite generated tables (the
quantifier is the shipped table, so they are closed by `decide`) and about their *interpretation* against the hand
model `Model/Protocols.lean` (those hold for every shape / payload / trajectory — no size bound).

PROPERTY-THEOREMS (audited on every run):
  field_names_unique declared_shape_units_agree
  props_shape_complete wfn_shape_complete wfn_unvalidated_classes
  props_validators_sound wfn_validators_sound
  model_prop_table_eq model_wfn_table_eq gen_prop_rule_agrees gen_wfn_rule_agrees
  wfn_field_order pointer_targets_exist natom_before_derivatives
  enums_eq_generated keep_lists_eq_generated wfnProtocol_follows_spec return_results_names_eq
  rr_rules_agree trajectory_generated_agrees native_stdout_eq_generated

Completeness (`props_shape_complete`, `wfn_shape_complete`) is the statement the four earlier defects violated
(ccsdt/ccsdtq dipoles missing from `_validate_poles`, scf_coulomb/scf_exchange missing from `_assert2d`,
localized_orbitals missing from `_assert2d_nao_x` — the last found by this very theorem and repaired in /repo ddb6df6).
One explicit exception remains, spelled out in the statement of `wfn_shape_complete`:
  * `localized_fock_a/b` — declared `["nmo","nmo"]`: nothing in `values` determines nmo and numpy cannot infer two
    dimensions, so no reshape rule exists (ASSUMPTIONS of harness/c20.py: no demand).
-/
namespace QcelVerif.ResultSpec
open QcelVerif.Protocols

/-! ## reading the declarations -/

/-- An `Array` field without `shape=` is classified by its `units=` (gradient, Hessian, dipole, quadrupole). -/
def unitsShape (u : String) : Option (List DeclDim) :=
  if u = "E_h/a0" then some [.sym "nat", .lit 3]
  else if u = "E_h/a0^2" then some [.sym "3nat", .sym "3nat"]
  else if u = "e a0" then some [.lit 3]
  else if u = "e a0^2" then some [.lit 3, .lit 3]
  else none

/-- the declared shape of a field: `shape=[...]` if given, else what its units say -/
def declShape (f : FieldDecl) : Option (List DeclDim) :=
  match f.shape with
  | some s => some s
  | none => f.units.bind unitsShape

/-- the reshape dimension a declared dimension demands: nmo is unknown to the validators, so it can only be `-1` -/
def demandDim : DeclDim → Option Dim
  | .lit n => some (.lit n)
  | .sym s =>
    if s = "nat" then some .natom else if s = "3nat" then some .natom3
    else if s = "nao" then some .nbf else if s = "nmo" then some .any else none

/-- derivatives cannot be shaped without `calcinfo_natom` (rejected); AO matrices are passed through when the basis
itself already failed ("do not raise multiple errors") -/
def guardOf (d : List Dim) : Guard :=
  if d.contains .natom || d.contains .natom3 then .needs else if d.contains .nbf then .skips else .free

/-- the rule a declared shape demands -/
def demand (sh : List DeclDim) : Option Rule := (sh.mapM demandDim).map (fun d => .reshape d (guardOf d))

/-- what a field demands of its validators: an array its declared shape, a string (return pointer) that its target exists -/
def fieldDemand (fs : List FieldDecl) (n : String) : Option Rule :=
  (findField fs n).bind (fun f =>
    if isStr f then some .targetExists else if isArray f then (declShape f).bind demand else none)

abbrev shGrad : List DeclDim := [.sym "nat", .lit 3]
abbrev shHess : List DeclDim := [.sym "3nat", .sym "3nat"]
abbrev shDip : List DeclDim := [.lit 3]
abbrev shQuad : List DeclDim := [.lit 3, .lit 3]
abbrev shAO : List DeclDim := [.sym "nao", .sym "nao"]
abbrev shOrb : List DeclDim := [.sym "nao", .sym "nmo"]
abbrev shVec : List DeclDim := [.sym "nmo"]
abbrev shMO : List DeclDim := [.sym "nmo", .sym "nmo"]

/-! ## the generated tables on their own -/

/-- field names are unique in both classes (lookups by name are unambiguous) -/
theorem field_names_unique :
    (Gen.propsFields.map (·.name)).Nodup ∧ (Gen.wfnFields.map (·.name)).Nodup := by
  constructor <;> decide

/-- where a field carries both `shape=` and `units=`, the two classifications agree -/
theorem declared_shape_units_agree :
    ∀ f ∈ Gen.propsFields ++ Gen.wfnFields, ∀ s u, f.shape = some s → f.units = some u →
      isArray f = true → unitsShape u = some s := by
  have h : ∀ f ∈ Gen.propsFields ++ Gen.wfnFields,
      (match f.shape, f.units with
       | some s, some u => !isArray f || unitsShape u == some s
       | _, _ => true) = true := by decide
  intro f hf s u hs hu ha
  have := h f hf
  simp only [hs, hu, ha, Bool.not_true, Bool.false_or, beq_iff_eq] at this
  exact this

/-- COMPLETENESS, AtomicResultProperties: every `Array` field declares one of the four shapes (nat,3) / (3nat,3nat) /
(3,) / (3,3), and exactly one validator is attached to it, applying exactly that reshape. No exceptions. -/
theorem props_shape_complete :
    ∀ f ∈ Gen.propsFields, isArray f = true →
      declShape f ∈ [some shGrad, some shHess, some shDip, some shQuad] ∧
      (rulesOn Gen.propsValidators f.name).map some = [(declShape f).bind demand] := by
  decide

/-- COMPLETENESS, WavefunctionProperties: every `Array` field declares (nao,nao) / (nao,nmo) / (nmo,) / (nmo,nmo);
every one is covered by exactly one validator applying exactly the demanded reshape — except the two fields listed
here (declared (nmo,nmo): no rule can exist), which have NO validator at all. -/
theorem wfn_shape_complete :
    ∀ f ∈ Gen.wfnFields, isArray f = true →
      declShape f ∈ [some shAO, some shOrb, some shVec, some shMO] ∧
      (if f.name ∈ ["localized_fock_a", "localized_fock_b"]
       then rulesOn Gen.wfnValidators f.name = []
       else (rulesOn Gen.wfnValidators f.name).map some = [(declShape f).bind demand]) := by
  decide

/-- the exception by class: (nmo,nmo) is declared by exactly localized_fock_a/b, and they are the only array fields
without a validator (in particular every (nao,nmo) field — scf_orbitals, localized_orbitals — has one) -/
theorem wfn_unvalidated_classes :
    (Gen.wfnFields.filter (fun f => declShape f == some shMO)).map (·.name) = ["localized_fock_a", "localized_fock_b"] ∧
    (Gen.wfnFields.filter (fun f => isArray f && (rulesOn Gen.wfnValidators f.name).isEmpty)).map (·.name)
      = ["localized_fock_a", "localized_fock_b"] := by
  constructor <;> decide

/-- SOUNDNESS, AtomicResultProperties: every name in a decorator list is an `Array` field whose declared shape demands
exactly the rule the body applies for that name; all are plain (post, not always) validators -/
theorem props_validators_sound :
    ∀ v ∈ Gen.propsValidators, v.pre = false ∧ v.always = false ∧
      ∀ e ∈ v.rules, fieldDemand Gen.propsFields e.1 = some e.2 := by
  decide

/-- SOUNDNESS, WavefunctionProperties: likewise; a validator on a string field is the target-exists check -/
theorem wfn_validators_sound :
    ∀ v ∈ Gen.wfnValidators, v.pre = false ∧ v.always = false ∧
      ∀ e ∈ v.rules, fieldDemand Gen.wfnFields e.1 = some e.2 := by
  decide

/-! ## the hand model's tables equal the generated ones -/

def specOfPropRule : PropRule → Rule
  | .gradient => .reshape [.natom, .lit 3] .needs
  | .hessian => .reshape [.natom3, .natom3] .needs
  | .dipole => .reshape [.lit 3] .free
  | .quadrupole => .reshape [.lit 3, .lit 3] .free

def specOfArrRule : ArrRule → List Rule
  | .square => [.reshape [.nbf, .nbf] .skips]
  | .rows => [.reshape [.nbf, .any] .skips]
  | .flat => [.reshape [.any] .free]
  | .unvalidated => []

/-- the generated field → rules table of a class (array fields in declaration order) -/
def genTable (fs : List FieldDecl) (vs : List ValidatorDecl) : List (String × List Rule) :=
  (fs.filter isArray).map (fun f => (f.name, rulesOn vs f.name))

/-- `PropArr.all` / `propRule` of the model = the array fields of AtomicResultProperties with their validators' rules -/
theorem model_prop_table_eq :
    PropArr.all.map (fun k => (k.name, [specOfPropRule (propRule k)])) = genTable Gen.propsFields Gen.propsValidators := by
  decide

/-- `ArrKey.all` / `arrRule` of the model = the array fields of WavefunctionProperties with their validators' rules -/
theorem model_wfn_table_eq :
    ArrKey.all.map (fun k => (k.name, specOfArrRule (arrRule k.base))) = genTable Gen.wfnFields Gen.wfnValidators := by
  decide

/-! ### … and mean the same: numpy `reshape` on generated rules vs. the model's `applyPropRule` / `applyArrRule` -/

/-- a dimension in context: outer `none` = the `values` entry is missing; inner `none` = `-1` -/
def evalDim (natom nbf : Option Nat) (size : Nat) : Dim → Option (Option Nat)
  | .lit n => some (some n)
  | .natom => natom.map some
  | .natom3 => natom.map (fun n => some (3 * n))
  | .nbf => nbf.map some
  | .any => some none
  | .isqrt => some (some (isqrt size))
  | .other _ => none

/-- `numpy.reshape` on shapes: all dimensions given → sizes must agree; one `-1` → the known part must be non-zero and
divide the size; more than one `-1` is an error -/
def npReshape (dims : List (Option Nat)) (s : Shape) : Option Shape :=
  let known := dims.filterMap id
  let p := prod known
  match dims.length - known.length with
  | 0 => if p = prod s then some known else none
  | 1 => if p = 0 then none else if prod s % p = 0 then some (dims.map (fun d => d.getD (prod s / p))) else none
  | _ => none

/-- what a generated rule does to a shape (`none` = ValueError) -/
def Rule.apply (natom nbf : Option Nat) : Rule → Shape → Option Shape
  | .reshape dims g, s =>
    match dims.mapM (evalDim natom nbf (prod s)) with
    | some ds => npReshape ds s
    | none => match g with
      | .skips => some s
      | _ => none
  | .identity, s => some s
  | .targetExists, s => some s
  | .other _, _ => none

theorem specOfPropRule_apply (r : PropRule) (natom nbf : Option Nat) (s : Shape) :
    (specOfPropRule r).apply natom nbf s = applyPropRule natom r s := by
  cases r <;> cases natom <;>
    simp [specOfPropRule, Rule.apply, evalDim, applyPropRule, npReshape, reshapeExact, List.mapM_cons, List.mapM_nil]

theorem specOfArrRule_apply (r : ArrRule) (natom nbf : Option Nat) (s : Shape) :
    (match specOfArrRule r with
     | [] => some s
     | q :: _ => q.apply natom nbf s) = applyArrRule nbf r s := by
  cases r <;> cases nbf <;>
    simp [specOfArrRule, Rule.apply, evalDim, applyArrRule, npReshape, reshapeExact, reshapeRows, reshapeFlat,
      List.mapM_cons, List.mapM_nil, Nat.mod_one, Nat.div_one]

theorem rulesOn_prop (k : PropArr) : rulesOn Gen.propsValidators k.name = [specOfPropRule (propRule k)] := by
  cases k <;> decide

theorem rulesOn_arr (k : ArrKey) : rulesOn Gen.wfnValidators k.name = specOfArrRule (arrRule k.base) := by
  obtain ⟨b, s⟩ := k
  cases b <;> cases s <;> decide

/-- For every properties array field, every `calcinfo_natom` and every supplied shape: interpreting the rule READ FROM
THE SOURCE with numpy's reshape semantics gives exactly what the hand model's validator gives. -/
theorem gen_prop_rule_agrees (k : PropArr) (natom nbf : Option Nat) (s : Shape) :
    (rulesOn Gen.propsValidators k.name).map (fun r => r.apply natom nbf s) = [applyPropRule natom (propRule k) s] := by
  rw [rulesOn_prop]; simp [specOfPropRule_apply]

/-- Likewise for every wavefunction array field, every basis size (or failed basis) and every supplied shape; a field
without a validator is left as supplied. -/
theorem gen_wfn_rule_agrees (k : ArrKey) (natom nbf : Option Nat) (s : Shape) :
    (match rulesOn Gen.wfnValidators k.name with
     | [] => some s
     | q :: _ => q.apply natom nbf s) = applyArrRule nbf (arrRule k.base) s := by
  rw [rulesOn_arr]; exact specOfArrRule_apply _ _ _ _

example : (Rule.reshape [.nbf, .any] .skips).apply none (some 7) [21] = some [7, 3] := by decide   -- test
example : (Rule.reshape [.nbf, .any] .skips).apply none (some 0) [0] = none := by decide          -- test: (0,-1)
example : (Rule.reshape [.natom, .lit 3] .needs).apply none none [6] = none := by decide           -- test: needs natom
example : (Rule.reshape [.isqrt, .isqrt] .free).apply none none [3, 12] = some [6, 6] := by decide -- test

/-! ## field universes, order, return pointers -/

/-- The declaration order of WavefunctionProperties is: basis, restricted, the model's 22 array keys, the model's 10
pointer keys — so every validator finds in `values` what it reads (basis before the AO matrices, every array before
every pointer: "Return results, must be defined last"). -/
theorem wfn_field_order :
    Gen.wfnFields.map (·.name) = ["basis", "restricted"] ++ ArrKey.all.map ArrKey.name ++ PtrKey.all.map PtrKey.name ∧
    (Gen.wfnFields.filter isStr).map (·.name) = PtrKey.all.map PtrKey.name ∧
    (findField Gen.wfnFields "basis").map (fun f => (f.kind, f.optional)) = some (.model "BasisSet", false) ∧
    (findField Gen.wfnFields "restricted").map (fun f => (f.kind, f.optional)) = some (.bool, false) := by
  refine ⟨?_, ?_, ?_, ?_⟩ <;> decide

/-- the natural target of a return pointer and the shape class it must have -/
def ptrTargetShape : PtrBase → List DeclDim
  | .orbitals => shOrb
  | .density | .fock => shAO
  | .eigenvalues | .occupations => shVec

/-- Every return-pointer field `x_s` has its natural target `scf_x_s` among the array fields, with the matching declared
shape; and the model's target universe (`ArrKey`) is exactly the set of array field names. -/
theorem pointer_targets_exist :
    (∀ p ∈ PtrKey.all, (findField Gen.wfnFields ("scf_" ++ p.name)).bind declShape = some (ptrTargetShape p.base)) ∧
    (Gen.wfnFields.filter isArray).map (·.name) = ArrKey.all.map ArrKey.name := by
  constructor <;> decide

/-- `calcinfo_natom` is declared (as an optional int) before every array field, so `_validate_derivs` can read it -/
theorem natom_before_derivatives :
    ((Gen.propsFields.takeWhile (fun f => !isArray f)).filter (fun f => f.name == "calcinfo_natom")).map
      (fun f => (f.kind, f.optional)) = [(.int, true)] := by
  decide

/-! ## protocol branches -/

def protoName : WfnProto → String
  | .all => "all" | .orbitals_and_eigenvalues => "orbitals_and_eigenvalues"
  | .occupations_and_eigenvalues => "occupations_and_eigenvalues" | .return_results => "return_results" | .none => "none"

def driverName : Driver → String
  | .energy => "energy" | .gradient => "gradient" | .hessian => "hessian" | .properties => "properties"

def nativeName : NativePolicy → String
  | .all => "all" | .input => "input" | .none => "none"

def trajName : TrajPolicy → String
  | .all => "all" | .initial_and_final => "initial_and_final" | .final => "final" | .none => "none"

/-- the enum classes of the source have exactly the members the model's inductive types have (declaration order) -/
theorem enums_eq_generated :
    Gen.wfnProtoEnum = [WfnProto.all, .orbitals_and_eigenvalues, .occupations_and_eigenvalues, .return_results, .none].map protoName ∧
    Gen.driverEnum = [Driver.energy, .gradient, .hessian, .properties].map driverName ∧
    Gen.nativeEnum = [NativePolicy.all, .input, .none].map nativeName ∧
    Gen.trajEnum = [TrajPolicy.all, .initial_and_final, .final, .none].map trajName := by
  refine ⟨?_, ?_, ?_, ?_⟩ <;> decide

/-- the branch of `wfnProtocol` a protocol takes, in the vocabulary of the generated table -/
def modelKeepSpec (p : WfnProto) : KeepSpec :=
  match p with
  | .none => .dropAll
  | p => match keepList p with
    | none => .keepAll
    | some l => .keep (l.map PtrKey.name)

/-- the per-protocol keep lists of the model are those of `_wavefunction_protocol`; the suffix dropped for restricted
wavefunctions and the keys always copied are the model's -/
theorem keep_lists_eq_generated :
    Gen.wfnKeep = [WfnProto.all, .orbitals_and_eigenvalues, .occupations_and_eigenvalues, .return_results, .none].map
      (fun p => (protoName p, modelKeepSpec p)) ∧
    Gen.restrictedDropSuffix = Spin.suffix .b ∧
    Gen.keepAlways = ["restricted", "basis"] := by
  refine ⟨?_, ?_, ?_⟩ <;> decide

/-- `modelKeepSpec` really is the branch structure of the model's `wfnProtocol` (every wavefunction with `restricted` set) -/
theorem wfnProtocol_follows_spec {β : Type} (p : WfnProto) (w : Wfn β) (r : Bool) (hr : w.restricted = some r) :
    match modelKeepSpec p with
    | .dropAll => wfnProtocol p w = .ok none
    | .keepAll => wfnProtocol p w = .ok (some (if r then dropBeta w else w))
    | .keep names => ∃ l, keepList p = some l ∧ names = l.map PtrKey.name ∧
        wfnProtocol p w =
          (match keepLoop (if r then dropBeta w else w) l
              { restricted := some r, basis := (if r then dropBeta w else w).basis, arr := fun _ => none, ptr := fun _ => none } with
           | .ok ret => .ok (some ret)
           | .error e => .error e)
    | .raises => False := by
  cases p <;> simp [modelKeepSpec, keepList, wfnProtocol, hr] <;> rfl

example : modelKeepSpec .orbitals_and_eigenvalues = .keep ["orbitals_a", "orbitals_b", "eigenvalues_a", "eigenvalues_b"] := by
  decide   -- test

/-- `_return_results_names`, the decorator list of `_assert_exists` and the model's pointer keys are the same set -/
theorem return_results_names_eq :
    (∀ n ∈ Gen.returnResultsNames, n ∈ PtrKey.all.map PtrKey.name) ∧
    (∀ n ∈ PtrKey.all.map PtrKey.name, n ∈ Gen.returnResultsNames) ∧
    Gen.returnResultsNames.length = PtrKey.all.length ∧
    (Gen.wfnValidators.filter (fun v => v.name == "_assert_exists")).map (fun v => v.rules.map (·.1))
      = [PtrKey.all.map PtrKey.name] := by
  refine ⟨?_, ?_, ?_, ?_⟩ <;> decide

/-- a generated return_result rule applied to a return value -/
def applyRR (r : Rule) (v : RR) : Option RR :=
  match r with
  | .identity => some v
  | r => (r.apply none none v.asShape).map .arr

theorem lookup_rr (d : Driver) :
    lookup Gen.rrRules (driverName d) = some (match d with
      | .gradient => .reshape [.any, .lit 3] .free
      | .hessian => .reshape [.isqrt, .isqrt] .free
      | _ => .identity) := by
  cases d <;> decide

/-- For every driver and every return value: the rule read from `_validate_return_result` for that DriverEnum member,
interpreted with numpy's reshape semantics, is the model's `validateRR`. -/
theorem rr_rules_agree (d : Driver) (v : RR) :
    (lookup Gen.rrRules (driverName d)).bind (fun r => applyRR r v) = validateRR d v := by
  rw [lookup_rr]
  cases d <;>
    simp [applyRR, validateRR, Rule.apply, evalDim, npReshape, reshapeCols3, reshapeSquare, List.mapM_cons, List.mapM_nil]

/-- Python indexing `v[i]` (negative from the end) -/
def pyIndex {α : Type} (v : List α) (i : Int) : Option α :=
  if 0 ≤ i then v[i.toNat]? else if i.natAbs ≤ v.length then v[v.length - i.natAbs]? else none

def TrajSpec.apply {α : Type} : TrajSpec → List α → Option (List α)
  | .keepAll, v => some v
  | .dropAll, _ => some []
  | .ifLonger n idx, v => if v.length > n then idx.mapM (pyIndex v) else some v
  | .raises, _ => none

theorem getElem?_lastOf {α : Type} : ∀ (x : α) (l : List α), (x :: l)[l.length]? = some (lastOf x l)
  | x, [] => rfl
  | x, y :: ys => by
    have := getElem?_lastOf y ys
    simpa [lastOf] using this

theorem lookup_traj (p : TrajPolicy) :
    lookup Gen.trajKeep (trajName p) = some (match p with
      | .all => .keepAll
      | .initial_and_final => .ifLonger 2 [0, -1]
      | .final => .ifLonger 1 [-1]
      | .none => .dropAll) := by
  cases p <;> decide

/-- For every policy and every trajectory (any length, any step type): the branch read from `_trajectory_protocol`
for that TrajectoryProtocolEnum member, with Python's indexing, is the model's `trajectoryProtocol`. -/
theorem trajectory_generated_agrees {α : Type} (p : TrajPolicy) (v : List α) :
    (lookup Gen.trajKeep (trajName p)).bind (fun t => t.apply v) = some (trajectoryProtocol p v) := by
  rw [lookup_traj]
  cases p with
  | all => simp [TrajSpec.apply, trajectoryProtocol]
  | none => simp [TrajSpec.apply, trajectoryProtocol]
  | initial_and_final =>
    cases v with
    | nil => simp [TrajSpec.apply, trajectoryProtocol]
    | cons x xs =>
      by_cases h : (x :: xs).length > 2
      · obtain ⟨_, h1⟩ := List.getElem?_eq_some_iff.mp (getElem?_lastOf x xs)
        simp only [Option.bind_some, TrajSpec.apply, h, if_true, trajectoryProtocol]
        simp only [List.mapM_cons, List.mapM_nil, pyIndex]
        simp [h1]
      · have h' : ¬ 2 < xs.length + 1 := by simpa using h
        simp [TrajSpec.apply, trajectoryProtocol, h']
  | final =>
    cases v with
    | nil => simp [TrajSpec.apply, trajectoryProtocol]
    | cons x xs =>
      by_cases h : (x :: xs).length > 1
      · obtain ⟨_, h1⟩ := List.getElem?_eq_some_iff.mp (getElem?_lastOf x xs)
        simp only [Option.bind_some, TrajSpec.apply, h, if_true, trajectoryProtocol]
        simp only [List.mapM_cons, List.mapM_nil, pyIndex]
        simp [h1]
      · have h' : ¬ 0 < xs.length := by simpa using h
        simp [TrajSpec.apply, trajectoryProtocol, h']

example : (TrajSpec.ifLonger 2 [0, -1]).apply [10, 11, 12, 13] = some [10, 13] := by decide   -- test
example : (TrajSpec.ifLonger 2 [0, -1]).apply [10] = some [10] := by decide                   -- test

/-- the branch of `nativeProtocol` a policy takes (file name 0 of the model is "input") -/
def modelNativeSpec : NativePolicy → KeepSpec
  | .all => .keepAll
  | .none => .dropAll
  | .input => .keep ["input"]

def lookupB (l : List (Bool × KeepSpec)) (k : Bool) : Option KeepSpec :=
  match l.find? (fun e => e.1 == k) with
  | some e => some e.2
  | none => none

/-- native_files and stdout branches of the source are the model's -/
theorem native_stdout_eq_generated :
    Gen.nativeKeep = [NativePolicy.all, .input, .none].map (fun p => (nativeName p, modelNativeSpec p)) ∧
    Gen.stdoutKeep = [(true, .keepAll), (false, .dropAll)] ∧
    (∀ (γ : Type) (p : NativePolicy) (f : Files γ),
      nativeProtocol p f = (match modelNativeSpec p with
        | .keepAll => f
        | .keep _ => [(0, filesGet f 0)]
        | _ => [])) ∧
    (∀ (σ : Type) (keep : Bool) (v : Option σ),
      stdoutProtocol keep v = (match lookupB Gen.stdoutKeep keep with
        | some .keepAll => v
        | _ => none)) := by
  refine ⟨by decide, by decide, ?_, ?_⟩
  · intro γ p f; cases p <;> rfl
  · intro σ keep v; cases keep <;> rfl

end QcelVerif.ResultSpec
