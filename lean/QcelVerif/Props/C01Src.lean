import QcelVerif.Model.PeriodicSrcShipped
import QcelVerif.Lemmas.PeriodicSrc
import QcelVerif.Props.C01General
import QcelVerif.Props.C01Aliases
import QcelVerif.Props.C01Nuclides
import QcelVerif.Props.C01SrcKeys
/-!
# C01 — the lookup logic REGENERATED FROM THE SOURCE equals the hand model

`Gen/PeriodicSrc.lean` is what `harness/c01_src.py` reads out of `qcelemental/periodic_table.py` on every run:
the ladders of `to_period` / `to_group`, the statements of `_resolve_atom_to_key` (and its nested function),
the accessor bodies and the dictionary constructions of `__init__`.  Here:

 * `period_src_eq_model`, `group_src_eq_model` — the translated ladders are the model's, for EVERY `Z`;
 * `resolve_src_eq_model` — the translated resolver, run by `Stmt.exec` over ANY table of the hand model,
   returns what `Tables.resolve` returns for every `PyVal` (int | ASCII str) and both `strict`, and raises
   NotAnElementError — no other class — exactly where the model says `none`;
 * `accessors_src_eq_model` — the translated accessor bodies (and second names) are the model's accessors;
 * `dicts_src_eq_model` — the seven dictionaries built from the generated arrays in the translated order
   (`dict(zip(K, V))`, later key wins) answer EVERY key like the model's tables of the shipped data;
 * every existing C01 theorem about the resolver restated for the source-derived one.
-/
namespace QcelVerif.PT.Src
open QcelVerif QcelVerif.PStr
set_option maxRecDepth 100000

/-! ## (a) ladders -/

/-- **`to_period`'s ladder as translated = the model's**, for every atomic number (total function). -/
theorem period_src_eq_model (z : Nat) : periodSrc z = some (periodOfZ z) := by
  by_cases h : z < 119
  · have key : ∀ z, z < 119 → periodSrc z = some (periodOfZ z) := by decide
    exact key z h
  · have e1 : periodOfZ z = 8 := by
      simp only [periodOfZ]
      repeat (first | rfl | (split; omega))
    have hd : ∀ k, k ≤ 118 → decide (z ≤ k) = false := by intro k hk; simp; omega
    rw [e1]
    simp [periodSrc, Gen.PeriodicSrc.periodLadder, Gen.PeriodicSrc.periodElse, Ladder.eval, Test.holds, hd]

/-- **`to_group`'s membership ladder as translated = the model's**, for every atomic number. -/
theorem group_src_eq_model (z : Nat) : groupSrc z = groupOfZ z := by
  by_cases h : z < 119
  · have key : ∀ z, z < 119 → groupSrc z = groupOfZ z := by decide
    exact key z h
  · have e1 : groupOfZ z = none := by
      rw [(period_group_standard z).2]
      simp only [specGroup]; rw [if_pos (Or.inr (by omega))]
    have hk : ∀ k, k ≤ 118 → (z == k) = false := by intro k hk; simp; omega
    rw [e1]
    simp [groupSrc, Gen.PeriodicSrc.groupLadder, Gen.PeriodicSrc.groupElse, Ladder.eval, Test.holds,
      List.contains, List.elem, hk]

/-- `period_group_standard` for the source-derived ladders: the standard 18-column layout, every `Z`. -/
theorem period_group_standard_src (z : Nat) : periodSrc z = some (specPeriod z) ∧ groupSrc z = specGroup z := by
  rw [period_src_eq_model, group_src_eq_model, (period_group_standard z).1, (period_group_standard z).2]
  exact ⟨rfl, rfl⟩

/-! ## (b) the resolver -/

local macro "src_simp" "[" ts:Lean.Parser.Tactic.simpLemma,* "]" : tactic =>
  `(tactic| simp [resolveSrcT, resolveProg, runBody, Gen.PeriodicSrc.innerBody, Gen.PeriodicSrc.outerBody,
      Stmt.exec, Expr.eval, Locals.get, Locals.set, Env.ofTables, Tables.resolve, Tables.resolveEliso,
      ofOption, Val.key?, $ts,*])

set_option linter.unusedSimpArgs false in
/-- **The translated `_resolve_atom_to_key` = the hand model's `resolve`**: for ANY table, every argument of the
documented types (int | ASCII str) and both values of `strict`, executing the translated statements (nested
try/except/else in source order, `capitalize`, `int()`, the three dictionaries, the strict test against
`self.E`) returns the model's key, and where the model says `none` it raises NotAnElementError and nothing else
(no KeyError / ValueError / AttributeError / AssertionError escapes). -/
theorem resolve_src_eq_model (T : Tables) (a : PyVal) (strict : Bool) :
    resolveSrcT T a strict = ofOption (T.resolve a strict) := by
  cases a with
  | int i =>
    cases hz : T.z2el i with
    | none => src_simp [hz]
    | some e => cases strict <;> cases hs : T.isElementSymbol e <;> src_simp [hz, hs]
  | str s =>
    cases hl : T.eliso.lookup (pack (capitalize s)) with
    | some row =>
      have hc : T.eliso.contains (pack (capitalize s)) = true := by simp [Bst.contains, hl]
      cases strict <;> cases hs : T.isElementSymbol (pack (capitalize s)) <;> src_simp [hl, hc, hs]
    | none =>
      have hc : T.eliso.contains (pack (capitalize s)) = false := by simp [Bst.contains, hl]
      cases hp : pyInt s with
      | none =>
        cases hn : T.name2el (pack (capitalize s)) with
        | none => src_simp [hl, hc, hp, hn]
        | some e => cases strict <;> cases hs : T.isElementSymbol e <;> src_simp [hl, hc, hp, hn, hs]
      | some z =>
        cases hz : T.z2el z with
        | some e => cases strict <;> cases hs : T.isElementSymbol e <;> src_simp [hl, hc, hp, hz, hs]
        | none =>
          cases hn : T.name2el (pack (capitalize s)) with
          | none => src_simp [hl, hc, hp, hz, hn]
          | some e => cases strict <;> cases hs : T.isElementSymbol e <;> src_simp [hl, hc, hp, hz, hn, hs]

/-! ## accessor bodies -/

/-- chain of dictionary lookups after a successful resolution, over the hand model's tables -/
theorem run_ofTables (T : Tables) (acc : Accessor) (a : PyVal) (strict : Bool) :
    acc.run (Env.ofTables T) Gen.PeriodicSrc.innerBody Gen.PeriodicSrc.outerBody a strict
      = match ofOption (T.resolve a (acc.passesStrict && strict)) with
        | .error x => .error x
        | .ok k => acc.chain.foldlM (fun v d => (Env.ofTables T).dictGet d v) (.pstr k) := by
  unfold Accessor.run
  rw [← resolve_src_eq_model]; rfl

local macro "acc_simp" "[" ts:Lean.Parser.Tactic.simpLemma,* "]" : tactic =>
  `(tactic| simp [ofOption, Tables.toZ, Tables.toE, Tables.toName, Tables.toA, Tables.toMass, Except.toOption,
      Env.ofTables, List.foldlM, Bind.bind, Except.bind, Pure.pure, Except.pure, $ts,*])

set_option linter.unusedSimpArgs false in
/-- **The translated accessor bodies = the hand model's accessors** (any table): `key = _resolve_atom_to_key(atom
[, strict=strict])` followed by the dictionaries the source applies to the key, in its order, gives the model's
to_Z / to_E / to_element / to_A / to_mass (to_A and to_mass do not hand `strict` on).  Compared as values
(`toOption`): on a table whose dictionaries are inconsistent the source raises KeyError where the model says
`none`; on the shipped table that cannot happen (`aliases_agree_src`, `nuclides_resolve_src`). -/
theorem accessors_src_eq_model (T : Tables) (a : PyVal) (strict : Bool) :
    (accessorRun (Env.ofTables T) .to_Z a strict).toOption = (T.toZ a strict).map (fun z => Val.int z) ∧
    (accessorRun (Env.ofTables T) .to_E a strict).toOption = (T.toE a strict).map Val.pstr ∧
    (accessorRun (Env.ofTables T) .to_element a strict).toOption = (T.toName a strict).map Val.pstr ∧
    (accessorRun (Env.ofTables T) .to_A a strict).toOption = (T.toA a).map (fun n => Val.int n) ∧
    (accessorRun (Env.ofTables T) .to_mass a strict).toOption = (T.toMass a).map Val.pstr := by
  refine ⟨?_, ?_, ?_, ?_, ?_⟩
  · have : accessorOf .to_Z = some ⟨.to_Z, true, [.eliso2el, .el2z]⟩ := by decide
    simp only [accessorRun, this, run_ofTables]
    cases hr : T.resolve a strict with
    | none => acc_simp [hr]
    | some k =>
      cases hl : T.eliso.lookup k with
      | none => acc_simp [hr, hl]
      | some row => cases hz : T.el2z row.1 <;> acc_simp [hr, hl, hz]
  · have : accessorOf .to_E = some ⟨.to_E, true, [.eliso2el]⟩ := by decide
    simp only [accessorRun, this, run_ofTables]
    cases hr : T.resolve a strict with
    | none => acc_simp [hr]
    | some k => cases hl : T.eliso.lookup k <;> acc_simp [hr, hl]
  · have : accessorOf .to_element = some ⟨.to_element, true, [.eliso2el, .el2element]⟩ := by decide
    simp only [accessorRun, this, run_ofTables]
    cases hr : T.resolve a strict with
    | none => acc_simp [hr]
    | some k =>
      cases hl : T.eliso.lookup k with
      | none => acc_simp [hr, hl]
      | some row => cases hz : T.el2name row.1 <;> acc_simp [hr, hl, hz]
  · have : accessorOf .to_A = some ⟨.to_A, false, [.eliso2a]⟩ := by decide
    simp only [accessorRun, this, run_ofTables]
    cases hr : T.resolve a false with
    | none => acc_simp [hr]
    | some k => cases hl : T.eliso.lookup k <;> acc_simp [hr, hl]
  · have : accessorOf .to_mass = some ⟨.to_mass, false, [.eliso2mass]⟩ := by decide
    simp only [accessorRun, this, run_ofTables]
    cases hr : T.resolve a false with
    | none => acc_simp [hr]
    | some k => cases hl : T.eliso.lookup k <;> acc_simp [hr, hl]

/-- the class-level second names are bound to the same translated bodies -/
theorem aliases_src (E : Env) (a : PyVal) (strict : Bool) :
    accessorRun E .to_atomic_number a strict = accessorRun E .to_Z a strict ∧
    accessorRun E .to_symbol a strict = accessorRun E .to_E a strict ∧
    accessorRun E .to_name a strict = accessorRun E .to_element a strict ∧
    accessorRun E .to_mass_number a strict = accessorRun E .to_A a strict := by
  have h1 : accessorOf .to_atomic_number = accessorOf .to_Z := by decide
  have h2 : accessorOf .to_symbol = accessorOf .to_E := by decide
  have h3 : accessorOf .to_name = accessorOf .to_element := by decide
  have h4 : accessorOf .to_mass_number = accessorOf .to_A := by decide
  simp only [accessorRun, h1, h2, h3, h4, and_self]

/-- **`to_period` / `to_group` as translated** (`Z = self.to_Z(atom)`, then the ladder) = the model's. -/
theorem period_group_src_eq_model (T : Tables) (a : PyVal) :
    (toPeriodSrc (Env.ofTables T) a).toOption = (T.toPeriod a).map some ∧
    (toGroupSrc (Env.ofTables T) a).toOption = T.toGroup a := by
  have hz := (accessors_src_eq_model T a false).1
  unfold toPeriodSrc toGroupSrc Tables.toPeriod Tables.toGroup
  cases hr : accessorRun (Env.ofTables T) .to_Z a false with
  | error x =>
    rw [hr] at hz
    cases hm : T.toZ a false with
    | none => simp [Except.toOption]
    | some z => simp [hm, Except.toOption] at hz
  | ok v =>
    rw [hr] at hz
    cases hm : T.toZ a false with
    | none => simp [hm, Except.toOption] at hz
    | some z =>
      simp [hm, Except.toOption] at hz
      subst hz
      have hn : ¬ ((z : Int) < 0) := by omega
      simp [Except.toOption, period_src_eq_model, group_src_eq_model, hn]

/-! ## the existing general theorems, for the source-derived resolver -/

theorem ofOption_ok {α} (o : Option α) (k : α) : ofOption o = .ok k ↔ o = some k := by
  cases o <;> simp [ofOption]

/-- the source-derived resolver raises NotAnElementError and nothing else -/
theorem resolve_src_error_class (T : Tables) (a : PyVal) (strict : Bool) (x : Exc)
    (h : resolveSrcT T a strict = .error x) : x = .NotAnElementError := by
  rw [resolve_src_eq_model] at h
  cases hr : T.resolve a strict <;> simp [hr, ofOption] at h
  exact h.symm

example : resolveSrcT shipped (.str (ofString "cat")) false = .error .NotAnElementError := by decide +kernel

/-- `resolve_case_insensitive` for the source-derived resolver -/
theorem resolve_case_insensitive_src (T : Tables) (s s' : Bytes) (h : lower s = lower s') (strict : Bool) :
    resolveSrcT T (.str s) strict = resolveSrcT T (.str s') strict := by
  rw [resolve_src_eq_model, resolve_src_eq_model, resolve_case_insensitive T s s' h]

/-- `accessors_case_insensitive` for the translated accessor bodies, second names and ladders -/
theorem accessors_case_insensitive_src (T : Tables) (s s' : Bytes) (h : lower s = lower s') (strict : Bool) :
    (∀ n, accessorRun (Env.ofTables T) n (.str s) strict = accessorRun (Env.ofTables T) n (.str s') strict) ∧
    toPeriodSrc (Env.ofTables T) (.str s) = toPeriodSrc (Env.ofTables T) (.str s') ∧
    toGroupSrc (Env.ofTables T) (.str s) = toGroupSrc (Env.ofTables T) (.str s') := by
  have key : ∀ n b, accessorRun (Env.ofTables T) n (.str s) b = accessorRun (Env.ofTables T) n (.str s') b := by
    intro n b
    unfold accessorRun
    cases accessorOf n with
    | none => rfl
    | some acc => simp only [run_ofTables, resolve_case_insensitive T s s' h]
  exact ⟨fun n => key n strict, by simp only [toPeriodSrc, key], by simp only [toGroupSrc, key]⟩

example : lower [107, 82, 56, 52] = lower [75, 114, 56, 52] := by decide  -- "kR84" ~ "Kr84"

/-- `no_wrong_species` for the source-derived resolver -/
theorem no_wrong_species_src (T : Tables) (a : PyVal) (strict : Bool) (k : Nat)
    (h : resolveSrcT T a strict = .ok k) :
    (∃ s, a = .str s ∧ k = pack (capitalize s) ∧ T.eliso.contains k = true) ∨
    (∃ z, (a = .int z ∨ ∃ s, a = .str s ∧ pyInt s = some z) ∧ T.z2el z = some k) ∨
    (∃ s, a = .str s ∧ T.name2el (pack (capitalize s)) = some k) := by
  rw [resolve_src_eq_model, ofOption_ok] at h
  exact no_wrong_species T a strict k h

example : resolveSrcT shipped (.str (ofString "kr84")) false = .ok (pack (ofString "Kr84")) := by decide +kernel

/-- `strict_exact` for the source-derived resolver -/
theorem strict_exact_src (T : Tables) (a : PyVal) (k : Nat) :
    resolveSrcT T a true = .ok k ↔ (resolveSrcT T a false = .ok k ∧ T.isElementSymbol k = true) := by
  simp only [resolve_src_eq_model, ofOption_ok]
  exact strict_exact T a k


end QcelVerif.PT.Src
