import QcelVerif.Props.C12Full
import QcelVerif.Props.C12Unique
import QcelVerif.Gen.KabschSrc
import QcelVerif.Gen.B787Src
/-!
# C12 — the alignment code as re-read from the source equals the hand models

`Gen/KabschSrc.lean` and `Gen/B787Src.lean` are regenerated from `qcelemental/molutil/align.py` on every run
(`harness/c12_src.py`).  This file proves, for all inputs:

* `F_src`, `U_src`            — the 16 assignments `F[i, j] = …` give (both triangles) `Fmat cov`; the 9 assignments `U[i, j] = …`
                                give `quatRot q`
* `kabschAlign_src_partial`   — the translated body of `kabsch_align` (centroids, centring, covariance operands, shift, residual
                                matrix, head-off) evaluates to the hand model `kabschAlign` on equally long geometries
* `filter_src`, `candidates_src` — the translated `filter_permutative` is the hand model's filter
* `update_src_plain/mir`, `loop_src`, `run_src` — the translated best-so-far blocks and the loop built from them are the hand model's
* the headline theorems restated over the source-derived functions (`kabschAlignSrc_*`, `runSrc_*`).

Partial (named so): `kabschAlign_src_partial` needs `R.length = C.length` (the source divides BOTH column sums by
`rgeom.shape[0]`; B787 checks the shapes before, align.py:109).
-/
namespace QcelVerif.KabschAst
open QcelVerif.Kabsch QcelVerif.Gen
variable {K : Type}

/-- both triangles written by align.py:523-535 are the symmetric matrix `Fmat cov` of the hand model -/
theorem F_src [CommRing K] (cv : M3 K) (q : Q4 K) :
    upper4 (build cv q KabschSrc.F zeros) = Fmat cv ∧ lower4 (build cv q KabschSrc.F zeros) = Fmat cv := by
  constructor <;>
    (ext <;> simp [KabschSrc.F, build, setAt, upper4, lower4, SE.eval, covAt, Fmat])

/-- the nine entries written by align.py:544-552 are `quatRot q` of the hand model -/
theorem U_src [CommRing K] (cv : M3 K) (q : Q4 K) :
    toM3 (build cv q KabschSrc.U zeros) = quatRot q := by
  ext <;> simp [KabschSrc.U, build, setAt, toM3, SE.eval, qAt, quatRot]

theorem resid_src [CommRing K] (U : M3 K) : ∀ (A B : List (V3 K)),
    sumNrm2 (List.zipWith V3.sub A (B.map (fun x => rowMul x U))) = resid U (A.zip B)
  | [], _ => by simp [sumNrm2, resid]
  | _ :: _, [] => by simp [sumNrm2, resid]
  | a :: as, b :: bs => by simp [sumNrm2, resid, resid_src U as bs]

/-- **`kabsch_align` as read from the source is the hand model** (weight=None, eigenvector supplied), for all equally long
    geometries and every `q`.
    -- FULL: without `R.length = C.length` the two differ (the source divides the column sums of `C` by `rgeom.shape[0]`,
    -- the hand model by `len(C)`); numpy raises on unequal shapes at `R - C` and B787 refuses them at align.py:109. -/
theorem kabschAlign_src_partial [Field K] [LinearOrder K] (R C : List (V3 K)) (q : Q4 K) (hlen : R.length = C.length) :
    kabschAlignSrc KabschSrc.prog KabschSrc.F KabschSrc.U R C q = kabschAlign R C q := by
  have hr : KabschSrc.prog.rcent.eval R C = centroid R := by
    simp [KabschSrc.prog, CentDef.eval, centroid]
  have hc : KabschSrc.prog.ccent.eval R C = centroid C := by
    simp [KabschSrc.prog, CentDef.eval, centroid, hlen]
  unfold kabschAlignSrc kabschAlign
  simp only [hr, hc]
  simp only [KabschSrc.prog, GE.eval, VE.eval, ME.eval, Env.arg, (F_src _ _).1, U_src, resid_src, centre]

-- non-vacuity (test): two atoms, equal lengths; the source-derived function gives the hand model's shift
example : (kabschAlignSrc KabschSrc.prog KabschSrc.F KabschSrc.U [(⟨1, 2, 3⟩ : V3 ℚ), ⟨0, 0, 1⟩] [⟨2, 2, 3⟩, ⟨1, 0, 1⟩]
    ⟨1, 0, 0, 0⟩).T = ⟨1, 0, 0⟩ := by
  rw [kabschAlign_src_partial _ _ _ (by simp)]
  simp [kabschAlign, geomEq, centroid, vsum, V3.add, V3.zero, V3.sub, matVec, quatRot]
  norm_num

/-! ### the headline theorems over the source-derived `kabsch_align` -/

/-- **the returned rotation is proper** (source-derived): for a unit eigenvector the rotation `kabsch_align` returns — head-off
    or not — is orthogonal on both sides with determinant +1 -/
theorem kabschAlignSrc_rotation_proper [Field K] [LinearOrder K] (R C : List (V3 K)) (q : Q4 K)
    (hlen : R.length = C.length) (hq : q.nrm2 = 1) :
    let U := (kabschAlignSrc KabschSrc.prog KabschSrc.F KabschSrc.U R C q).U
    U.mul U.transpose = M3.one ∧ U.transpose.mul U = M3.one ∧ U.det = 1 := by
  rw [kabschAlign_src_partial R C q hlen]
  unfold kabschAlign
  by_cases hg : geomEq R C = true
  · simp only [hg, if_true]
    refine ⟨?_, ?_, ?_⟩
    · ext <;> simp [M3.mul, M3.transpose, M3.one]
    · ext <;> simp [M3.mul, M3.transpose, M3.one]
    · simp [M3.det, M3.one]
  · simp only [hg]
    exact ⟨(quatRot_orthogonal q hq).1, (quatRot_orthogonal q hq).2, quatRot_det q hq⟩

example : (⟨1, 0, 0, 0⟩ : Q4 ℚ).nrm2 = 1 := by simp [Q4.nrm2]

/-- per-atom recipe identity lifted to whole geometries: with `T = c̄ − U·r̄` and `UᵀU = I` the squared distance between the
    reference and the concern geometry sent through the recipe `(c − T)·U` is the centred residual -/
theorem dist2_recipe [CommRing K] (U : M3 K) (h : U.transpose.mul U = M3.one) (rc cc : V3 K) :
    ∀ (Rg Cg : List (V3 K)),
      dist2 (Cg.map (fun c => rowMul (c.sub (cc.sub (matVec U rc))) U)) Rg
        = resid U ((Rg.map (fun r => r.sub rc)).zip (Cg.map (fun c => c.sub cc)))
  | [], [] => by simp [dist2, resid]
  | [], _ :: _ => by simp [dist2, resid]
  | _ :: _, [] => by simp [dist2, resid]
  | r :: rs, c :: cs => by
    have ih := dist2_recipe U h rc cc rs cs
    have e := recipe_pointwise U h rc cc r c
    simp only [List.map_cons, dist2, List.zip_cons_cons, resid, ih, e]
    simp only [V3.nrm2, V3.sub]; ring

/-- **the reported RMSD is the RMSD obtained** (source-derived, exact arithmetic): when the head-off does not fire and `q` is a
    unit vector, the squared residual `kabsch_align` reports (`res2 = N·rmsd²/bohr2angstroms²`) is exactly the squared distance
    between the reference and the concern geometry sent through the returned recipe `(c − TT)·RR` (what B787 recomputes) -/
theorem kabschAlignSrc_rmsd_obtained [Field K] [LinearOrder K] (R C : List (V3 K)) (q : Q4 K)
    (hlen : R.length = C.length) (hq : q.nrm2 = 1)
    (hs : (kabschAlignSrc KabschSrc.prog KabschSrc.F KabschSrc.U R C q).shortcut = false) :
    let o := kabschAlignSrc KabschSrc.prog KabschSrc.F KabschSrc.U R C q
    dist2 (C.map (fun c => rowMul (c.sub o.T) o.U)) R = o.res2 := by
  rw [kabschAlign_src_partial R C q hlen] at hs ⊢
  unfold kabschAlign at hs ⊢
  by_cases hg : geomEq R C = true
  · simp only [hg, if_true] at hs; cases hs
  · simp only [hg]
    exact dist2_recipe (quatRot q) (quatRot_orthogonal q hq).2 (centroid R) (centroid C) R C

-- non-vacuity (tests) of `kabschAlignSrc_rmsd_obtained` / `dist2_recipe`: a shifted copy does not fire the head-off, q = (1,0,0,0) is a
-- unit vector, the identity is orthogonal
example : (kabschAlignSrc KabschSrc.prog KabschSrc.F KabschSrc.U [(⟨1, 2, 3⟩ : V3 ℚ), ⟨0, 0, 1⟩] [⟨2, 2, 3⟩, ⟨1, 0, 1⟩]
    ⟨1, 0, 0, 0⟩).shortcut = false := by
  rw [kabschAlign_src_partial _ _ _ (by simp)]; simp [kabschAlign, geomEq]
example : (M3.one : M3 ℚ).transpose.mul M3.one = M3.one := by ext <;> simp [M3.mul, M3.transpose, M3.one]

/-- the head-off is exact (source-derived; `shortcut_exact` restated) -/
theorem kabschAlignSrc_shortcut_exact [Field K] [LinearOrder K] (R C : List (V3 K)) (q : Q4 K)
    (hlen : R.length = C.length)
    (h : (kabschAlignSrc KabschSrc.prog KabschSrc.F KabschSrc.U R C q).shortcut = true) :
    let o := kabschAlignSrc KabschSrc.prog KabschSrc.F KabschSrc.U R C q
    o.U = M3.one ∧ o.T = V3.zero ∧ o.res2 = 0 ∧ C.map (fun v => rowMul (v.sub V3.zero) M3.one) = C ∧ dist2 C R = 0 := by
  rw [kabschAlign_src_partial R C q hlen] at h ⊢
  exact shortcut_exact R C q h

example : (kabschAlignSrc KabschSrc.prog KabschSrc.F KabschSrc.U [(⟨1, 2, 3⟩ : V3 ℚ), ⟨0, 0, 1⟩] [⟨1, 2, 3⟩, ⟨0, 0, 1⟩]
    ⟨1, 0, 0, 0⟩).shortcut = true := by
  rw [kabschAlign_src_partial _ _ _ (by simp)]; simp [kabschAlign, geomEq]

-- non-vacuity: by `kabschAlign_src_partial` the hypotheses are literally those of `kabschAlign_optimal`, whose satisfiability over ℝ
-- is shown by the example after `recovery_rigid` in Props/C12Full.lean
/-- **optimality given the certified eigen step** (source-derived, over ℝ; `kabschAlign_optimal` restated): head-off not fired and
    the captured eigenvector accepted by the proved checker on the SOURCE-derived matrix `F` ⇒ the reported squared residual is
    within the slack of the residual of every proper rigid motion -/
theorem kabschAlignSrc_optimal (Rg Cg : List (V3 ℝ)) (hlen : Rg.length = Cg.length) (q : Q4 ℝ) (δ ε : ℝ)
    (hs : (kabschAlignSrc KabschSrc.prog KabschSrc.F KabschSrc.U Rg Cg q).shortcut = false)
    (h : isTopEig (kabschAlignSrc KabschSrc.prog KabschSrc.F KabschSrc.U Rg Cg q).F q δ ε = true)
    (R : M3 ℝ) (ho : R.mul R.transpose = M3.one) (hd : R.det = 1) (s : V3 ℝ) :
    (kabschAlignSrc KabschSrc.prog KabschSrc.F KabschSrc.U Rg Cg q).res2
      ≤ dist2 Rg (Cg.map (fun c => rowMul (c.sub s) R)) + 2 * ε
        + δ * (2 + δ) * (kabschAlignSrc KabschSrc.prog KabschSrc.F KabschSrc.U Rg Cg q).sc2 := by
  rw [kabschAlign_src_partial Rg Cg q hlen] at hs h ⊢
  exact kabschAlign_optimal Rg Cg hlen q δ ε hs h R ho hd s

-- non-vacuity: by `kabschAlign_src_partial` the hypotheses are literally those of `kabschAlign_recovers_motion`, shown satisfiable by
-- the right-triangle example after it in Props/C12Unique.lean
/-- **exact rigid copies are recovered** (source-derived; `kabschAlign_recovers_motion` restated): if the recipe the source-derived
    `kabsch_align` returns superimposes a rotated + translated copy of a non-collinear reference exactly, its rotation is the
    inverse of the applied one and its shift the applied one -/
theorem kabschAlignSrc_recovers_motion [Field K] [LinearOrder K] [IsStrictOrderedRing K]
    (A : M3 K) (hoA : A.mul A.transpose = M3.one) (hdA : A.det = 1) (t : V3 K)
    (Rg : List (V3 K)) (q : Q4 K) (hq : q.nrm2 = 1)
    (hal : alignCoords false
      (kabschAlignSrc KabschSrc.prog KabschSrc.F KabschSrc.U Rg (Rg.map (fun r => (rowMul r A).add t)) q).T
      (kabschAlignSrc KabschSrc.prog KabschSrc.F KabschSrc.U Rg (Rg.map (fun r => (rowMul r A).add t)) q).U
      (List.range Rg.length) (Rg.map (fun r => (rowMul r A).add t)) = some Rg)
    (hnc : NonCollinear (centre Rg)) :
    (kabschAlignSrc KabschSrc.prog KabschSrc.F KabschSrc.U Rg (Rg.map (fun r => (rowMul r A).add t)) q).U = A.transpose
      ∧ (kabschAlignSrc KabschSrc.prog KabschSrc.F KabschSrc.U Rg (Rg.map (fun r => (rowMul r A).add t)) q).T = t := by
  have hlen : Rg.length = (Rg.map (fun r => (rowMul r A).add t)).length := by simp
  rw [kabschAlign_src_partial Rg _ q hlen] at hal ⊢
  exact kabschAlign_recovers_motion A hoA hdA t Rg q hq hal hnc

end QcelVerif.KabschAst

/-! ## `filter_permutative` and the trial loop -/
namespace QcelVerif.B787Ast
open QcelVerif.B787 QcelVerif.Gen

theorem zipDists_tail (D : List (List Rat)) : ∀ l : List Nat, zipDists D l l.tail = chainDists D l
  | [] => by simp [zipDists, chainDists]
  | [_] => by simp [zipDists, chainDists]
  | a :: b :: t => by
    have ih := zipDists_tail D (b :: t)
    simp only [List.tail_cons] at ih ⊢
    simp only [zipDists, chainDists, ih]

/-- **the permutative filter as read from the source is the hand model's** (align.py:330-344), for all distance matrices,
    tolerances and index groups -/
theorem filter_src (rtol atol : Rat) (RR CC : List (List Rat)) (rgp cgp : List Nat) :
    B787Src.filter.eval rtol atol RR CC rgp cgp = filterPermutative rtol atol RR CC rgp cgp := by
  simp only [PermFilter.eval, B787Src.filter, ChainE.eval, SeqE.eval, zipDists_tail, pickList, filterPermutative,
    List.map_id']
  rfl

/-- hence the whole permutative candidate generation with the source-derived filter is the hand model's -/
theorem candidates_src (rtol atol : Rat) (ref cur : List Nat) (RR CC : List (List Rat)) :
    candidatesSrc B787Src.filter rtol atol ref cur RR CC = candidates rtol atol ref cur RR CC := by
  simp only [candidatesSrc, candidates, filter_src]

/-- the translated best-so-far block of the plain trial is the hand model's `update` (strict `<`, both stores, break test) -/
theorem update_src_plain (cfg : Cfg) (st : State) (i : Nat) (m : Bool) (v : Int) :
    B787Src.loopBody.plain.eval cfg st i m v = some (update cfg st i m v) := by
  simp only [UpdBlock.eval, B787Src.loopBody, Cmp.eval, Locals.num, CmpOp.eval, assignAll, assign1, update,
    Option.bind, Option.map, bind, pure]
  by_cases h : v < st.best <;> simp [h]

/-- the same for the block of the mirror trial -/
theorem update_src_mir (cfg : Cfg) (st : State) (i : Nat) (m : Bool) (v : Int) :
    B787Src.loopBody.mir.eval cfg st i m v = some (update cfg st i m v) := by
  simp only [UpdBlock.eval, B787Src.loopBody, Cmp.eval, Locals.num, CmpOp.eval, assignAll, assign1, update,
    Option.bind, Option.map, bind, pure]
  by_cases h : v < st.best <;> simp [h]

/-- the plain trial builds its recipe with `mirror=False`, the mirror trial with `mirror=True` -/
theorem mirror_flags_src : B787Src.loopBody.plainMirror = false ∧ B787Src.loopBody.mirMirror = true := by
  constructor <;> rfl

/-- **the trial loop assembled from the translated blocks is the hand model's loop**, for all configurations, candidate
    lists and states -/
theorem loop_src (cfg : Cfg) : ∀ (ts : List Trial) (i : Nat) (st : State),
    loopSrc B787Src.loopBody cfg i ts st = some (loop cfg i ts st)
  | [], i, st => by simp [loopSrc, loop]
  | t :: ts, i, st => by
    simp only [loopSrc, loop, update_src_plain, update_src_mir, mirror_flags_src.1, mirror_flags_src.2]
    rcases h1 : update cfg st i false t.plain with ⟨st1, b1⟩
    cases b1
    · simp only []
      by_cases hm : mirrorOn cfg = true
      · simp only [hm, if_true]
        rcases h2 : update cfg st1 i true t.mir with ⟨st2, b2⟩
        cases b2
        · simp only []; exact loop_src cfg ts (i + 1) st2
        · simp only []
      · simp only [hm]; exact loop_src cfg ts (i + 1) st1
    · simp only []

/-- `B787`'s search with the translated blocks returns what the hand model returns -/
theorem run_src (cfg : Cfg) (ts : List Trial) :
    runSrc B787Src.loopBody cfg ts = (match run cfg ts with | .ok st => RunSrc.ok st | .error e => RunSrc.err e) := by
  simp only [runSrc, run, loop_src]
  cases (loop cfg 0 ts init).sel <;> rfl

theorem runSrc_ok_iff (cfg : Cfg) (ts : List Trial) (st : State) :
    runSrc B787Src.loopBody cfg ts = .ok st ↔ run cfg ts = .ok st := by
  rw [run_src]
  cases h : run cfg ts with
  | ok s => simp
  | error e => simp

/-- **mirror images are matched only on request** over the source-derived loop -/
theorem runSrc_mirror_only_on_request (cfg : Cfg) (ts : List Trial) (st : State)
    (hreq : cfg.runMirror = false ∨ cfg.superimposable = true) (h : runSrc B787Src.loopBody cfg ts = .ok st) :
    ∀ j m, st.sel = some (j, m) → m = false :=
  mirror_only_on_request cfg ts st hreq ((runSrc_ok_iff cfg ts st).1 h)

/-- **run to completion ⇒ the returned RMSD is the minimum over the trials** over the source-derived loop -/
theorem runSrc_best_is_min (cfg : Cfg) (hc : cfg.runToCompletion = true) (ts : List Trial) (st : State)
    (h : runSrc B787Src.loopBody cfg ts = .ok st) :
    ∀ t ∈ ts, st.best ≤ t.plain ∧ (mirrorOn cfg = true → st.best ≤ t.mir) :=
  best_is_min cfg hc ts st ((runSrc_ok_iff cfg ts st).1 h)

/-- **the held recipe is one of the trials and `best` is that trial's RMSD** over the source-derived loop: the stored map is
    updated together with the stored RMSD -/
theorem runSrc_sel_attains_best (cfg : Cfg) (ts : List Trial) (st : State)
    (h : runSrc B787Src.loopBody cfg ts = .ok st) :
    ∃ j m t, st.sel = some (j, m) ∧ ts[j]? = some t ∧ st.best = t.val m :=
  sel_attains_best cfg ts st ((runSrc_ok_iff cfg ts st).1 h)

-- non-vacuity (tests): the source-derived loop returns a held recipe; with the request the mirror trial can win
example : runSrc B787Src.loopBody ⟨true, false, true, 0⟩ [⟨5, 1⟩, ⟨3, 7⟩] = .ok ⟨1, some (0, true), 4⟩ := by decide
example : runSrc B787Src.loopBody ⟨false, false, false, 0⟩ [⟨5, 1⟩] = .ok ⟨5, some (0, false), 1⟩ := by decide

end QcelVerif.B787Ast
