import QcelVerif.Props.C12
import QcelVerif.Lemmas.QuatSurj
import QcelVerif.Lemmas.RigidMotion
/-!
# C12 (full strength over ℝ) — optimality against *every* proper rotation / proper rigid motion

`Props/C12.lean` proves `kabsch_optimal_partial`: with an accepted certificate the residual of `U(q)` is at
most the residual of every rotation of *quaternion form* `U(p)/|p|²`.  Its `-- FULL:` note asks for
surjectivity of the unit quaternions onto SO(3).  `Lemmas/QuatSurj.lean` proves that surjectivity
(`quatRot_surjective`, over ℝ; `quatRot_surjective_of_sqrt` over every ordered field with square roots of
positive elements) for exactly the matrix written at align.py:542-552.  Here it is used to lift the theorems:

* `properRot_iff_quat`      — `R·Rᵀ = I ∧ det R = 1  ↔  ∃ q, |q|² = 1 ∧ quatRot q = R`   (ℝ)
* `kabsch_optimal`          — certified `q` ⇒ residual of `U(q)` ≤ residual of **every proper rotation** + slack
* `recovery_full`           — some proper rotation superimposes the centred sets exactly ⇒ residual ≤ slack
* `kabsch_optimal_rigid`    — … ≤ residual of **every proper rigid motion** `c ↦ (c − s)·R` applied to the
                              *uncentred* geometries (rotation and translation together) + slack
* `kabschAlign_optimal`     — the same, stated on the output record of the model `kabschAlign`
* `recovery_rigid`          — if the reference *is* the concern geometry moved by a proper rigid motion, the
                              certified answer has residual ≤ slack

slack = `2ε + δ(2+δ)·Σ|c̃|²` exactly as in `kabsch_optimal_partial` (ε: certificate margin on the eigenvalue,
δ: `| |q|² − 1 |` of the floating-point eigenvector).  What remains outside these theorems is unchanged:
`eigh` itself and float rounding (handled per call by the certificate), and uniqueness of the optimal rotation.
-/
namespace QcelVerif.Kabsch
variable {K : Type}

section Ordered
variable [Field K] [LinearOrder K] [IsStrictOrderedRing K]

omit [LinearOrder K] [IsStrictOrderedRing K] in
/-- for a unit quaternion the normalised rotation `U(p)/|p|²` is `U(p)` itself -/
theorem rotOf_unit (p : Q4 K) (hp : p.nrm2 = 1) : rotOf p = quatRot p := by
  rw [rotOf, hp, div_one, smul_one_eq]

/-- optimality against every proper rotation, over any ordered field with square roots of positive elements -/
theorem kabsch_optimal_of_sqrt (hsqrt : ∀ x : K, 0 < x → ∃ s : K, s * s = x)
    (pairs : List (V3 K × V3 K)) (q : Q4 K) (δ ε : K)
    (h : isTopEig (Fmat (cov pairs)) q δ ε = true)
    (R : M3 K) (ho : R.mul R.transpose = M3.one) (hd : R.det = 1) :
    resid (quatRot q) pairs ≤ resid R pairs + 2 * ε + δ * (2 + δ) * sumC2 pairs := by
  obtain ⟨p, hp, rfl⟩ := quatRot_surjective_of_sqrt hsqrt R ho hd
  have := kabsch_optimal_partial pairs q δ ε h p (by rw [hp]; exact one_ne_zero)
  rwa [rotOf_unit p hp] at this

end Ordered

/-- **characterisation of SO(3)** by the implementation's quaternion matrix: a real 3×3 matrix is a proper
    rotation iff it is `quatRot q` for a unit quaternion `q` -/
theorem properRot_iff_quat (R : M3 ℝ) :
    (R.mul R.transpose = M3.one ∧ R.det = 1) ↔ ∃ q : Q4 ℝ, q.nrm2 = 1 ∧ quatRot q = R := by
  constructor
  · rintro ⟨ho, hd⟩; exact quatRot_surjective R ho hd
  · rintro ⟨q, hq, rfl⟩; exact ⟨(quatRot_orthogonal q hq).1, quatRot_det q hq⟩

-- non-vacuity (test): a proper rotation with trace −1 (rotation by π about x), i.e. one for which the
-- `q₀` branch of the construction is unavailable (`1 + tr R = 0`) and another column must be used
example : (⟨1, 0, 0, 0, -1, 0, 0, 0, -1⟩ : M3 ℝ).mul (⟨1, 0, 0, 0, -1, 0, 0, 0, -1⟩ : M3 ℝ).transpose = M3.one
    ∧ (⟨1, 0, 0, 0, -1, 0, 0, 0, -1⟩ : M3 ℝ).det = 1 ∧ (Nmat (⟨1, 0, 0, 0, -1, 0, 0, 0, -1⟩ : M3 ℝ)).f00 = 0 := by
  refine ⟨?_, ?_, ?_⟩
  · ext <;> simp only [M3.mul, M3.transpose, M3.one] <;> norm_num
  · simp only [M3.det]; norm_num
  · simp only [Nmat]; norm_num
-- and a reflection is (rightly) not reached: det = −1
example : (⟨1, 0, 0, 0, 1, 0, 0, 0, -1⟩ : M3 ℝ).det = -1 := by simp only [M3.det]; norm_num

/-- **optimality, full strength**: if the eigenvector `q` the implementation used passes the certificate for
    `F = F(cov(R̃,C̃))`, then the rotation `U(q)` it built has a residual no larger than that of **every proper
    rotation** `R` (orthogonal, det = +1) of ℝ³, up to `2ε + δ(2+δ)·Σ|c|²`. -/
theorem kabsch_optimal (pairs : List (V3 ℝ × V3 ℝ)) (q : Q4 ℝ) (δ ε : ℝ)
    (h : isTopEig (Fmat (cov pairs)) q δ ε = true)
    (R : M3 ℝ) (ho : R.mul R.transpose = M3.one) (hd : R.det = 1) :
    resid (quatRot q) pairs ≤ resid R pairs + 2 * ε + δ * (2 + δ) * sumC2 pairs :=
  kabsch_optimal_of_sqrt (fun x hx => ⟨Real.sqrt x, Real.mul_self_sqrt hx.le⟩) pairs q δ ε h R ho hd

/-- **recovery, full strength**: if *some proper rotation* maps the centred concern geometry exactly onto the
    centred reference, the certified answer's residual is at most `2ε + δ(2+δ)Σ|c|²`. -/
theorem recovery_full (pairs : List (V3 ℝ × V3 ℝ)) (q : Q4 ℝ) (δ ε : ℝ)
    (h : isTopEig (Fmat (cov pairs)) q δ ε = true)
    (R : M3 ℝ) (ho : R.mul R.transpose = M3.one) (hd : R.det = 1) (hexact : resid R pairs = 0) :
    resid (quatRot q) pairs ≤ 2 * ε + δ * (2 + δ) * sumC2 pairs := by
  have := kabsch_optimal pairs q δ ε h R ho hd
  rw [hexact] at this; linarith

/-- **optimal proper rigid motion**: for two geometries of equal length, with `pairs` the centred pairs
    `kabsch_align` works on (align.py:487-495), the certified rotation's centred residual is at most the
    residual `Σ_i |r_i − (c_i − s)·R|²` of **every** proper rotation `R` combined with **every** shift `s`,
    applied to the *uncentred* geometries the way `align_coordinates` applies a recipe — up to the slack. -/
theorem kabsch_optimal_rigid (Rg Cg : List (V3 ℝ)) (hlen : Rg.length = Cg.length) (q : Q4 ℝ) (δ ε : ℝ)
    (h : isTopEig (Fmat (cov ((centre Rg).zip (centre Cg)))) q δ ε = true)
    (R : M3 ℝ) (ho : R.mul R.transpose = M3.one) (hd : R.det = 1) (s : V3 ℝ) :
    resid (quatRot q) ((centre Rg).zip (centre Cg))
      ≤ dist2 Rg (Cg.map (fun c => rowMul (c.sub s) R)) + 2 * ε
        + δ * (2 + δ) * sumC2 ((centre Rg).zip (centre Cg)) := by
  have h1 := kabsch_optimal _ q δ ε h R ho hd
  have h2 := centred_le_motion R s Rg Cg hlen
  linarith

/-- the same on the output record of the model: whenever the exact-equality head-off did not fire,
    `res2` (= N·rmsd²/bohr2angstroms²) is within the slack of the residual of every proper rigid motion -/
theorem kabschAlign_optimal (Rg Cg : List (V3 ℝ)) (hlen : Rg.length = Cg.length) (q : Q4 ℝ) (δ ε : ℝ)
    (hs : (kabschAlign Rg Cg q).shortcut = false)
    (h : isTopEig (kabschAlign Rg Cg q).F q δ ε = true)
    (R : M3 ℝ) (ho : R.mul R.transpose = M3.one) (hd : R.det = 1) (s : V3 ℝ) :
    (kabschAlign Rg Cg q).res2
      ≤ dist2 Rg (Cg.map (fun c => rowMul (c.sub s) R)) + 2 * ε + δ * (2 + δ) * (kabschAlign Rg Cg q).sc2 := by
  unfold kabschAlign at hs h ⊢
  by_cases hg : geomEq Rg Cg = true
  · simp only [hg, if_true] at hs; cases hs
  · simp only [hg] at h ⊢
    exact kabsch_optimal_rigid Rg Cg hlen q δ ε h R ho hd s

/-- **recovery of a known proper rigid motion**: if the reference is the concern geometry moved by a proper
    rotation `R` and a shift `s` (`r_i = (c_i − s)·R` for every atom), the certified answer's residual is at
    most `2ε + δ(2+δ)Σ|c̃|²` — zero up to the stated numerical slack. -/
theorem recovery_rigid (Rg Cg : List (V3 ℝ)) (R : M3 ℝ) (ho : R.mul R.transpose = M3.one) (hd : R.det = 1)
    (s : V3 ℝ) (hmove : Rg = Cg.map (fun c => rowMul (c.sub s) R)) (q : Q4 ℝ) (δ ε : ℝ)
    (h : isTopEig (Fmat (cov ((centre Rg).zip (centre Cg)))) q δ ε = true) :
    resid (quatRot q) ((centre Rg).zip (centre Cg))
      ≤ 2 * ε + δ * (2 + δ) * sumC2 ((centre Rg).zip (centre Cg)) := by
  have hlen : Rg.length = Cg.length := by rw [hmove, List.length_map]
  have h1 := kabsch_optimal_rigid Rg Cg hlen q δ ε h R ho hd s
  rw [← hmove, dist2_self] at h1
  linarith

-- non-vacuity of the hypotheses over ℝ (test): two atoms, C = R rotated by 120° about (1,1,1) and shifted;
-- q = (1/2,1/2,1/2,1/2) is certified with δ = 0, ε = 1/1000 for the centred pairs.
example :
    let pairs : List (V3 ℝ × V3 ℝ) := [(⟨1, 0, 0⟩, ⟨0, 1, 0⟩), (⟨-1, 0, 0⟩, ⟨0, -1, 0⟩)]
    isTopEig (Fmat (cov pairs)) (⟨1/2, 1/2, 1/2, 1/2⟩ : Q4 ℝ) 0 (1/1000) = true
      ∧ resid (quatRot (⟨1/2, 1/2, 1/2, 1/2⟩ : Q4 ℝ)) pairs = 0 := by
  simp only [isTopEig, posDef4, posDef3, posDef2, schur4, schur3, schur2, shiftNeg, quad, Fmat, cov, outer,
    M3.add, M3.zero, Q4.nrm2, resid, quatRot, rowMul, V3.sub, V3.nrm2, Bool.and_eq_true]
  norm_num

end QcelVerif.Kabsch
