import QcelVerif.Lemmas.ChgMult
/-!
# C05 — charge/multiplicity completion: property theorems

Model: `Model/ChgMult.lean` (`vfc` = `validate_and_fill_chgmult`, integer scope).
All theorems hold for any number of fragments and any electron counts (no bound).

PROPERTY-THEOREMS (audited by `Audit/C05.lean`):
  vfc_sound  vfc_error_is_validation  vfc_deterministic  vfc_accepts_valid_full
  vfc_idem   vfc_default  rulesOk_iff_Rules
-/
namespace QcelVerif.ChgMult

/-- The property, verbatim, for a returned assignment `o` against the effective
specification `e` (for `zero_ghost_fragments = False`, `e` is the caller's input). -/
structure Rules (e : Inp) (o : Out) : Prop where
  /-- one charge and one multiplicity per fragment -/
  len_fc : o.fc.length = e.frags.length
  len_fm : o.fm.length = e.frags.length
  /-- total charge is the sum of fragment charges -/
  total_charge : o.c = isum o.fc
  /-- positive multiplicities -/
  mult_pos : 1 ≤ o.m ∧ ∀ x ∈ o.fm, 1 ≤ x
  /-- enough electrons and right parity for the whole system -/
  enough_total : o.m - 1 ≤ isum (e.frags.map isum) - o.c
  parity_total : (o.m + (isum (e.frags.map isum) - o.c)) % 2 = 1
  /-- … and for each fragment; all-ghost fragments are neutral singlets -/
  frag : ∀ (k : Nat) (f : List Int) (c m : Int),
      e.frags[k]? = some f → o.fc[k]? = some c → o.fm[k]? = some m →
      m - 1 ≤ isum f - c ∧ (m + (isum f - c)) % 2 = 1 ∧ (isGhost f = true → c = 0 ∧ m = 1)
  /-- every supplied value is kept -/
  keeps_c : ∀ v, e.c = some v → o.c = v
  keeps_m : ∀ v, e.m = some v → o.m = v
  keeps_fc : ∀ (k : Nat) (v x : Int), e.fc[k]? = some (some v) → o.fc[k]? = some x → x = v
  keeps_fm : ∀ (k : Nat) (v x : Int), e.fm[k]? = some (some v) → o.fm[k]? = some x → x = v
  /-- high-spin coupling unless total and all fragment multiplicities were given -/
  high_spin : (e.m = none ∨ none ∈ e.fm) → o.m = highSpin o.fm

/-! ### bridging the Boolean rule predicate and the propositional statement -/

theorem parityOk_iff (z c m : Int) : parityOk z c m = true ↔ (m + (z - c)) % 2 = 1 := by
  simp only [parityOk, bne_iff_ne, ne_eq]; omega

theorem sufficient_iff (z c m : Int) : sufficient z c m = true ↔ m - 1 ≤ z - c := by
  simp [sufficient]

theorem fragRules_spec : ∀ (fs : List (List Int)) (cs ms : List Int),
    cs.length = fs.length → ms.length = fs.length →
    (fragRules fs cs ms = true ↔
      ∀ (k : Nat) (f : List Int) (c m : Int), fs[k]? = some f → cs[k]? = some c → ms[k]? = some m →
        m - 1 ≤ isum f - c ∧ (m + (isum f - c)) % 2 = 1 ∧ (isGhost f = true → c = 0 ∧ m = 1))
  | [], [], [], _, _ => by simp [fragRules]
  | [], _ :: _, _, h, _ => by simp at h
  | [], [], _ :: _, _, h => by simp at h
  | _ :: _, [], _, h, _ => by simp at h
  | _ :: _, _ :: _, [], _, h => by simp at h
  | f :: fs, c :: cs, m :: ms, h1, h2 => by
      have ih := fragRules_spec fs cs ms (by simpa using h1) (by simpa using h2)
      simp only [fragRules, Bool.and_eq_true, ih, parityOk_iff, sufficient_iff]
      constructor
      · rintro ⟨⟨⟨ha, hb⟩, hc⟩, hrest⟩ k f' c' m' hf hc' hm'
        cases k with
        | zero =>
          simp at hf hc' hm'; subst hf hc' hm'
          refine ⟨ha, hb, ?_⟩
          intro hg; simpa [hg] using hc
        | succ k => exact hrest k f' c' m' (by simpa using hf) (by simpa using hc') (by simpa using hm')
      · intro h
        have h0 := h 0 f c m (by simp) (by simp) (by simp)
        refine ⟨⟨⟨h0.1, h0.2.1⟩, ?_⟩, ?_⟩
        · cases hg : isGhost f with
          | false => simp
          | true => simpa using h0.2.2 hg
        · intro k f' c' m' hf hc' hm'
          exact h (k+1) f' c' m' (by simpa using hf) (by simpa using hc') (by simpa using hm')

theorem keepsAll_spec : ∀ (s : List (Option Int)) (v : List Int), s.length = v.length →
    (keepsAll s v = true ↔ ∀ (k : Nat) (a x : Int), s[k]? = some (some a) → v[k]? = some x → x = a)
  | [], [], _ => by simp [keepsAll]
  | [], _ :: _, h => by simp at h
  | _ :: _, [], h => by simp at h
  | o :: ss, y :: vs, h => by
      have ih := keepsAll_spec ss vs (by simpa using h)
      simp only [keepsAll, Bool.and_eq_true, ih]
      constructor
      · rintro ⟨h0, hr⟩ k a x hs hv
        cases k with
        | zero =>
          simp at hs hv; subst hs hv; simpa [keeps] using h0
        | succ k => exact hr k a x (by simpa using hs) (by simpa using hv)
      · intro hh
        refine ⟨?_, fun k a x hs hv => hh (k+1) a x (by simpa using hs) (by simpa using hv)⟩
        cases o with
        | none => rfl
        | some a => simpa [keeps] using hh 0 a y (by simp) (by simp)

theorem keeps_spec (s : Option Int) (v : Int) : keeps s v = true ↔ ∀ a, s = some a → v = a := by
  cases s <;> simp [keeps]

theorem highSpinRequired_iff (e : Inp) : highSpinRequired e = true ↔ (e.m = none ∨ none ∈ e.fm) := by
  simp only [highSpinRequired, Bool.or_eq_true, Option.isNone_iff_eq_none, List.any_eq_true]
  constructor
  · rintro (h | ⟨x, hx, hn⟩)
    · exact Or.inl h
    · exact Or.inr (hn ▸ hx)
  · rintro (h | h)
    · exact Or.inl h
    · exact Or.inr ⟨none, h, rfl⟩

/-- The executable rule predicate of the model says exactly what the property says. -/
theorem rulesOk_iff_Rules (e : Inp) (o : Out)
    (hfc : e.fc.length = e.frags.length) (hfm : e.fm.length = e.frags.length) :
    rulesOk e o = true ↔ Rules e o := by
  constructor
  · intro h
    simp only [rulesOk, Bool.and_eq_true, beq_iff_eq, decide_eq_true_eq, List.all_eq_true,
      Bool.or_eq_true, Bool.not_eq_true'] at h
    obtain ⟨⟨⟨⟨⟨⟨⟨⟨⟨⟨⟨l1, l2⟩, r2⟩, r3a, r3b⟩, r4⟩, r5⟩, rf⟩, k1⟩, k2⟩, k3⟩, k4⟩, r8⟩ := h
    exact {
      len_fc := l1, len_fm := l2, total_charge := r2
      mult_pos := ⟨r3a, r3b⟩
      enough_total := (sufficient_iff _ _ _).1 r4
      parity_total := (parityOk_iff _ _ _).1 r5
      frag := (fragRules_spec _ _ _ l1 l2).1 rf
      keeps_c := (keeps_spec _ _).1 k1
      keeps_m := (keeps_spec _ _).1 k3
      keeps_fc := (keepsAll_spec _ _ (by omega)).1 k2
      keeps_fm := (keepsAll_spec _ _ (by omega)).1 k4
      high_spin := by
        intro hh
        rcases r8 with r8 | r8
        · have := (highSpinRequired_iff e).2 hh; simp [this] at r8
        · exact r8 }
  · intro R
    simp only [rulesOk, Bool.and_eq_true, beq_iff_eq, decide_eq_true_eq, List.all_eq_true,
      Bool.or_eq_true, Bool.not_eq_true']
    refine ⟨⟨⟨⟨⟨⟨⟨⟨⟨⟨⟨R.len_fc, R.len_fm⟩, R.total_charge⟩, R.mult_pos.1, R.mult_pos.2⟩,
      (sufficient_iff _ _ _).2 R.enough_total⟩, (parityOk_iff _ _ _).2 R.parity_total⟩,
      (fragRules_spec _ _ _ R.len_fc R.len_fm).2 R.frag⟩, (keeps_spec _ _).2 R.keeps_c⟩,
      (keepsAll_spec _ _ (by have := R.len_fc; omega)).2 R.keeps_fc⟩, (keeps_spec _ _).2 R.keeps_m⟩,
      (keepsAll_spec _ _ (by have := R.len_fm; omega)).2 R.keeps_fm⟩, ?_⟩
    cases hh : highSpinRequired e with
    | false => exact Or.inl rfl
    | true => exact Or.inr (R.high_spin ((highSpinRequired_iff e).1 hh))

/-! ### what a successful run means -/

theorem vfc_ok_unfold {i : Inp} {o : Out} (h : vfc i = .ok o) :
    wellFormed i = true ∧ precheckFails i = false ∧
    (candidates (effective i)).find? (rulesOk (effective i)) = some o := by
  unfold vfc at h
  split at h
  · cases h
  · split at h
    · cases h
    · rename_i h1 h2
      split at h
      · rename_i o' ho
        cases h
        exact ⟨by simpa using h1, by simpa using h2, ho⟩
      · cases h

theorem effective_lengths (i : Inp) (h : wellFormed i = true) :
    (effective i).fc.length = (effective i).frags.length ∧
    (effective i).fm.length = (effective i).frags.length := by
  simp only [wellFormed, Bool.and_eq_true, beq_iff_eq] at h
  unfold effective
  split <;> simp [h.1, h.2]

/-- **Soundness.** A returned assignment obeys every rule of the property (w.r.t. the
effective specification; with `zero_ghost_fragments = False` that is the caller's input). -/
theorem vfc_sound (i : Inp) (o : Out) (h : vfc i = .ok o) : Rules (effective i) o := by
  obtain ⟨hw, _, hf⟩ := vfc_ok_unfold h
  have hl := effective_lengths i hw
  exact (rulesOk_iff_Rules _ _ hl.1 hl.2).1 (List.find?_some hf)

/-- with the flag off the effective specification *is* the input -/
theorem effective_of_not_zgf (i : Inp) (h : i.zgf = false) : effective i = i := by
  simp [effective, h]

theorem vfc_sound_plain (i : Inp) (o : Out) (hz : i.zgf = false) (h : vfc i = .ok o) :
    Rules i o := by
  have := vfc_sound i o h
  rwa [effective_of_not_zgf i hz] at this

/-- **Refusal instead of a violating answer.** On well-formed input the only alternative
to a sound answer is `ValidationError`. -/
theorem vfc_error_is_validation (i : Inp) (hw : wellFormed i = true) :
    (∃ o, vfc i = .ok o ∧ Rules (effective i) o) ∨ vfc i = .error .validation := by
  cases h : vfc i with
  | ok o => exact Or.inl ⟨o, rfl, vfc_sound i o h⟩
  | error e =>
    right
    unfold vfc at h
    simp only [hw, Bool.not_true, Bool.false_eq_true, ↓reduceIte] at h
    split at h
    · exact h.symm ▸ rfl
    · split at h
      · cases h
      · exact h.symm ▸ rfl

/-- **Determinism** (the model is a function of its input; recorded for completeness —
the correspondence run is what shows the implementation has no hidden state). -/
theorem vfc_deterministic (i j : Inp) (h : i = j) : vfc i = vfc j := by rw [h]

/-! ### acceptance of valid full specifications, idempotence -/

/-- Core acceptance lemma: if all fragment values are specified (as `fc`, `fm`), the total
charge is either specified as `c` or unspecified with `c = Σ fc`, the total multiplicity is
either specified as `m` or unspecified with `m` the high-spin sum, and the tuple passes the
rules, then it is the *first* candidate, hence the one returned. -/
theorem accept_core (e : Inp) (c m : Int) (fc fm : List Int)
    (hfc : e.fc = fc.map some) (hfm : e.fm = fm.map some)
    (hc : e.c = some c ∨ (e.c = none ∧ c = isum fc))
    (hm : e.m = some m ∨ (e.m = none ∧ m = highSpin fm))
    (hr : rulesOk e ⟨c, fc, m, fm⟩ = true) :
    (candidates e).find? (rulesOk e) = some ⟨c, fc, m, fm⟩ := by
  apply find?_eq_some_of_first _ _ _ _ hr
  have h1 : ∃ r, dedup (candC e) = c :: r := by
    rcases hc with hc | ⟨hc, hcs⟩
    · simp only [candC, hc]; exact dedup_head _ _
    · simp only [candC, hc, hfc, sumKnown_map_some, List.nil_append, ← hcs]; exact ⟨_, rfl⟩
  have h2 : prod ((candFc e).map dedup) = [fc] := by
    have : candFc e = fc.map (fun x => [x]) := by
      simp [candFc, hfc, List.map_map, Function.comp_def]
    rw [this]; exact prod_singletons fc
  have h3 : dedup (candM e) = [m] := by
    rcases hm with hm | ⟨hm, hms⟩
    · simp [candM, hm]
    · simp only [candM, hm, hfm, applyDefault_map_some, irange_self, ← hms, dedup_single]
  have h4 : prod ((candFm e).map dedup) = [fm] := by
    have : candFm e = fm.map (fun x => [x]) := by
      simp only [candFm, hfm, List.map_map, Function.comp_def]
    rw [this]; exact prod_singletons fm
  obtain ⟨r, hr1⟩ := h1
  simp [candidates, hr1, h2, h3, h4]

/-- A fully specified input (no `None` anywhere). -/
def fullSpec (frags : List (List Int)) (o : Out) (zgf : Bool) : Inp :=
  { frags := frags, c := some o.c, fc := o.fc.map some, m := some o.m, fm := o.fm.map some, zgf := zgf }

theorem badMult_of_pos (v : Int) (h : 1 ≤ v) : badMult (some v) = false := by
  simp [badMult]; omega

/-- **Any fully specified assignment that obeys the rules is accepted as is**
(`zero_ghost_fragments = False`, the function's default and the only way the library calls it). -/
theorem vfc_accepts_valid_full (frags : List (List Int)) (o : Out)
    (hR : Rules (fullSpec frags o false) o) : vfc (fullSpec frags o false) = .ok o := by
  have hw : wellFormed (fullSpec frags o false) = true := by
    simpa [wellFormed, fullSpec] using And.intro hR.len_fc hR.len_fm
  have hp : precheckFails (fullSpec frags o false) = false := by
    simp only [precheckFails, fullSpec, Bool.or_eq_false_iff, List.any_eq_false]
    refine ⟨badMult_of_pos _ hR.mult_pos.1, ?_⟩
    intro x hx
    simp only [List.mem_map] at hx
    obtain ⟨v, hv, rfl⟩ := hx
    simp [badMult_of_pos v (hR.mult_pos.2 v hv)]
  have he : effective (fullSpec frags o false) = fullSpec frags o false :=
    effective_of_not_zgf _ rfl
  have hl : (fullSpec frags o false).fc.length = (fullSpec frags o false).frags.length ∧
      (fullSpec frags o false).fm.length = (fullSpec frags o false).frags.length := by
    simpa [fullSpec] using And.intro hR.len_fc hR.len_fm
  have hr := (rulesOk_iff_Rules _ _ hl.1 hl.2).2 hR
  have := accept_core (fullSpec frags o false) o.c o.m o.fc o.fm rfl rfl (Or.inl rfl) (Or.inl rfl) hr
  unfold vfc
  simp [hw, hp, he, this]


/-- re-specifying with the returned values keeps the rules -/
theorem Rules_respec (e e' : Inp) (o : Out) (R : Rules e o)
    (hfr : e'.frags = e.frags) (hfc : e'.fc = o.fc.map some) (hfm : e'.fm = o.fm.map some)
    (hc : e'.c = some o.c ∨ e'.c = none)
    (hm : e'.m = some o.m ∨ (e'.m = none ∧ e.m = none)) : Rules e' o where
  len_fc := by rw [hfr]; exact R.len_fc
  len_fm := by rw [hfr]; exact R.len_fm
  total_charge := R.total_charge
  mult_pos := R.mult_pos
  enough_total := by rw [hfr]; exact R.enough_total
  parity_total := by rw [hfr]; exact R.parity_total
  frag := by rw [hfr]; exact R.frag
  keeps_c := by
    intro v hv
    rcases hc with hc | hc
    · rw [hc] at hv; exact Option.some.inj hv
    · rw [hc] at hv; cases hv
  keeps_m := by
    intro v hv
    rcases hm with hm | ⟨hm, _⟩
    · rw [hm] at hv; exact Option.some.inj hv
    · rw [hm] at hv; cases hv
  keeps_fc := by
    intro k v x h1 h2
    rw [hfc, List.getElem?_map, h2] at h1
    simp at h1; exact h1
  keeps_fm := by
    intro k v x h1 h2
    rw [hfm, List.getElem?_map, h2] at h1
    simp at h1; exact h1
  high_spin := by
    intro hh
    rcases hm with hm | ⟨_, hm⟩
    · rcases hh with hh | hh
      · rw [hm] at hh; cases hh
      · rw [hfm] at hh; simp at hh
    · exact R.high_spin (Or.inl hm)

theorem zipWith_ghost_keep (d : Int) : ∀ (frags : List (List Int)) (v : List Int),
    v.length = frags.length →
    (∀ (k : Nat) (f : List Int) (x : Int), frags[k]? = some f → v[k]? = some x →
      isGhost f = true → x = d) →
    List.zipWith (fun f x => if isGhost f then some d else x) frags (v.map some) = v.map some
  | [], [], _, _ => rfl
  | [], _ :: _, h, _ => by simp at h
  | _ :: _, [], h, _ => by simp at h
  | f :: fs, x :: xs, hl, hg => by
      have ih := zipWith_ghost_keep d fs xs (by simpa using hl)
        (fun k f' x' h1 h2 h3 => hg (k+1) f' x' (by simpa using h1) (by simpa using h2) h3)
      simp only [List.map_cons, List.zipWith_cons_cons, ih, List.cons.injEq, and_true]
      cases hgf : isGhost f with
      | false => simp
      | true => simp [hg 0 f x (by simp) (by simp) hgf]

/-- **Idempotence.** A completed assignment fed back (same fragments, same
`zero_ghost_fragments` flag) is returned unchanged. -/
theorem vfc_idem (i : Inp) (o : Out) (h : vfc i = .ok o) : vfc (specifiedBy i o) = .ok o := by
  obtain ⟨hw, _, _⟩ := vfc_ok_unfold h
  have R := vfc_sound i o h
  have hfrags : (effective i).frags = i.frags := by unfold effective; split <;> rfl
  have hlen_fc : o.fc.length = i.frags.length := by rw [← hfrags]; exact R.len_fc
  have hlen_fm : o.fm.length = i.frags.length := by rw [← hfrags]; exact R.len_fm
  have hw' : wellFormed (specifiedBy i o) = true := by
    simpa [wellFormed, specifiedBy] using And.intro hlen_fc hlen_fm
  have hp' : precheckFails (specifiedBy i o) = false := by
    simp only [precheckFails, specifiedBy, Bool.or_eq_false_iff, List.any_eq_false]
    refine ⟨badMult_of_pos _ R.mult_pos.1, ?_⟩
    intro x hx
    simp only [List.mem_map] at hx
    obtain ⟨v, hv, rfl⟩ := hx
    simp [badMult_of_pos v (R.mult_pos.2 v hv)]
  -- the effective re-specification, in both branches of the ghost rewriting
  have key : ∃ e', effective (specifiedBy i o) = e' ∧ e'.frags = (effective i).frags ∧
      e'.fc = o.fc.map some ∧ e'.fm = o.fm.map some ∧
      (e'.c = some o.c ∨ (e'.c = none ∧ o.c = isum o.fc)) ∧
      (e'.m = some o.m ∨ (e'.m = none ∧ (effective i).m = none)) := by
    by_cases hz : (i.zgf && !(i.frags.all (fun f => !isGhost f))) = true
    · refine ⟨_, rfl, ?_⟩
      have e1 : effective i = { i with
          c := none
          fc := List.zipWith (fun f x => if isGhost f then some 0 else x) i.frags i.fc
          m := none
          fm := List.zipWith (fun f x => if isGhost f then some 1 else x) i.frags i.fm } := by
        simp only [effective, hz, ↓reduceIte]
      have e2 : effective (specifiedBy i o) = { specifiedBy i o with
          c := none
          fc := List.zipWith (fun f x => if isGhost f then some 0 else x) i.frags (o.fc.map some)
          m := none
          fm := List.zipWith (fun f x => if isGhost f then some 1 else x) i.frags (o.fm.map some) } := by
        have : ((specifiedBy i o).zgf && !((specifiedBy i o).frags.all (fun f => !isGhost f))) = true := hz
        simp only [effective, this, ↓reduceIte]; rfl
      have g0 := zipWith_ghost_keep 0 i.frags o.fc hlen_fc (by
        intro k f x h1 h2 h3
        rw [← hfrags] at h1
        have hm : ∃ m, o.fm[k]? = some m := by
          have : k < o.fm.length := by
            have := (List.getElem?_eq_some_iff.1 h2).1; omega
          exact ⟨o.fm[k], List.getElem?_eq_getElem this⟩
        obtain ⟨m, hm⟩ := hm
        exact ((R.frag k f x m h1 h2 hm).2.2 h3).1)
      have g1 := zipWith_ghost_keep 1 i.frags o.fm hlen_fm (by
        intro k f x h1 h2 h3
        rw [← hfrags] at h1
        have hc : ∃ c, o.fc[k]? = some c := by
          have : k < o.fc.length := by
            have := (List.getElem?_eq_some_iff.1 h2).1; omega
          exact ⟨o.fc[k], List.getElem?_eq_getElem this⟩
        obtain ⟨c, hc⟩ := hc
        exact ((R.frag k f c x h1 hc h2).2.2 h3).2)
      rw [e2]
      refine ⟨by rw [hfrags]; rfl, g0, g1, Or.inr ⟨rfl, R.total_charge⟩, Or.inr ⟨rfl, by rw [e1]⟩⟩
    · have hz' : (i.zgf && !(i.frags.all (fun f => !isGhost f))) = false := by simpa using hz
      refine ⟨specifiedBy i o, ?_, ?_, rfl, rfl, Or.inl rfl, Or.inl rfl⟩
      · have : ((specifiedBy i o).zgf && !((specifiedBy i o).frags.all (fun f => !isGhost f))) = false := hz'
        simp only [effective, this]; rfl
      · rw [hfrags]; rfl
  obtain ⟨e', he', hfr, hfc, hfm, hc, hm⟩ := key
  have R' : Rules e' o := Rules_respec (effective i) e' o R hfr hfc hfm
    (hc.elim Or.inl (fun h => Or.inr h.1)) hm
  have hl : e'.fc.length = e'.frags.length ∧ e'.fm.length = e'.frags.length := by
    rw [hfc, hfm, hfr, hfrags]; simpa using And.intro hlen_fc hlen_fm
  have hr := (rulesOk_iff_Rules _ _ hl.1 hl.2).2 R'
  have hm' : e'.m = some o.m ∨ (e'.m = none ∧ o.m = highSpin o.fm) :=
    hm.elim Or.inl (fun h => Or.inr ⟨h.1, R.high_spin (Or.inl h.2)⟩)
  have := accept_core e' o.c o.m o.fc o.fm hfc hfm hc hm' hr
  unfold vfc
  simp [hw', hp', he', this]


/-! ### the default: nothing specified -/

/-- nothing specified -/
def unspec (frags : List (List Int)) : Inp :=
  { frags := frags, c := none, fc := frags.map (fun _ => none), m := none,
    fm := frags.map (fun _ => none), zgf := false }

/-- neutral fragments, lowest multiplicity per fragment (1 for an even electron count, 2 for odd),
high-spin total -/
def defaultOut (frags : List (List Int)) : Out :=
  let fm := frags.map (fun f => 1 + isum f % 2)
  { c := 0, fc := frags.map (fun _ => 0), m := highSpin fm, fm := fm }

theorem mem_candidates (e : Inp) (o : Out) : o ∈ candidates e ↔
    o.c ∈ candC e ∧ MemAll o.fc ((candFc e).map dedup) ∧ o.m ∈ candM e ∧
    MemAll o.fm ((candFm e).map dedup) := by
  simp only [candidates, List.mem_flatMap, List.mem_map, mem_dedup, mem_prod]
  constructor
  · rintro ⟨c, hc, fc, hfc, m, hm, fm, hfm, rfl⟩; exact ⟨hc, hfc, hm, hfm⟩
  · rintro ⟨hc, hfc, hm, hfm⟩; exact ⟨o.c, hc, o.fc, hfc, o.m, hm, o.fm, hfm, rfl⟩

theorem isum_const {α} (d : Int) (l : List α) : isum (l.map (fun _ => d)) = d * l.length := by
  induction l with
  | nil => simp
  | cons _ t ih =>
    simp only [List.map_cons, isum_cons, ih, List.length_cons]; push_cast
    rw [Int.mul_add]; omega

theorem isum_zeros {α} (l : List α) : isum (l.map (fun _ => (0:Int))) = 0 := by
  simpa using isum_const 0 l

theorem sumKnown_nones (l : List (List Int)) : sumKnown (l.map (fun _ => (none : Option Int))) = 0 := by
  simp only [sumKnown, List.map_map, Function.comp_def, Option.getD_none]
  exact isum_zeros l

theorem highSpin_applyDefault_nones (l : List (List Int)) (d : Int) :
    highSpin (applyDefault (l.map (fun _ => (none : Option Int))) d) = 1 + (d - 1) * l.length := by
  simp only [highSpin, applyDefault, List.map_map, Function.comp_def, Option.getD_none]
  rw [isum_const]

/-- electron-count facts about the default multiplicities (non-negative electron counts) -/
theorem default_frag_facts : ∀ (frags : List (List Int)), (∀ f ∈ frags, 0 ≤ isum f) →
    let fm := frags.map (fun f => 1 + isum f % 2)
    0 ≤ isum (fm.map (· - 1)) ∧ isum (fm.map (· - 1)) ≤ isum (frags.map isum) ∧
    isum (fm.map (· - 1)) ≤ frags.length ∧
    (isum (fm.map (· - 1)) + isum (frags.map isum)) % 2 = 0
  | [], _ => by simp
  | f :: t, h => by
      have ih := default_frag_facts t (fun f hf => h f (List.mem_cons_of_mem _ hf))
      have h0 := h f (List.mem_cons_self ..)
      simp only [List.map_cons, isum_cons, List.length_cons, List.map_map] at ih ⊢
      omega

theorem isGhost_isum (f : List Int) (h : isGhost f = true) : isum f = 0 := by
  induction f with
  | nil => rfl
  | cons x t ih =>
    simp only [isGhost, List.all_cons, Bool.and_eq_true, beq_iff_eq] at h
    simp only [isum_cons, h.1]
    have := ih (by simpa [isGhost] using h.2)
    omega

theorem MemAll_zeros : ∀ (l : List (List Int)),
    MemAll (l.map (fun _ => (0:Int))) ((l.map (fun _ => [(0:Int), 0])).map dedup)
  | [] => trivial
  | _ :: t => ⟨by simp [dedup], MemAll_zeros t⟩

theorem MemAll_zeros_inv : ∀ (l : List (List Int)) (v : List Int),
    MemAll v ((l.map (fun _ => [(0:Int), 0])).map dedup) → v = l.map (fun _ => 0)
  | [], [], _ => rfl
  | [], _ :: _, h => by simp [MemAll] at h
  | _ :: _, [], h => by simp [MemAll] at h
  | _ :: t, x :: xs, h => by
      simp only [List.map_cons, MemAll] at h
      have hx : x = 0 := by simpa [dedup] using h.1
      simp [hx, MemAll_zeros_inv t xs h.2]

theorem MemAll_onetwo : ∀ (l : List (List Int)) (g : List Int → Int), (∀ f, g f = 1 ∨ g f = 2) →
    MemAll (l.map g) ((l.map (fun _ => [(1:Int), 2])).map dedup)
  | [], _, _ => trivial
  | f :: t, g, hg => ⟨by rcases hg f with h | h <;> simp [dedup, h], MemAll_onetwo t g hg⟩

/-- a candidate fragment-multiplicity vector over {1,2} with the right parity is the default one -/
theorem fm_unique : ∀ (frags : List (List Int)) (fc fm : List Int),
    MemAll fm ((frags.map (fun _ => [(1:Int), 2])).map dedup) →
    fc = frags.map (fun _ => 0) →
    (∀ (k : Nat) (f : List Int) (c m : Int), frags[k]? = some f → fc[k]? = some c → fm[k]? = some m →
      (m + (isum f - c)) % 2 = 1) →
    fm = frags.map (fun f => 1 + isum f % 2)
  | [], _, [], _, _, _ => rfl
  | [], _, _ :: _, h, _, _ => by simp [MemAll] at h
  | _ :: _, _, [], h, _, _ => by simp [MemAll] at h
  | f :: t, fc, m :: ms, h, hfc, hp => by
      subst hfc
      simp only [List.map_cons, MemAll] at h
      have hm : m = 1 ∨ m = 2 := by simpa [dedup] using h.1
      have h0 := hp 0 f 0 m (by simp) (by simp) (by simp)
      have ih := fm_unique t (t.map (fun _ => 0)) ms h.2 rfl
        (fun k f' c' m' h1 h2 h3 => hp (k+1) f' c' m' (by simpa using h1) (by simpa using h2) (by simpa using h3))
      simp only [List.map_cons, ih, List.cons.injEq, and_true]
      omega

theorem candFc_unspec (frags : List (List Int)) :
    candFc (unspec frags) = frags.map (fun _ => [(0:Int), 0]) := by
  simp [candFc, unspec, sumKnown_nones, List.map_map, Function.comp_def]

theorem candFm_unspec (frags : List (List Int)) :
    candFm (unspec frags) = frags.map (fun _ => [(1:Int), 2]) := by
  have : irange (max 0 1) 0 = [] := by decide
  simp [candFm, missingMult, unspec, List.map_map, Function.comp_def, this]

theorem candC_unspec (frags : List (List Int)) : candC (unspec frags) = [0] := by
  simp [candC, unspec, sumKnown_nones]

theorem candM_unspec (frags : List (List Int)) :
    candM (unspec frags) = irange 1 (1 + frags.length) := by
  simp only [candM, unspec, highSpin_applyDefault_nones]
  congr 1 <;> omega

/-- **Default.** With nothing specified (and non-negative electron counts) the result is
neutral with the lowest multiplicity per fragment and the high-spin total. -/
theorem vfc_default (frags : List (List Int)) (hz : ∀ f ∈ frags, 0 ≤ isum f) :
    vfc (unspec frags) = .ok (defaultOut frags) := by
  have hw : wellFormed (unspec frags) = true := by simp [wellFormed, unspec]
  have hp : precheckFails (unspec frags) = false := by
    simp [precheckFails, unspec, badMult]
  have he : effective (unspec frags) = unspec frags := effective_of_not_zgf _ rfl
  have hl : (unspec frags).fc.length = (unspec frags).frags.length ∧
      (unspec frags).fm.length = (unspec frags).frags.length := by simp [unspec]
  have facts := default_frag_facts frags hz
  simp only at facts
  -- the default assignment passes the rules …
  have RD : Rules (unspec frags) (defaultOut frags) := {
    len_fc := by simp [defaultOut, unspec]
    len_fm := by simp [defaultOut, unspec]
    total_charge := by simp [defaultOut, isum_zeros]
    mult_pos := by
      refine ⟨by simp only [defaultOut, highSpin]; omega, ?_⟩
      intro x hx
      simp only [defaultOut, List.mem_map] at hx
      obtain ⟨f, _, rfl⟩ := hx; omega
    enough_total := by simp only [defaultOut, highSpin, unspec]; omega
    parity_total := by simp only [defaultOut, highSpin, unspec]; omega
    frag := by
      intro k f c m h1 h2 h3
      simp only [unspec] at h1
      simp only [defaultOut, List.getElem?_map, h1, Option.map_some, Option.some.injEq] at h2 h3
      subst h2 h3
      have h0 : 0 ≤ isum f := hz f (List.mem_of_getElem? h1)
      refine ⟨by omega, by omega, fun hg => ⟨rfl, ?_⟩⟩
      rw [isGhost_isum f hg]; rfl
    keeps_c := by intro v hv; cases hv
    keeps_m := by intro v hv; cases hv
    keeps_fc := by
      intro k v x h1; simp [unspec, List.getElem?_map] at h1
    keeps_fm := by
      intro k v x h1; simp [unspec, List.getElem?_map] at h1
    high_spin := by intro _; rfl }
  have hD : rulesOk (unspec frags) (defaultOut frags) = true :=
    (rulesOk_iff_Rules _ _ hl.1 hl.2).2 RD
  -- … and is among the candidates, so the search succeeds
  have hmem : defaultOut frags ∈ candidates (unspec frags) := by
    rw [mem_candidates, candC_unspec, candFc_unspec, candFm_unspec, candM_unspec]
    refine ⟨by simp [defaultOut], MemAll_zeros frags, ?_, ?_⟩
    · rw [mem_irange]; simp only [defaultOut, highSpin]; omega
    · exact MemAll_onetwo frags (fun f => 1 + isum f % 2) (fun f => by omega)
  have hsome : ((candidates (unspec frags)).find? (rulesOk (unspec frags))).isSome = true := by
    rw [List.find?_isSome]; exact ⟨_, hmem, hD⟩
  obtain ⟨o, ho⟩ := Option.isSome_iff_exists.1 hsome
  -- whatever is found passes the rules and is a candidate, hence equals the default
  have hRo : Rules (unspec frags) o := (rulesOk_iff_Rules _ _ hl.1 hl.2).1 (List.find?_some ho)
  have hmo : o ∈ candidates (unspec frags) := List.mem_of_find?_eq_some ho
  rw [mem_candidates, candC_unspec, candFc_unspec, candFm_unspec, candM_unspec] at hmo
  obtain ⟨hc, hfc, _, hfm⟩ := hmo
  have e1 : o.c = 0 := by simpa using hc
  have e2 : o.fc = frags.map (fun _ => 0) := MemAll_zeros_inv frags o.fc hfc
  have e3 : o.fm = frags.map (fun f => 1 + isum f % 2) :=
    fm_unique frags o.fc o.fm hfm e2 (fun k f c m h1 h2 h3 => (hRo.frag k f c m h1 h2 h3).2.1)
  have e4 : o.m = highSpin o.fm := hRo.high_spin (Or.inl rfl)
  have : o = defaultOut frags := by
    cases o; simp only [defaultOut] at *; simp [e1, e2, e3, e4]
  unfold vfc
  simp [hw, hp, he, ho, this]

/-! ### non-vacuity and docstring examples (these are tests, labelled as tests) -/

/-- `Rules` is satisfiable by a non-trivial assignment: He/He with charge +2 on the first. -/
example : Rules { frags := [[2],[2]], c := some 2, fc := [none, none], m := none, fm := [none, none], zgf := false }
    { c := 2, fc := [2, 0], m := 1, fm := [1, 1] } :=
  (rulesOk_iff_Rules _ _ rfl rfl).1 (by decide)

example : vfc { frags := [[2],[2]], c := some 2, fc := [none, none], m := none, fm := [none, none], zgf := false }
    = .ok { c := 2, fc := [2, 0], m := 1, fm := [1, 1] } := by decide
example : vfc { frags := [[10],[2],[2]], c := some (-2), fc := [none, some 2, none], m := none, fm := [none, none, none], zgf := false }
    = .ok { c := -2, fc := [-4, 2, 0], m := 1, fm := [1, 1, 1] } := by decide
example : vfc { frags := [[2],[2],[10]], c := some 2, fc := [none, some (-2), some 0], m := none, fm := [none, none, none], zgf := false }
    = .error .validation := by decide
example : vfc { frags := [[2]], c := none, fc := [none], m := some 0, fm := [none], zgf := false }
    = .error .validation := by decide
example : vfc { frags := [[1],[1]], c := none, fc := [none, none], m := none, fm := [none, none], zgf := false }
    = .ok { c := 0, fc := [0, 0], m := 3, fm := [2, 2] } := by decide
example : vfc { frags := [[0,0],[2],[10]], c := none, fc := [none, none, none], m := none, fm := [none, none, none], zgf := false }
    = .ok { c := 0, fc := [0, 0, 0], m := 1, fm := [1, 1, 1] } := by decide

end QcelVerif.ChgMult
