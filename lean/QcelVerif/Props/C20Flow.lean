import QcelVerif.Model.ProtocolsFlow
import QcelVerif.Props.C20
import QcelVerif.Props.C20Elems
/-!
# C20 — the CONTROL FLOW of the validators, tied to the source

`Gen/ProtocolsFlow.lean` holds the bodies of `_wavefunction_protocol`, `_stdout_protocol`, `_native_file_protocol`
(results.py), `_trajectory_protocol` (procedures.py), `ElectronShell.nfunctions`, `_check_atom_map`, `_check_nbf`,
`_calculate_nbf` (basis.py) as the translator `harness/c20_flow.py` printed them from the text of the working tree on this
run — statement by statement, in the AST of `Model/ProtocolsAst.lean`.  `Model/ProtocolsFlow.lean` runs those bodies with
the evaluator on encodings of the model's own state (`…Src` functions).  This file proves, for ALL inputs, that every
source-derived function equals the hand-written model of `Model/Protocols.lean`, and restates the headline retention
theorems over the source-derived functions.

Where a proof needs to talk about a loop body it names it (`dropBody`, `keepBody`, …) and proves BY `decide` that the
generated body is exactly the named shape (`wfn_body_shape`, `nbf_body_shape`): any change of the source text changes the
generated term and breaks these obligations (or the evaluation steps after them).
-/
namespace QcelVerif.Protocols.Src
open QcelVerif.Flow QcelVerif.Protocols


section
variable {κ α : Type} [DecidableEq κ] (d : Dom κ α)
@[simp] theorem binV_add_int (x y : Int) : binV d .add (.sc (.int x)) (.sc (.int y)) = .ok (.sc (.int (x + y))) := rfl
@[simp] theorem binV_sub_int (x y : Int) : binV d .sub (.sc (.int x)) (.sc (.int y)) = .ok (.sc (.int (x - y))) := rfl
@[simp] theorem binV_mul_int (x y : Int) : binV d .mul (.sc (.int x)) (.sc (.int y)) = .ok (.sc (.int (x * y))) := rfl
@[simp] theorem binV_floordiv_two (x : Int) : binV d .floordiv (.sc (.int x)) (.sc (.int 2)) = .ok (.sc (.int (x / 2))) := rfl
@[simp] theorem binV_sub_list_dict (x : List (Sc κ α)) (keys : List κ) (get : κ → Option (Sc κ α)) :
    binV d .sub (.list x) (.dict keys get) =
      .ok (.list (x.filter (fun s => match toKey d s with | some k => (get k).isNone | Option.none => true))) := rfl
end

attribute [local simp] run exec eval protoVals objDom protoAttr cmpV scEq scIs truthy attrV indexV callV meth0V meth1V
  isinstV Env.set toKey tpName nfName wpName


/-! ## stdout -/

/-- `_stdout_protocol` as translated from the source = the hand model, for every flag and value -/
theorem stdoutSrc_eq {σ : Type} (keep : Bool) (v : Option σ) : stdoutSrc keep v = some (stdoutProtocol keep v) := by
  cases keep <;> cases v <;>
    simp [stdoutSrc, stdoutRaw, stdoutProtocol, Gen.stdoutProtocol, encOpt]

/-! ## trajectory and nfunctions -/

theorem decSteps_enc {τ : Type} (v : List τ) :
    decSteps (v.map (fun x => (Sc.atom (Obj.payload x) : Sc Unit (Obj τ)))) = some v := by
  induction v with
  | nil => rfl
  | cons x xs ih => simp [decSteps, ih]

theorem pyIndex_zero {τ : Type} (x : τ) (l : List τ) : pyIndex (x :: l) 0 = some x := by
  simp [pyIndex]

theorem getElem?_lastOf' {α : Type} : ∀ (x : α) (l : List α), (x :: l)[l.length]? = some (lastOf x l)
  | x, [] => rfl
  | x, y :: ys => by
    have := getElem?_lastOf' y ys
    simpa [lastOf] using this

theorem pyIndex_neg_one {τ : Type} (x : τ) (l : List τ) : pyIndex (x :: l) (-1) = some (lastOf x l) := by
  have h := getElem?_lastOf' x l
  rw [List.getElem?_eq_getElem (by simp)] at h
  simpa [pyIndex] using Option.some.inj h

theorem lastOf_map {τ : Type} : ∀ (x : τ) (l : List τ),
    lastOf (Sc.atom (Obj.payload x) : Sc Unit (Obj τ)) (l.map (fun x => Sc.atom (Obj.payload x))) = Sc.atom (Obj.payload (lastOf x l))
  | _, [] => rfl
  | _, y :: ys => by simpa [lastOf] using lastOf_map y ys

theorem trajectorySrc_eq {τ : Type} (p : TrajPolicy) (v : List τ) : trajectorySrc p v = some (trajectoryProtocol p v) := by
  cases p
  · simp [trajectorySrc, trajectoryRaw, trajectoryProtocol, Gen.trajectoryProtocol, encSteps, decSteps_enc]
  · by_cases h : v.length > 2
    · cases v with
      | nil => simp at h
      | cons x xs =>
        have h' : (2 : Int) < (xs.length : Int) + 1 := by simp at h; omega
        have h'' : 2 < xs.length + 1 := by simpa using h
        simp [trajectorySrc, trajectoryRaw, trajectoryProtocol, Gen.trajectoryProtocol, encSteps, h', h'', pyIndex_zero,
          pyIndex_neg_one, decSteps, lastOf_map]
    · have h' : ¬ (2 : Int) < (v.length : Int) := by omega
      simp [trajectorySrc, trajectoryRaw, trajectoryProtocol, Gen.trajectoryProtocol, encSteps, h, h', decSteps_enc]
  · by_cases h : v.length > 1
    · cases v with
      | nil => simp at h
      | cons x xs =>
        have h' : (1 : Int) < (xs.length : Int) + 1 := by simp at h; omega
        have h'' : 1 < xs.length + 1 := by simpa using h
        simp [trajectorySrc, trajectoryRaw, trajectoryProtocol, Gen.trajectoryProtocol, encSteps, h', h'',
          pyIndex_neg_one, decSteps, lastOf_map]
    · have h' : ¬ (1 : Int) < (v.length : Int) := by omega
      simp [trajectorySrc, trajectoryRaw, trajectoryProtocol, Gen.trajectoryProtocol, encSteps, h, h', decSteps_enc]
  · simp [trajectorySrc, trajectoryRaw, trajectoryProtocol, Gen.trajectoryProtocol, encSteps, decSteps]

theorem genList_map {κ α τ : Type} (f : Sc κ α → ER κ α) (g h : τ → Sc κ α) (hf : ∀ a, f (g a) = .ok (.sc (h a))) (l : List τ) :
    genList f (l.map g) = .ok (.list (l.map h)) := by
  induction l with
  | nil => rfl
  | cons a as ih => simp only [List.map, genList, hf, ih]

theorem sumInts_map {κ α τ : Type} (g : τ → Int) (l : List τ) :
    sumInts (l.map (fun a => (Sc.int (g a) : Sc κ α))) = some ((l.map g).foldr (· + ·) 0) := by
  induction l with
  | nil => rfl
  | cons a as ih => simp [sumInts, ih]

theorem castSum (f : Nat → Nat) (g : Nat → Int) (hfg : ∀ l, g l = (f l : Nat)) (am : List Nat) :
    (am.map g).foldr (· + ·) 0 = (((am.map f).foldr (· + ·) 0 : Nat) : Int) := by
  induction am with
  | nil => rfl
  | cons a as ih => simp [hfg, ih, Int.natCast_add]

theorem nfunctions_foldr (h : Harm) (am : List Nat) :
    QcelVerif.Protocols.nfunctions h am = (am.map (fun l => match h with | .spherical => 2 * l + 1 | .cartesian => (l + 1) * (l + 2) / 2)).foldr (· + ·) 0 := by
  induction am with
  | nil => rfl
  | cons l ls ih => cases h <;> simp_all [QcelVerif.Protocols.nfunctions]

theorem nfunctionsRaw_eq (s : Shell) : nfunctionsRaw s = .ok (.sc (.int (s.nfunctions : Nat))) := by
  obtain ⟨h, am, ne, rows⟩ := s
  cases h
  · have := genList_map (κ := Nat) (α := BObj)
      (fun x => eval (basisDom noExt) noVals (.bin .add (.bin .mul (.int 2) (.var "L")) (.int 1))
        ((Env.empty.set "self" (.sc (.atom (.shell ⟨.spherical, am, ne, rows⟩)))).set "L" (.sc x)))
      (fun (l : Nat) => Sc.int (l : Int)) (fun (l : Nat) => Sc.int ((2 * l + 1 : Nat) : Int)) (by intro a; simp) am
    simp [nfunctionsRaw, Gen.shellNfunctions, basisDom, harmName] at this ⊢
    simp [this, sumInts_map (fun (l : Nat) => 2 * (l : Int) + 1), Shell.nfunctions, nfunctions_foldr]
    exact castSum (fun l => 2 * l + 1) _ (by intro l; simp) am
  · have := genList_map (κ := Nat) (α := BObj)
      (fun x => eval (basisDom noExt) noVals (.bin .floordiv (.bin .mul (.bin .add (.var "L") (.int 1)) (.bin .add (.var "L") (.int 2))) (.int 2))
        ((Env.empty.set "self" (.sc (.atom (.shell ⟨.cartesian, am, ne, rows⟩)))).set "L" (.sc x)))
      (fun (l : Nat) => Sc.int (l : Int)) (fun (l : Nat) => Sc.int (((l + 1) * (l + 2) / 2 : Nat) : Int)) (by intro a; simp) am
    simp [nfunctionsRaw, Gen.shellNfunctions, basisDom, harmName] at this ⊢
    simp [this, sumInts_map (fun (l : Nat) => ((l : Int) + 1) * ((l : Int) + 2) / 2), Shell.nfunctions, nfunctions_foldr]
    exact castSum (fun l => (l + 1) * (l + 2) / 2) _ (by intro l; simp) am

/-! ## native files -/

theorem find_of_nodup {γ : Type} : ∀ (f : Files γ), (f.map (·.1)).Nodup → ∀ e ∈ f, f.find? (fun e' => e'.1 == e.1) = some e
  | [], _, e, he => by simp at he
  | a :: as, hn, e, he => by
    simp only [List.map, List.nodup_cons] at hn
    rcases List.mem_cons.mp he with rfl | h
    · simp
    · have hne : a.1 ≠ e.1 := by
        intro heq; apply hn.1; rw [heq]; exact List.mem_map_of_mem h
      simp [hne, find_of_nodup as hn.2 e h]

theorem decFiles_enc {γ : Type} (f : Files γ) (hn : (f.map (·.1)).Nodup) : decFiles (f.map (·.1)) (filesGetSc f) = f := by
  have key : ∀ l : Files γ, (∀ e ∈ l, e ∈ f) → decFiles (l.map (·.1)) (filesGetSc f) = l := by
    intro l
    induction l with
    | nil => intro _; rfl
    | cons a as ih =>
      intro hl
      have h1 := find_of_nodup f hn a (hl a (by simp))
      have h2 := ih (fun e he => hl e (by simp [he]))
      unfold decFiles at h2 ⊢
      obtain ⟨k, c⟩ := a
      cases c <;> simp_all [filesGetSc]
  exact key f (fun _ h => h)

theorem nativeSrc_eq {γ : Type} (p : NativePolicy) (f : Files γ) (hn : (f.map (·.1)).Nodup) :
    nativeSrc p f = some (nativeProtocol p f) := by
  cases p
  · simp [nativeSrc, nativeRaw, nativeProtocol, Gen.nativeFileProtocol, encFiles, decFiles_enc f hn]
  · simp [nativeSrc, nativeRaw, nativeProtocol, Gen.nativeFileProtocol, encFiles, fileKey, forLoop]
    simp only [decFiles, filesGetSc, filesGet, List.filterMap]
    cases hfd : f.find? (fun e => e.1 == 0) with
    | none => simp
    | some e => obtain ⟨k, c⟩ := e; cases c <;> simp
  · simp [nativeSrc, nativeRaw, nativeProtocol, Gen.nativeFileProtocol, encFiles, decFiles]

/-! ## wavefunction protocol -/

def endsB (k : WKey) : Bool := endsWithL k.name "_b"
def isBeta : WKey → Bool
  | .arr k => k.spin = .b
  | .ptr k => k.spin = .b
  | _ => false
theorem endsB_eq : ∀ k : WKey, endsB k = isBeta k := by
  intro k
  rcases k with _ | _ | ⟨b, s⟩ | ⟨b, s⟩
  · decide
  · decide
  · cases b <;> cases s <;> decide
  · cases b <;> cases s <;> decide
theorem ofName_name : ∀ k : WKey, WKey.ofName k.name = some k := by
  intro k
  rcases k with _ | _ | ⟨b, s⟩ | ⟨b, s⟩
  · decide
  · decide
  · cases b <;> cases s <;> decide
  · cases b <;> cases s <;> decide
theorem all_nodup : WKey.all.Nodup := by decide
theorem mem_all : ∀ k : WKey, k ∈ WKey.all := by
  intro k
  rcases k with _ | _ | ⟨b, s⟩ | ⟨b, s⟩
  · decide
  · decide
  · cases b <;> cases s <;> decide
  · cases b <;> cases s <;> decide

/-- the body of `for k in list(wfn.keys())` -/
def dropBody : Stmt := .ite (.meth1 (.var "k") "endswith" (.str "_b")) (.pop "wfn" (.var "k")) .pass

/-- the body of `for rk in return_keep` -/
def keepBody : Stmt :=
  (.seq (.assign "key" (.meth1 (.var "wfn") "get" (.var "rk")))
  (.seq (.ite (.cmp .is (.var "key") .none) .continue .pass)
  (.seq (.ite (.cmp .notIn (.var "key") (.var "wfn")) (.raise "ValueError") .pass)
  (.seq (.setItem "ret_wfn" (.var "rk") (.var "key"))
        (.setItem "ret_wfn" (.var "key") (.index (.var "wfn") (.var "key")))))))

def strList (l : List String) : Expr := l.foldr (fun s e => .cons (.str s) e) .nil

/-- `for rk in return_keep: …` then `return ret_wfn` -/
def keepTail : Stmt := .seq (.for1 "rk" (.var "return_keep") keepBody) (.ret (.var "ret_wfn"))

/-- `if return_keep is not None: … else: return wfn` -/
def finalIte : Stmt :=
 (.ite (.cmp .isNot (.var "return_keep") .none)
   (.seq (.assign "ret_wfn" (.dictCons (.str "restricted") (.var "restricted") .dictNil))
   (.seq (.ite (.cmp .isIn (.str "basis") (.var "wfn"))
           (.setItem "ret_wfn" (.str "basis") (.index (.var "wfn") (.str "basis"))) .pass)
         keepTail))
   (.ret (.var "wfn")))

/-- from `wfnp = values["protocols"].wavefunction` to the end -/
def wfnPost : Stmt :=
 (.seq (.assign "wfnp" (.attr (.values "protocols") "wavefunction"))
 (.seq (.assign "return_keep" .none)
 (.seq (.ite (.cmp .eq (.var "wfnp") (.str "all")) .pass
   (.ite (.cmp .eq (.var "wfnp") (.str "none")) (.assign "wfn" .none)
   (.ite (.cmp .eq (.var "wfnp") (.str "return_results"))
     (.assign "return_keep" (strList ((PtrKey.all).map PtrKey.name)))
   (.ite (.cmp .eq (.var "wfnp") (.str "orbitals_and_eigenvalues"))
     (.assign "return_keep" (strList ["orbitals_a", "orbitals_b", "eigenvalues_a", "eigenvalues_b"]))
   (.ite (.cmp .eq (.var "wfnp") (.str "occupations_and_eigenvalues"))
     (.assign "return_keep" (strList ["occupations_a", "occupations_b", "eigenvalues_a", "eigenvalues_b"]))
     (.raise "ValueError"))))))
 finalIte)))

/-- `_wavefunction_protocol` with the loop bodies and the tail named -/
def wfnShape : Stmt :=
 (.seq (.ite (.cmp .is (.var "value") .none)
   (.ret (.var "value"))
   (.ite (.isinst (.var "value") "dict")
     (.assign "wfn" (.meth0 (.var "value") "copy"))
     (.ite (.isinst (.var "value") "WavefunctionProperties")
       (.assign "wfn" (.meth0 (.var "value") "dict"))
       (.raise "ValueError"))))
 (.seq (.ite (.cmp .eq (.inValues "protocols") (.bool false)) (.raise "ValueError") .pass)
 (.seq (.assign "restricted" (.meth1 (.var "wfn") "get" (.str "restricted")))
 (.seq (.ite (.cmp .is (.var "restricted") .none) (.raise "ValueError") .pass)
 (.seq (.ite (.var "restricted") (.for1 "k" (.call "list" (.meth0 (.var "wfn") "keys")) dropBody) .pass)
   wfnPost)))))

/-- OBLIGATION: the generated body IS this shape (breaks when the source changes) -/
theorem wfn_body_shape : Gen.wavefunctionProtocol.body = wfnShape := by decide

theorem ofName_ptr (k : PtrKey) : WKey.ofName k.name = some (.ptr k) := ofName_name (.ptr k)

theorem wfnGet_set {β : Type} (ret : Wfn β) (rk : PtrKey) (t : ArrKey) (v : Shape) :
    (fun j => if j = WKey.arr t then some (Sc.atom (Obj.payload (WPay.shape v)))
              else if j = WKey.ptr rk then some (Sc.key (WKey.arr t)) else wfnGet ret j)
      = wfnGet (setArr (setPtr ret rk t) t v) := by
  funext j
  cases j <;> simp [wfnGet, setArr, setPtr]
  · rename_i k; by_cases h : k = t <;> simp [h]
  · rename_i k; by_cases h : k = rk <;> simp [h]

theorem keepLoop_spec {β : Type} (vals : String → Option (Val WKey (Obj (WPay β)))) (w1 : Wfn β) (wkeys : List WKey) :
    ∀ (keep : List PtrKey) (ret : Wfn β) (env : Env WKey (Obj (WPay β))) (rkeys : List WKey),
      env "wfn" = some (.dict wkeys (wfnGet w1)) → env "ret_wfn" = some (.dict rkeys (wfnGet ret)) →
      match keepLoop w1 keep ret with
      | .ok ret' => ∃ env' rkeys',
          forLoop (fun x e => exec (wfnDom β) vals keepBody (e.set "rk" (.sc x))) (keep.map (fun k => Sc.str k.name)) env = .next env' ∧
          env' "ret_wfn" = some (.dict rkeys' (wfnGet ret'))
      | .error er => er = .validation ["wavefunction"] ∧
          forLoop (fun x e => exec (wfnDom β) vals keepBody (e.set "rk" (.sc x))) (keep.map (fun k => Sc.str k.name)) env
            = .exc (.raise "ValueError") := by
  intro keep
  induction keep with
  | nil => intro ret env rkeys _ h2; exact ⟨env, rkeys, rfl, h2⟩
  | cons rk rest ih =>
    intro ret env rkeys h1 h2
    simp only [keepLoop, List.map, forLoop]
    cases hp : w1.ptr rk with
    | none =>
      have hstep : exec (wfnDom β) vals keepBody (env.set "rk" (.sc (.str rk.name)))
          = .cont ((env.set "rk" (.sc (.str rk.name))).set "key" (.sc .none)) := by
        simp [keepBody, h1, wfnDom, ofName_ptr, wfnGet, hp]
      rw [hstep]
      exact ih ret _ rkeys (by simp [h1]) (by simp [h2])
    | some t =>
      dsimp only
      cases ha : w1.arr t with
      | none =>
        have hstep : exec (wfnDom β) vals keepBody (env.set "rk" (.sc (.str rk.name))) = .exc (.raise "ValueError") := by
          simp [keepBody, h1, wfnDom, ofName_ptr, wfnGet, hp, ha, isMember]
        rw [hstep]; exact ⟨rfl, rfl⟩
      | some v =>
        dsimp only
        have hstep : ∃ env1 rkeys1, exec (wfnDom β) vals keepBody (env.set "rk" (.sc (.str rk.name))) = .next env1 ∧
            env1 "wfn" = some (.dict wkeys (wfnGet w1)) ∧
            env1 "ret_wfn" = some (.dict rkeys1 (wfnGet (setArr (setPtr ret rk t) t v))) := by
          let K1 := if rkeys.contains (.ptr rk) then rkeys else rkeys ++ [WKey.ptr rk]
          let g1 : WKey → Option (WSc β) := fun j => if j = WKey.ptr rk then some (Sc.key (WKey.arr t)) else wfnGet ret j
          let K2 := if K1.contains (.arr t) then K1 else K1 ++ [WKey.arr t]
          let g2 : WKey → Option (WSc β) := fun j => if j = WKey.arr t then some (Sc.atom (Obj.payload (WPay.shape v))) else g1 j
          refine ⟨(((env.set "rk" (.sc (.str rk.name))).set "key" (.sc (.key (.arr t)))).set "ret_wfn" (.dict K1 g1)).set
                    "ret_wfn" (.dict K2 g2), K2, ?_, ?_, ?_⟩
          · simp [keepBody, h1, h2, wfnDom, ofName_ptr, wfnGet, hp, ha, isMember, K1, K2, g1, g2]
          · simp [h1]
          · simp [g2, g1, wfnGet_set]
        obtain ⟨env1, rkeys1, he, hw, hr⟩ := hstep
        rw [he]
        exact ih _ env1 rkeys1 hw hr

theorem dropLoop_spec {β : Type} (vals : String → Option (Val WKey (Obj (WPay β)))) (keys : List WKey) :
    ∀ (l : List WKey), l.Nodup → ∀ (env : Env WKey (Obj (WPay β))) (get : WKey → Option (WSc β)),
      env "wfn" = some (.dict keys get) → (∀ x ∈ l, (get x).isSome) →
      ∃ env', forLoop (fun x e => exec (wfnDom β) vals dropBody (e.set "k" (.sc x))) (l.map Sc.key) env = .next env' ∧
        env' "wfn" = some (.dict keys (fun k => if k ∈ l ∧ endsB k then none else get k)) ∧
        ∀ n, n ≠ "k" → n ≠ "wfn" → env' n = env n := by
  intro l
  induction l with
  | nil => intro _ env get h _; exact ⟨env, rfl, by simpa using h, fun _ _ _ => rfl⟩
  | cons x xs ih =>
    intro hn env get h hp
    have hx : (get x).isSome := hp x (by simp)
    simp only [List.nodup_cons] at hn
    simp only [List.map, forLoop]
    by_cases hb : endsB x
    · have hstep : exec (wfnDom β) vals dropBody (env.set "k" (.sc (.key x)))
          = .next ((env.set "k" (.sc (.key x))).set "wfn" (.dict keys (fun j => if j = x then none else get j))) := by
        have hb' : endsWithL x.name "_b" = true := hb
        simp [dropBody, h, wfnDom, hb', hx]
      rw [hstep]
      obtain ⟨env', h1, h2, h3⟩ := ih hn.2
        ((env.set "k" (.sc (.key x))).set "wfn" (.dict keys (fun j => if j = x then none else get j)))
        (fun j => if j = x then none else get j) (by simp)
        (by intro y hy; have : y ≠ x := fun e => hn.1 (e ▸ hy); simp [this, hp y (by simp [hy])])
      refine ⟨env', h1, ?_, ?_⟩
      · rw [h2]; congr 2; funext k
        by_cases hk : k = x
        · subst hk; simp [hb]
        · simp [hk]
      · intro n hn1 hn2; rw [h3 n hn1 hn2]; simp [hn1, hn2]
    · have hstep : exec (wfnDom β) vals dropBody (env.set "k" (.sc (.key x))) = .next (env.set "k" (.sc (.key x))) := by
        have hb' : endsWithL x.name "_b" = false := by simpa [endsB] using hb
        simp [dropBody, wfnDom, hb']
      rw [hstep]
      obtain ⟨env', h1, h2, h3⟩ := ih hn.2 (env.set "k" (.sc (.key x))) get (by simp [h])
        (by intro y hy; exact hp y (by simp [hy]))
      refine ⟨env', h1, ?_, ?_⟩
      · rw [h2]; congr 2; funext k
        by_cases hk : k = x
        · subst hk; simp [hb]
        · simp [hk]
      · intro n hn1 hn2; rw [h3 n hn1 hn2]; simp [hn1]

theorem wfnGet_dropBeta {β : Type} (w : Wfn β) :
    (fun k => if k ∈ dictKeys WKey.all (wfnGet w) ∧ endsB k then none else wfnGet w k) = wfnGet (dropBeta w) := by
  funext k
  rw [endsB_eq]
  cases k <;> simp [isBeta, wfnGet, dropBeta, dictKeys, mem_all]
  · rename_i k; by_cases h : k.spin = .b <;> simp [h]
  · rename_i k; by_cases h : k.spin = .b <;> simp [h]

theorem decWfn_get {β : Type} (w : Wfn β) : decWfn (wfnGet w) = w := by
  obtain ⟨r, b, a, p⟩ := w
  simp only [decWfn, wfnGet]
  congr 1
  · cases r <;> rfl
  · cases b <;> rfl
  · funext k; cases a k <;> rfl
  · funext k; cases p k <;> rfl

/-- what pydantic makes of the outcome of the pre-validator -/
def outToRes {β : Type} : Out WKey (Obj (WPay β)) → Option (Except Err (Option (Wfn β)))
  | .ret (.sc .none) => some (.ok none)
  | .ret (.dict _ get) => some (.ok (some (decWfn get)))
  | .exc (.raise c) => if c = "ValueError" then some (.error (.validation ["wavefunction"])) else none
  | .next _ => some (.ok none)
  | _ => none

theorem keepTail_spec {β : Type} (vals : String → Option (Val WKey (Obj (WPay β)))) (w1 : Wfn β) (wkeys : List WKey)
    (keep : List PtrKey) (ret : Wfn β) (env : Env WKey (Obj (WPay β))) (rkeys : List WKey)
    (h0 : env "return_keep" = some (.list (keep.map (fun k => Sc.str k.name))))
    (h1 : env "wfn" = some (.dict wkeys (wfnGet w1))) (h2 : env "ret_wfn" = some (.dict rkeys (wfnGet ret))) :
    outToRes (exec (wfnDom β) vals keepTail env) =
      some (match keepLoop w1 keep ret with | .ok r' => .ok (some r') | .error e => .error e) := by
  have := keepLoop_spec vals w1 wkeys keep ret env rkeys h1 h2
  cases hk : keepLoop w1 keep ret with
  | ok r' =>
    rw [hk] at this
    obtain ⟨env', rk', e1, e2⟩ := this
    simp [keepTail, h0, e1, e2, outToRes, decWfn_get]
  | error er =>
    rw [hk] at this
    simp [keepTail, h0, this.2, this.1, outToRes]

/-- the hand model after `restricted` has been handled -/
def handPost {β : Type} (p : WfnProto) (r : Bool) (w1 : Wfn β) : Except Err (Option (Wfn β)) :=
  match p with
  | .none => .ok none
  | p =>
    match keepList p with
    | none => .ok (some w1)
    | some keep =>
      match keepLoop w1 keep { restricted := some r, basis := w1.basis, arr := fun _ => none, ptr := fun _ => none } with
      | .ok ret => .ok (some ret)
      | .error e => .error e

theorem ofName_restricted : WKey.ofName "restricted" = some .restricted := by decide
theorem ofName_basis : WKey.ofName "basis" = some .basis := by decide

theorem final_spec {β : Type} (vals : String → Option (Val WKey (Obj (WPay β)))) (keep : List PtrKey) (r : Bool) (w1 : Wfn β)
    (keys : List WKey) (env : Env WKey (Obj (WPay β)))
    (h0 : env "return_keep" = some (.list (keep.map (fun k => Sc.str k.name))))
    (h1 : env "wfn" = some (.dict keys (wfnGet w1))) (h2 : env "restricted" = some (.sc (.bool r))) :
    outToRes (exec (wfnDom β) vals finalIte env) =
      some (match keepLoop w1 keep { restricted := some r, basis := w1.basis, arr := fun _ => none, ptr := fun _ => none } with
            | .ok r' => .ok (some r') | .error e => .error e) := by
  cases hb : w1.basis with
  | none =>
    have hg : (fun j => if j = WKey.restricted then some (Sc.bool r) else none)
        = wfnGet ({ restricted := some r, basis := none, arr := fun _ => none, ptr := fun _ => none } : Wfn β) := by
      funext j; cases j <;> simp [wfnGet]
    simp [finalIte, h0, h1, h2, isMember, ofName_restricted, ofName_basis, wfnGet, hb, wfnDom]
    refine (keepTail_spec vals w1 keys keep _ _ [WKey.restricted] (by simp [h0]) (by simp [h1]) ?_)
    simp [hg]
  | some b =>
    have hg : (fun j => if j = WKey.basis then some (Sc.atom (Obj.payload (WPay.basis b)))
                        else if j = WKey.restricted then some (Sc.bool r) else none)
        = wfnGet ({ restricted := some r, basis := some b, arr := fun _ => none, ptr := fun _ => none } : Wfn β) := by
      funext j; cases j <;> simp [wfnGet]
    simp [finalIte, h0, h1, h2, isMember, ofName_restricted, ofName_basis, wfnGet, hb, wfnDom]
    refine (keepTail_spec vals w1 keys keep _ _ [WKey.restricted, WKey.basis] (by simp [h0]) (by simp [h1]) ?_)
    simp [hg]

theorem post_spec {β : Type} (p : WfnProto) (r : Bool) (w1 : Wfn β) (keys : List WKey) (env : Env WKey (Obj (WPay β)))
    (h1 : env "wfn" = some (.dict keys (wfnGet w1))) (h2 : env "restricted" = some (.sc (.bool r))) :
    outToRes (exec (wfnDom β) (protoVals { wp := p }) wfnPost env) = some (handPost p r w1) := by
  cases p
  · simp [wfnPost, finalIte, h1, wfnDom, outToRes, handPost, keepList, decWfn_get]
  · simp [wfnPost, wfnDom, handPost, keepList, strList]
    exact final_spec _ [⟨.orbitals, .a⟩, ⟨.orbitals, .b⟩, ⟨.eigenvalues, .a⟩, ⟨.eigenvalues, .b⟩] r w1 keys _
      (by simp [PtrKey.name, PtrBase.name, Spin.suffix]) (by simp [h1]) (by simp [h2])
  · simp [wfnPost, wfnDom, handPost, keepList, strList]
    exact final_spec _ [⟨.occupations, .a⟩, ⟨.occupations, .b⟩, ⟨.eigenvalues, .a⟩, ⟨.eigenvalues, .b⟩] r w1 keys _
      (by simp [PtrKey.name, PtrBase.name, Spin.suffix]) (by simp [h1]) (by simp [h2])
  · simp [wfnPost, wfnDom, handPost, keepList, strList]
    exact final_spec _ PtrKey.all r w1 keys _
      (by simp [PtrKey.all, PtrBase.all, flatten, PtrKey.name, PtrBase.name, Spin.suffix]) (by simp [h1]) (by simp [h2])
  · simp [wfnPost, finalIte, wfnDom, outToRes, handPost]

theorem wfnProtocol_handPost {β : Type} (p : WfnProto) (w : Wfn β) (r : Bool) (hr : w.restricted = some r) :
    wfnProtocol p w = handPost p r (if r then dropBeta w else w) := by
  cases p <;> simp [wfnProtocol, handPost, hr, keepList] <;> rfl

@[simp] theorem wfnDom_keyOf {β : Type} : (wfnDom β).keyOf = WKey.ofName := rfl
@[simp] theorem wfnDom_nameOf {β : Type} : (wfnDom β).nameOf = WKey.name := rfl
@[simp] theorem wfnDom_attr {β : Type} (pr : Protos) (a : String) : (wfnDom β).attr (.protocols pr) a = protoAttr pr a := rfl
@[simp] theorem wfnDom_isinst {β : Type} (o : Obj (WPay β)) (c : String) : (wfnDom β).isinst o c = false := rfl

theorem src_as_out {β : Type} (p : WfnProto) (w : Wfn β) :
    wfnProtocolSrc p w = outToRes (exec (wfnDom β) (protoVals { wp := p }) Gen.wavefunctionProtocol.body
      (Env.empty.set "value" (.dict WKey.all (wfnGet w)))) := by
  unfold wfnProtocolSrc wfnRaw run
  generalize exec (wfnDom β) (protoVals { wp := p }) Gen.wavefunctionProtocol.body
      (Env.empty.set "value" (.dict WKey.all (wfnGet w))) = o
  rcases o with e | e | v | x
  · rfl
  · rfl
  · rcases v with s | l | ⟨k, g⟩
    · cases s <;> rfl
    · rfl
    · rfl
  · cases x <;> rfl

theorem wfnProtocolSrc_eq {β : Type} (p : WfnProto) (w : Wfn β) : wfnProtocolSrc p w = some (wfnProtocol p w) := by
  rw [src_as_out, wfn_body_shape]
  cases hr : w.restricted with
  | none =>
    simp [wfnShape, ofName_restricted, wfnGet, hr, wfnProtocol, outToRes]
  | some r =>
    rw [wfnProtocol_handPost p w r hr]
    cases r
    · simp [wfnShape, ofName_restricted, wfnGet, hr]
      exact post_spec p false w WKey.all _ (by simp) (by simp)
    · simp [wfnShape, ofName_restricted, wfnGet, hr]
      have hnd : (dictKeys WKey.all (wfnGet w)).Nodup := all_nodup.sublist List.filter_sublist
      obtain ⟨env', h1, h2, h3⟩ := dropLoop_spec (protoVals { wp := p }) WKey.all (dictKeys WKey.all (wfnGet w)) hnd
        (((Env.empty.set "value" (Val.dict WKey.all (wfnGet w))).set "wfn" (Val.dict WKey.all (wfnGet w))).set
            "restricted" (Val.sc (Sc.bool true))) (wfnGet w) (by simp)
        (by intro x hx; simpa [dictKeys] using (List.mem_filter.mp hx).2)
      rw [h1]
      rw [wfnGet_dropBeta] at h2
      exact post_spec p true (dropBeta w) WKey.all env' h2 (by rw [h3 _ (by decide) (by decide)]; simp)


/-! ## BasisSet: nfunctions, _calculate_nbf, _check_nbf, _check_atom_map -/

/-- `center_count[k] = sum(x.nfunctions() for x in center.electron_shells)` -/
def countBody : Stmt :=
  .setItem "center_count" (.var "k") (.call "sum" (.gen (.ext1 "nfunctions" (.var "x")) "x" (.attr (.var "center") "electron_shells")))
def sumBody : Stmt := .augAdd "ret" (.index (.var "center_count") (.var "center"))

def nbfShape : Stmt :=
 (.seq (.assign "center_count" .dictNil)
 (.seq (.for2 "k" "center" (.var "center_data") countBody)
 (.seq (.assign "ret" (.int 0))
 (.seq (.for1 "center" (.var "atom_map") sumBody)
 (.ret (.var "ret"))))))

theorem nbf_body_shape : Gen.calculateNbf.body = nbfShape := by decide

theorem castSumG {τ : Type} (f : τ → Nat) (l : List τ) :
    (l.map (fun a => ((f a : Nat) : Int))).foldr (· + ·) 0 = (((l.map f).foldr (· + ·) 0 : Nat) : Int) := by
  induction l with
  | nil => rfl
  | cons a as ih => simp [ih, Int.natCast_add]

def cget (cs : List Center) : Nat → Option (Sc Nat BObj) := fun i => (findCenter cs i).map (fun c => .atom (.center c))

theorem countStep (vals : String → Option BVal) (i : Nat) (c : Center) (env : Env Nat BObj) (K : List Nat)
    (cc : Nat → Option (Sc Nat BObj)) (h : env "center_count" = some (.dict K cc)) :
    exec (basisDom extNf) vals countBody ((env.set "k" (.sc (.key i))).set "center" (.sc (.atom (.center c))))
      = .next (((env.set "k" (.sc (.key i))).set "center" (.sc (.atom (.center c)))).set "center_count"
          (.dict (if K.contains i then K else K ++ [i]) (fun j => if j = i then some (.int (c.nfunctions : Nat)) else cc j))) := by
  have hg := genList_map (κ := Nat) (α := BObj)
    (fun x => eval (basisDom extNf) vals (.ext1 "nfunctions" (.var "x"))
      ((((env.set "k" (.sc (.key i))).set "center" (.sc (.atom (.center c)))).set "x" (.sc x))))
    (fun (s : Shell) => Sc.atom (BObj.shell s)) (fun (s : Shell) => Sc.int ((s.nfunctions : Nat) : Int))
    (by intro s; simp [basisDom, extNf, nfunctionsRaw_eq]) c.shells
  simp [basisDom] at hg
  simp [countBody, h, basisDom, hg, sumInts_map (fun (s : Shell) => ((s.nfunctions : Nat) : Int)), castSumG, Center.nfunctions]

theorem countLoop (cs : List Center) (vals : String → Option BVal) :
    ∀ (ids : List Nat) (env : Env Nat BObj) (K : List Nat) (cc : Nat → Option (Sc Nat BObj)),
      env "center_count" = some (.dict K cc) →
      ∃ env' K',
        forLoop (fun (kv : Nat × Sc Nat BObj) e => exec (basisDom extNf) vals countBody ((e.set "k" (.sc (.key kv.1))).set "center" (.sc kv.2)))
          (dictItems ids (cget cs)) env = .next env' ∧
        env' "center_count" = some (.dict K' (fun k => if k ∈ ids then
            (match findCenter cs k with | some c => some (.int (c.nfunctions : Nat)) | none => cc k) else cc k)) ∧
        ∀ n, n ≠ "k" → n ≠ "center" → n ≠ "center_count" → env' n = env n := by
  intro ids
  induction ids with
  | nil => intro env K cc h; exact ⟨env, K, rfl, by simpa using h, fun _ _ _ _ => rfl⟩
  | cons i rest ih =>
    intro env K cc h
    cases hf : findCenter cs i with
    | none =>
      obtain ⟨env', K', h1, h2, h3⟩ := ih env K cc h
      refine ⟨env', K', ?_, ?_, h3⟩
      · simpa [dictItems, cget, hf] using h1
      · rw [h2]; congr 2; funext k
        by_cases hk : k = i
        · subst hk; simp [hf]
        · simp [hk]
    | some c =>
      have hstep := countStep vals i c env K cc h
      obtain ⟨env', K', h1, h2, h3⟩ := ih
        (((env.set "k" (.sc (.key i))).set "center" (.sc (.atom (.center c)))).set "center_count"
          (.dict (if K.contains i then K else K ++ [i]) (fun j => if j = i then some (.int (c.nfunctions : Nat)) else cc j)))
        (if K.contains i then K else K ++ [i]) (fun j => if j = i then some (.int (c.nfunctions : Nat)) else cc j) (by simp)
      refine ⟨env', K', ?_, ?_, ?_⟩
      · simp only [dictItems, cget, hf, List.filterMap_cons, Option.map_some, forLoop, hstep]
        simpa [dictItems, cget] using h1
      · rw [h2]; congr 2; funext k
        by_cases hk : k = i
        · subst hk; simp [hf]
        · simp [hk]
      · intro n a b c'; rw [h3 n a b c']; simp [a, b, c']

theorem sumLoop (cs : List Center) (vals : String → Option BVal) (K : List Nat) (cc : Nat → Option (Sc Nat BObj))
    (hcc : ∀ k, cc k = (findCenter cs k).map (fun c => Sc.int (c.nfunctions : Nat))) :
    ∀ (am : List Nat) (env : Env Nat BObj) (acc : Nat),
      env "center_count" = some (.dict K cc) → env "ret" = some (.sc (.int (acc : Nat))) →
      (∀ a ∈ am, (findCenter cs a).isSome) →
      ∃ env', forLoop (fun x e => exec (basisDom extNf) vals sumBody (e.set "center" (.sc x))) (am.map Sc.key) env = .next env' ∧
        env' "ret" = some (.sc (.int ((acc + calcNbf cs am : Nat) : Int))) := by
  intro am
  induction am with
  | nil => intro env acc _ h2 _; exact ⟨env, rfl, by simpa [calcNbf] using h2⟩
  | cons a rest ih =>
    intro env acc h1 h2 hk
    obtain ⟨c, hc⟩ := Option.isSome_iff_exists.mp (hk a (by simp))
    have hstep : exec (basisDom extNf) vals sumBody (env.set "center" (.sc (.key a)))
        = .next ((env.set "center" (.sc (.key a))).set "ret" (.sc (.int ((acc + c.nfunctions : Nat) : Int)))) := by
      simp [sumBody, h1, h2, hcc, hc, basisDom, Int.natCast_add]
    obtain ⟨env', e1, e2⟩ := ih ((env.set "center" (.sc (.key a))).set "ret" (.sc (.int ((acc + c.nfunctions : Nat) : Int))))
      (acc + c.nfunctions) (by simp [h1]) (by simp) (fun x hx => hk x (by simp [hx]))
    refine ⟨env', ?_, ?_⟩
    · simp only [List.map, forLoop, hstep]; exact e1
    · rw [e2]; simp [calcNbf, hc, Nat.add_assoc]

theorem mem_ids_of_find (cs : List Center) (k : Nat) (c : Center) (h : findCenter cs k = some c) : k ∈ cs.map (·.id) := by
  unfold findCenter at h
  have h1 := List.mem_of_find?_eq_some h
  have h2 := List.find?_some h
  simp at h2
  exact List.mem_map.mpr ⟨c, h1, h2⟩

theorem calcNbfRaw_eq (cs : List Center) (am : List Nat) (hk : ∀ a ∈ am, (findCenter cs a).isSome) :
    calcNbfRaw (encAtomMap am) (encCenters cs) = .ok (.sc (.int (calcNbf cs am : Nat))) := by
  unfold calcNbfRaw
  rw [nbf_body_shape]
  obtain ⟨env1, K1, h1, h2, h3⟩ := countLoop cs noVals (cs.map (·.id))
    (((Env.empty.set "atom_map" (encAtomMap am)).set "center_data" (encCenters cs)).set "center_count" (.dict [] (fun _ => none)))
    [] (fun _ => none) (by simp)
  have hcc : ∀ k, (fun k => if k ∈ cs.map (·.id) then
            (match findCenter cs k with | some c => some (Sc.int (c.nfunctions : Nat) : Sc Nat BObj) | none => none) else none) k
        = (findCenter cs k).map (fun c => Sc.int (c.nfunctions : Nat)) := by
    intro k
    dsimp only
    cases hf : findCenter cs k with
    | none => simp
    | some c => have := mem_ids_of_find cs k c hf; simp at this; simp [this]
  obtain ⟨env2, e1, e2⟩ := sumLoop cs noVals K1 _ hcc am (env1.set "ret" (.sc (.int 0))) 0 (by simp [h2]) (by simp) hk
  have hcg : cget cs = fun i => (findCenter cs i).map (fun c => Sc.atom (BObj.center c)) := rfl
  rw [hcg] at h1
  simp only [encAtomMap, encCenters] at h1 h3 e1
  have ha : env1 "atom_map" = some (.list (am.map Sc.key)) := by rw [h3 _ (by decide) (by decide) (by decide)]; simp
  simp [nbfShape, encCenters, encAtomMap, h1, ha, e1, e2]

theorem binV_sub_list_list {κ α : Type} [DecidableEq κ] (d : Dom κ α) (x y : List (Sc κ α)) :
    binV d .sub (.list x) (.list y) = .ok (.list (x.filter (fun s => !(y.any (fun t => scEq s t == some true))))) := rfl

theorem known_iff (cs : List Center) (a : Nat) :
    (dictKeys (cs.map (·.id)) (fun i => (findCenter cs i).map (fun c => (Sc.atom (BObj.center c) : Sc Nat BObj)))).any
      (fun i => decide (a = i)) = (findCenter cs a).isSome := by
  cases hf : findCenter cs a with
  | none =>
    simp only [Option.isSome_none, List.any_eq_false, dictKeys, List.mem_filter]
    rintro x ⟨_, hx⟩
    simp only [decide_eq_true_eq]
    intro hax; subst hax; simp [hf] at hx
  | some c =>
    have := mem_ids_of_find cs a c hf
    simp only [Option.isSome_some, List.any_eq_true, dictKeys, List.mem_filter]
    exact ⟨a, ⟨this, by simp [hf]⟩, by simp⟩

theorem missing_eq (cs : List Center) (am : List Nat) :
    (am.map (Sc.key : Nat → Sc Nat BObj)).filter (fun s => !(((dictKeys (cs.map (·.id))
        (fun i => (findCenter cs i).map (fun c => (Sc.atom (BObj.center c) : Sc Nat BObj)))).map Sc.key).any
          (fun t => scEq s t == some true)))
      = (am.filter (fun a => (findCenter cs a).isNone)).map Sc.key := by
  rw [List.filter_map]
  congr 1
  apply List.filter_congr
  intro a _
  simp only [Function.comp, List.any_map]
  have : ((fun t => scEq (Sc.key a : Sc Nat BObj) t == some true) ∘ Sc.key) = (fun i => decide (a = i)) := by
    funext i; simp [scEq, Function.comp]
  rw [this, known_iff]
  cases findCenter cs a <;> rfl

theorem checkAtomMapRaw_eq (cdOk : Bool) (b : BasisIn) :
    checkAtomMapRaw cdOk b =
      if cdOk && !(b.atomMap.all (fun a => (findCenter b.centers a).isSome)) then .error (.raise "ValueError")
      else .ok (encAtomMap b.atomMap) := by
  cases cdOk
  · simp [checkAtomMapRaw, Gen.checkAtomMap, basisVals, encAtomMap]
  · by_cases h : b.atomMap.all (fun a => (findCenter b.centers a).isSome)
    · have hf : b.atomMap.filter (fun a => (findCenter b.centers a).isNone) = [] := by
        simp only [List.filter_eq_nil_iff]
        intro a ha
        have := List.all_eq_true.mp h a ha
        simp [Option.isSome_iff_ne_none] at this
        simp [this]
      simp only [checkAtomMapRaw, Gen.checkAtomMap, encAtomMap]
      simp [basisVals, encCenters, binV_sub_list_list, missing_eq, -List.any_map, -scEq, -List.all_eq_true, hf, h]
    · have hf : b.atomMap.filter (fun a => (findCenter b.centers a).isNone) ≠ [] := by
        intro hnil
        apply h
        rw [List.all_eq_true]
        intro a ha
        have := (List.filter_eq_nil_iff.mp hnil) a ha
        simpa [Option.isSome_iff_ne_none] using this
      cases hl : b.atomMap.filter (fun a => (findCenter b.centers a).isNone) with
      | nil => exact absurd hl hf
      | cons x xs =>
        simp only [checkAtomMapRaw, Gen.checkAtomMap, encAtomMap]
        simp [basisVals, encCenters, binV_sub_list_list, missing_eq, -List.any_map, -scEq, -List.all_eq_true, hl, h]

theorem checkNbfRaw_skip (cdOk amOk : Bool) (b : BasisIn) (h : (cdOk && amOk) = false) :
    checkNbfRaw cdOk amOk b = .ok (encNbf b.nbf) := by
  cases cdOk <;> cases amOk <;> simp at h <;> simp [checkNbfRaw, Gen.checkNbf, basisVals]

theorem checkNbfRaw_eq (b : BasisIn) (hk : ∀ a ∈ b.atomMap, (findCenter b.centers a).isSome) :
    checkNbfRaw true true b =
      match b.nbf with
      | none => .ok (.sc (.int (calcNbf b.centers b.atomMap : Nat)))
      | some v => if v = calcNbf b.centers b.atomMap then .ok (.sc (.int (v : Nat))) else .error (.raise "ValidationError") := by
  have hc := calcNbfRaw_eq b.centers b.atomMap hk
  cases hn : b.nbf with
  | none => simp [checkNbfRaw, Gen.checkNbf, basisVals, basisDom, extCalc, hc, hn, encNbf]
  | some v =>
    by_cases hv : v = calcNbf b.centers b.atomMap
    · simp [checkNbfRaw, Gen.checkNbf, basisVals, basisDom, extCalc, hc, hn, encNbf, hv]
    · have hb : ((v : Int) == ((calcNbf b.centers b.atomMap : Nat) : Int)) = false := by
        rw [beq_eq_false_iff_ne]; omega
      simp [checkNbfRaw, Gen.checkNbf, basisVals, basisDom, extCalc, hc, hn, encNbf, hv, hb]

/-- `BasisSet(**b)` with the source-derived `_check_atom_map` / `_check_nbf` / `_calculate_nbf` / `nfunctions` = hand model.
Full strength as an equation between the two functions, for every input.
-- FULL: (of the tie, not of this statement) `validateBasisSrc` still takes from the hand model the shell validators
-- `_check_coefficient_length` / `_check_general_contraction_or_fused` (`centerLocs`, `Shell.ok`) and what pydantic does between the
-- validators (a failed field is absent from `values`, ValueError is collected, qcelemental's ValidationError escapes); those stay
-- tied by differential correspondence only. -/
theorem validateBasisSrc_eq (b : BasisIn) : validateBasisSrc b = some (validateBasis b) := by
  unfold validateBasisSrc validateBasis
  cases hl : flatten (b.centers.map centerLocs) with
  | cons x xs =>
    simp [checkAtomMapRaw_eq, checkNbfRaw_skip]
    cases hn : b.nbf <;> simp [encNbf]
  | nil =>
    by_cases h : b.atomMap.all (fun a => (findCenter b.centers a).isSome)
    · have hk : ∀ a ∈ b.atomMap, (findCenter b.centers a).isSome := List.all_eq_true.mp h
      simp [checkAtomMapRaw_eq, h, checkNbfRaw_eq b hk, -List.all_eq_true]
      cases hn : b.nbf with
      | none => simp
      | some v =>
        by_cases hv : v = calcNbf b.centers b.atomMap
        · simp [hv]
          obtain ⟨c, a, n⟩ := b
          simp_all
        · simp [hv]
    · simp [checkAtomMapRaw_eq, h, checkNbfRaw_skip, -List.all_eq_true]
      cases hn : b.nbf <;> simp [encNbf]

/-! ## the source-derived functions on the model's own state types -/

/-- `ElectronShell.nfunctions` as translated = the model's count (spherical 2L+1, cartesian (L+1)(L+2)/2, summed over a fused shell) -/
theorem nfunctionsSrc_eq (s : Shell) : nfunctionsSrc s = some s.nfunctions := by
  simp [nfunctionsSrc, nfunctionsRaw_eq]

/-- `_calculate_nbf` as translated = `calcNbf`, whenever every atom names a centre (which `_check_atom_map` has established) -/
theorem calcNbfSrc_eq (cs : List Center) (am : List Nat) (hk : ∀ a ∈ am, (findCenter cs a).isSome) :
    calcNbfSrc cs am = some (calcNbf cs am) := by
  simp [calcNbfSrc, calcNbfRaw_eq cs am hk]

example : calcNbfSrc [⟨1, [⟨.spherical, [0, 1], 1, [1, 1]⟩]⟩, ⟨2, [⟨.cartesian, [2], 1, [1]⟩]⟩] [1, 2, 2] = some 16 := by
  decide   -- test (hypothesis of calcNbfSrc_eq satisfiable: both atoms name centres)

theorem wfnFieldSrc_eq (p : WfnProto) (w : Option (Wfn BasisIn)) : wfnFieldSrc p w = some (wfnField p w) := by
  cases w with
  | none => rfl
  | some w =>
    simp only [wfnFieldSrc, wfnField, wfnProtocolSrc_eq]
    cases wfnProtocol p w with
    | error e => rfl
    | ok o =>
      cases o with
      | none => rfl
      | some w1 =>
        dsimp only
        cases validateWfn w1 with
        | ok w2 => rfl
        | error e => cases e <;> rfl

/-- AtomicResult construction with the three protocol validators taken from the source = the hand model (file names of a
dict are distinct).
-- FULL: (of the tie) `atomicResultSrc` still takes from the hand model the reshape validators (tied through the tables of
-- Props/C20Spec.lean), `validateWfn`, and pydantic's field order / error collection; only dict-valued `wavefunction` inputs are
-- modelled (the `isinstance(value, WavefunctionProperties)` branch of the source is translated but never entered by the encodings). -/
theorem atomicResultSrc_eq {γ σ : Type} (i : ARIn γ σ) (hn : ((i.native.getD []).map (·.1)).Nodup) :
    atomicResultSrc i = some (atomicResult i) := by
  unfold atomicResultSrc atomicResult
  simp only [wfnFieldSrc_eq, stdoutSrc_eq, nativeFieldSrc, nativeSrc_eq _ _ hn, nativeField]
  cases wfnField i.wp i.wfn with
  | error e => cases e <;> rfl
  | ok w => rfl

example : ((((some [(0, some 1), (3, some 2)] : Option (Files Nat))).getD []).map (·.1)).Nodup := by decide  -- non-vacuity

/-! ## the headline retention theorems, over the SOURCE-DERIVED functions -/

/-- protocol `all` (source-derived): restricted -> exactly the non-beta entries unchanged; unrestricted -> everything unchanged -/
theorem src_wfn_all_keeps {β : Type} (w : Wfn β) (r : Bool) (hr : w.restricted = some r) :
    ∃ w', wfnProtocolSrc .all w = some (.ok (some w')) ∧ w'.restricted = some r ∧ w'.basis = w.basis ∧
      (∀ pk ak, w'.ptr pk = some ak ↔ (¬ (r = true ∧ pk.spin = .b) ∧ w.ptr pk = some ak)) ∧
      (∀ ak v, w'.arr ak = some v ↔ (¬ (r = true ∧ ak.spin = .b) ∧ w.arr ak = some v)) ∧
      (r = false → w' = w) := by
  obtain ⟨w', h, rest⟩ := wfn_all_keeps w r hr
  exact ⟨w', by rw [wfnProtocolSrc_eq, h], rest⟩

/-- subset protocols (source-derived): kept pointers = selected, supplied, non-beta-if-restricted pointers; kept arrays =
exactly their targets, unchanged; basis and restricted kept; nothing else -/
theorem src_wfn_keeps_exactly {β : Type} (p : WfnProto) (keep : List PtrKey) (hk : keepList p = some keep)
    (w w' : Wfn β) (r : Bool) (hr : w.restricted = some r) (h : wfnProtocolSrc p w = some (.ok (some w'))) :
    w'.restricted = some r ∧ w'.basis = w.basis ∧
    (∀ pk ak, w'.ptr pk = some ak ↔ (Selected keep r pk ∧ w.ptr pk = some ak)) ∧
    (∀ ak v, w'.arr ak = some v ↔ ((∃ pk, Selected keep r pk ∧ w.ptr pk = some ak) ∧ w.arr ak = some v)) := by
  rw [wfnProtocolSrc_eq] at h
  exact wfn_keeps_exactly p keep hk w w' r hr (Option.some.inj h)

example : ∃ w', wfnProtocolSrc .orbitals_and_eigenvalues
    ({ restricted := some true, basis := some 0, arr := fun k => if k = ⟨.scf_orbitals, .a⟩ then some [2, 2] else none,
       ptr := fun k => if k = ⟨.orbitals, .a⟩ then some ⟨.scf_orbitals, .a⟩ else none } : Wfn Nat) = some (.ok (some w')) := by
  rw [wfnProtocolSrc_eq]; exact ⟨_, rfl⟩   -- non-vacuity: an accepted subset-protocol case exists

/-- protocol `none` (source-derived) keeps no wavefunction -/
theorem src_wfn_none_drops {β : Type} (w : Wfn β) (r : Bool) (hr : w.restricted = some r) :
    wfnProtocolSrc .none w = some (.ok none) := by
  rw [wfnProtocolSrc_eq, wfn_none_drops w r hr]

/-- the source-derived filter rejects (validation error at `wavefunction`, never stuck, never another exception) exactly
when a selected pointer names an array that is not (any longer) supplied -/
theorem src_wfn_rejects_iff_dangling {β : Type} (p : WfnProto) (w : Wfn β) (r : Bool) (hr : w.restricted = some r) :
    (∀ e, wfnProtocolSrc p w = some (.error e) → e = .validation ["wavefunction"]) ∧
    ((∃ e, wfnProtocolSrc p w = some (.error e)) ↔
      ∃ keep, keepList p = some keep ∧ ∃ pk ak, Selected keep r pk ∧ w.ptr pk = some ak ∧
        ¬ (∃ v, ¬ (r = true ∧ ak.spin = .b) ∧ w.arr ak = some v)) := by
  obtain ⟨h1, h2⟩ := wfn_rejects_iff_dangling p w r hr
  rw [wfnProtocolSrc_eq]
  refine ⟨fun e he => h1 e (Option.some.inj he), ?_⟩
  rw [← h2]
  constructor
  · rintro ⟨e, he⟩; exact ⟨e, Option.some.inj he⟩
  · rintro ⟨e, he⟩; exact ⟨e, by rw [he]⟩

/-- applying the source-derived wavefunction protocol to its own output returns it unchanged -/
theorem src_wfn_idempotent {β : Type} (p : WfnProto) (w w' : Wfn β) (h : wfnProtocolSrc p w = some (.ok (some w'))) :
    wfnProtocolSrc p w' = some (.ok (some w')) := by
  rw [wfnProtocolSrc_eq] at h ⊢
  rw [(wfn_idempotent p w).1 w' (Option.some.inj h)]

/-- stdout (source-derived): kept unchanged iff requested; idempotent -/
theorem src_stdout_keeps {σ : Type} (v : Option σ) :
    stdoutSrc true v = some v ∧ stdoutSrc false v = some none ∧
    (∀ keep, (stdoutSrc keep v).bind (stdoutSrc keep) = stdoutSrc keep v) := by
  refine ⟨by rw [stdoutSrc_eq]; rfl, by rw [stdoutSrc_eq]; rfl, ?_⟩
  intro keep
  simp only [stdoutSrc_eq, Option.bind_some]
  rw [(stdout_keeps keep v).2.2]

/-- native files (source-derived; distinct file names): all -> unchanged, none -> empty, input -> only `input` with its
supplied content -/
theorem src_native_keeps {γ : Type} (f : Files γ) (hn : (f.map (·.1)).Nodup) :
    nativeSrc .all f = some f ∧ nativeSrc .none f = some [] ∧ nativeSrc .input f = some [(0, filesGet f 0)] := by
  refine ⟨?_, ?_, ?_⟩ <;> rw [nativeSrc_eq _ _ hn] <;> rfl

/-- trajectory (source-derived): all -> everything, none -> nothing, final -> the last step (nothing if empty),
initial_and_final -> first and last (<= 2 steps unchanged); never stuck, never an exception (no IndexError) -/
theorem src_trajectory_selects {τ : Type} (x : τ) (l : List τ) :
    (∀ v : List τ, trajectorySrc .all v = some v ∧ trajectorySrc .none v = some []) ∧
    trajectorySrc .final ([] : List τ) = some [] ∧
    trajectorySrc .initial_and_final ([] : List τ) = some [] ∧
    trajectorySrc .final (x :: l) = some [(x :: l).getLast (by simp)] ∧
    trajectorySrc .initial_and_final [x] = some [x] ∧
    (l ≠ [] → trajectorySrc .initial_and_final (x :: l) = some [x, (x :: l).getLast (by simp)]) := by
  obtain ⟨h1, h2, h3, h4, h5, h6⟩ := trajectory_selects x l
  simp only [trajectorySrc_eq]
  refine ⟨fun v => ⟨by rw [(h1 v).1], by rw [(h1 v).2]⟩, by rw [h2], by rw [h3], by rw [h4], by rw [h5], fun hl => by rw [h6 hl]⟩

example : ([2, 3] : List Nat) ≠ [] := by decide   -- non-vacuity of the last clause

/-- nbf (source-derived BasisSet validators): an accepted basis carries nbf = the count implied by its shells; a supplied
nbf is accepted iff equal; absent is filled in -/
theorem src_nbf_consistent (b : BasisIn) :
    (∀ b', validateBasisSrc b = some (.ok b') →
        b'.nbf = some (calcNbf b.centers b.atomMap) ∧ b'.centers = b.centers ∧ b'.atomMap = b.atomMap ∧
        (b.nbf = none ∨ b.nbf = some (calcNbf b.centers b.atomMap))) ∧
    (b.wellFormed → ∀ v, b.nbf = some v → v ≠ calcNbf b.centers b.atomMap → validateBasisSrc b = some (.error .nbfMismatch)) ∧
    (b.wellFormed → b.nbf = none → ∃ b', validateBasisSrc b = some (.ok b')) := by
  obtain ⟨h1, h2, h3⟩ := nbf_consistent b
  simp only [validateBasisSrc_eq]
  refine ⟨fun b' h => h1 b' (Option.some.inj h), fun hw v hn hv => by rw [h2 hw v hn hv], fun hw hn => ?_⟩
  obtain ⟨b', hb⟩ := h3 hw hn
  exact ⟨b', by rw [hb]⟩


/-! ## the same, for the element-carrying model (Model/ProtocolsElems.lean): the proofs above with `Arr π` payloads -/

theorem wfnGet_setE {π β : Type} (ret : WfnE π β) (rk : PtrKey) (t : ArrKey) (v : Arr π) :
    (fun j => if j = WKey.arr t then some (Sc.atom (Obj.payload (WPayE.arr v)))
              else if j = WKey.ptr rk then some (Sc.key (WKey.arr t)) else wfnGetE ret j)
      = wfnGetE (setArrE (setPtrE ret rk t) t v) := by
  funext j
  cases j <;> simp [wfnGetE, setArrE, setPtrE]
  · rename_i k; by_cases h : k = t <;> simp [h]
  · rename_i k; by_cases h : k = rk <;> simp [h]

theorem keepLoop_specE {π β : Type} (vals : String → Option (Val WKey (Obj (WPayE π β)))) (w1 : WfnE π β) (wkeys : List WKey) :
    ∀ (keep : List PtrKey) (ret : WfnE π β) (env : Env WKey (Obj (WPayE π β))) (rkeys : List WKey),
      env "wfn" = some (.dict wkeys (wfnGetE w1)) → env "ret_wfn" = some (.dict rkeys (wfnGetE ret)) →
      match keepLoopE w1 keep ret with
      | .ok ret' => ∃ env' rkeys',
          forLoop (fun x e => exec (wfnDomE π β) vals keepBody (e.set "rk" (.sc x))) (keep.map (fun k => Sc.str k.name)) env = .next env' ∧
          env' "ret_wfn" = some (.dict rkeys' (wfnGetE ret'))
      | .error er => er = .validation ["wavefunction"] ∧
          forLoop (fun x e => exec (wfnDomE π β) vals keepBody (e.set "rk" (.sc x))) (keep.map (fun k => Sc.str k.name)) env
            = .exc (.raise "ValueError") := by
  intro keep
  induction keep with
  | nil => intro ret env rkeys _ h2; exact ⟨env, rkeys, rfl, h2⟩
  | cons rk rest ih =>
    intro ret env rkeys h1 h2
    simp only [keepLoopE, List.map, forLoop]
    cases hp : w1.ptr rk with
    | none =>
      have hstep : exec (wfnDomE π β) vals keepBody (env.set "rk" (.sc (.str rk.name)))
          = .cont ((env.set "rk" (.sc (.str rk.name))).set "key" (.sc .none)) := by
        simp [keepBody, h1, wfnDomE, ofName_ptr, wfnGetE, hp]
      rw [hstep]
      exact ih ret _ rkeys (by simp [h1]) (by simp [h2])
    | some t =>
      dsimp only
      cases ha : w1.arr t with
      | none =>
        have hstep : exec (wfnDomE π β) vals keepBody (env.set "rk" (.sc (.str rk.name))) = .exc (.raise "ValueError") := by
          simp [keepBody, h1, wfnDomE, ofName_ptr, wfnGetE, hp, ha, isMember]
        rw [hstep]; exact ⟨rfl, rfl⟩
      | some v =>
        dsimp only
        have hstep : ∃ env1 rkeys1, exec (wfnDomE π β) vals keepBody (env.set "rk" (.sc (.str rk.name))) = .next env1 ∧
            env1 "wfn" = some (.dict wkeys (wfnGetE w1)) ∧
            env1 "ret_wfn" = some (.dict rkeys1 (wfnGetE (setArrE (setPtrE ret rk t) t v))) := by
          let K1 := if rkeys.contains (.ptr rk) then rkeys else rkeys ++ [WKey.ptr rk]
          let g1 : WKey → Option (WScE π β) := fun j => if j = WKey.ptr rk then some (Sc.key (WKey.arr t)) else wfnGetE ret j
          let K2 := if K1.contains (.arr t) then K1 else K1 ++ [WKey.arr t]
          let g2 : WKey → Option (WScE π β) := fun j => if j = WKey.arr t then some (Sc.atom (Obj.payload (WPayE.arr v))) else g1 j
          refine ⟨(((env.set "rk" (.sc (.str rk.name))).set "key" (.sc (.key (.arr t)))).set "ret_wfn" (.dict K1 g1)).set
                    "ret_wfn" (.dict K2 g2), K2, ?_, ?_, ?_⟩
          · simp [keepBody, h1, h2, wfnDomE, ofName_ptr, wfnGetE, hp, ha, isMember, K1, K2, g1, g2]
          · simp [h1]
          · simp [g2, g1, wfnGet_setE]
        obtain ⟨env1, rkeys1, he, hw, hr⟩ := hstep
        rw [he]
        exact ih _ env1 rkeys1 hw hr

theorem dropLoop_specE {π β : Type} (vals : String → Option (Val WKey (Obj (WPayE π β)))) (keys : List WKey) :
    ∀ (l : List WKey), l.Nodup → ∀ (env : Env WKey (Obj (WPayE π β))) (get : WKey → Option (WScE π β)),
      env "wfn" = some (.dict keys get) → (∀ x ∈ l, (get x).isSome) →
      ∃ env', forLoop (fun x e => exec (wfnDomE π β) vals dropBody (e.set "k" (.sc x))) (l.map Sc.key) env = .next env' ∧
        env' "wfn" = some (.dict keys (fun k => if k ∈ l ∧ endsB k then none else get k)) ∧
        ∀ n, n ≠ "k" → n ≠ "wfn" → env' n = env n := by
  intro l
  induction l with
  | nil => intro _ env get h _; exact ⟨env, rfl, by simpa using h, fun _ _ _ => rfl⟩
  | cons x xs ih =>
    intro hn env get h hp
    have hx : (get x).isSome := hp x (by simp)
    simp only [List.nodup_cons] at hn
    simp only [List.map, forLoop]
    by_cases hb : endsB x
    · have hstep : exec (wfnDomE π β) vals dropBody (env.set "k" (.sc (.key x)))
          = .next ((env.set "k" (.sc (.key x))).set "wfn" (.dict keys (fun j => if j = x then none else get j))) := by
        have hb' : endsWithL x.name "_b" = true := hb
        simp [dropBody, h, wfnDomE, hb', hx]
      rw [hstep]
      obtain ⟨env', h1, h2, h3⟩ := ih hn.2
        ((env.set "k" (.sc (.key x))).set "wfn" (.dict keys (fun j => if j = x then none else get j)))
        (fun j => if j = x then none else get j) (by simp)
        (by intro y hy; have : y ≠ x := fun e => hn.1 (e ▸ hy); simp [this, hp y (by simp [hy])])
      refine ⟨env', h1, ?_, ?_⟩
      · rw [h2]; congr 2; funext k
        by_cases hk : k = x
        · subst hk; simp [hb]
        · simp [hk]
      · intro n hn1 hn2; rw [h3 n hn1 hn2]; simp [hn1, hn2]
    · have hstep : exec (wfnDomE π β) vals dropBody (env.set "k" (.sc (.key x))) = .next (env.set "k" (.sc (.key x))) := by
        have hb' : endsWithL x.name "_b" = false := by simpa [endsB] using hb
        simp [dropBody, wfnDomE, hb']
      rw [hstep]
      obtain ⟨env', h1, h2, h3⟩ := ih hn.2 (env.set "k" (.sc (.key x))) get (by simp [h])
        (by intro y hy; exact hp y (by simp [hy]))
      refine ⟨env', h1, ?_, ?_⟩
      · rw [h2]; congr 2; funext k
        by_cases hk : k = x
        · subst hk; simp [hb]
        · simp [hk]
      · intro n hn1 hn2; rw [h3 n hn1 hn2]; simp [hn1]

theorem wfnGet_dropBetaE {π β : Type} (w : WfnE π β) :
    (fun k => if k ∈ dictKeys WKey.all (wfnGetE w) ∧ endsB k then none else wfnGetE w k) = wfnGetE (dropBetaE w) := by
  funext k
  rw [endsB_eq]
  cases k <;> simp [isBeta, wfnGetE, dropBetaE, dictKeys, mem_all]
  · rename_i k; by_cases h : k.spin = .b <;> simp [h]
  · rename_i k; by_cases h : k.spin = .b <;> simp [h]

theorem decWfn_getE {π β : Type} (w : WfnE π β) : decWfnE (wfnGetE w) = w := by
  obtain ⟨r, b, a, p⟩ := w
  simp only [decWfnE, wfnGetE]
  congr 1
  · cases r <;> rfl
  · cases b <;> rfl
  · funext k; cases a k <;> rfl
  · funext k; cases p k <;> rfl

/-- what pydantic makes of the outcome of the pre-validator -/
def outToResE {π β : Type} : Out WKey (Obj (WPayE π β)) → Option (Except Err (Option (WfnE π β)))
  | .ret (.sc .none) => some (.ok none)
  | .ret (.dict _ get) => some (.ok (some (decWfnE get)))
  | .exc (.raise c) => if c = "ValueError" then some (.error (.validation ["wavefunction"])) else none
  | .next _ => some (.ok none)
  | _ => none

theorem keepTail_specE {π β : Type} (vals : String → Option (Val WKey (Obj (WPayE π β)))) (w1 : WfnE π β) (wkeys : List WKey)
    (keep : List PtrKey) (ret : WfnE π β) (env : Env WKey (Obj (WPayE π β))) (rkeys : List WKey)
    (h0 : env "return_keep" = some (.list (keep.map (fun k => Sc.str k.name))))
    (h1 : env "wfn" = some (.dict wkeys (wfnGetE w1))) (h2 : env "ret_wfn" = some (.dict rkeys (wfnGetE ret))) :
    outToResE (exec (wfnDomE π β) vals keepTail env) =
      some (match keepLoopE w1 keep ret with | .ok r' => .ok (some r') | .error e => .error e) := by
  have := keepLoop_specE vals w1 wkeys keep ret env rkeys h1 h2
  cases hk : keepLoopE w1 keep ret with
  | ok r' =>
    rw [hk] at this
    obtain ⟨env', rk', e1, e2⟩ := this
    simp [keepTail, h0, e1, e2, outToResE, decWfn_getE]
  | error er =>
    rw [hk] at this
    simp [keepTail, h0, this.2, this.1, outToResE]

/-- the hand model after `restricted` has been handled -/
def handPostE {π β : Type} (p : WfnProto) (r : Bool) (w1 : WfnE π β) : Except Err (Option (WfnE π β)) :=
  match p with
  | .none => .ok none
  | p =>
    match keepList p with
    | none => .ok (some w1)
    | some keep =>
      match keepLoopE w1 keep { restricted := some r, basis := w1.basis, arr := fun _ => none, ptr := fun _ => none } with
      | .ok ret => .ok (some ret)
      | .error e => .error e

theorem ofName_restrictedE : WKey.ofName "restricted" = some .restricted := by decide
theorem ofName_basisE : WKey.ofName "basis" = some .basis := by decide

theorem final_specE {π β : Type} (vals : String → Option (Val WKey (Obj (WPayE π β)))) (keep : List PtrKey) (r : Bool) (w1 : WfnE π β)
    (keys : List WKey) (env : Env WKey (Obj (WPayE π β)))
    (h0 : env "return_keep" = some (.list (keep.map (fun k => Sc.str k.name))))
    (h1 : env "wfn" = some (.dict keys (wfnGetE w1))) (h2 : env "restricted" = some (.sc (.bool r))) :
    outToResE (exec (wfnDomE π β) vals finalIte env) =
      some (match keepLoopE w1 keep { restricted := some r, basis := w1.basis, arr := fun _ => none, ptr := fun _ => none } with
            | .ok r' => .ok (some r') | .error e => .error e) := by
  cases hb : w1.basis with
  | none =>
    have hg : (fun j => if j = WKey.restricted then some (Sc.bool r) else none)
        = wfnGetE ({ restricted := some r, basis := none, arr := fun _ => none, ptr := fun _ => none } : WfnE π β) := by
      funext j; cases j <;> simp [wfnGetE]
    simp [finalIte, h0, h1, h2, isMember, ofName_restrictedE, ofName_basisE, wfnGetE, hb, wfnDomE]
    refine (keepTail_specE vals w1 keys keep _ _ [WKey.restricted] (by simp [h0]) (by simp [h1]) ?_)
    simp [hg]
  | some b =>
    have hg : (fun j => if j = WKey.basis then some (Sc.atom (Obj.payload (WPayE.basis b)))
                        else if j = WKey.restricted then some (Sc.bool r) else none)
        = wfnGetE ({ restricted := some r, basis := some b, arr := fun _ => none, ptr := fun _ => none } : WfnE π β) := by
      funext j; cases j <;> simp [wfnGetE]
    simp [finalIte, h0, h1, h2, isMember, ofName_restrictedE, ofName_basisE, wfnGetE, hb, wfnDomE]
    refine (keepTail_specE vals w1 keys keep _ _ [WKey.restricted, WKey.basis] (by simp [h0]) (by simp [h1]) ?_)
    simp [hg]

theorem post_specE {π β : Type} (p : WfnProto) (r : Bool) (w1 : WfnE π β) (keys : List WKey) (env : Env WKey (Obj (WPayE π β)))
    (h1 : env "wfn" = some (.dict keys (wfnGetE w1))) (h2 : env "restricted" = some (.sc (.bool r))) :
    outToResE (exec (wfnDomE π β) (protoVals { wp := p }) wfnPost env) = some (handPostE p r w1) := by
  cases p
  · simp [wfnPost, finalIte, h1, wfnDomE, outToResE, handPostE, keepList, decWfn_getE]
  · simp [wfnPost, wfnDomE, handPostE, keepList, strList]
    exact final_specE _ [⟨.orbitals, .a⟩, ⟨.orbitals, .b⟩, ⟨.eigenvalues, .a⟩, ⟨.eigenvalues, .b⟩] r w1 keys _
      (by simp [PtrKey.name, PtrBase.name, Spin.suffix]) (by simp [h1]) (by simp [h2])
  · simp [wfnPost, wfnDomE, handPostE, keepList, strList]
    exact final_specE _ [⟨.occupations, .a⟩, ⟨.occupations, .b⟩, ⟨.eigenvalues, .a⟩, ⟨.eigenvalues, .b⟩] r w1 keys _
      (by simp [PtrKey.name, PtrBase.name, Spin.suffix]) (by simp [h1]) (by simp [h2])
  · simp [wfnPost, wfnDomE, handPostE, keepList, strList]
    exact final_specE _ PtrKey.all r w1 keys _
      (by simp [PtrKey.all, PtrBase.all, flatten, PtrKey.name, PtrBase.name, Spin.suffix]) (by simp [h1]) (by simp [h2])
  · simp [wfnPost, finalIte, wfnDomE, outToResE, handPostE]

theorem wfnProtocol_handPostE {π β : Type} (p : WfnProto) (w : WfnE π β) (r : Bool) (hr : w.restricted = some r) :
    wfnProtocolE p w = handPostE p r (if r then dropBetaE w else w) := by
  cases p <;> simp [wfnProtocolE, handPostE, hr, keepList] <;> rfl

@[simp] theorem wfnDom_keyOfE {π β : Type} : (wfnDomE π β).keyOf = WKey.ofName := rfl
@[simp] theorem wfnDom_nameOfE {π β : Type} : (wfnDomE π β).nameOf = WKey.name := rfl
@[simp] theorem wfnDom_attrE {π β : Type} (pr : Protos) (a : String) : (wfnDomE π β).attr (.protocols pr) a = protoAttr pr a := rfl
@[simp] theorem wfnDom_isinstE {π β : Type} (o : Obj (WPayE π β)) (c : String) : (wfnDomE π β).isinst o c = false := rfl

theorem src_as_outE {π β : Type} (p : WfnProto) (w : WfnE π β) :
    wfnProtocolESrc p w = outToResE (exec (wfnDomE π β) (protoVals { wp := p }) Gen.wavefunctionProtocol.body
      (Env.empty.set "value" (.dict WKey.all (wfnGetE w)))) := by
  unfold wfnProtocolESrc wfnRawE run
  generalize exec (wfnDomE π β) (protoVals { wp := p }) Gen.wavefunctionProtocol.body
      (Env.empty.set "value" (.dict WKey.all (wfnGetE w))) = o
  rcases o with e | e | v | x
  · rfl
  · rfl
  · rcases v with s | l | ⟨k, g⟩
    · cases s <;> rfl
    · rfl
    · rfl
  · cases x <;> rfl

theorem wfnProtocolESrc_eq {π β : Type} (p : WfnProto) (w : WfnE π β) : wfnProtocolESrc p w = some (wfnProtocolE p w) := by
  rw [src_as_outE, wfn_body_shape]
  cases hr : w.restricted with
  | none =>
    simp [wfnShape, ofName_restrictedE, wfnGetE, hr, wfnProtocolE, outToResE]
  | some r =>
    rw [wfnProtocol_handPostE p w r hr]
    cases r
    · simp [wfnShape, ofName_restrictedE, wfnGetE, hr]
      exact post_specE p false w WKey.all _ (by simp) (by simp)
    · simp [wfnShape, ofName_restrictedE, wfnGetE, hr]
      have hnd : (dictKeys WKey.all (wfnGetE w)).Nodup := all_nodup.sublist List.filter_sublist
      obtain ⟨env', h1, h2, h3⟩ := dropLoop_specE (protoVals { wp := p }) WKey.all (dictKeys WKey.all (wfnGetE w)) hnd
        (((Env.empty.set "value" (Val.dict WKey.all (wfnGetE w))).set "wfn" (Val.dict WKey.all (wfnGetE w))).set
            "restricted" (Val.sc (Sc.bool true))) (wfnGetE w) (by simp)
        (by intro x hx; simpa [dictKeys] using (List.mem_filter.mp hx).2)
      rw [h1]
      rw [wfnGet_dropBetaE] at h2
      exact post_specE p true (dropBetaE w) WKey.all env' h2 (by rw [h3 _ (by decide) (by decide)]; simp)



/-- headline, over the source-derived element-carrying function: whatever array the wavefunction protocol keeps under a key
is exactly (shape and row-major elements) the array supplied under that key -/
theorem src_wfnE_retains {π β : Type} (p : WfnProto) (w w' : WfnE π β)
    (h : wfnProtocolESrc p w = some (.ok (some w'))) : ∀ k a, w'.arr k = some a → w.arr k = some a := by
  rw [wfnProtocolESrc_eq] at h
  exact wfnProtocolE_retains p w w' (Option.some.inj h)

example : ∃ w', wfnProtocolESrc .return_results
    ({ restricted := some false, basis := some 0, arr := fun k => if k = ⟨.scf_fock, .b⟩ then some ⟨[2, 2], "ab"⟩ else none,
       ptr := fun k => if k = ⟨.fock, .b⟩ then some ⟨.scf_fock, .b⟩ else none } : WfnE String Nat) = some (.ok (some w')) := by
  rw [wfnProtocolESrc_eq]; exact ⟨_, rfl⟩   -- non-vacuity

end QcelVerif.Protocols.Src
