import QcelVerif.Lemmas.Mill
/-!
# C13 — an alignment recipe transforms coordinates, gradients and Hessians covariantly

Model: `Model/Mill.lean` (`AlignmentMill.align_*` of `qcelemental/models/align.py`, and
`blockwise_expand/contract` of `qcelemental/util/np_blockwise.py`), written over core arithmetic
classes; every theorem here is about those very definitions, for every commutative ring `K`
(so over ℝ and ℚ), every number of atoms `n`, every recipe with `R Rᵀ = I` (`IsOrtho`) and a
bijective atom map, mirror on and off unless a hypothesis says otherwise.

The step from these algebraic clauses to "gradient / Hessian covariance for EVERY invariant energy"
(Fréchet derivatives over ℝ) is proved in `Props/C13Calculus.lean`.

PROPERTY-THEOREMS (audited by the harness):
  blockwise_roundtrip blockwise_roundtrip' coords_affine gradient_is_J pairing_preserved
  hessian_form_preserved hessian_is_JtHJ atoms_same_map coords_isometry vector_rotates
  vector_gradient_chain energy_gradient_covariance energy_hessian_covariance energy_invariant
  gradE_is_derivative hessE_is_derivative field_covariance field_is_derivative
  hessian_mirror_counterexample (test by evaluation: the pre-fix code fails the Hessian clause)
-/
namespace QcelVerif.Mill
open Finset

variable {K : Type} [CommRing K]

/-! ## Reordering into blocks and back is lossless -/

theorem blockwise_roundtrip {α : Type} {gr gc lr lc : Nat} (a : Fin (gr * lr) → Fin (gc * lc) → α) :
    blockwiseContract (blockwiseExpand a) = a := by
  funext r c
  simp only [blockwiseContract, blockwiseExpand, idx_blk_off]

theorem blockwise_roundtrip' {α : Type} {gr gc lr lc : Nat} (b : Fin gr → Fin gc → Fin lr → Fin lc → α) :
    blockwiseExpand (blockwiseContract b) = b := by
  funext i j p q
  simp only [blockwiseContract, blockwiseExpand, blk_idx, off_idx]

/-! ## The coordinate map is affine with linear part `J`; the gradient transform *is* `J` -/

/-- `align_coordinates(x + d) − align_coordinates(x) = J d` : the map is affine, `J` (reflect `y` if
mirror, rotate, permute atoms; `Lemmas/Mill.lean`) is its differential, for any recipe. -/
theorem coords_affine {n m : Nat} (r : Recipe K n m) (x d : Geom K n) (i : Fin m) (a : Fin 3) :
    alignCoords r (fun i a => x i a + d i a) i a - alignCoords r x i a = J r d i a := by
  rw [alignCoords_apply, alignCoords_apply]
  simp only [pointMap, J, frame, sum3]
  ring

theorem gradient_is_J {n m : Nat} (r : Recipe K n m) (g : Geom K n) : alignGradient r g = J r g :=
  alignGradient_eq_J r g

/-- `⟨J d, align_gradient g⟩ = ⟨d, g⟩` : first-order energy changes are the same before and after. -/
theorem pairing_preserved {n m : Nat} (r : Recipe K n m) (hR : IsOrtho r.rot)
    (hmap : Function.Bijective r.map) (d g : Geom K n) :
    ∑ i, sum3 (fun a => J r d i a * alignGradient r g i a) = ∑ i, sum3 (fun a => d i a * g i a) := by
  rw [gradient_is_J]
  rw [← hmap.sum_comp (fun i' => sum3 (fun a => d i' a * g i' a))]
  apply Finset.sum_congr rfl; intro i _
  exact pair3 (frame_ortho r hR) (d (r.map i)) (g (r.map i))

/-! ## Hessian -/

/-- entrywise: `align_hessian(H)[(i,a),(j,b)] = Σ_cd F[c,a] · H[(map i,c),(map j,d)] · F[d,b]`, `F` the
frame of `J` (mirror included) — i.e. `align_hessian H = Jᵀ-conjugate of H`. -/
theorem hessian_is_JtHJ {n m : Nat} (r : Recipe K n m) (H : Hess K n) (i j : Fin m) (a b : Fin 3) :
    alignHessian r H (idx i a) (idx j b)
      = sum3 fun c => sum3 fun d => frame r c a * H (idx (r.map i) c) (idx (r.map j) d) * frame r d b := by
  rw [alignHessian_apply]; simp only [blk_idx, off_idx]

/-- `(J d)ᵀ · align_hessian(H) · (J e) = dᵀ H e` : second-order energy changes are the same before and
after, **for mirrored recipes too** (holds since the fix `2038e22`; before it `align_hessian` ignored
the mirror flag and this failed for `mirror = true`). -/
theorem hessian_form_preserved {n m : Nat} (r : Recipe K n m) (hR : IsOrtho r.rot)
    (hmap : Function.Bijective r.map) (H : Hess K n) (d e : Geom K n) :
    bilin (alignHessian r H) (flat (J r d)) (flat (J r e)) = bilin H (flat d) (flat e) := by
  rw [bilin_blocks, bilin_blocks]
  rw [← hmap.sum_comp (fun i' => ∑ j', sum3 fun a => sum3 fun b => d i' a * H (idx i' a) (idx j' b) * e j' b)]
  apply Finset.sum_congr rfl; intro i _
  rw [← hmap.sum_comp (fun j' => sum3 fun a => sum3 fun b => d (r.map i) a * H (idx (r.map i) a) (idx j' b) * e j' b)]
  apply Finset.sum_congr rfl; intro j _
  simp only [hessian_is_JtHJ]
  exact form3 (frame_ortho r hR) (d (r.map i)) (e (r.map j)) (fun c d' => H (idx (r.map i) c) (idx (r.map j) d'))

/-! ## Per-atom arrays and coordinates use the same atom map -/

/-- `align_atoms(a)[i] = a[map i]`, and row `i` of the aligned geometry is the image of row `map i`
under one affine map `pointMap r` that does not depend on the atom. -/
theorem atoms_same_map {α : Type} {n m : Nat} (r : Recipe K n m) (ats : Fin n → α) (x : Geom K n) (i : Fin m) :
    alignAtoms r.map ats i = ats (r.map i) ∧ alignCoords r x i = pointMap r (x (r.map i)) :=
  ⟨rfl, alignCoords_apply r x i⟩

/-- the coordinate transforms (forward and reverse) move the molecule rigidly: all squared
interatomic distances are kept (with the atom map applied) -/
theorem coords_isometry {n m : Nat} (r : Recipe K n m) (hR : IsOrtho r.rot) (x : Geom K n) (i j : Fin m) :
    dist2 (alignCoords r x) i j = dist2 x (r.map i) (r.map j)
    ∧ dist2 (alignCoordsRev r x) i j = dist2 x (r.map i) (r.map j) :=
  ⟨dist2_align r hR x i j, dist2_alignRev r hR x i j⟩

/-! ## Attached vectors (recipes without mirror) -/

/-- displacement vectors between atoms — the prototype of a vector attached to the molecule — are
transformed by `align_vector` exactly as the coordinates are, when `mirror = false` -/
theorem vector_rotates {n m : Nat} (r : Recipe K n m) (hm : r.mirror = false) (x : Geom K n) (i j : Fin m) (a : Fin 3) :
    alignCoords r x i a - alignCoords r x j a
      = alignVector r (fun c => x (r.map i) c - x (r.map j) c) a := by
  rw [alignCoords_sub]
  simp [alignVector, rowDot, frame, msign, hm]

/-- chain rule for nuclear derivatives of a vector: if `D` is the `(3,3n)` Jacobian of a vector `μ`
w.r.t. the coordinates, then `align_vector_gradient D` maps a displaced aligned geometry `J d` to the
aligned change of the vector, `align_vector (D d)` (mirror off). -/
theorem vector_gradient_chain {n : Nat} (r : Recipe K n n) (hm : r.mirror = false) (hR : IsOrtho r.rot)
    (hmap : Function.Bijective r.map) (D : Fin 3 → Fin (n * 3) → K) (d : Geom K n) (a' : Fin 3) :
    ∑ c, alignVectorGradient r D a' c * flat (J r d) c
      = alignVector r (fun a => ∑ c, D a c * flat d c) a' := by
  have hF : frame r = r.rot := by funext c a; simp [frame, msign, hm]
  simp only [sum_flat, flat, blk_idx, off_idx, alignVector, rowDot]
  have key : ∀ i : Fin n, ∑ b' : Fin 3, alignVectorGradient r D a' (idx i b') * J r d i b'
      = sum3 fun a => (∑ b : Fin 3, D a (idx (r.map i) b) * d (r.map i) b) * r.rot a a' := by
    intro i
    have h0 := rowDot_back hR (d (r.map i)) 0
    have h1 := rowDot_back hR (d (r.map i)) 1
    have h2 := rowDot_back hR (d (r.map i)) 2
    simp only [alignVectorGradient, matMul, transpose, J, hF, blk_idx, off_idx, Fin.sum_univ_three, sum3,
      rowDot] at h0 h1 h2 ⊢
    linear_combination
      (r.rot 0 a' * D 0 (idx (r.map i) 0) + r.rot 1 a' * D 1 (idx (r.map i) 0) + r.rot 2 a' * D 2 (idx (r.map i) 0)) * h0
      + (r.rot 0 a' * D 0 (idx (r.map i) 1) + r.rot 1 a' * D 1 (idx (r.map i) 1) + r.rot 2 a' * D 2 (idx (r.map i) 1)) * h1
      + (r.rot 0 a' * D 0 (idx (r.map i) 2) + r.rot 1 a' * D 1 (idx (r.map i) 2) + r.rot 2 a' * D 2 (idx (r.map i) 2)) * h2
  simp only [key]
  rw [hmap.sum_comp (fun i' => sum3 fun a => (∑ b : Fin 3, D a (idx i' b) * d i' b) * r.rot a a')]
  simp only [sum3, Finset.sum_add_distrib, Finset.sum_mul]


/-! ## The fully formal instance: polynomial pair energies

`E_{k,c}(x) = Σ_{i<j} k_ij (|x_i − x_j|² − c_ij)²` with arbitrary couplings (`Lemmas/Mill.lean`:
`energy`, `gradE`, `hessE`; the latter two are the formal derivatives, see `gradE_is_derivative`,
`hessE_is_derivative`).  The atom map acts on the couplings: `k'_{ij} = k_{map i, map j}`. -/

/-- gradient at the aligned geometry = aligned gradient -/
theorem energy_gradient_covariance {n m : Nat} (r : Recipe K n m) (hR : IsOrtho r.rot)
    (hmap : Function.Bijective r.map) (k c : Fin n → Fin n → K) (x : Geom K n) :
    gradE (permute r.map k) (permute r.map c) (alignCoords r x) = alignGradient r (gradE k c x) := by
  funext i a
  rw [gradient_is_J]
  unfold gradE J permute
  simp only [dist2_align r hR, alignCoords_sub]
  rw [hmap.sum_comp (fun j' => 4 * k (r.map i) j' * (dist2 x (r.map i) j' - c (r.map i) j')
        * rowDot (fun c' => x (r.map i) c' - x j' c') (frame r) a)]
  simp only [rowDot, sum3, Finset.sum_mul, ← Finset.sum_add_distrib]
  apply Finset.sum_congr rfl; intro j _
  ring

/-- Hessian at the aligned geometry = aligned Hessian, for every recipe including mirrored ones -/
theorem energy_hessian_covariance {n m : Nat} (r : Recipe K n m) (hR : IsOrtho r.rot)
    (hmap : Function.Bijective r.map) (k c : Fin n → Fin n → K) (x : Geom K n) :
    hessE (permute r.map k) (permute r.map c) (alignCoords r x) = alignHessian r (hessE k c x) := by
  funext s t
  rw [alignHessian_apply]
  unfold hessE
  simp only [blk_idx, off_idx, Tblk_cov r hR]
  by_cases hij : blk s = blk t
  · simp only [hij, if_true]
    have hl : ∀ l : Fin m, (l = blk t) = (r.map l = r.map (blk t)) := by
      intro l; exact propext ⟨fun h => by rw [h], fun h => hmap.1 h⟩
    simp only [hl]
    rw [hmap.sum_comp (fun l' => if l' = r.map (blk t) then 0 else
        sum3 fun c' => sum3 fun d' => frame r c' (off s) * Tblk k c x (r.map (blk t)) l' c' d' * frame r d' (off t))]
    simp only [sum3, Finset.mul_sum, Finset.sum_mul, ← Finset.sum_add_distrib]
    apply Finset.sum_congr rfl; intro l _
    split_ifs <;> ring
  · have hσ : r.map (blk s) ≠ r.map (blk t) := fun h => hij (hmap.1 h)
    simp only [hij, hσ, if_false, sum3]
    ring


/-- `gradE` is the formal derivative of `energy`: along every line `x + t d` the energy is a quartic
polynomial in `t` whose linear coefficient is `⟨gradE x, d⟩` (coefficients do not depend on `t`). -/
theorem gradE_is_derivative {n : Nat} (k c : Fin n → Fin n → K) (hk : ∀ i j, k i j = k j i)
    (hc : ∀ i j, c i j = c j i) (x d : Geom K n) :
    ∃ q2 q3 q4 : K, ∀ t : K,
      energy k c (fun i a => x i a + t * d i a)
        = energy k c x + t * (∑ i, sum3 fun a => gradE k c x i a * d i a)
          + t ^ 2 * q2 + t ^ 3 * q3 + t ^ 4 * q4 := by
  let A := fun i j => dist2 x i j - c i j
  let B := fun i j => sum3 fun a => (x i a - x j a) * (d i a - d j a)
  let C := fun i j => dist2 d i j
  refine ⟨∑ i, ∑ j, if i < j then k i j * (4 * B i j * B i j + 2 * A i j * C i j) else 0,
          ∑ i, ∑ j, if i < j then 4 * k i j * B i j * C i j else 0,
          ∑ i, ∑ j, if i < j then k i j * C i j * C i j else 0, ?_⟩
  intro t
  have hgrad : (∑ i, sum3 fun a => gradE k c x i a * d i a)
      = ∑ i, ∑ j, if i < j then 4 * k i j * A i j * B i j else 0 := by
    have h1 : (∑ i, sum3 fun a => gradE k c x i a * d i a)
        = ∑ i, ∑ j, 4 * k i j * A i j * (sum3 fun a => (x i a - x j a) * d i a) := by
      apply sum_congr rfl; intro i _
      simp only [gradE, sum3, Finset.sum_mul, ← Finset.sum_add_distrib]
      apply sum_congr rfl; intro j _; simp only [A]; ring
    rw [h1, sum_offdiag_symm _ (by intro i; simp [sum3])]
    apply sum_congr rfl; intro i _; apply sum_congr rfl; intro j _
    split_ifs
    · simp only [A, B, sum3, hk j i, hc j i, dist2_symm x j i]; ring
    · rfl
  rw [hgrad]
  unfold energy
  simp only [Finset.mul_sum, ← Finset.sum_add_distrib]
  apply sum_congr rfl; intro i _; apply sum_congr rfl; intro j _
  split_ifs
  · simp only [pairE, dist2, sum3, A, B, C]; ring
  · simp


/-- `hessE` is the formal derivative of `gradE`: along every line `x + t e` each gradient component is a
cubic polynomial in `t` whose linear coefficient is `(hessE x · e)` (no symmetry needed). -/
theorem hessE_is_derivative {n : Nat} (k c : Fin n → Fin n → K) (x e : Geom K n) :
    ∃ q2 q3 : Geom K n, ∀ (t : K) (i : Fin n) (a : Fin 3),
      gradE k c (fun i a => x i a + t * e i a) i a
        = gradE k c x i a + t * (∑ s, hessE k c x (idx i a) s * flat e s)
          + t ^ 2 * q2 i a + t ^ 3 * q3 i a := by
  let B := fun i j => sum3 fun b => (x i b - x j b) * (e i b - e j b)
  let C := fun i j => dist2 e i j
  refine ⟨fun i a => ∑ j, 4 * k i j * (2 * B i j * (e i a - e j a) + C i j * (x i a - x j a)),
          fun i a => ∑ j, 4 * k i j * C i j * (e i a - e j a), ?_⟩
  intro t i a
  rw [hessE_mulVec]
  simp only [gradE, Finset.mul_sum, ← Finset.sum_add_distrib]
  apply sum_congr rfl; intro j _
  simp only [Tblk, Fin.sum_univ_three, dist2, sum3, B, C]
  fin_cases a <;> simp <;> ring


/-- the energy itself is invariant (symmetric couplings, atom map acting on them) -/
theorem energy_invariant {n m : Nat} (r : Recipe K n m) (hR : IsOrtho r.rot)
    (hmap : Function.Bijective r.map) (k c : Fin n → Fin n → K) (hk : ∀ i j, k i j = k j i)
    (hc : ∀ i j, c i j = c j i) (x : Geom K n) :
    energy (permute r.map k) (permute r.map c) (alignCoords r x) = energy k c x := by
  have hp : ∀ i j : Fin m, pairE (permute r.map k) (permute r.map c) (alignCoords r x) i j
      = pairE k c x (r.map i) (r.map j) := by
    intro i j; simp only [pairE, permute, dist2_align r hR]
  have hsym : ∀ i j : Fin n, pairE k c x i j = pairE k c x j i := by
    intro i j; simp only [pairE, hk i j, hc i j, dist2_symm x i j]
  unfold energy
  simp only [hp]
  -- fold the target over the image order, then reindex
  have h1 : ∑ i : Fin m, ∑ j : Fin m, (if r.map i < r.map j then pairE k c x (r.map i) (r.map j) else 0)
      = ∑ i : Fin m, ∑ j : Fin m, if i < j then pairE k c x (r.map i) (r.map j) else 0 := by
    rw [sum_offdiag_symm _ (by intro i; simp)]
    apply sum_congr rfl; intro i _; apply sum_congr rfl; intro j _
    split_ifs with hij h1 h2 h2
    · exact absurd h2 (lt_asymm h1)
    · simp
    · simp [hsym (r.map j) (r.map i)]
    · exfalso
      rcases lt_trichotomy (r.map i) (r.map j) with h | h | h
      · exact h1 h
      · exact (ne_of_lt hij) (hmap.1 h)
      · exact h2 h
    · rfl
  rw [← h1]
  rw [hmap.sum_comp (fun i' => ∑ j : Fin m, if i' < r.map j then pairE k c x i' (r.map j) else 0)]
  apply sum_congr rfl; intro i' _
  rw [hmap.sum_comp (fun j' => if i' < j' then pairE k c x i' j' else 0)]


/-! ## The formal instance for attached vectors (mirror off)

`μ_w(x) = Σ_{i,j} w_ij |x_i − x_j|² (x_i − x_j)` with arbitrary weights and its explicit nuclear
derivatives `fieldD` (`Lemmas/Mill.lean`; `fieldD` is the formal derivative of `fieldMu`, see
`field_is_derivative`). -/

/-- the vector at the aligned geometry = `align_vector` of the vector; its nuclear derivatives at the
aligned geometry = `align_vector_gradient` of the derivatives -/
theorem field_covariance {n : Nat} (r : Recipe K n n) (hm : r.mirror = false) (hR : IsOrtho r.rot)
    (hmap : Function.Bijective r.map) (w : Fin n → Fin n → K) (x : Geom K n) :
    fieldMu (permute r.map w) (alignCoords r x) = alignVector r (fieldMu w x)
    ∧ fieldD (permute r.map w) (alignCoords r x) = alignVectorGradient r (fieldD w x) := by
  have hF : frame r = r.rot := by funext c a; simp [frame, msign, hm]
  constructor
  · funext a
    unfold fieldMu alignVector permute
    simp only [dist2_align r hR, alignCoords_sub, hF]
    rw [hmap.sum_comp (fun i' => ∑ j : Fin n, w i' (r.map j) * dist2 x i' (r.map j)
          * rowDot (fun c' => x i' c' - x (r.map j) c') r.rot a)]
    simp only [rowDot, sum3, Finset.sum_mul, ← Finset.sum_add_distrib]
    apply sum_congr rfl; intro i' _
    rw [hmap.sum_comp (fun j' => w i' j' * dist2 x i' j'
          * ((x i' 0 - x j' 0) * r.rot 0 a + (x i' 1 - x j' 1) * r.rot 1 a + (x i' 2 - x j' 2) * r.rot 2 a))]
    apply sum_congr rfl; intro j' _
    ring
  · funext a s
    unfold fieldD alignVectorGradient permute
    simp only [Pblk_cov r hm hR, blk_idx, off_idx, matMul, transpose]
    rw [hmap.sum_comp (fun j' => (w (r.map (blk s)) j' - w j' (r.map (blk s)))
          * sum3 fun c' => sum3 fun d' => r.rot c' a * Pblk x (r.map (blk s)) j' c' d' * r.rot d' (off s))]
    simp only [sum3, Finset.mul_sum, Finset.sum_mul, ← Finset.sum_add_distrib]
    apply sum_congr rfl; intro j' _
    ring


/-- `fieldD` is the formal derivative of `fieldMu`: along every line `x + t e` each component of the
field is a cubic polynomial in `t` whose linear coefficient is `(fieldD x · e)`. -/
theorem field_is_derivative {n : Nat} (w : Fin n → Fin n → K) (x e : Geom K n) :
    ∃ q2 q3 : Vec3 K, ∀ (t : K) (a : Fin 3),
      fieldMu w (fun i a => x i a + t * e i a) a
        = fieldMu w x a + t * (∑ s, fieldD w x a s * flat e s) + t ^ 2 * q2 a + t ^ 3 * q3 a := by
  let B := fun i j => sum3 fun b => (x i b - x j b) * (e i b - e j b)
  let C := fun i j => dist2 e i j
  refine ⟨fun a => ∑ i, ∑ j, w i j * (2 * B i j * (e i a - e j a) + C i j * (x i a - x j a)),
          fun a => ∑ i, ∑ j, w i j * C i j * (e i a - e j a), ?_⟩
  intro t a
  have hD : (∑ s, fieldD w x a s * flat e s)
      = ∑ i, ∑ j, w i j * ∑ b : Fin 3, Pblk x i j a b * (e i b - e j b) := by
    rw [sum_flat]
    simp only [fieldD, flat, blk_idx, off_idx]
    have h2 : (∑ i, ∑ j, w i j * ∑ b : Fin 3, Pblk x i j a b * e j b)
        = ∑ i, ∑ j, w j i * ∑ b : Fin 3, Pblk x i j a b * e i b := by
      rw [Finset.sum_comm]
      apply sum_congr rfl; intro i _; apply sum_congr rfl; intro j _
      simp only [Pblk_symm x j i]
    have h3 : (∑ i, ∑ j, w i j * ∑ b : Fin 3, Pblk x i j a b * (e i b - e j b))
        = (∑ i, ∑ j, w i j * ∑ b : Fin 3, Pblk x i j a b * e i b)
          - ∑ i, ∑ j, w i j * ∑ b : Fin 3, Pblk x i j a b * e j b := by
      simp only [← Finset.sum_sub_distrib, ← mul_sub]
    rw [h3, h2]
    simp only [← Finset.sum_sub_distrib]
    apply sum_congr rfl; intro i _
    simp only [Fin.sum_univ_three, Finset.sum_mul, ← Finset.sum_add_distrib]
    apply sum_congr rfl; intro j _
    ring
  rw [hD]
  simp only [fieldMu, Finset.mul_sum, ← Finset.sum_add_distrib]
  apply sum_congr rfl; intro i _; apply sum_congr rfl; intro j _
  simp only [Pblk, Fin.sum_univ_three, dist2, sum3, B, C]
  fin_cases a <;> simp <;> ring


/-! ## Non-vacuity: the hypotheses are met by a non-trivial recipe (tests, by evaluation)

rotation by 90° about `z`, shift `(1,-2,3)`, atom map the 3-cycle `0→1→2→0`, mirror on, over `ℤ`. -/

/-- (test value) -/
def exRecipe : Recipe ℤ 3 3 where
  shift := fun c => if c.val = 0 then 1 else if c.val = 1 then -2 else 3
  rot := fun a b =>
    if a.val = 0 ∧ b.val = 1 then -1 else if a.val = 1 ∧ b.val = 0 then 1
    else if a.val = 2 ∧ b.val = 2 then 1 else 0
  map := fun i => ⟨(i.val + 1) % 3, Nat.mod_lt _ (by decide)⟩
  mirror := true

example : IsOrtho exRecipe.rot := by unfold IsOrtho; decide

example : Function.Bijective exRecipe.map := by
  constructor
  · intro a b; revert a b; decide
  · intro b; revert b; decide

/-- (test) on this recipe mirror, shift, rotation and atom map all act:
atom 0 of the result is the image of atom 1 = (1,2,3): reflect → (1,-2,3), shift → (0,0,0) -/
example : ∀ a, alignCoords exRecipe
    (fun i c => if i.val = 1 then ((c.val : ℤ) + 1) else 5) 0 a = 0 := by decide

/-- (test) and atom 2 is the image of atom 0 = (5,5,5): reflect (5,-5,5), shift (4,-3,2), rotate (-3,-4,2) -/
example : alignCoords exRecipe (fun i c => if i.val = 1 then ((c.val : ℤ) + 1) else 5) 2 1 = -4 := by decide

/-! ## The pre-fix `align_hessian` (mirror flag ignored) violates the Hessian clause -/

/-- (test value) one atom, rotation by 90° about `z`, mirror on -/
def exRecipe1 : Recipe ℤ 1 1 where
  shift := fun _ => 0
  rot := exRecipe.rot
  map := fun i => i
  mirror := true

/-- `align_hessian` as it was before fix `2038e22`: the mirror flag is not consulted -/
def alignHessianOld {n m : Nat} (r : Recipe ℤ n m) (H : Hess ℤ n) : Hess ℤ m :=
  alignHessian { r with mirror := false } H

/-- (test, by evaluation) the pre-fix transformation does **not** preserve the Hessian form on a
mirrored recipe — `hessian_form_preserved` really depends on the mirror handling -/
theorem hessian_mirror_counterexample :
    ∃ (H : Hess ℤ 1) (d e : Geom ℤ 1),
      bilin (alignHessianOld exRecipe1 H) (flat (J exRecipe1 d)) (flat (J exRecipe1 e)) ≠ bilin H (flat d) (flat e) := by
  refine ⟨fun s t => if s.val = 0 ∧ t.val = 1 then 1 else 0, fun _ c => if c.val = 0 then 1 else 0,
    fun _ c => if c.val = 1 then 1 else 0, ?_⟩
  decide


end QcelVerif.Mill
