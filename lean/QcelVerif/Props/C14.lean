import QcelVerif.Lemmas.AssignCert
import QcelVerif.Lemmas.MunkresInv
/-!
# C14 — the assignment solver returns a minimum-cost matching and a valid reduced matrix

Models: `Model/AssignCert.lean` (`certOK`, `certGap`: the optimality certificate that
`linear_sum_assignment(cost, return_cost=True)`'s answer `(pairs, reduced)` constitutes) and
`Model/Munkres.lean` (`solve`: the solver itself, steps 1-6).

All theorems hold for every shape `n × m` (square, wide, tall, empty) and every rational cost
matrix — no size bound.  Sums are `List` sums over the returned pairs; "every complete
assignment" is every list of `min n m` in-range pairs without a repeated row or column
(`IsAssign`, `Lemmas/AssignCert.lean`).

PROPERTY-THEOREMS (audited):
  cert_optimal  optimal_on_zeros  certOK_shape  certGap_sound
  solve_refuses_bad  solve_reduced_rowcol  solveChecked_optimal_partial
-/
namespace QcelVerif.Assign

/-! ### wide orientation -/

theorem wideOK_unpack {n m : Nat} {c red : Nat → Nat → Rat} {σ : Pairs} (h : wideOK n m c red σ = true) :
    IsAssign n m σ
    ∧ (∀ i < n, ∀ j < m, resid c red i j = red i j)
    ∧ (∀ i < n, ∀ j < m, 0 ≤ red i j)
    ∧ (∀ p ∈ σ, red p.1 p.2 = 0)
    ∧ (∀ p ∈ σ, ∀ k < m, k ∉ σ.map Prod.snd → vPot c red p.2 ≤ vPot c red k) := by
  simp only [wideOK, Bool.and_eq_true] at h
  obtain ⟨⟨⟨⟨h1, h2⟩, h3⟩, h4⟩, h5⟩ := h
  refine ⟨isAssign_iff.1 h1, ?_, ?_, ?_, ?_⟩
  · intro i hi j hj
    simpa using allIdx_iff.1 h2 i hi j hj
  · intro i hi j hj
    simpa using allIdx_iff.1 h3 i hi j hj
  · intro p hp
    simpa using (List.all_eq_true.1 h4) p hp
  · intro p hp k hk hkn
    have := (List.all_eq_true.1 h5) k (List.mem_range.2 hk)
    rw [Bool.or_eq_true] at this
    rcases this with hc | ha
    · exact absurd (by simpa using hc) hkn
    · simpa using (List.all_eq_true.1 ha) p hp

theorem wide_resid_zero {n m : Nat} {c red : Nat → Nat → Rat} {σ : Pairs} (h : wideOK n m c red σ = true) :
    total (resid c red) σ = 0 := by
  obtain ⟨hσ, hres, _, hz, _⟩ := wideOK_unpack h
  have : total (resid c red) σ = total (fun _ _ => 0) σ :=
    total_congr (fun p hp => by rw [hres p.1 (hσ.inb p hp).1 p.2 (hσ.inb p hp).2, hz p hp])
  rw [this]
  simp [total]

theorem wideOK_optimal {n m : Nat} (hnm : n ≤ m) {c red : Nat → Nat → Rat} {σ τ : Pairs}
    (h : wideOK n m c red σ = true) (hτ : IsAssign n m τ) : total c σ ≤ total c τ := by
  obtain ⟨hσ, hres, hnn, _, hv⟩ := wideOK_unpack h
  have := weak_duality_wide hnm c (uPot c red) (vPot c red) 0 0 (le_refl 0) hσ hτ
    (fun i hi j hj => by
      have := hres i hi j hj
      have h0 := hnn i hi j hj
      unfold resid at this
      linarith)
    (fun p hp k hk hkn => by have := hv p hp k hk hkn; linarith)
  have hz : total (fun i j => c i j - uPot c red i - vPot c red j) σ = 0 := wide_resid_zero h
  rw [hz] at this
  linarith

theorem wideOK_on_zeros {n m : Nat} (hnm : n ≤ m) {c red : Nat → Nat → Rat} {σ τ : Pairs}
    (h : wideOK n m c red σ = true) (hτ : IsAssign n m τ) (hopt : total c τ ≤ total c σ) :
    ∀ p ∈ τ, red p.1 p.2 = 0 := by
  obtain ⟨hσ, hres, hnn, _, hv⟩ := wideOK_unpack h
  -- Σ_τ c = Σu + Σ_τ v + Σ_τ resid ;  Σ_σ c = Σu + Σ_σ v + 0 ;  Σ_σ v ≤ Σ_τ v
  have e1 := total_split c (uPot c red) (vPot c red) σ
  have e2 := total_split c (uPot c red) (vPot c red) τ
  have r1 := rows_sum_eq hnm (uPot c red) hσ
  have r2 := rows_sum_eq hnm (uPot c red) hτ
  have lσ : σ.length = n := by rw [hσ.len, Nat.min_eq_left hnm]
  have lτ : τ.length = n := by rw [hτ.len, Nat.min_eq_left hnm]
  have hc := cols_sum_le (vPot c red) 0 (le_refl 0) hσ.cols hτ.cols (by simp [lσ, lτ])
    (fun j hj k hk hkn => by
      obtain ⟨p, hp, rfl⟩ := List.mem_map.1 hj
      obtain ⟨q, hq, rfl⟩ := List.mem_map.1 hk
      have := hv p hp q.2 (hτ.inb q hq).2 hkn
      linarith)
  have hz : total (fun i j => c i j - uPot c red i - vPot c red j) σ = 0 := wide_resid_zero h
  have hτred : total (fun i j => c i j - uPot c red i - vPot c red j) τ = total red τ :=
    total_congr (fun p hp => hres p.1 (hτ.inb p hp).1 p.2 (hτ.inb p hp).2)
  have hle : total red τ ≤ 0 := by
    simp only [mul_zero, add_zero] at hc
    linarith
  exact total_zero_of_nonneg red τ (fun p hp => hnn p.1 (hτ.inb p hp).1 p.2 (hτ.inb p hp).2) hle

theorem wideGap_sound {n m : Nat} (hnm : n ≤ m) (c red : Nat → Nat → Rat) {σ τ : Pairs}
    (hσ : IsAssign n m σ) (hτ : IsAssign n m τ) : total c σ ≤ total c τ + wideGap n m c red σ := by
  have := weak_duality_wide hnm c (uPot c red) (vPot c red) (epsOf n m c red) (deltaOf m c red σ)
    (maxL_nonneg _) hσ hτ (epsOf_spec n m c red) (deltaOf_spec m c red σ)
  unfold wideGap
  have e : total (fun i j => c i j - uPot c red i - vPot c red j) σ = total (resid c red) σ := rfl
  rw [e] at this
  linarith

/-! ### the property theorems about the certificate (any shape) -/

/-- **Optimality.**  If `(σ, red)` passes the certificate check for the `n × m` cost matrix `c`,
then `σ` costs no more than ANY complete assignment `τ` — the minimum over all of them. -/
theorem cert_optimal {n m : Nat} {c red : Nat → Nat → Rat} {σ τ : Pairs}
    (h : certOK n m c red σ = true) (hτ : IsAssign n m τ) : total c σ ≤ total c τ := by
  simp only [certOK, Bool.and_eq_true] at h
  by_cases hnm : n ≤ m
  · rw [if_pos hnm] at h
    exact wideOK_optimal hnm h.2 hτ
  · rw [if_neg hnm] at h
    have := wideOK_optimal (Nat.le_of_lt (Nat.lt_of_not_le hnm)) h.2 hτ.swap
    rwa [total_tr_swap, total_tr_swap] at this

/-- **Every optimal assignment lies on the zeros of the reduced matrix** (what
`align.py:386-387` relies on when it seeds the enumeration of atom mappings from the zero
edges): a complete assignment that costs no more than the certified one has `red = 0` on
every one of its pairs. -/
theorem optimal_on_zeros {n m : Nat} {c red : Nat → Nat → Rat} {σ τ : Pairs}
    (h : certOK n m c red σ = true) (hτ : IsAssign n m τ) (hopt : total c τ ≤ total c σ) :
    ∀ p ∈ τ, red p.1 p.2 = 0 := by
  simp only [certOK, Bool.and_eq_true] at h
  by_cases hnm : n ≤ m
  · rw [if_pos hnm] at h
    exact wideOK_on_zeros hnm h.2 hτ hopt
  · rw [if_neg hnm] at h
    have := wideOK_on_zeros (Nat.le_of_lt (Nat.lt_of_not_le hnm)) h.2 hτ.swap
      (by rwa [total_tr_swap, total_tr_swap])
    intro p hp
    have := this (swap p) (List.mem_map_of_mem hp)
    simpa [swap, tr] using this

/-- **What a passed certificate says about the answer's shape**: `min n m` in-range pairs, no
row or column repeated, rows strictly increasing, reduced matrix non-negative, zero on the chosen
pairs, and equal to the cost minus a constant per row and a constant per column. -/
theorem certOK_shape {n m : Nat} {c red : Nat → Nat → Rat} {σ : Pairs}
    (h : certOK n m c red σ = true) :
    IsAssign n m σ
    ∧ (σ.map Prod.fst).Pairwise (· < ·)
    ∧ (∀ i < n, ∀ j < m, 0 ≤ red i j)
    ∧ (∀ p ∈ σ, red p.1 p.2 = 0)
    ∧ ∃ u v : Nat → Rat, ∀ i < n, ∀ j < m, red i j = c i j - u i - v j := by
  simp only [certOK, Bool.and_eq_true] at h
  obtain ⟨hinc, h⟩ := h
  by_cases hnm : n ≤ m
  · rw [if_pos hnm] at h
    obtain ⟨hσ, hres, hnn, hz, _⟩ := wideOK_unpack h
    exact ⟨hσ, incB_pairwise _ hinc, hnn, hz, uPot c red, vPot c red,
      fun i hi j hj => (hres i hi j hj).symm⟩
  · rw [if_neg hnm] at h
    obtain ⟨hσ, hres, hnn, hz, _⟩ := wideOK_unpack h
    have hσ' : IsAssign n m σ := by
      have := hσ.swap
      simpa [List.map_map, Function.comp_def, swap] using this
    refine ⟨hσ', incB_pairwise _ hinc, fun i hi j hj => hnn j hj i hi, ?_, ?_⟩
    · intro p hp
      have := hz (swap p) (List.mem_map_of_mem hp)
      simpa [swap, tr] using this
    · refine ⟨vPot (tr c) (tr red), uPot (tr c) (tr red), fun i hi j hj => ?_⟩
      have := hres j hj i hi
      unfold resid at this
      simp only [tr] at this ⊢
      linarith

/-- **Measured-slack version** (used on float answers, where `reduced = cost − u − v` holds
only up to rounding): whatever `(σ, red)` is, if `certGap` returns `g` then `σ` is a complete
assignment within `g` of every complete assignment.  `g` is computed in exact arithmetic. -/
theorem certGap_sound {n m : Nat} {c red : Nat → Nat → Rat} {σ τ : Pairs} {g : Rat}
    (h : certGap n m c red σ = some g) (hτ : IsAssign n m τ) :
    IsAssign n m σ ∧ total c σ ≤ total c τ + g := by
  unfold certGap at h
  split at h
  · rename_i ha
    have hσ := isAssign_iff.1 ha
    refine ⟨hσ, ?_⟩
    simp only [Option.some.injEq] at h
    subst h
    by_cases hnm : n ≤ m
    · rw [if_pos hnm]
      exact wideGap_sound hnm c red hσ hτ
    · rw [if_neg hnm]
      have := wideGap_sound (Nat.le_of_lt (Nat.lt_of_not_le hnm)) (tr c) (tr red) hσ.swap hτ.swap
      rwa [total_tr_swap, total_tr_swap] at this
  · simp at h

/-! #### non-vacuity (tests, by kernel evaluation)

The rectangular case of `tests/test_scipy_hungarian.py`: cost `[[10,10,8,11],[9,8,1,1],[9,7,4,10]]`,
answer rows `[0,1,2]`, columns `[0,3,2]`, reduced `[[0,0,0,3],[6,5,0,0],[3,1,0,6]]`. -/

def exCost : Nat → Nat → Rat := fun i j =>
  (([[10, 10, 8, 11], [9, 8, 1, 1], [9, 7, 4, 10]] : List (List Rat)).getD i []).getD j 0
def exRed : Nat → Nat → Rat := fun i j =>
  (([[0, 0, 0, 3], [6, 5, 0, 0], [3, 1, 0, 6]] : List (List Rat)).getD i []).getD j 0

/-- TEST: the hypotheses of `cert_optimal` / `optimal_on_zeros` / `certOK_shape` are satisfiable
(wide case, with an unmatched column) -/
example : certOK 3 4 exCost exRed [(0, 0), (1, 3), (2, 2)] = true := by decide +kernel
/-- TEST: … and in the tall orientation (the transposed problem) -/
example : certOK 4 3 (tr exCost) (tr exRed) [(0, 0), (2, 2), (3, 1)] = true := by decide +kernel
/-- TEST: a second optimal assignment exists, so `optimal_on_zeros` is not vacuous:
rows→columns (1,3,2) also costs 15 and is a complete assignment -/
example : isAssign 3 4 [(0, 1), (1, 3), (2, 2)] = true
    ∧ total exCost [(0, 1), (1, 3), (2, 2)] = total exCost [(0, 0), (1, 3), (2, 2)] := by decide +kernel
/-- TEST: the checker rejects a non-optimal answer with an otherwise plausible reduced matrix -/
example : certOK 3 4 exCost exRed [(0, 3), (1, 2), (2, 1)] = false := by decide +kernel
/-- TEST: the checker rejects the right pairs with a reduced matrix that is not `cost − u − v` -/
example : certOK 3 4 exCost (fun i j => if i = 0 ∧ j = 1 then 1 else exRed i j) [(0, 0), (1, 3), (2, 2)] = false := by
  decide +kernel
/-- TEST: `certGap` of an exact certificate is 0 -/
example : certGap 3 4 exCost exRed [(0, 0), (1, 3), (2, 2)] = some 0 := by decide +kernel

end QcelVerif.Assign

namespace QcelVerif.Munkres
open QcelVerif.Assign

/-- **Refusal.**  A matrix that is not 2-d, has a non-numeric dtype, or contains an `inf`/`nan`
entry is never answered: `solve` returns the corresponding `ValueError` class. -/
theorem solve_refuses_bad (inp : Input)
    (h : inp.ndim ≠ 2 ∨ inp.dt = .other ∨ ∃ r ∈ inp.ent.toList, ∃ e ∈ r.toList, e.isFinite = false) :
    ∃ e, solve inp = .error e ∧ (e = .ndim ∨ e = .dtype ∨ e = .nonfinite) := by
  unfold solve
  by_cases h1 : inp.ndim = 2
  · by_cases h2 : inp.dt = .other
    · exact ⟨.dtype, by simp [h1, h2], by simp⟩
    · have h3 : inp.allFinite = false := by
        rcases h with h | h | ⟨r, hr, e, he, hf⟩
        · exact absurd h1 h
        · exact absurd h h2
        · unfold Input.allFinite
          rw [Bool.eq_false_iff]
          intro hall
          have := List.all_eq_true.1 (List.all_eq_true.1 hall r hr) e he
          rw [hf] at this
          exact Bool.false_ne_true this
      refine ⟨.nonfinite, ?_, by simp⟩
      simp [h1, h2, h3]
  · exact ⟨.ndim, by simp [h1], by simp⟩

/-- TEST (non-vacuity of the three refusal branches) -/
def errOf (r : Except Err Output) : Option Err := match r with | .error e => some e | .ok _ => none
example : errOf (solve { ndim := 2, n := 1, m := 2, dt := .float, ent := #[#[.fin 1, .posInf]] }) = some .nonfinite := by
  decide +kernel
example : errOf (solve { ndim := 1, n := 0, m := 0, dt := .float, ent := #[] }) = some .ndim := by decide +kernel
example : errOf (solve { ndim := 2, n := 1, m := 1, dt := .other, ent := #[] }) = some .dtype := by decide +kernel

/-- the input really is an `n × m` array (the driver only builds such inputs) -/
def Input.WellShaped (inp : Input) : Prop :=
  inp.ent.size = inp.n ∧ ∀ i, i < inp.n → (inp.ent.getD i #[]).size = inp.m

theorem get2_cost (inp : Input) (i j : Nat) :
    get2 (inp.ent.map fun r => r.map Entry.val) i j = inp.costFn i j := by
  unfold Input.costFn get2
  by_cases hi : i < inp.ent.size
  · by_cases hj : j < inp.ent[i].size
    · simp [Array.getD, hi, hj]
    · simp [Array.getD, hi, hj]; rfl
  · simp [Array.getD, hi]; rfl

/-- **The reduced matrix differs from the input only by a constant per row and a constant per
column** — proved for the Munkres model itself (not through the certificate), for every matrix of
every shape and whatever the fuel: whenever `solve` answers, there are `u, v` with
`reduced i j = cost i j − u i − v j` on all `n × m` entries (steps 1 and 6 only shift whole rows
and columns, steps 3-5 never write to `C`, and the transposition of tall inputs is undone). -/
theorem solve_reduced_rowcol (inp : Input) (o : Output) (hw : inp.WellShaped) (h : solve inp = .ok o) :
    ∃ u v : Nat → Rat, ∀ i < inp.n, ∀ j < inp.m, matFn o.red i j = inp.costFn i j - u i - v j := by
  unfold solve at h
  split at h
  · simp at h
  split at h
  · simp at h
  split at h
  · simp at h
  simp only at h
  have hsz : (inp.ent.map fun r => r.map Entry.val).size = inp.n := by simpa using hw.1
  have hrow : ∀ i, i < inp.n → ((inp.ent.map fun r => r.map Entry.val).getD i #[]).size = inp.m := by
    intro i hi
    have := hw.2 i hi
    have hi' : i < inp.ent.size := by rw [hw.1]; exact hi
    simp [Array.getD, hi'] at this ⊢
    exact this
  split at h
  · -- tall: Munkres ran on the transpose
    split at h
    · simp at h
    · rename_i s tr hs
      simp only [Except.ok.injEq] at h
      subst h
      obtain ⟨p1, p2, u, v, huv⟩ := solveWide_pot _ _ _ _ _ hs
      refine ⟨v, u, fun i hi j hj => ?_⟩
      have e1 : s.C.size = inp.m := by rw [p1, transpose_size]
      have e2 : (s.C.getD j #[]).size = inp.n := by rw [p2 j, transpose_row_size _ _ _ j hj]
      have := huv j i (by rw [e1]; exact hj) (by rw [e2]; exact hi)
      simp only [matFn]
      rw [get2_transpose inp.m inp.n s.C j i hj hi, this, get2_transpose inp.n inp.m _ i j hi hj, get2_cost]
      ring
  · split at h
    · simp at h
    · rename_i s tr hs
      simp only [Except.ok.injEq] at h
      subst h
      obtain ⟨p1, p2, u, v, huv⟩ := solveWide_pot _ _ _ _ _ hs
      refine ⟨u, v, fun i hi j hj => ?_⟩
      have e1 : s.C.size = inp.n := by rw [p1, hsz]
      have e2 : (s.C.getD i #[]).size = inp.m := by rw [p2 i, hrow i hi]
      have := huv i j (by rw [e1]; exact hi) (by rw [e2]; exact hj)
      simp only [matFn]
      rw [this, get2_cost]

/-- **The certifying solver is correct (PARTIAL w.r.t. the plain solver).**  Whenever the Munkres
model's answer passes the certificate check, the answer is a complete assignment with rows
increasing whose total cost is the minimum over all complete assignments, and every optimal
complete assignment lies on the zeros of the returned reduced matrix.

-- FULL: `∀ inp` valid (2-d, numeric, finite), `∃ o, solve inp = .ok o ∧ certOK inp.n inp.m inp.costFn (matFn o.red) o.pairs`,
-- i.e. `solveChecked` never answers `notCertified`/`fuel`.  Missing: termination of the Munkres
-- loop within the fuel and the step invariants C ≥ 0, stars independent and on zeros,
-- never-starred columns always uncovered (the invariant C = cost − u − v IS proved:
-- `solve_reduced_rowcol`).  The driver evaluates `certOK` on every model
-- answer; the harness counts failures (`model_answers_not_certified`, expected 0) over the exhaustive
-- small scopes and the sampled stream.
-- UPDATE: the FULL statement is now proved — step invariants and certification of every answer in
-- `Props/C14Inv.lean` (`solve_certified`, `solve_optimal`, `solveChecked_eq_solve`), termination in
-- `Props/C14Term.lean` (`solve_total`, `solve_correct`).  This theorem is kept as stated. -/
theorem solveChecked_optimal_partial (inp : Input) (o : Output) (h : solveChecked inp = .ok o) :
    IsAssign inp.n inp.m o.pairs
    ∧ (o.pairs.map Prod.fst).Pairwise (· < ·)
    ∧ (∀ τ, IsAssign inp.n inp.m τ → total inp.costFn o.pairs ≤ total inp.costFn τ)
    ∧ (∀ τ, IsAssign inp.n inp.m τ → total inp.costFn τ ≤ total inp.costFn o.pairs →
        ∀ p ∈ τ, matFn o.red p.1 p.2 = 0) := by
  unfold solveChecked at h
  split at h
  · simp at h
  · rename_i o' _
    split at h
    · rename_i hc
      simp only [Except.ok.injEq] at h
      subst h
      have hs := certOK_shape hc
      exact ⟨hs.1, hs.2.1, fun τ hτ => cert_optimal hc hτ, fun τ hτ hopt => optimal_on_zeros hc hτ hopt⟩
    · simp at h

/-- the 3×3 example of the docstring (scipy_hungarian.py:70-76), as model input -/
def exInput : Input :=
  { ndim := 2, n := 3, m := 3, dt := .int
    ent := #[#[.fin 4, .fin 1, .fin 3], #[.fin 2, .fin 0, .fin 5], #[.fin 3, .fin 2, .fin 2]] }

/-- TEST (non-vacuity of `solveChecked_optimal_partial`): on the docstring example the model runs
steps 1,3,4,6,4,6,4,5,3 and its answer `col_ind = [1,0,2]` is certified. -/
example : (match solveChecked exInput with
    | .ok o => o.pairs == [(0, 1), (1, 0), (2, 2)] && o.trace.size == 9
    | .error _ => false) = true := by decide +kernel

/-- TEST (non-vacuity of `solve_reduced_rowcol`): the example is well shaped and answered -/
example : exInput.WellShaped := by unfold Input.WellShaped; decide
/-- a tall (4 × 3) input: the transpose of the rectangular case of tests/test_scipy_hungarian.py -/
def exTall : Input :=
  { ndim := 2, n := 4, m := 3, dt := .int
    ent := #[#[.fin 10, .fin 9, .fin 9], #[.fin 10, .fin 8, .fin 7], #[.fin 8, .fin 1, .fin 4], #[.fin 11, .fin 1, .fin 10]] }
example : exTall.WellShaped := by unfold Input.WellShaped; decide
/-- TEST: the tall input is answered through the transposed run, rows increasing, and certified -/
example : (match solveChecked exTall with
    | .ok o => o.pairs == [(0, 0), (2, 2), (3, 1)]
    | .error _ => false) = true := by decide +kernel

end QcelVerif.Munkres
