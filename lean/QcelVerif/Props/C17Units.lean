import QcelVerif.Model.Radii
import QcelVerif.Lemmas.Radii
import QcelVerif.Lemmas.RadiiF64
/-!
# C17 — the unit clauses for ANY radius table (uses the general facts about the rounding model)

Manifest: native_unit_exact_any, unit_value_accuracy, units_linear_pow2
-/
namespace QcelVerif.Radii
open QcelVerif QcelVerif.PStr QcelVerif.PT

/-- **The native unit returns the tabulated number exactly** (any table, any decimal): when the
factor is 1 the answer is `float(Decimal)` itself, because a double times `1.0` is that double. -/
theorem native_unit_exact_any (t : Table) (conv : Bytes → Option Rat) (k : Nat) (m : Option Rat)
    (d : Datum) (n : Bool) (c : Nat) (e : Int)
    (hd : lookupK t k = some d) (hdec : d.data = .dec n c e) (hf : conv d.units = some 1) :
    getByKey t conv k false m = .ok (.value (ofDec n c e)) := by
  have h : getByKey t conv k false m = .ok (.value (fmul 1 (ofDec n c e))) := by
    simp [getByKey, hd, Datum.toUnits, hf, hdec, Payload.scale]
  rw [h]
  unfold ofDec
  rw [fmul_one_rnd64]

/-- **The converted value is the factor times the tabulated decimal** up to the two roundings the
code performs (`float(Decimal)` and one multiplication): relative error at most `2u + u²`,
`u = 2^-53`, for every factor and every decimal. -/
theorem unit_value_accuracy (f : Rat) (n : Bool) (c : Nat) (e : Int) :
    |fmul f (ofDec n c e) - f * decVal n c e|
      ≤ (2 * (2 : Rat) ^ (-53 : Int) + ((2 : Rat) ^ (-53 : Int)) ^ 2) * |f * decVal n c e| := by
  unfold fmul ofDec
  generalize decVal n c e = v
  generalize hu : (2 : Rat) ^ (-53 : Int) = u
  have upos : 0 ≤ u := by rw [← hu]; exact (two_zpow_pos _).le
  have h1 : |rnd64 v - v| ≤ u * |v| := by rw [← hu]; exact rnd64_err v
  have h2 : |rnd64 (f * rnd64 v) - f * rnd64 v| ≤ u * |f * rnd64 v| := by rw [← hu]; exact rnd64_err _
  have hx : |rnd64 v| ≤ |v| + |rnd64 v - v| := by
    have := abs_add_le v (rnd64 v - v)
    have e : v + (rnd64 v - v) = rnd64 v := by ring
    rwa [e] at this
  have fn := abs_nonneg f
  have vn := abs_nonneg v
  have e1 : rnd64 (f * rnd64 v) - f * v = (rnd64 (f * rnd64 v) - f * rnd64 v) + f * (rnd64 v - v) := by ring
  rw [e1]
  refine (abs_add_le _ _).trans ?_
  rw [abs_mul f (rnd64 v - v), abs_mul f v]
  rw [abs_mul] at h2
  have hx2 : |rnd64 v| ≤ (1 + u) * |v| := by linarith
  have hA : u * (|f| * |rnd64 v|) ≤ u * (|f| * ((1 + u) * |v|)) :=
    mul_le_mul_of_nonneg_left (mul_le_mul_of_nonneg_left hx2 fn) upos
  have hB : |f| * |rnd64 v - v| ≤ |f| * (u * |v|) := mul_le_mul_of_nonneg_left h1 fn
  calc |rnd64 (f * rnd64 v) - f * rnd64 v| + |f| * |rnd64 v - v|
      ≤ u * (|f| * ((1 + u) * |v|)) + |f| * (u * |v|) := add_le_add (h2.trans hA) hB
    _ = (2 * u + u ^ 2) * (|f| * |v|) := by ring

/-- **Linearity in the unit factor, exactly, for binary scalings**: scaling the factor by `2^k`
scales the result by exactly `2^k` (no additional rounding), for every entry. -/
theorem units_linear_pow2 (f x : Rat) (k : Int) : fmul ((2 : Rat) ^ k * f) x = (2 : Rat) ^ k * fmul f x := by
  unfold fmul
  rw [mul_assoc, rnd64_pow2_scale]

end QcelVerif.Radii
