import QcelVerif.Props.C01NucPred
/-! C01: quarter 3 of the nuclide table (kernel evaluation), built in parallel with the other quarters. -/
namespace QcelVerif.PT
open QcelVerif
set_option maxRecDepth 100000
theorem nuclides_resolve_q3 : Gen.PT.nuclidesQ3.all nuclideRowOk = true := by decide +kernel
theorem nuclides_anycase_q3 : Gen.PT.nuclidesQ3.all nuclideRowAnycaseOk = true := by decide +kernel
theorem tree_rows_q3 : Gen.PT.nuclidesQ3.all treeRowOk = true := by decide +kernel
theorem masses_float_q3 : Gen.PT.nuclidesQ3.all massFloatOk = true := by decide +kernel
end QcelVerif.PT
