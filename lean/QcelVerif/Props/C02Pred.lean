import QcelVerif.Model.ConstantsShipped
/-!
C02: named Bool predicates for the table-wide theorems about the two contexts (kernel evaluation
needs named recursions rather than inline lambdas), and the general (non-table) theorems.
-/
namespace QcelVerif.Constants
open QcelVerif QcelVerif.PStr QcelVerif.Codata

def withPC (o : Option PC) (p : PC → Bool) : Bool := match o with | some pc => p pc | none => false
def withCtx (o : Option Ctx) (p : Ctx → Bool) : Bool := match o with | some c => p c | none => false

def allRows (p : ShippedRow → Bool) : List ShippedRow → Bool
  | [] => true
  | r :: t => match p r with | true => allRows p t | false => false
def allEntries (p : Nat × Datum → Bool) : PC → Bool
  | [] => true
  | e :: t => match p e with | true => allEntries p t | false => false
def allAliases (p : AliasDef → Bool) : List AliasDef → Bool
  | [] => true
  | a :: t => match p a with | true => allAliases p t | false => false
def allPairs (p : Bytes × Bytes → Bool) : List (Bytes × Bytes) → Bool
  | [] => true
  | a :: t => match p a with | true => allPairs p t | false => false

def decBeq (a b : Dec) : Bool := (a.neg == b.neg) && Nat.beq a.coeff b.coeff && decide (a.exp = b.exp)

/-- `get` by the NIST name (lower-cased) returns the Datum of this shipped row: label = the NIST
name, units, Decimal(value) digit for digit, comment `uncertainty=<u>`, the set's doi -/
def rowEntryOk (pc : PC) (doi : Nat) (r : ShippedRow) : Bool :=
  match r with
  | (_, quantity, unit, value, unc) =>
    match Dec.parse (unpack value), pcFind pc (pack (lower (unpack quantity))) with
    | some d, some e =>
      Nat.beq e.label quantity && Nat.beq e.units unit && decBeq e.data d &&
      Nat.beq e.comment (pack (uncPrefix ++ unpack unc)) && (e.doi == some doi)
    | _, _ => false

def hasKey (k : Nat) : List ShippedRow → Bool
  | [] => false
  | r :: t => match Nat.beq r.1 k with | true => true | false => hasKey k t

/-- the stored alias is the specification's expression evaluated (in decimal arithmetic, on the final
table) digit for digit, with the documented label / units / comment and no doi -/
def aliasOk (tbl : List AliasDef) (pc : PC) (a : AliasDef) : Bool :=
  match a.expr.evalDec pc tbl evalFuel, pcFind pc (pack (lower a.name)) with
  | some v, some e =>
    decBeq e.data v && Nat.beq e.label (pack a.name) && Nat.beq e.units (pack a.units) &&
    Nat.beq e.comment (pack a.comment) && e.doi.isNone
  | _, _ => false

def ratAbs (x : Rat) : Rat := if x < 0 then -x else x

/-- `|x − q| ≤ 2·10⁻²⁷·|q|` -/
def ratClose (x q : Rat) : Bool := decide (ratAbs (x - q) * ((10 ^ 27 : Nat) : Rat) ≤ 2 * ratAbs q)

/-- the stored alias is within 2·10⁻²⁷ (relative) of the exact rational value of its formula -/
def aliasClose (tbl : List AliasDef) (pc : PC) (a : AliasDef) : Bool :=
  match a.expr.evalQ pc tbl evalFuel, pcFind pc (pack (lower a.name)) with
  | some q, some e => ratClose e.data.val q
  | _, _ => false

/-- the stored alias IS the exact rational value of its formula (no rounding happened) -/
def aliasExact (tbl : List AliasDef) (pc : PC) (a : AliasDef) : Bool :=
  match a.expr.evalQ pc tbl evalFuel, pcFind pc (pack (lower a.name)) with
  | some q, some e => e.data.val == q
  | _, _ => false

/-- the three aliases whose definition involves a genuine division -/
def inexactNames : List Bytes := [b!"dipmom_au2debye", b!"hartree2kcalmol", b!"kcalmol2wavenumbers"]

def exactAliases : List AliasDef := aliasSpec.filter (fun a => !inexactNames.contains a.name)

/-- exact value of alias `n`'s formula -/
def aq (pc : PC) (n : Bytes) : Option Rat := (Expr.alias n).evalQ pc aliasSpec evalFuel
/-- exact value of the constant of NIST name `n` -/
def cq (pc : PC) (n : Bytes) : Option Rat := (Expr.pc n).evalQ pc aliasSpec evalFuel

def eqQ (a b : Option Rat) : Bool := match a, b with | some x, some y => x == y | _, _ => false
def mulQ (a b : Option Rat) : Option Rat := match a, b with | some x, some y => some (x * y) | _, _ => none
def natQ (n : Nat) : Option Rat := some (n : Rat)

/-- cross-relations the documentation block states between aliases, exactly in ℚ -/
def crossOk (pc : PC) : Bool :=
  eqQ (mulQ (aq pc b!"hartree2kcalmol") (aq pc b!"cal2J")) (aq pc b!"hartree2kJmol") &&
  eqQ (mulQ (aq pc b!"dipmom_au2debye") (aq pc b!"dipmom_debye2si")) (aq pc b!"dipmom_au2si") &&
  eqQ (mulQ (aq pc b!"kcalmol2wavenumbers") (cq pc b!"molar Planck constant times c")) (mulQ (natQ 10) (aq pc b!"cal2J")) &&
  eqQ (aq pc b!"bohr2angstroms") (mulQ (natQ (10 ^ 10)) (aq pc b!"bohr2m")) &&
  eqQ (aq pc b!"bohr2cm") (mulQ (natQ 100) (aq pc b!"bohr2m")) &&
  eqQ (aq pc b!"amu2g") (mulQ (natQ 1000) (aq pc b!"amu2kg")) &&
  eqQ (aq pc b!"hartree2aJ") (mulQ (natQ (10 ^ 18)) (aq pc b!"hartree2J")) &&
  eqQ (mulQ (natQ 100) (aq pc b!"hartree2wavenumbers")) (cq pc b!"hartree-inverse meter relationship") &&
  eqQ (mulQ (natQ (10 ^ 6)) (aq pc b!"hartree2MHz")) (cq pc b!"hartree-hertz relationship") &&
  eqQ (mulQ (natQ 1000) (aq pc b!"hartree2kJmol")) (mulQ (cq pc b!"Hartree energy") (cq pc b!"Avogadro constant")) &&
  eqQ (aq pc b!"cal2J") (cq pc b!"calorie-joule relationship") &&
  eqQ (aq pc b!"cal2J") (some ((4184 : Rat) / 1000))

def aliasChecks (pc : PC) : Bool :=
  allAliases (aliasOk aliasSpec pc) aliasSpec && allAliases (aliasClose aliasSpec pc) aliasSpec &&
  allAliases (aliasExact aliasSpec pc) exactAliases && crossOk pc

/-- a renamed constant: the 2014 name is retrievable, labelled with the old name, and carries the
data / units / comment / doi of the 2018 entry; the new name is a published 2018 row and the old
name a published 2014 row -/
def renameOk (pc : PC) (k14 k18 : List ShippedRow) (p : Bytes × Bytes) : Bool :=
  match pcFind pc (pack (lower p.2)), pcFind pc (pack (lower p.1)) with
  | some o, some n =>
    Nat.beq o.label (pack p.2) && decBeq o.data n.data && Nat.beq o.units n.units &&
    Nat.beq o.comment n.comment && (o.doi == n.doi) &&
    hasKey (pack (lower p.1)) k18 && hasKey (pack (lower p.2)) k14 && !hasKey (pack (lower p.2)) k18
  | _, _ => false

def derivedChecks (pc : PC) : Bool :=
  allAliases (aliasOk [] pc) derived2018 && allAliases (aliasClose [] pc) derived2018 &&
  allAliases (aliasExact [] pc) (derived2018.take 1)

/-! ### floats -/

/-- exact value of the finite non-negative double with bit pattern `bits < 2^63` -/
def f64Val (bits : Nat) : Rat :=
  let e := bits / 2 ^ 52
  let m := bits % 2 ^ 52
  if e == 0 then ((m : Nat) : Rat) / ((2 ^ 1074 : Nat) : Rat)
  else if e ≥ 1075 then (((2 ^ 52 + m) * 2 ^ (e - 1075) : Nat) : Rat)
  else ((2 ^ 52 + m : Nat) : Rat) / ((2 ^ (1075 - e) : Nat) : Rat)

/-- `bits` is the double nearest to `d` (independent statement, not the algorithm of `Dec.toF64`):
right sign, finite, and neither neighbouring double is closer; on a tie the mantissa is even.
(Doubles are ordered like their bit patterns, so "no neighbour is closer" is "no double is closer".) -/
def nearestOk (d : Dec) (bits : Nat) : Bool :=
  let mb := bits % 2 ^ 63
  let v := ratAbs d.val
  let x := f64Val mb
  let dl := ratAbs (v - f64Val (mb - 1))
  let dh := ratAbs (f64Val (mb + 1) - v)
  let dx := ratAbs (v - x)
  (Nat.beq (bits / 2 ^ 63) 1 == d.neg) && Nat.blt 0 mb && Nat.blt (mb + 1) (2047 * 2 ^ 52) &&
  decide (dx ≤ dl) && decide (dx ≤ dh) && ((dx != dl && dx != dh) || Nat.beq (mb % 2) 0)

/-- attribute `label.translate(_transtable)` holds `float(data)` -/
def attrOk (c : Ctx) (e : Nat × Datum) : Bool :=
  match attrFind c.attrs (pack (mangle (unpack e.2.label))) with
  | some b => Nat.beq b e.2.data.toF64
  | none => false

def floatOk (e : Nat × Datum) : Bool := nearestOk e.2.data e.2.data.toF64

def ctxChecks (c : Ctx) : Bool :=
  allEntries (attrOk c) c.pc && Nat.beq c.attrs.length c.pc.length && allEntries floatOk c.pc

/-! ### splitting combined kernel checks -/

theorem withPC_and_left {o : Option PC} {p q : PC → Bool} (h : withPC o (fun pc => p pc && q pc) = true) :
    withPC o p = true := by
  cases o with
  | none => simp [withPC] at h
  | some pc => simp only [withPC, Bool.and_eq_true] at h ⊢; exact h.1

theorem withPC_and_right {o : Option PC} {p q : PC → Bool} (h : withPC o (fun pc => p pc && q pc) = true) :
    withPC o q = true := by
  cases o with
  | none => simp [withPC] at h
  | some pc => simp only [withPC, Bool.and_eq_true] at h ⊢; exact h.2

/-! ### general theorems (any context, any ASCII text) -/

/-- **`get` is case-insensitive**: two names that are equal after lower-casing (in particular all
2^|s| casings of one name) retrieve the same Datum, the same float, or the same KeyError. -/
theorem get_case_insensitive (c : Ctx) {s s' : Bytes} (h : lower s = lower s') :
    c.getDatum s = c.getDatum s' ∧ c.getFloat s = c.getFloat s' := by
  simp [Ctx.getDatum, Ctx.getFloat, h]

/-- `get(name)` is `pc[name.lower()]`: whatever `pc` holds under the lower-cased key is what any
casing of the name retrieves, and the float is `float(datum.data)`. -/
theorem get_is_item_lower (c : Ctx) (s : Bytes) :
    c.getDatum s = c.item (lower s) ∧ c.getFloat s = (c.item (lower s)).map (·.data.toF64) := by
  simp [Ctx.getDatum, Ctx.getFloat, Ctx.item]

/-- non-vacuity of the hypothesis: distinct casings -/
example : lower b!"Hartree Energy in eV" = lower b!"hARTREE energy IN Ev" ∧ b!"Hartree Energy in eV" ≠ b!"hARTREE energy IN Ev" := by decide

end QcelVerif.Constants
