import QcelVerif.Lemmas.RotUnique
import QcelVerif.Lemmas.RigidMotion
import QcelVerif.Props.C12
/-!
# C12 — the uniqueness clause: "for non-collinear molecules the rotation and shift are those that were applied"

Conventions are the code's: a geometry is a list of rows, a rotation acts on the right (`rowMul c U` is one row of
`geom.dot(U)`, models/align.py:84), a recipe is applied as `(c − shift)·rotation` (`alignCoords`,
models/align.py:83-84) and `kabsch_align` returns `shift = c̄ − U·r̄` (align.py:496).  A second geometry made from
the reference by `c = r·A + t` (what `harness/c12.py:make_case` and `Molecule.scramble` do) is therefore mapped back by
`rotation = Aᵀ (= A⁻¹)` and `shift = t`; in the column convention `x ↦ A'x + t` with `A' = Aᵀ` this reads
`rotation = A'` acting on rows, i.e. `A'⁻¹` acting on columns.

* `rotation_unique_of_fixes_two`   — a proper rotation fixing `a`, `b` with `a × b ≠ 0` is the identity
* `nonCollinear_iff_not_onLine`, `nonCollinear_centre_iff`, `onLineThrough_centroid` — the predicate `NonCollinear`
* `recovery_rotation_unique`       — two proper rotations agreeing on a non-collinear set are equal
* `motion_unique`, `align_recovers_motion`, `align_recovers_motion_fixed_map`, `kabschAlign_recovers_motion`
                                   — an EXACTLY superimposing recipe of the model's `alignCoords` is `(Aᵀ, t)`
* `rotation_close_of_close_on_two`, `rotation_entries_close`, `recovery_rotation_close`
                                   — quantitative: residual² ≤ e2 on two atoms ⇒ `|a×b|²·(entry)² ≤ 16·L2·e2`
* `collinear_not_unique`, `rotation_determined_iff_nonCollinear` — the qualifier is necessary
* `maxCross2_pos_iff`, `le_maxCross2`, `nonCollinearBy_maxCross2` — the exact margin the driver evaluates

Everything is over an arbitrary linearly ordered field (so over ℚ, where the driver runs, and over ℝ), except
`rotation_unique_of_fixes_two_field` / `nonCollinear_iff_not_onLine`, which hold over every field.
-/
namespace QcelVerif.Kabsch
variable {K : Type}

/-! ## 1. a proper rotation that fixes two non-parallel vectors is the identity -/

section Field
variable [Field K]

/-- over any field, with the non-degeneracy stated as `|a × b|² ≠ 0` (over a general field a non-zero vector can
    have zero square norm, so this is the right hypothesis there) -/
theorem rotation_unique_of_fixes_two_field (U : M3 K) (ho : U.mul U.transpose = M3.one) (hd : U.det = 1)
    (a b : V3 K) (ha : rowMul a U = a) (hb : rowMul b U = b) (hab : cross2 a b ≠ 0) : U = M3.one := by
  apply eq_one_of_rowMul_id
  intro v
  have h := smul_fixed_of_fixes_two ⟨ho, hd⟩ a b ha hb v
  simp only [V3.smul, V3.ext_iff] at h
  obtain ⟨hx, hy, hz⟩ := h
  ext
  · exact mul_left_cancel₀ hab hx
  · exact mul_left_cancel₀ hab hy
  · exact mul_left_cancel₀ hab hz

/-- **`NonCollinear` is "not all position vectors on one line through the origin"** (any field) -/
theorem nonCollinear_iff_not_onLine (c : List (V3 K)) : NonCollinear c ↔ ¬ OnLine c := by
  constructor
  · rintro ⟨a, ha, b, hb, hab⟩ ⟨d, hd⟩
    obtain ⟨s, rfl⟩ := hd a ha
    obtain ⟨t, rfl⟩ := hd b hb
    apply hab
    ext <;> simp only [V3.cross, V3.smul, V3.zero] <;> ring
  · intro h
    by_contra hnc
    have hall : ∀ a ∈ c, ∀ b ∈ c, V3.cross a b = V3.zero := by
      intro a ha b hb
      by_contra hne
      exact hnc ⟨a, ha, b, hb, hne⟩
    apply h
    by_cases hz : ∀ a ∈ c, a = V3.zero
    · refine ⟨V3.zero, fun a ha => ⟨0, ?_⟩⟩
      rw [hz a ha]; ext <;> simp only [V3.smul, V3.zero] <;> ring
    · obtain ⟨a, ha, ha0⟩ : ∃ a ∈ c, a ≠ V3.zero := by
        by_contra hh
        exact hz (fun a ha => by by_contra h0; exact hh ⟨a, ha, h0⟩)
      refine ⟨a, fun b hb => ?_⟩
      have hc := hall a ha b hb
      simp only [V3.cross, V3.zero, V3.ext_iff] at hc
      obtain ⟨c1, c2, c3⟩ := hc
      by_cases hx : a.x = 0
      · by_cases hy : a.y = 0
        · have hzz : a.z ≠ 0 := by
            intro hz0; apply ha0; ext <;> simp only [V3.zero] <;> assumption
          refine ⟨b.z / a.z, ?_⟩
          ext <;> simp only [V3.smul] <;> field_simp
          · rw [hx] at c2 ⊢; linear_combination c2
          · rw [hy] at c1 ⊢; linear_combination -c1
        · refine ⟨b.y / a.y, ?_⟩
          ext <;> simp only [V3.smul] <;> field_simp
          · linear_combination -c3
          · linear_combination c1
      · refine ⟨b.x / a.x, ?_⟩
        ext <;> simp only [V3.smul] <;> field_simp
        · linear_combination c3
        · linear_combination -c2

/-- for a geometry `g`, the centred geometry is non-collinear iff the atoms are **not all on one line through the
    centroid** -/
theorem nonCollinear_centre_iff (g : List (V3 K)) :
    NonCollinear (centre g) ↔ ¬ OnLineThrough (centroid g) g := by
  rw [nonCollinear_iff_not_onLine]
  apply not_congr
  constructor
  · rintro ⟨d, hd⟩
    refine ⟨d, fun a ha => ?_⟩
    obtain ⟨t, ht⟩ := hd (a.sub (centroid g)) (List.mem_map.mpr ⟨a, ha, rfl⟩)
    refine ⟨t, ?_⟩
    simp only [V3.ext_iff, V3.sub, V3.smul, V3.add] at ht ⊢
    exact ⟨by linear_combination ht.1, by linear_combination ht.2.1, by linear_combination ht.2.2⟩
  · rintro ⟨d, hd⟩
    refine ⟨d, fun a' ha' => ?_⟩
    obtain ⟨a, ha, rfl⟩ := List.mem_map.mp ha'
    obtain ⟨t, ht⟩ := hd a ha
    refine ⟨t, ?_⟩
    simp only [V3.ext_iff, V3.sub, V3.smul, V3.add] at ht ⊢
    exact ⟨by linear_combination ht.1, by linear_combination ht.2.1, by linear_combination ht.2.2⟩

end Field

section Ordered
variable [Field K] [LinearOrder K] [IsStrictOrderedRing K]

/-- **(1)** a 3×3 orthogonal matrix with determinant `+1` that fixes two vectors `a`, `b` with `a × b ≠ 0` is the
    identity: it preserves cross products, so it fixes `a × b` too, and `a, b, a × b` is a basis (Cramer's rule with
    the scalar triple product `[a, b, a×b] = |a×b|²`). -/
theorem rotation_unique_of_fixes_two (U : M3 K) (ho : U.mul U.transpose = M3.one) (hd : U.det = 1)
    (a b : V3 K) (ha : rowMul a U = a) (hb : rowMul b U = b) (hab : V3.cross a b ≠ V3.zero) : U = M3.one :=
  rotation_unique_of_fixes_two_field U ho hd a b ha hb (fun h => hab ((cross2_eq_zero_iff a b).mp h))

/-- the same in the column convention `U a = a`, `U b = b` -/
theorem rotation_unique_of_fixes_two_col (U : M3 K) (ho : U.mul U.transpose = M3.one) (hd : U.det = 1)
    (a b : V3 K) (ha : matVec U a = a) (hb : matVec U b = b) (hab : V3.cross a b ≠ V3.zero) : U = M3.one := by
  have hT : IsRot U.transpose := (IsRot.mk ho hd).transpose
  have h := rotation_unique_of_fixes_two U.transpose hT.orth hT.det a b
    (by rw [rowMul_transpose]; exact ha) (by rw [rowMul_transpose]; exact hb) hab
  have := congrArg M3.transpose h
  rwa [M3.transpose_transpose, M3.transpose_one] at this

-- non-vacuity (test): the identity fixes e₁, e₂ (e₁ × e₂ = e₃ ≠ 0); and the hypothesis `a × b ≠ 0` cannot be dropped:
-- the half-turn about x fixes a = e₁ and b = 2e₁ (a × b = 0) and is not the identity
example : rowMul (⟨1, 0, 0⟩ : V3 ℚ) M3.one = ⟨1, 0, 0⟩ ∧ rowMul (⟨0, 1, 0⟩ : V3 ℚ) M3.one = ⟨0, 1, 0⟩
    ∧ V3.cross (⟨1, 0, 0⟩ : V3 ℚ) ⟨0, 1, 0⟩ ≠ V3.zero := by
  refine ⟨by ext <;> simp [rowMul, M3.one], by ext <;> simp [rowMul, M3.one], ?_⟩
  intro h; simp [V3.cross, V3.zero, V3.ext_iff] at h
example : let U : M3 ℚ := ⟨1, 0, 0, 0, -1, 0, 0, 0, -1⟩
    U.mul U.transpose = M3.one ∧ U.det = 1 ∧ rowMul (⟨1, 0, 0⟩ : V3 ℚ) U = ⟨1, 0, 0⟩
      ∧ rowMul (⟨2, 0, 0⟩ : V3 ℚ) U = ⟨2, 0, 0⟩ ∧ U ≠ M3.one := by
  refine ⟨by ext <;> simp [M3.mul, M3.transpose, M3.one], by simp [M3.det], by ext <;> simp [rowMul],
    by ext <;> simp [rowMul], ?_⟩
  intro h; simp only [M3.one, M3.ext_iff] at h; norm_num at h

/-! ## 2. two proper rotations that agree on a non-collinear set are equal; the recipe of `alignCoords` -/

/-- **(2)** if `R₁`, `R₂` are proper rotations and `c·R₁ = c·R₂` for every atom of a geometry `cs` that contains two
    non-parallel position vectors (`NonCollinear cs`; for a centred geometry: the molecule is not collinear,
    `nonCollinear_centre_iff`), then `R₁ = R₂`. -/
theorem recovery_rotation_unique (R₁ R₂ : M3 K) (ho₁ : R₁.mul R₁.transpose = M3.one) (hd₁ : R₁.det = 1)
    (ho₂ : R₂.mul R₂.transpose = M3.one) (hd₂ : R₂.det = 1) (cs : List (V3 K))
    (hagree : ∀ c ∈ cs, rowMul c R₁ = rowMul c R₂) (hnc : NonCollinear cs) : R₁ = R₂ := by
  have h₁ : IsRot R₁ := ⟨ho₁, hd₁⟩
  have h₂ : IsRot R₂ := ⟨ho₂, hd₂⟩
  have hU : IsRot (R₁.mul R₂.transpose) := h₁.mul h₂.transpose
  have hfix : ∀ c ∈ cs, rowMul c (R₁.mul R₂.transpose) = c := by
    intro c hc
    rw [rowMul_mul, hagree c hc, rowMul_rowMul_transpose h₂]
  obtain ⟨a, ha, b, hb, hab⟩ := hnc
  have h1 := rotation_unique_of_fixes_two _ hU.orth hU.det a b (hfix a ha) (hfix b hb) hab
  calc R₁ = R₁.mul (R₂.transpose.mul R₂) := by rw [h₂.orth', M3.mul_one']
    _ = (R₁.mul R₂.transpose).mul R₂ := (M3.mul_assoc' _ _ _).symm
    _ = R₂ := by rw [h1, M3.one_mul']

-- non-vacuity (test): the quarter-turn about z agrees with itself on the non-collinear set {e₁, e₂}
example : NonCollinear [(⟨1, 0, 0⟩ : V3 ℚ), ⟨0, 1, 0⟩] :=
  ⟨⟨1, 0, 0⟩, by simp, ⟨0, 1, 0⟩, by simp, by intro h; simp [V3.cross, V3.zero, V3.ext_iff] at h⟩

/-- "collinear" in the everyday sense (all atoms on SOME line, through any point `p`) is the same as "on one line
    through the centroid": the centroid of points of a line lies on that line.  Hence
    `NonCollinear (centre g) ↔ the atoms of g are not all on one line` (with `nonCollinear_centre_iff`). -/
theorem onLineThrough_centroid (p : V3 K) (g : List (V3 K)) (hne : g ≠ []) (h : OnLineThrough p g) :
    OnLineThrough (centroid g) g := by
  obtain ⟨d, hd⟩ := h
  have hsum : ∀ l : List (V3 K), (∀ a ∈ l, ∃ t : K, a = p.add (V3.smul t d)) →
      ∃ T : K, vsum l = (V3.smul (l.length : K) p).add (V3.smul T d) := by
    intro l
    induction l with
    | nil => intro _; exact ⟨0, by ext <;> simp [vsum, V3.zero, V3.add, V3.smul]⟩
    | cons a l ih =>
      intro h
      obtain ⟨t, rfl⟩ := h a List.mem_cons_self
      obtain ⟨T, hT⟩ := ih (fun b hb => h b (List.mem_cons_of_mem _ hb))
      refine ⟨t + T, ?_⟩
      simp only [vsum, hT, List.length_cons, Nat.cast_succ]
      ext <;> simp only [V3.add, V3.smul] <;> ring
  obtain ⟨T, hT⟩ := hsum g hd
  have hn : (g.length : K) ≠ 0 := by
    have : g.length ≠ 0 := fun h => hne (List.length_eq_zero_iff.mp h)
    exact_mod_cast this
  have hc := smul_centroid g hne
  rw [hT] at hc
  refine ⟨d, fun a ha => ?_⟩
  obtain ⟨t, rfl⟩ := hd a ha
  refine ⟨t - T / (g.length : K), ?_⟩
  simp only [V3.ext_iff, V3.add, V3.smul] at hc ⊢
  refine ⟨mul_left_cancel₀ hn ?_, mul_left_cancel₀ hn ?_, mul_left_cancel₀ hn ?_⟩
  · field_simp; linear_combination -hc.1
  · field_simp; linear_combination -hc.2.1
  · field_simp; linear_combination -hc.2.2

/-- the molecule is non-collinear about its centroid iff its atoms are not all on one line (through any point) -/
theorem nonCollinear_centre_iff_no_line (g : List (V3 K)) (hne : g ≠ []) :
    NonCollinear (centre g) ↔ ¬ ∃ p : V3 K, OnLineThrough p g := by
  rw [nonCollinear_centre_iff]
  constructor
  · rintro h ⟨p, hp⟩; exact h (onLineThrough_centroid p g hne hp)
  · intro h hc; exact h ⟨_, hc⟩

/-- an affine map `r ↦ r·M + w` that fixes every atom fixes the centroid -/
theorem affine_fixes_centroid (M : M3 K) (w : V3 K) (l : List (V3 K)) (hl : l ≠ [])
    (hfix : ∀ r ∈ l, (rowMul r M).add w = r) : (rowMul (centroid l) M).add w = centroid l := by
  have hsum : ∀ l' : List (V3 K), (∀ r ∈ l', (rowMul r M).add w = r) →
      (rowMul (vsum l') M).add (V3.smul (l'.length : K) w) = vsum l' := by
    intro l'
    induction l' with
    | nil => intro _; ext <;> simp [vsum, rowMul, V3.zero, V3.add, V3.smul]
    | cons a t ih =>
      intro h
      have ha := h a List.mem_cons_self
      have ht := ih (fun r hr => h r (List.mem_cons_of_mem _ hr))
      simp only [V3.ext_iff, V3.add, V3.smul, rowMul, vsum, List.length_cons, Nat.cast_succ] at ha ht ⊢
      exact ⟨by linear_combination ha.1 + ht.1, by linear_combination ha.2.1 + ht.2.1,
        by linear_combination ha.2.2 + ht.2.2⟩
  have hs := hsum l hfix
  have hn : (l.length : K) ≠ 0 := by
    have : l.length ≠ 0 := fun h => hl (List.length_eq_zero_iff.mp h)
    exact_mod_cast this
  have hc := smul_centroid l hl
  rw [← hc] at hs
  simp only [V3.ext_iff, V3.add, V3.smul, rowMul] at hs ⊢
  refine ⟨mul_left_cancel₀ hn ?_, mul_left_cancel₀ hn ?_, mul_left_cancel₀ hn ?_⟩
  · linear_combination hs.1
  · linear_combination hs.2.1
  · linear_combination hs.2.2

/-- **the applied motion is the only one that superimposes exactly** (algebraic core): if every atom `r` of the
    reference, moved to `c = r·A + t` and sent through the recipe `(c − T)·U`, comes back to `r`, and the reference
    is non-collinear about its centroid, then `U = Aᵀ (= A⁻¹)` and `T = t`. -/
theorem motion_unique (A U : M3 K) (hoA : A.mul A.transpose = M3.one) (hdA : A.det = 1)
    (hoU : U.mul U.transpose = M3.one) (hdU : U.det = 1) (t T : V3 K) (Rg : List (V3 K))
    (hback : ∀ r ∈ Rg, rowMul (((rowMul r A).add t).sub T) U = r)
    (hnc : NonCollinear (centre Rg)) : U = A.transpose ∧ T = t := by
  have hA : IsRot A := ⟨hoA, hdA⟩
  have hU : IsRot U := ⟨hoU, hdU⟩
  have hM : IsRot (A.mul U) := hA.mul hU
  have hne : Rg ≠ [] := by
    rintro rfl
    obtain ⟨a, ha, _⟩ := hnc
    simp [centre] at ha
  -- the recipe composed with the motion is the affine map r ↦ r·(A U) + (t − T)·U
  have haff : ∀ r ∈ Rg, (rowMul r (A.mul U)).add (rowMul (t.sub T) U) = r := by
    intro r hr
    have h := hback r hr
    rw [rowMul_mul]
    simp only [V3.ext_iff, rowMul, V3.add, V3.sub] at h ⊢
    exact ⟨by linear_combination h.1, by linear_combination h.2.1, by linear_combination h.2.2⟩
  have hcen := affine_fixes_centroid _ _ Rg hne haff
  -- hence A U fixes every centred position vector
  have hfix : ∀ c ∈ centre Rg, rowMul c (A.mul U) = c := by
    intro c hc
    obtain ⟨r, hr, rfl⟩ := List.mem_map.mp hc
    have h := haff r hr
    simp only [V3.ext_iff, rowMul, V3.add, V3.sub] at h hcen ⊢
    exact ⟨by linear_combination h.1 - hcen.1, by linear_combination h.2.1 - hcen.2.1,
      by linear_combination h.2.2 - hcen.2.2⟩
  obtain ⟨a, ha, b, hb, hab⟩ := hnc
  have hone := rotation_unique_of_fixes_two _ hM.orth hM.det a b (hfix a ha) (hfix b hb) hab
  have hUA : U = A.transpose := by
    calc U = (A.transpose.mul A).mul U := by rw [hA.orth', M3.one_mul']
      _ = A.transpose.mul (A.mul U) := M3.mul_assoc' _ _ _
      _ = A.transpose := by rw [hone, M3.mul_one']
  refine ⟨hUA, ?_⟩
  -- the affine part vanishes, and U is invertible
  obtain ⟨r, hr⟩ := List.exists_mem_of_ne_nil Rg hne
  have h := haff r hr
  rw [hone, rowMul_one] at h
  have hw : rowMul (t.sub T) U = V3.zero := by
    simp only [V3.ext_iff, V3.add, V3.zero] at h ⊢
    exact ⟨by linear_combination h.1, by linear_combination h.2.1, by linear_combination h.2.2⟩
  have h0 : t.sub T = V3.zero := by
    have := rowMul_rowMul_transpose hU (t.sub T)
    rw [hw, rowMul_zero] at this
    exact this.symm
  simp only [V3.ext_iff, V3.sub, V3.zero] at h0 ⊢
  exact ⟨by linear_combination -h0.1, by linear_combination -h0.2.1, by linear_combination -h0.2.2⟩

/-- **(2, on the model's `alignCoords`)** let the reference `Rg` be non-collinear about its centroid, let the
    second geometry `Cg` contain, at the place `amap[k]` the recipe pairs with reference atom `k`, the moved copy
    `Rg[k]·A + t` of that atom (a rotated, translated and — through `amap` — arbitrarily shuffled copy, the atom map
    being the applied one), and let the recipe `(rotation U, shift T, atommap amap, mirror off)` superimpose it
    EXACTLY: `alignCoords false T U amap Cg = some Rg`.  Then `U = Aᵀ = A⁻¹` and `T = t`: rotation and shift are
    those that were applied, in the code's convention `aligned = (c − shift)·rotation`. -/
theorem align_recovers_motion (A U : M3 K) (hoA : A.mul A.transpose = M3.one) (hdA : A.det = 1)
    (hoU : U.mul U.transpose = M3.one) (hdU : U.det = 1) (t T : V3 K) (Rg Cg : List (V3 K)) (amap : List Nat)
    (hcopy : ∀ (k : Nat) (r : V3 K), Rg[k]? = some r →
      ∃ i, amap[k]? = some i ∧ Cg[i]? = some ((rowMul r A).add t))
    (hal : alignCoords false T U amap Cg = some Rg)
    (hnc : NonCollinear (centre Rg)) : U = A.transpose ∧ T = t := by
  apply motion_unique A U hoA hdA hoU hdU t T Rg _ hnc
  intro r hr
  obtain ⟨k, hk, rfl⟩ := List.mem_iff_getElem.mp hr
  simp only [alignCoords, Bool.false_eq_true, if_false] at hal
  have hlen := mapM_some_length _ _ _ hal
  have hk' : k < amap.length := by rw [← hlen]; exact hk
  have hget := mapM_some_getElem _ _ _ hal k hk' hk
  obtain ⟨i, hi, hc⟩ := hcopy k Rg[k] (List.getElem?_eq_getElem hk)
  have hi' : amap[k] = i := by
    have := List.getElem?_eq_getElem hk'
    rw [this] at hi
    exact Option.some.inj hi
  rw [hi', List.getElem?_map, hc] at hget
  exact Option.some.inj hget

-- non-vacuity (test) of `align_recovers_motion` with a SHUFFLED copy: the triangle (0,0,0), (1,0,0), (0,2,0), quarter-turn A
-- about z, shift t = (1,2,3), second geometry listed as (atom 1, atom 0, atom 2), atom map [1, 0, 2]: the recipe
-- (Aᵀ, t, [1,0,2]) superimposes it exactly
example :
    let A : M3 ℚ := ⟨0, 1, 0, -1, 0, 0, 0, 0, 1⟩
    let t : V3 ℚ := ⟨1, 2, 3⟩
    let Rg : List (V3 ℚ) := [⟨0, 0, 0⟩, ⟨1, 0, 0⟩, ⟨0, 2, 0⟩]
    let Cg : List (V3 ℚ) := [(rowMul ⟨1, 0, 0⟩ A).add t, (rowMul ⟨0, 0, 0⟩ A).add t, (rowMul ⟨0, 2, 0⟩ A).add t]
    alignCoords false t A.transpose [1, 0, 2] Cg = some Rg := by
  simp [alignCoords, rowMul, V3.sub, V3.add, M3.transpose]

omit [LinearOrder K] [IsStrictOrderedRing K] in
/-- the model's fancy indexing with the identity atom map is the plain map -/
theorem alignCoords_identity_map (T : V3 K) (U : M3 K) (Cg : List (V3 K)) :
    alignCoords false T U (List.range Cg.length) Cg = some (Cg.map (fun v => rowMul (v.sub T) U)) := by
  simp only [alignCoords, Bool.false_eq_true, if_false]
  have key : ∀ (l : List (V3 K)), (List.range l.length).mapM (fun i => l[i]?) = some l := by
    intro l
    induction l using List.reverseRecOn with
    | nil => simp
    | append_singleton l a ih =>
      rw [List.length_append, List.length_singleton, List.range_succ, List.mapM_append]
      have h1 : (List.range l.length).mapM (fun i => (l ++ [a])[i]?) = some l := by
        rw [← ih]
        apply mapM_option_congr
        intro i hi
        rw [List.getElem?_append_left (List.mem_range.mp hi)]
      rw [h1]
      simp
  have := key (Cg.map (fun v => rowMul (v.sub T) U))
  rwa [List.length_map] at this

/-- the centroid of a moved copy is the moved centroid -/
theorem centroid_moved (A : M3 K) (t : V3 K) (Rg : List (V3 K)) (hne : Rg ≠ []) :
    centroid (Rg.map (fun r => (rowMul r A).add t)) = (rowMul (centroid Rg) A).add t := by
  have hsum : ∀ l : List (V3 K), vsum (l.map (fun r => (rowMul r A).add t))
      = (rowMul (vsum l) A).add (V3.smul (l.length : K) t) := by
    intro l
    induction l with
    | nil => ext <;> simp [vsum, rowMul, V3.zero, V3.add, V3.smul]
    | cons a l ih =>
      simp only [List.map_cons, vsum, ih, List.length_cons, Nat.cast_succ]
      ext <;> simp only [V3.add, V3.smul, rowMul] <;> ring
  have hne' : Rg.map (fun r => (rowMul r A).add t) ≠ [] := by simpa using hne
  have hn : (Rg.length : K) ≠ 0 := by
    have : Rg.length ≠ 0 := fun h => hne (List.length_eq_zero_iff.mp h)
    exact_mod_cast this
  have h1 := smul_centroid _ hne'
  rw [hsum, List.length_map, ← smul_centroid Rg hne] at h1
  simp only [V3.ext_iff, V3.add, V3.smul, rowMul] at h1 ⊢
  refine ⟨mul_left_cancel₀ hn ?_, mul_left_cancel₀ hn ?_, mul_left_cancel₀ hn ?_⟩
  · linear_combination h1.1
  · linear_combination h1.2.1
  · linear_combination h1.2.2

/-- **the applied shift is the one the centroids determine** (`TT = Ccentroid − RR.dot(Rcentroid)`, align.py:496,
    with `RR = Aᵀ`): for a moved copy `c = r·A + t`, `t = c̄ − Aᵀ r̄`. -/
theorem shift_determined_by_centroids (A : M3 K) (t : V3 K) (Rg : List (V3 K)) (hne : Rg ≠ []) :
    t = (centroid (Rg.map (fun r => (rowMul r A).add t))).sub (matVec A.transpose (centroid Rg)) := by
  rw [centroid_moved A t Rg hne, ← rowMul_transpose, M3.transpose_transpose]
  ext <;> simp only [V3.add, V3.sub] <;> ring

/-- **(2, fixed atom map)** the second geometry is `r ↦ r·A + t` applied atom by atom to the reference, the recipe
    `(U, T)` with the identity atom map superimposes it exactly, the reference is non-collinear about its centroid:
    then `rotation = Aᵀ = A⁻¹`, `shift = t`, and that shift is the one `kabsch_align` computes from the centroids,
    `c̄ − U·r̄` (align.py:496). -/
theorem align_recovers_motion_fixed_map (A U : M3 K) (hoA : A.mul A.transpose = M3.one) (hdA : A.det = 1)
    (hoU : U.mul U.transpose = M3.one) (hdU : U.det = 1) (t T : V3 K) (Rg : List (V3 K))
    (hal : alignCoords false T U (List.range Rg.length) (Rg.map (fun r => (rowMul r A).add t)) = some Rg)
    (hnc : NonCollinear (centre Rg)) :
    U = A.transpose ∧ T = t
      ∧ T = (centroid (Rg.map (fun r => (rowMul r A).add t))).sub (matVec U (centroid Rg)) := by
  have hne : Rg ≠ [] := by
    rintro rfl
    obtain ⟨a, ha, _⟩ := hnc
    simp [centre] at ha
  have h := align_recovers_motion A U hoA hdA hoU hdU t T Rg (Rg.map (fun r => (rowMul r A).add t))
    (List.range Rg.length) (by
      intro k r hk
      have hk' : k < Rg.length := by
        by_contra hge
        rw [List.getElem?_eq_none (Nat.le_of_not_lt hge)] at hk
        cases hk
      refine ⟨k, by simp [hk'], ?_⟩
      rw [List.getElem?_map, hk]; rfl) hal hnc
  refine ⟨h.1, h.2, ?_⟩
  rw [h.1, h.2]
  exact shift_determined_by_centroids A t Rg hne

/-- the same on the output record of the model `kabschAlign` (reference first, as `kabsch_align(rgeom, cgeom)`),
    whatever eigenvector `q` of unit length it was given: if the recipe it returns superimposes the moved copy
    exactly, its rotation is `Aᵀ` and its shift `c̄ − U r̄` is `t`. -/
theorem kabschAlign_recovers_motion (A : M3 K) (hoA : A.mul A.transpose = M3.one) (hdA : A.det = 1) (t : V3 K)
    (Rg : List (V3 K)) (q : Q4 K) (hq : q.nrm2 = 1)
    (hal : alignCoords false (kabschAlign Rg (Rg.map (fun r => (rowMul r A).add t)) q).T
      (kabschAlign Rg (Rg.map (fun r => (rowMul r A).add t)) q).U (List.range Rg.length)
      (Rg.map (fun r => (rowMul r A).add t)) = some Rg)
    (hnc : NonCollinear (centre Rg)) :
    (kabschAlign Rg (Rg.map (fun r => (rowMul r A).add t)) q).U = A.transpose
      ∧ (kabschAlign Rg (Rg.map (fun r => (rowMul r A).add t)) q).T = t := by
  have hrot : IsRot (kabschAlign Rg (Rg.map (fun r => (rowMul r A).add t)) q).U := by
    unfold kabschAlign
    by_cases hg : geomEq Rg (Rg.map (fun r => (rowMul r A).add t)) = true
    · simp only [hg, if_true]; exact IsRot.one
    · simp only [hg]; exact ⟨(quatRot_orthogonal q hq).1, quatRot_det q hq⟩
  have h := align_recovers_motion_fixed_map A _ hoA hdA hrot.orth hrot.det t _ Rg hal hnc
  exact ⟨h.1, h.2.1⟩

-- non-vacuity (test) of `align_recovers_motion_fixed_map` / `kabschAlign_recovers_motion`: the right triangle
-- (0,0,0), (1,0,0), (0,2,0) turned by a quarter-turn about z (A) and shifted by t = (1,2,3); the recipe (Aᵀ, t)
-- superimposes it exactly, the centred reference is non-collinear, and q = (1,0,0,1)/√2 is not rational, so the
-- kabschAlign instance is shown with the proper rotation itself
example :
    let A : M3 ℚ := ⟨0, 1, 0, -1, 0, 0, 0, 0, 1⟩
    let t : V3 ℚ := ⟨1, 2, 3⟩
    let Rg : List (V3 ℚ) := [⟨0, 0, 0⟩, ⟨1, 0, 0⟩, ⟨0, 2, 0⟩]
    A.mul A.transpose = M3.one ∧ A.det = 1
      ∧ alignCoords false t A.transpose (List.range Rg.length) (Rg.map (fun r => (rowMul r A).add t)) = some Rg
      ∧ NonCollinear (centre Rg) := by
  refine ⟨by ext <;> simp [M3.mul, M3.transpose, M3.one], by simp [M3.det],
    by simp [alignCoords, List.range_succ, rowMul, V3.sub, V3.add, M3.transpose], ?_⟩
  refine ⟨(⟨0, 0, 0⟩ : V3 ℚ).sub (centroid [⟨0, 0, 0⟩, ⟨1, 0, 0⟩, ⟨0, 2, 0⟩]), by simp [centre],
    (⟨1, 0, 0⟩ : V3 ℚ).sub (centroid [⟨0, 0, 0⟩, ⟨1, 0, 0⟩, ⟨0, 2, 0⟩]), by simp [centre], ?_⟩
  intro h
  simp only [V3.cross, V3.sub, V3.zero, centroid, vsum, V3.add, V3.ext_iff, List.length_cons, List.length_nil] at h
  norm_num at h

end Ordered

/-! ## 3. quantitative version: nearly agreeing on two non-parallel vectors ⇒ nearly equal -/

section Quantitative
variable [Field K] [LinearOrder K] [IsStrictOrderedRing K]

/-- the error on `a × b`: `(a×b)·R₁ − (a×b)·R₂ = (aR₁ − aR₂) × bR₁ + aR₂ × (bR₁ − bR₂)`, so its square norm is
    at most `4·L2·e2` -/
theorem cross_error_le (R₁ R₂ : M3 K) (h₁ : IsRot R₁) (h₂ : IsRot R₂) (a b : V3 K) (L2 e2 : K)
    (haL : a.nrm2 ≤ L2) (hbL : b.nrm2 ≤ L2)
    (hae : ((rowMul a R₁).sub (rowMul a R₂)).nrm2 ≤ e2) (hbe : ((rowMul b R₁).sub (rowMul b R₂)).nrm2 ≤ e2) :
    ((rowMul (V3.cross a b) R₁).sub (rowMul (V3.cross a b) R₂)).nrm2 ≤ 4 * L2 * e2 := by
  have hsplit : (rowMul (V3.cross a b) R₁).sub (rowMul (V3.cross a b) R₂)
      = (V3.cross ((rowMul a R₁).sub (rowMul a R₂)) (rowMul b R₁)).add
          (V3.cross (rowMul a R₂) ((rowMul b R₁).sub (rowMul b R₂))) := by
    rw [rowMul_cross h₁, rowMul_cross h₂]
    ext <;> simp only [V3.cross, V3.sub, V3.add] <;> ring
  have he0 : 0 ≤ e2 := le_trans (V3.nrm2_nonneg _) hae
  have hL0 : 0 ≤ L2 := le_trans (V3.nrm2_nonneg _) haL
  have h1 : cross2 ((rowMul a R₁).sub (rowMul a R₂)) (rowMul b R₁) ≤ e2 * L2 := by
    refine le_trans (cross2_le_mul _ _) ?_
    rw [nrm2_rowMul h₁]
    exact mul_le_mul hae hbL (V3.nrm2_nonneg _) he0
  have h2 : cross2 (rowMul a R₂) ((rowMul b R₁).sub (rowMul b R₂)) ≤ L2 * e2 := by
    refine le_trans (cross2_le_mul _ _) ?_
    rw [nrm2_rowMul h₂]
    exact mul_le_mul haL hbe (V3.nrm2_nonneg _) hL0
  rw [hsplit]
  have := nrm2_add_le_two (V3.cross ((rowMul a R₁).sub (rowMul a R₂)) (rowMul b R₁))
    (V3.cross (rowMul a R₂) ((rowMul b R₁).sub (rowMul b R₂)))
  simp only [cross2] at h1 h2
  linarith

/-- **(3)** if two proper rotations move `a` and `b` to within `ε` of each other (`|aR₁ − aR₂|² ≤ e2 = ε²`, same for
    `b`), `|a|², |b|² ≤ L2 = L²` and `g = |a × b|² > 0`, then for every `v` with `|v|² ≤ 1`
    `g·|vR₁ − vR₂|² ≤ 16·L2·e2`, i.e. `|vR₁ − vR₂| ≤ C(L,g)·ε` with the explicit `C(L,g) = 4L/√g`
    (stated without square roots, so it holds over ℚ too). -/
theorem rotation_close_of_close_on_two (R₁ R₂ : M3 K) (ho₁ : R₁.mul R₁.transpose = M3.one) (hd₁ : R₁.det = 1)
    (ho₂ : R₂.mul R₂.transpose = M3.one) (hd₂ : R₂.det = 1) (a b : V3 K) (L2 e2 : K)
    (haL : a.nrm2 ≤ L2) (hbL : b.nrm2 ≤ L2)
    (hae : ((rowMul a R₁).sub (rowMul a R₂)).nrm2 ≤ e2) (hbe : ((rowMul b R₁).sub (rowMul b R₂)).nrm2 ≤ e2)
    (hg : 0 < cross2 a b) (v : V3 K) (hv : v.nrm2 ≤ 1) :
    cross2 a b * ((rowMul v R₁).sub (rowMul v R₂)).nrm2 ≤ 16 * L2 * e2 := by
  have h₁ : IsRot R₁ := ⟨ho₁, hd₁⟩
  have h₂ : IsRot R₂ := ⟨ho₂, hd₂⟩
  set g := cross2 a b with hgdef
  set n := V3.cross a b with hn
  set x := (rowMul a R₁).sub (rowMul a R₂) with hx
  set y := (rowMul b R₁).sub (rowMul b R₂) with hy
  set z := (rowMul n R₁).sub (rowMul n R₂) with hz
  set α := v.dot (V3.cross b n) with hα
  set β := v.dot (V3.cross n a) with hβ
  set γ := v.dot n with hγ
  have he0 : 0 ≤ e2 := le_trans (V3.nrm2_nonneg _) hae
  have hL0 : 0 ≤ L2 := le_trans (V3.nrm2_nonneg _) haL
  have hv0 : 0 ≤ v.nrm2 := V3.nrm2_nonneg _
  have hzle : z.nrm2 ≤ 4 * L2 * e2 := cross_error_le R₁ R₂ h₁ h₂ a b L2 e2 haL hbL hae hbe
  -- g·(vR₁ − vR₂) = α x + β y + γ z   (Cramer in the basis a, b, n, then linearity)
  have hdecomp : V3.smul g ((rowMul v R₁).sub (rowMul v R₂))
      = ((V3.smul α x).add (V3.smul β y)).add (V3.smul γ z) := by
    have c := cramer_cross a b v
    have e : ∀ R : M3 K, V3.smul g (rowMul v R)
        = ((V3.smul α (rowMul a R)).add (V3.smul β (rowMul b R))).add (V3.smul γ (rowMul n R)) := by
      intro R
      rw [← rowMul_smul, c, rowMul_add, rowMul_add, rowMul_smul, rowMul_smul, rowMul_smul]
    have e1 := e R₁
    have e2' := e R₂
    rw [hx, hy, hz]
    simp only [V3.ext_iff, V3.smul, V3.add, V3.sub] at e1 e2' ⊢
    exact ⟨by linear_combination e1.1 - e2'.1, by linear_combination e1.2.1 - e2'.2.1,
      by linear_combination e1.2.2 - e2'.2.2⟩
  -- sizes of the coefficients
  have hα2 : α ^ 2 ≤ L2 * g := by
    have h := dot_sq_le v (V3.cross b n)
    have hc : (V3.cross b n).nrm2 = b.nrm2 * g := cross2_right_cross a b
    rw [hc] at h
    have : v.nrm2 * (b.nrm2 * g) ≤ 1 * (L2 * g) :=
      mul_le_mul hv (mul_le_mul_of_nonneg_right hbL hg.le) (mul_nonneg (V3.nrm2_nonneg _) hg.le) zero_le_one
    linarith
  have hβ2 : β ^ 2 ≤ L2 * g := by
    have h := dot_sq_le v (V3.cross n a)
    have hc : (V3.cross n a).nrm2 = a.nrm2 * g := cross2_cross_left a b
    rw [hc] at h
    have : v.nrm2 * (a.nrm2 * g) ≤ 1 * (L2 * g) :=
      mul_le_mul hv (mul_le_mul_of_nonneg_right haL hg.le) (mul_nonneg (V3.nrm2_nonneg _) hg.le) zero_le_one
    linarith
  have hγ2 : γ ^ 2 ≤ g := by
    have h := dot_sq_le v n
    have : v.nrm2 * n.nrm2 ≤ 1 * g := mul_le_mul_of_nonneg_right hv (V3.nrm2_nonneg _)
    linarith
  -- |α x + β y|² ≤ (α²+β²)(|x|²+|y|²) ≤ 4·L2·g·e2
  have hP : ((V3.smul α x).add (V3.smul β y)).nrm2 ≤ 4 * L2 * g * e2 := by
    refine le_trans (nrm2_comb2_le α β x y) ?_
    have h1 : α ^ 2 + β ^ 2 ≤ 2 * (L2 * g) := by linarith
    have h2 : x.nrm2 + y.nrm2 ≤ 2 * e2 := by linarith
    have := mul_le_mul h1 h2 (add_nonneg (V3.nrm2_nonneg _) (V3.nrm2_nonneg _))
      (mul_nonneg zero_le_two (mul_nonneg hL0 hg.le))
    linarith
  -- |γ z|² = γ²|z|² ≤ g·4·L2·e2
  have hQ : (V3.smul γ z).nrm2 ≤ 4 * L2 * g * e2 := by
    rw [nrm2_smul]
    have := mul_le_mul hγ2 hzle (V3.nrm2_nonneg _) hg.le
    linarith
  have htot : (V3.smul g ((rowMul v R₁).sub (rowMul v R₂))).nrm2 ≤ 16 * L2 * g * e2 := by
    rw [hdecomp]
    have := nrm2_add_le_two ((V3.smul α x).add (V3.smul β y)) (V3.smul γ z)
    linarith
  rw [nrm2_smul] at htot
  have : g * (g * ((rowMul v R₁).sub (rowMul v R₂)).nrm2) ≤ g * (16 * L2 * e2) := by
    calc g * (g * ((rowMul v R₁).sub (rowMul v R₂)).nrm2)
        = g ^ 2 * ((rowMul v R₁).sub (rowMul v R₂)).nrm2 := by ring
      _ ≤ 16 * L2 * g * e2 := htot
      _ = g * (16 * L2 * e2) := by ring
  exact le_of_mul_le_mul_left this hg

/-- entry by entry: every entry `d` of `R₁ − R₂` satisfies `|a×b|²·d² ≤ 16·L2·e2`, i.e. `|d| ≤ (4L/√g)·ε` -/
theorem rotation_entries_close (R₁ R₂ : M3 K) (ho₁ : R₁.mul R₁.transpose = M3.one) (hd₁ : R₁.det = 1)
    (ho₂ : R₂.mul R₂.transpose = M3.one) (hd₂ : R₂.det = 1) (a b : V3 K) (L2 e2 : K)
    (haL : a.nrm2 ≤ L2) (hbL : b.nrm2 ≤ L2)
    (hae : ((rowMul a R₁).sub (rowMul a R₂)).nrm2 ≤ e2) (hbe : ((rowMul b R₁).sub (rowMul b R₂)).nrm2 ≤ e2)
    (hg : 0 < cross2 a b) :
    cross2 a b * (R₁.a00 - R₂.a00) ^ 2 ≤ 16 * L2 * e2 ∧ cross2 a b * (R₁.a01 - R₂.a01) ^ 2 ≤ 16 * L2 * e2
    ∧ cross2 a b * (R₁.a02 - R₂.a02) ^ 2 ≤ 16 * L2 * e2 ∧ cross2 a b * (R₁.a10 - R₂.a10) ^ 2 ≤ 16 * L2 * e2
    ∧ cross2 a b * (R₁.a11 - R₂.a11) ^ 2 ≤ 16 * L2 * e2 ∧ cross2 a b * (R₁.a12 - R₂.a12) ^ 2 ≤ 16 * L2 * e2
    ∧ cross2 a b * (R₁.a20 - R₂.a20) ^ 2 ≤ 16 * L2 * e2 ∧ cross2 a b * (R₁.a21 - R₂.a21) ^ 2 ≤ 16 * L2 * e2
    ∧ cross2 a b * (R₁.a22 - R₂.a22) ^ 2 ≤ 16 * L2 * e2 := by
  have key := rotation_close_of_close_on_two R₁ R₂ ho₁ hd₁ ho₂ hd₂ a b L2 e2 haL hbL hae hbe hg
  have sq' : ∀ t : K, 0 ≤ cross2 a b * t ^ 2 := fun t => mul_nonneg hg.le (sq_nonneg t)
  have row : ∀ (p q r : K), cross2 a b * (p ^ 2 + q ^ 2 + r ^ 2) ≤ 16 * L2 * e2 →
      cross2 a b * p ^ 2 ≤ 16 * L2 * e2 ∧ cross2 a b * q ^ 2 ≤ 16 * L2 * e2 ∧ cross2 a b * r ^ 2 ≤ 16 * L2 * e2 := by
    intro p q r h
    have e : cross2 a b * (p ^ 2 + q ^ 2 + r ^ 2) = cross2 a b * p ^ 2 + cross2 a b * q ^ 2 + cross2 a b * r ^ 2 := by
      ring
    rw [e] at h
    have := sq' p; have := sq' q; have := sq' r
    exact ⟨by linarith, by linarith, by linarith⟩
  have k0 : cross2 a b * ((R₁.a00 - R₂.a00) ^ 2 + (R₁.a01 - R₂.a01) ^ 2 + (R₁.a02 - R₂.a02) ^ 2) ≤ 16 * L2 * e2 := by
    calc _ = cross2 a b * ((rowMul ⟨1, 0, 0⟩ R₁).sub (rowMul ⟨1, 0, 0⟩ R₂)).nrm2 := by
          simp only [rowMul, V3.sub, V3.nrm2]; ring
      _ ≤ _ := key ⟨1, 0, 0⟩ (by simp [V3.nrm2])
  have k1 : cross2 a b * ((R₁.a10 - R₂.a10) ^ 2 + (R₁.a11 - R₂.a11) ^ 2 + (R₁.a12 - R₂.a12) ^ 2) ≤ 16 * L2 * e2 := by
    calc _ = cross2 a b * ((rowMul ⟨0, 1, 0⟩ R₁).sub (rowMul ⟨0, 1, 0⟩ R₂)).nrm2 := by
          simp only [rowMul, V3.sub, V3.nrm2]; ring
      _ ≤ _ := key ⟨0, 1, 0⟩ (by simp [V3.nrm2])
  have k2 : cross2 a b * ((R₁.a20 - R₂.a20) ^ 2 + (R₁.a21 - R₂.a21) ^ 2 + (R₁.a22 - R₂.a22) ^ 2) ≤ 16 * L2 * e2 := by
    calc _ = cross2 a b * ((rowMul ⟨0, 0, 1⟩ R₁).sub (rowMul ⟨0, 0, 1⟩ R₂)).nrm2 := by
          simp only [rowMul, V3.sub, V3.nrm2]; ring
      _ ≤ _ := key ⟨0, 0, 1⟩ (by simp [V3.nrm2])
  obtain ⟨a0, a1, a2⟩ := row _ _ _ k0
  obtain ⟨b0, b1, b2⟩ := row _ _ _ k1
  obtain ⟨c0, c1, c2⟩ := row _ _ _ k2
  exact ⟨a0, a1, a2, b0, b1, b2, c0, c1, c2⟩

/-- **(3, on a geometry)** if `|c R₁ − c R₂|² ≤ e2` and `|c|² ≤ L2` for every atom of `cs`, and `cs` is non-collinear
    with margin `m > 0` (`NonCollinearBy m cs`: two position vectors with `|a × b|² ≥ m`; the driver's
    `maxCross2 cs` is the best such `m`, `nonCollinearBy_maxCross2`), then every row of `R₁ − R₂` has
    `m·|row|² ≤ 16·L2·e2`. -/
theorem recovery_rotation_close (R₁ R₂ : M3 K) (ho₁ : R₁.mul R₁.transpose = M3.one) (hd₁ : R₁.det = 1)
    (ho₂ : R₂.mul R₂.transpose = M3.one) (hd₂ : R₂.det = 1) (cs : List (V3 K)) (L2 e2 m : K)
    (hL : ∀ c ∈ cs, c.nrm2 ≤ L2) (he : ∀ c ∈ cs, ((rowMul c R₁).sub (rowMul c R₂)).nrm2 ≤ e2)
    (hm : 0 < m) (hnc : NonCollinearBy m cs) (v : V3 K) (hv : v.nrm2 ≤ 1) :
    m * ((rowMul v R₁).sub (rowMul v R₂)).nrm2 ≤ 16 * L2 * e2 := by
  obtain ⟨a, ha, b, hb, hab⟩ := hnc
  have h := rotation_close_of_close_on_two R₁ R₂ ho₁ hd₁ ho₂ hd₂ a b L2 e2 (hL a ha) (hL b hb) (he a ha) (he b hb)
    (lt_of_lt_of_le hm hab) v hv
  exact le_trans (mul_le_mul_of_nonneg_right hab (V3.nrm2_nonneg _)) h

-- (update: the two items below marked NOT proved — the quantitative shift bound and the mirror = true recipe — are now
--  proved in `Props/C12Shift.lean` (`recovery_shift_close`, `recovery_shift_close_on_two`) and `Props/C12Mirror.lean`
--  (`align_recovers_motion_mirror`, `mirror_never_needed_for_planar`, `chiral_needs_mirror`); what remains open is the
--  float statement "the aligner reaches a given ε".)
-- FULL: the property also says the SHIFT is (numerically) the applied one.  Proved here: exactly (`motion_unique`,
-- `align_recovers_motion*`: T = t = c̄ − U r̄) and, for the rotation, quantitatively (above).  NOT proved: the
-- quantitative shift bound the harness uses on the margin-only class, |T − t| ≤ |r̄|·‖A − Uᵀ‖₂ + |mean residual|
-- (from T − t = r̄(A − Uᵀ) − d̄ Uᵀ with d̄ the mean of aligned − reference, ‖A − Uᵀ‖₂ ≤ √3·max row norm); nor that the
-- floating-point aligner reaches a given ε (`Props/C12Full.lean` bounds its residual by the certificate slack,
-- 2ε_cert + δ(2+δ)Σ|c̃|², per call), nor the recipe with mirror = true (apply the statements to the mirrored copy).

-- non-vacuity (test): R₁ = identity, R₂ = the rational rotation by angle 2·atan(1/100) about z, a = e₁, b = e₂
-- (L2 = 1, g = 1): both are moved by |Δ|² = 4/10001, and the bound 16·L2·e2 is met by the rows (Δ² = 4/10001 each)
example :
    let R₂ : M3 ℚ := ⟨9999 / 10001, -200 / 10001, 0, 200 / 10001, 9999 / 10001, 0, 0, 0, 1⟩
    R₂.mul R₂.transpose = M3.one ∧ R₂.det = 1
      ∧ ((rowMul (⟨1, 0, 0⟩ : V3 ℚ) M3.one).sub (rowMul ⟨1, 0, 0⟩ R₂)).nrm2 ≤ 4 / 10001
      ∧ ((rowMul (⟨0, 1, 0⟩ : V3 ℚ) M3.one).sub (rowMul ⟨0, 1, 0⟩ R₂)).nrm2 ≤ 4 / 10001
      ∧ 0 < cross2 (⟨1, 0, 0⟩ : V3 ℚ) ⟨0, 1, 0⟩ := by
  refine ⟨?_, ?_, ?_, ?_, ?_⟩
  · ext <;> simp only [M3.mul, M3.transpose, M3.one] <;> norm_num
  · simp only [M3.det]; norm_num
  · simp only [rowMul, M3.one, V3.sub, V3.nrm2]; norm_num
  · simp only [rowMul, M3.one, V3.sub, V3.nrm2]; norm_num
  · simp only [cross2, V3.cross, V3.nrm2]; norm_num

end Quantitative

/-! ## 4. the qualifier is necessary: a collinear set does not determine the rotation -/

section Negative
variable [Field K] [LinearOrder K] [IsStrictOrderedRing K]

/-- the half-turn about the axis `d`:  `(2 d dᵀ − |d|² I)/|d|²` -/
def halfTurn (d : V3 K) : M3 K :=
  let s := d.nrm2
  ⟨(2 * d.x * d.x - s) / s, 2 * d.x * d.y / s, 2 * d.x * d.z / s,
   2 * d.y * d.x / s, (2 * d.y * d.y - s) / s, 2 * d.y * d.z / s,
   2 * d.z * d.x / s, 2 * d.z * d.y / s, (2 * d.z * d.z - s) / s⟩

omit [LinearOrder K] [IsStrictOrderedRing K] in
theorem halfTurn_isRot (d : V3 K) (hd : d.nrm2 ≠ 0) : IsRot (halfTurn d) := by
  constructor
  · ext <;> simp only [halfTurn, M3.mul, M3.transpose, M3.one] <;> field_simp <;> simp only [V3.nrm2] <;> ring
  · simp only [halfTurn, M3.det]; field_simp; simp only [V3.nrm2]; ring

omit [LinearOrder K] [IsStrictOrderedRing K] in
theorem halfTurn_fixes_axis (d : V3 K) (hd : d.nrm2 ≠ 0) (t : K) :
    rowMul (V3.smul t d) (halfTurn d) = V3.smul t d := by
  ext <;> simp only [halfTurn, rowMul, V3.smul] <;> field_simp <;> simp only [V3.nrm2] <;> ring

theorem halfTurn_ne_one (d : V3 K) (hd : d.nrm2 ≠ 0) : halfTurn d ≠ M3.one := by
  intro h
  have h0 := congrArg M3.a00 h
  have h1 := congrArg M3.a11 h
  have h2 := congrArg M3.a22 h
  simp only [halfTurn, M3.one] at h0 h1 h2
  rw [div_eq_one_iff_eq hd] at h0 h1 h2
  have : d.nrm2 = 0 := by
    simp only [V3.nrm2] at h0 h1 h2 ⊢
    linarith
  exact hd this

/-- **(4)** for a collinear centred set (all position vectors on one line through the origin) there are two
    DIFFERENT proper rotations that agree on every atom — the identity and the half-turn about the line (any
    rotation about the line would do; if all atoms sit at the origin, any two rotations).  So the rotation is not
    determined, and "non-collinear" cannot be dropped from the property. -/
theorem collinear_not_unique (c : List (V3 K)) (h : OnLine c) :
    ∃ R₁ R₂ : M3 K, (R₁.mul R₁.transpose = M3.one ∧ R₁.det = 1) ∧ (R₂.mul R₂.transpose = M3.one ∧ R₂.det = 1)
      ∧ R₁ ≠ R₂ ∧ ∀ a ∈ c, rowMul a R₁ = rowMul a R₂ := by
  obtain ⟨d, hd⟩ := h
  by_cases hd0 : d = V3.zero
  · -- every atom is at the origin
    have hx : (⟨1, 0, 0⟩ : V3 K).nrm2 ≠ 0 := by simp [V3.nrm2]
    refine ⟨halfTurn ⟨1, 0, 0⟩, M3.one, ⟨(halfTurn_isRot _ hx).orth, (halfTurn_isRot _ hx).det⟩,
      ⟨IsRot.one.orth, IsRot.one.det⟩, halfTurn_ne_one _ hx, ?_⟩
    intro a ha
    obtain ⟨t, rfl⟩ := hd a ha
    subst hd0
    ext <;> simp [rowMul, V3.smul, V3.zero]
  · have hn : d.nrm2 ≠ 0 := fun h0 => hd0 ((nrm2_eq_zero_iff d).mp h0)
    refine ⟨halfTurn d, M3.one, ⟨(halfTurn_isRot _ hn).orth, (halfTurn_isRot _ hn).det⟩,
      ⟨IsRot.one.orth, IsRot.one.det⟩, halfTurn_ne_one _ hn, ?_⟩
    intro a ha
    obtain ⟨t, rfl⟩ := hd a ha
    rw [halfTurn_fixes_axis d hn, rowMul_one]

/-- **the qualifier is exactly right**: the proper rotation is determined by its action on the atoms of `c`
    if and only if `c` is non-collinear -/
theorem rotation_determined_iff_nonCollinear (c : List (V3 K)) :
    (∀ R₁ R₂ : M3 K, R₁.mul R₁.transpose = M3.one → R₁.det = 1 → R₂.mul R₂.transpose = M3.one → R₂.det = 1 →
        (∀ a ∈ c, rowMul a R₁ = rowMul a R₂) → R₁ = R₂) ↔ NonCollinear c := by
  constructor
  · intro h
    rw [nonCollinear_iff_not_onLine]
    intro hl
    obtain ⟨R₁, R₂, ⟨ho₁, hd₁⟩, ⟨ho₂, hd₂⟩, hne, hag⟩ := collinear_not_unique c hl
    exact hne (h R₁ R₂ ho₁ hd₁ ho₂ hd₂ hag)
  · intro hnc R₁ R₂ ho₁ hd₁ ho₂ hd₂ hag
    exact recovery_rotation_unique R₁ R₂ ho₁ hd₁ ho₂ hd₂ c hag hnc

-- the witness, concretely (test): atoms (1,0,0), (-2,0,0), (5,0,0) on the x axis; half-turn about x vs identity
example : OnLine [(⟨1, 0, 0⟩ : V3 ℚ), ⟨-2, 0, 0⟩, ⟨5, 0, 0⟩] := by
  refine ⟨⟨1, 0, 0⟩, ?_⟩
  intro a ha
  simp only [List.mem_cons, List.not_mem_nil, or_false] at ha
  rcases ha with rfl | rfl | rfl
  · exact ⟨1, by ext <;> simp [V3.smul]⟩
  · exact ⟨-2, by ext <;> simp [V3.smul]⟩
  · exact ⟨5, by ext <;> simp [V3.smul]⟩

end Negative

/-! ## 5. the exact margin `maxCross2` the driver evaluates -/

section Margin
variable [Field K] [LinearOrder K] [IsStrictOrderedRing K]

omit [IsStrictOrderedRing K] in
theorem maxCrossWith_nonneg (a : V3 K) (l : List (V3 K)) : 0 ≤ maxCrossWith a l := by
  induction l with
  | nil => simp [maxCrossWith]
  | cons b t ih => simp only [maxCrossWith]; exact le_max_of_le_right ih

omit [IsStrictOrderedRing K] in
theorem maxCross2_nonneg (l : List (V3 K)) : 0 ≤ maxCross2 l := by
  induction l with
  | nil => simp [maxCross2]
  | cons a t ih => simp only [maxCross2]; exact le_max_of_le_right ih

omit [IsStrictOrderedRing K] in
theorem le_maxCrossWith (a b : V3 K) (l : List (V3 K)) (hb : b ∈ l) : cross2 a b ≤ maxCrossWith a l := by
  induction l with
  | nil => simp at hb
  | cons c t ih =>
    simp only [maxCrossWith]
    rcases List.mem_cons.mp hb with rfl | h
    · exact le_max_left _ _
    · exact le_max_of_le_right (ih h)

omit [IsStrictOrderedRing K] in
/-- every pair of atoms has `|a × b|² ≤ maxCross2` -/
theorem le_maxCross2 (l : List (V3 K)) (a b : V3 K) (ha : a ∈ l) (hb : b ∈ l) : cross2 a b ≤ maxCross2 l := by
  induction l with
  | nil => simp at ha
  | cons c t ih =>
    simp only [maxCross2]
    rcases List.mem_cons.mp ha with rfl | ha'
    · rcases List.mem_cons.mp hb with rfl | hb'
      · rw [cross2_self]; exact le_max_of_le_right (maxCross2_nonneg t)
      · exact le_max_of_le_left (le_maxCrossWith _ b t hb')
    · rcases List.mem_cons.mp hb with rfl | hb'
      · rw [cross2_comm]; exact le_max_of_le_left (le_maxCrossWith _ a t ha')
      · exact le_max_of_le_right (ih ha' hb')

omit [IsStrictOrderedRing K] in
theorem maxCrossWith_attained (a : V3 K) (l : List (V3 K)) (h : 0 < maxCrossWith a l) :
    ∃ b ∈ l, cross2 a b = maxCrossWith a l := by
  induction l with
  | nil => simp [maxCrossWith] at h
  | cons c t ih =>
    simp only [maxCrossWith] at h ⊢
    rcases le_total (maxCrossWith a t) (cross2 a c) with hle | hle
    · exact ⟨c, List.mem_cons_self, (max_eq_left hle).symm⟩
    · rw [max_eq_right hle] at h ⊢
      obtain ⟨b, hb, e⟩ := ih h
      exact ⟨b, List.mem_cons_of_mem _ hb, e⟩

omit [IsStrictOrderedRing K] in
/-- a positive `maxCross2` is attained by a pair of atoms -/
theorem maxCross2_attained (l : List (V3 K)) (h : 0 < maxCross2 l) :
    ∃ a ∈ l, ∃ b ∈ l, cross2 a b = maxCross2 l := by
  induction l with
  | nil => simp [maxCross2] at h
  | cons c t ih =>
    simp only [maxCross2] at h ⊢
    rcases le_total (maxCross2 t) (maxCrossWith c t) with hle | hle
    · rw [max_eq_left hle] at h ⊢
      obtain ⟨b, hb, e⟩ := maxCrossWith_attained c t h
      exact ⟨c, List.mem_cons_self, b, List.mem_cons_of_mem _ hb, e⟩
    · rw [max_eq_right hle] at h ⊢
      obtain ⟨a, ha, b, hb, e⟩ := ih h
      exact ⟨a, List.mem_cons_of_mem _ ha, b, List.mem_cons_of_mem _ hb, e⟩

omit [IsStrictOrderedRing K] in
/-- **the driver's number is the margin**: for `0 < m`, `NonCollinearBy m c ↔ m ≤ maxCross2 c` -/
theorem nonCollinearBy_iff_le_maxCross2 (c : List (V3 K)) (m : K) (hm : 0 < m) :
    NonCollinearBy m c ↔ m ≤ maxCross2 c := by
  constructor
  · rintro ⟨a, ha, b, hb, h⟩
    exact le_trans h (le_maxCross2 c a b ha hb)
  · intro h
    obtain ⟨a, ha, b, hb, e⟩ := maxCross2_attained c (lt_of_lt_of_le hm h)
    exact ⟨a, ha, b, hb, by rw [e]; exact h⟩

omit [IsStrictOrderedRing K] in
theorem nonCollinearBy_maxCross2 (c : List (V3 K)) (h : 0 < maxCross2 c) : NonCollinearBy (maxCross2 c) c :=
  (nonCollinearBy_iff_le_maxCross2 c _ h).mpr le_rfl

/-- **`NonCollinear c ↔ 0 < maxCross2 c`**: the class on which recovery of rotation and shift is a theorem is the
    class where the driver's exact margin is positive -/
theorem maxCross2_pos_iff (c : List (V3 K)) : 0 < maxCross2 c ↔ NonCollinear c := by
  constructor
  · intro h
    obtain ⟨a, ha, b, hb, e⟩ := maxCross2_attained c h
    exact ⟨a, ha, b, hb, (cross2_pos_iff a b).mp (by rw [e]; exact h)⟩
  · rintro ⟨a, ha, b, hb, h⟩
    exact lt_of_lt_of_le ((cross2_pos_iff a b).mpr h) (le_maxCross2 c a b ha hb)

omit [IsStrictOrderedRing K] in
/-- the margin is the same for the moved copy: proper rotations preserve `|a × b|²` (so it does not matter that the
    harness evaluates it on the reference while `recovery_rotation_close` speaks of the second geometry) -/
theorem maxCross2_map_rowMul (U : M3 K) (ho : U.mul U.transpose = M3.one) (hd : U.det = 1) (c : List (V3 K)) :
    maxCross2 (c.map (fun v => rowMul v U)) = maxCross2 c := by
  have hU : IsRot U := ⟨ho, hd⟩
  have hw : ∀ (a : V3 K) (l : List (V3 K)),
      maxCrossWith (rowMul a U) (l.map (fun v => rowMul v U)) = maxCrossWith a l := by
    intro a l
    induction l with
    | nil => rfl
    | cons b t ih => simp only [List.map_cons, maxCrossWith, ih, cross2_rowMul hU]
  induction c with
  | nil => rfl
  | cons a t ih => simp only [List.map_cons, maxCross2, ih, hw]

-- tests of the margin on concrete geometries (kernel evaluation at ℚ)
example : maxCross2 [(⟨1, 0, 0⟩ : V3 ℚ), ⟨-2, 0, 0⟩, ⟨5, 0, 0⟩] = 0 := by decide +kernel
example : maxCross2 [(⟨1, 0, 0⟩ : V3 ℚ), ⟨0, 2, 0⟩, ⟨-1, -2, 0⟩] = 4 := by decide +kernel
example : collinearityMargin [(⟨0, 0, 0⟩ : V3 ℚ), ⟨3, 0, 0⟩, ⟨0, 3, 0⟩] = 9 := by decide +kernel

end Margin

end QcelVerif.Kabsch
