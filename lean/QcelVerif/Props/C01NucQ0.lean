import QcelVerif.Props.C01NucPred
/-! C01: quarter 0 of the nuclide table (kernel evaluation), built in parallel with the other quarters. -/
namespace QcelVerif.PT
open QcelVerif
set_option maxRecDepth 100000
theorem nuclides_resolve_q0 : Gen.PT.nuclidesQ0.all nuclideRowOk = true := by decide +kernel
theorem nuclides_anycase_q0 : Gen.PT.nuclidesQ0.all nuclideRowAnycaseOk = true := by decide +kernel
theorem tree_rows_q0 : Gen.PT.nuclidesQ0.all treeRowOk = true := by decide +kernel
theorem masses_float_q0 : Gen.PT.nuclidesQ0.all massFloatOk = true := by decide +kernel
end QcelVerif.PT
