import QcelVerif.Model.CompareWide
import QcelVerif.Props.C19
/-!
# C19 extension — theorems about `Model/CompareWide.lean`

Manifest (audited by harness/c19.py):
  compare_recursiveW_iff, compare_recursiveW_raises_iff, compare_recursiveW_total,
  recErrsW_conservative, compareRecursiveW_conservative,
  protoCompare_eq, protoCompare_default_iff,
  mapKey_keys, mapKey_lookup_self, mapKey_lookup_other, massage_keys, massage_field,
  lexLe_trans, lexLe_total, sortBonds_perm, sortBonds_sorted, compare_molrecs_iff, compare_molrecs_raises_iff,
  recErrsW_list_strdict, recErrsW_list_seq, recErrsW_list_nolen, exactLeafW_arr, compareValuesW_ragged
(restated after the repairs 91c6178 / 8b4dd2e / ef204ac in /repo; `raisedW_phase_indep` no longer exists: nothing raises)
-/
namespace QcelVerif.Compare

/-! ## `compare_recursive` over the wide recursion -/

/-- names of the error entries of the wide recursion -/
def namesW (items : List ItemW) : List String := (errsOfW items).map Err.name

/-- **Wide `compare_recursive` returns True exactly when** `atol < 1` and every error entry the recursion produced is
excused: open to the sign-flip retry and absent from the sign-tolerant recursion, or forgiven.  (Since the repair
91c6178 an exact leaf against an array-like of size ≠ 1 is an ordinary error entry, no longer a ValueError.) -/
theorem compare_recursiveW_iff (atol rtol : Rat) (forgive : Option (List String)) (phase : PhaseOpt) (e c : Tree)
    (hm : ItemW.unmodelled ∉ recErrsW ⟨atol, rtol, false⟩ "root" e c)
    (hm' : ItemW.unmodelled ∉ recErrsW ⟨atol, rtol, true⟩ "root" e c) :
    compareRecursiveW atol rtol forgive phase e c = .verdict true ↔
      (atol < 1 ∧
        ∀ p ∈ namesW (recErrsW ⟨atol, rtol, false⟩ "root" e c),
          (PhaseListed phase p ∧ p ∉ namesW (recErrsW ⟨atol, rtol, true⟩ "root" e c)) ∨ Forgiven forgive p) := by
  have hc1 : (recErrsW ⟨atol, rtol, false⟩ "root" e c).contains .unmodelled = false := by simpa using hm
  have hc2 : (recErrsW ⟨atol, rtol, true⟩ "root" e c).contains .unmodelled = false := by simpa using hm'
  unfold compareRecursiveW
  by_cases ha : 1 ≤ atol
  · have : ¬ atol < 1 := Rat.not_lt.mpr ha
    simp [ha, this]
  · have hlt : atol < 1 := Rat.not_le.mp ha
    simp only [ha, if_false, hc1, hc2, Bool.and_false, Bool.false_eq_true, hlt, true_and]
    obtain ⟨o1, h1, m1⟩ := phaseStage_spec phase ((errsOfW (recErrsW ⟨atol, rtol, true⟩ "root" e c)).map Err.name)
      (errsOfW (recErrsW ⟨atol, rtol, false⟩ "root" e c))
    obtain ⟨o2, h2, m2⟩ := forgiveStage_spec forgive o1
    simp only [h1, h2]
    constructor
    · intro hv p hp
      have hemp : o2 = [] := by simpa using hv
      obtain ⟨x, hx, rfl⟩ := List.mem_map.mp hp
      by_cases hf : Forgiven forgive x.name
      · exact Or.inr hf
      · left
        refine Classical.byContradiction fun hcon => ?_
        have : x ∈ o2 := (m2 x).mpr ⟨(m1 x).mpr ⟨hx, fun ⟨hl, hn⟩ => hcon ⟨hl, hn⟩⟩, hf⟩
        simp [hemp] at this
    · intro hall
      have : o2 = [] := by
        apply List.eq_nil_iff_forall_not_mem.mpr
        intro x hx
        obtain ⟨hx1, hnf⟩ := (m2 x).mp hx
        obtain ⟨hxe, hnp⟩ := (m1 x).mp hx1
        rcases hall x.name (List.mem_map.mpr ⟨x, hxe, rfl⟩) with ⟨hl, hn⟩ | hf
        · exact hnp ⟨hl, hn⟩
        · exact hnf hf
      simp [this]

/-- **Wide `compare_recursive` raises exactly when** `atol ≥ 1` (the documented refusal) — nothing else raises on
modelled inputs any more. -/
theorem compare_recursiveW_raises_iff (atol rtol : Rat) (forgive : Option (List String)) (phase : PhaseOpt) (e c : Tree)
    (hm : ItemW.unmodelled ∉ recErrsW ⟨atol, rtol, false⟩ "root" e c)
    (hm' : ItemW.unmodelled ∉ recErrsW ⟨atol, rtol, true⟩ "root" e c) (x : Exc) :
    compareRecursiveW atol rtol forgive phase e c = .raised x ↔ 1 ≤ atol := by
  have hc1 : (recErrsW ⟨atol, rtol, false⟩ "root" e c).contains .unmodelled = false := by simpa using hm
  have hc2 : (recErrsW ⟨atol, rtol, true⟩ "root" e c).contains .unmodelled = false := by simpa using hm'
  cases x
  unfold compareRecursiveW
  by_cases ha : 1 ≤ atol
  · simp [ha]
  · simp only [ha, if_false, hc1, hc2, Bool.and_false, Bool.false_eq_true, iff_false]
    obtain ⟨o1, h1, _⟩ := phaseStage_spec phase ((errsOfW (recErrsW ⟨atol, rtol, true⟩ "root" e c)).map Err.name)
      (errsOfW (recErrsW ⟨atol, rtol, false⟩ "root" e c))
    obtain ⟨o2, h2, _⟩ := forgiveStage_spec forgive o1
    simp [h1, h2]

/-- the wide model always answers (a verdict or the documented ValueError) on its modelled inputs -/
theorem compare_recursiveW_total (atol rtol : Rat) (forgive : Option (List String)) (phase : PhaseOpt) (e c : Tree)
    (hm : ItemW.unmodelled ∉ recErrsW ⟨atol, rtol, false⟩ "root" e c)
    (hm' : ItemW.unmodelled ∉ recErrsW ⟨atol, rtol, true⟩ "root" e c) :
    compareRecursiveW atol rtol forgive phase e c ≠ .unmodelled := by
  have hc1 : (recErrsW ⟨atol, rtol, false⟩ "root" e c).contains .unmodelled = false := by simpa using hm
  have hc2 : (recErrsW ⟨atol, rtol, true⟩ "root" e c).contains .unmodelled = false := by simpa using hm'
  unfold compareRecursiveW
  simp only [hc1, hc2, Bool.and_false, Bool.false_eq_true, if_false]
  obtain ⟨o1, h1, _⟩ := phaseStage_spec phase ((errsOfW (recErrsW ⟨atol, rtol, true⟩ "root" e c)).map Err.name)
    (errsOfW (recErrsW ⟨atol, rtol, false⟩ "root" e c))
  obtain ⟨o2, h2, _⟩ := forgiveStage_spec forgive o1
  simp only [h1, h2]
  repeat' split
  all_goals simp

/-- the three repaired classes (91c6178, 8b4dd2e) as kernel-evaluated regression tests of the wide model, and two
pairs that were and stay accepted / rejected -/
example : compareRecursiveW (1/1000000) 0 none .off
    (.dict [("a", .sc (.int 1))]) (.dict [("a", .arr .int [2] [.npint 1, .npint 2])]) = .verdict false := by
  decide +kernel
example : compareRecursiveW (1/1000000) 0 none .off
    (.dict [("a", .sc (.npbool true))]) (.dict [("a", .list [.sc (.bool true), .sc (.bool true)])]) = .verdict false := by
  decide +kernel
example : compareRecursiveW (1/1000000) 0 none .off
    (.dict [("a", .sc (.int 1))]) (.dict [("a", .arr .int [1] [.npint 1])]) = .verdict true := by
  decide +kernel
example : compareRecursiveW (1/1000000) 0 none .off
    (.dict [("a", .list [.sc (.str "x"), .sc (.str "y")])]) (.dict [("a", .sc (.str "xy"))]) = .verdict false := by
  decide +kernel
example : compareRecursiveW (1/1000000) 0 (some ["a"]) .off
    (.dict [("a", .list [.sc (.str "x"), .sc (.str "y")])])
    (.dict [("a", .dict [("x", .sc (.int 1)), ("y", .sc (.int 2))])]) = .verdict true := by
  decide +kernel
example : compareRecursiveW (1/1000000) 0 none .off
    (.dict [("a", .list [.sc (.str "x"), .sc (.str "y")])])
    (.dict [("a", .dict [("x", .sc (.int 1)), ("y", .sc (.int 2))])]) = .verdict false := by
  decide +kernel
example : compareRecursiveW (1/1000000) 0 none .off
    (.dict [("a", .list [.sc (.flt (.fin 1)), .sc (.flt (.fin 2))])])
    (.dict [("a", .arr .flt [2] [.npflt (.fin 1), .npflt (.fin 2)])]) = .verdict true := by
  decide +kernel
example : compareRecursiveW (1/1000000) 0 none .off
    (.dict [("a", .sc (.flt (.fin 1)))])
    (.dict [("a", .list [.list [.sc (.flt (.fin 1)), .sc (.flt (.fin 2))], .list [.sc (.flt (.fin 3))]])]) = .verdict false := by
  decide +kernel

/-! ## (B) `ProtoModel.compare` -/

/-- `ProtoModel.compare(other, **kw)` is `compare_recursive` on the two `.dict()` trees with `compare_recursive`'s own
keyword defaults for whatever the caller leaves out (basemodels.py:196-198) -/
theorem protoCompare_eq (kw : CompareKw) (a b : Tree) :
    protoCompare kw a b =
      compareRecursiveW (kw.atol.getD atolDefault) (kw.rtol.getD rtolDefault) kw.forgive kw.phase a b := rfl

theorem atolDefault_lt_one : atolDefault < 1 := by decide +kernel

/-- **`a.compare(b)` with no keywords returns True exactly when** the recursion with atol = 1e-6, rtol = 1e-16 produces
no error entry at all (nothing is forgiven, no sign retry). -/
theorem protoCompare_default_iff (a b : Tree)
    (hm : ItemW.unmodelled ∉ recErrsW ⟨atolDefault, rtolDefault, false⟩ "root" a b)
    (hm' : ItemW.unmodelled ∉ recErrsW ⟨atolDefault, rtolDefault, true⟩ "root" a b) :
    protoCompare {} a b = .verdict true ↔ namesW (recErrsW ⟨atolDefault, rtolDefault, false⟩ "root" a b) = [] := by
  show compareRecursiveW atolDefault rtolDefault none .off a b = .verdict true ↔ _
  rw [compare_recursiveW_iff _ _ _ _ _ _ hm hm']
  simp only [atolDefault_lt_one, true_and, PhaseListed, false_and, Forgiven, Option.getD_none, List.not_mem_nil,
    exists_const, or_self]
  constructor
  · intro h2
    exact List.eq_nil_iff_forall_not_mem.mpr fun p hp => h2 p hp
  · intro h2 p hp
    simp [h2] at hp

/-- non-vacuity (tests): the default tolerance is the double 1e-6 — a leaf off by 1e-6 + 1e-12 fails, by 9e-7 passes -/
example : protoCompare {} (.dict [("x", .sc (.flt (.fin 1)))]) (.dict [("x", .sc (.flt (.fin (1 + 9/10000000))))])
    = .verdict true := by decide +kernel
example : protoCompare {} (.dict [("x", .sc (.flt (.fin 1)))]) (.dict [("x", .sc (.flt (.fin (1 + 1000001/1000000000000))))])
    = .verdict false := by decide +kernel
example : protoCompare { forgive := some ["x"] } (.dict [("x", .sc (.flt (.fin 1)))]) (.dict [("x", .sc (.flt (.fin 2)))])
    = .verdict true := by decide +kernel

/-! ## (A) `compare_molrecs`: the normalisation -/

/-- `mapKey` keeps the key list (so "the key sets match" is a statement about the raw records) -/
theorem mapKey_keys (k : String) (f : Tree → Except MErr Tree) : ∀ kv kv',
    mapKey k f kv = .ok kv' → kv'.map Prod.fst = kv.map Prod.fst
  | [], kv', h => by simp [mapKey] at h; subst h; rfl
  | (k', v) :: t, kv', h => by
    simp only [mapKey] at h
    by_cases hk : (k == k') = true
    · simp only [hk, if_true] at h
      cases hf : f v with
      | error e => simp [hf] at h
      | ok v' => simp [hf] at h; subst h; rfl
    · simp only [hk, if_false, Bool.false_eq_true] at h
      cases hr : mapKey k f t with
      | error e => simp [hr] at h
      | ok t' =>
        simp [hr] at h; subst h
        simp [mapKey_keys k f t t' hr]

/-- the value stored under `k` is replaced by `f` of it -/
theorem mapKey_lookup_self (k : String) (f : Tree → Except MErr Tree) : ∀ kv kv',
    mapKey k f kv = .ok kv' →
      (lookup k kv = none ∧ lookup k kv' = none) ∨ (∃ v v', lookup k kv = some v ∧ f v = .ok v' ∧ lookup k kv' = some v')
  | [], kv', h => by simp [mapKey] at h; subst h; simp [lookup]
  | (k', v) :: t, kv', h => by
    simp only [mapKey] at h
    by_cases hk : (k == k') = true
    · simp only [hk, if_true] at h
      cases hf : f v with
      | error e => simp [hf] at h
      | ok v' =>
        simp [hf] at h; subst h
        exact Or.inr ⟨v, v', by simp [lookup, hk], hf, by simp [lookup, hk]⟩
    · simp only [hk, if_false, Bool.false_eq_true] at h
      cases hr : mapKey k f t with
      | error e => simp [hr] at h
      | ok t' =>
        simp [hr] at h; subst h
        simpa [lookup, hk] using mapKey_lookup_self k f t t' hr

/-- every other key keeps its value -/
theorem mapKey_lookup_other (k : String) (f : Tree → Except MErr Tree) (j : String) (hj : (j == k) = false) : ∀ kv kv',
    mapKey k f kv = .ok kv' → lookup j kv' = lookup j kv
  | [], kv', h => by simp [mapKey] at h; subst h; rfl
  | (k', v) :: t, kv', h => by
    simp only [mapKey] at h
    by_cases hk : (k == k') = true
    · simp only [hk, if_true] at h
      have hkk : k = k' := by simpa using hk
      cases hf : f v with
      | error e => simp [hf] at h
      | ok v' =>
        simp [hf] at h; subst h
        have : (j == k') = false := by rw [← hkk]; exact hj
        simp [lookup, this]
    · simp only [hk, if_false, Bool.false_eq_true] at h
      cases hr : mapKey k f t with
      | error e => simp [hr] at h
      | ok t' =>
        simp [hr] at h; subst h
        simp [lookup, mapKey_lookup_other k f j hj t t' hr]

theorem massage_keys (kv : List (String × Tree)) (t' : Tree) (h : massage (.dict kv) = .ok t') :
    ∃ kv', t' = .dict kv' ∧ kv'.map Prod.fst = kv.map Prod.fst := by
  simp only [massage] at h
  cases h1 : mapKey "fragment_files" normFiles kv with
  | error e => simp [h1] at h
  | ok kv1 =>
    cases h2 : mapKey "fragment_separators" normSeps kv1 with
    | error e => simp [h1, h2] at h
    | ok kv2 =>
      cases h3 : mapKey "provenance" normProv kv2 with
      | error e => simp [h1, h2, h3] at h
      | ok kv3 =>
        cases h4 : mapKey "connectivity" normConn kv3 with
        | error e => simp [h1, h2, h3, h4] at h
        | ok kv4 =>
          simp [h1, h2, h3, h4] at h
          refine ⟨kv4, h.symm, ?_⟩
          rw [mapKey_keys _ _ _ _ h4, mapKey_keys _ _ _ _ h3, mapKey_keys _ _ _ _ h2, mapKey_keys _ _ _ _ h1]

/-- the normaliser `massage_dicts` applies to the value stored under a key (identity for every ordinary field:
geometry, units, masses, charges, … are compared as they are) -/
def fieldNorm (k : String) : Tree → Except MErr Tree :=
  if k == "fragment_files" then normFiles
  else if k == "fragment_separators" then normSeps
  else if k == "provenance" then normProv
  else if k == "connectivity" then normConn
  else fun v => .ok v

/-- **What `compare_molrecs` compares**: the massaged record has, under every key `j`, exactly `fieldNorm j` of the raw
value (absent keys stay absent) — files as text, separators as ints, provenance minus `version`, bonds as
(low, high, order) stably sorted by the low atom; every other field unchanged. -/
theorem massage_field (kv kv' : List (String × Tree)) (h : massage (.dict kv) = .ok (.dict kv')) (j : String) :
    (lookup j kv = none ∧ lookup j kv' = none) ∨
    (∃ v v', lookup j kv = some v ∧ fieldNorm j v = .ok v' ∧ lookup j kv' = some v') := by
  simp only [massage] at h
  cases h1 : mapKey "fragment_files" normFiles kv with
  | error e => simp [h1] at h
  | ok kv1 =>
    cases h2 : mapKey "fragment_separators" normSeps kv1 with
    | error e => simp [h1, h2] at h
    | ok kv2 =>
      cases h3 : mapKey "provenance" normProv kv2 with
      | error e => simp [h1, h2, h3] at h
      | ok kv3 =>
        cases h4 : mapKey "connectivity" normConn kv3 with
        | error e => simp [h1, h2, h3, h4] at h
        | ok kv4 =>
          simp [h1, h2, h3, h4] at h
          subst h
          by_cases e1 : (j == "fragment_files") = true
          · have hj : j = "fragment_files" := by simpa using e1
            subst hj
            have o2 := mapKey_lookup_other "fragment_separators" normSeps "fragment_files" (by decide) _ _ h2
            have o3 := mapKey_lookup_other "provenance" normProv "fragment_files" (by decide) _ _ h3
            have o4 := mapKey_lookup_other "connectivity" normConn "fragment_files" (by decide) _ _ h4
            have s1 := mapKey_lookup_self _ _ _ _ h1
            rw [o4, o3, o2]
            simpa [fieldNorm] using s1
          · by_cases e2 : (j == "fragment_separators") = true
            · have hj : j = "fragment_separators" := by simpa using e2
              subst hj
              have o1 := mapKey_lookup_other "fragment_files" normFiles "fragment_separators" (by decide) _ _ h1
              have o3 := mapKey_lookup_other "provenance" normProv "fragment_separators" (by decide) _ _ h3
              have o4 := mapKey_lookup_other "connectivity" normConn "fragment_separators" (by decide) _ _ h4
              have s2 := mapKey_lookup_self _ _ _ _ h2
              rw [o4, o3, ← o1]
              simpa [fieldNorm] using s2
            · by_cases e3 : (j == "provenance") = true
              · have hj : j = "provenance" := by simpa using e3
                subst hj
                have o1 := mapKey_lookup_other "fragment_files" normFiles "provenance" (by decide) _ _ h1
                have o2 := mapKey_lookup_other "fragment_separators" normSeps "provenance" (by decide) _ _ h2
                have o4 := mapKey_lookup_other "connectivity" normConn "provenance" (by decide) _ _ h4
                have s3 := mapKey_lookup_self _ _ _ _ h3
                rw [o4, ← o1, ← o2]
                simpa [fieldNorm] using s3
              · by_cases e4 : (j == "connectivity") = true
                · have hj : j = "connectivity" := by simpa using e4
                  subst hj
                  have o1 := mapKey_lookup_other "fragment_files" normFiles "connectivity" (by decide) _ _ h1
                  have o2 := mapKey_lookup_other "fragment_separators" normSeps "connectivity" (by decide) _ _ h2
                  have o3 := mapKey_lookup_other "provenance" normProv "connectivity" (by decide) _ _ h3
                  have s4 := mapKey_lookup_self _ _ _ _ h4
                  rw [← o1, ← o2, ← o3]
                  simpa [fieldNorm] using s4
                · have f1 : (j == "fragment_files") = false := by simpa using e1
                  have f2 : (j == "fragment_separators") = false := by simpa using e2
                  have f3 : (j == "provenance") = false := by simpa using e3
                  have f4 : (j == "connectivity") = false := by simpa using e4
                  have o1 := mapKey_lookup_other _ normFiles j f1 _ _ h1
                  have o2 := mapKey_lookup_other _ normSeps j f2 _ _ h2
                  have o3 := mapKey_lookup_other _ normProv j f3 _ _ h3
                  have o4 := mapKey_lookup_other _ normConn j f4 _ _ h4
                  rw [o4, o3, o2, o1]
                  cases hl : lookup j kv with
                  | none => exact Or.inl ⟨rfl, rfl⟩
                  | some v => exact Or.inr ⟨v, v, rfl, by simp [fieldNorm, f1, f2, f3, f4], rfl⟩

/-! ### the bond regularisation: a stable sort by the whole (low, high, order) tuple -/

theorem lexLe_trans {a b c : Rat × Rat × Rat} (h1 : lexLe a b) (h2 : lexLe b c) : lexLe a c := by
  unfold lexLe at *
  obtain ⟨p1, q1⟩ := h1
  obtain ⟨p2, q2⟩ := h2
  refine ⟨Rat.le_trans p1 p2, fun hca => ?_⟩
  obtain ⟨r1, s1⟩ := q1 (Rat.le_trans p2 hca)
  obtain ⟨r2, s2⟩ := q2 (Rat.le_trans hca p1)
  refine ⟨Rat.le_trans r1 r2, fun hca2 => ?_⟩
  exact Rat.le_trans (s1 (Rat.le_trans r2 hca2)) (s2 (Rat.le_trans hca2 r1))

theorem lexLe_total {a b : Rat × Rat × Rat} (h : ¬ lexLe a b) : lexLe b a := by
  unfold lexLe at *
  by_cases p : a.1 ≤ b.1
  · by_cases p' : b.1 ≤ a.1
    · refine ⟨p', fun _ => ?_⟩
      by_cases q : a.2.1 ≤ b.2.1
      · by_cases q' : b.2.1 ≤ a.2.1
        · refine ⟨q', fun _ => ?_⟩
          rcases Rat.le_total (a := b.2.2) (b := a.2.2) with r | r
          · exact r
          · exact absurd ⟨p, fun _ => ⟨q, fun _ => r⟩⟩ h
        · exact absurd ⟨p, fun _ => ⟨q, fun hq => absurd hq q'⟩⟩ h
      · exact ⟨Rat.le_of_lt (Rat.not_le.mp q), fun hq => absurd hq q⟩
    · exact absurd ⟨p, fun hp => absurd hp p'⟩ h
  · exact ⟨Rat.le_of_lt (Rat.not_le.mp p), fun hp => absurd hp p⟩

theorem insertBond_perm (t : Tree) : ∀ l, (insertBond t l).Perm (t :: l)
  | [] => by simp [insertBond]
  | u :: us => by
    simp only [insertBond]
    split
    · exact List.Perm.refl _
    · exact ((insertBond_perm t us).cons u).trans (List.Perm.swap t u us)

/-- the result holds the same bonds -/
theorem sortBonds_perm : ∀ l, (sortBonds l).Perm l
  | [] => by simp [sortBonds]
  | t :: ts => by
    simp only [sortBonds]
    exact (insertBond_perm t _).trans ((sortBonds_perm ts).cons t)

theorem insertBond_sorted (t : Tree) : ∀ l, l.Pairwise (fun a b => lexLe (bondKey a) (bondKey b)) →
    (insertBond t l).Pairwise (fun a b => lexLe (bondKey a) (bondKey b))
  | [], _ => by simp [insertBond]
  | u :: us, h => by
    simp only [insertBond]
    have hu := List.pairwise_cons.mp h
    split
    · rename_i hle
      refine List.pairwise_cons.mpr ⟨?_, h⟩
      intro a ha
      rcases List.mem_cons.mp ha with rfl | ha
      · exact hle
      · exact lexLe_trans hle (hu.1 a ha)
    · rename_i hnle
      refine List.pairwise_cons.mpr ⟨?_, insertBond_sorted t us hu.2⟩
      intro a ha
      rcases List.mem_cons.mp ((insertBond_perm t us).mem_iff.mp ha) with rfl | ha
      · exact lexLe_total hnle
      · exact hu.1 a ha

/-- … in lexicographic order of (low atom, high atom, bond order): Python's tuple order (repair ef204ac) -/
theorem sortBonds_sorted : ∀ l, (sortBonds l).Pairwise (fun a b => lexLe (bondKey a) (bondKey b))
  | [] => by simp [sortBonds]
  | t :: ts => by
    simp only [sortBonds]
    exact insertBond_sorted t _ (sortBonds_sorted ts)

/-! ### the verdict -/

/-- **`compare_molrecs` passes iff** both raw records normalise (no exception inside `massage_dicts`) and the two
normalised records pass `compare_recursive` with the same tolerances and forgive list (no sign retry) — i.e. agree on
every field after exactly the normalisation `massage_field` describes, within tolerance on the float fields.
`relative_geoms` is anything but 'align'. -/
theorem compare_molrecs_iff (atol rtol : Rat) (forgive : Option (List String)) (rg : RelGeoms) (e c : Tree) :
    compareMolrecs atol rtol forgive rg e c = .verdict true ↔
      (rg ≠ .align ∧ ∃ e' c', massage e = .ok e' ∧ massage c = .ok c' ∧
        compareRecursiveW atol rtol forgive .off e' c' = .verdict true) := by
  unfold compareMolrecs
  cases he : massage e with
  | error x => cases x <;> simp
  | ok e' =>
    cases hc : massage c with
    | error x => cases x <;> simp
    | ok c' =>
      by_cases hrg : rg = .align
      · simp [hrg]
      · simp only [hrg, if_false, ne_eq, not_false_eq_true, true_and, Except.ok.injEq, exists_and_left, exists_eq_left']
        cases hr : compareRecursiveW atol rtol forgive .off e' c' with
        | verdict b => cases b <;> simp [MRes.ofRes]
        | raised x => cases x; simp [MRes.ofRes]
        | unmodelled => simp [MRes.ofRes]

/-- which exceptions leave `compare_molrecs`: the first one `massage_dicts` raises (expected record first), else the
ValueError of `compare_recursive` -/
theorem compare_molrecs_raises_iff (atol rtol : Rat) (forgive : Option (List String)) (rg : RelGeoms) (e c : Tree) (x : MExc) :
    compareMolrecs atol rtol forgive rg e c = .raised x ↔
      (massage e = .error (.raised x) ∨
       (∃ e', massage e = .ok e' ∧ massage c = .error (.raised x)) ∨
       (rg ≠ .align ∧ x = .valueError ∧ ∃ e' c', massage e = .ok e' ∧ massage c = .ok c' ∧
          compareRecursiveW atol rtol forgive .off e' c' = .raised .valueError)) := by
  unfold compareMolrecs
  cases he : massage e with
  | error y => cases y <;> simp
  | ok e' =>
    cases hc : massage c with
    | error y => cases y <;> simp
    | ok c' =>
      by_cases hrg : rg = .align
      · simp [hrg]
      · simp only [hrg, if_false, ne_eq, not_false_eq_true, true_and, Except.ok.injEq, exists_and_left, exists_eq_left',
          reduceCtorEq, false_or]
        cases hr : compareRecursiveW atol rtol forgive .off e' c' with
        | verdict b => simp [MRes.ofRes]
        | raised y => cases y; simp [MRes.ofRes]; exact eq_comm
        | unmodelled => simp [MRes.ofRes]

/-- non-vacuity (tests): version is dropped, a reversed bond is the same bond, units are compared as text -/
example : compareMolrecs atolDefault rtolDefault none .exact
    (.dict [("units", .sc (.str "Angstrom")), ("provenance", .dict [("creator", .sc (.str "q")), ("version", .sc (.str "1"))]),
            ("connectivity", .list [.list [.sc (.int 1), .sc (.int 0), .sc (.flt (.fin 1))]])])
    (.dict [("units", .sc (.str "Angstrom")), ("provenance", .dict [("creator", .sc (.str "q")), ("version", .sc (.str "2"))]),
            ("connectivity", .list [.list [.sc (.int 0), .sc (.int 1), .sc (.flt (.fin 1))]])]) = .verdict true := by
  decide +kernel
example : compareMolrecs atolDefault rtolDefault none .exact
    (.dict [("units", .sc (.str "Angstrom"))]) (.dict [("units", .sc (.str "Bohr"))]) = .verdict false := by
  decide +kernel
/-- regression test of ef204ac: the bonds 0-2, 1-0 listed in that order come out as 0-1, 0-2 (second atoms 1, 2) -/
example : (match normConn (.list [.list [.sc (.int 0), .sc (.int 2), .sc (.flt (.fin 1))], .list [.sc (.int 1), .sc (.int 0), .sc (.flt (.fin 1))]]) with
    | .ok (.list [.list [_, .sc (.int x), _], .list [_, .sc (.int y), _]]) => (x, y)
    | _ => (0, 0)) = (1, 2) := by
  decide +kernel
/-- … so two listings of the same bonds compare equal -/
example : compareMolrecs atolDefault rtolDefault none .exact
    (.dict [("connectivity", .list [.list [.sc (.int 0), .sc (.int 1), .sc (.flt (.fin 1))], .list [.sc (.int 0), .sc (.int 2), .sc (.flt (.fin 1))]])])
    (.dict [("connectivity", .list [.list [.sc (.int 2), .sc (.int 0), .sc (.flt (.fin 1))], .list [.sc (.int 0), .sc (.int 1), .sc (.flt (.fin 1))]])])
    = .verdict true := by
  decide +kernel

/-! ## the wide model is a conservative extension of `Model/Compare.lean` -/

def liftItem : Item → ItemW
  | .err e => .err e
  | .unmodelled => .unmodelled

theorem verdictOfW_lift (name : String) (tag : Nat) (r : Res) :
    verdictOfW name tag r = (verdictOf name tag r).map liftItem := by
  cases r with
  | verdict b => cases b <;> rfl
  | raised e => rfl
  | unmodelled => rfl

theorem verdictOf_unmodelled (name : String) (tag : Nat) (r : Res) (h : Item.unmodelled ∉ verdictOf name tag r) :
    r ≠ .unmodelled := by
  intro hr; subst hr; simp [verdictOf] at h

theorem compareValuesW_eq (o : VOpts) (e c : Tree) (hf : ∃ f, flatten e = .ok f) (h : compareValues o e c ≠ .unmodelled) :
    compareValuesW o e c = compareValues o e c := by
  obtain ⟨f, hf⟩ := hf
  unfold compareValuesW
  rw [hf]
  cases hr : compareValues o e c with
  | unmodelled => exact absurd hr h
  | verdict b => rfl
  | raised x => rfl

theorem compareExactW_eq (phase : Bool) (e c : Tree) (h : compareExact phase e c ≠ .unmodelled) :
    compareExactW phase e c = compareExact phase e c := by
  unfold compareExactW
  unfold compareExact at h ⊢
  cases he : flatten e with
  | unmodelled => simp
  | notArrayLike => simp
  | ok fe =>
    cases hk : fe.kind with
    | none => cases hc : flatten c <;> simp [hk]
    | some ke =>
      cases hc : flatten c with
      | unmodelled => simp [he, hc] at h
      | notArrayLike => simp [he, hc] at h
      | ok fc => simp [hk]

theorem exactLeafW_lift (name : String) (s : Sc) (c : Tree) (h : Item.unmodelled ∉ exactLeaf name s c) :
    exactLeafW name s c = (exactLeaf name s c).map liftItem := by
  cases c with
  | sc t => by_cases hh : scEq s t = true <;> simp [exactLeafW, exactLeaf, hh, liftItem]
  | list l =>
    cases hs : s.isNumpy
    · simp [exactLeafW, exactLeaf, hs, liftItem]
    · simp [exactLeaf, hs] at h
  | dict kv => simp [exactLeafW, exactLeaf, liftItem]
  | arr k sh fl => simp [exactLeaf] at h

mutual
/-- on every pair the narrow model answers, the wide recursion produces the same entries -/
theorem recErrsW_conservative (o : ROpts) (name : String) : ∀ e c, Item.unmodelled ∉ recErrs o name e c →
    recErrsW o name e c = (recErrs o name e c).map liftItem
  | .sc (.str s), c, h => by simp only [recErrs] at h; simp only [recErrsW, recErrs]; exact exactLeafW_lift _ _ _ h
  | .sc (.int n), c, h => by simp only [recErrs] at h; simp only [recErrsW, recErrs]; exact exactLeafW_lift _ _ _ h
  | .sc (.bool b), c, h => by simp only [recErrs] at h; simp only [recErrsW, recErrs]; exact exactLeafW_lift _ _ _ h
  | .sc (.cpx z), c, h => by simp only [recErrs] at h; simp only [recErrsW, recErrs]; exact exactLeafW_lift _ _ _ h
  | .sc (.npcpx z), c, h => by simp only [recErrs] at h; simp only [recErrsW, recErrs]; exact exactLeafW_lift _ _ _ h
  | .sc (.npbool b), c, h => by simp only [recErrs] at h; simp only [recErrsW, recErrs]; exact exactLeafW_lift _ _ _ h
  | .sc (.flt x), c, h => by
    simp only [recErrs] at h; simp only [recErrsW, recErrs]
    rw [compareValuesW_eq _ _ _ ⟨_, rfl⟩ (verdictOf_unmodelled _ _ _ h)]; exact verdictOfW_lift ..
  | .sc (.npflt x), c, h => by
    simp only [recErrs] at h; simp only [recErrsW, recErrs]
    rw [compareValuesW_eq _ _ _ ⟨_, rfl⟩ (verdictOf_unmodelled _ _ _ h)]; exact verdictOfW_lift ..
  | .sc (.npint n), c, h => by
    simp only [recErrs] at h; simp only [recErrsW, recErrs]
    rw [compareValuesW_eq _ _ _ ⟨_, rfl⟩ (verdictOf_unmodelled _ _ _ h)]; exact verdictOfW_lift ..
  | .sc .none, c, _ => by
    simp only [recErrsW, recErrs]
    split <;> simp [liftItem]
  | .arr k sh fl, c, h => by
    simp only [recErrs] at h; simp only [recErrsW, recErrs]
    by_cases hk : k = .flt
    · simp only [hk, if_true] at h ⊢
      rw [compareValuesW_eq _ _ _ ⟨_, rfl⟩ (verdictOf_unmodelled _ _ _ h)]; exact verdictOfW_lift ..
    · simp only [hk, if_false] at h ⊢
      rw [compareExactW_eq _ _ _ (verdictOf_unmodelled _ _ _ h)]; exact verdictOfW_lift ..
  | .list es, c, h => by
    cases c with
    | sc t =>
      cases t
      all_goals first
        | (exfalso; simp [recErrs] at h; done)
        | simp [recErrsW, recErrs, asSeq, liftItem]
    | dict kv => exfalso; simp [recErrs] at h
    | arr k sh fl => exfalso; simp [recErrs] at h
    | list cs =>
      simp only [recErrs] at h
      simp only [recErrsW, recErrs, asSeq]
      by_cases hl : es.length = cs.length
      · simp only [hl, ne_eq, not_true_eq_false, if_false] at h ⊢
        exact recListW_conservative o name 0 es cs h
      · simp [hl, liftItem]
  | .dict ekv, c, h => by
    cases c with
    | sc t => simp [recErrsW, recErrs, liftItem]
    | list l => simp [recErrsW, recErrs, liftItem]
    | arr k sh fl => simp [recErrsW, recErrs, liftItem]
    | dict ckv =>
      simp only [recErrs] at h
      have h3 : Item.unmodelled ∉ recDict o name ekv ckv := fun hm => h (List.mem_append_right _ hm)
      simp only [recErrsW, recErrs, List.map_append]
      rw [recDictW_conservative o name ekv ckv h3]
      congr 1
      congr 1
      · split <;> simp [liftItem]
      · split <;> simp [liftItem]
theorem recListW_conservative (o : ROpts) (name : String) : ∀ i es cs, Item.unmodelled ∉ recList o name i es cs →
    recListW o name i es cs = (recList o name i es cs).map liftItem
  | _, [], _, _ => by simp [recListW, recList]
  | _, _ :: _, [], _ => by simp [recListW, recList]
  | i, e :: es, c :: cs, h => by
    simp only [recList] at h
    have h1 : Item.unmodelled ∉ recErrs o (name ++ "." ++ toString i) e c := fun hm => h (List.mem_append_left _ hm)
    have h2 : Item.unmodelled ∉ recList o name (i + 1) es cs := fun hm => h (List.mem_append_right _ hm)
    simp only [recListW, recList, List.map_append]
    rw [recErrsW_conservative o _ e c h1, recListW_conservative o name (i + 1) es cs h2]
theorem recDictW_conservative (o : ROpts) (name : String) : ∀ ekv ckv, Item.unmodelled ∉ recDict o name ekv ckv →
    recDictW o name ekv ckv = (recDict o name ekv ckv).map liftItem
  | [], _, _ => by simp [recDictW, recDict]
  | (k, e) :: rest, ckv, h => by
    simp only [recDict] at h
    have h2 : Item.unmodelled ∉ recDict o name rest ckv := fun hm => h (List.mem_append_right _ hm)
    simp only [recDictW, recDict, List.map_append]
    rw [recDictW_conservative o name rest ckv h2]
    cases hl : lookup k ckv with
    | none => simp
    | some c =>
      have h1 : Item.unmodelled ∉ recErrs o (name ++ "." ++ k) e c := by
        intro hm; apply h; apply List.mem_append_left; simpa [hl] using hm
      simp only
      rw [recErrsW_conservative o _ e c h1]
end

theorem errsOfW_lift : ∀ l : List Item, errsOfW (l.map liftItem) = errsOf l
  | [] => rfl
  | .err e :: t => by simp [errsOfW, errsOf, liftItem, errsOfW_lift t]
  | .unmodelled :: t => by simp [errsOfW, errsOf, liftItem, errsOfW_lift t]

theorem lift_contains_unmodelled (l : List Item) (h : Item.unmodelled ∉ l) :
    (l.map liftItem).contains .unmodelled = false := by
  induction l with
  | nil => rfl
  | cons a t ih =>
    cases a with
    | err e => simpa [liftItem] using ih (fun hm => h (List.mem_cons_of_mem _ hm))
    | unmodelled => simp at h

/-- **Conservative extension**: wherever the narrow model answers (the scope of the existing theorems), the wide
model gives the same answer — so `compare_recursive_iff` and its corollaries hold verbatim for `compareRecursiveW` there,
and the wide model only adds answers on the pairs that used to be `unmodelled`. -/
theorem compareRecursiveW_conservative (atol rtol : Rat) (forgive : Option (List String)) (phase : PhaseOpt) (e c : Tree)
    (hm : Item.unmodelled ∉ recErrs ⟨atol, rtol, false⟩ "root" e c)
    (hm' : Item.unmodelled ∉ recErrs ⟨atol, rtol, true⟩ "root" e c) :
    compareRecursiveW atol rtol forgive phase e c = compareRecursive atol rtol forgive phase e c := by
  have hc1 : (recErrs ⟨atol, rtol, false⟩ "root" e c).contains .unmodelled = false := by simpa using hm
  have hc2 : (recErrs ⟨atol, rtol, true⟩ "root" e c).contains .unmodelled = false := by simpa using hm'
  unfold compareRecursiveW compareRecursive
  rw [recErrsW_conservative _ _ e c hm, recErrsW_conservative _ _ e c hm']
  simp only [errsOfW_lift, lift_contains_unmodelled _ hm, lift_contains_unmodelled _ hm', hc1, hc2,
    Bool.and_false, Bool.false_eq_true, if_false]
  rfl

/-! ## what the new pairs mean, declaratively -/

/-- **A str or dict where a list is expected is one error entry at that node** (repair 8b4dd2e): never a pass
unless that node is forgiven. -/
theorem recErrsW_list_strdict (o : ROpts) (name : String) (es : List Tree) :
    (∀ s, recErrsW o name (.list es) (.sc (.str s)) = [.err ⟨name, 8⟩]) ∧
    (∀ kv, recErrsW o name (.list es) (.dict kv) = [.err ⟨name, 8⟩]) := by
  constructor <;> intro _ <;> simp only [recErrsW]

/-- **An ndarray where a list is expected is compared exactly as the list of its rows** (`asSeq`): the wide case
reduces to the list-vs-list clause of the narrow characterisation. -/
theorem recErrsW_list_seq (o : ROpts) (name : String) (es : List Tree) (k : Kind) (n : Nat) (rest : List Nat) (fl : List Sc) :
    recErrsW o name (.list es) (.arr k (n :: rest) fl) = recErrsW o name (.list es) (.list (arrRows k n rest fl)) := by
  simp only [recErrsW, asSeq]

/-- … and anything without a `len()` (numbers, None, 0-d arrays) is the single entry "Expected computed to have a __len__()" -/
theorem recErrsW_list_nolen (o : ROpts) (name : String) (es : List Tree) :
    (∀ t, (∀ s, t ≠ .str s) → recErrsW o name (.list es) (.sc t) = [.err ⟨name, 3⟩]) ∧
    (∀ k fl, recErrsW o name (.list es) (.arr k [] fl) = [.err ⟨name, 3⟩]) := by
  constructor
  · intro t ht
    cases t <;> first | (simp only [recErrsW, asSeq]; done) | exact absurd rfl (ht _)
  · intro k fl; simp only [recErrsW, asSeq]

/-- **An exact leaf against an ndarray** (repair 91c6178): no entry iff the array has exactly one element and it
equals the leaf; otherwise exactly the mismatch entry — never an exception, never unmodelled. -/
theorem exactLeafW_arr (name : String) (s : Sc) (k : Kind) (sh : List Nat) (fl : List Sc) :
    (exactLeafW name s (.arr k sh fl) = [] ↔ ∃ t, fl = [t] ∧ scEq s t = true) ∧
    (exactLeafW name s (.arr k sh fl) = [] ∨ exactLeafW name s (.arr k sh fl) = [.err ⟨name, 2⟩]) := by
  simp only [exactLeafW]
  match fl with
  | [] => simp [sizeRule]
  | [t] => by_cases h : scEq s t = true <;> simp [sizeRule, h]
  | _ :: _ :: _ => simp [sizeRule]

/-- ragged `computed` under a numeric leaf: `np.array` raises inside the helper, the verdict is False -/
theorem compareValuesW_ragged (o : VOpts) (e c : Tree) (f : Flat) (he : flatten e = .ok f) (hc : flatten c = .unmodelled)
    (hp : o.passnone = false) : compareValuesW o e c = .verdict false := by
  unfold compareValuesW compareValues
  simp [he, hc, hp]

/-! ### keys that contain '.': one dotted name for several nodes (kernel-evaluated witnesses of the open finding `dotted_key_path_alias`) -/

/-- forgiving the key `a` also excuses the *sibling* key `a.x` (its name `root.a.x` lies under `root.a`) -/
example : compareRecursiveW (1/1000000) 0 (some ["a"]) .off
    (.dict [("a", .sc (.int 1)), ("a.x", .sc (.flt (.fin 2)))])
    (.dict [("a", .sc (.int 1)), ("a.x", .sc (.flt (.fin 3)))]) = .verdict true := by decide +kernel
/-- … which the narrow model says as well (keys are arbitrary strings in both models) -/
example : compareRecursive (1/1000000) 0 (some ["a"]) .off
    (.dict [("a", .sc (.int 1)), ("a.x", .sc (.flt (.fin 2)))])
    (.dict [("a", .sc (.int 1)), ("a.x", .sc (.flt (.fin 3)))]) = .verdict true := by decide +kernel
/-- the key `a.b` and the nested `a → b` share the name `root.a.b`: forgiving one forgives the other -/
example : compareRecursiveW (1/1000000) 0 (some ["a.b"]) .off
    (.dict [("a.b", .sc (.int 1)), ("a", .dict [("b", .sc (.int 2))])])
    (.dict [("a.b", .sc (.int 1)), ("a", .dict [("b", .sc (.int 3))])]) = .verdict true := by decide +kernel
/-- with a key `root`, the entry `root.a` still means the top-level key `a` -/
example : compareRecursiveW (1/1000000) 0 (some ["root.a"]) .off
    (.dict [("root", .dict [("a", .sc (.int 1))]), ("a", .sc (.int 1))])
    (.dict [("root", .dict [("a", .sc (.int 2))]), ("a", .sc (.int 1))]) = .verdict false := by decide +kernel

end QcelVerif.Compare
