import QcelVerif.Props.C01Src
/-!
# C01 — source-derived lookups on the SHIPPED table

`dicts_src_eq_model`: the dictionaries built from the generated arrays in the order and from the arrays the translated
`__init__` names are the hand model's tables (every key); hence the fully source-derived resolver `resolveSrc`
(translated statements over translated dictionary constructions over the regenerated data) is the hand model's on the
shipped table, and the table-wide theorems hold for it.
-/
namespace QcelVerif.PT.Src
open QcelVerif QcelVerif.PStr
set_option maxRecDepth 100000

/-! ## (c) dictionaries -/

theorem dictArrays_all :
    dictArrays .el2z = some (.E, .Z) ∧ dictArrays .z2el = some (.Z, .E) ∧ dictArrays .element2el = some (.name, .E) ∧
    dictArrays .el2element = some (.E, .name) ∧ dictArrays .eliso2mass = some (.EA, .mass) ∧
    dictArrays .eliso2el = some (.EA, .EE) ∧ dictArrays .eliso2a = some (.EA, .A) := by decide

theorem attr_eq_column : ∀ a, attr a = column a := by
  intro a; cases a <;> rfl

theorem intArrays_eq : ∀ a, isIntArray a = (a == .Z || a == .A) := by
  intro a; cases a <;> decide

/-- rows of the nuclide table as (key, (EE, A, mass)) -/
def rows3 : List (Nat × (Nat × Nat × Nat)) := Gen.PT.nuclides.map (fun r => (r.1, r.2))

theorem rows3_found : ∀ r ∈ rows3, Gen.PT.tree.lookup r.1 = some r.2 := by
  intro r hr
  obtain ⟨q, hq, rfl⟩ := List.mem_map.mp hr
  have := List.all_eq_true.mp tree_is_dict.1 q hq
  simpa [treeRowOk] using this

theorem tree_keys_in_rows3 : ∀ x ∈ Gen.PT.tree.toList.map (·.1), x ∈ rows3.map (·.1) := by
  intro x hx
  rw [← tree_keys_are_row_keys] at hx
  have := mem_msort _ _ hx
  simpa [rows3, List.map_map] using this

/-- "last row of the data file with label `k`" = the generated search tree at `k`, for EVERY `k` -/
theorem lastAssoc_rows3 (k : Nat) : Tables.lastAssoc rows3 k = Gen.PT.tree.lookup k :=
  lastAssoc_eq_lookup rows3 Gen.PT.tree rows3_found tree_keys_in_rows3 k

theorem nuclide_dict_lookup (f : Nat × Nat × Nat → Nat) (k : Nat) :
    (buildDict (Gen.PT.nuclides.map (fun r => (r.1, f r.2)))).lookup k = (Gen.PT.tree.lookup k).map f := by
  rw [buildDict_lookup]
  have : Gen.PT.nuclides.map (fun r => (r.1, f r.2)) = rows3.map (fun p => (p.1, f p.2)) := by
    simp [rows3]
  rw [this, lastAssoc_map_val, lastAssoc_rows3]

theorem element_dict_lookup (f g : Nat × Nat × Nat → Nat) (k : Nat) :
    (buildDict ((Gen.PT.elements.map f).zip (Gen.PT.elements.map g))).lookup k
      = Tables.lastAssoc (Gen.PT.elements.map (fun r => (f r, g r))) k := by
  rw [buildDict_lookup, zip_map_map]

theorem dictTree_lookup (k : Nat) :
    (dictTree .el2z).lookup k = shipped.el2z k ∧
    (dictTree .z2el).lookup k = shipped.z2el k ∧
    (dictTree .element2el).lookup k = shipped.name2el k ∧
    (dictTree .el2element).lookup k = shipped.el2name k ∧
    (dictTree .eliso2mass).lookup k = (shipped.eliso.lookup k).map (·.2.2) ∧
    (dictTree .eliso2el).lookup k = (shipped.eliso.lookup k).map (·.1) ∧
    (dictTree .eliso2a).lookup k = (shipped.eliso.lookup k).map (·.2.1) := by
  obtain ⟨h1, h2, h3, h4, h5, h6, h7⟩ := dictArrays_all
  refine ⟨?_, ?_, ?_, ?_, ?_, ?_, ?_⟩
  · simp only [dictTree_eq, dictTreeSpec, dictRows, h1, attr_eq_column, column]
    rw [element_dict_lookup]; rfl
  · simp only [dictTree_eq, dictTreeSpec, dictRows, h2, attr_eq_column, column]
    rw [element_dict_lookup]
    simp [Tables.z2el, shipped]
    intro h; omega
  · simp only [dictTree_eq, dictTreeSpec, dictRows, h3, attr_eq_column, column]
    rw [element_dict_lookup]; rfl
  · simp only [dictTree_eq, dictTreeSpec, dictRows, h4, attr_eq_column, column]
    rw [element_dict_lookup]; rfl
  · simp only [dictTree_eq, dictTreeSpec, dictRows, h5, attr_eq_column, column, zip_map_map]
    exact nuclide_dict_lookup (·.2.2) k
  · simp only [dictTree_eq, dictTreeSpec, dictRows, h6, attr_eq_column, column, zip_map_map]
    exact nuclide_dict_lookup (·.1) k
  · simp only [dictTree_eq, dictTreeSpec, dictRows, h7, attr_eq_column, column, zip_map_map]
    exact nuclide_dict_lookup (·.2.1) k

theorem decide_mem_map_eq_any {α : Type} (f : α → Nat) (l : List α) (n : Nat) :
    decide (n ∈ l.map f) = l.any (fun r => f r == n) := by
  induction l with
  | nil => simp
  | cons a t ih =>
    simp only [List.map_cons, List.any_cons, ← ih]
    by_cases h : n = f a
    · subst h; simp
    · have : (f a == n) = false := by simp; omega
      simp [h, this]

/-- **The dictionaries as `__init__` builds them = the model's tables**: each of the seven dictionaries, built
from the generated arrays by inserting `zip(keys, values)` left to right (a later duplicate key overwrites) in the
order and from the arrays the translated `__init__` names, answers EVERY key — of either kind, present or not —
like the hand model's lookup on the shipped tables (value or KeyError), and `x in self.E` likewise. -/
theorem dicts_src_eq_model :
    (∀ d v, Env.ofSource.dictGet d v = (Env.ofTables shipped).dictGet d v) ∧
    (∀ l v, Env.ofSource.inList l v = (Env.ofTables shipped).inList l v) := by
  obtain ⟨h1, h2, h3, h4, h5, h6, h7⟩ := dictArrays_all
  constructor
  · intro d v
    cases d
    · cases v <;> simp [Env.ofSource, Env.ofTables, h1, keyOf, intArrays_eq, wrap, (dictTree_lookup _).1] <;>
        (generalize shipped.el2z _ = o; cases o <;> rfl)
    · cases v <;> simp [Env.ofSource, Env.ofTables, h2, keyOf, intArrays_eq, wrap, (dictTree_lookup _).2.1]
      rename_i i
      by_cases hi : i < 0
      · simp [hi, Tables.z2el]
      · have : ((i.toNat : Nat) : Int) = i := by omega
        simp only [hi, if_false, this]
        cases shipped.z2el i <;> rfl
    · cases v <;> simp [Env.ofSource, Env.ofTables, h3, keyOf, intArrays_eq, wrap, (dictTree_lookup _).2.2.1] <;>
        (generalize shipped.name2el _ = o; cases o <;> rfl)
    · cases v <;> simp [Env.ofSource, Env.ofTables, h4, keyOf, intArrays_eq, wrap, (dictTree_lookup _).2.2.2.1] <;>
        (generalize shipped.el2name _ = o; cases o <;> rfl)
    · cases v <;> simp [Env.ofSource, Env.ofTables, h5, keyOf, intArrays_eq, wrap, (dictTree_lookup _).2.2.2.2.1] <;>
        (generalize shipped.eliso.lookup _ = o; cases o <;> rfl)
    · cases v <;> simp [Env.ofSource, Env.ofTables, h6, keyOf, intArrays_eq, wrap, (dictTree_lookup _).2.2.2.2.2.1] <;>
        (generalize shipped.eliso.lookup _ = o; cases o <;> rfl)
    · cases v <;> simp [Env.ofSource, Env.ofTables, h7, keyOf, intArrays_eq, wrap, (dictTree_lookup _).2.2.2.2.2.2] <;>
        (generalize shipped.eliso.lookup _ = o; cases o <;> rfl)
  · intro l v
    cases l <;> cases v <;>
      simp [Env.ofSource, Env.ofTables, keyOf, intArrays_eq, attr_eq_column, column, Tables.isElementSymbol, shipped,
        decide_mem_map_eq_any]

theorem Env.ext' (A B : Env) (h1 : ∀ d v, A.dictGet d v = B.dictGet d v) (h2 : ∀ l v, A.inList l v = B.inList l v) :
    A = B := by
  cases A; cases B
  simp only [Env.mk.injEq]
  exact ⟨funext fun d => funext fun v => h1 d v, funext fun l => funext fun v => h2 l v⟩

theorem env_src_eq : Env.ofSource = Env.ofTables shipped :=
  Env.ext' _ _ dicts_src_eq_model.1 dicts_src_eq_model.2

/-- **The fully source-derived resolver = the hand model on the shipped table**, every argument, both `strict`. -/
theorem resolve_src_shipped (a : PyVal) (strict : Bool) : resolveSrc a strict = ofOption (shipped.resolve a strict) := by
  unfold resolveSrc
  rw [env_src_eq]
  exact resolve_src_eq_model shipped a strict

/-! ## the existing table-wide theorems, for the source-derived lookups -/

theorem toOption_some {ε α} (e : Except ε α) (v : α) : e.toOption = some v ↔ e = .ok v := by
  cases e <;> simp [Except.toOption]

/-- accessors of the fully source-derived environment, as values, on the shipped table -/
theorem accessors_src_shipped (a : PyVal) (strict : Bool) :
    (accessorRun Env.ofSource .to_Z a strict).toOption = (shipped.toZ a strict).map (fun z => Val.int z) ∧
    (accessorRun Env.ofSource .to_E a strict).toOption = (shipped.toE a strict).map Val.pstr ∧
    (accessorRun Env.ofSource .to_element a strict).toOption = (shipped.toName a strict).map Val.pstr ∧
    (accessorRun Env.ofSource .to_A a strict).toOption = (shipped.toA a).map (fun n => Val.int n) ∧
    (accessorRun Env.ofSource .to_mass a strict).toOption = (shipped.toMass a).map Val.pstr := by
  rw [env_src_eq]; exact accessors_src_eq_model shipped a strict

/-- **`aliases_agree` for the source-derived lookups**: for every element row of the shipped table, atomic number
as int, as digit string, symbol and name — strict or not — make the translated resolver (over the dictionaries
built as the source builds them) return the row's symbol, and the translated to_Z / to_E / to_element bodies
return the row's Z, symbol, name (no exception of any class). -/
theorem aliases_agree_src :
    ∀ r ∈ shipped.elements,
      ∀ a ∈ [PyVal.int r.1, .str (natDigits r.1), .str (unpack r.2.1), .str (unpack r.2.2)], ∀ b : Bool,
        resolveSrc a b = .ok r.2.1 ∧
        accessorRun Env.ofSource .to_Z a b = .ok (.int r.1) ∧
        accessorRun Env.ofSource .to_E a b = .ok (.pstr r.2.1) ∧
        accessorRun Env.ofSource .to_element a b = .ok (.pstr r.2.2) := by
  intro r hr a ha b
  have hrow := List.all_eq_true.mp aliases_agree r hr
  simp only [aliasRowOk, List.all_eq_true] at hrow
  have h := hrow a ha b (by cases b <;> simp)
  simp only [Bool.and_eq_true, beq_iff_eq] at h
  obtain ⟨⟨⟨h1, h2⟩, h3⟩, h4⟩ := h
  obtain ⟨a1, a2, a3, _, _⟩ := accessors_src_shipped a b
  refine ⟨?_, ?_, ?_, ?_⟩
  · rw [resolve_src_shipped, h1]; rfl
  · rw [← toOption_some, a1, h2]; rfl
  · rw [← toOption_some, a2, h3]; rfl
  · rw [← toOption_some, a3, h4]; rfl

/-- **`nuclides_resolve` for the source-derived lookups**: every nuclide label of the shipped table makes the
translated resolver return the label's own key, the translated bodies its element symbol, mass number and mass,
and with `strict` the key iff it is a bare element symbol, else NotAnElementError. -/
theorem nuclides_resolve_src :
    ∀ r ∈ Gen.PT.nuclides,
      resolveSrc (.str (unpack r.1)) false = .ok r.1 ∧
      accessorRun Env.ofSource .to_E (.str (unpack r.1)) false = .ok (.pstr r.2.1) ∧
      (accessorRun Env.ofSource .to_Z (.str (unpack r.1)) false).toOption = (shipped.el2z r.2.1).map (fun z => Val.int z) ∧
      (shipped.el2z r.2.1).isSome = true ∧
      accessorRun Env.ofSource .to_A (.str (unpack r.1)) false = .ok (.int r.2.2.1) ∧
      accessorRun Env.ofSource .to_mass (.str (unpack r.1)) false = .ok (.pstr r.2.2.2) ∧
      resolveSrc (.str (unpack r.1)) true
        = (if shipped.isElementSymbol r.1 then .ok r.1 else .error .NotAnElementError) := by
  intro r hr
  have h := List.all_eq_true.mp nuclides_resolve r hr
  simp only [nuclideRowOk, Bool.and_eq_true, beq_iff_eq] at h
  obtain ⟨⟨⟨⟨⟨⟨h1, h2⟩, h3⟩, h4⟩, h5⟩, h6⟩, h7⟩ := h
  obtain ⟨a1, a2, _, a4, a5⟩ := accessors_src_shipped (.str (unpack r.1)) false
  refine ⟨?_, ?_, ?_, h4, ?_, ?_, ?_⟩
  · rw [resolve_src_shipped, h1]; rfl
  · rw [← toOption_some, a2, h2]; rfl
  · rw [a1, h3]
  · rw [← toOption_some, a4, h5]; rfl
  · rw [← toOption_some, a5, h6]; rfl
  · rw [resolve_src_shipped, h7]; split <;> rfl

/-- `nuclides_resolve_anycase` for the source-derived resolver -/
theorem nuclides_resolve_anycase_src :
    ∀ r ∈ Gen.PT.nuclides,
      resolveSrc (.str (lower (unpack r.1))) false = .ok r.1 ∧ resolveSrc (.str (upper (unpack r.1))) false = .ok r.1 := by
  intro r hr
  have h := List.all_eq_true.mp nuclides_resolve_anycase r hr
  simp only [nuclideRowAnycaseOk, Bool.and_eq_true, beq_iff_eq] at h
  exact ⟨by rw [resolve_src_shipped, h.1]; rfl, by rw [resolve_src_shipped, h.2]; rfl⟩

/-- TESTS (concrete instances on the shipped table, fully source-derived) -/
example : resolveSrc (.str (ofString "He100")) false = .error .NotAnElementError := by rw [resolve_src_shipped]; decide +kernel
example : resolveSrc (.str (ofString "")) false = .error .NotAnElementError := by rw [resolve_src_shipped]; decide +kernel
example : resolveSrc (.int (-1)) false = .error .NotAnElementError := by rw [resolve_src_shipped]; decide +kernel
example : resolveSrc (.str (ofString "kr84")) true = .error .NotAnElementError := by rw [resolve_src_shipped]; decide +kernel
example : resolveSrc (.str (ofString " 1 ")) true = .ok (pack (ofString "H")) := by rw [resolve_src_shipped]; decide +kernel


end QcelVerif.PT.Src
