import QcelVerif.Props.C01NucQ0
import QcelVerif.Props.C01NucQ1
import QcelVerif.Props.C01NucQ2
import QcelVerif.Props.C01NucQ3
/-! C01 table-wide theorems over the whole nuclide table, assembled from the four quarters. -/
namespace QcelVerif.PT
open QcelVerif

/-- **Every nuclide label resolves to its own row** (and therefore, by `shipped_faithful`, to the
NIST values): key, element symbol, atomic number, mass number, mass; and **strict mode rejects
exactly the labels that are not bare element symbols**. -/
theorem nuclides_resolve : Gen.PT.nuclides.all nuclideRowOk = true := by
  simp only [Gen.PT.nuclides, List.all_append, nuclides_resolve_q0, nuclides_resolve_q1,
    nuclides_resolve_q2, nuclides_resolve_q3, Bool.and_self]

/-- lower- and upper-case spellings of every nuclide label (kernel-checked instances of
`resolve_case_insensitive`, kept as an end-to-end test of the string model on the real table) -/
theorem nuclides_resolve_anycase : Gen.PT.nuclides.all nuclideRowAnycaseOk = true := by
  simp only [Gen.PT.nuclides, List.all_append, nuclides_anycase_q0, nuclides_anycase_q1,
    nuclides_anycase_q2, nuclides_anycase_q3, Bool.and_self]

/-- the generated search tree is ordered … -/
theorem tree_isBST : Gen.PT.tree.isBST = true := by decide +kernel

/-- … and is exactly `dict(zip(EA, zip(_EE, A, mass)))`: every row is found with its own values and
there are no other keys (so in particular EA has no duplicate keys). -/
theorem tree_is_dict :
    Gen.PT.nuclides.all treeRowOk = true ∧ Gen.PT.tree.size = Gen.PT.nuclides.length := by
  refine ⟨?_, by decide +kernel⟩
  simp only [Gen.PT.nuclides, List.all_append, tree_rows_q0, tree_rows_q1, tree_rows_q2,
    tree_rows_q3, Bool.and_self]

/-- **The float form of every tabulated mass is the nearest double to its Decimal** (the model's
`float(Decimal)` — `Dec.toF64` — checked against an independent nearest-with-ties-to-even predicate,
for all nuclide rows; the correspondence compares these bit patterns with the implementation's). -/
theorem masses_float_nearest : Gen.PT.nuclides.all massFloatOk = true := by
  simp only [Gen.PT.nuclides, List.all_append, masses_float_q0, masses_float_q1, masses_float_q2,
    masses_float_q3, Bool.and_self]

end QcelVerif.PT
