import QcelVerif.Model.RadiiSession
import QcelVerif.Model.RadiiShipped
/-!
# C17 — call sequences: a lookup depends on its arguments only

Manifest: calls_preserve_table, get_after_calls, replies_history_free, header_filler_iff_untabulated,
missing_contract_after_header

The differential correspondence of the call-sequence stream (harness/c17.py, stream S) compares
every lookup made after an arbitrary history of calls with the STATELESS model `getU` on the
initial tables; `get_after_calls` is what licenses that.
-/
namespace QcelVerif.Radii
open QcelVerif QcelVerif.PStr QcelVerif.PT

theorem exec_preserves_table (T : Tables) (convF : Bytes → Bytes → Option Rat) (t : Table) (c : Call) :
    (c.exec T convF t).1 = t := by
  cases c <;> rfl

/-- **No public call changes the table**: after any sequence of lookups (any options), header
writes (any `missing`), listings and `str`, the table is the one the object was loaded with. -/
theorem calls_preserve_table (T : Tables) (convF : Bytes → Bytes → Option Rat) (t : Table) (cs : List Call) :
    (runCalls T convF t cs).1 = t := by
  induction cs generalizing t with
  | nil => rfl
  | cons c cs ih =>
    simp only [runCalls]
    rw [exec_preserves_table, ih]

/-- **A lookup after any history is the lookup on the loaded table**: same answer as in a fresh
process, for every argument, `return_tuple`, `units`, `missing`. -/
theorem get_after_calls (T : Tables) (convF : Bytes → Bytes → Option Rat) (t : Table) (cs : List Call)
    (a : PyVal) (rt : Bool) (u : Option Bytes) (m : Option Rat) :
    ((Call.get a rt u m).exec T convF (runCalls T convF t cs).1).2 = .out (getU T t convF a rt u m) := by
  rw [calls_preserve_table]
  rfl

/-- **Every reply of a session is history-free**: the i-th reply is what that call alone returns
on the loaded table (so the order of calls, repeated calls and earlier options cannot matter). -/
theorem replies_history_free (T : Tables) (convF : Bytes → Bytes → Option Rat) (t : Table) (cs : List Call) :
    (runCalls T convF t cs).2 = cs.map (fun c => (c.exec T convF t).2) := by
  induction cs generalizing t with
  | nil => rfl
  | cons c cs ih =>
    simp only [runCalls, List.map_cons]
    rw [exec_preserves_table, ih]

/-- **The header's `missing` is text only**: an element gets the filler row exactly when it has no
entry, and (by `calls_preserve_table`) it still has no entry afterwards. -/
theorem header_filler_iff_untabulated (T : Tables) (t : Table) (missing : Rat) (r : Nat × Nat × Nat)
    (hr : r ∈ T.elements) :
    (HeaderRow.filler r.2.1 missing ∈ headerRows T t missing ∧ lookupK t r.2.1 = none) ∨
    (∃ d, lookupK t r.2.1 = some d ∧ HeaderRow.entry d ∈ headerRows T t missing) := by
  unfold headerRows
  cases h : lookupK t r.2.1 with
  | none =>
    left
    refine ⟨List.mem_map.mpr ⟨r, hr, ?_⟩, rfl⟩
    simp [h]
  | some d =>
    right
    refine ⟨d, rfl, List.mem_map.mpr ⟨r, hr, ?_⟩⟩
    simp [h]

/-- after a header write with filler `x` on a table where `k` is untabulated, the missing-data
contract of `get` is intact: `DataUnavailable` without a fallback, the caller's own fallback `m`
(not `x`) with one -/
theorem missing_contract_after_header (T : Tables) (convF : Bytes → Bytes → Option Rat) (t : Table) (x : Rat)
    (k : Nat) (hk : lookupK t k = none) (rt : Bool) (m : Option Rat) (conv : Bytes → Option Rat) :
    let t' := ((Call.writeCHeader x).exec T convF t).1
    getByKey t' conv k rt m =
      (match m with
       | some v => if !rt then .ok (.value v) else .error .DataUnavailable
       | none => .error .DataUnavailable) := by
  intro t'
  have ht : t' = t := exec_preserves_table T convF t _
  rw [ht]
  unfold getByKey
  rw [hk]
  cases m <;> rfl

/-- the hypotheses are satisfiable on the shipped data: Fe has no van der Waals radius, and a
header write with the default filler 2.0 leaves it so (test) -/
example : lookupK vdw (pack [70, 101]) = none ∧
    lookupK ((Call.writeCHeader 2).exec shipped (fun _ _ => some 1) vdw).1 (pack [70, 101]) = none := by
  decide +kernel

end QcelVerif.Radii
