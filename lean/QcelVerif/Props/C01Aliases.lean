import QcelVerif.Model.PTShipped
/-! C01 table-wide theorem (kernel evaluation over the generated tables); split out so that lake builds them in parallel. -/
namespace QcelVerif.PT
open QcelVerif QcelVerif.PStr
set_option maxRecDepth 100000

/-- row predicate of `aliases_agree` -/
def aliasRowOk (r : Nat × Nat × Nat) : Bool :=
  [PyVal.int r.1, .str (natDigits r.1), .str (unpack r.2.1), .str (unpack r.2.2)].all (fun a =>
    [false, true].all (fun b =>
      shipped.resolve a b == some r.2.1 &&
      shipped.toZ a b == some r.1 && shipped.toE a b == some r.2.1 &&
      shipped.toName a b == some r.2.2))

/-- **Element aliases agree**: for every element row, atomic number as integer, as digit string,
symbol and element name all resolve — strict or not — to the element's own symbol, and the
accessors return that row's Z, symbol and name. -/
theorem aliases_agree : shipped.elements.all aliasRowOk = true := by decide +kernel


end QcelVerif.PT
