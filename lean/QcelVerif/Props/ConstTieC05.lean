import QcelVerif.Model.ChgMult
import QcelVerif.Gen.SrcConsts
import QcelVerif.Props.ConstTieLib
/-!
# C05 — the small integers inside `Model/ChgMult.lean` are those of `chgmult.py`

The model of `validate_and_fill_chgmult` carries its constants inline: the default multiplicities 1 and 2 of the
high-spin range (S5, S6), the floor 1 of the missing-multiplicity range (S6), the defaults `1, 2` appended last (S7),
the default fragment charge `0.0` (S4), the `0` / `0` of the "nothing missing" branch, the ghost rewriting `0.0` / `1`
of `zero_ghost_fragments`, rule R9 (`fc == 0 and fm == 1`), rule R3 (`m >= 1`) and the default
`zero_ghost_fragments=False`.  `Gen/SrcConsts.lean` is rewritten on every run from `chgmult.py` (by `ast`).  Each
theorem restates the model function, for every specification, with the generated values in place of the literals.
Core Lean only.

PROPERTY-THEOREMS: chgmult_float_literals_ok s5_range_matches_source s6_missing_range_matches_source
  s7_s6_candidates_match_source s4_candidates_match_source ghost_rewriting_matches_source
  zero_ghost_default_matches_source r9_matches_source r3_matches_source
-/
namespace QcelVerif.ChgMult
open QcelVerif QcelVerif.ConstTie

theorem chgmult_float_literals_ok :
    FloatLit.ok Src.chgmult.s4_charge Src.chgmult.s4_charge_dec Src.chgmult.s4_charge_bits Src.chgmult.s4_charge_f64 = true ∧
    FloatLit.ok Src.chgmult.ghost_charge Src.chgmult.ghost_charge_dec Src.chgmult.ghost_charge_bits Src.chgmult.ghost_charge_f64 = true := by
  decide +kernel

private theorem hi_eq : Src.chgmult.frag_mult_hi_default = 2 := by decide
private theorem lo_eq : Src.chgmult.frag_mult_lo_default = 1 := by decide

/-- S5: without a total multiplicity the candidates are `range(lo, hi + 1)` with `lo`/`hi` the high-spin sums under
the source's two defaults for an unspecified fragment multiplicity -/
theorem s5_range_matches_source (e : Inp) (h : e.m = none) :
    candM e = irange (highSpin (applyDefault e.fm Src.chgmult.frag_mult_lo_default))
                     (highSpin (applyDefault e.fm Src.chgmult.frag_mult_hi_default)) := by
  simp [candM, h, hi_eq, lo_eq]

/-- test (non-vacuity) -/
example : ({ frags := [[1]], c := none, fc := [none], m := none, fm := [none], zgf := false } : Inp).m = none := rfl

/-- S6: the missing-multiplicity range, with the source's defaults and its `0, 0` when nothing is missing -/
theorem s6_missing_range_matches_source (e : Inp) :
    missingMult e =
      match e.m with
      | some m =>
          if e.fm.any (·.isNone) then
            (m - highSpin (applyDefault (removeFirstNone e.fm) Src.chgmult.frag_mult_hi_default) + 1,
             m - highSpin (applyDefault (removeFirstNone e.fm) Src.chgmult.frag_mult_lo_default) + 1)
          else (Src.chgmult.missing_mult_lo_else, Src.chgmult.missing_mult_hi_else)
      | none => (Src.chgmult.missing_mult_lo_else, Src.chgmult.missing_mult_hi_else) := by
  have h1 : Src.chgmult.missing_mult_lo_else = 0 := by decide
  have h2 : Src.chgmult.missing_mult_hi_else = 0 := by decide
  rw [h1, h2, hi_eq, lo_eq]
  rfl

/-- S6 + S7: an unspecified fragment multiplicity is tried over `reversed(range(max(lo, k), hi + 1))`, then the
source's two defaults in the source's order -/
theorem s7_s6_candidates_match_source (e : Inp) :
    candFm e = e.fm.map (fun o => match o with
      | some x => [x]
      | none => (irange (max (missingMult e).1 Src.chgmult.s6_floor) (missingMult e).2).reverse
                  ++ [Src.chgmult.s7_first, Src.chgmult.s7_second]) := by
  have h1 : Src.chgmult.s6_floor = 1 := by decide
  have h2 : Src.chgmult.s7_first = 1 := by decide
  have h3 : Src.chgmult.s7_second = 2 := by decide
  rw [h1, h2, h3]
  rfl

/-- S3 + S4: an unspecified fragment charge is tried as the unallocated charge, then the source's default `0.0` -/
theorem s4_candidates_match_source (e : Inp) :
    candFc e = e.fc.map (fun o => match o with
      | some x => [x]
      | none => [(e.c.getD 0) - sumKnown e.fc, 0]) ∧
    ((0 : Int) : Rat) = Src.chgmult.s4_charge_f64 := by
  exact ⟨rfl, by decide +kernel⟩

/-- `zero_ghost_fragments=True` with a ghost fragment present: totals forgotten, ghost fragments pinned to the
source's charge `0.0` and multiplicity `1` -/
theorem ghost_rewriting_matches_source (i : Inp) (g : Int)
    (hg : (g : Rat) = Src.chgmult.ghost_charge_f64)
    (h : (i.zgf && !(i.frags.all (fun f => !isGhost f))) = true) :
    effective i = { i with
      c := none
      fc := List.zipWith (fun f x => if isGhost f then some g else x) i.frags i.fc
      m := none
      fm := List.zipWith (fun f x => if isGhost f then some Src.chgmult.ghost_mult else x) i.frags i.fm } := by
  have h0 : Src.chgmult.ghost_charge_f64 = 0 := by decide +kernel
  have hg0 : g = 0 := by
    rw [h0] at hg
    exact_mod_cast hg
  have h1 : Src.chgmult.ghost_mult = 1 := by decide
  subst hg0
  rw [h1]
  unfold effective
  rw [if_pos h]

/-- test (non-vacuity): a ghost fragment next to helium, flag on; and the integer `0` is the source's `0.0` -/
example : (({ frags := [[0], [2]], c := none, fc := [none, none], m := none, fm := [none, none], zgf := true } : Inp).zgf
    && !(([[0], [2]] : List (List Int)).all (fun f => !isGhost f))) = true := by decide
example : ((0 : Int) : Rat) = Src.chgmult.ghost_charge_f64 := by decide +kernel

/-- the default `zero_ghost_fragments=False` (also `from_arrays`' default, which it forwards): no rewriting -/
theorem zero_ghost_default_matches_source (i : Inp) (h : i.zgf = Src.chgmult.zero_ghost_fragments) :
    effective i = i ∧ Src.from_arrays.zero_ghost_fragments = Src.chgmult.zero_ghost_fragments := by
  have h0 : Src.chgmult.zero_ghost_fragments = false := by decide
  rw [h0] at h
  refine ⟨?_, by decide⟩
  simp [effective, h]

/-- R4-i, R5-i, R9-i for one fragment: a ghost fragment must carry the source's charge and multiplicity -/
theorem r9_matches_source (f : List Int) (c m : Int) :
    fragRules [f] [c] [m] =
      (sufficient (isum f) c m && parityOk (isum f) c m &&
        (!(isGhost f) || (c == Src.chgmult.r9_charge && m == Src.chgmult.r9_mult))) := by
  have h1 : Src.chgmult.r9_charge = 0 := by decide
  have h2 : Src.chgmult.r9_mult = 1 := by decide
  simp [fragRules, h1, h2]

/-- R3: every accepted candidate has all multiplicities at least the source's `_mult_ok` bound -/
theorem r3_matches_source (e : Inp) (o : Out) (h : rulesOk e o = true) :
    Src.chgmult.mult_min ≤ o.m ∧ ∀ x ∈ o.fm, Src.chgmult.mult_min ≤ x := by
  have h1 : Src.chgmult.mult_min = 1 := by decide
  rw [h1]
  simp only [rulesOk, Bool.and_eq_true, decide_eq_true_eq, List.all_eq_true] at h
  exact ⟨h.1.1.1.1.1.1.1.1.2.1, h.1.1.1.1.1.1.1.1.2.2⟩

/-- test (non-vacuity): neutral singlet helium passes the rules -/
example : rulesOk { frags := [[2]], c := none, fc := [none], m := none, fm := [none], zgf := false }
    { c := 0, fc := [0], m := 1, fm := [1] } = true := by decide

end QcelVerif.ChgMult
