import QcelVerif.Lemmas.MunkresExactRun
import QcelVerif.Lemmas.MunkresRound
import QcelVerif.Props.C14Term
/-!
# C14 — floating point (and int64) inside the proved part, where it is exact

`Model/Munkres.lean` computes in exact rationals; the implementation in the work dtype of `state.C`
(float64, int64 or uint64 — `Model/MunkresFloat.lean` lists the three lines that do arithmetic).
This file proves, for every shape and without any size bound:

* `visited_values_box` — for cost entries on a grid `g·ℤ` inside `[lo, hi]` (`K = hi − lo`), at every
  state the run of `solve` visits: every entry of the working matrix is on the grid and in `[0, 2K]`,
  every subtracted minimum is on the grid (row minima in `[lo, hi]`, `minval` in `[0, 2K]`), potentials
  `u, v` with `C = cost − u − v` exist on the grid with explicit bounds, and every result of an
  arithmetic operation of `_step1` / `_step6` (`ArithVal`) is on the grid and in `[0, 4K]`;
* `entries_integral`, `entries_bounded` — the integer instance: entries integers with `|·| ≤ M` give
  integers everywhere, inside `B(M, n, m) = 8·M` (`boundB`; working matrix within `4M`);
* `solveFloat_eq_solve_box` — `solveFloat rnd inp = solve inp` (whole trace, answer, reduced matrix)
  for every `rnd` that is the identity on the grid values in `[0, 4K]`;
* `float_exact_on_small_integers` — with `B(M,n,m) ≤ 2^53` every such value is `Exact53`, and any
  rounding function that is the identity on `Exact53` values gives the exact run;
  `float64_exact_run` — in particular IEEE round-to-nearest-even (`Hash.rndDouble`, proved exact on
  `Exact53` in `Lemmas/MunkresRound.lean`);
* `no_overflow_int64`, `no_overflow_uint64`, `no_overflow_int64_spread` — the integer work dtypes
  never wrap when `B(M,n,m) < 2^63` (`< 2^64`), or, for entries of any magnitude, when four times
  their spread is.

PROPERTY-THEOREMS (audited):
  visited_values_box entries_integral entries_bounded solveFloat_eq_solve_box
  float_exact_on_small_integers float64_exact_run no_overflow_int64 no_overflow_uint64
  no_overflow_int64_spread trace_states_visited intBoxB_sound
-/
namespace QcelVerif.Munkres
open QcelVerif.Assign

/-- `x` is an integer -/
def IsInt (x : Rat) : Prop := ∃ z : Int, x = z

theorem isInt_iff_grid {x : Rat} : IsInt x ↔ OnGrid 1 x := by
  constructor
  · rintro ⟨z, rfl⟩; exact ⟨z, by simp⟩
  · rintro ⟨z, rfl⟩; exact ⟨z, by simp⟩

/-- an integer of absolute value at most `2^53`: exactly representable in float64, and so are the sum
and the difference of two of them whenever those are again `Exact53` -/
def Exact53 (x : Rat) : Prop := IsInt x ∧ |x| ≤ 2 ^ 53

/-- every entry of the `n × m` input is an integer of absolute value `≤ M` -/
def Input.IntBounded (inp : Input) (M : Rat) : Prop :=
  ∀ i, i < inp.n → ∀ j, j < inp.m → IsInt (inp.costFn i j) ∧ |inp.costFn i j| ≤ M

/-- every entry of the `n × m` input is an integer in `[lo, hi]` -/
def Input.IntBox (inp : Input) (lo hi : Rat) : Prop := CostBox 1 lo hi inp.n inp.m inp.costFn

theorem Input.IntBounded.box {inp : Input} {M : Rat} (h : inp.IntBounded M) : inp.IntBox (-M) M :=
  ⟨fun i hi j hj => isInt_iff_grid.1 (h i hi j hj).1,
   fun i hi j hj => (abs_le.1 (h i hi j hj).2).1, fun i hi j hj => (abs_le.1 (h i hi j hj).2).2⟩

/-- **the executable check is sound**: what the driver reports as "inside the theorem" is the
hypothesis of the theorems below -/
theorem intBoxB_sound (inp : Input) (lo hi : Rat) (h : inp.intBoxB lo hi = true) : inp.IntBox lo hi := by
  unfold Input.intBoxB at h
  have h' := allIdx_iff.1 h
  refine ⟨fun i hi' j hj => ?_, fun i hi' j hj => ?_, fun i hi' j hj => ?_⟩
  · have := h' i hi' j hj
    simp only [Bool.and_eq_true, beq_iff_eq, decide_eq_true_eq] at this
    refine ⟨(inp.costFn i j).num, ?_⟩
    rw [mul_one]
    exact (Rat.coe_int_num_of_den_eq_one this.1.1).symm
  · have := h' i hi' j hj
    simp only [Bool.and_eq_true, beq_iff_eq, decide_eq_true_eq] at this
    exact this.1.2
  · have := h' i hi' j hj
    simp only [Bool.and_eq_true, beq_iff_eq, decide_eq_true_eq] at this
    exact this.2

/-- **the results of the arithmetic the work dtype performs** at step `st` in state `s`
(`Model/MunkresFloat.lean`): line 170 (`x − rowmin`), line 295 (`x + minval`, covered rows), line 296
(`(…) − minval`, uncovered columns; on a covered row the minuend is the sum of line 295) -/
def ArithVal (st : Step) (s : State) (x : Rat) : Prop :=
  match st with
  | .s1 => ∃ i j, i < s.C.size ∧ j < (s.C.getD i #[]).size ∧ x = get2 s.C i j - rowMin (s.C.getD i #[])
  | .s6 => (s.rowUnc.any id && s.colUnc.any id) = true ∧
      ∃ i j, i < s.C.size ∧ j < (s.C.getD i #[]).size ∧
        ((¬ RU s i ∧ x = get2 s.C i j + minval6 s)
         ∨ (CU s j ∧ x = (if s.rowUnc.getD i false then get2 s.C i j else get2 s.C i j + minval6 s) - minval6 s))
  | _ => False

/-- **Every value of the run, on the grid and in an explicit box.**  Cost entries on `g·ℤ` inside
`[lo, hi]`, `K = hi − lo`; `(nx, s)` any state the run of `solve inp` visits (wide orientation). -/
theorem visited_values_box {g lo hi : Rat} (inp : Input) (hw : inp.WellShaped)
    (hb : CostBox g lo hi inp.n inp.m inp.costFn) {nx : Option Step} {s : State} (hv : inp.Visits nx s) :
    -- the working matrix
    (∀ i, i < inp.wideN → ∀ j, j < inp.wideM → OnGrid g (get2 s.C i j)
        ∧ (nx = some .s1 → lo ≤ get2 s.C i j ∧ get2 s.C i j ≤ hi)
        ∧ (nx ≠ some .s1 → 0 ≤ get2 s.C i j ∧ get2 s.C i j ≤ 2 * (hi - lo)))
    -- the minima subtracted by step 1
    ∧ (nx = some .s1 → 0 < inp.wideM → ∀ i, i < inp.wideN →
        OnGrid g (rowMin (s.C.getD i #[])) ∧ lo ≤ rowMin (s.C.getD i #[]) ∧ rowMin (s.C.getD i #[]) ≤ hi)
    -- the minimum added / subtracted by step 6
    ∧ (nx = some .s6 → (s.rowUnc.any id && s.colUnc.any id) = true →
        OnGrid g (minval6 s) ∧ 0 ≤ minval6 s ∧ minval6 s ≤ 2 * (hi - lo))
    -- row and column potentials
    ∧ (nx ≠ some .s1 → 0 < inp.wideN → 0 < inp.wideM → ∃ u v : Nat → Rat,
        (∀ i, i < inp.wideN → ∀ j, j < inp.wideM → get2 s.C i j = inp.wideCost i j - u i - v j)
        ∧ (∀ i, i < inp.wideN → OnGrid g (u i) ∧ lo - 2 * (hi - lo) ≤ u i ∧ u i ≤ hi)
        ∧ (∀ j, j < inp.wideM → OnGrid g (v j) ∧ lo - 2 * (hi - lo) - hi ≤ v j ∧ v j ≤ hi - (lo - 2 * (hi - lo))))
    -- every result of an arithmetic operation
    ∧ (∀ st x, nx = some st → ArithVal st s x → OnGrid g x ∧ 0 ≤ x ∧ x ≤ 4 * (hi - lo)) := by
  have he := inp.visits_einv hw hb hv
  have hbw := inp.wide_box hb
  refine ⟨?_, ?_, ?_, ?_, ?_⟩
  · intro i hi' j hj
    by_cases h1 : nx = some .s1
    · subst h1
      have hI : Inv1 _ _ _ s := he.1
      rw [hI.C_eq i hi' j hj]
      exact ⟨hbw.grid i hi' j hj, fun _ => ⟨hbw.lo_le i hi' j hj, hbw.le_hi i hi' j hj⟩, fun h => absurd rfl h⟩
    · have hg := he.2 h1 i hi' j hj
      exact ⟨hg.1, fun h => absurd h h1, fun _ => ⟨(he.1.toBase h1).nonneg i hi' j hj, hg.2⟩⟩
  · intro h1 hm i hi'
    subst h1
    have hI : Inv1 _ _ _ s := he.1
    obtain ⟨j, hj, e⟩ := rowMin_cost hI hm i hi'
    rw [e]
    exact ⟨hbw.grid i hi' j hj, hbw.lo_le i hi' j hj, hbw.le_hi i hi' j hj⟩
  · intro h6 hany
    subst h6
    have hL : Loop _ _ _ s := he.1
    rw [minval6_eq]
    exact (step6_vals hL hbw (he.2 (by simp)) hany).1
  · intro h1 hn hm
    exact pot_exact (he.1.toBase h1) hbw (he.2 h1) hn hm
  · intro st x hst hx
    subst hst
    cases st with
    | s1 =>
      have hI : Inv1 _ _ _ s := he.1
      obtain ⟨i, j, hi', hj, rfl⟩ := hx
      have hin : i < inp.wideN := hI.shape.Csz ▸ hi'
      have hjm : j < inp.wideM := by rw [← hI.shape.Crow i hin]; exact hj
      have := step1_vals hI hbw i hin j hjm
      exact ⟨this.2.1, this.2.2.1, by linarith [this.2.2.2, this.2.2.1]⟩
    | s3 => exact absurd hx (by simp [ArithVal])
    | s4 => exact absurd hx (by simp [ArithVal])
    | s5 => exact absurd hx (by simp [ArithVal])
    | s6 =>
      have hL : Loop _ _ _ s := he.1
      have hgb := he.2 (by simp)
      obtain ⟨hany, i, j, hi', hj, hx⟩ := hx
      have hin : i < inp.wideN := hL.base.shape.Csz ▸ hi'
      have hjm : j < inp.wideM := by rw [← hL.base.shape.Crow i hin]; exact hj
      obtain ⟨_, hv6⟩ := step6_vals hL hbw hgb hany
      obtain ⟨hadd, hsub, _⟩ := hv6 i hin j hjm
      rw [minval6_eq] at hx
      rcases hx with ⟨_, rfl⟩ | ⟨hc, rfl⟩
      · exact hadd
      · by_cases hr : s.rowUnc.getD i false = true
        · rw [if_pos hr]
          exact hsub hr hc
        · rw [if_neg hr]
          have e : get2 s.C i j + rowMin (vals6 s) - rowMin (vals6 s) = get2 s.C i j := by ring
          rw [e]
          have h0 := hL.base.nonneg i hin j hjm
          have hK := (hgb i hin j hjm).2
          exact ⟨(hgb i hin j hjm).1, h0, by linarith⟩

/-- **1. Integer costs give integers everywhere**: every entry of the working matrix, every subtracted
minimum, row and column potentials, and every arithmetic result, at every state of the run. -/
theorem entries_integral (inp : Input) (hw : inp.WellShaped) (M : Rat) (hI : inp.IntBounded M)
    {nx : Option Step} {s : State} (hv : inp.Visits nx s) :
    (∀ i, i < inp.wideN → ∀ j, j < inp.wideM → IsInt (get2 s.C i j))
    ∧ (nx = some .s1 → 0 < inp.wideM → ∀ i, i < inp.wideN → IsInt (rowMin (s.C.getD i #[])))
    ∧ (nx = some .s6 → (s.rowUnc.any id && s.colUnc.any id) = true → IsInt (minval6 s))
    ∧ (nx ≠ some .s1 → 0 < inp.wideN → 0 < inp.wideM → ∃ u v : Nat → Rat,
        (∀ i, i < inp.wideN → ∀ j, j < inp.wideM → get2 s.C i j = inp.wideCost i j - u i - v j)
        ∧ (∀ i, i < inp.wideN → IsInt (u i)) ∧ (∀ j, j < inp.wideM → IsInt (v j)))
    ∧ (∀ st x, nx = some st → ArithVal st s x → IsInt x) := by
  obtain ⟨h1, h2, h3, h4, h5⟩ := visited_values_box inp hw hI.box hv
  refine ⟨fun i hi' j hj => isInt_iff_grid.2 (h1 i hi' j hj).1,
    fun a b i hi' => isInt_iff_grid.2 (h2 a b i hi').1, fun a b => isInt_iff_grid.2 (h3 a b).1, ?_,
    fun st x a b => isInt_iff_grid.2 (h5 st x a b).1⟩
  intro a b c
  obtain ⟨u, v, e, hu, hv'⟩ := h4 a b c
  exact ⟨u, v, e, fun i hi' => isInt_iff_grid.2 (hu i hi').1, fun j hj => isInt_iff_grid.2 (hv' j hj).1⟩

/-- **2. Everything stays inside `B(M, n, m) = 8·M`** (`boundB`; independent of the shape): working
matrix in `[0, 4M]` (`[-M, M]` before step 1), row minima in `[-M, M]`, `minval` in `[0, 4M]`,
potentials `u ∈ [-5M, M]`, `v ∈ [-6M, 6M]`, arithmetic results in `[0, 8M]`. -/
theorem entries_bounded (inp : Input) (hw : inp.WellShaped) (M : Rat) (hI : inp.IntBounded M)
    {nx : Option Step} {s : State} (hv : inp.Visits nx s) :
    (∀ i, i < inp.wideN → ∀ j, j < inp.wideM →
        (nx = some .s1 → |get2 s.C i j| ≤ M) ∧ (nx ≠ some .s1 → 0 ≤ get2 s.C i j ∧ get2 s.C i j ≤ 4 * M)
        ∧ |get2 s.C i j| ≤ boundB M inp.n inp.m)
    ∧ (nx = some .s1 → 0 < inp.wideM → ∀ i, i < inp.wideN → |rowMin (s.C.getD i #[])| ≤ M)
    ∧ (nx = some .s6 → (s.rowUnc.any id && s.colUnc.any id) = true → 0 ≤ minval6 s ∧ minval6 s ≤ 4 * M)
    ∧ (nx ≠ some .s1 → 0 < inp.wideN → 0 < inp.wideM → ∃ u v : Nat → Rat,
        (∀ i, i < inp.wideN → ∀ j, j < inp.wideM → get2 s.C i j = inp.wideCost i j - u i - v j)
        ∧ (∀ i, i < inp.wideN → |u i| ≤ boundB M inp.n inp.m)
        ∧ (∀ j, j < inp.wideM → |v j| ≤ boundB M inp.n inp.m))
    ∧ (∀ st x, nx = some st → ArithVal st s x → 0 ≤ x ∧ x ≤ boundB M inp.n inp.m) := by
  obtain ⟨h1, h2, h3, h4, h5⟩ := visited_values_box inp hw hI.box hv
  unfold boundB
  refine ⟨?_, ?_, ?_, ?_, ?_⟩
  · intro i hi' j hj
    obtain ⟨_, a, b⟩ := h1 i hi' j hj
    refine ⟨fun h => abs_le.2 ⟨(a h).1, (a h).2⟩, fun h => ⟨(b h).1, by linarith [(b h).2]⟩, ?_⟩
    by_cases h : nx = some .s1
    · have := a h
      have hM : 0 ≤ M := by linarith [this.1, this.2]
      exact abs_le.2 ⟨by linarith [this.1], by linarith [this.2]⟩
    · have := b h
      exact abs_le.2 ⟨by linarith [this.1, this.2], by linarith [this.2]⟩
  · intro a b i hi'
    have := h2 a b i hi'
    exact abs_le.2 ⟨this.2.1, this.2.2⟩
  · intro a b
    have := h3 a b
    exact ⟨this.2.1, by linarith [this.2.2]⟩
  · intro a b c
    obtain ⟨u, v, e, hu, hv'⟩ := h4 a b c
    have hM : 0 ≤ M := by
      have hbw := inp.wide_box hI.box
      have h1 := hbw.lo_le 0 b 0 c
      have h2 := hbw.le_hi 0 b 0 c
      linarith
    refine ⟨u, v, e, fun i hi' => ?_, fun j hj => ?_⟩
    · have := hu i hi'
      exact abs_le.2 ⟨by linarith [this.2.1], by linarith [this.2.2]⟩
    · have := hv' j hj
      exact abs_le.2 ⟨by linarith [this.2.1], by linarith [this.2.2]⟩
  · intro st x a b
    have := h5 st x a b
    exact ⟨this.2.1, by linarith [this.2.2]⟩

/-- **3a. The run in the work dtype IS the exact run** — same trace, same pairs, same reduced matrix,
same error if any — for every rounding function that is the identity on the grid values in
`[0, 4·(hi − lo)]`.  No size bound; termination not needed. -/
theorem solveFloat_eq_solve_box {g lo hi : Rat} (inp : Input) (hw : inp.WellShaped)
    (hb : CostBox g lo hi inp.n inp.m inp.costFn)
    (rnd : Rat → Rat) (hrnd : ∀ x, OnGrid g x → 0 ≤ x → x ≤ 4 * (hi - lo) → rnd x = x) :
    solveFloat rnd inp = solve inp :=
  solveFloat_eq inp hw hb rnd hrnd

/-- the states recorded in an answer's trace are states the run visits (so the clauses above hold
of every `_Hungary` state the harness compares) -/
theorem trace_states_visited (inp : Input) (o : Output) (h : solve inp = .ok o) :
    ∀ p ∈ o.trace, ∃ nx, inp.Visits nx p.2 :=
  trace_visited inp o h

theorem exact53_of {x B : Rat} (hx : IsInt x) (h0 : 0 ≤ x) (hB : x ≤ B) (h53 : B ≤ 2 ^ 53) : Exact53 x :=
  ⟨hx, abs_le.2 ⟨by linarith, by linarith⟩⟩

/-- **3. float64 is exact on small integers.**  If every entry is an integer with `|entry| ≤ M` and
`B(M, n, m) = 8M ≤ 2^53`, then the entries, every entry of every visited working matrix and every
result of an arithmetic operation of the run are `Exact53`; and for every rounding function `rnd` that
leaves `Exact53` values unchanged (float64 addition / subtraction: correctly rounded, so exact when
the exact result is representable; comparison and `min` never round) `solveFloat rnd inp = solve inp`. -/
theorem float_exact_on_small_integers (inp : Input) (hw : inp.WellShaped) (M : Rat) (hI : inp.IntBounded M)
    (hB : boundB M inp.n inp.m ≤ 2 ^ 53) :
    (∀ i, i < inp.n → ∀ j, j < inp.m → Exact53 (inp.costFn i j))
    ∧ (∀ nx s, inp.Visits nx s →
        (∀ i, i < inp.wideN → ∀ j, j < inp.wideM → Exact53 (get2 s.C i j))
        ∧ ∀ st x, nx = some st → ArithVal st s x → Exact53 x)
    ∧ ∀ rnd : Rat → Rat, (∀ x, Exact53 x → rnd x = x) → solveFloat rnd inp = solve inp := by
  unfold boundB at hB
  refine ⟨?_, ?_, ?_⟩
  · intro i hi' j hj
    have := hI i hi' j hj
    have h0 : 0 ≤ M := le_trans (abs_nonneg _) this.2
    exact ⟨this.1, le_trans this.2 (by linarith)⟩
  · intro nx s hv
    obtain ⟨b1, _, _, _, b5⟩ := entries_bounded inp hw M hI hv
    obtain ⟨i1, _, _, _, i5⟩ := entries_integral inp hw M hI hv
    unfold boundB at b1 b5
    refine ⟨fun i hi' j hj => ⟨i1 i hi' j hj, le_trans (b1 i hi' j hj).2.2 hB⟩, fun st x a b => ?_⟩
    have := b5 st x a b
    exact exact53_of (i5 st x a b) this.1 this.2 hB
  · intro rnd hrnd
    apply solveFloat_eq inp hw hI.box rnd
    intro x hx h0 hK
    exact hrnd x (exact53_of (isInt_iff_grid.2 hx) h0 (by linarith) hB)

/-- `Hash.rndDouble` (IEEE round-to-nearest-even to 53 bits) leaves `Exact53` values unchanged -/
theorem rndDouble_exact53 (x : Rat) (hx : Exact53 x) : Hash.rndDouble x = x := by
  obtain ⟨⟨z, rfl⟩, hz⟩ := hx
  apply rndDouble_int
  have : |((z : Int) : Rat)| = ((|z| : Int) : Rat) := by simp
  rw [this] at hz
  exact_mod_cast hz

/-- **3b. The float64 run is the exact run**: with the concrete IEEE rounding at every `+`/`−` of the
work matrix, integer entries with `8·max|entry| ≤ 2^53` give exactly the trace and the answer of the
exact-rational model (to which `solve_correct` applies). -/
theorem float64_exact_run (inp : Input) (hw : inp.WellShaped) (M : Rat) (hI : inp.IntBounded M)
    (hB : boundB M inp.n inp.m ≤ 2 ^ 53) : solveFloat Hash.rndDouble inp = solve inp :=
  (float_exact_on_small_integers inp hw M hI hB).2.2 _ rndDouble_exact53

/-- **5. int64 never overflows** when `B(M, n, m) = 8M < 2^63`: every arithmetic result lies in
`[0, 2^63)`, and the run with two's-complement wrap-around at every operation is the exact run. -/
theorem no_overflow_int64 (inp : Input) (hw : inp.WellShaped) (M : Rat) (hI : inp.IntBounded M)
    (hB : boundB M inp.n inp.m < 2 ^ 63) :
    (∀ nx s st x, inp.Visits nx s → nx = some st → ArithVal st s x → IsInt x ∧ 0 ≤ x ∧ x < 2 ^ 63)
    ∧ solveFloat wrapInt64 inp = solve inp := by
  refine ⟨?_, ?_⟩
  · intro nx s st x hv a b
    have h1 := (entries_bounded inp hw M hI hv).2.2.2.2 st x a b
    exact ⟨(entries_integral inp hw M hI hv).2.2.2.2 st x a b, h1.1, lt_of_le_of_lt h1.2 hB⟩
  · unfold boundB at hB
    apply solveFloat_eq inp hw hI.box wrapInt64
    intro x hx h0 hK
    obtain ⟨z, rfl⟩ := isInt_iff_grid.2 hx
    have h1 : (0 : Int) ≤ z := by exact_mod_cast h0
    have h2 : ((z : Int) : Rat) < 2 ^ 63 := by linarith
    exact wrapInt64_int z (by omega) (by exact_mod_cast h2)

/-- … and uint64 never wraps when `8M < 2^64` (every arithmetic result is non-negative) -/
theorem no_overflow_uint64 (inp : Input) (hw : inp.WellShaped) (M : Rat) (hI : inp.IntBounded M)
    (hB : boundB M inp.n inp.m < 2 ^ 64) : solveFloat wrapUInt64 inp = solve inp := by
  unfold boundB at hB
  apply solveFloat_eq inp hw hI.box wrapUInt64
  intro x hx h0 hK
  obtain ⟨z, rfl⟩ := isInt_iff_grid.2 hx
  have h1 : (0 : Int) ≤ z := by exact_mod_cast h0
  have h2 : ((z : Int) : Rat) < 2 ^ 64 := by linarith
  exact wrapUInt64_int z h1 (by exact_mod_cast h2)

/-- **5b. … for entries of any magnitude**: integer entries in `[lo, hi]` (themselves int64 values,
possibly far beyond `2^53`) with `4·(hi − lo) < 2^63`: only differences of entries are ever formed, so
nothing wraps. -/
theorem no_overflow_int64_spread (inp : Input) (hw : inp.WellShaped) (lo hi : Rat) (hI : inp.IntBox lo hi)
    (hB : 4 * (hi - lo) < 2 ^ 63) : solveFloat wrapInt64 inp = solve inp := by
  apply solveFloat_eq inp hw hI wrapInt64
  intro x hx h0 hK
  obtain ⟨z, rfl⟩ := isInt_iff_grid.2 hx
  have h1 : (0 : Int) ≤ z := by exact_mod_cast h0
  have h2 : ((z : Int) : Rat) < 2 ^ 63 := by linarith
  exact wrapInt64_int z (by omega) (by exact_mod_cast h2)

/-! #### non-vacuity (tests, by kernel evaluation) -/

/-- TEST: the docstring example (entries 0..5) satisfies the hypotheses of `entries_integral`,
`entries_bounded`, `float_exact_on_small_integers`, `float64_exact_run`, `no_overflow_int64` with `M = 5` -/
example : exInput.IntBounded 5 ∧ boundB 5 exInput.n exInput.m ≤ 2 ^ 53 ∧ boundB 5 exInput.n exInput.m < 2 ^ 63 := by
  refine ⟨?_, by norm_num [boundB], by norm_num [boundB]⟩
  have hb := intBoxB_sound exInput (-5) 5 (by decide +kernel)
  intro i hi j hj
  exact ⟨isInt_iff_grid.2 (hb.grid i hi j hj), abs_le.2 ⟨hb.lo_le i hi j hj, hb.le_hi i hi j hj⟩⟩

/-- TEST: … and so does the tall example with `M = 11` (run on the transpose) -/
example : exTall.IntBox (-11) 11 := intBoxB_sound exTall (-11) 11 (by decide +kernel)

/-- TEST: a state with an arithmetic result exists: the fresh state of the docstring example is visited
and `4 − 1 = 3` is a difference formed by its step 1 -/
example : exInput.Visits (some .s1) exInput.start ∧ ArithVal .s1 exInput.start 3 :=
  ⟨Reach.start, 0, 0, by decide +kernel, by decide +kernel, by decide +kernel⟩

/-- TEST: the rounded runs of the docstring example (float64 rounding, int64 wrap) reach step 6 and
equal the exact run, pairs and reduced matrix included -/
example : (match solveFloat Hash.rndDouble exInput, solveFloat wrapInt64 exInput, solve exInput with
    | .ok a, .ok b, .ok c => a.pairs == c.pairs && a.red == c.red && b.red == c.red
        && a.trace.size == c.trace.size && c.trace.any (·.1 == .s6)
    | _, _, _ => false) = true := by decide +kernel

/-- TEST: the hypotheses of `solveFloat_eq_solve_box` are satisfiable with a non-trivial rounding function:
the docstring example lies on the grid `1·ℤ` inside `[0, 5]`, and IEEE rounding is the identity on the
integers in `[0, 20]` -/
example : CostBox 1 0 5 exInput.n exInput.m exInput.costFn
    ∧ ∀ x, OnGrid 1 x → 0 ≤ x → x ≤ 4 * ((5 : Rat) - 0) → Hash.rndDouble x = x :=
  ⟨intBoxB_sound exInput 0 5 (by decide +kernel), fun x hx h0 hK =>
    rndDouble_exact53 x (exact53_of (isInt_iff_grid.2 hx) h0 hK (by norm_num))⟩

/-- int64 entries near `2^62` (far beyond `2^53`, and `8·M ≥ 2^63`) whose spread is 9 -/
def exHuge : Input :=
  { ndim := 2, n := 2, m := 2, dt := .int
    ent := #[#[.fin 4611686018427387904, .fin 4611686018427387913], #[.fin 4611686018427387911, .fin 4611686018427387905]] }

/-- TEST: `exHuge` satisfies the hypotheses of `no_overflow_int64_spread` (and not those of
`no_overflow_int64`), and its wrapped run equals its exact run -/
example : exHuge.WellShaped ∧ exHuge.IntBox 4611686018427387904 4611686018427387913
    ∧ (4 : Rat) * (4611686018427387913 - 4611686018427387904) < 2 ^ 63
    ∧ ¬ boundB 4611686018427387913 2 2 < 2 ^ 63 := by
  refine ⟨by unfold Input.WellShaped; decide, intBoxB_sound _ _ _ (by decide +kernel), by norm_num, by norm_num [boundB]⟩

/-- a 2 × 2 float matrix with an entry of magnitude `2^53`: `8·M` is beyond `2^53` -/
def exBig : Input :=
  { ndim := 2, n := 2, m := 2, dt := .float
    ent := #[#[.fin (-9007199254740992), .fin 1], #[.fin 1, .fin 3]] }

/-- TEST: rounding is NOT harmless beyond the bound — `1 − (−2^53) = 2^53 + 1` is not a double, and the
float64 run of `exBig` returns another reduced matrix than the exact run (so the hypothesis
`B ≤ 2^53` is doing work) -/
example : (match solveFloat Hash.rndDouble exBig, solve exBig with
    | .ok a, .ok c => a.red != c.red
    | _, _ => false) = true := by decide +kernel

end QcelVerif.Munkres
