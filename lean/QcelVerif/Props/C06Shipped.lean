import QcelVerif.Props.C06Sound
/-!
# C06 — facts about the shipped table (kernel evaluation over the generated table, re-checked whenever
the data file changes) that the general theorems take as hypotheses.
-/
namespace QcelVerif.Nucleus
open QcelVerif QcelVerif.PStr QcelVerif.PT
set_option maxRecDepth 100000

/-- element row check: `Z → symbol → Z` round trip (strict), `symbol + str(default A)` is tabulated with
the element's own mass string, and that mass string parses -/
def elementRowOk (r : Nat × Nat × Nat) : Bool :=
  let z : Int := (r.1 : Int)
  match shippedN.pt.toE (.int z) false, shippedN.pt.toA (.int z) with
  | some sym, some a =>
      shippedN.pt.toMass (.str (unpack sym ++ intStr (a : Int))) == shippedN.pt.toMass (.int z) &&
      shippedN.pt.toZ (.str (unpack sym)) true == some r.1 &&
      (match shippedN.pt.toMass (.int z) with | some s => (decVal (unpack s)).isSome | none => false)
  | _, _ => false

/-- nuclide row check: the mass string parses and lies within 1/4 u of the mass number -/
def nuclideMassOk (r : Nat × Nat × Nat × Nat) : Bool :=
  match decVal (unpack r.2.2.2) with
  | some q => decide (absR (q - (r.2.2.1 : Rat)) < 1/4)
  | none => false

theorem shipped_elements_ok : Gen.PT.elements.all elementRowOk = true := by decide +kernel
theorem shipped_nuclides_q0 : Gen.PT.nuclidesQ0.all nuclideMassOk = true := by decide +kernel
theorem shipped_nuclides_q1 : Gen.PT.nuclidesQ1.all nuclideMassOk = true := by decide +kernel
theorem shipped_nuclides_q2 : Gen.PT.nuclidesQ2.all nuclideMassOk = true := by decide +kernel
theorem shipped_nuclides_q3 : Gen.PT.nuclidesQ3.all nuclideMassOk = true := by decide +kernel

end QcelVerif.Nucleus

namespace QcelVerif.Nucleus
open QcelVerif QcelVerif.PStr QcelVerif.PT

theorem foldl_lastAssoc_mem {α β} [BEq α] (k : α) :
    ∀ (l : List (α × β)) (acc : Option β) (v : β),
      l.foldl (fun acc p => if p.1 == k then some p.2 else acc) acc = some v →
      acc = some v ∨ ∃ p ∈ l, (p.1 == k) = true ∧ p.2 = v
  | [], acc, v, h => Or.inl h
  | p :: t, acc, v, h => by
      simp only [List.foldl_cons] at h
      rcases foldl_lastAssoc_mem k t _ v h with h' | ⟨q, hq, hk, hv⟩
      · by_cases hp : (p.1 == k) = true
        · rw [if_pos hp] at h'
          exact Or.inr ⟨p, List.mem_cons_self, hp, Option.some.inj h'⟩
        · rw [if_neg hp] at h'; exact Or.inl h'
      · exact Or.inr ⟨q, List.mem_cons_of_mem _ hq, hk, hv⟩

/-- an atomic number that resolves is the `Z` of some element row -/
theorem row_of_toE {T : PT.Tables} {z : Int} {sym : Nat} (h : T.toE (.int z) false = some sym) :
    ∃ r ∈ T.elements, (r.1 : Int) = z := by
  unfold Tables.toE Tables.resolve Tables.resolveEliso at h
  cases hz : T.z2el z with
  | none => simp [hz] at h
  | some k =>
    unfold Tables.z2el at hz
    split at hz
    · cases hz
    · rename_i hneg
      unfold Tables.lastAssoc at hz
      rcases foldl_lastAssoc_mem _ _ _ _ hz with h0 | ⟨p, hp, hk, _⟩
      · cases h0
      · obtain ⟨r, hr, rfl⟩ := List.mem_map.mp hp
        refine ⟨r, hr, ?_⟩
        simp only [beq_iff_eq] at hk
        omega

/-- **The shipped table is coherent at every default isotope** (hypothesis `DefaultCoherent` of the
general theorems), and for every element row `Z → symbol → Z` round-trips in strict mode and the
element's mass string parses; every nuclide mass string parses to within 1/4 u of its mass number. -/
theorem shipped_coherent :
    DefaultCoherent shippedN ∧
    (∀ (z : Int) (sym : Nat), shippedN.pt.toE (.int z) false = some sym →
        shippedN.pt.toZ (.str (unpack sym)) true = some z.toNat ∧ 0 ≤ z) ∧
    Gen.PT.nuclides.all nuclideMassOk = true := by
  have hrow : ∀ (z : Int) (sym : Nat), shippedN.pt.toE (.int z) false = some sym →
      ∃ r ∈ Gen.PT.elements, (r.1 : Int) = z ∧ elementRowOk r = true := by
    intro z sym h
    obtain ⟨r, hr, hz⟩ := row_of_toE h
    exact ⟨r, hr, hz, (List.all_eq_true.mp shipped_elements_ok) r hr⟩
  refine ⟨?_, ?_, ?_⟩
  · intro z sym a hE hA
    obtain ⟨r, _, hz, hok⟩ := hrow z sym hE
    unfold elementRowOk at hok
    simp only [hz, hE, hA, Bool.and_eq_true, beq_iff_eq] at hok
    exact hok.1.1
  · intro z sym hE
    obtain ⟨r, _, hz, hok⟩ := hrow z sym hE
    unfold elementRowOk at hok
    simp only [hz, hE] at hok
    cases hA : shippedN.pt.toA (.int z) with
    | none => simp [hA] at hok
    | some a =>
      simp only [hA, Bool.and_eq_true, beq_iff_eq] at hok
      refine ⟨?_, by omega⟩
      rw [hok.1.2]; congr 1; omega
  · simp only [Gen.PT.nuclides, List.all_append, shipped_nuclides_q0, shipped_nuclides_q1,
      shipped_nuclides_q2, shipped_nuclides_q3, Bool.and_self]

end QcelVerif.Nucleus
