import QcelVerif.Lemmas.Orient
import Mathlib.Tactic.NormNum

/-!
# C16 — orientation puts a molecule in a canonical inertial frame without distorting it

Property theorems about the model `Model/Orient.lean`.  Manifest (17 obligations):
`orient_com_zero`, `orient_isometry`, `orient_isometry_get`, `isometry_defect`, `isometry_approx`,
`isEigFrame_exact`, `inertia_transforms`,
`orient_inertia_diagonal`, `phaseLoop_eq_colSign`, `phase_convention`, `phase_column_pm`,
`nongeometric_untouched`, `orient_rigid_invariant_partial`, `orient_idempotent_partial`, `floatPrep_small`,
`orientCore_zero_mass`, `flushed_decider_witness` (a kernel-evaluated concrete witness, i.e. a test).

`V` (the eigenvector matrix returned by `numpy.linalg.eigh`) is a parameter everywhere; what the
theorems assume about it (`Orth V`, `Vᵀ T V = diag l`) is what the driver certifies per call.
All statements hold for any number of atoms and over any field of the stated kind (ℚ and ℝ included).
-/

namespace QcelVerif.Orient

section Ordered
variable {K : Type} [Field K] [LinearOrder K] [IsStrictOrderedRing K]

/-- unfolding of a successful run -/
theorem orientCore_ok {noise : K} {ms : List K} {xs : List (V3 K)} {V : M3 K} {out : List (V3 K)}
    (h : orientCore noise ms xs V = .ok out) :
    ms.length = xs.length ∧ massSum ms ≠ 0 ∧ out = phase noise (rotate (center ms xs) V) := by
  unfold orientCore at h
  split_ifs at h with h1 h2
  · injection h with h
    exact ⟨not_not.mp h1, h2, h.symm⟩

/-- the model refuses (ZeroDivisionError) exactly when the masses sum to zero — it never "repairs" -/
theorem orientCore_zero_mass {noise : K} {ms : List K} {xs : List (V3 K)} {V : M3 K}
    (hl : ms.length = xs.length) (h : massSum ms = 0) : orientCore noise ms xs V = .error .zeroDivision := by
  simp [orientCore, hl, h]

/-! ## 1. centre of mass at the origin -/

/-- **Centring.**  Whatever `V` is, the mass-weighted sum of the oriented coordinates is zero. -/
theorem orient_com_zero {noise : K} {ms : List K} {xs : List (V3 K)} {V : M3 K} {out : List (V3 K)}
    (h : orientCore noise ms xs V = .ok out) : wsum ms out = V3.zero := by
  obtain ⟨hl, hM, rfl⟩ := orientCore_ok h
  rw [phase_eq, wsum_map_flip, rotate, wsum_map_mulMat, wsum_center hl hM, mulMat_zero, flip_zero]

/-! ## 2. no distortion -/

/-- **Isometry.**  If `V Vᵀ = 1`, the oriented geometry is the image of the input under one map `f`
(translate, rotate, flip signs) that preserves every squared distance. -/
theorem orient_isometry {noise : K} {ms : List K} {xs : List (V3 K)} {V : M3 K} {out : List (V3 K)}
    (hV : M3.mul V (M3.tr V) = M3.one) (h : orientCore noise ms xs V = .ok out) :
    ∃ f : V3 K → V3 K, out = xs.map f ∧ ∀ p q, V3.distSq (f p) (f q) = V3.distSq p q := by
  obtain ⟨_, _, rfl⟩ := orientCore_ok h
  let g1 := rotate (center ms xs) V
  refine ⟨fun p => V3.flip (colSign noise (g1.map (·.x))) (colSign noise (g1.map (·.y))) (colSign noise (g1.map (·.z)))
      (V3.mulMat (V3.sub p (com ms xs)) V), ?_, ?_⟩
  · rw [phase_eq]
    simp only [rotate, center, List.map_map, g1]
    rfl
  · intro p q
    rw [distSq_flip (pm_sq (colSign_pm _ _)) (pm_sq (colSign_pm _ _)) (pm_sq (colSign_pm _ _)),
      distSq_mulMat hV, distSq_sub_right]

/-- indexed form: every interatomic squared distance is preserved -/
theorem orient_isometry_get {noise : K} {ms : List K} {xs : List (V3 K)} {V : M3 K} {out : List (V3 K)}
    (hV : M3.mul V (M3.tr V) = M3.one) (h : orientCore noise ms xs V = .ok out)
    (i j : Nat) (hi : i < xs.length) (hj : j < xs.length) :
    ∃ (hi' : i < out.length) (hj' : j < out.length), V3.distSq out[i] out[j] = V3.distSq xs[i] xs[j] := by
  obtain ⟨f, rfl, hf⟩ := orient_isometry hV h
  refine ⟨by simpa using hi, by simpa using hj, ?_⟩
  simp [hf]

/-- For **any** `V` the distortion of a squared distance is the quadratic form of `V Vᵀ - 1`:
the certified residual `‖VVᵀ - 1‖ ≤ ε` therefore bounds it by `9 ε |p - q|²`-type quantities. -/
theorem isometry_defect {R : Type} [CommRing R] (p q : V3 R) (V : M3 R) :
    V3.distSq (V3.mulMat p V) (V3.mulMat q V) - V3.distSq p q
      = V3.dot (V3.mulMat (V3.sub p q) (M3.sub (M3.mul V (M3.tr V)) M3.one)) (V3.sub p q) := by
  simp only [V3.distSq]
  rw [← mulMat_sub, normSq_mulMat_defect]

/-! ## 2b. what the per-call certificate buys (no exactness assumed) -/

/-- **Certified distortion bound.**  If the residual the driver computes satisfies
`‖V Vᵀ - 1‖_max ≤ ε`, the rotation step changes every squared distance by at most `3 ε` times itself. -/
theorem isometry_approx {V : M3 K} {ε : K} (h : M3.maxAbs (M3.sub (M3.mul V (M3.tr V)) M3.one) ≤ ε) (p q : V3 K) :
    |V3.distSq (V3.mulMat p V) (V3.mulMat q V) - V3.distSq p q| ≤ 3 * ε * V3.distSq p q := by
  rw [isometry_defect]
  set E := M3.sub (M3.mul V (M3.tr V)) M3.one with hE
  set d := V3.sub p q with hd
  obtain ⟨h1, h2, h3, h4, h5, h6, h7, h8, h9⟩ := maxAbs_entries h
  have e : V3.dot (V3.mulMat d E) d = d.x * E.xx * d.x + d.y * E.yx * d.x + d.z * E.zx * d.x
      + (d.x * E.xy * d.y + d.y * E.yy * d.y + d.z * E.zy * d.y)
      + (d.x * E.xz * d.z + d.y * E.yz * d.z + d.z * E.zz * d.z) := by
    simp only [V3.dot, V3.mulMat]; ring
  have b1 := abs_le.mp (term_bound (a := d.x) (b := d.x) h1)
  have b2 := abs_le.mp (term_bound (a := d.y) (b := d.x) h4)
  have b3 := abs_le.mp (term_bound (a := d.z) (b := d.x) h7)
  have b4 := abs_le.mp (term_bound (a := d.x) (b := d.y) h2)
  have b5 := abs_le.mp (term_bound (a := d.y) (b := d.y) h5)
  have b6 := abs_le.mp (term_bound (a := d.z) (b := d.y) h8)
  have b7 := abs_le.mp (term_bound (a := d.x) (b := d.z) h3)
  have b8 := abs_le.mp (term_bound (a := d.y) (b := d.z) h6)
  have b9 := abs_le.mp (term_bound (a := d.z) (b := d.z) h9)
  rw [e, V3.distSq, V3.normSq, abs_le]
  constructor <;> linarith [b1.1, b1.2, b2.1, b2.2, b3.1, b3.2, b4.1, b4.2, b5.1, b5.2, b6.1, b6.2, b7.1, b7.2, b8.1, b8.2, b9.1, b9.2]

/-- the certificate the driver evaluates, at tolerance 0, is exactly the hypotheses used above -/
theorem isEigFrame_exact {T V : M3 K} {l : V3 K} (h : isEigFrame T V l 0 0 = true) :
    Orth V ∧ M3.mul (M3.mul (M3.tr V) T) V = M3.diag l.x l.y l.z ∧ l.x ≤ l.y ∧ l.y ≤ l.z := by
  unfold isEigFrame certResiduals at h
  simp only [Bool.and_eq_true, decide_eq_true_eq] at h
  obtain ⟨⟨⟨⟨h1, h2⟩, h3⟩, h4⟩, h5⟩ := h
  exact ⟨⟨eq_of_sub_eq_zero3 (maxAbs_le_zero h1), eq_of_sub_eq_zero3 (maxAbs_le_zero h2)⟩,
    eq_of_sub_eq_zero3 (maxAbs_le_zero h3), h4, h5⟩

/-! ## 3. the inertia tensor -/

/-- **Transformation law** `I(xV) = Vᵀ I(x) V` for orthogonal `V` (any commutative ring, any atoms). -/
theorem inertia_transforms {R : Type} [CommRing R] {V : M3 R} (hV : Orth V) : ∀ (ms : List R) (g : List (V3 R)),
    inertia ms (rotate g V) = M3.mul (M3.mul (M3.tr V) (inertia ms g)) V
  | [], g => by rw [inertia_nil_left, inertia_nil_left]; exact (sandwich_zero V).symm
  | m :: ms, [] => by simp only [rotate, List.map_nil]; rw [inertia_nil_right]; exact (sandwich_zero V).symm
  | m :: ms, p :: g => by
    have ih := inertia_transforms hV ms g
    simp only [rotate, List.map_cons] at ih ⊢
    rw [inertia_cons, inertia_cons, ih, I1_rotate hV]
    exact (sandwich_add V _ _).symm

/-- **Diagonal tensor, certified eigenvalues as moments.**  If `V` is orthogonal and `Vᵀ T V = diag l`
for `T` the tensor the code hands to `eigh`, then the inertia tensor of the oriented geometry (whose
centre of mass is the origin by `orient_com_zero`) is exactly `diag l`; ascending `l` = ascending moments. -/
theorem orient_inertia_diagonal {noise : K} {ms : List K} {xs : List (V3 K)} {V : M3 K} {out : List (V3 K)} {l : V3 K}
    (hV : Orth V) (hD : M3.mul (M3.mul (M3.tr V) (orientTensor ms xs)) V = M3.diag l.x l.y l.z)
    (h : orientCore noise ms xs V = .ok out) :
    inertia ms out = M3.diag l.x l.y l.z ∧ (l.x ≤ l.y → l.y ≤ l.z → (inertia ms out).xx ≤ (inertia ms out).yy ∧ (inertia ms out).yy ≤ (inertia ms out).zz) := by
  obtain ⟨_, _, rfl⟩ := orientCore_ok h
  have key : inertia ms (phase noise (rotate (center ms xs) V)) = M3.diag l.x l.y l.z := by
    rw [phase_eq]
    set g1 := rotate (center ms xs) V with hg1
    have hsx := pm_sq (colSign_pm noise (g1.map (·.x)))
    have hsy := pm_sq (colSign_pm noise (g1.map (·.y)))
    have hsz := pm_sq (colSign_pm noise (g1.map (·.z)))
    have hmap : ∀ a b c : K, g1.map (V3.flip a b c) = rotate g1 (M3.diag a b c) := by
      intro a b c; simp only [rotate]; apply List.map_congr_left; intro p _; exact (mulMat_diag p a b c).symm
    rw [hmap, inertia_transforms (orth_diag hsx hsy hsz), hg1, inertia_transforms hV]
    unfold orientTensor at hD
    rw [hD]
    have := sandwich_diag_diag (colSign noise (g1.map (·.x))) (colSign noise (g1.map (·.y))) (colSign noise (g1.map (·.z))) l.x l.y l.z
    unfold sandwich at this
    rw [hg1] at this hsx hsy hsz
    rw [this, hsx, hsy, hsz, one_mul, one_mul, one_mul]
  refine ⟨key, ?_⟩
  intro h1 h2
  rw [key]
  exact ⟨h1, h2⟩

/-! ## 4. the phase convention — exactly what the loop does -/

/-- The in-place double loop of the code (three columns interleaved, flags, early exit) computes, for
each column independently, the sign `-1` iff the **first entry whose absolute value is not below the
threshold** is negative (`colSign`), and multiplies the column by it. -/
theorem phaseLoop_eq_colSign (noise : K) (g : List (V3 K)) :
    phase noise g = g.map (V3.flip (colSign noise (g.map (·.x))) (colSign noise (g.map (·.y))) (colSign noise (g.map (·.z)))) :=
  phase_eq noise g

/-- **Sign convention.**  In every column of the phased geometry, if `v` is the first entry that is
not within `noise` of the coordinate plane (all entries before it are), then `v ≥ noise > 0`. -/
theorem phase_convention {noise : K} (g : List (V3 K)) (proj : V3 K → K)
    (hproj : proj = (·.x) ∨ proj = (·.y) ∨ proj = (·.z))
    (pre : List K) (v : K) (suf : List K)
    (hcol : (phase noise g).map proj = pre ++ v :: suf) (hpre : ∀ u ∈ pre, |u| < noise) (hv : ¬ |v| < noise) :
    noise ≤ v := by
  rw [phase_eq] at hcol
  rcases hproj with rfl | rfl | rfl
  · rw [map_x_flip] at hcol; exact colSign_spec _ _ rfl pre v suf hcol hpre hv
  · rw [map_y_flip] at hcol; exact colSign_spec _ _ rfl pre v suf hcol hpre hv
  · rw [map_z_flip] at hcol; exact colSign_spec _ _ rfl pre v suf hcol hpre hv

/-- the loop does nothing but negate whole columns -/
theorem phase_column_pm (noise : K) (g : List (V3 K)) :
    ((phase noise g).map (·.x) = g.map (·.x) ∨ (phase noise g).map (·.x) = (g.map (·.x)).map (-1 * ·)) ∧
    ((phase noise g).map (·.y) = g.map (·.y) ∨ (phase noise g).map (·.y) = (g.map (·.y)).map (-1 * ·)) ∧
    ((phase noise g).map (·.z) = g.map (·.z) ∨ (phase noise g).map (·.z) = (g.map (·.z)).map (-1 * ·)) := by
  rw [phase_eq, map_x_flip, map_y_flip, map_z_flip]
  refine ⟨?_, ?_, ?_⟩
  · rcases colSign_pm noise (g.map (·.x)) with h | h <;> rw [h] <;> simp
  · rcases colSign_pm noise (g.map (·.y)) with h | h <;> rw [h] <;> simp
  · rcases colSign_pm noise (g.map (·.z)) with h | h <;> rw [h] <;> simp

/-! ## 5. non-geometric fields -/

/-- **Only the geometry is assigned.** -/
theorem nongeometric_untouched {α : Type} {noise : K} {m m' : Mol K α} {V : M3 K}
    (h : orientMol noise m V = .ok m') :
    m'.masses = m.masses ∧ m'.rest = m.rest ∧ orientCore noise m.masses m.geometry V = .ok m'.geometry := by
  unfold orientMol at h
  split at h
  · rename_i g hg
    injection h with h
    subst h
    exact ⟨rfl, rfl, hg⟩
  · cases h

/-! ## 6. uniqueness consequences (partial: eigen-frame uniqueness is a hypothesis) -/

/-- **Rigid invariance (partial).**  `ys = xs R + t` with `R` orthogonal.  Hypothesis standing for
"distinct moments ⇒ principal axes unique up to sign": the eigenvectors found for the moved copy are
`V' = Rᵀ V D` with `D = diag(±1)`; and every column whose sign differs has an atom off the plane.
Then both copies orient to exactly the same coordinates.
-- FULL: `Orth V → VᵀTV = diag l → l.x < l.y < l.z → Orth V' → V'ᵀT'V' = diag l' → l' ascending →
--        ∃ D = diag(±1), V' = Rᵀ V D` (uniqueness of eigen-lines of a symmetric 3×3 matrix with
--        distinct eigenvalues) is not proved here; the harness certifies the spectral gap per call. -/
theorem orient_rigid_invariant_partial {noise : K} (h0 : 0 < noise) {ms : List K} {xs : List (V3 K)}
    {R V : M3 K} (t : V3 K) {dx dy dz : K}
    (hl : ms.length = xs.length) (hM : massSum ms ≠ 0) (hR : M3.mul R (M3.tr R) = M3.one)
    (hx : ColOK noise dx ((rotate (center ms xs) V).map (·.x)))
    (hy : ColOK noise dy ((rotate (center ms xs) V).map (·.y)))
    (hz : ColOK noise dz ((rotate (center ms xs) V).map (·.z))) :
    orientCore noise ms (xs.map (fun p => V3.add (V3.mulMat p R) t)) (M3.mul (M3.mul (M3.tr R) V) (M3.diag dx dy dz))
      = orientCore noise ms xs V := by
  have hl' : ms.length = (xs.map (fun p => V3.add (V3.mulMat p R) t)).length := by simpa using hl
  unfold orientCore
  rw [if_neg (not_not.mpr hl'), if_neg (not_not.mpr hl), if_neg hM, if_neg hM]
  congr 1
  rw [center_rigid hl hM]
  have : rotate ((center ms xs).map (fun p => V3.mulMat p R)) (M3.mul (M3.mul (M3.tr R) V) (M3.diag dx dy dz))
      = (rotate (center ms xs) V).map (V3.flip dx dy dz) := by
    simp only [rotate, List.map_map]
    apply List.map_congr_left
    intro p _
    simp only [Function.comp]
    rw [mulMat_mulMat, ← mul_assoc3, ← mul_assoc3, hR, one_mul3, ← mulMat_mulMat, mulMat_diag]
  rw [this, phase_flip h0 _ hx hy hz]

/-- **Idempotence (partial).**  `out` an oriented geometry.  Hypothesis standing for "its tensor is
`diag l` with distinct `l`, so a second `eigh` can only return `±` unit vectors": `V2 = diag(±1)`; and
every column whose sign is `-1` has an atom off the plane.  Then orienting again returns `out` itself.
-- FULL: as above, `V2 = diag(±1)` should follow from `Orth V2 ∧ V2ᵀ diag(l) V2 = diag l ∧ l.x<l.y<l.z`;
--        and the statement is about exact arithmetic — the implementation re-orients the *rounded*
--        geometry, for which the claim is false on a narrow input class (see Finding
--        `oracle:idempotent_flushed_decider`). -/
theorem orient_idempotent_partial {noise : K} (h0 : 0 < noise) {ms : List K} {xs : List (V3 K)} {V : M3 K}
    {out : List (V3 K)} {dx dy dz : K} (h : orientCore noise ms xs V = .ok out)
    (hx : ColOK noise dx (out.map (·.x))) (hy : ColOK noise dy (out.map (·.y))) (hz : ColOK noise dz (out.map (·.z))) :
    orientCore noise ms out (M3.diag dx dy dz) = .ok out := by
  have hc := orient_com_zero h
  obtain ⟨hl, hM, hout⟩ := orientCore_ok h
  have hl2 : ms.length = out.length := by rw [hout, phase_eq]; simpa [rotate, center] using hl
  unfold orientCore
  rw [if_neg (not_not.mpr hl2), if_neg hM, center_of_centred hc]
  congr 1
  have : rotate out (M3.diag dx dy dz) = out.map (V3.flip dx dy dz) := by
    simp only [rotate]; apply List.map_congr_left; intro p _; exact mulMat_diag p dx dy dz
  rw [this, phase_flip h0 _ hx hy hz, hout, phase_phase]

end Ordered

/-! ## 7. rounding of sub-noise columns -/
section Floor
variable {K : Type} [Field K] [LinearOrder K] [IsStrictOrderedRing K] [FloorRing K]

theorem roundHalfEven_small {t : K} (h : |t| < 1) : (roundHalfEven t).natAbs ≤ 1 := by
  have h1 : (-1 : K) < t := (abs_lt.mp h).1
  have h2 : t < 1 := (abs_lt.mp h).2
  have hf1 : -1 ≤ Int.floor t := Int.le_floor.mpr (by push_cast; linarith)
  have hf2 : Int.floor t < 1 := Int.floor_lt.mpr (by push_cast; linarith)
  unfold roundHalfEven
  simp only
  split_ifs <;> omega

/-- entries within `10⁻⁸` of a plane are printed as exact zeros by `float_prep(·, 8)`, whatever their
sign: columns in which no atom is off-plane (planar and linear molecules) come out identically zero. -/
theorem floatPrep_small {v : K} (h : |v| < 1 / 10 ^ 8) : floatPrepK 8 v = 0 := by
  have ht : |v * (10 : K) ^ 8| < 1 := by
    rw [abs_mul, abs_of_pos (by positivity : (0 : K) < 10 ^ 8)]
    have : |v| * 10 ^ 8 < 1 / 10 ^ 8 * 10 ^ 8 := mul_lt_mul_of_pos_right h (by positivity)
    simpa using this
  have := roundHalfEven_small ht
  unfold floatPrepK
  simp only
  rw [if_pos]
  calc (roundHalfEven (v * (10 : K) ^ 8)).natAbs * 5 ^ (8 + 1) ≤ 1 * 5 ^ (8 + 1) := Nat.mul_le_mul_right _ this
    _ < 10 ^ 8 := by norm_num

end Floor

/-! ## non-vacuity: the hypotheses are met by non-trivial concrete values (tests, `K = ℚ`) -/
section Examples

/-- a permutation-with-sign matrix is orthogonal and is not the identity -/
example : Orth (⟨0, 1, 0, 0, 0, -1, 1, 0, 0⟩ : M3 ℚ) := by
  constructor <;> decide +kernel

/-- test: a bent triatomic with distinct masses whose axes are already principal (`V = 1` is an
eigen-frame with ascending distinct eigenvalues) but whose first atom is negative in x and y. -/
def exMs : List ℚ := [1, 1, 2]
def exXs : List (V3 ℚ) := [⟨-2, -1, 0⟩, ⟨-2, 1, 0⟩, ⟨2, 0, 0⟩]

example : massSum exMs ≠ 0 ∧ exMs.length = exXs.length := by decide +kernel
example : Orth (M3.one : M3 ℚ) := by constructor <;> decide +kernel
example : M3.mul (M3.mul (M3.tr M3.one) (orientTensor exMs exXs)) M3.one = M3.diag (2 : ℚ) 16 18 := by decide +kernel
/-- test: the exact certificate holds for the example (`isEigFrame_exact` is not vacuous) -/
example : isEigFrame (orientTensor exMs exXs) M3.one ⟨2, 16, 18⟩ 0 0 = true := by decide +kernel
/-- test: both columns are flipped so that the first off-plane atom is positive; the third column
(no atom off the plane) is untouched -/
example : orientCore (1 / 100000000) exMs exXs M3.one = .ok [⟨2, 1, 0⟩, ⟨2, -1, 0⟩, ⟨-2, 0, 0⟩] := by decide +kernel
/-- test: rotated by π about z (`R = diag(-1,-1,1)`) and translated, with the eigenvectors `Rᵀ V D`,
`D = 1`: the same coordinates result (instance of `orient_rigid_invariant_partial`) -/
example : orientCore (1 / 100000000) exMs [⟨2 + 5, 1 - 3, 1 / 7⟩, ⟨2 + 5, -1 - 3, 1 / 7⟩, ⟨-2 + 5, 0 - 3, 1 / 7⟩] (M3.diag (-1) (-1) 1)
    = orientCore (1 / 100000000) exMs exXs M3.one := by decide +kernel
/-- test: `ColOK` with `d = -1` is satisfiable (column x of the example has an off-plane atom) -/
example : ColOK (1 / 100000000 : ℚ) (-1) (exXs.map (·.x)) := Or.inr ⟨rfl, -2, by decide +kernel, by decide +kernel⟩
/-- test: orienting the oriented example again with `V2 = diag(-1, 1, 1)` returns it unchanged -/
example : orientCore (1 / 100000000) exMs [⟨2, 1, 0⟩, ⟨2, -1, 0⟩, ⟨-2, 0, 0⟩] (M3.diag (-1) 1 1)
    = .ok [⟨2, 1, 0⟩, ⟨2, -1, 0⟩, ⟨-2, 0, 0⟩] := by decide +kernel

/-! ### the flushed-decider class (harness Findings `oracle:sign_convention_flushed_decider`,
`oracle:idempotent_flushed_decider`) — a concrete witness that the *printed* geometry can violate the
sign convention.  Three unit masses, planar, centred, tensor exactly diagonal with ascending distinct
moments (so `V = 1` is a legitimate `eigh` answer); atom 0 is 3·10⁻⁷ off the plane y = 0. -/
def bandEps : ℚ := 3 / 10000000
def bandX1 : ℚ := -3 * (1 - 2 * bandEps) / (1 + bandEps)
def bandXs : List (V3 ℚ) := [⟨-bandX1 + 3, bandEps, 0⟩, ⟨bandX1, -1, 0⟩, ⟨-3, 1 - bandEps, 0⟩]

example : wsum [1, 1, 1] bandXs = V3.zero := by decide +kernel
example : (orientTensor [1, 1, 1] bandXs).xy = 0 ∧ (orientTensor [1, 1, 1] bandXs).xz = 0 ∧ (orientTensor [1, 1, 1] bandXs).yz = 0
    ∧ (orientTensor [1, 1, 1] bandXs).xx < (orientTensor [1, 1, 1] bandXs).yy
    ∧ (orientTensor [1, 1, 1] bandXs).yy < (orientTensor [1, 1, 1] bandXs).zz := by decide +kernel
/-- atom 0 decides the sign of column y (3·10⁻⁷ ≥ 10⁻⁸, positive: no flip) but `float_prep(·, 8)`
prints it as 0 (3·10⁻⁷ < 5⁻⁹ = 5.12·10⁻⁷); in the printed geometry the first atom with a non-zero y
coordinate (atom 1) is negative. -/
theorem flushed_decider_witness :
    (orientCore (1 / 100000000) [1, 1, 1] bandXs M3.one).map (floatPrepGeom 8)
      = .ok [(599999730, 0, 0), (-299999730, -100000000, 0), (-300000000, 99999970, 0)] := by decide +kernel

end Examples

end QcelVerif.Orient
