import QcelVerif.Lemmas.MillCalculus
import Mathlib.Analysis.Calculus.ContDiff.Comp
import Mathlib.Analysis.Calculus.ContDiff.Operations
/-!
# C13 — the calculus bridge, formalised over ℝ

`Props/C13.lean` proves the algebra of the recipe over any commutative ring.  This file proves,
with Mathlib's Fréchet derivative over ℝ and about the MODEL's own `alignCoords`, `alignGradient`,
`alignHessian` (Model/Mill.lean at `K = ℝ`), the analytic step that used to be trusted:

  for EVERY energy that is invariant under the recipe's motion, the gradient / Hessian at the
  aligned geometry is the aligned gradient / aligned Hessian of the original.

What "invariant" has to mean.  The aligned system is the same molecule moved rigidly (reflected
first if `mirror`) and with its atoms RELABELLED: atom `i` of the aligned system is atom `map i` of
the original.  So the aligned system has its own energy function `E' : Geom ℝ m → ℝ` — the same
physics with every per-atom parameter (charge, coupling, …) permuted by the same atom map — and
the physical statement "the energy does not change under rotation, translation, reflection and
relabelling" is exactly

    E' (alignCoords r y) = E y        (for the geometries y near the one considered).

Nothing else about `E`, `E'` is used: no polynomial form, no pair structure, no symmetry of second
derivatives.  For an energy of identical particles (or `map = id`) and a proper recipe this is the
usual `E (R x + t) = E x` with `E' = E`.  For mirrored recipes it asks for parity invariance as
well, which holds for every energy that depends on the interatomic distances only
(`distance_energy_invariant`).

PROPERTY-THEOREMS (audited by the harness):
  coords_hasFDerivAt J_inner_preserved J_bijective
  gradient_covariance hessian_covariance hessian_covariance_of_contDiffAt
  aligned_contDiffAt_of_invariant covariance_of_contDiffAt_original
  distance_energy_invariant distance_energy_covariance
  pairEnergy_invariant pair_potential_covariance coulomb_harmonic_covariance
  vector_gradient_covariance grad_energy_eq_gradE hess_energy_eq_hessE
Helper definitions (`basisG`, `Jclm`, `grad`, `hess`, `vecGrad`, `pairEnergy`, `coulombHarmonic`,
`alignInv`) and lemmas: `Lemmas/MillCalculus.lean`.
-/
namespace QcelVerif.Mill
open Finset Filter Topology

noncomputable section

variable {n m : Nat}

/-! ## The coordinate map is affine, its derivative is `J`, and `J` is an orthogonal isomorphism -/

/-- the model's forward coordinate map is `g x = J x + b` (`b = g 0`) with `J` a continuous linear
map, hence Fréchet differentiable everywhere with derivative `J` — every recipe, mirror on or off -/
theorem coords_hasFDerivAt (r : Recipe ℝ n m) (x : Geom ℝ n) :
    alignCoords r x = Jclm r x + alignCoords r 0 ∧ HasFDerivAt (alignCoords r) (Jclm r) x :=
  ⟨alignCoords_eq_affine r x, hasFDerivAt_alignCoords r x⟩

/-- `J` preserves the standard inner product `⟨d,e⟩ = Σ_{i,a} d_ia e_ia` of coordinate arrays
(from `pairing_preserved` and `gradient_is_J` of `Props/C13.lean`) -/
theorem J_inner_preserved (r : Recipe ℝ n m) (hR : IsOrtho r.rot) (hmap : Function.Bijective r.map)
    (d e : Geom ℝ n) :
    ∑ i, sum3 (fun a => Jclm r d i a * Jclm r e i a) = ∑ i, sum3 (fun a => d i a * e i a) :=
  Jclm_inner r hR hmap d e

/-- `J` is invertible (a linear isomorphism of the coordinate-array spaces), hence the coordinate map
`alignCoords r` is an affine isomorphism with inverse `alignInv` (Lemmas/MillCalculus.lean) -/
theorem J_bijective (r : Recipe ℝ n m) (hR : IsOrtho r.rot) (hmap : Function.Bijective r.map) :
    Function.Bijective (Jclm r)
    ∧ (∀ z, alignCoords r (alignInv r hR hmap z) = z)
    ∧ (∀ x, alignInv r hR hmap (alignCoords r x) = x) :=
  ⟨Jclm_bijective r hR hmap, alignCoords_alignInv r hR hmap, alignInv_alignCoords r hR hmap⟩

/-- (non-vacuity, test) the recipe of `Props/C13.lean` cast to ℝ: rotation by 90° about `z`, shift
`(1,-2,3)`, atom map the 3-cycle, mirror on -/
def exRecipeR : Recipe ℝ 3 3 where
  shift := fun c => exRecipe.shift c
  rot := fun a b => exRecipe.rot a b
  map := exRecipe.map
  mirror := true

theorem exRecipeR_ortho : IsOrtho exRecipeR.rot := by
  intro c c'
  fin_cases c <;> fin_cases c' <;> simp [exRecipeR, exRecipe, sum3]

theorem exRecipeR_bij : Function.Bijective exRecipeR.map := by
  constructor
  · intro a b; revert a b; decide
  · intro b; revert b; decide

example : Function.Bijective (Jclm exRecipeR) := (J_bijective _ exRecipeR_ortho exRecipeR_bij).1

/-- (test value) three atoms on the `x` axis -/
def exGeom : Geom ℝ 3 := fun i a => if a = 0 then (i.val : ℝ) else 0

/-! ## Gradient -/

/-- **Gradient covariance for every invariant energy.**  If the aligned system's energy `E'` takes,
at the aligned image of every geometry near `x`, the value the original energy `E` takes at that
geometry, and `E'` is differentiable at the aligned geometry, then the coordinate array of the
derivative of `E'` at the aligned geometry is `align_gradient` of the coordinate array of the
derivative of `E` at `x`.  Any recipe with `R Rᵀ = I` and an injective atom map, mirror on or off.
(`E` is then differentiable at `x` too — that is part of the proof, not a hypothesis.) -/
theorem gradient_covariance (r : Recipe ℝ n m) (hR : IsOrtho r.rot) (hinj : Function.Injective r.map)
    (E : Geom ℝ n → ℝ) (E' : Geom ℝ m → ℝ) (x : Geom ℝ n)
    (hinv : ∀ᶠ y in 𝓝 x, E' (alignCoords r y) = E y)
    (hE' : DifferentiableAt ℝ E' (alignCoords r x)) :
    grad E' (alignCoords r x) = alignGradient r (grad E x) := by
  have hcomp : HasFDerivAt (E' ∘ alignCoords r) ((fderiv ℝ E' (alignCoords r x)).comp (Jclm r)) x :=
    hE'.hasFDerivAt.comp x (hasFDerivAt_alignCoords r x)
  have hE : HasFDerivAt E ((fderiv ℝ E' (alignCoords r x)).comp (Jclm r)) x :=
    hcomp.congr_of_eventuallyEq (hinv.mono fun y hy => hy.symm)
  funext i a
  rw [gradient_is_J]
  unfold grad
  rw [hE.fderiv]
  simp only [ContinuousLinearMap.comp_apply, Jclm_apply]
  exact (J_pullback r hR hinj _ i a).symm

/-! ## Hessian -/

/-- **Hessian covariance for every invariant energy**, mirrored recipes included.  If `E'` at the
aligned image equals `E` near `x`, `E'` is differentiable near the aligned geometry and its
derivative is differentiable at it (i.e. `E'` is twice differentiable there), then the `(3m,3m)`
array of second derivatives of `E'` at the aligned geometry is `align_hessian` of the `(3n,3n)` array
of second derivatives of `E` at `x`.  No symmetry of the second derivative is used. -/
theorem hessian_covariance (r : Recipe ℝ n m) (hR : IsOrtho r.rot) (hinj : Function.Injective r.map)
    (E : Geom ℝ n → ℝ) (E' : Geom ℝ m → ℝ) (x : Geom ℝ n)
    (hinv : ∀ᶠ y in 𝓝 x, E' (alignCoords r y) = E y)
    (hd1 : ∀ᶠ z in 𝓝 (alignCoords r x), DifferentiableAt ℝ E' z)
    (hd2 : DifferentiableAt ℝ (fderiv ℝ E') (alignCoords r x)) :
    hess E' (alignCoords r x) = alignHessian r (hess E x) := by
  -- first derivatives near x
  have hg := hasFDerivAt_alignCoords r
  have h1 : ∀ᶠ y in 𝓝 x, fderiv ℝ E y = (fderiv ℝ E' (alignCoords r y)).comp (Jclm r) := by
    filter_upwards [hinv.eventually_nhds, (hg x).continuousAt.eventually hd1] with y hy hdy
    have hc : HasFDerivAt (E' ∘ alignCoords r) ((fderiv ℝ E' (alignCoords r y)).comp (Jclm r)) y :=
      hdy.hasFDerivAt.comp y (hg y)
    exact (hc.congr_of_eventuallyEq (hy.mono fun z hz => hz.symm)).fderiv
  -- second derivative of E at x along e_s of the component e_t
  set B := fderiv ℝ (fderiv ℝ E') (alignCoords r x)
  have h2 : ∀ (w d : Geom ℝ n), fderiv ℝ (fun y => fderiv ℝ E y w) x d = B (J r d) (J r w) := by
    intro w d
    have hc : HasFDerivAt (fderiv ℝ E' ∘ alignCoords r) (B.comp (Jclm r)) x :=
      hd2.hasFDerivAt.comp x (hg x)
    have hc2 := (ContinuousLinearMap.apply ℝ ℝ (J r w)).hasFDerivAt.comp x hc
    have he : (fun y => fderiv ℝ E y w) =ᶠ[𝓝 x]
        (ContinuousLinearMap.apply ℝ ℝ (J r w)) ∘ (fderiv ℝ E' ∘ alignCoords r) := by
      filter_upwards [h1] with y hy
      rw [hy]; rfl
    rw [he.fderiv_eq, hc2.fderiv]
    rfl
  funext s t
  rw [hess_eq_second E' _ hd2, alignHessian_apply]
  simp only [hess, blk_idx, off_idx, h2]
  exact (J_pullback₂ r hR hinj B (blk s) (blk t) (off s) (off t)).symm

/-- the same with the customary smoothness hypothesis: `E'` is `C²` at the aligned geometry -/
theorem hessian_covariance_of_contDiffAt (r : Recipe ℝ n m) (hR : IsOrtho r.rot)
    (hinj : Function.Injective r.map) (E : Geom ℝ n → ℝ) (E' : Geom ℝ m → ℝ) (x : Geom ℝ n)
    (hinv : ∀ᶠ y in 𝓝 x, E' (alignCoords r y) = E y)
    (hE' : ContDiffAt ℝ 2 E' (alignCoords r x)) :
    hess E' (alignCoords r x) = alignHessian r (hess E x) := by
  exact hessian_covariance r hR hinj E E' x hinv (twice_differentiable_of_contDiffAt hE').1
    (twice_differentiable_of_contDiffAt hE').2

/-! ## Smoothness may be assumed of the ORIGINAL energy instead

`alignCoords r` is an affine isomorphism (`J_bijective`), so the aligned system's energy is the
original one composed with the inverse affine map `alignInv`; smoothness transfers. -/

/-- if the original energy is `C^k` at `x`, the aligned system's energy is `C^k` at the aligned
geometry (invariance near `x`, orthogonal rotation, bijective atom map) -/
theorem aligned_contDiffAt_of_invariant (r : Recipe ℝ n m) (hR : IsOrtho r.rot)
    (hmap : Function.Bijective r.map) (E : Geom ℝ n → ℝ) (E' : Geom ℝ m → ℝ) (x : Geom ℝ n)
    (hinv : ∀ᶠ y in 𝓝 x, E' (alignCoords r y) = E y) (k : WithTop ℕ∞) (hE : ContDiffAt ℝ k E x) :
    ContDiffAt ℝ k E' (alignCoords r x) := by
  have hc : ContinuousAt (alignInv r hR hmap) (alignCoords r x) :=
    (alignInv_contDiff r hR hmap 0).continuous.continuousAt
  have hx := alignInv_alignCoords r hR hmap x
  have hev : ∀ᶠ z in 𝓝 (alignCoords r x), E' z = (E ∘ alignInv r hR hmap) z := by
    have h := hc.eventually (by rw [hx]; exact hinv)
    filter_upwards [h] with z hz
    rw [alignCoords_alignInv] at hz
    exact hz
  have hcomp : ContDiffAt ℝ k (E ∘ alignInv r hR hmap) (alignCoords r x) :=
    ContDiffAt.comp _ (by rw [hx]; exact hE) (alignInv_contDiff r hR hmap k).contDiffAt
  exact hcomp.congr_of_eventuallyEq hev

/-- **both clauses, smoothness assumed of the original energy only**: `E` is `C²` at `x` and
invariant near `x`  ⇒  gradient and Hessian of the aligned system's energy at the aligned geometry are
`align_gradient` / `align_hessian` of those of `E` at `x` (mirror on and off) -/
theorem covariance_of_contDiffAt_original (r : Recipe ℝ n m) (hR : IsOrtho r.rot)
    (hmap : Function.Bijective r.map) (E : Geom ℝ n → ℝ) (E' : Geom ℝ m → ℝ) (x : Geom ℝ n)
    (hinv : ∀ᶠ y in 𝓝 x, E' (alignCoords r y) = E y) (hE : ContDiffAt ℝ 2 E x) :
    grad E' (alignCoords r x) = alignGradient r (grad E x)
    ∧ hess E' (alignCoords r x) = alignHessian r (hess E x) := by
  have h2 := aligned_contDiffAt_of_invariant r hR hmap E E' x hinv 2 hE
  exact ⟨gradient_covariance r hR hmap.1 E E' x hinv (h2.differentiableAt (by simp)),
    hessian_covariance_of_contDiffAt r hR hmap.1 E E' x hinv h2⟩

/-! ## Energies that depend on the interatomic distances only

Every function of the matrix of squared interatomic distances (hence of the distances) is invariant
under every recipe with `R Rᵀ = I` — rotation, translation, REFLECTION and relabelling — when the
relabelled system reads the matrix through the atom map (`permute`, Lemmas/Mill.lean). -/

/-- `ψ` of the distance matrix of the aligned geometry = `ψ` of the relabelled distance matrix of the
original (from `coords_isometry`) -/
theorem distance_energy_invariant (r : Recipe ℝ n m) (hR : IsOrtho r.rot)
    (ψ : (Fin m → Fin m → ℝ) → ℝ) (y : Geom ℝ n) :
    ψ (dist2 (alignCoords r y)) = ψ (permute r.map (dist2 y)) := by
  congr 1
  funext i j
  exact dist2_align r hR y i j

/-- gradient and Hessian covariance for every `C²` function of the interatomic distances; no
invariance hypothesis is left -/
theorem distance_energy_covariance (r : Recipe ℝ n m) (hR : IsOrtho r.rot)
    (hinj : Function.Injective r.map) (ψ : (Fin m → Fin m → ℝ) → ℝ) (x : Geom ℝ n)
    (hψ : ContDiffAt ℝ 2 (fun z : Geom ℝ m => ψ (dist2 z)) (alignCoords r x)) :
    grad (fun z : Geom ℝ m => ψ (dist2 z)) (alignCoords r x)
        = alignGradient r (grad (fun y : Geom ℝ n => ψ (permute r.map (dist2 y))) x)
    ∧ hess (fun z : Geom ℝ m => ψ (dist2 z)) (alignCoords r x)
        = alignHessian r (hess (fun y : Geom ℝ n => ψ (permute r.map (dist2 y))) x) := by
  have hinv : ∀ᶠ y in 𝓝 x, (fun z : Geom ℝ m => ψ (dist2 z)) (alignCoords r y)
      = (fun y : Geom ℝ n => ψ (permute r.map (dist2 y))) y :=
    Filter.Eventually.of_forall fun y => distance_energy_invariant r hR ψ y
  exact ⟨gradient_covariance r hR hinj _ _ x hinv (hψ.differentiableAt (by simp)),
    hessian_covariance_of_contDiffAt r hR hinj _ _ x hinv hψ⟩

/-! ## Pair potentials: Coulomb and harmonic terms (the energies the property's quantifier names)

`pairEnergy f x = Σ_{i≠j} f_ij(|x_i − x_j|²)` with ARBITRARY pair functions `f_ij : ℝ → ℝ`
(Lemmas/MillCalculus.lean); the atom map acts on the pair functions. -/

/-- a pair potential is invariant under every recipe with `R Rᵀ = I` and a bijective atom map -/
theorem pairEnergy_invariant (r : Recipe ℝ n m) (hR : IsOrtho r.rot) (hmap : Function.Bijective r.map)
    (f : Fin n → Fin n → ℝ → ℝ) (y : Geom ℝ n) :
    pairEnergy (fun i j => f (r.map i) (r.map j)) (alignCoords r y) = pairEnergy f y := by
  unfold pairEnergy
  simp only [dist2_align r hR]
  have hl : ∀ i j : Fin m, (i = j) = (r.map i = r.map j) :=
    fun i j => propext ⟨fun h => by rw [h], fun h => hmap.1 h⟩
  simp only [hl]
  rw [← hmap.sum_comp (fun i' => ∑ j', if i' = j' then 0 else f i' j' (dist2 y i' j'))]
  apply Finset.sum_congr rfl; intro i _
  rw [← hmap.sum_comp (fun j' => if r.map i = j' then 0 else f (r.map i) j' (dist2 y (r.map i) j'))]

/-- gradient and Hessian covariance for every pair potential whose pair functions are `C²` at the
squared distances occurring in `x` — non-polynomial energies included, mirror on and off -/
theorem pair_potential_covariance (r : Recipe ℝ n m) (hR : IsOrtho r.rot)
    (hmap : Function.Bijective r.map) (f : Fin n → Fin n → ℝ → ℝ) (x : Geom ℝ n)
    (hf : ∀ i j, i ≠ j → ContDiffAt ℝ 2 (f i j) (dist2 x i j)) :
    grad (pairEnergy fun i j => f (r.map i) (r.map j)) (alignCoords r x)
        = alignGradient r (grad (pairEnergy f) x)
    ∧ hess (pairEnergy fun i j => f (r.map i) (r.map j)) (alignCoords r x)
        = alignHessian r (hess (pairEnergy f) x) :=
  covariance_of_contDiffAt_original r hR hmap (pairEnergy f) _ x
    (Filter.Eventually.of_forall fun y => pairEnergy_invariant r hR hmap f y)
    (pairEnergy_contDiffAt f x 2 hf)

/-- **Coulomb + harmonic energies** `Σ_{i≠j} k_ij/|x_i−x_j| + h_ij (|x_i−x_j| − ρ_ij)²` with arbitrary
couplings, at every geometry without coincident atoms: gradient and Hessian at the aligned geometry
(couplings permuted by the atom map) are `align_gradient` / `align_hessian` of those at `x`. -/
theorem coulomb_harmonic_covariance (r : Recipe ℝ n m) (hR : IsOrtho r.rot)
    (hmap : Function.Bijective r.map) (k h ρ : Fin n → Fin n → ℝ) (x : Geom ℝ n)
    (hx : ∀ i j, i ≠ j → dist2 x i j ≠ 0) :
    grad (pairEnergy fun i j => coulombHarmonic (permute r.map k i j) (permute r.map h i j)
            (permute r.map ρ i j)) (alignCoords r x)
        = alignGradient r (grad (pairEnergy fun i j => coulombHarmonic (k i j) (h i j) (ρ i j)) x)
    ∧ hess (pairEnergy fun i j => coulombHarmonic (permute r.map k i j) (permute r.map h i j)
            (permute r.map ρ i j)) (alignCoords r x)
        = alignHessian r (hess (pairEnergy fun i j => coulombHarmonic (k i j) (h i j) (ρ i j)) x) :=
  pair_potential_covariance r hR hmap (fun i j => coulombHarmonic (k i j) (h i j) (ρ i j)) x
    (fun i j hij => coulombHarmonic_contDiffAt _ _ _ _
      (lt_of_le_of_ne (dist2_nonneg x i j) (hx i j hij).symm) 2)

/-! ## Attached vectors and their nuclear derivatives (recipes without mirror)

A molecule-attached vector (dipole, …) is a vector-valued function of the geometry that rotates with
the frame: the aligned system's `μ'` satisfies `μ' (alignCoords r y) = align_vector (μ y)`.  That
equivariance is what "attached" means; the content of the property is the derivative clause. -/

/-- **nuclear derivatives of every attached vector rotate with the frame** (mirror off): if
`μ' (alignCoords r y) = align_vector (μ y)` near `x` and `μ'` is differentiable at the aligned
geometry, the `(3,3n)` derivative array of `μ'` there is `align_vector_gradient` of that of `μ` at `x` -/
theorem vector_gradient_covariance (r : Recipe ℝ n n) (hm : r.mirror = false) (hR : IsOrtho r.rot)
    (hinj : Function.Injective r.map) (μ μ' : Geom ℝ n → Vec3 ℝ) (x : Geom ℝ n)
    (hequi : ∀ᶠ y in 𝓝 x, μ' (alignCoords r y) = alignVector r (μ y))
    (hμ' : DifferentiableAt ℝ μ' (alignCoords r x)) :
    vecGrad μ' (alignCoords r x) = alignVectorGradient r (vecGrad μ x) := by
  have hF : frame r = r.rot := by funext c a; simp [frame, msign, hm]
  set D' := fderiv ℝ μ' (alignCoords r x)
  let A := LinearMap.toContinuousLinearMap (rotBackLin r.rot)
  have hcomp : HasFDerivAt (A ∘ (μ' ∘ alignCoords r)) (A.comp (D'.comp (Jclm r))) x :=
    A.hasFDerivAt.comp x (hμ'.hasFDerivAt.comp x (hasFDerivAt_alignCoords r x))
  have hev : μ =ᶠ[𝓝 x] A ∘ (μ' ∘ alignCoords r) := by
    filter_upwards [hequi] with y hy
    show μ y = rotBackLin r.rot (μ' (alignCoords r y))
    rw [hy, rotBack_alignVector r hR]
  have hD := (hcomp.congr_of_eventuallyEq hev).fderiv
  funext a' c
  have key := congrArg (fun v => D' v a') (frame_J_basis r hR hinj (blk c) (off c))
  simp only [map_add, map_smul, Pi.add_apply, Pi.smul_apply, smul_eq_mul, hF] at key
  unfold vecGrad
  rw [← key]
  simp only [alignVectorGradient, hD, blk_idx, off_idx, matMul, transpose, sum3,
    ContinuousLinearMap.comp_apply, Jclm_apply]
  show _ = _
  have c0 := ortho_cols hR a' 0; have c1 := ortho_cols hR a' 1; have c2 := ortho_cols hR a' 2
  simp only [sum3] at c0 c1 c2
  generalize D' (J r (basisG (r.map (blk c)) 0)) = M0
  generalize D' (J r (basisG (r.map (blk c)) 1)) = M1
  generalize D' (J r (basisG (r.map (blk c)) 2)) = M2
  simp only [A, LinearMap.coe_toContinuousLinearMap', rotBackLin, LinearMap.coe_mk, AddHom.coe_mk,
    rowDot, transpose, sum3]
  fin_cases a' <;> simp at c0 c1 c2 ⊢ <;>
    linear_combination
      (-(M0 0 * r.rot 0 (off c) + M1 0 * r.rot 1 (off c) + M2 0 * r.rot 2 (off c))) * c0
      - (M0 1 * r.rot 0 (off c) + M1 1 * r.rot 1 (off c) + M2 1 * r.rot 2 (off c)) * c1
      - (M0 2 * r.rot 0 (off c) + M1 2 * r.rot 1 (off c) + M2 2 * r.rot 2 (off c)) * c2

/-- (non-vacuity) the polynomial pair vector field `μ_w` of `Lemmas/Mill.lean` (cubic in the
coordinates, arbitrary weights) meets the hypotheses on every mirror-free recipe, by `field_covariance` -/
example (r : Recipe ℝ n n) (hm : r.mirror = false) (hR : IsOrtho r.rot)
    (hmap : Function.Bijective r.map) (w : Fin n → Fin n → ℝ) (x : Geom ℝ n) :
    vecGrad (fieldMu (permute r.map w)) (alignCoords r x)
      = alignVectorGradient r (vecGrad (fieldMu w) x) :=
  vector_gradient_covariance r hm hR hmap.1 (fieldMu w) (fieldMu (permute r.map w)) x
    (Filter.Eventually.of_forall fun y => (field_covariance r hm hR hmap w y).1)
    ((fieldMu_contDiff (permute r.map w) 1).differentiable (by simp)).differentiableAt

/-- (test value) `exRecipeR` without the mirror -/
def exRecipeRot : Recipe ℝ 3 3 := { exRecipeR with mirror := false }

/-- (test) a concrete instance: rotation by 90° about `z`, shift, 3-cycle atom map -/
example : vecGrad (fieldMu (permute exRecipeRot.map fun i j => (i.val : ℝ) + 2 * j.val))
      (alignCoords exRecipeRot exGeom)
    = alignVectorGradient exRecipeRot (vecGrad (fieldMu fun i j => (i.val : ℝ) + 2 * j.val) exGeom) :=
  vector_gradient_covariance exRecipeRot rfl exRecipeR_ortho exRecipeR_bij.1 _ _ exGeom
    (Filter.Eventually.of_forall fun y =>
      (field_covariance exRecipeRot rfl exRecipeR_ortho exRecipeR_bij _ y).1)
    ((fieldMu_contDiff _ 1).differentiable (by simp)).differentiableAt

/-! ## The polynomial pair energies of `Props/C13.lean` are an instance

`gradE_is_derivative` / `hessE_is_derivative` (expansions along lines, valid in any commutative ring)
become statements about the Fréchet derivative over ℝ: the explicit arrays `gradE`, `hessE` ARE the
coordinate arrays `grad`, `hess` of the derivatives of `energy`.  So `energy_gradient_covariance` /
`energy_hessian_covariance` are special cases of the general theorems above, and `grad` / `hess`
are checked against explicit formulas. -/

/-- the Fréchet gradient array of the polynomial pair energy is the explicit `gradE` -/
theorem grad_energy_eq_gradE (k c : Fin n → Fin n → ℝ) (hk : ∀ i j, k i j = k j i)
    (hc : ∀ i j, c i j = c j i) (x : Geom ℝ n) : grad (energy k c) x = gradE k c x := by
  funext i a
  obtain ⟨q2, q3, q4, h⟩ := gradE_is_derivative k c hk hc x (basisG i a)
  unfold grad
  rw [fderiv_of_line_expansion _ x (basisG i a)
    ((energy_contDiff k c 1).differentiable (by simp)).differentiableAt _ q2 q3 q4 h]
  exact inner_basisG (gradE k c x) i a

/-- the Fréchet Hessian array of the polynomial pair energy is the explicit `hessE` -/
theorem hess_energy_eq_hessE (k c : Fin n → Fin n → ℝ) (hk : ∀ i j, k i j = k j i)
    (hc : ∀ i j, c i j = c j i) (x : Geom ℝ n) : hess (energy k c) x = hessE k c x := by
  funext s t
  unfold hess
  have e : (fun y => fderiv ℝ (energy k c) y (basisG (blk t) (off t)))
      = fun y => gradE k c y (blk t) (off t) :=
    funext fun y => congrFun (congrFun (grad_energy_eq_gradE k c hk hc y) _) _
  rw [e]
  obtain ⟨q2, q3, h⟩ := hessE_is_derivative k c x (basisG (blk s) (off s))
  rw [fderiv_of_line_expansion _ x (basisG (blk s) (off s))
    ((gradE_contDiff k c (blk t) (off t) 1).differentiable (by simp)).differentiableAt
    (∑ s', hessE k c x (idx (blk t) (off t)) s' * flat (basisG (blk s) (off s)) s')
    (q2 (blk t) (off t)) (q3 (blk t) (off t)) 0 (by intro τ; rw [h τ]; ring)]
  simp only [flat_basisG, idx_blk_off, mul_ite, mul_one, mul_zero, Finset.sum_ite_eq', Finset.mem_univ,
    if_true]
  exact hessE_symm k c hk hc x t s

/-- (consistency) the general theorem specialised to the polynomial family gives back
`energy_gradient_covariance` and `energy_hessian_covariance` for symmetric couplings -/
example (r : Recipe ℝ n m) (hR : IsOrtho r.rot) (hmap : Function.Bijective r.map)
    (k c : Fin n → Fin n → ℝ) (hk : ∀ i j, k i j = k j i) (hc : ∀ i j, c i j = c j i) (x : Geom ℝ n) :
    gradE (permute r.map k) (permute r.map c) (alignCoords r x) = alignGradient r (gradE k c x)
    ∧ hessE (permute r.map k) (permute r.map c) (alignCoords r x) = alignHessian r (hessE k c x) := by
  have hk' : ∀ i j, permute r.map k i j = permute r.map k j i := fun i j => hk _ _
  have hc' : ∀ i j, permute r.map c i j = permute r.map c j i := fun i j => hc _ _
  have h := covariance_of_contDiffAt_original r hR hmap (energy k c)
    (energy (permute r.map k) (permute r.map c)) x
    (Filter.Eventually.of_forall fun y => energy_invariant r hR hmap k c hk hc y)
    (energy_contDiff k c 2).contDiffAt
  rw [grad_energy_eq_gradE _ _ hk' hc', grad_energy_eq_gradE _ _ hk hc,
    hess_energy_eq_hessE _ _ hk' hc', hess_energy_eq_hessE _ _ hk hc] at h
  exact h

/-! ## Non-vacuity (tests): a non-polynomial invariant energy meets every hypothesis above

recipe `exRecipeR` (rotation by 90° about `z`, shift `(1,-2,3)`, 3-cycle atom map, MIRROR ON), geometry
with atoms at `(0,0,0)`, `(1,0,0)`, `(2,0,0)`, energy Coulomb + harmonic with unit couplings. -/

theorem exGeom_distinct : ∀ i j : Fin 3, i ≠ j → dist2 exGeom i j ≠ 0 := by
  intro i j
  fin_cases i <;> fin_cases j <;> simp [dist2, sum3, exGeom] <;> norm_num

/-- (test value) Coulomb + harmonic energy with unit couplings -/
def exEnergy : Geom ℝ 3 → ℝ := pairEnergy fun _ _ => coulombHarmonic 1 1 1

/-- the hypotheses of `gradient_covariance`, `hessian_covariance`,
`hessian_covariance_of_contDiffAt`, `covariance_of_contDiffAt_original`,
`aligned_contDiffAt_of_invariant` are all met by this (non-polynomial) energy on a mirrored,
rotating, shifting, permuting recipe -/
example :
    (∀ᶠ y in 𝓝 exGeom, exEnergy (alignCoords exRecipeR y) = exEnergy y)
    ∧ ContDiffAt ℝ 2 exEnergy exGeom
    ∧ ContDiffAt ℝ 2 exEnergy (alignCoords exRecipeR exGeom)
    ∧ DifferentiableAt ℝ exEnergy (alignCoords exRecipeR exGeom)
    ∧ (∀ᶠ z in 𝓝 (alignCoords exRecipeR exGeom), DifferentiableAt ℝ exEnergy z)
    ∧ DifferentiableAt ℝ (fderiv ℝ exEnergy) (alignCoords exRecipeR exGeom) := by
  have hinv : ∀ᶠ y in 𝓝 exGeom, exEnergy (alignCoords exRecipeR y) = exEnergy y :=
    Filter.Eventually.of_forall fun y =>
      pairEnergy_invariant exRecipeR exRecipeR_ortho exRecipeR_bij (fun _ _ => coulombHarmonic 1 1 1) y
  have h2 : ContDiffAt ℝ 2 exEnergy exGeom :=
    pairEnergy_contDiffAt _ _ 2 fun i j hij => coulombHarmonic_contDiffAt _ _ _ _
      (lt_of_le_of_ne (dist2_nonneg exGeom i j) (exGeom_distinct i j hij).symm) 2
  have h2' := aligned_contDiffAt_of_invariant exRecipeR exRecipeR_ortho exRecipeR_bij
    exEnergy exEnergy exGeom hinv 2 h2
  exact ⟨hinv, h2, h2', h2'.differentiableAt (by simp),
    (twice_differentiable_of_contDiffAt h2').1, (twice_differentiable_of_contDiffAt h2').2⟩

/-- (test) the conclusion on this instance -/
example :
    grad exEnergy (alignCoords exRecipeR exGeom) = alignGradient exRecipeR (grad exEnergy exGeom)
    ∧ hess exEnergy (alignCoords exRecipeR exGeom) = alignHessian exRecipeR (hess exEnergy exGeom) :=
  coulomb_harmonic_covariance exRecipeR exRecipeR_ortho exRecipeR_bij
    (fun _ _ => 1) (fun _ _ => 1) (fun _ _ => 1) exGeom exGeom_distinct

/-- (test) the geometry of the instance is really moved: aligned atom 0 (= original atom 1 at
`(1,0,0)`: reflect `(1,0,0)`, shift `(0,2,-3)`, rotate `(2,0,-3)`) -/
example : alignCoords exRecipeR exGeom 0 0 = 2 ∧ alignCoords exRecipeR exGeom 0 2 = -3 := by
  constructor <;> simp [alignCoords, takeRows, rowDot, flipY, sum3, exRecipeR, exRecipe, exGeom]

/-- (test) the aligned geometry of the instance has no coincident atoms either -/
theorem exGeom_aligned_distinct :
    ∀ i j : Fin 3, i ≠ j → dist2 (alignCoords exRecipeR exGeom) i j ≠ 0 := by
  intro i j hij
  rw [dist2_align exRecipeR exRecipeR_ortho]
  exact exGeom_distinct _ _ fun e => hij (exRecipeR_bij.1 e)

/-- (test) hypothesis of `distance_energy_covariance` at the aligned geometry of the instance:
`ψ D = Σ_{i≠j} 1/√D_ij + (√D_ij − 1)²` -/
example : ContDiffAt ℝ 2
    (fun z : Geom ℝ 3 => (fun D : Fin 3 → Fin 3 → ℝ => ∑ i, ∑ j, if i = j then 0 else coulombHarmonic 1 1 1 (D i j))
      (dist2 z)) (alignCoords exRecipeR exGeom) :=
  pairEnergy_contDiffAt (fun _ _ => coulombHarmonic 1 1 1) _ 2 fun i j hij =>
    coulombHarmonic_contDiffAt _ _ _ _
      (lt_of_le_of_ne (dist2_nonneg _ i j) (exGeom_aligned_distinct i j hij).symm) 2

/-- (test) symmetric couplings as `grad_energy_eq_gradE` / `hess_energy_eq_hessE` ask for exist and
are not constant: `k_ij = i + j`; the explicit gradient they produce at the test geometry is non-zero
(`∂E/∂x_{0,x} = Σ_j 4 k_0j (|x_0−x_j|² − c_0j)(x_0 − x_j)_x = 4·1·1·(−1) + 4·2·4·(−2) = −68` for `c = 0`),
so `grad` of this instance is a non-trivial array -/
example : (∀ i j : Fin 3, (fun i j : Fin 3 => ((i.val + j.val : ℕ) : ℝ)) i j
      = (fun i j : Fin 3 => ((i.val + j.val : ℕ) : ℝ)) j i)
    ∧ grad (energy (fun i j : Fin 3 => ((i.val + j.val : ℕ) : ℝ)) fun _ _ => 0) exGeom 0 0 = -68 := by
  refine ⟨fun i j => by simp [Nat.add_comm], ?_⟩
  rw [grad_energy_eq_gradE _ _ (fun i j => by simp [Nat.add_comm]) (fun _ _ => rfl)]
  simp [gradE, dist2, sum3, exGeom, Fin.sum_univ_three]
  norm_num

end

end QcelVerif.Mill
