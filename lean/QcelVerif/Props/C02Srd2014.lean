import QcelVerif.Model.CodataBuild
import QcelVerif.Gen.Codata2014
/-! C02 table theorem: shipped 2014 table vs the SRD-121 JSON it was generated from (kernel evaluation). -/
namespace QcelVerif.Codata
open QcelVerif
set_option maxRecDepth 100000

/-- **The shipped 2014 table is literally what the 2014 build script makes of the SRD-121 JSON** (units compared exactly). -/
theorem shipped_eq_srd121_2014 :
    tableMatchesJson Gen.Codata2014.shipped Gen.Codata2014.srd = true := by decide +kernel

end QcelVerif.Codata
