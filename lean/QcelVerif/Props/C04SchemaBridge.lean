import QcelVerif.Lemmas.C04SchemaBridge
import QcelVerif.Props.C04Schema
import QcelVerif.Props.C09
/-!
# C04 ↔ C09: the two record-level schema models agree on the round trip

`Props/C09.lean` proves `MolSchema.schema_roundtrip` for the C09 model with `from_arrays` as a PARAMETER `fa`
and the hypothesis `hfa : fa (argsOf r) = ok (inBohr r)` ("C04's idempotence, a parameter here").
`Props/C04Schema.lean` proves `schema_roundtrip` for the C04 model, where `from_arrays` is modelled.
Here the two are tied together (`Lemmas/C04SchemaBridge.lean`: `toMS`, `inpOfArgs`, `faOfC04`):

  * `bridge_args`   — the argument record the C09 model hands to `fa` for a `to_schema` dictionary IS the C04
                      model's `schemaInp` (the `from_arrays` call of from_schema.py:60-90), field by field;
  * `bridge_image`  — C09's expected record `inBohr` IS C04's `schemaImage`;
  * `c09_roundtrip_discharged` — C09's hypothesis `hfa` holds for `fa := faOfC04` (the C04 model of
                      `from_arrays`) under C04's hypotheses, so the C09 model's `from_schema ∘ to_schema` (both
                      dtypes, with the dtype-1 nesting) returns the very record the C04 model returns.

Scope of the bridge: exact products (`P.fl = id`; C09's model multiplies in the scalar field), the same default
factor, non-negative separators (C09's `seps : List Nat`).

PROPERTY-THEOREMS:
  bridge_args  bridge_image  c09_roundtrip_discharged
-/
namespace QcelVerif.FromArrays
open QcelVerif

/-- the `from_arrays` arguments of the two models coincide -/
theorem bridge_args (P : SchemaParams) (dflt : Rat) (r : Molrec) (hfl : ∀ x, P.fl x = x) (hcf : P.cf sAngstrom = dflt)
    {valid a st tc} (I : Inv valid a st tc r) (hn : r.elem.length ≠ 0) (hpos : ∀ s ∈ r.seps, 0 ≤ s) :
    inpOfArgs P.nonphysical (MolSchema.argsOf dflt P.formula (toMS r)) = schemaInp P r := by
  have hg := exportGeom_toMS P dflt r hfl hcf I.units
  have hnm := nameOf_toMS P.formula r
  have hnat : (exportGeom P r).length / 3 = r.elem.length := by
    rw [exportGeom_length, I.lengths.2.2.2.2.2]; omega
  have hs := canonSeps_of_nonneg r.elem.length r.seps hpos (I.frag_nonempty hn)
  have hb := seps_toNat_back r.seps hpos
  unfold inpOfArgs MolSchema.argsOf schemaInp
  rw [hg, hnm, hnat, hs]
  have hfs : (toMS r).fixSym.map String.toList = r.fixSymm := by
    cases h : r.fixSymm <;> simp [toMS, h, String.toList_ofList]
  have hfc : (toMS r).fragCharges.map (fun q => some q.num) = r.fc.map some := by
    simp [toMS, List.map_map, Function.comp_def]
  simp only [Option.map_some, hfs, hfc, triOfOpt]
  simp only [toMS, hb, Rat.num_intCast]

/-- the expected records of the two models coincide -/
theorem bridge_image (P : SchemaParams) (dflt : Rat) (r : Molrec) (hfl : ∀ x, P.fl x = x) (hcf : P.cf sAngstrom = dflt)
    {valid a st tc} (I : Inv valid a st tc r) (hn : r.elem.length ≠ 0) (hpos : ∀ s ∈ r.seps, 0 ≤ s) :
    toMS (schemaImage P r) = MolSchema.inBohr dflt P.formula (toMS r) := by
  have hg := exportGeom_toMS P dflt r hfl hcf I.units
  have hnm := nameOf_toMS P.formula r
  have hs := canonSeps_of_nonneg r.elem.length r.seps hpos (I.frag_nonempty hn)
  unfold MolSchema.inBohr
  rw [hg, hnm]
  simp [toMS, schemaImage, hs]

/-- **The C09 model's round trip with the C04 model of `from_arrays` plugged in** — hypothesis `hfa` of
`MolSchema.schema_roundtrip` discharged: for a C04-valid record (at least one atom, non-negative separators,
exported geometry passing the default screen, atoms re-validating under `from_schema`'s settings) the C09
model's `from_schema (to_schema r v)`, dtype 1 (nested) and 2, returns `toMS (schemaImage P r)` — the record
`Props/C04Schema.lean: schema_roundtrip` proves the C04 model returns. -/
theorem c09_roundtrip_discharged (env : Env) (P : SchemaParams) (dflt : Rat) (r : Molrec) (ver : MolSchema.Version)
    (hfl : ∀ x, P.fl x = x) (hcf : P.cf sAngstrom = dflt)
    {valid : NucSettings → Nuc → Prop} {st : NucSettings} {tc : Rat} (I : Inv valid env.angToAu st tc r)
    (hn : r.elem.length ≠ 0) (hpos : ∀ s ∈ r.seps, 0 ≤ s)
    (hgeo : validateGeometry dfltTooclose (exportGeom P r) = .ok (exportGeom P r))
    (hre : ∀ u ∈ recNucs r, env.recon (schemaSettings P) (clueOf u) = .ok u) :
    MolSchema.fromSchema (faOfC04 env P.nonphysical) (MolSchema.toSchema dflt P.formula (toMS r) ver)
      = .ok (toMS (schemaImage P r)) := by
  have h1 := schema_roundtrip env P r 1 (Or.inl rfl) I hn hgeo hre
  rw [fromSchema_toSchemaU env P r 1 (Or.inl rfl) I hn] at h1
  rw [bridge_image P dflt r hfl hcf I hn hpos]
  apply MolSchema.schema_roundtrip dflt P.formula _ (toMS r) (inv_toMS I hn hpos) ver
  unfold faOfC04
  rw [bridge_args P dflt r hfl hcf I hn hpos, h1]
  show Except.ok (toMS (schemaImage P r)) = _
  rw [bridge_image P dflt r hfl hcf I hn hpos]

def toyInpB : Inp := { toyInpA with seps := some [1] }
def toyRecB : Molrec := { toyRecA with seps := [1] }

/-- test [decide +kernel] -/
theorem toyB_ok : fromArrays toyEnv toyInpB = .ok toyRecB := by decide +kernel

/-- test: the hypotheses are met by the toy record of `Props/C04Schema.lean` (Angstrom, pinned factor) with its
separator written non-negatively; both dtypes -/
example (ver : MolSchema.Version) :
    MolSchema.fromSchema (faOfC04 toyEnv false) (MolSchema.toSchema (189 / 100) toyP.formula (toMS toyRecB) ver)
      = .ok (toMS (schemaImage toyP toyRecB)) := by
  have I := from_arrays_inv toyEnv (fun _ _ => True) (fun _ _ _ _ => trivial) _ _ toyB_ok
  refine c09_roundtrip_discharged toyEnv toyP (189 / 100) toyRecB ver (fun _ => rfl) rfl I (by decide) (by decide)
    (by decide +kernel) ?_
  intro u hu
  obtain ⟨c, hc⟩ := recNucs_answered toyB_ok u hu
  exact toyRec_idem (nucSettings toyInpB) c u hc

end QcelVerif.FromArrays
