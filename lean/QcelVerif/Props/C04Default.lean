import QcelVerif.Props.C04DefaultTabA
import QcelVerif.Props.C04DefaultTabB
import QcelVerif.Props.C04DefaultTabC
import QcelVerif.Props.C04DefaultTabD
import QcelVerif.Props.C04DefaultTabE
import QcelVerif.Props.C04Schema
import QcelVerif.Lemmas.C04Rd64
/-!
# C04 — the fixed point at the DEFAULT settings, with no hypothesis on the atoms

`Props/C04C06.lean` proves `from_arrays (from_arrays x) = from_arrays x` for records whose atoms are
`SelfConsistent` and shows that hypothesis cannot be dropped for wide mass windows (`mtol = 2`).  Here the
hypothesis is DISCHARGED for the C06 model under `rd64` over the generated periodic table whenever

    nonphysical = False   and   0 ≤ mtol ≤ 0.9865 u          (the default is mtol = 1e-3)

whatever `speclabel` is and whatever clues were given:

  * a mass was supplied (argument or `@mass` in the label): the mass pins `A` (`selfConsistent_of_mass_clue`);
    the residual `rd (rd m) = rd m` is now a theorem about `rd64` (`rd64_idem`, Lemmas/C04Rd64.lean);
  * a mass number was supplied without a mass (argument `elea` or label `2H` — the class C04C06 left open):
    `selfConsistent_of_A_clue` with the table facts (T1) every tabulated mass rounds half-even to its mass
    number, (T2) no element's default mass lies within 0.9865 u of another of its nuclides — decided by
    kernel evaluation over every element row and every mass number of its tabulated range
    (`shipped_isotopes_rederive`);
  * neither: the default isotope (`selfConsistent_of_default`, C04C06).

The characterisation is sharp in `mtol`: at `mtol = 0.9866` the call `A=3, E='He'` is answered with the
mass of He-4 (4.0026 − 3.0160 = 0.98657 ≤ mtol) and that answer fed back is refused
(`window_bound_sharp`, kernel evaluation; replayed on the implementation).  So, for `nonphysical = False`,
the set of successful answers that are not self-consistent is EMPTY for `0 ≤ mtol ≤ 0.9865` and non-empty
from `0.9866` on; for a negative `mtol` no answer is self-consistent (nothing is "within" it).
NOT covered: `nonphysical = True` with a mass number and no mass (the range test that bounds the
enumeration is switched off there).

PROPERTY-THEOREMS:
  shipped_isotopes_rederive  narrow_window_selfconsistent  default_settings_selfconsistent
  recon_c06_idem_narrow  recon_c06_idem_default  from_arrays_idempotent_narrow  from_arrays_idempotent_default
  from_arrays_idempotent_default_elea  window_bound_sharp  from_arrays_window_bound_sharp
  schema_roundtrip_default  schema_roundtrip_twice_default  schema_roundtrip_twice_default_of_schema
-/
namespace QcelVerif.FromArrays
open QcelVerif QcelVerif.PStr QcelVerif.Nucleus
set_option maxRecDepth 100000

/-! ## the table facts -/

/-- all element rows pass `elementIsoOk` (the 30 four-row obligations of `C04DefaultTab{A,B,C,D,E}` + tail) -/
theorem shipped_isotope_rows : Gen.PT.elements.all elementIsoOk = true := by
  have h := all_drop_of_chunk elementIsoOk Gen.PT.elements 116 4 iso_rows_116 iso_rows_tail
  have h := all_drop_of_chunk elementIsoOk Gen.PT.elements 112 4 iso_rows_112 h
  have h := all_drop_of_chunk elementIsoOk Gen.PT.elements 108 4 iso_rows_108 h
  have h := all_drop_of_chunk elementIsoOk Gen.PT.elements 104 4 iso_rows_104 h
  have h := all_drop_of_chunk elementIsoOk Gen.PT.elements 100 4 iso_rows_100 h
  have h := all_drop_of_chunk elementIsoOk Gen.PT.elements 96 4 iso_rows_96 h
  have h := all_drop_of_chunk elementIsoOk Gen.PT.elements 92 4 iso_rows_92 h
  have h := all_drop_of_chunk elementIsoOk Gen.PT.elements 88 4 iso_rows_88 h
  have h := all_drop_of_chunk elementIsoOk Gen.PT.elements 84 4 iso_rows_84 h
  have h := all_drop_of_chunk elementIsoOk Gen.PT.elements 80 4 iso_rows_80 h
  have h := all_drop_of_chunk elementIsoOk Gen.PT.elements 76 4 iso_rows_76 h
  have h := all_drop_of_chunk elementIsoOk Gen.PT.elements 72 4 iso_rows_72 h
  have h := all_drop_of_chunk elementIsoOk Gen.PT.elements 68 4 iso_rows_68 h
  have h := all_drop_of_chunk elementIsoOk Gen.PT.elements 64 4 iso_rows_64 h
  have h := all_drop_of_chunk elementIsoOk Gen.PT.elements 60 4 iso_rows_60 h
  have h := all_drop_of_chunk elementIsoOk Gen.PT.elements 56 4 iso_rows_56 h
  have h := all_drop_of_chunk elementIsoOk Gen.PT.elements 52 4 iso_rows_52 h
  have h := all_drop_of_chunk elementIsoOk Gen.PT.elements 48 4 iso_rows_48 h
  have h := all_drop_of_chunk elementIsoOk Gen.PT.elements 44 4 iso_rows_44 h
  have h := all_drop_of_chunk elementIsoOk Gen.PT.elements 40 4 iso_rows_40 h
  have h := all_drop_of_chunk elementIsoOk Gen.PT.elements 36 4 iso_rows_36 h
  have h := all_drop_of_chunk elementIsoOk Gen.PT.elements 32 4 iso_rows_32 h
  have h := all_drop_of_chunk elementIsoOk Gen.PT.elements 28 4 iso_rows_28 h
  have h := all_drop_of_chunk elementIsoOk Gen.PT.elements 24 4 iso_rows_24 h
  have h := all_drop_of_chunk elementIsoOk Gen.PT.elements 20 4 iso_rows_20 h
  have h := all_drop_of_chunk elementIsoOk Gen.PT.elements 16 4 iso_rows_16 h
  have h := all_drop_of_chunk elementIsoOk Gen.PT.elements 12 4 iso_rows_12 h
  have h := all_drop_of_chunk elementIsoOk Gen.PT.elements 8 4 iso_rows_8 h
  have h := all_drop_of_chunk elementIsoOk Gen.PT.elements 4 4 iso_rows_4 h
  have h := all_drop_of_chunk elementIsoOk Gen.PT.elements 0 4 iso_rows_0 h
  simpa using h

/-- **(T1)+(T2) for the shipped table under `rd64`** [decide +kernel, every element row × every mass number
of its tabulated range]: whenever `E+str(a)` is tabulated (a = −1 or inside the element's range) its
binary64 mass rounds half-even to `a`, and the element's default mass is that very mass or more than
0.9865 u away (float-evaluated). -/
theorem shipped_isotopes_rederive : IsotopesReDerive shippedN rd64 (elRange shippedN rd64) isoB :=
  isotopesReDerive_of_rows shipped_isotope_rows

theorem dfltMtol_le_isoB : dfltMtol ≤ isoB := by decide +kernel

/-! ## every answer is self-consistent -/

/-- **Every successful answer is `SelfConsistent`** — C06 model, shipped table, `rd64`;
`nonphysical = False`, `0 ≤ mtol ≤ 0.9865`; ANY clues, either `speclabel`.  No hypothesis on the answer,
the clues or the rounding function is left. -/
theorem narrow_window_selfconsistent (st : NucSettings) (c : Clue) (u : Nuc)
    (h : reconOfC06 rd64 st c = .ok u)
    (hnp : st.nonphysical = false) (hm0 : 0 ≤ st.mtol) (hmB : st.mtol ≤ isoB) :
    SelfConsistent shippedN rd64 st.mtol u := by
  by_cases hM : ∃ m, ClaimsMass rd64 (toInput st c) m
  · obtain ⟨m, hM⟩ := hM
    have hfix : rd64 m = m := by
      rcases hM with ⟨p, _, rfl⟩ | ⟨L, t, q, _, _, _, rfl⟩ <;> exact rd64_idem _
    exact selfConsistent_of_mass_clue shippedN rd64 _ shipped_coherent.1 st c u h m hM hfix
  · have hM' : ∀ m, ¬ ClaimsMass rd64 (toInput st c) m := fun m hm => hM ⟨m, hm⟩
    by_cases hA : ∃ a, ClaimsA (toInput st c) a
    · obtain ⟨a, hA⟩ := hA
      exact selfConsistent_of_A_clue shippedN rd64 _ isoB shipped_isotopes_rederive rd64_odd rd64_idem
        st c u h hnp hm0 hmB a hA hM'
    · exact selfConsistent_of_default shippedN rd64 _ shipped_coherent.1 shipped_default_rederives rd64_odd
        st c u h (fun a ha => hA ⟨a, ha⟩) hM' hm0

/-- **`default_settings_selfconsistent`** — the instance at the default settings
(`mtol = 1.0e-3`, `nonphysical = False`, `speclabel` as the caller passes it). -/
theorem default_settings_selfconsistent (st : NucSettings) (c : Clue) (u : Nuc)
    (h : reconOfC06 rd64 st c = .ok u) (hnp : st.nonphysical = false) (hmt : st.mtol = dfltMtol) :
    SelfConsistent shippedN rd64 dfltMtol u := by
  have := narrow_window_selfconsistent st c u h hnp (by rw [hmt]; exact dfltMtol_nonneg)
    (by rw [hmt]; exact dfltMtol_le_isoB)
  rw [hmt] at this
  exact this

/-- **`NucIdem` restricted to the narrow windows — full**: an answer fed back (`speclabel = False`) is
answered by itself. -/
theorem recon_c06_idem_narrow (st : NucSettings) (c : Clue) (u : Nuc)
    (h : reconOfC06 rd64 st c = .ok u)
    (hnp : st.nonphysical = false) (hm0 : 0 ≤ st.mtol) (hmB : st.mtol ≤ isoB) :
    reconOfC06 rd64 { st with speclabel := false } (clueOf u) = .ok u :=
  recon_c06_idem_partial shippedN rd64 _ shipped_coherent.1 shipped_roundtrips rd64_odd st c u h
    (narrow_window_selfconsistent st c u h hnp hm0 hmB)

/-- … at the default settings -/
theorem recon_c06_idem_default (st : NucSettings) (c : Clue) (u : Nuc)
    (h : reconOfC06 rd64 st c = .ok u) (hnp : st.nonphysical = false) (hmt : st.mtol = dfltMtol) :
    reconOfC06 rd64 { st with speclabel := false } (clueOf u) = .ok u :=
  recon_c06_idem_narrow st c u h hnp (by rw [hmt]; exact dfltMtol_nonneg) (by rw [hmt]; exact dfltMtol_le_isoB)

/-! ## the fixed point of `from_arrays` -/

/-- **Fixed point — full for narrow windows.**  Whatever was supplied (any mix of `elea`, `elez`, `elem`,
`mass`, `real`, `elbl`, either `speclabel`, any geometry / fragments / charges): a record returned by
`from_arrays` with `nonphysical = False` and `0 ≤ mtol ≤ 0.9865`, passed through `from_arrays` again, is
returned unchanged. -/
theorem from_arrays_idempotent_narrow (angToAu : Rat) (i : Inp) (r : Molrec)
    (h : fromArrays (envC06 rd64 angToAu) i = .ok r)
    (hnp : i.nonphysical = false) (hm0 : 0 ≤ i.mtol) (hmB : i.mtol ≤ isoB) :
    fromArrays (envC06 rd64 angToAu) (asInput i r) = .ok r := by
  apply from_arrays_idempotent_c06_partial rd64 rd64_odd angToAu i r h
  intro u hu
  obtain ⟨c, _, hc⟩ := recNucs_answers h u hu
  exact narrow_window_selfconsistent (nucSettings i) c u hc hnp hm0 hmB

/-- **`from_arrays_idempotent_default`** — passing a validated molecule through validation again returns it
unchanged, for EVERY successful build at the default settings (`mtol = 1.0e-3`, `nonphysical = False`):
no self-consistency hypothesis, no hypothesis on the rounding function. -/
theorem from_arrays_idempotent_default (angToAu : Rat) (i : Inp) (r : Molrec)
    (h : fromArrays (envC06 rd64 angToAu) i = .ok r)
    (hnp : i.nonphysical = false) (hmt : i.mtol = dfltMtol) :
    fromArrays (envC06 rd64 angToAu) (asInput i r) = .ok r :=
  from_arrays_idempotent_narrow angToAu i r h hnp (by rw [hmt]; exact dfltMtol_nonneg)
    (by rw [hmt]; exact dfltMtol_le_isoB)

/-! ### the class C04C06 left open, by evaluation and by the theorem (tests, labelled as tests) -/

/-- HD-like input: deuterium given by `elea` only (no mass), tritium by label `3H` only, a ghost `@2H_x`;
default settings -/
def isoInp : Inp :=
  { geom := some [0, 0, 0, 0, 0, 2, 0, 2, 0, 2, 0, 0], elea := some [some 2, none, none, none],
    elez := some [some 1, none, none, some 8], elem := none, mass := none, real := none,
    elbl := some [none, some "3H", some "@2h_x", none],
    name := none, comment := none, units := "bohr".toList, iutau := none,
    fixCom := .none, fixOrient := .none, fixSymm := none, seps := none, fc := none, fm := none,
    c := none, m := none, conn := none, minimal := false, speclabel := true,
    nonphysical := false, mtol := dfltMtol, tooclose := dfltTooclose, zgf := false }

def isoRec : Molrec :=
  { units := sBohr, iutau := none, name := none, comment := none, conn := none,
    geom := [0, 0, 0, 0, 0, 2, 0, 2, 0, 2, 0, 0], elea := [2, 3, 2, 16], elez := [1, 1, 1, 8],
    elem := ["H", "H", "H", "O"],
    mass := [4535354008713743 / 2251799813685248, 6791539202040747 / 2251799813685248,
             4535354008713743 / 2251799813685248, 4502168220032397 / 281474976710656],
    real := [true, true, false, true], elbl := ["", "", "_x", ""], seps := [], c := 0, fc := [0], m := 1, fm := [1],
    fixCom := false, fixOrient := false, fixSymm := none }

/-- test [decide +kernel]: the whole pipeline accepts it with the tabulated masses of H-2 / H-3 -/
theorem iso_ok : fromArrays (envC06 rd64 1) isoInp = .ok isoRec := by decide +kernel

/-- non-vacuity of `from_arrays_idempotent_default` on the formerly open class: the fixed point BY THE THEOREM -/
theorem from_arrays_idempotent_default_elea :
    fromArrays (envC06 rd64 1) (asInput isoInp isoRec) = .ok isoRec :=
  from_arrays_idempotent_default 1 isoInp isoRec iso_ok rfl rfl

/-- test [decide +kernel]: … and by evaluation -/
example : fromArrays (envC06 rd64 1) (asInput isoInp isoRec) = .ok isoRec := by decide +kernel

/-! ## the bound on `mtol` is sharp -/

/-- `A=3, E='He'`, `mtol = 0.9866` -/
def sharpSt : NucSettings := { speclabel := true, nonphysical := false, mtol := 9866 / 10000 }
def sharpClue : Clue := { A := some 3, Z := none, E := some "He", mass := none, real := none, label := none }
/-- the answer: helium-3's mass number with the mass of He-4 (`float("4.00260325413")`) -/
def sharpNuc : Nuc :=
  { A := 3, Z := 2, E := "He", mass := 4506530630952951 / 1125899906842624, real := true, label := "" }

/-- **The bound 0.9865 is sharp** [decide +kernel: the whole C06 model under `rd64` on the generated table]:
at `mtol = 0.9866` the call `A=3, E='He'` returns `A = 3` with the mass of He-4; that answer is not
`SelfConsistent` and fed back it is a ValidationError.  (Replayed on the implementation:
`reconcile_nucleus(A=3, E='He', mtol=0.9866)` → `(3, 2, 'He', 4.00260325413, True, '')`, fed back →
ValidationError; at `mtol = 0.9865` the mass of He-3 is returned and the answer is reproduced.) -/
theorem window_bound_sharp :
    reconOfC06 rd64 sharpSt sharpClue = .ok sharpNuc ∧
    ¬ SelfConsistent shippedN rd64 sharpSt.mtol sharpNuc ∧
    reconOfC06 rd64 { sharpSt with speclabel := false } (clueOf sharpNuc) = .error .validation := by
  refine ⟨by decide +kernel, ?_, by decide +kernel⟩
  intro hsc
  have hb : selfConsistentB shippedN rd64 sharpSt.mtol sharpNuc = false := by decide +kernel
  rw [(selfConsistentB_iff _ _ _ _).mpr hsc] at hb
  cases hb

/-- one helium atom, `elea=[3]`, `elem=['He']`, `mtol = 0.9866` -/
def sharpInp : Inp :=
  { geom := some [0, 0, 0], elea := some [some 3], elez := none, elem := some [some "He"], mass := none,
    real := none, elbl := none, name := none, comment := none, units := "Bohr".toList, iutau := none,
    fixCom := .none, fixOrient := .none, fixSymm := none, seps := none, fc := none, fm := none,
    c := none, m := none, conn := none, minimal := false, speclabel := true,
    nonphysical := false, mtol := 9866 / 10000, tooclose := 1 / 10, zgf := false }

def sharpRec : Molrec :=
  { units := sBohr, iutau := none, name := none, comment := none, conn := none,
    geom := [0, 0, 0], elea := [3], elez := [2], elem := ["He"], mass := [4506530630952951 / 1125899906842624],
    real := [true], elbl := [""], seps := [], c := 0, fc := [0], m := 1, fm := [1],
    fixCom := false, fixOrient := false, fixSymm := none }

/-- **… through the whole pipeline** [decide +kernel]: the hypothesis `mtol ≤ 0.9865` of
`from_arrays_idempotent_narrow` cannot be relaxed to `0.9866`. -/
theorem from_arrays_window_bound_sharp :
    fromArrays (envC06 rd64 1) sharpInp = .ok sharpRec ∧
    fromArrays (envC06 rd64 1) (asInput sharpInp sharpRec) = .error .validation := by
  constructor <;> decide +kernel

/-! ## the schema round trip without `hself` -/

/-- **Round trip of a `from_arrays` record at the default settings — full** (C06 model, `rd64`, shipped
table): `schema_roundtrip_c06_partial` without its `SelfConsistent` hypothesis.  What remains are the two
hypotheses shown necessary in `Props/C04Schema.lean` (at least one atom; the exported geometry passes the
default overlap screen) and the settings themselves (`mtol` the default — `from_schema` has no `mtol=`
keyword —, `nonphysical = False` on both sides). -/
theorem schema_roundtrip_default (angToAu : Rat) (P : SchemaParams) (i : Inp) (r : Molrec) (v : Int)
    (hv : v = 1 ∨ v = 2) (h : fromArrays (envC06 rd64 angToAu) i = .ok r)
    (hmt : i.mtol = dfltMtol) (hnp : i.nonphysical = false) (hP : P.nonphysical = false)
    (hn : r.elem.length ≠ 0)
    (hgeo : validateGeometry dfltTooclose (exportGeom P r) = .ok (exportGeom P r)) :
    fromSchema (envC06 rd64 angToAu) (toSchemaU P r v) = .ok (schemaImage P r) := by
  apply schema_roundtrip_c06_partial rd64 rd64_odd angToAu P i r v hv h hmt (by rw [hnp, hP]) hn hgeo
  intro u hu
  obtain ⟨c, _, hc⟩ := recNucs_answers h u hu
  exact default_settings_selfconsistent (nucSettings i) c u hc hnp hmt

/-- **… and the second trip is the identity.** -/
theorem schema_roundtrip_twice_default (angToAu : Rat) (P : SchemaParams) (i : Inp) (r : Molrec) (v v' : Int)
    (hv : v = 1 ∨ v = 2) (hv' : v' = 1 ∨ v' = 2) (h : fromArrays (envC06 rd64 angToAu) i = .ok r)
    (hmt : i.mtol = dfltMtol) (hnp : i.nonphysical = false) (hP : P.nonphysical = false)
    (hn : r.elem.length ≠ 0)
    (hgeo : validateGeometry dfltTooclose (exportGeom P r) = .ok (exportGeom P r)) :
    fromSchema (envC06 rd64 angToAu) (toSchemaU P r v) = .ok (schemaImage P r) ∧
    fromSchema (envC06 rd64 angToAu) (toSchemaU P (schemaImage P r) v') = .ok (schemaImage P r) := by
  have I := from_arrays_inv_c06 rd64 angToAu i r h
  refine schema_roundtrip_twice (envC06 rd64 angToAu) P r v v' hv hv' I hn hgeo ?_
  intro u hu
  obtain ⟨c, _, hc⟩ := recNucs_answers h u hu
  have := recon_c06_idem_default (nucSettings i) c u hc hnp hmt
  simpa [schemaSettings, nucSettings, hmt, hnp, hP, envC06] using this

/-- **Every record that came out of `from_schema` (with `nonphysical = False`) round-trips, and the second
trip is the identity** — `schema_roundtrip_twice_c06` without the hypothesis that the dictionary carried
every mass: ANY dictionary (partial arrays, isotopes by `mass_numbers` only, labels). -/
theorem schema_roundtrip_twice_default_of_schema (angToAu : Rat) (P : SchemaParams) (s : Schema) (r : Molrec)
    (v v' : Int) (hv : v = 1 ∨ v = 2) (hv' : v' = 1 ∨ v' = 2)
    (h : fromSchema (envC06 rd64 angToAu) s = .ok r)
    (hnp : s.body.nonphysical = false) (hP : P.nonphysical = false) :
    fromSchema (envC06 rd64 angToAu) (toSchemaU P r v) = .ok (schemaImage P r) ∧
    fromSchema (envC06 rd64 angToAu) (toSchemaU P (schemaImage P r) v') = .ok (schemaImage P r) := by
  obtain ⟨seps, hfa⟩ := fromSchema_ok h
  obtain ⟨I, hu⟩ := from_schema_inv_c06 rd64 angToAu s r h
  have hn : r.elem.length ≠ 0 := by
    obtain ⟨g, _, _, _, _, _, _, hg0, _, _, _, _, _, _, _, hr⟩ := fromArrays_ok hfa
    have hgne : r.geom ≠ [] := by
      rcases missingGeom_ok hg0 with ⟨hne, _⟩ | ⟨_, hmin⟩
      · rw [hr]; exact hne
      · simp at hmin
    intro h0
    have := I.lengths.2.2.2.2.2
    rw [h0] at this
    exact hgne (List.length_eq_zero_iff.1 (by omega))
  have hgeo := geometry_hyp_of_bohr P r I hu (Rat.le_refl)
  have hre : ∀ u ∈ recNucs r, (envC06 rd64 angToAu).recon (schemaSettings P) (clueOf u) = .ok u := by
    intro u hu'
    obtain ⟨c, _, hcu⟩ := recNucs_answers hfa u hu'
    have := recon_c06_idem_default _ c u hcu (by simpa [nucSettings] using hnp) (by simp [nucSettings])
    simpa [schemaSettings, nucSettings, hnp, hP, envC06] using this
  exact schema_roundtrip_twice (envC06 rd64 angToAu) P r v v' hv hv' I hn hgeo hre

/-! ### non-vacuity (tests, labelled as tests) -/

/-- concrete parameters of the schema model -/
def exP : SchemaParams := { formula := fun _ => "H3O", cf := fun _ => 1, fl := rd64, nonphysical := false }

/-- test: every hypothesis of `schema_roundtrip_default` is met by the isotope record above (deuterium by `elea`
only, tritium by label only, a ghost) — the round trip BY THE THEOREM -/
example : fromSchema (envC06 rd64 1) (toSchemaU exP isoRec 2) = .ok (schemaImage exP isoRec) :=
  schema_roundtrip_default 1 exP isoInp isoRec 2 (Or.inr rfl) iso_ok rfl rfl rfl (by decide)
    (geometry_hyp_of_bohr exP isoRec (from_arrays_inv_c06 rd64 1 isoInp isoRec iso_ok) rfl (Rat.le_refl))

/-- test: … and of `schema_roundtrip_twice_default` -/
example : fromSchema (envC06 rd64 1) (toSchemaU exP isoRec 1) = .ok (schemaImage exP isoRec) ∧
    fromSchema (envC06 rd64 1) (toSchemaU exP (schemaImage exP isoRec) 2) = .ok (schemaImage exP isoRec) :=
  schema_roundtrip_twice_default 1 exP isoInp isoRec 1 2 (Or.inl rfl) (Or.inr rfl) iso_ok rfl rfl rfl (by decide)
    (geometry_hyp_of_bohr exP isoRec (from_arrays_inv_c06 rd64 1 isoInp isoRec iso_ok) rfl (Rat.le_refl))

/-- one deuterium by mass number only, default settings -/
def dSt : NucSettings := { speclabel := true, nonphysical := false, mtol := dfltMtol }
def dClue : Clue := { A := some 2, Z := some 1, E := none, mass := none, real := none, label := none }
def dNuc : Nuc := { A := 2, Z := 1, E := "H", mass := 4535354008713743 / 2251799813685248, real := true, label := "" }

/-- test [decide +kernel]: the C06 model answers `A=2, Z=1` with the tabulated mass of H-2 -/
theorem d_ok : reconOfC06 rd64 dSt dClue = .ok dNuc := by decide +kernel

/-- test: the hypotheses of `selfConsistent_of_A_clue` (a mass-number claim, no mass claim, the table facts) are
met by that call -/
example : SelfConsistent shippedN rd64 dSt.mtol dNuc :=
  selfConsistent_of_A_clue shippedN rd64 _ isoB shipped_isotopes_rederive rd64_odd rd64_idem dSt dClue dNuc d_ok rfl
    dfltMtol_nonneg dfltMtol_le_isoB 2 (Or.inl ⟨.int 2, rfl, truncInt_intCast 2⟩)
    (by
      rintro m (⟨p, hp, _⟩ | ⟨L, t, q, ⟨_, l, hl, _⟩, _, _, _⟩)
      · simp [toInput, dClue] at hp
      · simp [toInput, dClue] at hl)

/-- tests: `default_settings_selfconsistent` / `recon_c06_idem_default` on it -/
example : SelfConsistent shippedN rd64 dfltMtol dNuc := default_settings_selfconsistent dSt dClue dNuc d_ok rfl rfl
example : reconOfC06 rd64 { dSt with speclabel := false } (clueOf dNuc) = .ok dNuc :=
  recon_c06_idem_default dSt dClue dNuc d_ok rfl rfl

end QcelVerif.FromArrays
