import QcelVerif.Props.C06ElemPred
/-! C06: table-wide instances (kernel evaluation of the whole model under rd64), half B of the element rows. -/
namespace QcelVerif.Nucleus
open QcelVerif
set_option maxRecDepth 100000
theorem elements_default_B : (Gen.PT.elements.drop 59).all elementDefaultOk = true := by decide +kernel
end QcelVerif.Nucleus
