import QcelVerif.Lemmas.UnitNamesChk
/-! C03 text level: every listed spelling of these table units resolves to its unit over the regenerated registry names
(kernel evaluation, one table unit per lemma; the collisions are the eight of `collisionTable`).  Helper lemmas for `Props/C03Text.lean`. -/
namespace QcelVerif.Units.Text

theorem sp_ampere : (spellingsOf .ampere).all chk = true := by decide +kernel
theorem sp_kelvin : (spellingsOf .kelvin).all chk = true := by decide +kernel
theorem sp_rankine : (spellingsOf .rankine).all chk = true := by decide +kernel
theorem sp_mole : (spellingsOf .mole).all chk = true := by decide +kernel
theorem sp_coulomb : (spellingsOf .coulomb).all chk = true := by decide +kernel
theorem sp_echarge : (spellingsOf .echarge).all chk = true := by decide +kernel
theorem sp_statC : (spellingsOf .statC).all chk = true := by decide +kernel
theorem sp_joule : (spellingsOf .joule).all chk = true := by decide +kernel
theorem sp_calorie : (spellingsOf .calorie).all chk = true := by decide +kernel
theorem sp_eV : (spellingsOf .eV).all chk = true := by decide +kernel
theorem sp_hartree : (spellingsOf .hartree).all chk = true := by decide +kernel
theorem sp_erg : (spellingsOf .erg).all chk = true := by decide +kernel
theorem sp_hertz : (spellingsOf .hertz).all chk = true := by decide +kernel
theorem sp_wavenumber : (spellingsOf .wavenumber).all chk = true := by decide +kernel

end QcelVerif.Units.Text
