import QcelVerif.Props.C17
import QcelVerif.Model.RadiiSrc
/-!
# C17 — the lookup logic regenerated from the source equals the hand model

`Gen/RadiiSrc.lean` is printed on every run by `harness/c17_src.py` from the text of
`covalent_radii.py`, `vanderwaals_radii.py` and `datum.py` (statement by statement, as terms of
`Model/RadiiAst.lean`).  Here the interpreter's reading of those terms is proved EQUAL to the hand
model of `Model/Radii.lean` / `Model/RadiiFactor.lean`:

  * `src_to_units_eq`      — `Datum.to_units`  = `Datum.toUnitsU`            for ALL Datums / units / factor maps
  * `src_cov_get_eq`, `src_vdw_get_eq` — `get` = `getU`                      for ALL periodic tables, radius tables, arguments
  * `src_init_shipped_eq`  — `__init__` (row loop, `aliases`, alias loop) = `loadCov` / `loadVdw` on the shipped data files
  * `src_cov_init_eq`, `src_vdw_init_eq` — the same for ALL data rows of the files' row shape

and the headline clauses are restated over the source-derived functions `srcCovGet`, `srcVdwGet`,
`srcToUnits`, `srcCov`, `srcVdw`.  The periodic-table accessor `to_E`, the dictionary primitives and
`conversion_factor` are named primitives, exactly the hand model's parameters.
-/
namespace QcelVerif.Radii.Src
open QcelVerif QcelVerif.PStr QcelVerif.PT QcelVerif.Radii QcelVerif.Gen.RadiiSrc
set_option maxRecDepth 100000

/-! ## `Datum.to_units` -/

theorem runToUnitsV_eq (convF : Bytes → Bytes → Option Rat) (d : Datum) (units : Option Bytes) :
    outOf (runToUnitsV toUnitsBody convF d (optBytesV units)) = liftErr (d.toUnitsU convF units) := by
  obtain ⟨l, u, data, cm, di⟩ := d
  cases units with
  | none =>
    cases hf : convF u u with
    | none => simp [outOf, runToUnitsV, toUnitsBody, call, exec, eval, Env.set, optBytesV, V.truthy, Datum.toUnitsU,
        Datum.toUnits, liftErr, hf]
    | some f =>
      cases data <;>
        simp [outOf, runToUnitsV, toUnitsBody, call, exec, eval, Env.set, optBytesV, V.truthy, Datum.toUnitsU,
          Datum.toUnits, liftErr, hf, payloadV, toOut, Payload.scale]
  | some w =>
    cases hf : convF u w with
    | none => simp [outOf, runToUnitsV, toUnitsBody, call, exec, eval, Env.set, optBytesV, V.truthy, Datum.toUnitsU,
        Datum.toUnits, liftErr, hf]
    | some f =>
      cases data <;>
        simp [outOf, runToUnitsV, toUnitsBody, call, exec, eval, Env.set, optBytesV, V.truthy, Datum.toUnitsU,
          Datum.toUnits, liftErr, hf, payloadV, toOut, Payload.scale]

/-- **`Datum.to_units` regenerated from datum.py is the hand model** (all Datums, all payload kinds,
target given or `None`, any factor map): the choice `to_unit = self.units if units is None else units`,
the call `conversion_factor(self.units, to_unit)`, the Decimal / non-Decimal dispatch. -/
theorem src_to_units_eq (convF : Bytes → Bytes → Option Rat) (d : Datum) (units : Option Bytes) :
    srcToUnits convF d units = liftErr (d.toUnitsU convF units) := by
  unfold srcToUnits runToUnits
  exact runToUnitsV_eq convF d units

/-- `to_units` as `get` calls it (the target is always a `str` there) -/
theorem toUnits_in_get (convF : Bytes → Bytes → Option Rat) (d : Datum) (u : Bytes) :
    outOf (runToUnitsV toUnitsBody convF d (.str u)) = liftErr (d.toUnits (fun src => convF src u)) := by
  have h := runToUnitsV_eq convF d (some u)
  simpa [optBytesV, Datum.toUnitsU] using h

/-- what `to_units` returns is always something `get` can hand back -/
theorem toUnits_cases (convF : Bytes → Bytes → Option Rat) (d : Datum) (u : Bytes) :
    (∃ x, runToUnitsV toUnitsBody convF d (.str u) = .error x ∧ liftErr (d.toUnits (fun src => convF src u)) = .error x) ∨
    (∃ v o, runToUnitsV toUnitsBody convF d (.str u) = .ok v ∧ toOut v = .ok o ∧ d.toUnits (fun src => convF src u) = .ok o) := by
  have h := toUnits_in_get convF d u
  cases hr : runToUnitsV toUnitsBody convF d (.str u) with
  | error x => left; rw [hr] at h; exact ⟨x, rfl, h.symm⟩
  | ok v =>
    right
    rw [hr] at h
    simp only [outOf] at h
    cases hm : d.toUnits (fun src => convF src u) with
    | error e => rw [hm] at h; cases e <;> cases v <;> simp [toOut, liftErr] at h
    | ok o => rw [hm] at h; exact ⟨v, o, rfl, h, rfl⟩

/-! ## `get` -/

/-- the body shared by both classes (the translator prints each from its own file; they are compared here) -/
def getBodyRef : Stmt := covGetBody

/-- the two `get` bodies are the same statement list (same logic in both classes) -/
theorem vdw_get_body_eq_cov : vdwGetBody = covGetBody := by rfl

theorem call_seq_none (P : Prims) (a b : Stmt) (env env' : Env) (h : exec P a env = .ok (env', none)) :
    call P (.seq a b) env = call P b env' := by
  simp [call, exec, h]

theorem call_seq_err {x : Exn} (P : Prims) (a b : Stmt) (env : Env) (h : exec P a env = .error x) :
    call P (.seq a b) env = .error x := by
  simp [call, exec, h]

theorem runGet_eq (T : Tables) (t : Table) (convF : Bytes → Bytes → Option Rat) (a : PyVal) (rt : Bool)
    (u : Bytes) (missing : Option Rat) :
    runGet covGetBody toUnitsBody T t convF a rt u missing = liftErr (get T t (fun src => convF src u) a rt missing) := by
  have key : ∀ (k : Nat) (v5 : V), (v5 = .sym k ∨ ∃ s, v5 = .str s ∧ pack s = k) →
      outOf (call (getPrims toUnitsBody T t convF)
          (.seq (.tryKeyError (.seq (.assert (.isStr (.var 5))) (.assign 7 (.tableGet (.var 5))))
              (.ite (.and (.isNotNone (.var 4)) (.isFalse (.var 2))) (.ret (.var 4)) (.raise .dataUnavailable)))
            (.ite (.var 2) (.ret (.var 7)) (.ret (.toUnits (.var 7) (.var 3)))))
          (((((emptyEnv.set 1 (atomV a)).set 2 (.bool rt)).set 3 (.str u)).set 4 (optRatV missing)).set 5 v5)) = liftErr (getByKey t (fun src => convF src u) k rt missing) := by
    intro k v5 hv
    rcases hv with rfl | ⟨s, rfl, hs⟩
    · cases hd : lookupK t k with
      | none =>
        cases missing <;> cases rt <;>
          simp [outOf, call, exec, V.truthy, eval, Env.set, optRatV, getByKey, hd, liftErr, toOut, getPrims]
      | some d =>
        cases rt with
        | true => simp [outOf, call, exec, V.truthy, eval, Env.set, getByKey, hd, liftErr, toOut, getPrims]
        | false =>
          rcases toUnits_cases convF d u with ⟨x, hx, hm⟩ | ⟨v, o, hv', ho, hm⟩
          · simp [outOf, call, exec, V.truthy, eval, Env.set, getByKey, hd, hx, hm, getPrims]
          · simp [outOf, call, exec, V.truthy, eval, Env.set, getByKey, hd, hv', ho, hm, liftErr, getPrims]
    · subst hs
      cases hd : lookupK t (pack s) with
      | none =>
        cases missing <;> cases rt <;>
          simp [outOf, call, exec, V.truthy, eval, Env.set, optRatV, getByKey, hd, liftErr, toOut, getPrims]
      | some d =>
        cases rt with
        | true => simp [outOf, call, exec, V.truthy, eval, Env.set, getByKey, hd, liftErr, toOut, getPrims]
        | false =>
          rcases toUnits_cases convF d u with ⟨x, hx, hm⟩ | ⟨v, o, hv', ho, hm⟩
          · simp [outOf, call, exec, V.truthy, eval, Env.set, getByKey, hd, hx, hm, getPrims]
          · simp [outOf, call, exec, V.truthy, eval, Env.set, getByKey, hd, hv', ho, hm, liftErr, getPrims]
  have hbody : covGetBody = .seq (.ite (.inKeys (.var 1)) (.assign 5 (.var 1)) (.assign 5 (.toE (.var 1))))
      (.seq (.tryKeyError (.seq (.assert (.isStr (.var 5))) (.assign 7 (.tableGet (.var 5))))
          (.ite (.and (.isNotNone (.var 4)) (.isFalse (.var 2))) (.ret (.var 4)) (.raise .dataUnavailable)))
        (.ite (.var 2) (.ret (.var 7)) (.ret (.toUnits (.var 7) (.var 3))))) := rfl
  unfold runGet
  rw [hbody]
  cases a with
  | int z =>
    have e1 : ((((emptyEnv.set 1 (atomV (.int z))).set 2 (.bool rt)).set 3 (.str u)).set 4 (optRatV missing)) 1 = .int z := rfl
    cases hE : T.toE (.int z) false with
    | none =>
      rw [call_seq_err (x := .notAnElement) _ _ _ _ (by simp [exec, eval, e1, V.truthy, getPrims, hE])]
      simp [get, identify, hE, liftErr, outOf]
    | some k =>
      rw [call_seq_none _ _ _ _ (((((emptyEnv.set 1 (atomV (.int z))).set 2 (.bool rt)).set 3 (.str u)).set 4 (optRatV missing)).set 5 (.sym k)) (by simp [exec, eval, e1, V.truthy, getPrims, hE])]
      rw [key k (.sym k) (Or.inl rfl)]
      simp [get, identify, hE]
  | str s =>
    have e1 : ((((emptyEnv.set 1 (atomV (.str s))).set 2 (.bool rt)).set 3 (.str u)).set 4 (optRatV missing)) 1 = .str s := rfl
    cases hl : hasLabel t s with
    | true =>
      rw [call_seq_none _ _ _ _ (((((emptyEnv.set 1 (atomV (.str s))).set 2 (.bool rt)).set 3 (.str u)).set 4 (optRatV missing)).set 5 (.str s)) (by simp [exec, eval, e1, V.truthy, getPrims, hl])]
      rw [key (pack s) (.str s) (Or.inr ⟨s, rfl, rfl⟩)]
      simp [get, identify, hl]
    | false =>
      cases hE : T.toE (.str s) false with
      | none =>
        rw [call_seq_err (x := .notAnElement) _ _ _ _ (by simp [exec, eval, e1, V.truthy, getPrims, hE, hl])]
        simp [get, identify, hE, hl, liftErr, outOf]
      | some k =>
        rw [call_seq_none _ _ _ _ (((((emptyEnv.set 1 (atomV (.str s))).set 2 (.bool rt)).set 3 (.str u)).set 4 (optRatV missing)).set 5 (.sym k)) (by simp [exec, eval, e1, V.truthy, getPrims, hE, hl])]
        rw [key k (.sym k) (Or.inl rfl)]
        simp [get, identify, hE, hl]

/-- **`CovalentRadii.get` regenerated from covalent_radii.py is the hand model** — ANY periodic table,
ANY radius table, ANY factor map, every argument / return_tuple / units (given or omitted) / missing:
the label shortcut before `to_E`, the KeyError handler with `missing is not None and return_tuple is False`,
the DataUnavailableError, the `return_tuple` branch and the call of `to_units(units)` (itself the
regenerated body of datum.py), and the signature default of `units`. -/
theorem src_cov_get_eq (T : Tables) (t : Table) (convF : Bytes → Bytes → Option Rat) (a : PyVal) (rt : Bool)
    (units : Option Bytes) (missing : Option Rat) :
    srcCovGet T t convF a rt units missing = liftErr (getU T t convF a rt units missing) := by
  unfold srcCovGet getU
  rw [runGet_eq]
  rfl

/-- **`VanderWaalsRadii.get` regenerated from vanderwaals_radii.py is the hand model** (same quantifier) -/
theorem src_vdw_get_eq (T : Tables) (t : Table) (convF : Bytes → Bytes → Option Rat) (a : PyVal) (rt : Bool)
    (units : Option Bytes) (missing : Option Rat) :
    srcVdwGet T t convF a rt units missing = liftErr (getU T t convF a rt units missing) := by
  unfold srcVdwGet getU
  rw [vdw_get_body_eq_cov, runGet_eq]
  rfl

/-- the signature defaults printed from the source are the ones the hand model assumes -/
theorem src_get_defaults :
    covDefaultUnits = bBohr ∧ vdwDefaultUnits = bBohr ∧ covDefaultReturnTuple = false ∧ vdwDefaultReturnTuple = false ∧
    covDefaultMissingIsNone = true ∧ vdwDefaultMissingIsNone = true := by decide

/-! ## `__init__` -/

/-- the `aliases` list of the source, as the hand model's `covAliasSpec` (ident, source label, comment) with the
unit literal — the hand-written list IS the source's -/
theorem src_aliases_eq_spec :
    covInit.aliases = covAliasSpec.map (fun a => [.str a.1, .str bAngstrom, .tableData a.2.1, .str a.2.2]) ∧
    covInit.rowLoop = { key := .item 0, ctor := { label := .item 0, units := .nativeUnits, data := .decimal (.item 1),
                                                   comment := some (.item 2), doi := some .doi } } ∧
    covInit.aliasLoop = some { key := .capitalize (.item 0), ctor := { label := .item 0, units := .item 1, data := .item 2,
                                                                         comment := some (.item 3), doi := none } } ∧
    vdwInit = { rowLoop := { key := .item 0, ctor := { label := .item 0, units := .nativeUnits, data := .decimal (.item 1),
                                                        comment := none, doi := some .doi } },
                aliases := [], aliasLoop := none } := by
  decide

/-- **`__init__` of both classes regenerated from the source builds the hand model's dictionaries** on the
shipped data files: same keys in the same assignment order, same Datum fields (label, native units, the
Decimal digits, comment, doi), the four generic-element entries taken from C_sp3 / Mn_highspin / Fe_highspin /
Co_highspin under the capitalised symbol. -/
-- (finite shipped tables; the statement for ALL rows is `src_cov_init_eq` / `src_vdw_init_eq` below)
theorem src_init_shipped_eq : srcCovLoaded = covLoaded ∧ srcVdwLoaded = vdwLoaded ∧ covLoaded.isSome = true ∧ vdwLoaded.isSome = true := by
  refine ⟨?_, ?_, ?_, ?_⟩ <;> decide +kernel

theorem srcCov_eq : srcCov = cov := by unfold srcCov cov; rw [src_init_shipped_eq.1]
theorem srcVdw_eq : srcVdw = vdw := by unfold srcVdw vdw; rw [src_init_shipped_eq.2.1]

/-- the row loop of the source on ONE row is the hand model's row, for every row text (comment present: covalent
shape; comment absent: van der Waals shape) -/
theorem src_rowloop_eq (units doi : Bytes) (l v : Bytes) (c : Option Bytes) :
    (match c with
      | some cm => evalLoop units doi covInit.rowLoop (rowFV (l, v, some cm))
      | none => evalLoop units doi vdwInit.rowLoop (rowFV (l, v, none))) =
    (parseDec v).map fun cs =>
      (l, ({ label := l, units := units, data := .dec false cs.1 (-(cs.2 : Int)), comment := c, doi := some doi } : Datum)) := by
  cases c with
  | some cm =>
    cases hp : parseDec v <;>
      simp [covInit, evalLoop, evalStr, evalF, evalDatum, evalOptStr, rowFV, hp]
  | none =>
    cases hp : parseDec v <;>
      simp [vdwInit, evalLoop, evalStr, evalF, evalDatum, evalOptStr, rowFV, hp]

theorem mapM_opt_congr {α β : Type} (f g : α → Option β) (l : List α) (h : ∀ a ∈ l, f a = g a) :
    l.mapM f = l.mapM g := by
  induction l with
  | nil => rfl
  | cons x xs ih =>
    simp only [List.mapM_cons]
    rw [h x List.mem_cons_self, ih (fun a ha => h a (List.mem_cons_of_mem _ ha))]

theorem src_rowloop_cov (units doi : Bytes) (rows : List (Bytes × Bytes × Option Bytes)) (h : ∀ r ∈ rows, r.2.2.isSome = true) :
    (rows.mapM fun r => evalLoop units doi covInit.rowLoop (rowFV r)) = loadRows units doi rows := by
  unfold loadRows
  apply mapM_opt_congr
  intro r hr
  obtain ⟨l, v, c⟩ := r
  have hc := h _ hr
  cases c with
  | none => cases hc
  | some cm => exact src_rowloop_eq units doi l v (some cm)

theorem src_rowloop_vdw (units doi : Bytes) (rows : List (Bytes × Bytes × Option Bytes)) (h : ∀ r ∈ rows, r.2.2 = none) :
    (rows.mapM fun r => evalLoop units doi vdwInit.rowLoop (rowFV r)) = loadRows units doi rows := by
  unfold loadRows
  apply mapM_opt_congr
  intro r hr
  obtain ⟨l, v, c⟩ := r
  have hc := h _ hr
  simp only at hc
  subst hc
  exact src_rowloop_eq units doi l v none

theorem src_alias_part (units doi : Bytes) (base : Table) :
    ((covInit.aliases.mapM fun (tp : List AliasE) => tp.mapM (evalAliasE base)).bind fun tuples =>
      (tuples.mapM fun tp => evalLoop units doi
        { key := .capitalize (.item 0), ctor := { label := .item 0, units := .item 1, data := .item 2, comment := some (.item 3), doi := none } } tp)) =
    covAliasSpec.mapM fun a =>
      (lookupB base a.2.1).map fun src =>
        (capitalize a.1, ({ label := a.1, units := bAngstrom, data := src.data, comment := some a.2.2, doi := none } : Datum)) := by
  cases h1 : lookupB base [67, 95, 115, 112, 51] <;>
  cases h2 : lookupB base [77, 110, 95, 104, 105, 103, 104, 115, 112, 105, 110] <;>
  cases h3 : lookupB base [70, 101, 95, 104, 105, 103, 104, 115, 112, 105, 110] <;>
  cases h4 : lookupB base [67, 111, 95, 104, 105, 103, 104, 115, 112, 105, 110] <;>
  simp [covInit, covAliasSpec, evalAliasE, evalLoop, evalStr, evalF, evalDatum, evalOptStr, h1, h2, h3, h4, cLargest, cLarger, bAngstrom]

/-- **`CovalentRadii.__init__` regenerated from the source is the hand model's `loadCov` for ALL data rows** that carry a
comment (the source indexes `cr[2]`): row loop, `aliases` evaluated on the rows (a missing source label fails the load in
both), alias loop under the capitalised symbol. -/
theorem src_cov_init_eq (units doi : Bytes) (rows : List (Bytes × Bytes × Option Bytes))
    (h : ∀ r ∈ rows, r.2.2.isSome = true) : runInit covInit units doi rows = loadCov units doi rows := by
  have hr := src_rowloop_cov units doi rows h
  unfold runInit loadCov
  rw [hr]
  cases hb : loadRows units doi rows with
  | none => rfl
  | some base =>
    have ha := src_alias_part units doi base
    have hl : covInit.aliasLoop = some { key := .capitalize (.item 0), ctor := { label := .item 0, units := .item 1, data := .item 2, comment := some (.item 3), doi := none } } := rfl
    simp only [hl, Option.bind_eq_bind, Option.bind_some, Option.pure_def] at ha ⊢
    rw [← ha]
    cases (covInit.aliases.mapM fun (tp : List AliasE) => tp.mapM (evalAliasE base)) <;> rfl

/-- **`VanderWaalsRadii.__init__` regenerated from the source is the hand model's `loadVdw` for ALL two-column data rows.** -/
theorem src_vdw_init_eq (units doi : Bytes) (rows : List (Bytes × Bytes × Option Bytes))
    (h : ∀ r ∈ rows, r.2.2 = none) : runInit vdwInit units doi rows = loadVdw units doi rows := by
  have hr := src_rowloop_vdw units doi rows h
  unfold runInit loadVdw
  rw [hr]
  cases hb : loadRows units doi rows <;> rfl

-- non-vacuous (tests): the shipped files have exactly these row shapes
example : Gen.Radii.covRows.all (fun r => r.2.2.isSome) = true ∧ Gen.Radii.vdwRows.all (fun r => r.2.2 == none) = true := by
  constructor <;> decide +kernel

/-! ## the headline clauses over the source-derived functions -/

/-- **Tabulated value returned** (source-derived `get`, any tables, both classes): if the argument identifies
key `k` (exact label, or through `to_E`), the dictionary holds the Decimal `±c·10^e` under `k` and the factor
towards the requested unit is `f`, the result is `fl(f · float(Decimal))` whatever `missing` is; with
`return_tuple=True` it is the stored Datum itself. -/
theorem src_tabulated_value (T : Tables) (t : Table) (convF : Bytes → Bytes → Option Rat) (a : PyVal) (k : Nat)
    (units : Option Bytes) (m : Option Rat) (d : Datum) (f : Rat) (n : Bool) (c : Nat) (e : Int)
    (hid : identify T t a = some k) (hd : lookupK t k = some d) (hdec : d.data = .dec n c e)
    (hf : convF d.units (units.getD bBohr) = some f) :
    srcCovGet T t convF a false units m = .ok (.value (fmul f (ofDec n c e))) ∧
    srcVdwGet T t convF a false units m = .ok (.value (fmul f (ofDec n c e))) ∧
    srcCovGet T t convF a true units m = .ok (.datum d) ∧
    srcVdwGet T t convF a true units m = .ok (.datum d) := by
  rw [src_cov_get_eq, src_vdw_get_eq, src_cov_get_eq, src_vdw_get_eq]
  have h1 : getU T t convF a false units m = .ok (.value (fmul f (ofDec n c e))) := by
    unfold getU get
    rw [hid]
    exact value_is_factor_times_native t _ k m d f n c e hd hdec hf
  have h2 : getU T t convF a true units m = .ok (.datum d) := by
    unfold getU get
    rw [hid]
    exact datum_native t _ k m d hd
  rw [h1, h2]
  exact ⟨rfl, rfl, rfl, rfl⟩

-- non-vacuous (test): "c_sp3" is no label, "C_sp3" is; carbon by name resolves to C, which is tabulated
example : identify shipped cov (.str [67, 95, 115, 112, 51]) = some (pack [67, 95, 115, 112, 51]) ∧
    (lookupK cov (pack [67, 95, 115, 112, 51])).isSome = true ∧
    identify shipped cov (.str [99, 97, 114, 98, 111, 110]) = some (pack [67]) := by decide +kernel

/-- **The bare element is the largest variant** over the dictionary the SOURCE's `__init__` builds: the elements
with `E_<variant>` rows are exactly C, Mn, Fe, Co and the entry the alias loop stores under the bare symbol carries
the maximum of the variants' values, in angstrom; none in the van der Waals set. -/
theorem src_generic_is_largest :
    symbolsWithVariants srcCov = [[67], [77, 110], [70, 101], [67, 111]] ∧
    (symbolsWithVariants srcCov).all (genericOk srcCov) = true ∧
    symbolsWithVariants srcVdw = [] := by
  rw [srcCov_eq, srcVdw_eq]
  exact generic_is_largest

/-- **Native unit exact** (source-derived `get` on the source-built dictionaries): with factor 1 towards the
requested unit, every tabulated entry comes back as `float(Decimal)` itself, and that float is the nearest
double (ties to even) of the tabulated decimal. -/
theorem src_native_unit_exact (T : Tables) (convF : Bytes → Bytes → Option Rat) (a : PyVal) (k : Nat)
    (units : Option Bytes) (m : Option Rat) (d : Datum) :
    (identify T srcCov a = some k → lookupK srcCov k = some d → convF d.units (units.getD bBohr) = some 1 →
      ∃ n c e, d.data = .dec n c e ∧ srcCovGet T srcCov convF a false units m = .ok (.value (ofDec n c e)) ∧
        isNearestEven (decVal n c e) (ofDec n c e) = true) ∧
    (identify T srcVdw a = some k → lookupK srcVdw k = some d → convF d.units (units.getD bBohr) = some 1 →
      ∃ n c e, d.data = .dec n c e ∧ srcVdwGet T srcVdw convF a false units m = .ok (.value (ofDec n c e)) ∧
        isNearestEven (decVal n c e) (ofDec n c e) = true) := by
  rw [srcCov_eq, srcVdw_eq]
  constructor
  · intro hid hd hf
    obtain ⟨n, c, e, hdat, hg, hn⟩ := native_unit_exact cov (Or.inl rfl) (fun src => convF src (units.getD bBohr)) k m d hd hf
    refine ⟨n, c, e, hdat, ?_, hn⟩
    rw [src_cov_get_eq]
    unfold getU get
    simp only [hid, hg]
    rfl
  · intro hid hd hf
    obtain ⟨n, c, e, hdat, hg, hn⟩ := native_unit_exact vdw (Or.inr rfl) (fun src => convF src (units.getD bBohr)) k m d hd hf
    refine ⟨n, c, e, hdat, ?_, hn⟩
    rw [src_vdw_get_eq]
    unfold getU get
    simp only [hid, hg]
    rfl

-- non-vacuous (test): hydrogen is tabulated in both source-built sets
example : (lookupK srcCov (pack [72])).isSome = true ∧ (lookupK srcVdw (pack [72])).isSome = true := by decide +kernel

/-- **Missing-data contract** (source-derived `get`, any tables, both classes): a valid element without entry
raises DataUnavailableError when `missing` is None or `return_tuple` is on, and otherwise returns exactly the
caller's fallback — whatever its value (0.0 included). -/
theorem src_missing_contract (T : Tables) (t : Table) (convF : Bytes → Bytes → Option Rat) (a : PyVal) (e : Nat)
    (units : Option Bytes)
    (hE : T.toE a false = some e) (hlab : ∀ s, a = .str s → hasLabel t s = true → pack s = e)
    (hno : lookupK t e = none) (x : Rat) (rt : Bool) :
    srcCovGet T t convF a rt units none = .error .dataUnavailable ∧
    srcCovGet T t convF a false units (some x) = .ok (.value x) ∧
    srcCovGet T t convF a true units (some x) = .error .dataUnavailable ∧
    srcVdwGet T t convF a rt units none = .error .dataUnavailable ∧
    srcVdwGet T t convF a false units (some x) = .ok (.value x) ∧
    srcVdwGet T t convF a true units (some x) = .error .dataUnavailable := by
  have h := missing_contract T t (fun src => convF src (units.getD bBohr)) a e hE hlab hno x rt
  simp only [src_cov_get_eq, src_vdw_get_eq, getU, h.1, h.2.1, h.2.2, liftErr, and_self]

-- non-vacuous (test): lawrencium by number, fallback 0
example : shipped.toE (.int 103) false = some (pack [76, 114]) ∧ lookupK cov (pack [76, 114]) = none ∧
    (match srcCovGet shipped cov (fun _ _ => some 1) (.int 103) false none (some 0) with
      | .ok (.value x) => x == 0 | _ => false) = true := by decide +kernel

/-- **Non-elements are refused** (source-derived `get`, any tables, both classes): not an exact label and not
resolvable by the periodic table → NotAnElementError, never the fallback. -/
theorem src_not_element (T : Tables) (t : Table) (convF : Bytes → Bytes → Option Rat) (a : PyVal) (rt : Bool)
    (units : Option Bytes) (m : Option Rat)
    (hlab : ∀ s, a = .str s → hasLabel t s = false) (hE : T.toE a false = none) :
    srcCovGet T t convF a rt units m = .error .notAnElement ∧ srcVdwGet T t convF a rt units m = .error .notAnElement := by
  have h := not_element T t (fun src => convF src (units.getD bBohr)) a rt m hlab hE
  simp only [src_cov_get_eq, src_vdw_get_eq, getU, h, liftErr, and_self]

-- non-vacuous (test): "c_SP3" is neither a label nor an element
example : hasLabel cov [99, 95, 83, 80, 51] = false ∧ shipped.toE (.str [99, 95, 83, 80, 51]) false = none := by decide +kernel

/-- **An exact label returns its own entry without consulting the periodic table** (source-derived `get`): the
shortcut `if atom in self.cr.keys()` comes first, so the answer does not depend on `to_E` at all. -/
theorem src_label_first (T T' : Tables) (t : Table) (convF : Bytes → Bytes → Option Rat) (s : Bytes) (rt : Bool)
    (units : Option Bytes) (m : Option Rat) (h : hasLabel t s = true) :
    srcCovGet T t convF (.str s) rt units m = srcCovGet T' t convF (.str s) rt units m ∧
    srcVdwGet T t convF (.str s) rt units m = srcVdwGet T' t convF (.str s) rt units m := by
  simp only [src_cov_get_eq, src_vdw_get_eq, getU, get, identify, h, if_true, and_self]

/-- **`to_units()` without a target is `to_units(self.units)`** and a target equal to the Datum's own unit with
factor 1 returns `float(Decimal)` / the float itself (source-derived `to_units`). -/
theorem src_to_units_default (convF : Bytes → Bytes → Option Rat) (d : Datum) :
    srcToUnits convF d none = srcToUnits convF d (some d.units) := by
  rw [src_to_units_eq, src_to_units_eq]
  rfl

end QcelVerif.Radii.Src
