import QcelVerif.Lemmas.Fragments
import QcelVerif.Props.C15Formula
import QcelVerif.Props.C15Nre
import Mathlib.Tactic.Ring
/-!
# C15 — fragment extraction and composition bookkeeping: property theorems

Model: `Model/Fragments.lean` (`getFragment` = `Molecule.get_fragment` followed by the
constructor's fragment-contiguity and charge/multiplicity validation, `nelectrons`, `nre`),
`Model/Formula.lean`.  All theorems hold for any number of atoms and fragments.

PROPERTY-THEOREMS
  this file:        grouped_atoms_conserved  ordered_atoms_conserved  ordered_remap
                    ordered_fragments_partition  getFragment_ok_wf  grouped_chgmult  ordered_chgmult
                    nelectrons_eq  electrons_additive  child_electrons
  Props/C15Nre:     nre_real_only  nre_perm_invariant  nre_rigid_invariant
  Props/C15Formula: formula_counts  formula_alphabetical_sorted  formula_hill  order_idempotent_tokens
-/
namespace QcelVerif.Fragments
open QcelVerif.ChgMult (isum highSpin vfc Rules)
variable {α : Type}

/-! ### unfolding successful runs -/

theorem liftIdx_bind_ok {β γ} {o : Option β} {f : β → Except Err γ} {r : γ}
    (h : (liftIdx o >>= f) = .ok r) : ∃ b, o = some b ∧ f b = .ok r := by
  cases o with
  | none => simp [liftIdx, bind, Except.bind] at h
  | some b => exact ⟨b, rfl, by simpa [liftIdx, bind, Except.bind] using h⟩

theorem extractGrouped_ok {mol : Mol α} {R G : List Nat} {k : Ctor α}
    (h : extractGrouped mol R G = .ok k) :
    ∃ rb gb atoms fcR fmR, pick mol.frags R = some rb ∧ pick mol.frags G = some gb ∧
      pick mol.atoms (rb ++ gb).flatten = some atoms ∧ pick mol.fc R = some fcR ∧
      pick mol.fm R = some fmR ∧
      k = { atoms := atoms
            real := List.replicate rb.flatten.length true ++ List.replicate gb.flatten.length false
            frags := ranges 0 ((rb ++ gb).map List.length)
            fc := fcR ++ G.map (fun _ => 0), fm := fmR ++ G.map (fun _ => 1)
            c := some (isum fcR), m := some (isum (fmR.map (· - 1)) + 1) } := by
  unfold extractGrouped at h
  obtain ⟨rb, h1, h⟩ := liftIdx_bind_ok h
  obtain ⟨gb, h2, h⟩ := liftIdx_bind_ok h
  obtain ⟨atoms, h3, h⟩ := liftIdx_bind_ok h
  obtain ⟨fcR, h4, h⟩ := liftIdx_bind_ok h
  obtain ⟨fmR, h5, h⟩ := liftIdx_bind_ok h
  refine ⟨rb, gb, atoms, fcR, fmR, h1, h2, h3, h4, h5, ?_⟩
  simpa [pure, Except.pure] using h.symm

theorem extractOrdered_ok {mol : Mol α} {R G : List Nat} {k : Ctor α}
    (h : extractOrdered mol R G = .ok k) :
    ∃ atoms fs cs ms,
      pick mol.atoms (keptAtoms mol.atoms.length mol.frags R G) = some atoms ∧
      fragLoop mol.frags mol.fc mol.fm R G mol.frags 0 = some (fs, cs, ms) ∧
      k = { atoms := atoms
            real := (keptAtoms mol.atoms.length mol.frags R G).map (realAtom mol.frags R)
            frags := fs, fc := cs, fm := ms, c := none, m := none } := by
  unfold extractOrdered at h
  simp only [] at h
  split at h
  · simp [bind, Except.bind, throw, throwThe, MonadExceptOf.throw] at h
  · simp only [pure, Except.pure, bind, Except.bind] at h
    have h' : (liftIdx (pick mol.atoms (keptAtoms mol.atoms.length mol.frags R G)) >>= fun atoms =>
        liftIdx (fragLoop mol.frags mol.fc mol.fm R G mol.frags 0) >>= fun x =>
          (Except.ok { atoms := atoms
                       real := (keptAtoms mol.atoms.length mol.frags R G).map (realAtom mol.frags R)
                       frags := x.1, fc := x.2.1, fm := x.2.2, c := none, m := none } : Except Err (Ctor α)))
        = .ok k := h
    obtain ⟨atoms, h1, h'⟩ := liftIdx_bind_ok h'
    obtain ⟨⟨fs, cs, ms⟩, h2, h'⟩ := liftIdx_bind_ok h'
    exact ⟨atoms, fs, cs, ms, h1, h2, (Except.ok.inj h').symm⟩

theorem construct_ok {zOf : α → Int} {k : Ctor α} {m' : Mol α} (h : construct zOf k = .ok m') :
    k.frags.flatten = List.range k.atoms.length ∧
    ∃ o, vfc { frags := fragZeff (zeffList zOf k.atoms k.real) k.frags
               c := k.c, fc := k.fc.map some, m := k.m, fm := k.fm.map some, zgf := false } = .ok o ∧
      m' = { atoms := k.atoms, real := k.real, frags := k.frags, fc := o.fc, fm := o.fm, c := o.c, m := o.m } := by
  unfold construct at h
  split at h
  · cases h
  · rename_i hc
    split at h
    · rename_i o ho
      exact ⟨by simpa using hc, o, ho, (Except.ok.inj h).symm⟩
    · cases h

theorem getFragment_ok {zOf : α → Int} {mol : Mol α} {R G : List Nat} {g : Bool} {m' : Mol α}
    (h : getFragment zOf mol R G g = .ok m') :
    ∃ k, (if g then extractGrouped mol R G else extractOrdered mol R G) = .ok k ∧
      R.any (G.contains ·) = false ∧ k.atoms ≠ [] ∧ construct zOf k = .ok m' := by
  unfold getFragment at h
  split at h
  · cases h
  · rename_i k hk
    unfold extract at hk
    split at hk
    · cases hk
    · rename_i hov
      split at hk
      · cases hk
      · rename_i k' he
        split at hk
        · cases hk
        · rename_i hne
          cases hk
          refine ⟨k, he, by simpa using hov, ?_, h⟩
          intro e; simp [e] at hne

/-! ### atoms are conserved -/

/-- **group_fragments=True.** The record handed to the constructor lists exactly the atoms of the
real fragments followed by those of the ghost fragments, each fragment's atoms in the parent's
order, fragments in the order requested (`pick` = index by index); flags are `true` for the
first block and `false` for the second; the new index lists have the sizes of the chosen
fragments and concatenate to `0 … n'-1`. -/
theorem grouped_atoms_conserved {mol : Mol α} {R G : List Nat} {k : Ctor α}
    (h : extractGrouped mol R G = .ok k) :
    ∃ rb gb : List (List Nat), R.map (fun j => mol.frags[j]?) = rb.map some ∧ G.map (fun j => mol.frags[j]?) = gb.map some ∧
      k.atoms.map some = (rb ++ gb).flatten.map (fun i => mol.atoms[i]?) ∧
      k.real = List.replicate rb.flatten.length true ++ List.replicate gb.flatten.length false ∧
      k.frags.map List.length = (rb ++ gb).map List.length ∧
      k.frags.flatten = List.range k.atoms.length := by
  obtain ⟨rb, gb, atoms, fcR, fmR, h1, h2, h3, _, _, rfl⟩ := extractGrouped_ok h
  refine ⟨rb, gb, (pick_eq_some _ _ _).1 h1, (pick_eq_some _ _ _).1 h2,
    ((pick_eq_some _ _ _).1 h3).symm, rfl, ranges_map_length _ _, ?_⟩
  simp only [ranges_flatten, Nat.zero_add, List.map_id', sum_map_length_flatten, pick_length h3]

/-- membership of the kept-atom list and of the flags, when no atom is listed by two fragments -/
theorem keepAtom_iff (frags : List (List Nat)) (hd : DisjointFrags frags) (R G : List Nat) (i : Nat) :
    keepAtom frags R G i = true ↔ ∃ j fr, frags[j]? = some fr ∧ i ∈ fr ∧ (j ∈ R ∨ j ∈ G) := by
  unfold keepAtom
  cases h : at2fr frags i with
  | none =>
    simp only [Bool.false_eq_true, false_iff]
    rintro ⟨j, fr, hj, hi, _⟩
    rw [(at2fr_eq_some_iff frags hd i j).2 ⟨fr, hj, hi⟩] at h; cases h
  | some k =>
    obtain ⟨fr, hk, hi⟩ := (at2fr_eq_some_iff frags hd i k).1 h
    simp only [Bool.or_eq_true, List.contains_iff_mem]
    constructor
    · intro hh; exact ⟨k, fr, hk, hi, hh⟩
    · rintro ⟨j, fr', hj, hi', hh⟩
      have : j = k := hd j k fr' fr i hj hk hi' hi
      subst this; exact hh

theorem realAtom_iff (frags : List (List Nat)) (hd : DisjointFrags frags) (R : List Nat) (i : Nat) :
    realAtom frags R i = true ↔ ∃ j fr, frags[j]? = some fr ∧ i ∈ fr ∧ j ∈ R := by
  unfold realAtom
  cases h : at2fr frags i with
  | none =>
    simp only [Bool.false_eq_true, false_iff]
    rintro ⟨j, fr, hj, hi, _⟩
    rw [(at2fr_eq_some_iff frags hd i j).2 ⟨fr, hj, hi⟩] at h; cases h
  | some k =>
    obtain ⟨fr, hk, hi⟩ := (at2fr_eq_some_iff frags hd i k).1 h
    simp only [List.contains_iff_mem]
    constructor
    · intro hh; exact ⟨k, fr, hk, hi, hh⟩
    · rintro ⟨j, fr', hj, hi', hh⟩
      have : j = k := hd j k fr' fr i hj hk hi' hi
      subst this; exact hh

/-- **group_fragments=False.** The atoms handed on are the parent's atoms `0 … n-1` filtered (so in
original order, each at most once) by "its fragment is in `real` or `ghost`"; the flag of a kept
atom is "its fragment is in `real`". -/
theorem ordered_atoms_conserved {mol : Mol α} {R G : List Nat} {k : Ctor α}
    (h : extractOrdered mol R G = .ok k) (hd : DisjointFrags mol.frags) :
    ∃ kept : List Nat,
      kept = (List.range mol.atoms.length).filter (keepAtom mol.frags R G) ∧
      kept.Pairwise (· < ·) ∧
      (∀ i, i ∈ kept ↔ i < mol.atoms.length ∧
        ∃ j fr, mol.frags[j]? = some fr ∧ i ∈ fr ∧ (j ∈ R ∨ j ∈ G)) ∧
      k.atoms.map some = kept.map (fun i => mol.atoms[i]?) ∧
      k.real = kept.map (realAtom mol.frags R) ∧
      (∀ i, realAtom mol.frags R i = true ↔ ∃ j fr, mol.frags[j]? = some fr ∧ i ∈ fr ∧ j ∈ R) := by
  obtain ⟨atoms, fs, cs, ms, h1, _, rfl⟩ := extractOrdered_ok h
  refine ⟨_, rfl, ?_, ?_, ((pick_eq_some _ _ _).1 h1).symm, rfl, realAtom_iff _ hd R⟩
  · exact List.Pairwise.filter _ List.pairwise_lt_range
  · intro i
    simp only [List.mem_filter, List.mem_range, keepAtom_iff _ hd]

/-- **Index remap.** `at2at[iat] = p` means: `iat` is the `p`-th kept atom (so the remapped index
lists of the sub-molecule name the very atoms of the parent fragment), and the remap is strictly
increasing on kept atoms. -/
theorem ordered_remap (n : Nat) (frags : List (List Nat)) (R G : List Nat) :
    (∀ i p, i < n → at2at frags R G i = some p → (keptAtoms n frags R G)[p]? = some i) ∧
    (∀ i j p q, i < j → at2at frags R G i = some p → at2at frags R G j = some q → p < q) := by
  constructor
  · intro i p hi h
    unfold at2at at h
    split at h
    · rename_i hk
      cases h
      exact filter_range_getElem? _ n i hi hk
    · cases h
  · intro i j p q hij hp hq
    unfold at2at at hp hq
    split at hp
    · rename_i hk
      split at hq
      · cases hp; cases hq
        exact countP_range_lt _ hij hk
      · cases hq
    · cases hp

/-! ### what the constructor guarantees -/

theorem rules_of_construct {zOf : α → Int} {k : Ctor α} {m' : Mol α} (h : construct zOf k = .ok m')
    (hlen : k.fc.length = k.frags.length) (hlen' : k.fm.length = k.frags.length) :
    m'.atoms = k.atoms ∧ m'.real = k.real ∧ m'.frags = k.frags ∧ m'.fc = k.fc ∧ m'.fm = k.fm ∧
    m'.c = isum k.fc ∧ (∀ v, k.c = some v → m'.c = v) ∧
    (∀ v, k.m = some v → m'.m = v) ∧ (k.m = none → m'.m = highSpin k.fm) ∧
    k.frags.flatten = List.range k.atoms.length := by
  obtain ⟨hflat, o, ho, rfl⟩ := construct_ok h
  have R := ChgMult.vfc_sound_plain _ o rfl ho
  have l1 : o.fc.length = k.fc.length := by
    have := R.len_fc; simp only [fragZeff, List.length_map] at this; omega
  have l2 : o.fm.length = k.fm.length := by
    have := R.len_fm; simp only [fragZeff, List.length_map] at this; omega
  have e1 : o.fc = k.fc := kept_list k.fc o.fc l1 R.keeps_fc
  have e2 : o.fm = k.fm := kept_list k.fm o.fm l2 R.keeps_fm
  refine ⟨rfl, rfl, rfl, e1, e2, ?_, R.keeps_c, R.keeps_m, ?_, hflat⟩
  · simpa [e1] using R.total_charge
  · intro hm
    have := R.high_spin (Or.inl hm)
    simpa [e2] using this

/-! ### charge / multiplicity bookkeeping -/

/-- **group_fragments=True.** On success the real fragments keep their charge and multiplicity in
the order requested, every ghost fragment is `(0, 1)`, the total charge is the sum over the real
fragments and the total multiplicity their high-spin sum. -/
theorem grouped_chgmult {zOf : α → Int} {mol : Mol α} {R G : List Nat} {m' : Mol α}
    (h : getFragment zOf mol R G true = .ok m') :
    ∃ fcR fmR : List Int, R.map (fun j => mol.fc[j]?) = fcR.map some ∧ R.map (fun j => mol.fm[j]?) = fmR.map some ∧
      m'.fc = fcR ++ G.map (fun _ => 0) ∧ m'.fm = fmR ++ G.map (fun _ => 1) ∧
      m'.c = isum fcR ∧ m'.m = highSpin fmR := by
  obtain ⟨k, hk, _, _, hc⟩ := getFragment_ok h
  simp only [↓reduceIte] at hk
  obtain ⟨rb, gb, atoms, fcR, fmR, h1, h2, _, h4, h5, rfl⟩ := extractGrouped_ok hk
  have hl1 := pick_length h1; have hl2 := pick_length h2
  have hl4 := pick_length h4; have hl5 := pick_length h5
  have := rules_of_construct hc
    (by simp [ranges_map_length _ _ ▸ (List.length_map (f := List.length) (as := ranges 0 _)).symm]; omega)
    (by simp [ranges_map_length _ _ ▸ (List.length_map (f := List.length) (as := ranges 0 _)).symm]; omega)
  obtain ⟨_, _, _, e1, e2, _, ec, em, _, _⟩ := this
  refine ⟨fcR, fmR, (pick_eq_some _ _ _).1 h4, (pick_eq_some _ _ _).1 h5, e1, e2, ec _ rfl, ?_⟩
  rw [em _ rfl]; simp only [highSpin]; omega


/-- what the fragment loop 741-751 returns: one entry per *selected* fragment, in original order -/
theorem fragLoop_spec (mf : List (List Nat)) (fc fm : List Int) (R G : List Nat) :
    ∀ (rest : List (List Nat)) (ifr : Nat) (fs : List (List Nat)) (cs ms : List Int),
    fragLoop mf fc fm R G rest ifr = some (fs, cs, ms) →
    let S := (rest.zipIdx ifr).filter (fun p => R.contains p.2 || G.contains p.2)
    fs.map (fun f => f.map some) = S.map (fun p => p.1.map (at2at mf R G)) ∧
    cs.map some = S.map (fun p => if R.contains p.2 then fc[p.2]? else some 0) ∧
    ms.map some = S.map (fun p => if R.contains p.2 then fm[p.2]? else some 1)
  | [], _, fs, cs, ms, h => by
      simp only [fragLoop, Option.some.injEq, Prod.mk.injEq] at h
      obtain ⟨rfl, rfl, rfl⟩ := h
      simp
  | fr :: rest, ifr, fs, cs, ms, h => by
      unfold fragLoop at h
      cases hr : fragLoop mf fc fm R G rest (ifr + 1) with
      | none => simp [hr] at h
      | some r =>
        obtain ⟨fs', cs', ms'⟩ := r
        have ih := fragLoop_spec mf fc fm R G rest (ifr + 1) fs' cs' ms' hr
        simp only [hr, Option.bind_eq_bind, Option.bind_some] at h
        simp only [List.zipIdx_cons]
        by_cases hR : R.contains ifr = true
        · simp only [hR, ↓reduceIte] at h
          cases h1 : fr.mapM (at2at mf R G) with
          | none => simp [h1] at h
          | some fr' =>
            cases h2 : fc[ifr]? with
            | none => simp [h1, h2] at h
            | some c =>
              cases h3 : fm[ifr]? with
              | none => simp [h1, h2, h3] at h
              | some m =>
                simp only [h1, h2, h3, Option.bind_some, Option.pure_def, Option.some.injEq,
                  Prod.mk.injEq] at h
                obtain ⟨rfl, rfl, rfl⟩ := h
                have e := (mapM_option_eq_some _ _ _).1 h1
                simp only [List.filter_cons, hR, Bool.true_or, ↓reduceIte, List.map_cons, ih.1,
                  ih.2.1, ih.2.2, e, h2, h3, and_self]
        · have hR' : R.contains ifr = false := by simpa using hR
          simp only [hR', Bool.false_eq_true, ↓reduceIte] at h
          by_cases hG : G.contains ifr = true
          · simp only [hG, ↓reduceIte] at h
            cases h1 : fr.mapM (at2at mf R G) with
            | none => simp [h1] at h
            | some fr' =>
              simp only [h1, Option.bind_some, Option.pure_def, Option.some.injEq,
                Prod.mk.injEq] at h
              obtain ⟨rfl, rfl, rfl⟩ := h
              have e := (mapM_option_eq_some _ _ _).1 h1
              simp only [List.filter_cons, hR', hG, Bool.or_true, ↓reduceIte, List.map_cons, ih.1,
                ih.2.1, ih.2.2, e, Bool.false_eq_true, and_self]
          · have hG' : G.contains ifr = false := by simpa using hG
            simp only [hG', Bool.false_eq_true, ↓reduceIte, Option.pure_def, Option.some.injEq,
              Prod.mk.injEq] at h
            obtain ⟨rfl, rfl, rfl⟩ := h
            simp only [List.filter_cons, hR', hG', Bool.or_self, Bool.false_eq_true, ↓reduceIte]
            exact ih

theorem map_some_length {β} {a : List β} {b : List (Option β)} (h : a.map some = b) :
    a.length = b.length := by simpa using congrArg List.length h

/-- **group_fragments=False.** On success there is one fragment per selected parent fragment, in
the parent's order; a fragment selected as real keeps its charge and multiplicity, one selected as
ghost is `(0, 1)`; its index list is the parent's, remapped by `at2at`; the totals (completed by
the constructor, nothing is passed) are the sum of the fragment charges and the high-spin
multiplicity — to which ghost fragments contribute `0` and `1 - 1 = 0`. -/
theorem ordered_chgmult {zOf : α → Int} {mol : Mol α} {R G : List Nat} {m' : Mol α}
    (h : getFragment zOf mol R G false = .ok m') :
    let S := (mol.frags.zipIdx 0).filter (fun p => R.contains p.2 || G.contains p.2)
    m'.frags.map (fun f => f.map some) = S.map (fun p => p.1.map (at2at mol.frags R G)) ∧
    m'.fc.map some = S.map (fun p => if R.contains p.2 then mol.fc[p.2]? else some 0) ∧
    m'.fm.map some = S.map (fun p => if R.contains p.2 then mol.fm[p.2]? else some 1) ∧
    m'.c = isum m'.fc ∧ m'.m = highSpin m'.fm := by
  obtain ⟨k, hk, _, _, hc⟩ := getFragment_ok h
  simp only [Bool.false_eq_true, ↓reduceIte] at hk
  obtain ⟨atoms, fs, cs, ms, _, h2, rfl⟩ := extractOrdered_ok hk
  have sp := fragLoop_spec _ _ _ _ _ _ _ _ _ _ h2
  have l1 := congrArg List.length sp.1; have l2 := map_some_length sp.2.1; have l3 := map_some_length sp.2.2
  simp only [List.length_map] at l1 l2 l3
  obtain ⟨_, _, e0, e1, e2, ec, _, _, em, _⟩ := rules_of_construct hc (by simp only; omega) (by simp only; omega)
  simp only at e0 e1 e2 ec em
  refine ⟨by rw [e0]; exact sp.1, by rw [e1]; exact sp.2.1, by rw [e2]; exact sp.2.2,
    by rw [e1]; exact ec, by rw [e2]; exact em trivial⟩

/-- ghost entries do not contribute to the sum of charges (`0`) … -/
theorem isum_real_only {β} (isReal : β → Bool) (f : β → Int) (S : List β) :
    isum (S.map (fun p => if isReal p then f p else 0)) = isum ((S.filter isReal).map f) :=
  (isum_filter_map isReal f S).symm

/-- **Every returned sub-molecule is well formed**: index lists concatenate to `0 … n'-1` (they
partition the atoms), one charge and one multiplicity per fragment, total charge = sum of the
fragment charges; `real` and `ghost` were disjoint and something was selected. -/
theorem getFragment_ok_wf {zOf : α → Int} {mol : Mol α} {R G : List Nat} {g : Bool} {m' : Mol α}
    (h : getFragment zOf mol R G g = .ok m') :
    m'.frags.flatten = List.range m'.atoms.length ∧ m'.fc.length = m'.frags.length ∧
    m'.fm.length = m'.frags.length ∧ m'.c = isum m'.fc ∧ m'.atoms ≠ [] ∧
    (∀ j, j ∈ R → j ∉ G) := by
  obtain ⟨k, hk, hov, hne, hc⟩ := getFragment_ok h
  have hlen : k.fc.length = k.frags.length ∧ k.fm.length = k.frags.length := by
    cases g with
    | true =>
      simp only [↓reduceIte] at hk
      obtain ⟨rb, gb, atoms, fcR, fmR, h1, h2, _, h4, h5, rfl⟩ := extractGrouped_ok hk
      have hl1 := pick_length h1; have hl2 := pick_length h2
      have hl4 := pick_length h4; have hl5 := pick_length h5
      have hr : (ranges 0 ((rb ++ gb).map List.length)).length = rb.length + gb.length := by
        have := congrArg List.length (ranges_map_length ((rb ++ gb).map List.length) 0)
        simpa using this
      simp only [List.length_append, List.length_map, hr]; omega
    | false =>
      simp only [Bool.false_eq_true, ↓reduceIte] at hk
      obtain ⟨atoms, fs, cs, ms, _, h2, rfl⟩ := extractOrdered_ok hk
      have sp := fragLoop_spec _ _ _ _ _ _ _ _ _ _ h2
      have l1 := congrArg List.length sp.1; have l2 := map_some_length sp.2.1; have l3 := map_some_length sp.2.2
      simp only [List.length_map] at l1 l2 l3
      simp only; omega
  obtain ⟨e0, _, e1, e2, e3, ec, _, _, _, hflat⟩ := rules_of_construct hc hlen.1 hlen.2
  refine ⟨by rw [e1, e0]; exact hflat, by rw [e2, e1]; exact hlen.1, by rw [e3, e1]; exact hlen.2,
    by rw [e2]; exact ec, by rw [e0]; exact hne, ?_⟩
  intro j hj hg
  simp only [List.any_eq_false, List.contains_iff_mem] at hov
  exact hov j hj hg

/-! ### the order-preserving path keeps a contiguous parent contiguous -/

theorem map_countP_filter_range (p : Nat → Bool) : ∀ n : Nat,
    ((List.range n).filter p).map (fun i => (List.range i).countP p) = List.range ((List.range n).countP p)
  | 0 => rfl
  | n + 1 => by
      rw [List.range_succ, List.filter_append, List.map_append, map_countP_filter_range p n,
        List.countP_append]
      by_cases hp : p n = true
      · simp [hp, List.range_succ]
      · simp [hp]

theorem flatten_filter_sel (keep : Nat → Bool) (sel : Nat → Bool) :
    ∀ L : List (List Nat × Nat), (∀ p ∈ L, ∀ i ∈ p.1, keep i = sel p.2) →
    ((L.filter (fun p => sel p.2)).map Prod.fst).flatten = ((L.map Prod.fst).flatten).filter keep
  | [], _ => rfl
  | p :: L, h => by
      have ih := flatten_filter_sel keep sel L (fun q hq => h q (List.mem_cons_of_mem _ hq))
      have hp := h p (List.mem_cons_self ..)
      simp only [List.map_cons, List.flatten_cons, List.filter_append, ← ih]
      by_cases hs : sel p.2 = true
      · have : p.1.filter keep = p.1 := List.filter_eq_self.2 (fun i hi => by rw [hp i hi, hs])
        simp [hs, this]
      · have : p.1.filter keep = [] := List.filter_eq_nil_iff.2 (fun i hi => by rw [hp i hi]; exact hs)
        simp [hs, this]

theorem disjoint_of_nodup_flatten (frags : List (List Nat)) (h : frags.flatten.Nodup) :
    DisjointFrags frags := by
  intro a b fa fb i ha hb hia hib
  by_contra hab
  have hp := (List.nodup_flatten.1 h).2
  rw [List.pairwise_iff_getElem] at hp
  obtain ⟨ha1, ha2⟩ := List.getElem?_eq_some_iff.1 ha
  obtain ⟨hb1, hb2⟩ := List.getElem?_eq_some_iff.1 hb
  rcases Nat.lt_or_gt_of_ne hab with hlt | hlt
  · have := hp a b ha1 hb1 hlt
    rw [ha2, hb2] at this
    exact this hia hib
  · have := hp b a hb1 ha1 hlt
    rw [ha2, hb2] at this
    exact this hib hia

/-- **group_fragments=False on a contiguous parent** (every validated molecule has fragments
`0 … n-1` in order): the remapped index lists of the selected fragments, in original order,
concatenate to exactly `0 … n'-1` — they partition the atoms of the sub-molecule, so the
constructor's contiguity check cannot refuse the record. -/
theorem ordered_fragments_partition {α} {mol : Mol α} {R G : List Nat} {k : Ctor α}
    (h : extractOrdered mol R G = .ok k)
    (hc : mol.frags.flatten = List.range mol.atoms.length) :
    k.frags.flatten = List.range k.atoms.length := by
  obtain ⟨atoms, fs, cs, ms, h1, h2, rfl⟩ := extractOrdered_ok h
  have sp := (fragLoop_spec _ _ _ _ _ _ _ _ _ _ h2).1
  have hd : DisjointFrags mol.frags := disjoint_of_nodup_flatten _ (hc ▸ List.nodup_range)
  have hA := flatten_filter_sel (keepAtom mol.frags R G) (fun j => R.contains j || G.contains j)
    (mol.frags.zipIdx 0) (by
      intro p hp i hi
      obtain ⟨fr, j⟩ := p
      have hj := List.mem_zipIdx' hp
      have hfr : mol.frags[j]? = some fr := by
        rw [List.getElem?_eq_getElem hj.1]; exact congrArg some hj.2.symm
      rw [Bool.eq_iff_iff, keepAtom_iff _ hd]
      simp only [Bool.or_eq_true, List.contains_iff_mem]
      constructor
      · rintro ⟨j', fr', hj', hi', hh⟩
        have : j' = j := hd j' j fr' fr i hj' hfr hi' hi
        subst this; exact hh
      · intro hh; exact ⟨j, fr, hfr, hi, hh⟩)
  rw [List.zipIdx_map_fst, hc] at hA
  have hlen : atoms.length = (List.range mol.atoms.length).countP (keepAtom mol.frags R G) := by
    rw [pick_length h1, keptAtoms, List.countP_eq_length_filter]
  have key : (fs.flatten).map some = (List.range atoms.length).map some := by
    have e1 : (fs.flatten).map some = (fs.map (fun f => f.map some)).flatten := by
      rw [List.map_flatten]
    have e2 : (List.map (fun p : List Nat × Nat => List.map (at2at mol.frags R G) p.1)
          (List.filter (fun p => R.contains p.2 || G.contains p.2) (mol.frags.zipIdx 0))).flatten
        = (((List.filter (fun p => R.contains p.2 || G.contains p.2) (mol.frags.zipIdx 0)).map
            Prod.fst).flatten).map (at2at mol.frags R G) := by
      rw [List.map_flatten, List.map_map]; rfl
    rw [e1, sp, e2, hA, hlen, ← map_countP_filter_range, List.map_map]
    apply List.map_congr_left
    intro i hi
    have hk : keepAtom mol.frags R G i = true := (List.mem_filter.1 hi).2
    simp [at2at, hk]
  exact List.map_injective_iff.2 (fun _ _ e => Option.some.inj e) key
/-! ### electrons -/

/-- **Electron count** = real nuclear charges minus the charge (by definition of the model;
the correspondence run ties the definition to `nelectrons()`). -/
theorem nelectrons_eq (zOf : α → Int) (mol : Mol α) :
    nelectrons zOf mol = isum (List.zipWith (fun a r => zOf a * (if r then 1 else 0)) mol.atoms mol.real) - mol.c := rfl

theorem nelectronsFrag_eq (zOf : α → Int) (mol : Mol α) (k : Nat) :
    nelectronsFrag zOf mol k =
      (List.zipWith (fun fr c => zeffIn (zeffList zOf mol.atoms mol.real) fr - c) mol.frags mol.fc)[k]? := by
  unfold nelectronsFrag
  rw [List.getElem?_zipWith]
  cases mol.frags[k]? <;> cases mol.fc[k]? <;> rfl

theorem sum_zeffIn (zeff : List Int) : ∀ frags : List (List Nat),
    isum (frags.map (zeffIn zeff)) =
      isum (zeff.zipIdx.map (fun p => p.1 * (frags.countP (fun fr => fr.contains p.2) : Nat)))
  | [] => by
      simp only [List.map_nil, List.countP_nil, Nat.cast_zero, Int.mul_zero]
      exact (ChgMult.isum_zeros _).symm
  | fr :: rest => by
      simp only [List.map_cons, ChgMult.isum_cons, sum_zeffIn zeff rest]
      unfold zeffIn
      rw [isum_filter_map, isum_map_add]
      congr 1
      apply List.map_congr_left
      intro p _
      rw [List.countP_cons]
      by_cases hc : fr.contains p.2 = true
      · simp only [hc, ↓reduceIte]; push_cast; ring
      · simp only [hc, Bool.false_eq_true, ↓reduceIte]; push_cast; ring

/-- every atom index below `n` is listed by exactly one fragment -/
def ExactlyOne (n : Nat) (frags : List (List Nat)) : Prop :=
  ∀ i, i < n → frags.countP (fun fr => fr.contains i) = 1

/-- **Electrons add up.** If every atom lies in exactly one fragment, there is one charge per
fragment and the total charge is the sum of the fragment charges, then the fragment electron
counts `nelectrons(ifr)` sum to `nelectrons()`. -/
theorem electrons_additive (zOf : α → Int) (mol : Mol α)
    (hone : ExactlyOne (zeffList zOf mol.atoms mol.real).length mol.frags)
    (hlen : mol.fc.length = mol.frags.length) (hc : mol.c = isum mol.fc) :
    (∀ k, nelectronsFrag zOf mol k =
      (List.zipWith (fun fr c => zeffIn (zeffList zOf mol.atoms mol.real) fr - c) mol.frags mol.fc)[k]?) ∧
    isum (List.zipWith (fun fr c => zeffIn (zeffList zOf mol.atoms mol.real) fr - c) mol.frags mol.fc)
      = nelectrons zOf mol := by
  refine ⟨nelectronsFrag_eq zOf mol, ?_⟩
  have hz : List.zipWith (fun fr c => zeffIn (zeffList zOf mol.atoms mol.real) fr - c) mol.frags mol.fc
      = List.zipWith (· - ·) (mol.frags.map (zeffIn (zeffList zOf mol.atoms mol.real))) mol.fc := by
    rw [List.zipWith_map_left]
  rw [hz, isum_zipWith_sub _ _ (by simp [hlen]), sum_zeffIn, nelectrons, hc]
  congr 1
  have : (zeffList zOf mol.atoms mol.real).zipIdx.map
        (fun p => p.1 * ((mol.frags.countP (fun fr => fr.contains p.2) : Nat) : Int))
      = (zeffList zOf mol.atoms mol.real).zipIdx.map Prod.fst := by
    apply List.map_congr_left
    intro p hp
    obtain ⟨x, i⟩ := p
    have hi := (List.mem_zipIdx' hp).1
    show x * ((mol.frags.countP (fun fr => fr.contains i) : Nat) : Int) = x
    rw [hone i hi]; simp
  rw [this, List.zipIdx_map_fst]

theorem sum_count_eq_countP (i : Nat) : ∀ frags : List (List Nat), (∀ fr ∈ frags, fr.Nodup) →
    (frags.map (List.count i)).sum = frags.countP (fun fr => fr.contains i)
  | [], _ => rfl
  | fr :: rest, h => by
      have ih := sum_count_eq_countP i rest (fun f hf => h f (List.mem_cons_of_mem _ hf))
      have hn := h fr (List.mem_cons_self ..)
      rw [List.map_cons, List.sum_cons, ih, List.countP_cons]
      by_cases hm : i ∈ fr
      · rw [List.count_eq_one_of_mem hn hm]; simp [hm]; omega
      · rw [List.count_eq_zero_of_not_mem hm]; simp [hm]

/-- index lists that concatenate to `0 … n-1` list every atom exactly once -/
theorem exactlyOne_of_flatten (n : Nat) (frags : List (List Nat))
    (h : frags.flatten = List.range n) : ExactlyOne n frags := by
  intro i hi
  have hnd : frags.flatten.Nodup := h ▸ List.nodup_range
  have hfr : ∀ fr ∈ frags, fr.Nodup := (List.nodup_flatten.1 hnd).1
  have hc : frags.flatten.count i = 1 :=
    List.count_eq_one_of_mem hnd (h ▸ List.mem_range.2 hi)
  rw [List.count_flatten, sum_count_eq_countP i frags hfr] at hc
  exact hc

/-- **Electrons add up on every returned sub-molecule**: the fragment electron counts of a
`get_fragment` result sum to its total electron count, which is the nuclear charge of the atoms
flagged real minus the sum of the fragment charges. -/
theorem child_electrons {zOf : α → Int} {mol : Mol α} {R G : List Nat} {g : Bool} {m' : Mol α}
    (h : getFragment zOf mol R G g = .ok m') :
    isum (List.zipWith (fun fr c => zeffIn (zeffList zOf m'.atoms m'.real) fr - c) m'.frags m'.fc)
      = nelectrons zOf m' ∧
    nelectrons zOf m' = isum (zeffList zOf m'.atoms m'.real) - isum m'.fc := by
  obtain ⟨hflat, hl, _, hc, _, _⟩ := getFragment_ok_wf h
  have hone : ExactlyOne (zeffList zOf m'.atoms m'.real).length m'.frags := by
    intro i hi
    apply exactlyOne_of_flatten _ _ hflat i
    have : (zeffList zOf m'.atoms m'.real).length ≤ m'.atoms.length := by
      simp only [zeffList, List.length_zipWith]; omega
    omega
  exact ⟨(electrons_additive zOf m' hone hl hc).2, by rw [nelectrons, hc]⟩

/-- non-vacuity (test): HeH⁺ + ghost H, two fragments -/
example : ExactlyOne 3 [[0, 1], [2]] := by
  intro i hi
  have : i = 0 ∨ i = 1 ∨ i = 2 := by omega
  rcases this with rfl | rfl | rfl <;> decide

end QcelVerif.Fragments

namespace QcelVerif.Fragments
/-! ### non-vacuity: concrete runs of the model (tests, evaluated) -/
-- parent: He H | Li H(ghost fragment); atoms carry (id, Z)
private def demo : Mol (Nat × Int) :=
  { atoms := [(0, 2), (1, 1), (2, 3), (3, 1)], real := [true, true, false, false],
    frags := [[0, 1], [2, 3]], fc := [0, 0], fm := [2, 1], c := 0, m := 2 }
#guard (getFragment (·.2) demo [1] [0] true).toOption.map (fun m => (m.atoms.map (·.1), m.real, m.frags, m.fc, m.fm, m.c, m.m))
  == some ([2, 3, 0, 1], [true, true, false, false], [[0, 1], [2, 3]], [0, 0], [1, 1], 0, 1)
#guard (getFragment (·.2) demo [1] [0] false).toOption.map (fun m => (m.atoms.map (·.1), m.real, m.frags, m.fc, m.fm, m.c, m.m))
  == some ([0, 1, 2, 3], [false, false, true, true], [[0, 1], [2, 3]], [0, 0], [1, 1], 0, 1)
#guard (getFragment (·.2) demo [0] [0] true).toOption.isNone
#guard (getFragment (·.2) demo [] [] false).toOption.isNone
end QcelVerif.Fragments
