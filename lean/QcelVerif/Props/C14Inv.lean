import QcelVerif.Props.C14
import QcelVerif.Lemmas.MunkresInv2
/-!
# C14 — the Munkres model itself returns a certified optimum (no certificate hypothesis)

`Props/C14.lean` proves that a *certified* answer is optimal and leaves open whether the solver
model always produces a certifiable answer.  This file closes that gap up to termination:

* `Inv` (`InvAt`, `Lemmas/MunkresInv2/Basic.lean`) — the step invariants of Munkres: `C ≥ 0`,
  `C = cost − u − v` with the potentials of never-starred columns maximal, stars are independent
  zeros, primes are zeros, the cover/prime discipline of the step-4 loop, and the priming order
  that makes the alternating path of step 5 acyclic;
* `step1_establishes`, `step3_preserves`, `step4_preserves`, `step5_preserves`, `step6_preserves`
  — one theorem per step; `runSteps_preserves` — any number of steps, any fuel;
* `step3_done_cert` — when step 3 reports "done" the read-out passes `certOK`;
* `solve_certified`, `solve_optimal` — every answer of `solve` on a well-shaped input is a complete
  assignment, rows increasing, of minimum total cost over ALL complete assignments, with a
  non-negative reduced matrix that vanishes on the pairs and equals `cost − u − v`; tall inputs
  (run on the transpose) included.

In this file termination is a hypothesis: `solve inp = .ok o` says the run finished within the
model's fuel (`stepFuel`, `Err.fuel` otherwise); `solve_total_partial` only classifies the errors.
Termination itself is proved in `Props/C14Term.lean` (`solve_total`, `solve_correct`).

PROPERTY-THEOREMS (audited):
  step1_establishes step3_preserves step4_preserves step5_preserves step6_preserves
  runSteps_preserves step3_done_cert solve_certified solve_optimal solveChecked_eq_solve
-/
namespace QcelVerif.Munkres
open QcelVerif.Assign

/-! ### the invariant, one theorem per step -/

/-- The invariant before step `st` (see `Inv1`, `Inv3`, `Loop`, `Inv5` for the clauses). -/
abbrev Inv (n m : Nat) (cost : Nat → Nat → Rat) (st : Step) (s : State) : Prop := InvAt n m cost st s

/-- **Step 1** (subtract row minima, star zeros greedily) establishes the invariant of step 3:
`C ≥ 0`, `C = cost − rowmin`, stars independent and on zeros, no primes, nothing covered. -/
theorem step1_establishes {n m : Nat} {cost : Nat → Nat → Rat} {s : State} (h : Inv n m cost .s1 s) :
    (step1 s).2 = some .s3 ∧ Inv n m cost .s3 (step1 s).1 :=
  ⟨step1_next s, step1_inv h⟩

/-- **Step 3** (cover the starred columns) hands the loop invariant to step 4, or reports "done"
in a state where every row has a star. -/
theorem step3_preserves {n m : Nat} {cost : Nat → Nat → Rat} {s : State} (h : Inv n m cost .s3 s) :
    ((step3 s).2 = some .s4 ∧ Inv n m cost .s4 (step3 s).1)
    ∨ ((step3 s).2 = none ∧ Final n m cost (step3 s).1) := by
  rcases step3_next s with h4 | hd
  · exact Or.inl ⟨h4, step3_inv h⟩
  · refine Or.inr ⟨hd, (step3_inv h).base, fun i hi => ?_⟩
    obtain ⟨j, hj⟩ := step3_done h hd i hi
    exact ⟨j, by rw [(step3_state s).1]; exact hj⟩

/-- **Step 4** (prime uncovered zeros, cover rows / uncover columns) preserves the loop invariant and
hands over to step 6, or hands step 5 a prime `Z0` in a star-free row with an acyclic priming order. -/
theorem step4_preserves {n m : Nat} {cost : Nat → Nat → Rat} {s s' : State} {nx : Option Step}
    (hrun : step4 s = .ok (s', nx)) (h : Inv n m cost .s4 s) :
    (nx = some .s6 ∧ Inv n m cost .s6 s') ∨ (nx = some .s5 ∧ Inv n m cost .s5 s') :=
  step4_inv hrun h

/-- **Step 5** (flip the alternating path, erase primes, clear covers) re-establishes the invariant
of step 3: the stars are again independent zeros, and every column that had a star keeps one. -/
theorem step5_preserves {n m : Nat} {cost : Nat → Nat → Rat} {s s' : State} {nx : Option Step}
    (hrun : step5 s = .ok (s', nx)) (h : Inv n m cost .s5 s) : nx = some .s3 ∧ Inv n m cost .s3 s' :=
  step5_inv hrun h

/-- **Step 6** (`+ minval` on covered rows, `− minval` on uncovered columns) preserves the loop
invariant: `C` stays non-negative, stars and primes stay zeros, never-starred columns keep the
maximal potential. -/
theorem step6_preserves {n m : Nat} {cost : Nat → Nat → Rat} {s : State} (h : Inv n m cost .s6 s) :
    (step6 s).2 = some .s4 ∧ Inv n m cost .s4 (step6 s).1 :=
  ⟨step6_next s, step6_inv h⟩

/-- **Any number of steps, any fuel**: a run of the state machine that finishes ends in a state with
`C ≥ 0`, `C = cost − u − v`, independent stars on zeros, one in every row. -/
theorem runSteps_preserves {n m : Nat} {cost : Nat → Nat → Rat} (f : Nat) (st : Step) (s : State)
    (tr : Array (Step × State)) (s' : State) (tr' : Array (Step × State))
    (hrun : runSteps f st s tr = .ok (s', tr')) (h : Inv n m cost st s) : Final n m cost s' :=
  runSteps_final f st s tr s' tr' hrun h

/-! ### read-out -/

theorem wideOK_nil (k : Nat) (c red : Nat → Nat → Rat) : wideOK 0 k c red [] = true := by
  simp [wideOK, isAssign, allIdx, nodupB]

theorem starPairs_of_unmarked (M : Mat Nat) (h : ∀ i j, get2 M i j = 0) : starPairs M = [] := by
  apply List.eq_nil_iff_forall_not_mem.2
  intro p hp
  have := (starPairs_mem M p).1 hp
  rw [h] at this
  exact absurd this (by decide)

/-- **When step 3 reports "done", the read-out is a certificate** (wide orientation, `0 < n ≤ m`). -/
theorem step3_done_cert {n m : Nat} (hn : 0 < n) (hnm : n ≤ m) {cost : Nat → Nat → Rat} {s : State}
    (h : Inv n m cost .s3 s) (hd : (step3 s).2 = none) :
    certOK n m cost (matFn (step3 s).1.C) (starPairs (step3 s).1.marked) = true := by
  rcases step3_preserves h with ⟨h4, _⟩ | ⟨_, hf⟩
  · rw [hd] at h4; exact absurd h4 (by simp)
  · obtain ⟨h1, h2⟩ := final_wideOK hn hnm hf (matFn (step3 s).1.C) (fun _ _ _ _ => rfl)
    unfold certOK
    rw [h2, if_pos hnm, h1]
    rfl

theorem swap_swap (p : Nat × Nat) : swap (swap p) = p := rfl

theorem get2_transpose_zero (k : Nat) (M : Mat Nat) (i j : Nat) : get2 (transpose 0 k M) i j = 0 := by
  unfold transpose get2
  by_cases hi : i < k
  · simp [Array.getD_eq_getD_getElem?, hi]
  · simp [Array.getD_eq_getD_getElem?, hi]

/-- **Every answer of the solver model is certified** — no certificate hypothesis: whenever `solve`
answers a well-shaped input (any shape, tall ones through the transpose, empty ones included), the
answer passes the proved checker `certOK`. -/
theorem solve_certified (inp : Input) (o : Output) (hw : inp.WellShaped) (h : solve inp = .ok o) :
    certOK inp.n inp.m inp.costFn (matFn o.red) o.pairs = true := by
  unfold solve at h
  split at h
  · simp at h
  split at h
  · simp at h
  split at h
  · simp at h
  simp only at h
  have hsz : (inp.ent.map fun r => r.map Entry.val).size = inp.n := by simpa using hw.1
  have hrow : ∀ i, i < inp.n → ((inp.ent.map fun r => r.map Entry.val).getD i #[]).size = inp.m := by
    intro i hi
    have := hw.2 i hi
    have hi' : i < inp.ent.size := by rw [hw.1]; exact hi
    simp [Array.getD, hi'] at this ⊢
    exact this
  split at h
  · -- tall: Munkres ran on the transpose
    rename_i hlt
    have hnm : ¬ inp.n ≤ inp.m := Nat.not_le.2 hlt
    split at h
    · simp at h
    · rename_i s trc hs
      simp only [Except.ok.injEq] at h
      subst h
      simp only
      unfold certOK
      rw [if_neg hnm]
      by_cases hm0 : inp.m = 0
      · have hz := solveWide_empty _ _ _ (Or.inl hm0) s trc hs
        have : starPairs (transpose inp.m inp.n s.marked) = [] := by
          apply starPairs_of_unmarked
          intro i j
          rw [hm0]
          exact get2_transpose_zero _ _ _ _
        rw [this, hm0]
        simp only [List.map_nil]
        rw [wideOK_nil]
        rfl
      · have hm : 0 < inp.m := Nat.pos_of_ne_zero hm0
        have hf : Final inp.m inp.n (Assign.tr inp.costFn) s :=
          solveWide_final inp.m inp.n _ (Assign.tr inp.costFn) (transpose_size _ _ _)
            (fun j hj => transpose_row_size _ _ _ j hj)
            (fun i hi j hj => by
              rw [get2_transpose inp.n inp.m _ j i hj hi, get2_cost]; rfl)
            hm (Nat.lt_trans hm hlt) s trc hs
        have hsh := hf.base.shape
        have hiff : ∀ i j, get2 (transpose inp.m inp.n s.marked) j i = 1 ↔ get2 s.marked i j = 1 :=
          fun i j => get2_transpose_nat_iff inp.m inp.n s.marked i j hsh.Msz hsh.Mrow
        have h2 : incB ((starPairs (transpose inp.m inp.n s.marked)).map Prod.fst) = true := by
          apply starPairs_incB
          intro i j j' h1 h2
          exact hf.base.starCol j j' i ((hiff j i).1 h1) ((hiff j' i).1 h2)
        have h1 : wideOK inp.m inp.n (Assign.tr inp.costFn) (Assign.tr (matFn (transpose inp.m inp.n s.C)))
            ((starPairs (transpose inp.m inp.n s.marked)).map swap) = true := by
          refine wideOK_of_stars' hm (Nat.le_of_lt hlt) hf.base hf.full _ ?_ _ ?_ ?_
          · intro i hi j hj
            exact get2_transpose inp.m inp.n s.C i j hi hj
          · intro p
            rw [List.mem_map]
            constructor
            · rintro ⟨q, hq, rfl⟩
              exact (hiff q.2 q.1).1 ((starPairs_mem _ q).1 hq)
            · intro hp
              exact ⟨swap p, (starPairs_mem _ (swap p)).2 ((hiff p.1 p.2).2 hp), rfl⟩
          · exact (starPairs_nodup _).map (fun a b hab => by
              have := congrArg swap hab
              simpa [swap_swap] using this)
        rw [h2, h1]
        rfl
  · rename_i hge
    have hnm : inp.n ≤ inp.m := Nat.le_of_not_lt hge
    split at h
    · simp at h
    · rename_i s trc hs
      simp only [Except.ok.injEq] at h
      subst h
      simp only
      unfold certOK
      rw [if_pos hnm]
      by_cases hn0 : inp.n = 0
      · have hz := solveWide_empty _ _ _ (Or.inl hn0) s trc hs
        rw [starPairs_of_unmarked _ hz, hn0]
        simp only [List.map_nil]
        rw [wideOK_nil]
        rfl
      · have hn : 0 < inp.n := Nat.pos_of_ne_zero hn0
        have hf : Final inp.n inp.m inp.costFn s :=
          solveWide_final inp.n inp.m _ inp.costFn hsz hrow (fun i _ j _ => get2_cost inp i j)
            hn (Nat.lt_of_lt_of_le hn hnm) s trc hs
        obtain ⟨h1, h2⟩ := final_wideOK hn hnm hf (matFn s.C) (fun _ _ _ _ => rfl)
        rw [h2, h1]
        rfl

/-- **The solver model returns a minimum-cost complete assignment and a valid reduced matrix.**
For every well-shaped input that `solve` answers (the run finished within the model's fuel) —
square, wide, tall, or empty — the returned pairs are a complete assignment with strictly
increasing rows, their total cost is the minimum over ALL complete assignments, every optimal
complete assignment lies on the zeros of the returned reduced matrix, and the reduced matrix is
non-negative, zero on the returned pairs, and equal to the cost minus a constant per row and a
constant per column.  No certificate hypothesis. -/
theorem solve_optimal (inp : Input) (o : Output) (hw : inp.WellShaped) (h : solve inp = .ok o) :
    IsAssign inp.n inp.m o.pairs
    ∧ (o.pairs.map Prod.fst).Pairwise (· < ·)
    ∧ (∀ τ, IsAssign inp.n inp.m τ → total inp.costFn o.pairs ≤ total inp.costFn τ)
    ∧ (∀ τ, IsAssign inp.n inp.m τ → total inp.costFn τ ≤ total inp.costFn o.pairs →
        ∀ p ∈ τ, matFn o.red p.1 p.2 = 0)
    ∧ (∀ i < inp.n, ∀ j < inp.m, 0 ≤ matFn o.red i j)
    ∧ (∀ p ∈ o.pairs, matFn o.red p.1 p.2 = 0)
    ∧ ∃ u v : Nat → Rat, ∀ i < inp.n, ∀ j < inp.m, matFn o.red i j = inp.costFn i j - u i - v j := by
  have hc := solve_certified inp o hw h
  have hs := certOK_shape hc
  exact ⟨hs.1, hs.2.1, fun τ hτ => cert_optimal hc hτ, fun τ hτ hopt => optimal_on_zeros hc hτ hopt,
    hs.2.2.1, hs.2.2.2.1, hs.2.2.2.2⟩

/-- The certifying wrapper never rejects a Munkres answer: on well-shaped inputs `solveChecked`
answers exactly when `solve` does, with the same answer. -/
theorem solveChecked_eq_solve (inp : Input) (o : Output) (hw : inp.WellShaped) :
    solveChecked inp = .ok o ↔ solve inp = .ok o := by
  unfold solveChecked
  constructor
  · intro h
    split at h
    · simp at h
    · rename_i o' ho'
      split at h
      · simp only [Except.ok.injEq] at h
        rw [ho', h]
      · simp at h
  · intro h
    rw [h]
    simp only
    rw [if_pos (solve_certified inp o hw h)]

/-- **Totality (PARTIAL).**  A valid input (2-d, numeric dtype, all entries finite) is either
answered — and then `solve_optimal` applies — or the model ran out of fuel / overran `path`.

-- FULL: `∃ o, solve inp = .ok o`, i.e. the errors `fuel` and `index` never occur: termination of
-- Munkres within `stepFuel n m` steps, of the step-4 `while` within `n + 1` passes, of the step-5
-- path within `n + m + 1` links (each step-4 pass covers a new row; each augmentation adds a
-- star; each step 6 creates an uncovered zero) and `count < n + m`.  Not proved in this file;
-- the FULL statement (for well-shaped inputs) is `solve_total` in `Props/C14Term.lean`. -/
theorem solve_total_partial (inp : Input) (h2 : inp.ndim = 2) (hdt : inp.dt ≠ .other)
    (hfin : inp.allFinite = true) :
    (∃ o, solve inp = .ok o) ∨ solve inp = .error .fuel ∨ solve inp = .error .index := by
  unfold solve
  rw [if_neg (by simp [h2]), if_neg hdt, if_neg (by simp [hfin])]
  simp only
  split
  · split
    · rename_i e he
      rcases solveWide_err _ _ _ _ he with rfl | rfl
      · exact Or.inr (Or.inl rfl)
      · exact Or.inr (Or.inr rfl)
    · exact Or.inl ⟨_, rfl⟩
  · split
    · rename_i e he
      rcases solveWide_err _ _ _ _ he with rfl | rfl
      · exact Or.inr (Or.inl rfl)
      · exact Or.inr (Or.inr rfl)
    · exact Or.inl ⟨_, rfl⟩

/-! #### non-vacuity (tests, by kernel evaluation) -/

/-- the cost matrix of the docstring example as the solver stores it -/
def exCostM : Mat Rat := exInput.ent.map fun r => r.map Entry.val

/-- the hypothesis of `step1_establishes` (and so, step by step, of every `…_preserves` theorem and
of `runSteps_preserves`) is satisfied by the freshly built state of the docstring example -/
example : Inv 3 3 exInput.costFn .s1 (initState 3 3 exCostM) :=
  initState_inv1 3 3 exCostM exInput.costFn (by decide +kernel) (by decide +kernel) (fun i _ j _ => get2_cost exInput i j)

/-- TEST: the hypotheses of `solve_certified` / `solve_optimal` are satisfiable by an input whose run
goes through every step (1, 3, 4, 5, 6): the docstring example is well shaped (`C14.lean`) and
answered after 9 steps with `col_ind = [1,0,2]` -/
example : (match solve exInput with
    | .ok o => o.pairs == [(0, 1), (1, 0), (2, 2)] && o.trace.size == 9
        && o.trace.any (·.1 == .s5) && o.trace.any (·.1 == .s6) && o.trace.any (·.1 == .s4)
    | .error _ => false) = true := by decide +kernel

/-- TEST: … and by a tall input (answered through the transposed run) -/
example : (match solve exTall with
    | .ok o => o.pairs == [(0, 0), (2, 2), (3, 1)] && o.trace.any (·.1 == .s5)
    | .error _ => false) = true := by decide +kernel

/-- TEST: … and by an input with an empty axis (nothing runs, nothing is assigned) -/
example : (match solve { ndim := 2, n := 0, m := 3, dt := .float, ent := #[] } with
    | .ok o => o.pairs == [] && o.trace.size == 0
    | .error _ => false) = true := by decide +kernel

/-- TEST: the hypotheses of `step3_done_cert` are met on the way: after step 1 the 2 × 2 identity-like
matrix `[[0,1],[1,0]]` has a star in every row and step 3 reports "done" -/
example : (step3 (step1 (initState 2 2 #[#[0, 1], #[1, 0]])).1).2 = none := by decide +kernel

end QcelVerif.Munkres
