import QcelVerif.Props.C08
import QcelVerif.Driver.C08
import QcelVerif.Model.ToStringSrc
import QcelVerif.Gen.ToStringSpec
import QcelVerif.Gen.SrcConsts
/-!
# C08 — the templates of `Model/ToString.lean` are those of `to_string.py`

`Gen/ToStringSpec.lean` is rewritten on every run by `harness/c08_spec.py`, which re-reads
`qcelemental/molparse/to_string.py` by `ast`: per branch of the dtype chain the `umap` dictionary and how it is read,
the list `smol` as a line program (literals, holes, conditions, atom block, fragment loop, dummy card, SDF layouts),
`data.fields`, `data.keywords`; the factor-selection chain; `_atoms_formatter`'s format specs.
`Model/ToStringSrc.lean` interprets those tables (`renderBy`).

What `Props/ConstTieC08.lean` already ties (dtype set against `default_units`, default units, atom/ghost format
literals and override policy, width/prec defaults) is not repeated here; this file covers what it leaves out and
ends with the model's `render` EQUAL to the table-driven `renderBy` at the generated tables, for all inputs.

PROPERTY-THEOREMS: dtype_set_eq umap_eq unit_word_eq select_factor_eq fields_eq keywords_eq layout_eq frag_eq sdf_layout_eq
  render_eq_source chgmult_slots_eq coord_format_spec_eq atomLine_follows_specs spelling_source raw_request_sound molecule_route_eq announced_unit_is_used_source
  unit_error_rows_source
-/
namespace QcelVerif.ToString
open QcelVerif
open QcelVerif.FixedFmt (Str)
open QcelVerif.ToString.Src

/-- the branch of the source's chain for a dtype of the model -/
def srcBranch (d : Dtype) : Option Branch := branchOf Gen.branches d

/-- **dtype set**: the branches of the source's `if dtype in […] / elif dtype == …` chain, in source order, are the
model's fourteen dtypes, each exactly once (so every dtype has a branch and no branch is unknown to the model); the
names are read alike by the driver's `parseDtype?` -/
theorem dtype_set_eq :
    Gen.branches.map (fun b => dtypeOfName b.name) =
      [some .xyz, some .xyzp, some .orca, some .cfour, some .molpro, some .nwchem, some .madness, some .gamess,
       some .terachem, some .psi4, some .turbomole, some .sdf, some .qchem, some .mrchem] ∧
    Gen.branches.map (fun b => parseDtype? b.name) = Gen.branches.map (fun b => dtypeOfName b.name) ∧
    (∀ d : Dtype, (srcBranch d).isSome = true) := by
  refine ⟨by decide, by decide, ?_⟩
  intro d; cases d <;> decide

/-- the branch as a total function (by `dtype_set_eq` the default is never taken) -/
def srcBranch! (d : Dtype) : Branch := (srcBranch d).getD ⟨"", [], .none, false, [], [], []⟩

/-! ## unit words -/

/-- **unit announcement texts**: the model's `umap` is the source's per-branch dictionary -/
theorem umap_eq (d : Dtype) (t : TUnit) : umap d t = umapGet (srcBranch! d) t := by
  cases d <;> cases t <;> decide

/-- **how the unit word is obtained** (`umap.get(u, u)` / `umap.get(u)` / `umap[u]` → KeyError / SDF's fixed-unit
guard → ValueError / no slot): the model's `unitWord` is the table-driven one -/
theorem unit_word_eq (d : Dtype) (t : TUnit) : unitWord d t = unitWordBy (srcBranch! d) t := by
  cases d <;> cases t <;> decide

/-- **factor selection**: the model's `selectFactor` is the source's if/elif chain on
`(molrec["units"], units.capitalize())` with its five right-hand sides -/
theorem select_factor_eq (s : SUnit) (t : TUnit) (p : Bool) :
    selectFactor s t p = selectFactorBy Gen.factorRows Gen.factorElse s t p := by
  cases s <;> cases t <;> cases p <;> decide

/-! ## fields and keywords -/

/-- **`data.fields`**: base list of `class Data` plus the branch's `extend([...])` -/
theorem fields_eq (d : Dtype) : fieldsOf d = (Gen.baseFields ++ (srcBranch! d).fieldsExt).map lit := by
  cases d <;> decide

/-- position of a dtype's branch in the source's chain (proof device: `srcBranch!_eq`) -/
def chainPos : Dtype → Nat
  | .xyz => 0 | .xyzp => 1 | .orca => 2 | .cfour => 3 | .molpro => 4 | .nwchem => 5 | .madness => 6 | .gamess => 7
  | .terachem => 8 | .psi4 => 9 | .turbomole => 10 | .sdf => 11 | .qchem => 12 | .mrchem => 13

theorem srcBranch!_eq (d : Dtype) : srcBranch! d = Gen.branches[chainPos d]! := by cases d <;> decide

/-- **`data.keywords`**, every program, every molecule: key names, the conditions they are written under
(`multiplicity != 1`, `fix_symmetry == "c1"`), constant values (`"cartesian"`, `"prinaxis"`, `"false"`, `True`/`False`)
and which molecule datum fills each (charge, multiplicity, multiplicity − 1, unit word, fix_com, …) are the source's -/
theorem keywords_eq (d : Dtype) (m : Mol) (uw : UnitWord) (n : Nat) (atoms : List Str) :
    keywordsOf d m uw atoms = kwsBy ⟨m, uw, n, Gen.tagline, 0, 0⟩ atoms (srcBranch! d).kws := by
  rw [srcBranch!_eq]
  cases d
  case nwchem => by_cases h : m.mult = 1 <;> simp [chainPos, Gen.branches, keywordsOf, kwsBy, Cond.eval, KwExpr.eval, h]
  case madness => by_cases h : m.mult = 1 <;> simp [chainPos, Gen.branches, keywordsOf, kwsBy, Cond.eval, KwExpr.eval, h]
  case qchem => by_cases h : m.fixSymm = some (lit "c1") <;> simp [chainPos, Gen.branches, keywordsOf, kwsBy, Cond.eval, KwExpr.eval, h]
  all_goals rfl

/-- non-vacuity (test): an nwchem triplet gets the three multiplicity keywords of the source -/
example : (kwsBy ⟨⟨[], none, -1, 3, [], [-1], [3], false, false, none, []⟩, .word (lit "bohr"), 0, Gen.tagline, 0, 0⟩ [] (srcBranch! .nwchem).kws).map (·.1)
    = [lit "charge", lit "scf__nopen", lit "dft__mult", lit "mcscf__multiplicity"] := by decide

/-! ## the text: header, atom block, fragment loop, footer -/

/-- what a branch puts between header and footer, given the formatter's lines and the fragment loop's output -/
def bodyPure (d : Dtype) (atoms frag : List Str) : List Str :=
  match d with
  | .psi4 | .qchem => frag
  | .turbomole => atoms.map lower
  | _ => atoms

set_option maxRecDepth 2000 in
/-- **header / footer / separator literals and the charge–multiplicity text slots**, every program, every molecule:
the model's `header ++ body ++ footer` is the source's line program (literal lines such as `$molecule`, `*xyz c m`,
`geometry units w`, `{orient,noorient}`, `set,charge=`, `set,spin=`, `$coord`, `$end`, `no_com`, the SDF counts and
bond layouts, the conditions they are written under, `.rstrip()`, the molpro dummy card) -/
theorem layout_eq (d : Dtype) (m : Mol) (uw : UnitWord) (atoms frag : List Str) :
    header d m uw atoms.length ++ bodyPure d atoms frag ++ footer d m uw =
      linesBy ⟨m, uw, atoms.length, Gen.tagline, 0, 0⟩ atoms frag Gen.sdf (srcBranch! d).items := by
  rw [srcBranch!_eq]
  cases d
  case turbomole => rfl
  case nwchem =>
    cases hfs : m.fixSymm with
    | none => simp [header, footer, bodyPure, linesBy, Item.eval, segsText, Seg.eval, Hole.eval, Cond.eval, chainPos, Gen.branches, lit, hfs]
    | some s =>
      by_cases hs : s = [] <;>
        simp [header, footer, bodyPure, linesBy, Item.eval, segsText, Seg.eval, Hole.eval, Cond.eval, chainPos, Gen.branches, lit, hfs, hs]
  case gamess =>
    by_cases h : upper (strip (m.fixSymm.getD (lit "C1"))) = lit "C1" <;>
      simp [header, footer, bodyPure, linesBy, Item.eval, segsText, Seg.eval, Hole.eval, Cond.eval, chainPos, Gen.branches, tagline, Gen.tagline, h] <;>
      simp [lit]
  case sdf =>
    have hb : sdfBondLine = sdfBondLineBy Gen.sdf := by
      funext b; simp [sdfBondLine, sdfBondLineBy, Gen.sdf, lit]
    simp [header, footer, bodyPure, linesBy, Item.eval, segsText, Seg.eval, Cond.eval, chainPos, Gen.branches, lit, Gen.sdf, hb]
  case molpro =>
    have hg : (m.atoms.any fun a => !a.real) = !(ghostIndices 0 m.atoms).isEmpty := by
      rw [ghostIndices_isEmpty]
      generalize m.atoms = l
      induction l with
      | nil => rfl
      | cons a t ih => cases hr : a.real <;> simp [hr, ih]
    cases hfs : m.fixSymm with
    | none =>
      by_cases hc : (m.fixOrient || m.fixCom) = true <;> by_cases hgi : (ghostIndices 0 m.atoms).isEmpty = true <;>
        simp [header, footer, bodyPure, linesBy, Item.eval, segsText, Seg.eval, Hole.eval, Cond.eval, chainPos, Gen.branches, lit, hfs, hc, hg, hgi]
    | some s =>
      by_cases hs : s = lit "c1" <;> by_cases hc : (m.fixOrient || m.fixCom) = true <;>
        by_cases hgi : (ghostIndices 0 m.atoms).isEmpty = true <;>
        simp [header, footer, bodyPure, linesBy, Item.eval, segsText, Seg.eval, Hole.eval, Cond.eval, chainPos, Gen.branches, hfs, hc, hg, hgi, hs] <;>
        simp [lit]
  all_goals
    simp [header, footer, bodyPure, linesBy, Item.eval, segsText, Seg.eval, Hole.eval, Cond.eval, chainPos, Gen.branches, lit,
      chgMultLine, tagline, Gen.tagline, boolStr]

/-- the fragment loop with the source's two literals is the model's -/
theorem fragLoopBy_eq (multi : Bool) : ∀ (bs : List (List Str)) (fc fm : List Int),
    fragLoopBy (lit "--") chgMultLine multi bs fc fm = fragLoop multi bs fc fm := by
  intro bs
  induction bs with
  | nil => intro fc fm; rfl
  | cons b bs ih =>
    intro fc fm
    unfold fragLoopBy fragLoop
    cases multi with
    | true =>
      simp only [if_true]
      cases fc with
      | nil => rfl
      | cons c fc' =>
        cases fm with
        | nil => rfl
        | cons mm fm' => simp only [ih]; cases fragLoop true bs fc' fm' <;> rfl
    | false => simp only [Bool.false_eq_true, if_false, ih]; cases fragLoop false bs fc.tail fm.tail <;> rfl

/-- **fragment separators and per-fragment charge/multiplicity lines** (psi4, qchem): the separator literal `--`, the
`"{charge} {multiplicity}"` header of every block and the `np.split` loop are the source's; every other program has no
fragment loop -/
theorem frag_eq (d : Dtype) (m : Mol) (n : Nat) (atoms : List Str) :
    bodyOf d atoms m = (fragOf ⟨m, .silent, n, Gen.tagline, 0, 0⟩ atoms (srcBranch! d).items).map (bodyPure d atoms) := by
  have hh : (fun (c mm : Int) => segsText { m := m, uw := UnitWord.silent, n := n, tag := Gen.tagline, fc := c, fm := mm }
      [.hole .fragChg, .lit " ", .hole .fragMult]) = chgMultLine := by
    funext c mm; simp [segsText, Seg.eval, Hole.eval, chgMultLine, lit]
  rw [srcBranch!_eq]
  cases d
  case psi4 =>
    simp only [bodyOf, fragBlocks, chainPos, Gen.branches]
    simp only [List.getElem!_cons_succ, List.getElem!_cons_zero, fragOf, hh, fragLoopBy_eq, bodyPure, Except.map]
    generalize fragLoop _ _ _ _ = x; cases x <;> rfl
  case qchem =>
    simp only [bodyOf, fragBlocks, chainPos, Gen.branches]
    simp only [List.getElem!_cons_succ, List.getElem!_cons_zero, fragOf, hh, fragLoopBy_eq, bodyPure, Except.map]
    generalize fragLoop _ _ _ _ = x; cases x <;> rfl
  all_goals rfl

/-- **SDF layouts**: counts line, atom line (`10.4f` coordinates, `>3s` symbol, tail) and bond line are the source's;
so is the number of decimals the driver's float check uses for this branch -/
theorem sdf_layout_eq (gf : Str) (a : Atom) (b : Nat × Nat × Nat) (prec : Nat) :
    sdfAtomLine gf a = sdfAtomLineBy Gen.sdf gf a ∧ sdfBondLine b = sdfBondLineBy Gen.sdf b ∧
    branchPrec .sdf prec = Gen.sdf.coordPrec := by
  refine ⟨?_, ?_, rfl⟩
  · simp [sdfAtomLine, sdfAtomLineBy, Gen.sdf, lit]
  · simp [sdfBondLine, sdfBondLineBy, Gen.sdf, lit]

theorem atomBlock_eq (o : Opts) (m : Mol) : atomBlock o m = atomBlockBy Gen.sdf o m := by
  have : ∀ gf, sdfAtomLine gf = sdfAtomLineBy Gen.sdf gf := fun gf => funext fun a => (sdf_layout_eq gf a (0, 0, 0) 0).1
  unfold atomBlock atomBlockBy
  cases hd : o.dtype <;> first | rfl | simp [this]

/-- **the model is the table-driven renderer at the tables read from the source**: for every option set and every
molecule (no size bound), text lines, `fields`, `keywords` and the error outcome of the hand model `render` equal those
of `renderBy` interpreting the line programs, `umap`s, keyword lists and SDF layouts generated from `to_string.py` -/
theorem render_eq_source (o : Opts) (m : Mol) :
    render o m = renderBy Gen.branches Gen.sdf Gen.tagline Gen.baseFields o m := by
  have hb : branchOf Gen.branches o.dtype = some (srcBranch! o.dtype) := by cases o.dtype <;> decide
  unfold render renderBy
  rw [hb, ← atomBlock_eq]
  cases ha : atomBlock o m with
  | error e => rfl
  | ok atoms =>
    simp only [bind, Except.bind]
    rw [frag_eq o.dtype m atoms.length atoms]
    cases hf : fragOf ⟨m, .silent, atoms.length, Gen.tagline, 0, 0⟩ atoms (srcBranch! o.dtype).items with
    | error e => rfl
    | ok frag =>
      simp only [Except.map]
      rw [unit_word_eq]
      cases hu : unitWordBy (srcBranch! o.dtype) (resolve o.dtype o.req) with
      | error e => rfl
      | ok uw =>
        simp only [pure, Except.pure]
        rw [layout_eq, fields_eq, keywords_eq o.dtype m uw atoms.length atoms]

/-- non-vacuity (test): the table-driven renderer on the two-fragment psi4 example of Props/C08.lean -/
example : (renderBy Gen.branches Gen.sdf Gen.tagline Gen.baseFields exOpts exMol).map (·.lines) = .ok
    (["1 2", "--", "1 1", "H      1    2    3", "--", "0 2", "Gh(Hex)    4    5    6", "units bohr", "no_com"].map String.toList) := by
  decide

/-! ## where charge and multiplicity are stated -/

/-- **charge / multiplicity slots**, read off the generated tables: for every program the text positions (with the
literal just before the value) and the keyword names (with their condition) that carry the total charge, the
multiplicity or multiplicity − 1 — exactly the slots `chgmult_stated` proves correct; terachem, turbomole and
nglview-sdf have none, madness has no multiplicity value -/
theorem chgmult_slots_eq :
    Gen.branches.map (fun b => (b.name, b.slots)) =
      [("xyz", [.text "" .chgInt, .text " " .mult]),
       ("xyz+", [.text "" .chgInt, .text " " .mult]),
       ("orca", [.text "*xyz " .chgInt, .text " " .mult]),
       ("cfour", [.kw "charge" .always .chgInt, .kw "multiplicity" .always .mult]),
       ("molpro", [.text "set,charge=" .chgFloat, .text "set,spin=" .multM1]),
       ("nwchem", [.kw "charge" .always .chgInt, .kw "scf__nopen" (.multNe 1) .multM1, .kw "dft__mult" (.multNe 1) .mult,
                   .kw "mcscf__multiplicity" (.multNe 1) .mult]),
       ("madness", [.kw "charge" .always .chgInt]),
       ("gamess", [.kw "contrl__icharg" .always .chgInt, .kw "contrl__mult" .always .mult]),
       ("terachem", []),
       ("psi4", [.text "" .chgInt, .text " " .mult]),
       ("turbomole", []),
       ("nglview-sdf", []),
       ("qchem", [.text "" .chgInt, .text " " .mult]),
       ("mrchem", [.text "charge = " .chgInt, .text "multiplicity = " .mult, .kw "charge" .always .chgInt,
                   .kw "multiplicity" .always .mult])] := by
  decide

/-! ## `_atoms_formatter`'s format specs -/

/-- Python's padding for a parsed spec: `>` right-aligns, `<` left-aligns; without an alignment character numbers
(a presentation type is given) go right and strings left -/
def padBy (spec : String) (w : Nat) (s : Str) : Str :=
  match parseSpec spec with
  | some ⟨.right, _, _, _⟩ => padLeft w s
  | some ⟨.left, _, _, _⟩ => padRight w s
  | some ⟨.dflt, _, _, ty⟩ => if ty.isSome then padLeft w s else padRight w s
  | none => s

/-- **format specs**: the coordinate spec is `{:>{width}.{prec}f}` (right-aligned in `width`, `prec` decimals, fixed
notation — the `prec` the driver's `isFixedRounding` check is run with), the label spec `{:{width}}`, the separator
`{:{sp}}`; `atominfo` offers exactly the five fields `fieldValue` knows; lines are joined and terminated by a newline -/
theorem coord_format_spec_eq :
    parseSpec Gen.fxyz = some ⟨.right, "width", some "prec", some 'f'⟩ ∧
    parseSpec Gen.nucSpec = some ⟨.dflt, "width", none, none⟩ ∧
    parseSpec Gen.spSpec = some ⟨.dflt, "sp", none, none⟩ ∧
    Gen.atominfo = ["elea", "elez", "elem", "mass", "elbl"] ∧
    (∀ a : Atom, ∀ f ∈ Gen.atominfo, (fieldValue a (lit f)).isSome = true) ∧
    lit Gen.joinSep = ['\n'] ∧ lit Gen.joinEnd = ['\n'] := by
  refine ⟨by decide, by decide, by decide, by decide, ?_, by decide, by decide⟩
  intro a f hf
  simp [Gen.atominfo] at hf
  rcases hf with rfl | rfl | rfl | rfl | rfl <;> simp [fieldValue, lit]

/-- **the atom line follows those specs**: label padded by the label spec, each coordinate by the coordinate spec,
joined by the separator spec applied to `""` with `sp = 2` (what every branch passes); `xyze` moves the right-stripped
label to the end -/
theorem atomLine_follows_specs (w : Nat) (nuc : Str) (xyz : List Str) :
    atomLine w false nuc xyz = joinWith (padBy Gen.spSpec 2 []) (padBy Gen.nucSpec w nuc :: xyz.map (padBy Gen.fxyz w)) ∧
    atomLine w true nuc xyz = joinWith (padBy Gen.spSpec 2 []) (xyz.map (padBy Gen.fxyz w) ++ [rstrip (padBy Gen.nucSpec w nuc)]) := by
  have h1 : padBy Gen.fxyz w = padLeft w := by funext s; simp [padBy, show parseSpec Gen.fxyz = some ⟨.right, "width", some "prec", some 'f'⟩ by decide]
  have h2 : padBy Gen.nucSpec w nuc = padRight w nuc := by simp [padBy, show parseSpec Gen.nucSpec = some ⟨.dflt, "width", none, none⟩ by decide]
  have h3 : padBy Gen.spSpec 2 [] = sp2 := by simp [padBy, show parseSpec Gen.spSpec = some ⟨.dflt, "sp", none, none⟩ by decide, padRight, sp2]
  rw [h1, h2, h3]
  simp [atomLine]

/-! ## spellings, over the generated format table -/

/-- the atom / ghost format literal of the source's branch for `d` (`Gen/SrcConsts.lean`, table `to_string.formats`:
name, atom kind, atom text, ghost kind, ghost text, xyze, uses-formatter) -/
def srcAf (d : Dtype) : Str :=
  ((QcelVerif.Src.to_string.formats.find? (fun r => dtypeOfName r.1 == some d)).map (fun r => lit r.2.2.1)).getD []
def srcGf (d : Dtype) : Str :=
  ((QcelVerif.Src.to_string.formats.find? (fun r => dtypeOfName r.1 == some d)).map (fun r => lit r.2.2.2.2.1)).getD []

/-- **spellings restated over the format strings read from the source**: for every program that formats through
`_atoms_formatter` and every atom, substituting the atom's fields into the SOURCE's atom / ghost format literal gives the
program's spelling `spell` (E / Gh(E+lbl), E / @E, E / E:, bqE+lbl, ' E -Z', XE, GH ...; xyz/xyz+: the defaults) -/
theorem spelling_source (d : Dtype) (a : Atom) (hd : d ≠ .sdf) :
    atomLabel (srcAf d) (srcGf d) a = .ok (some (spell d a)) := by
  have h : srcAf d = (formats ⟨d, .dflt, none, none, 17, .bohr, false⟩).1 ∧
      srcGf d = (formats ⟨d, .dflt, none, none, 17, .bohr, false⟩).2.1 := by
    cases d <;> first | decide | exact absurd rfl hd
  rw [h.1, h.2]
  exact spelling ⟨d, .dflt, none, none, 17, .bohr, false⟩ a hd (fun _ => ⟨rfl, rfl⟩)

/-- non-vacuity (test): a labelled ghost helium under the source's psi4 formats -/
example : atomLabel (srcAf .psi4) (srcGf .psi4) ⟨-1, 2, ['H', 'e'], [], ['x'], false, []⟩ = .ok (some (lit "Gh(Hex)")) := by decide

/-! ## the caller's raw `dtype` / `units` strings (what the driver is handed) -/

/-- **raw `units=` strings**: when the model accepts a caller's string as a Bohr / Angstrom request, the two readings
the source makes of it — `units.capitalize()` in the factor chain, `units.lower()` as `umap` key — are those of the
unit the model continues with; `nm` / `pm` are accepted only as written (they are handed on to `conversion_factor`) -/
theorem raw_request_sound (u : Str) (r : Req) (h : reqOfRaw u = some r) :
    (r = .bohr → capitalize u = lit "Bohr" ∧ lower u = unitLower .bohr) ∧
    (r = .angstrom → capitalize u = lit "Angstrom" ∧ lower u = unitLower .angstrom) ∧
    (r = .nm → u = lit "nm") ∧ (r = .pm → u = lit "pm") ∧ r ≠ .dflt := by
  unfold reqOfRaw at h
  split at h
  · split at h <;> simp at h; subst h; simp_all [unitLower]
  · split at h
    · split at h <;> simp at h; subst h; simp_all [unitLower]
    · split at h
      · simp at h; subst h; simp_all
      · split at h <;> simp at h; subst h; simp_all

/-- test: the spellings the generator uses, and two the model refuses -/
example : [lit "Bohr", lit "BOHR", lit "bohr", lit "Angstrom", lit "ANGSTROM", lit "angstrom", lit "nm", lit "pm", lit "NM", lit "au"].map reqOfRaw
    = [some .bohr, some .bohr, some .bohr, some .angstrom, some .angstrom, some .angstrom, some .nm, some .pm, none, none] := by decide
/-- test: `dtype.lower()` -/
example : [lit "XYZ+", lit "Psi4", lit "NGLVIEW-SDF", lit "psi5"].map dtypeOfRaw = [some .xyzp, some .psi4, some .sdf, none] := by decide

/-! ## the `Molecule.to_string` route -/

/-- **`Molecule.to_string` is `to_string` on the molecule's own record**: it declares the same arguments with the same
defaults as `molparse.to_string` (after `self` / `molrec`), builds `from_schema(self.dict(), nonphysical=True)` — what
the harness hands the model on this route — and forwards every option unchanged, by name -/
theorem molecule_route_eq :
    Gen.molDefaults = Gen.fnDefaults ∧ Gen.molForward = Gen.fnDefaults.map (fun p => (p.1, p.1)) ∧
    Gen.molRec = "from_schema(self.dict(), nonphysical=True)" ∧
    Gen.fnDefaults.map (·.1) = ["dtype", "units", "atom_format", "ghost_format", "width", "prec", "return_data"] := by
  decide

/-! ## the unit decision, over the generated tables -/

def unitOfLower (s : Str) : Option TUnit :=
  if s = lit "bohr" then some .bohr else if s = lit "angstrom" then some .angstrom
  else if s = lit "nm" then some .nm else if s = lit "pm" then some .pm else none

/-- `default_units[dtype]` of the source (`Gen/SrcConsts.lean`), as a unit of the model -/
def defaultUnitSrc (d : Dtype) : Option TUnit :=
  (QcelVerif.Src.to_string.default_units.find? (fun p => dtypeOfName p.1 == some d)).bind fun p => unitOfLower (lower p.2.toList)

/-- `units = default_units[dtype] if units is None else units` -/
def resolveSrc (d : Dtype) : Req → Option TUnit
  | .dflt => defaultUnitSrc d
  | .bohr => some .bohr
  | .angstrom => some .angstrom
  | .nm => some .nm
  | .pm => some .pm

theorem resolve_eq_source (d : Dtype) (r : Req) : resolveSrc d r = some (resolve d r) := by
  cases d <;> cases r <;> decide

/-- one row of the decision table computed from the generated tables only: default unit (`default_units`), unit word
(`umap` + access), factor (the if/elif chain); the reading of the word is each program's own vocabulary `readWord` -/
def outcomeSrc (d : Dtype) (s : SUnit) (r : Req) (p : Bool) : Except Err (Factor × Announce) :=
  match resolveSrc d r with
  | none => .error .keyError
  | some t => (unitWordBy (srcBranch! d) t).map fun uw => (selectFactorBy Gen.factorRows Gen.factorElse s t p, readWord d uw)

theorem outcome_eq_source (d : Dtype) (s : SUnit) (r : Req) (p : Bool) : outcome d s r p = outcomeSrc d s r p := by
  unfold outcome outcomeSrc
  rw [resolve_eq_source, unit_word_eq]
  simp only [select_factor_eq]

/-- **announced unit = unit used, over the tables read from the source**: in every one of the 14 × 2 × 5 × 2 rows,
whenever the unit word the SOURCE's branch writes (its `umap`, read the way the branch reads it, for the unit the
source's `default_units` / the caller selects) is one the target program reads as unit `u`, the factor the SOURCE's
if/elif chain selects is the one converting stored → `u` -/
theorem announced_unit_is_used_source (d : Dtype) (s : SUnit) (r : Req) (p : Bool) (f : Factor) (u : TUnit)
    (h : outcomeSrc d s r p = .ok (f, .unit u)) : f = idealFactor s u p :=
  announced_unit_is_used d s r p f u (by rw [outcome_eq_source]; exact h)

/-- non-vacuity: nwchem in picometers from pinned Angstrom storage, computed from the generated tables -/
example : outcomeSrc .nwchem .angstrom .pm true = .ok (.conv .angstrom .pm, .unit .pm) := by decide

/-- the refusing rows and the `None` rows, over the generated tables -/
theorem unit_error_rows_source (d : Dtype) (s : SUnit) (r : Req) (p : Bool) (e : Err) :
    outcomeSrc d s r p = .error e ↔ refuses d r = some e := by
  rw [← outcome_eq_source]; exact unit_error_rows d s r p e

end QcelVerif.ToString
