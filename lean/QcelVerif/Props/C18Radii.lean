import QcelVerif.Lemmas.MeasureRadii
import QcelVerif.Props.C18
/-!
# C18 — guessed connectivity from *symbols*: the radius look-up in front of the bond criterion

Model: `Model/MeasureRadii.lean` (connectivity.py:37-42 on top of C17's model of
`CovalentRadii.get`; radius and periodic tables regenerated from `/repo` by the translators).

PROPERTY-THEOREMS:
  connRadius_spec  connectivity_sym_exact  connectivity_sym_rigid_invariant
-/
namespace QcelVerif.Measure
open QcelVerif QcelVerif.PStr QcelVerif.PT QcelVerif.Radii

/-- what radius the loop connectivity.py:37-42 uses, for ANY tables: nothing identifies the symbol
→ `1.8` (the `except NotAnElementError` branch); identified but no tabulated radius → `1.8`
(`missing=1.8`); tabulated → the stored value converted to bohr (`fl(factor · float(data))`, C17's
`Payload.scale`); a failing unit conversion escapes (`none`). -/
theorem connRadius_spec (T : Tables) (t : Table) (convF : Bytes → Bytes → Option Rat) (s : Bytes) :
    connRadiusWith T t convF s =
      match identify T t (.str s) with
      | none => some missing18
      | some k =>
        match lookupK t k with
        | none => some missing18
        | some d =>
          match convF d.units bBohr with
          | none => none
          | some f =>
            match d.data.scale f with
            | .value x => some x
            | _ => none := by
  unfold connRadiusWith getU Radii.get
  cases identify T t (.str s) with
  | none => rfl
  | some k =>
    simp only [getByKey]
    cases lookupK t k with
    | none => rfl
    | some d =>
      simp only [Bool.false_eq_true, if_false, Datum.toUnits, Option.getD_none]
      cases convF d.units bBohr with
      | none => rfl
      | some f =>
        simp only
        cases d.data.scale f <;> rfl

section ordered
variable {K : Type} [Field K] [LinearOrder K] [IsStrictOrderedRing K]

/-- **exactness from symbols**: with `rad` the radius look-up (any function; the driver uses
`connRadius` = shipped tables), `(i, j)` is listed iff `i < j`, both rows exist and
`d² < ((r(sᵢ) + r(sⱼ))·thr)²` with a positive cutoff. -/
theorem connectivity_sym_exact (rad : Bytes → Option K) (thr : K) (l : List (Bytes × V3 K))
    (atoms : List (Atom K)) (h : atomsOfSymbols rad l = some atoms) (i j : Nat) :
    (i, j) ∈ guessConnectivity thr atoms ↔
      i < j ∧ ∃ si pi sj pj ri rj, l[i]? = some (si, pi) ∧ l[j]? = some (sj, pj) ∧
        rad si = some ri ∧ rad sj = some rj ∧
        0 < (ri + rj) * thr ∧ distSq pi pj < ((ri + rj) * thr) * ((ri + rj) * thr) := by
  rw [connectivity_exact]
  constructor
  · rintro ⟨hij, a, b, ha, hb, hc⟩
    obtain ⟨si, hli, hri⟩ := (atomsOfSymbols_getElem? rad l atoms h i a).mp ha
    obtain ⟨sj, hlj, hrj⟩ := (atomsOfSymbols_getElem? rad l atoms h j b).mp hb
    exact ⟨hij, si, a.p, sj, b.p, a.r, b.r, hli, hlj, hri, hrj, hc⟩
  · rintro ⟨hij, si, pi, sj, pj, ri, rj, hli, hlj, hri, hrj, hc⟩
    refine ⟨hij, ⟨ri, pi⟩, ⟨rj, pj⟩, ?_, ?_, hc⟩
    · exact (atomsOfSymbols_getElem? rad l atoms h i ⟨ri, pi⟩).mpr ⟨si, hli, hri⟩
    · exact (atomsOfSymbols_getElem? rad l atoms h j ⟨rj, pj⟩).mpr ⟨sj, hlj, hrj⟩

/-- the radii do not depend on the geometry, so the whole symbol-level function is unchanged by
every orthogonal motion of the geometry (including whether a look-up raises) -/
theorem connectivity_sym_rigid_invariant (rad : Bytes → Option K) (T : Motion K)
    (hT : T.R.IsOrthogonal) (thr : K) (dc : Option K) (l : List (Bytes × V3 K)) :
    guessConnectivitySym rad thr dc (l.map fun sp => (sp.1, T.apply sp.2))
      = guessConnectivitySym rad thr dc l := by
  unfold guessConnectivitySym
  rw [atomsOfSymbols_move]
  cases atomsOfSymbols rad l with
  | none => rfl
  | some as =>
    simp only [Option.map_some]
    congr 1
    unfold guessConnectivityDC
    rw [connectivity_rigid_invariant T hT]

end ordered

/-! ## non-vacuity (tests) -/
section examples

/-- hypothesis of `connectivity_sym_exact`: a look-up that succeeds on a 3-atom list, with one
bonded and one non-bonded pair -/
example : ∃ (rad : Bytes → Option ℚ) (l : List (Bytes × V3 ℚ)) (atoms : List (Atom ℚ)),
    atomsOfSymbols rad l = some atoms ∧ atoms.length = 3 :=
  ⟨fun _ => some (1 / 2), [([72], ⟨0, 0, 0⟩), ([72], ⟨1, 0, 0⟩), ([79], ⟨0, 3, 0⟩)], _, rfl, rfl⟩

/-- TEST: `missing18` is the double nearest to 1.8 (numerator × 2⁻⁵² ; |x − 9/5| < 2⁻⁵³) -/
example : missing18 - 9 / 5 < 1 / 2 ^ 53 ∧ 9 / 5 - missing18 < 1 / 2 ^ 53 := by
  unfold missing18
  constructor <;> decide +kernel

end examples

end QcelVerif.Measure
