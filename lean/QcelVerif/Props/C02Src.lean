import QcelVerif.Lemmas.ConstantsSrc
import QcelVerif.Props.C02Ctx2014
import QcelVerif.Props.C02Ctx2018
/-!
# C02 — the alias definitions REGENERATED FROM `context.py` agree with the specification

`Gen/ContextSrc.lean` is produced on every run by `harness/c02_src.py` from the `ast` of
`qcelemental/physical_constants/context.py` (symbolic execution of `__init__` per context string).  The hand-written
model (`Model/Constants.lean`) holds the 27 alias definitions as a *specification* transcribed from the documentation
block (context.py:247-271), the rename map, the three derived legacy constants and the translate table; until this file
those were tied to the code's own arithmetic (context.py:137-199) only digit for digit by the differential check.

What is proved here, for both CODATA sets:

 * `mangle_src_eq_model` — the translate table of the source and the model's `mangle` agree on EVERY string
   (every ASCII character by kernel evaluation, every other character because all table keys are ASCII);
 * `renames_src_eq_model`, `derived_src_eq_model`, `extras_src_eq_model`, `dataset_src_eq_model` — the rename dict, the
   three derived constants (as trees, constant names lower-cased), the calorie-joule insertion and the choice of data
   table / default / singleton context of the source are the model's;
 * `aliases_src_eq_spec_symbolic` — for 26 of the 27 aliases the NORMALISED source tree IS the normalised
   specification tree (no constant value involved), and `aliases_src_eq_spec_any_table`: hence on EVERY table of
   constants consistent with the normalisation environment both give the same Decimal whenever both evaluate.
   `dipmom_au2debye` is the one alias the source groups differently (`a·1.E21 / b` for the documented
   `a / (b·1.E-21)`): `regrouped_differs` shows the trees really differ; it is covered by VALUE equality;
 * `aliases_src_eq_spec_value_2014/2018` — all 27 (and the 3 derived): the source expression evaluated on the table the
   CODE evaluates it on (before any alias is inserted) equals digit for digit the documented formula evaluated on the
   finished context (shipped tables, kernel);
 * `context_src_eq_model_2014/2018` — the whole `pc` built from the source-derived pieces in the code's staging equals
   the model's `pc` (every key, order, label, units, Decimal, comment, doi), so every theorem about `pc2014/pc2018`
   holds of the source-derived contexts (`*_src_*` restatements below);
 * `aliases_src_close_2014/2018`, `derived_src_close_2018` — the 2·10⁻²⁷ bound restated for the SOURCE formulas through the
   general `evalDec_approx`; `aliases_src_exact_def_2014/2018` — each source-derived alias is within 2·10⁻²⁷ (relative) of
   the exact rational value of its DOCUMENTED definition (source formula ≈ its own exact value by the general rounding
   theorem; that exact value = the documented one in ℚ, kernel-checked).

Still hand-modelled (shape-checked by the translator, tied by the correspondence): the constant loop, the body of the
rename loop, the insertion loop, the attribute loop, `get`.
-/
namespace QcelVerif.Constants
open QcelVerif QcelVerif.PStr QcelVerif.Codata QcelVerif.Dec
open Gen.ContextSrc
set_option maxRecDepth 100000

/-- the translator accepted the source (a stub with `translated = false` is written otherwise, and every table theorem
below fails with it) -/
theorem source_translated : translated = true := by decide

/-! ### the attribute-name translation table -/

/-- **`label.translate(_transtable)` as read from the source = the model's `mangle`, for every string** (in
particular for each of the 128 ASCII characters, kernel-evaluated; characters ≥ 128 are left alone by both) -/
theorem mangle_src_eq_model (s : Bytes) : mangleSrc s = mangle s := mangleWith_eq s

/-- the per-character form: every ASCII character -/
theorem mangle_src_eq_model_ascii : ∀ c, c < 128 → mangleSrc [c] = mangle [c] := by
  intro c _; exact mangle_src_eq_model [c]

/-- test (not a property): '/' → 'p', '{' → '_', '.' deleted, letters kept -/
example : mangleSrc b!"{220} mom.um in MeV/c" = b!"_220_momum_in_MeVpc" := by decide

/-! ### rename map, derived constants, calorie, data tables -/

/-- **the rename dict of the source (2018 path, in dict order) is the model's `renameMap`**; the 2014 path executes no
rename loop -/
theorem renames_src_eq_model : renames2018 = renameMap ∧ renames2014 = [] := by decide +kernel

/-- **the three derived legacy constants of the source (the list `aliases` is first assigned on the 2018 path) are the
model's `derived2018`** — name, units, comment literally, expression trees equal once constant names are lower-cased
(the source writes the lower-case keys, the model NIST's spelling; `evalDec_lowerPc`: same value); none on the 2014 path -/
theorem derived_src_eq_model : initial2018.map lowerDef = derived2018.map lowerDef ∧ initial2014 = [] := by decide +kernel

/-- lower-casing the constant names of a definition never changes its value (justifies the comparison above) -/
theorem lowerPc_same_value (pc : PC) (tbl : List AliasDef) (f : Nat) (e : Expr) :
    (lowerPc e).evalDec pc tbl f = e.evalDec pc tbl f := evalDec_lowerPc pc tbl f e

/-- **the literal-key insertion of the source is the model's calorie-joule relationship** (key, label, unit J,
Decimal("4.184") = 4184·10⁻³, comment, no doi), on every table, for both contexts -/
theorem extras_src_eq_model (pc : PC) :
    addExtras extras2014 pc = some (addCalorie pc) ∧ addExtras extras2018 pc = some (addCalorie pc) := by
  have parse_4184 : Dec.parse b!"4.184" = some ⟨false, 4184, -3⟩ := by decide
  constructor <;> simp [addExtras, extras2014, extras2018, Expr.evalDec, evalFuel, parse_4184, addCalorie]

/-- **each context loads its own year's table, and the default / singleton context is CODATA2014** (what
`tools/gen_codata.py` and the driver's `default` context assume) -/
theorem dataset_src_eq_model :
    dataSet2014 = b!"nist_2014_codata" ∧ dataSet2018 = b!"nist_2018_codata" ∧
    defaultContext = b!"CODATA2014" ∧ singletonContext = b!"CODATA2014" := by decide

/-! ### symbolic equality of the alias definitions -/

/-- **27 source tuples ↔ 27 specification entries, in order: same name, units, comment; for every alias except the
regrouped `dipmom_au2debye` the normalised expression trees are EQUAL** (normalisation: constant names lower-cased,
the two operands of each product in a fixed order, `hartree2kJmol` / `cal2J` inlined, `calorie-joule relationship` ↦ its literal, 2014 legacy names ↦ the 2018 names they
copy, derived legacy constants ↦ their formulas — all taken from the source's own tables).  No constant value enters. -/
theorem aliases_src_eq_spec_symbolic :
    allPairs2 (symOk env2014) extended2014 aliasSpec = true ∧ allPairs2 (symOk env2018) extended2018 aliasSpec = true := by
  decide +kernel

/-- the exclusion is necessary: for `dipmom_au2debye` the source tree `(a·1.E21)/b` is NOT the documented
`a/(b·1.E-21)` (value equality: `aliases_src_eq_spec_value_*`) -/
theorem regrouped_differs :
    allPairs2 (symDiffers env2014) extended2014 aliasSpec = true ∧ allPairs2 (symDiffers env2018) extended2018 aliasSpec = true := by
  decide +kernel

/-- **Symbolically equal definitions give the same Decimal on EVERY table of constants**: if the table is consistent
with the normalisation environment (`EnvOk`: each replaced constant holds the value of the expression that replaces
it) and both the source expression and the specification expression evaluate, their Decimals are identical. -/
theorem sym_eq_same_value (pc : PC) (env : Env) (tbl : List AliasDef) (hE : EnvOk pc env)
    (s p : Expr) (hsym : commNorm (normExpr env [] evalFuel s) = commNorm (normExpr env tbl evalFuel p))
    (v w : Dec) (hs : s.evalDec pc [] evalFuel = some v) (hp : p.evalDec pc tbl evalFuel = some w) : v = w := by
  obtain ⟨g1, h1⟩ := norm_sound pc env [] hE _ _ _ hs
  obtain ⟨g2, h2⟩ := norm_sound pc env tbl hE _ _ _ hp
  have a := h1 (max g1 g2) (by omega)
  have b := h2 (max g1 g2) (by omega)
  rw [← evalDec_commNorm, hsym, evalDec_commNorm] at a
  rw [a] at b
  exact Option.some.inj b

/-- non-vacuity of `sym_eq_same_value` (and a test of the operand ordering): on a one-constant table `10 * x` and
`X * 10` are different trees, symbolically equal after normalisation, and both evaluate (to 41.84) -/
example :
    let pc : PC := [(pack b!"x", ⟨pack b!"x", pack b!"", ⟨false, 4184, -3⟩, pack b!"", none⟩)]
    EnvOk pc [] ∧
    commNorm (normExpr [] [] evalFuel (.mul (.lit b!"10") (.pc b!"x"))) = commNorm (normExpr [] [] evalFuel (.mul (.pc b!"X") (.lit b!"10"))) ∧
    (Expr.mul (.lit b!"10") (.pc b!"x")).evalDec pc [] evalFuel = some ⟨false, 41840, -3⟩ ∧
    (Expr.mul (.pc b!"X") (.lit b!"10")).evalDec pc [] evalFuel = some ⟨false, 41840, -3⟩ := by
  refine ⟨fun k e' h => by simp [envFind] at h, by decide, by decide, by decide⟩

/-- **`aliases_src_eq_spec`, general form** (any constant values — e.g. a future CODATA set put through the same
code): on every table consistent with the environment, each of the 26 symbolically equal aliases has the same Decimal
from the source's arithmetic as from the documented formula. -/
theorem aliases_src_eq_spec_any_table (pc : PC) (env : Env) (src : List AliasDef) (hE : EnvOk pc env)
    (hsym : allPairs2 (symOk env) src aliasSpec = true) :
    ∀ sp ∈ src.zip aliasSpec, regrouped.contains sp.1.name = false →
      ∀ v w, sp.1.expr.evalDec pc [] evalFuel = some v → sp.2.expr.evalDec pc aliasSpec evalFuel = some w → v = w := by
  intro sp hsp hreg v w hv hw
  have h := allPairs2_mem (symOk env) src aliasSpec hsym sp hsp
  unfold symOk at h
  simp only [Bool.and_eq_true, Bool.or_eq_true, hreg, Bool.false_eq_true, false_or] at h
  unfold symEq at h
  exact sym_eq_same_value pc env aliasSpec hE _ _ (of_decide_eq_true h.2) v w hv hw

/-! ### the shipped tables: values, whole contexts -/

theorem srcChecks2014_holds :
    withPC2 Src.pre2014 pcSrc2014 (srcChecks env2014 initial2014 extended2014 []) = true := by decide +kernel

theorem srcChecks2018_holds :
    withPC2 Src.pre2018 pcSrc2018 (srcChecks env2018 initial2018 extended2018 derived2018) = true := by decide +kernel

/-- non-vacuity of `aliases_src_eq_spec_any_table`: the environment hypothesis holds of both shipped contexts (and
the symbolic hypothesis is `aliases_src_eq_spec_symbolic`) -/
theorem envOk_shipped :
    withPC pcSrc2014 (fun pc => envOkB pc env2014) = true ∧ withPC pcSrc2018 (fun pc => envOkB pc env2018) = true :=
  ⟨withPC2_right (fun _ _ h => by unfold srcChecks at h; simp only [Bool.and_eq_true] at h; exact h.2) srcChecks2014_holds,
   withPC2_right (fun _ _ h => by unfold srcChecks at h; simp only [Bool.and_eq_true] at h; exact h.2) srcChecks2018_holds⟩

/-- non-vacuity of `aliases_src_eq_spec_any_table`: a table satisfying both hypotheses exists (the shipped 2014 context;
that the expressions evaluate on it is `aliases_src_eq_spec_value_2014`) -/
example : ∃ pc, EnvOk pc env2014 ∧ allPairs2 (symOk env2014) extended2014 aliasSpec = true := by
  have h := envOk_shipped.1
  cases hp : pcSrc2014 with
  | none => rw [hp] at h; simp [withPC] at h
  | some pc => rw [hp] at h; exact ⟨pc, envOk_of_B pc _ h, aliases_src_eq_spec_symbolic.1⟩

/-- **`aliases_src_eq_spec`, value form, 2014**: for all 27 aliases the source expression evaluated on the table the
code evaluates it on (constant loop + calorie; nothing else inserted yet) is digit for digit the documented formula
evaluated on the finished context — this is the clause that covers the regrouped `dipmom_au2debye`. -/
theorem aliases_src_eq_spec_value_2014 :
    withPC2 Src.pre2014 pcSrc2014 (fun pre fin => allPairs2 (valEq aliasSpec pre fin) extended2014 aliasSpec) = true :=
  withPC2_imp (fun _ _ h => by unfold srcChecks at h; simp only [Bool.and_eq_true] at h; exact h.1.1.1) srcChecks2014_holds

/-- **value form, 2018** (table = constant loop + calorie + the 26 legacy names); also the three derived constants
against `derived2018` -/
theorem aliases_src_eq_spec_value_2018 :
    withPC2 Src.pre2018 pcSrc2018 (fun pre fin =>
      allPairs2 (valEq aliasSpec pre fin) extended2018 aliasSpec && allPairs2 (valEq [] pre fin) initial2018 derived2018) = true :=
  withPC2_imp (fun _ _ h => by
    unfold srcChecks at h; simp only [Bool.and_eq_true] at h ⊢; exact h.1.1) srcChecks2018_holds

/-- **The whole context built from the source-derived pieces in the code's staging IS the model's context (2014)** -/
theorem context_src_eq_model_2014 : pcSrc2014 = pc2014 :=
  (optPcBeq_eq (by decide +kernel : optPcBeq pcSrc2014 pc2014 = true)).1

/-- **… (2018)**: all 30 tuples evaluated on the renamed table before any insertion (the code) = derived constants
first, then the documented formulas on the table holding them (the model) -/
theorem context_src_eq_model_2018 : pcSrc2018 = pc2018 :=
  (optPcBeq_eq (by decide +kernel : optPcBeq pcSrc2018 pc2018 = true)).1

theorem ctx_src_eq_model_2014 : ctxSrc2014 = ctx2014 := by
  unfold ctxSrc2014 ctx2014 build
  rw [context_src_eq_model_2014]; unfold pc2014
  cases buildPC 2014 Gen.Codata2014.doi Gen.Codata2014.shipped with
  | none => rfl
  | some pc => simp only [Option.map_some, buildAttrsWith_eq]

theorem ctx_src_eq_model_2018 : ctxSrc2018 = ctx2018 := by
  unfold ctxSrc2018 ctx2018 build
  rw [context_src_eq_model_2018]; unfold pc2018
  cases buildPC 2018 Gen.Codata2018.doi Gen.Codata2018.shipped with
  | none => rfl
  | some pc => simp only [Option.map_some, buildAttrsWith_eq]

/-! ### error bounds for the source-derived definitions -/

/-- every source-derived definition (27 aliases per context, 3 derived constants) performs at most three rounded
operations — kernel evaluation of the translated trees, no constant value involved -/
theorem aliasSrc_roundings :
    allAliases (roundingsLe3 []) Src.defs2014 = true ∧ allAliases (roundingsLe3 []) Src.defs2018 = true := by
  decide +kernel

/-- **digit-for-digit, source form (2014)**: every entry the insertion loop stores is the SOURCE expression evaluated
in precision-28 decimal arithmetic — also when read back from the finished context (no alias overwrites a constant
another alias reads) — under the tuple's name with its units and comment and no doi -/
theorem aliases_src_stored_2014 : withPC pcSrc2014 (fun pc => allAliases (aliasOk [] pc) Src.defs2014) = true :=
  withPC2_right (fun _ _ h => by unfold srcChecks at h; simp only [Bool.and_eq_true] at h; exact h.1.2.1) srcChecks2014_holds

theorem aliases_src_stored_2018 : withPC pcSrc2018 (fun pc => allAliases (aliasOk [] pc) Src.defs2018) = true :=
  withPC2_right (fun _ _ h => by unfold srcChecks at h; simp only [Bool.and_eq_true] at h; exact h.1.2.1) srcChecks2018_holds

/-- **`aliases_close_2014` restated for the source-derived definitions**: each of the 27 stored aliases is within
2·10⁻²⁷ (relative) of the exact rational value of the SOURCE formula — from the digit-for-digit clause through the
general theorem `aliasClose_of_aliasOk` (`evalDec_approx`), not a per-row evaluation -/
theorem aliases_src_close_2014 : withPC pcSrc2014 (fun pc => allAliases (aliasClose [] pc) Src.defs2014) = true :=
  withPC_imp (fun pc h => close_all_of_ok_all [] Src.defs2014 pc aliasSrc_roundings.1 h) aliases_src_stored_2014

/-- **`aliases_close_2018` and `derived_close_2018` restated for the source-derived definitions** (all 30 tuples) -/
theorem aliases_src_close_2018 : withPC pcSrc2018 (fun pc => allAliases (aliasClose [] pc) Src.defs2018) = true :=
  withPC_imp (fun pc h => close_all_of_ok_all [] Src.defs2018 pc aliasSrc_roundings.2 h) aliases_src_stored_2018

theorem allAliases_append_right (p : AliasDef → Bool) (l1 l2 : List AliasDef) (h : allAliases p (l1 ++ l2) = true) :
    allAliases p l2 = true := by
  rw [allAliases_iff] at *
  intro a ha; exact h a (List.mem_append_right l1 ha)

theorem allAliases_append_left (p : AliasDef → Bool) (l1 l2 : List AliasDef) (h : allAliases p (l1 ++ l2) = true) :
    allAliases p l1 = true := by
  rw [allAliases_iff] at *
  intro a ha; exact h a (List.mem_append_left l2 ha)

/-- **Each source-derived alias equals its documented exact rational definition within the proved rounding bound
(2014)**: |stored Decimal − exact value of the DOCUMENTED formula| ≤ 2·10⁻²⁷·|exact value|, composed of
`aliases_src_close_2014` (general rounding theorem applied to the source tree) and the kernel-checked identity in ℚ
"exact value of the source formula = exact value of the documented formula" (`sameQ`; this is where the regrouping
`a·1.E21/b = a/(b·1.E-21)` is an identity). -/
theorem aliases_src_exact_def_2014 :
    withPC pcSrc2014 (fun pc => allPairs2 (closeTo aliasSpec pc) extended2014 aliasSpec) = true := by
  have hq : withPC pcSrc2014 (fun pc => allPairs2 (sameQ aliasSpec pc) extended2014 aliasSpec) = true :=
    withPC2_right (fun _ _ h => by unfold srcChecks at h; simp only [Bool.and_eq_true] at h; exact h.1.2.2.1) srcChecks2014_holds
  have hc := aliases_src_close_2014
  cases hp : pcSrc2014 with
  | none => rw [hp] at hc; simp [withPC] at hc
  | some pc =>
    rw [hp] at hc hq
    exact allPairs2_of _ _ _ (closeTo_of aliasSpec pc) _ _
      (allAliases_append_right _ initial2014 extended2014 hc) hq

/-- **… (2018)**, and the three derived constants against the exact values of `derived2018`'s formulas -/
theorem aliases_src_exact_def_2018 :
    withPC pcSrc2018 (fun pc => allPairs2 (closeTo aliasSpec pc) extended2018 aliasSpec &&
      allPairs2 (closeTo [] pc) initial2018 derived2018) = true := by
  have hq : withPC pcSrc2018 (fun pc => allPairs2 (sameQ aliasSpec pc) extended2018 aliasSpec &&
      allPairs2 (sameQ [] pc) initial2018 derived2018) = true :=
    withPC2_right (fun _ _ h => by unfold srcChecks at h; simp only [Bool.and_eq_true] at h ⊢; exact h.1.2.2) srcChecks2018_holds
  have hc := aliases_src_close_2018
  cases hp : pcSrc2018 with
  | none => rw [hp] at hc; simp [withPC] at hc
  | some pc =>
    rw [hp] at hc hq
    simp only [withPC, Bool.and_eq_true] at hq ⊢
    exact ⟨allPairs2_of _ _ _ (closeTo_of aliasSpec pc) _ _ (allAliases_append_right _ initial2018 extended2018 hc) hq.1,
           allPairs2_of _ _ _ (closeTo_of [] pc) _ _ (allAliases_append_left _ initial2018 extended2018 hc) hq.2⟩

/-! ### the existing table theorems, restated for the source-derived contexts -/

/-- every published constant retrievable, aliases follow the documentation, attributes/floats (2014) — the theorems of
`Props/C02Pc2014.lean` / `C02Ctx2014.lean` hold of the context built from the source-derived definitions -/
theorem shipped_theorems_src_2014 :
    withPC pcSrc2014 (fun pc => allRows (rowEntryOk pc Gen.Codata2014.doi) Gen.Codata2014.shipped) = true ∧
    withPC pcSrc2014 aliasChecks = true ∧
    withPC pcSrc2014 (fun pc => allAliases (aliasClose aliasSpec pc) aliasSpec) = true ∧
    withCtx ctxSrc2014 ctxChecks = true := by
  rw [context_src_eq_model_2014, ctx_src_eq_model_2014]
  exact ⟨constants_retrievable_2014, aliases_follow_spec_2014, aliases_close_2014, attrs_and_floats_2014⟩

/-- … (2018), with the 26 renames and the 3 derived constants -/
theorem shipped_theorems_src_2018 :
    withPC pcSrc2018 (fun pc => allRows (rowEntryOk pc Gen.Codata2018.doi) Gen.Codata2018.shipped) = true ∧
    withPC pcSrc2018 aliasChecks = true ∧
    withPC pcSrc2018 (fun pc => allAliases (aliasClose aliasSpec pc) aliasSpec) = true ∧
    withPC pcSrc2018 renamesOk = true ∧ withPC pcSrc2018 derivedChecks = true ∧
    withPC pcSrc2018 (fun pc => allAliases (aliasClose [] pc) derived2018) = true ∧
    withCtx ctxSrc2018 ctxChecks = true := by
  rw [context_src_eq_model_2018, ctx_src_eq_model_2018]
  exact ⟨constants_retrievable_2018, aliases_follow_spec_2018, aliases_close_2018, renames_2018, legacy_derived_2018,
    derived_close_2018, attrs_and_floats_2018⟩

/-- tests (not properties): list sizes of the translation -/
example : extended2014.length = 27 ∧ extended2018.length = 27 ∧ initial2018.length = 3 ∧ renames2018.length = 26 ∧
    transTable.length = 9 ∧ extras2014.length = 1 := by decide

end QcelVerif.Constants
