import QcelVerif.Props.C07Label
import QcelVerif.Props.C07Hash
import QcelVerif.Props.C11Concrete
/-!
# C07 — `Molecule → text → Molecule`, end to end, without the label hypothesis; the headline hash theorem

`Props/C07E2E.lean` proves the text round trip through the whole composed reader (`readMol`: text layer, `from_input_arrays`,
`from_arrays` with the C06 reconciler and the C05 stage) up to `hlab`.  `Props/C07Label.lean` proves `hlab` for carried atoms
(`Carried`: default isotope of a shipped element, conforming lower-case label).  Here the two are put together:

  * `read_write_validated_psi4_multi / _single / read_write_validated_psi4` — psi4 text, several / one / either number of
    fragments: no `hlab`, no `hcm`;
  * `vfc_single_fragment_absent` (C05: totals given, the single fragment's values absent) and `read_write_validated_xyzplus`
    — xyz+ text: no `hlab`, no `hcm`;
  * `text_roundtrip_same_hash` — the property's sentence "a Molecule survives Molecule → string → Molecule with an unchanged
    hash" for psi4 text in Bohr at ≥ 10 printed decimals, every hypothesis spelled out;
  * `deuterium_not_carried` — test: an isotope-substituted record (a fixed point of `from_arrays`) is written exactly like
    the plain one and read back as the plain one: the formats do not carry it.

What stays a hypothesis, and why: the TEXT CARRIES the record's integers (`hseps hfc hfm hc hmu`: `float()`/`int()` of the
printed charges and multiplicities are the record's — CPython number parsing is the parameter `rd`), the printed coordinates
convert to `g` (`hg`, same parameter) and pass the 0.1 closeness screen in the text's unit (`hscreen`; false in the known
finding class C07-tooclose-in-text-units), and — for the hash — `g` is within 1e-10 bohr of the stored coordinates, which are
not within 0.02e-8 of an 8-decimal rounding boundary (`printed_same_prep`).

PROPERTY-THEOREMS: read_write_validated_psi4_multi read_write_validated_psi4_single read_write_validated_psi4
  vfc_single_fragment_absent read_write_validated_xyzplus text_roundtrip_same_hash deuterium_not_carried
-/
namespace QcelVerif.TextToMol
open QcelVerif QcelVerif.MolText QcelVerif.FromArrays QcelVerif.Hash
open QcelVerif.Nucleus (rd64)

/-! ## `hlab` for the two writers -/

theorem projectPsi4_elbl (m : MolRec) : (projectPsi4 m).elbl = (allAtoms m).map nucPsi4 := by
  simp only [projectPsi4, allAtoms, List.map_flatMap]

/-- `hlab` of `read_write_validated_psi4_*_partial`, proved -/
theorem hlab_psi4 (angToAu : Rat) (m : MolRec) (r : Molrec) (h : ForallPairs Carried (allAtoms m) (recNucs r)) :
    mapE ((envC06 rd64 angToAu).recon textSettings) ((projectPsi4 m).elbl.map labelClue) = .ok (recNucs r) := by
  rw [projectPsi4_elbl]; exact hlab_of_carried angToAu _ _ h

/-- `hlab` of `read_write_validated_xyzplus_partial`, proved -/
theorem hlab_xyzplus (angToAu : Rat) (m : MolRec) (r : Molrec)
    (h : ForallPairs (fun a u => Carried a u ∧ u.label = "") (allAtoms m) (recNucs r)) :
    mapE ((envC06 rd64 angToAu).recon textSettings) ((projectXyzPlus m).elbl.map labelClue) = .ok (recNucs r) :=
  hlab_xyz_of_carried angToAu _ _ h

/-! ## (a) psi4 -/

/-- **(a) psi4, several fragments — full** (C06 model over the shipped table under `rd64`).  `r`: a validated record (fixed
point of `from_arrays`); `m`: the text-level record the psi4 writer prints (`RecOk`: printed numbers well-formed) whose atoms
are `r`'s, each CARRIED by the format (`hatoms`: symbol / real flag / label as stored, default isotope, conforming lower-case
label — `Props/C07Label.lean` shows nothing weaker can hold: the writers print no isotope information); the text carries
`r`'s integers and separators; the printed coordinates convert to `g`, which passes the closeness screen in the text's unit.
Then reading the written TEXT through the whole composed reader returns `r` with the text's unit and the printed coordinates
(name, comment, connectivity, `input_units_to_au`, `fix_symmetry` are not carried by the psi4 writer). -/
theorem read_write_validated_psi4_multi (angToAu : Rat) (i₀ : Inp) (r : Molrec)
    (hfix : fromArrays (envC06 rd64 angToAu) (asInput i₀ r) = .ok r)
    (m : MolRec) (hok : RecOk m) (hatoms : ForallPairs Carried (allAtoms m) (recNucs r))
    (g : List Rat) (hg : optMapM (floatOf rd64) (projectPsi4 m).geom = some g)
    (hscreen : validateGeometry dfltTooclose g = .ok g)
    (hseps : (projectPsi4 m).seps.map (fun (k : Nat) => (k : Int)) = r.seps)
    (hfc : optMapM (optOpt (chargeOf rd64)) (projectPsi4 m).fragChg = some (r.fc.map some))
    (hfm : optMapM (optOpt multOf) (projectPsi4 m).fragMult = some (r.fm.map some))
    (hc : optOpt (chargeOf rd64) (projectPsi4 m).molChg = some (some r.c))
    (hmu : optOpt multOf (projectPsi4 m).molMult = some (some r.m)) :
    readMol (envC06 rd64 angToAu) rd64 .psi4 (render (writePsi4 m)) =
      .mol { r with units := unitsOf (some m.bohr), iutau := none, name := none, comment := none, conn := none, geom := g,
                    fixCom := m.fixCom, fixOrient := m.fixOrient, fixSymm := none } :=
  read_write_validated_psi4_multi_partial (envC06 rd64 angToAu) rd64 i₀ r hfix m hok g hg hscreen
    (hlab_psi4 angToAu m r hatoms) hseps hfc hfm hc hmu

/-- **(a) psi4, one fragment — full**: the single `charge multiplicity` line is the fragment's, the totals are completed by
C05 (`vfc_single_totals_absent`). -/
theorem read_write_validated_psi4_single (angToAu : Rat) (i₀ : Inp) (r : Molrec)
    (hfix : fromArrays (envC06 rd64 angToAu) (asInput i₀ r) = .ok r)
    (hone : r.seps = []) (hfc1 : r.fc = [r.c]) (hfm1 : r.fm = [r.m])
    (m : MolRec) (hok : RecOk m) (hatoms : ForallPairs Carried (allAtoms m) (recNucs r))
    (g : List Rat) (hg : optMapM (floatOf rd64) (projectPsi4 m).geom = some g)
    (hscreen : validateGeometry dfltTooclose g = .ok g)
    (hseps : (projectPsi4 m).seps.map (fun (k : Nat) => (k : Int)) = r.seps)
    (hfc : optMapM (optOpt (chargeOf rd64)) (projectPsi4 m).fragChg = some (r.fc.map some))
    (hfm : optMapM (optOpt multOf) (projectPsi4 m).fragMult = some (r.fm.map some))
    (hc : optOpt (chargeOf rd64) (projectPsi4 m).molChg = some none)
    (hmu : optOpt multOf (projectPsi4 m).molMult = some none) :
    readMol (envC06 rd64 angToAu) rd64 .psi4 (render (writePsi4 m)) =
      .mol { r with units := unitsOf (some m.bohr), iutau := none, name := none, comment := none, conn := none, geom := g,
                    fixCom := m.fixCom, fixOrient := m.fixOrient, fixSymm := none } :=
  read_write_validated_psi4_single_partial (envC06 rd64 angToAu) rd64 i₀ r hfix hone hfc1 hfm1 m hok g hg hscreen
    (hlab_psi4 angToAu m r hatoms) hseps hfc hfm hc hmu

/-- the two shapes of psi4 text the writer prints: totals line + one `--` block per fragment, or (one fragment) a single
`charge multiplicity` line that the reader takes as the fragment's -/
def Psi4Shape (r : Molrec) (m : MolRec) : Prop :=
  (optOpt (chargeOf rd64) (projectPsi4 m).molChg = some (some r.c) ∧
   optOpt multOf (projectPsi4 m).molMult = some (some r.m)) ∨
  (r.seps = [] ∧ r.fc = [r.c] ∧ r.fm = [r.m] ∧
   optOpt (chargeOf rd64) (projectPsi4 m).molChg = some none ∧ optOpt multOf (projectPsi4 m).molMult = some none)

/-- **(a) psi4 — full, either shape.** -/
theorem read_write_validated_psi4 (angToAu : Rat) (i₀ : Inp) (r : Molrec)
    (hfix : fromArrays (envC06 rd64 angToAu) (asInput i₀ r) = .ok r)
    (m : MolRec) (hok : RecOk m) (hatoms : ForallPairs Carried (allAtoms m) (recNucs r))
    (g : List Rat) (hg : optMapM (floatOf rd64) (projectPsi4 m).geom = some g)
    (hscreen : validateGeometry dfltTooclose g = .ok g)
    (hseps : (projectPsi4 m).seps.map (fun (k : Nat) => (k : Int)) = r.seps)
    (hfc : optMapM (optOpt (chargeOf rd64)) (projectPsi4 m).fragChg = some (r.fc.map some))
    (hfm : optMapM (optOpt multOf) (projectPsi4 m).fragMult = some (r.fm.map some))
    (hshape : Psi4Shape r m) :
    readMol (envC06 rd64 angToAu) rd64 .psi4 (render (writePsi4 m)) =
      .mol { r with units := unitsOf (some m.bohr), iutau := none, name := none, comment := none, conn := none, geom := g,
                    fixCom := m.fixCom, fixOrient := m.fixOrient, fixSymm := none } := by
  rcases hshape with ⟨hc, hmu⟩ | ⟨hone, hfc1, hfm1, hc, hmu⟩
  · exact read_write_validated_psi4_multi angToAu i₀ r hfix m hok hatoms g hg hscreen hseps hfc hfm hc hmu
  · exact read_write_validated_psi4_single angToAu i₀ r hfix hone hfc1 hfm1 m hok hatoms g hg hscreen hseps hfc hfm hc hmu

/-! ## (a) xyz+ : the C05 step, then the theorem -/

open ChgMult in
theorem cands_totals_head (f : List Int) (c mu : Int) (hmu : 1 ≤ mu) :
    ∃ tl, candidates { frags := [f], c := some c, fc := [none], m := some mu, fm := [none], zgf := false }
      = { c := c, fc := [c], m := mu, fm := [mu] } :: tl := by
  have hmax : max mu 1 = mu := by omega
  have h1 : highSpin (applyDefault (removeFirstNone [none]) 2) = 1 := by decide
  have h2 : highSpin (applyDefault (removeFirstNone [none]) 1) = 1 := by decide
  have hlo : mu - 1 + 1 = mu := by omega
  simp only [candidates, candC, candFc, candM, candFm, missingMult, sumKnown, ChgMult.isum, List.any_cons, List.any_nil,
    Option.isNone_none, Bool.or_false, if_true, h1, h2, hlo, hmax, irange_self, List.map_cons, List.map_nil,
    Option.getD_none, Option.getD_some, List.foldr_cons, List.foldr_nil, List.reverse_cons, List.reverse_nil,
    List.nil_append, dedup, prod, List.flatMap_cons, List.cons_append, Int.sub_zero, Int.add_zero]
  exact ⟨_, rfl⟩

open ChgMult in
/-- **C05 on a single-fragment xyz+ text.**  The xyz+ title line gives the TOTAL charge and multiplicity; the reader passes no
fragment values.  `validate_and_fill_chgmult` with the totals given and the single fragment's values absent returns what it
returns with everything given: its first candidate is (S3: `fc = c − Σ known`, S6: `fm = m`) the full specification, and
the rules agree on it (R6/R7 hold vacuously, the high-spin rule R8 is `m = m`). -/
theorem vfc_single_fragment_absent (f : List Int) (c mu : Int) (o : Out)
    (h : vfc { frags := [f], c := some c, fc := [some c], m := some mu, fm := [some mu], zgf := false } = .ok o) :
    vfc { frags := [f], c := some c, fc := [none], m := some mu, fm := [none], zgf := false } = .ok o := by
  unfold vfc at h ⊢
  simp only [effective, Bool.false_and, Bool.false_eq_true, if_false, cands_full] at h ⊢
  simp only [wellFormed, precheckFails, badMult, List.any_cons, List.any_nil, Bool.or_false, List.length_cons, List.length_nil,
    beq_self_eq_true, Bool.and_self, Bool.not_true, Bool.false_eq_true, if_false, Bool.or_self] at h ⊢
  split at h
  · cases h
  · rename_i hb
    simp only [hb]
    simp only [List.find?_cons, List.find?_nil] at h
    cases hr : rulesOk { frags := [f], c := some c, fc := [some c], m := some mu, fm := [some mu], zgf := false }
        { c := c, fc := [c], m := mu, fm := [mu] } with
    | false => rw [hr] at h; cases h
    | true =>
      rw [hr] at h
      have hmu : 1 ≤ mu := by
        simp only [rulesOk, Bool.and_eq_true, decide_eq_true_eq] at hr
        exact hr.1.1.1.1.1.1.1.1.2.1
      obtain ⟨tl, htl⟩ := cands_totals_head f c mu hmu
      have hr' : rulesOk { frags := [f], c := some c, fc := [none], m := some mu, fm := [none], zgf := false }
          { c := c, fc := [c], m := mu, fm := [mu] } = true := by
        rw [← hr]
        simp [rulesOk, keeps, keepsAll, highSpinRequired, highSpin_single]
      rw [htl, List.find?_cons, hr']
      exact h

/-- **(a) xyz+ — full.**  The xyz+ text carries symbols, ghost markers, unit, coordinates and the TOTAL charge and
multiplicity only.  For a validated single-fragment record without user labels (`hatoms`: every atom carried, label empty)
whose one fragment holds the molecular charge and multiplicity (`hfc1 hfm1`), reading the written text returns `r` with the
text's unit, the printed coordinates and both frame flags off. -/
theorem read_write_validated_xyzplus (angToAu : Rat) (i₀ : Inp) (r : Molrec)
    (hfix : fromArrays (envC06 rd64 angToAu) (asInput i₀ r) = .ok r)
    (hseps : r.seps = []) (hfc1 : r.fc = [r.c]) (hfm1 : r.fm = [r.m])
    (natS : Str) (m : MolRec) (hok : XyzOk natS m) (hname : Clean m.name) (hne : allAtoms m ≠ [])
    (hatoms : ForallPairs (fun a u => Carried a u ∧ u.label = "") (allAtoms m) (recNucs r))
    (g : List Rat) (hg : optMapM (floatOf rd64) (projectXyzPlus m).geom = some g)
    (hscreen : validateGeometry dfltTooclose g = .ok g)
    (hc : chargeOf rd64 m.chg.parts = some r.c) (hmu : multOf m.mult = some r.m) :
    readMol (envC06 rd64 angToAu) rd64 .xyzPlus (render (writeXyz natS m)) =
      .mol { r with units := unitsOf (some m.bohr), iutau := none, name := none, comment := none, conn := none, geom := g,
                    fixCom := false, fixOrient := false, fixSymm := none } := by
  apply read_write_validated_xyzplus_partial (envC06 rd64 angToAu) rd64 i₀ r hfix natS m hok hname hne g hg hscreen
    (hlab_xyzplus angToAu m r hatoms) hseps hc hmu
  have hfull := chgmultStage_ok (stages_of_fix hfix).2.1
  rw [hseps, hfc1, hfm1] at hfull
  rw [hfc1, hfm1]
  simp only [List.map_cons, List.map_nil] at hfull
  obtain ⟨f, hf⟩ : ∃ f, npSplit (zeff r.elez r.real) [] = [f] :=
    ⟨pySlice (zeff r.elez r.real) 0 ((zeff r.elez r.real).length : Int), by simp [npSplit, splitAux]⟩
  rw [hf] at hfull
  unfold chgmultStage
  simp only [hf, vfc_single_fragment_absent f r.c r.m _ hfull]

/-! ## headline: the hash survives `Molecule → psi4 text → Molecule` -/

/-- **A Molecule survives Molecule → string → Molecule with an unchanged hash** (psi4 text, Bohr, ≥ 10 printed decimals).

Hypotheses, all of them:
 * `hfix`   — `r` is a validated molecule record: a fixed point of `from_arrays` (C04 model, C06 reconciler over the shipped
              periodic table, C05 stage; what `from_arrays_idempotent_c06_plain` / `from_arrays_second_pass_c06` conclude);
 * `hunits` — stored in Bohr (so `r.geom` IS the geometry `get_hash` looks at); `hconn` — no connectivity (no text format
              carries bonds);
 * `hok`    — `m` is what the psi4 writer is given: well-formed printed numbers, symbols, labels (`RecOk`);
              `hbohr` — written with `units='Bohr'`;
 * `hatoms` — FORMAT-CARRIABILITY: `m`'s atoms are `r`'s atoms (symbol, real flag, label as stored), each the default
              isotope of a shipped element with a grammar-conformant lower-case label (no format carries masses);
 * `hg`     — `float()` of the printed coordinates is `g`; `hscreen` — `g` passes the 0.1 closeness screen (in the text's
              unit = Bohr here, the same screen the molecule passed when it was built);
 * `hseps hfc hfm hshape` — the printed integers are the record's fragment boundaries, charges and multiplicities, in one
              of the two shapes the writer prints;
 * `hprec`  — ≥ 10 printed decimals: each coordinate read back is within 1e-10 bohr of the stored one, which is not within
              0.02e-8 of an 8-decimal rounding boundary and below 2^45·1e-8 in size (`printed_same_prep`);
 * `hfl`    — the hash's product rounding is within 1/256 (`FlOk`; proved for the concrete double rounding: `flOk_concrete`).
Conclusion: the composed reader returns a molecule record — `r` with the printed coordinates — whose unit is still Bohr and
whose C11 hash (`Molecule.get_hash`) equals the original's. -/
theorem text_roundtrip_same_hash {D} (P : Params D) (hfl : FlOk P.fl) (angToAu : Rat) (i₀ : Inp) (r : Molrec)
    (hfix : fromArrays (envC06 rd64 angToAu) (asInput i₀ r) = .ok r)
    (hunits : r.units = sBohr) (hconn : r.conn = none)
    (m : MolRec) (hok : RecOk m) (hbohr : m.bohr = true)
    (hatoms : ForallPairs Carried (allAtoms m) (recNucs r))
    (g : List Rat) (hg : optMapM (floatOf rd64) (projectPsi4 m).geom = some g)
    (hscreen : validateGeometry dfltTooclose g = .ok g)
    (hseps : (projectPsi4 m).seps.map (fun (k : Nat) => (k : Int)) = r.seps)
    (hfc : optMapM (optOpt (chargeOf rd64)) (projectPsi4 m).fragChg = some (r.fc.map some))
    (hfm : optMapM (optOpt multOf) (projectPsi4 m).fragMult = some (r.fm.map some))
    (hshape : Psi4Shape r m)
    (hprec : List.Forall₂ (fun x x' => ∃ n : Int, |x * (10 : Rat) ^ 8| ≤ 2 ^ 45 - 1 ∧
        |x * (10 : Rat) ^ 8 - n| ≤ 48 / 100 ∧ |x' - x| * (10 : Rat) ^ 8 ≤ 1 / 100) r.geom g) :
    ∃ r', readMol (envC06 rd64 angToAu) rd64 .psi4 (render (writePsi4 m)) = .mol r' ∧
      r' = readBack r sBohr g m.fixCom m.fixOrient none ∧ r'.units = r.units ∧
      hash P (molOfRec r' r'.geom) = hash P (molOfRec r r.geom) := by
  refine ⟨readBack r sBohr g m.fixCom m.fixOrient none, ?_, rfl, hunits.symm, ?_⟩
  · have h := read_write_validated_psi4 angToAu i₀ r hfix m hok hatoms g hg hscreen hseps hfc hfm hshape
    rw [hbohr] at h
    exact h
  · exact roundtrip_same_hash P r hconn sBohr g m.fixCom m.fixOrient none r.geom g (printed_same_prep hfl _ _ hprec)

/-! ## non-vacuity (tests, labelled as tests) -/

section NonVacuity
open QcelVerif.Nucleus

local instance exDecide' {ε α} [DecidableEq ε] [DecidableEq α] : DecidableEq (Except ε α) := fun a b =>
  match a, b with
  | .ok x, .ok y => if h : x = y then isTrue (h ▸ rfl) else isFalse (fun e => h (Except.ok.inj e))
  | .error x, .error y => if h : x = y then isTrue (h ▸ rfl) else isFalse (fun e => h (Except.error.inj e))
  | .ok _, .error _ => isFalse (fun e => by cases e)
  | .error _, .ok _ => isFalse (fun e => by cases e)

set_option maxRecDepth 100000

/-- test: every hypothesis of `read_write_validated_psi4_multi` is met by a two-fragment molecule with a labelled ghost atom;
`hlab` is now supplied by `exCarried` through the theorems of `Props/C07Label.lean`, not by evaluation -/
example : readMol (envC06 rd64 1) rd64 .psi4 (render (writePsi4 exM)) =
    .mol { exR with units := unitsOf (some true), iutau := none, name := none, comment := none, conn := none,
                    geom := [0, 0, 0, 0, 0, 5 / 2], fixCom := true, fixOrient := false, fixSymm := none } :=
  read_write_validated_psi4_multi 1 hdoInp exR exR_fix exM exM_ok exCarried [0, 0, 0, 0, 0, 5 / 2]
    (by decide +kernel) (by decide +kernel) (by decide +kernel) (by decide +kernel) (by decide +kernel)
    (by decide +kernel) (by decide +kernel)

/-- test: … and of `read_write_validated_psi4_single` by the same atoms as one fragment -/
example : readMol (envC06 rd64 1) rd64 .psi4 (render (writePsi4 exM1)) =
    .mol { exR1 with units := unitsOf (some true), iutau := none, name := none, comment := none, conn := none,
                     geom := [0, 0, 0, 0, 0, 5 / 2], fixCom := true, fixOrient := false, fixSymm := none } :=
  read_write_validated_psi4_single 1 hdoInp exR1 exR1_fix rfl rfl rfl exM1 exM1_ok exCarried1
    [0, 0, 0, 0, 0, 5 / 2] (by decide +kernel) (by decide +kernel) (by decide +kernel) (by decide +kernel)
    (by decide +kernel) (by decide +kernel) (by decide +kernel)

/-- test: … and of the either-shape theorem through its first disjunct -/
example : readMol (envC06 rd64 1) rd64 .psi4 (render (writePsi4 exM)) =
    .mol { exR with units := unitsOf (some true), iutau := none, name := none, comment := none, conn := none,
                    geom := [0, 0, 0, 0, 0, 5 / 2], fixCom := true, fixOrient := false, fixSymm := none } :=
  read_write_validated_psi4 1 hdoInp exR exR_fix exM exM_ok exCarried [0, 0, 0, 0, 0, 5 / 2]
    (by decide +kernel) (by decide +kernel) (by decide +kernel) (by decide +kernel) (by decide +kernel)
    (Or.inl ⟨by decide +kernel, by decide +kernel⟩)

/-- test: C05, one helium atom, totals only (`vfc_single_fragment_absent`) -/
example : ChgMult.vfc { frags := [[2]], c := some 0, fc := [none], m := some 1, fm := [none], zgf := false }
    = .ok { c := 0, fc := [0], m := 1, fm := [1] } :=
  vfc_single_fragment_absent [2] 0 1 _ (by decide)

/-- xyz+: the same two helium atoms WITHOUT user label, one fragment -/
def exGh0 : Atom := { exGh with lbl := [] }
def exMx : MolRec := { exM1 with frags := [⟨⟨false, "0".toList⟩, "1".toList, [exHe, exGh0]⟩] }
def exRx : Molrec := { exR1 with elbl := ["", ""] }

/-- test [decide +kernel]: `exRx` is a fixed point of the whole `from_arrays` pipeline -/
theorem exRx_fix : fromArrays (envC06 rd64 1) (asInput hdoInp exRx) = .ok exRx := by decide +kernel

theorem exGh0_ok : AtomOk exGh0 := ⟨⟨by decide, by decide, by decide⟩, Or.inl rfl, exCoordOk.1, exCoordOk.1, exCoordOk.2⟩

theorem exMx_ok : XyzOk "2".toList exMx := by
  refine ⟨⟨by decide, by decide⟩, ⟨by decide, by decide⟩, ⟨by decide, by decide⟩, ?_⟩
  intro a ha
  simp only [allAtoms, exMx, List.flatMap_cons, List.flatMap_nil, List.append_nil, List.mem_cons, List.not_mem_nil,
    or_false] at ha
  rcases ha with rfl | rfl
  · exact exHe_ok
  · exact exGh0_ok

theorem exCarriedX : ForallPairs (fun a u => Carried a u ∧ u.label = "") (allAtoms exMx) (recNucs exRx) :=
  ⟨⟨⟨rfl, rfl, rfl, heDefault _ _, Or.inl rfl, rfl⟩, rfl⟩, ⟨⟨rfl, rfl, rfl, heDefault _ _, Or.inl rfl, rfl⟩, rfl⟩, trivial⟩

/-- test: every hypothesis of `read_write_validated_xyzplus` is met (a real and a ghost helium atom, Bohr); the conclusion
by the theorem -/
example : readMol (envC06 rd64 1) rd64 .xyzPlus (render (writeXyz "2".toList exMx)) =
    .mol { exRx with units := unitsOf (some true), iutau := none, name := none, comment := none, conn := none,
                     geom := [0, 0, 0, 0, 0, 5 / 2], fixCom := false, fixOrient := false, fixSymm := none } :=
  read_write_validated_xyzplus 1 hdoInp exRx exRx_fix rfl rfl rfl "2".toList exMx exMx_ok (by intro c hc; cases hc)
    (by decide) exCarriedX [0, 0, 0, 0, 0, 5 / 2] (by decide +kernel) (by decide +kernel) (by decide +kernel)
    (by decide +kernel)

/-- the stored coordinates of `exR` printed with ≥ 10 decimals come back exactly: the precision hypothesis holds -/
theorem exPrec : List.Forall₂ (fun x x' => ∃ n : Int, |x * (10 : Rat) ^ 8| ≤ 2 ^ 45 - 1 ∧
    |x * (10 : Rat) ^ 8 - n| ≤ 48 / 100 ∧ |x' - x| * (10 : Rat) ^ 8 ≤ 1 / 100)
    exR.geom [0, 0, 0, 0, 0, 5 / 2] := by
  have z : ∃ n : Int, |(0 : Rat) * (10 : Rat) ^ 8| ≤ 2 ^ 45 - 1 ∧ |(0 : Rat) * (10 : Rat) ^ 8 - n| ≤ 48 / 100 ∧
      |(0 : Rat) - 0| * (10 : Rat) ^ 8 ≤ 1 / 100 := ⟨0, by norm_num, by norm_num, by norm_num⟩
  refine .cons z (.cons z (.cons z (.cons z (.cons z (.cons ⟨250000000, ?_, ?_, ?_⟩ .nil))))) <;> norm_num [abs_le]

/-- test: every hypothesis of the headline theorem is met (two fragments, a labelled ghost atom, Bohr, `no_com`), for ANY
mass table and digest function of the concrete C11 parameters; the hash equality is by the theorem -/
example {D : Type} (massOf : List Char → Dbl) (sha1 : List Char → D) :
    ∃ r', readMol (envC06 rd64 1) rd64 .psi4 (render (writePsi4 exM)) = .mol r' ∧
      r' = readBack exR sBohr [0, 0, 0, 0, 0, 5 / 2] true false none ∧ r'.units = exR.units ∧
      hash (concreteParams massOf sha1) (molOfRec r' r'.geom) = hash (concreteParams massOf sha1) (molOfRec exR exR.geom) :=
  text_roundtrip_same_hash (concreteParams massOf sha1) (flOk_concreteParams massOf sha1) 1 hdoInp exR exR_fix rfl rfl exM exM_ok rfl
    exCarried [0, 0, 0, 0, 0, 5 / 2] (by decide +kernel) (by decide +kernel) (by decide +kernel) (by decide +kernel)
    (by decide +kernel) (Or.inl ⟨by decide +kernel, by decide +kernel⟩) exPrec

/-! ### isotopes are not carried: a kernel-checked witness -/

/-- one deuterium atom (`A = 2`, the mass of ²H) at the origin, in Bohr -/
def exD : Molrec :=
  { units := sBohr, iutau := none, name := none, comment := none, conn := none, geom := [0, 0, 0],
    elea := [2], elez := [1], elem := ["H"], mass := [4535354008443527 / 2251799813685248], real := [true], elbl := [""],
    seps := [], c := 0, fc := [0], m := 2, fm := [2], fixCom := false, fixOrient := false, fixSymm := none }
/-- the same molecule with the default isotope ¹H -/
def exH : Molrec := { exD with elea := [1], mass := [2269420219802843 / 2251799813685248] }

def exHtext : MolRec :=
  { chg := ⟨false, "0".toList⟩, mult := "2".toList,
    frags := [⟨⟨false, "0".toList⟩, "2".toList, [{ sym := "H".toList, real := true, lbl := [], x := z8, y := z8, z := z8 }]⟩],
    bohr := true, fixCom := false, fixOrient := false, name := [] }

/-- **Isotope information is not carried — witness** [decide +kernel: the whole pipeline on the shipped table].  The
deuterium record `exD` and the plain record `exH` are both validated records (fixed points of `from_arrays`); the writers
print the SAME text for them (`writeMol_ignores_isotopes`; here: `toTextRec` of both is `exHtext`); reading that text returns
`exH`, not `exD`.  So `hlab` — and the round trip — necessarily fails for `exD`: the hypothesis `Carried` (default isotope)
cannot be dropped. -/
theorem deuterium_not_carried :
    fromArrays (envC06 rd64 1) (asInput hdoInp exD) = .ok exD ∧
    fromArrays (envC06 rd64 1) (asInput hdoInp exH) = .ok exH ∧
    toTextRec exD true [z8, z8, z8] [] = exHtext ∧ toTextRec exH true [z8, z8, z8] [] = exHtext ∧
    readMol (envC06 rd64 1) rd64 .psi4 (writeMol .psi4 exD true [z8, z8, z8] []) = .mol exH ∧ exH ≠ exD := by
  refine ⟨by decide +kernel, by decide +kernel, by decide +kernel, by decide +kernel, by decide +kernel, by decide⟩

end NonVacuity

end QcelVerif.TextToMol
