import QcelVerif.Model.PTShipped
import QcelVerif.Gen.PTAnchor
import QcelVerif.Gen.Srd144Saw
import QcelVerif.Gen.Srd144
/-!
C01 table-wide theorems against an anchor that is **not** read from the repository's build script.

`shipped_faithful` proves `rebuild(raw JSON, side tables of build_periodic_table.py) = shipped`; the side
tables (element names, longest-lived isotopes, renames, aliases) live in the repository next to the data
file, so a regeneration that alters one of them *and* the data file keeps that theorem true.  Here the
same facts come from `Gen/PTAnchor.lean` — generated from the literal textbook table embedded in
`harness/c01_anchor.py` (NIST SP 966 / IUPAC), not from `/repo` — and from the raw
"Standard Atomic Weight" strings of the SRD-144 JSON (`Gen/Srd144Saw.lean`), where NIST prints the mass
number of the longest-lived isotope in brackets for elements without stable isotopes.
Kernel evaluation (`decide +kernel`) over the whole tables.
-/
namespace QcelVerif.PT
open QcelVerif QcelVerif.PStr
set_option maxRecDepth 100000

/-- (Z, symbol, name, default mass number, no-stable-isotope?) -/
abbrev AnchorRow := Nat × Nat × Nat × Nat × Bool

/-- the anchor rows the shipped table has element rows for (SRD-144 stops at Z = 117) -/
def anchorPrefix : List AnchorRow := Gen.PTAnchor.rows.take (shipped.elements.length - 1)

/-- the explicit nuclide label `symbol ++ str(A)` of the anchor's default isotope exists, belongs to this
element and carries this mass number; and int Z, str Z, symbol and name all return that mass number and
**that label's mass** (the bare element *is* that isotope). -/
def anchorRowOk (r : AnchorRow) : Bool :=
  let sym := unpack r.2.1
  let lbl : PyVal := .str (sym ++ natDigits r.2.2.2.1)
  shipped.toE lbl false == some r.2.1 && shipped.toZ lbl false == some r.1 &&
  shipped.toA lbl == some r.2.2.2.1 && (shipped.toMass lbl).isSome &&
  [PyVal.int r.1, .str (natDigits r.1), .str sym, .str (unpack r.2.2.1)].all (fun a =>
    shipped.toA a == some r.2.2.2.1 && shipped.toMass a == shipped.toMass lbl)

/-- **Element rows and default isotopes are the textbook ones**: the shipped element rows after the
dummy are exactly (Z, symbol, name) of the embedded table for Z = 1, 2, …; all naturally occurring
elements are there; and a bare element — by atomic number, digit string, symbol or name — means the
embedded table's isotope (most abundant, or longest-lived if there is no stable one), with the mass of
that isotope's own row. -/
theorem bare_default_textbook :
    shipped.elements.drop 1 = anchorPrefix.map (fun r => (r.1, r.2.1, r.2.2.1)) ∧
    92 ≤ anchorPrefix.length ∧
    anchorPrefix.all anchorRowOk = true := by
  refine ⟨by decide +kernel, by decide +kernel, by decide +kernel⟩

/-- TEST (concrete instance, technetium): `Tc`, `43`, `'43'`, `Technetium` mean Tc98. -/
example : anchorRowOk (43, pack [84, 99], pack [84, 101, 99, 104, 110, 101, 116, 105, 117, 109], 98, true) = true := by
  decide +kernel

/-- NIST's bracket notation `[A]` in "Standard Atomic Weight" -/
def bracketA (s : Bytes) : Option Nat :=
  match s with
  | 91 :: t =>
      let d := t.takeWhile isDigit
      if !d.isEmpty && t.dropWhile isDigit == [93] then some (digitsVal d) else none
  | _ => none

def sawBracket (e : Nat × Nat × Option Nat) : Option Nat := e.2.2.bind (fun w => bracketA (unpack w))

/-- an SRD-144 element whose standard atomic weight is a bracketed mass number is, in the anchor,
an element without stable isotope whose longest-lived isotope has that mass number -/
def sawRowOk (e : Nat × Nat × Option Nat) : Bool :=
  match sawBracket e with
  | none => true
  | some a =>
      Gen.PTAnchor.rows.any (fun r =>
        r.2.1 == e.1 && natDigits r.1 == unpack e.2.1 && r.2.2.2.1 == a && r.2.2.2.2)

def assocNat (l : List (Nat × Nat)) (k : Nat) : Option Nat :=
  match l with
  | [] => none
  | (a, b) :: t => if a == k then some b else assocNat t k

/-- an SRD-144 element record (symbol, Z, isotopes) against the anchor row of the same Z: same symbol
(after the 2016 renames), and "no stable isotope" in the anchor iff NIST lists no isotopic composition -/
def dataRowOk (e : Nat × Nat × List (Nat × Nat × Nat × Option Nat)) : Bool :=
  Gen.PTAnchor.rows.any (fun r =>
    natDigits r.1 == unpack e.2.1 &&
    r.2.1 == (assocNat Gen.PTAnchor.renamed e.1).getD e.1 &&
    r.2.2.2.2 == e.2.2.all (fun iso => iso.2.2.2.isNone))

/-- **The embedded anchor agrees with what the raw NIST file itself says**: every bracketed standard
atomic weight `[A]` of SRD-144 (there are some) is the anchor's longest-lived isotope of that element, and
every SRD-144 element has the anchor's symbol at its atomic number and is flagged "no stable isotope"
exactly when NIST gives it no isotopic composition. -/
theorem anchor_agrees_with_srd144 :
    Gen.Srd144Saw.saw.all sawRowOk = true ∧
    Gen.Srd144Saw.saw.any (fun e => (sawBracket e).isSome) = true ∧
    Gen.Srd144.data.all dataRowOk = true := by
  refine ⟨by decide +kernel, by decide +kernel, by decide +kernel⟩

/-- TEST: `[98]` is a bracket, an interval or a plain value is not. -/
example : bracketA [91, 57, 56, 93] = some 98 ∧ bracketA [91, 49, 46, 48, 44, 49, 46, 49, 93] = none ∧
    bracketA [52, 46, 48, 40, 50, 41] = none := by decide

end QcelVerif.PT
