import QcelVerif.Lemmas.Dec
import QcelVerif.Props.C02Nist2014
import QcelVerif.Props.C02Srd2014
import QcelVerif.Props.C02Nist2018
import QcelVerif.Props.C02Pc2014
import QcelVerif.Props.C02Pc2018
import QcelVerif.Props.C02Ctx2014
import QcelVerif.Props.C02Ctx2018
/-!
# C02 — CODATA constants are exact; derived QC aliases follow their definitions (index)

 * **tables** (`decide +kernel` over the *generated* tables, re-checked whenever a data file changes):
   `Codata.shipped_eq_nist_2014`, `Codata.shipped_eq_srd121_2014`, `Codata.shipped_eq_nist_2018`;
 * **context contents** (kernel evaluation of the model's `__init__` on the generated tables):
   `Constants.constants_retrievable_2014/2018`, `aliases_follow_spec_2014/2018`, `renames_2018`,
   `legacy_derived_2018`, `attrs_and_floats_2014/2018`;
 * **general**: `Constants.get_case_insensitive`, `Constants.get_is_item_lower`.

Not proved (partial): general per-operation error bounds for `Dec.mul/div`
-- FULL: ∀ a b, |val (mul a b) − val a · val b| ≤ 5·10⁻²⁸ · |val a · val b|  (and likewise div, add, sub);
instead the bound 2·10⁻²⁷ is kernel-checked on every alias and derived constant of both sets
(`aliasClose`), and 24 of the 27 aliases are shown to be exact.
-/
