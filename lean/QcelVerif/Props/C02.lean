import QcelVerif.Lemmas.Dec
import QcelVerif.Props.C02Nist2014
import QcelVerif.Props.C02Srd2014
import QcelVerif.Props.C02Nist2018
import QcelVerif.Props.C02Pc2014
import QcelVerif.Props.C02Pc2018
import QcelVerif.Props.C02Ctx2014
import QcelVerif.Props.C02Ctx2018
import QcelVerif.Props.C02Dec
/-!
# C02 — CODATA constants are exact; derived QC aliases follow their definitions (index)

 * **tables** (`decide +kernel` over the *generated* tables, re-checked whenever a data file changes):
   `Codata.shipped_eq_nist_2014`, `Codata.shipped_eq_srd121_2014`, `Codata.shipped_eq_nist_2018`;
 * **context contents** (kernel evaluation of the model's `__init__` on the generated tables):
   `Constants.constants_retrievable_2014/2018`, `aliases_follow_spec_2014/2018`, `renames_2018`,
   `legacy_derived_2018`, `attrs_and_floats_2014/2018`;
 * **general**: `Constants.get_case_insensitive`, `Constants.get_is_item_lower`.

General error bounds of the decimal model (`Props/C02Dec.lean`, all operands, no table):
`Dec.mul_rel_err`, `Dec.div_rel_err`, `Dec.add_rel_err`, `Dec.sub_rel_err`
(`|val (op a b) − exact| ≤ 5·10⁻²⁸·|exact|`; only a zero divisor is excluded and it is refused),
the exactness theorems `Dec.mul_exact/add_exact/sub_exact/div_exact`, and the composed bound
`Constants.evalDec_rel_err` for every alias formula over ARBITRARY constant values, from which the
`2·10⁻²⁷` of `aliasClose` follows (`aliasClose_of_aliasOk`, shipped instances `aliases_close_2014/2018`,
`derived_close_2018`).  This closes the former `FULL:` gap of this file (until the wave-1 extension the
2·10⁻²⁷ bound was only kernel-checked per table row; that check is kept).

Definitions regenerated from the source (`Props/C02Src.lean`, a separate build target because it imports the generated
`Gen/ContextSrc.lean`; translator `harness/c02_src.py`): the alias tuples of `context.py` with their Decimal expression
trees, the rename dict, the derived constants, the calorie insertion and the translate table are proved equal to this
model's (`aliases_src_eq_spec_symbolic`, `aliases_src_eq_spec_value_2014/2018`, `context_src_eq_model_2014/2018`,
`renames_src_eq_model`, `derived_src_eq_model`, `mangle_src_eq_model`, `aliases_src_exact_def_2014/2018`, …).

Still not proved in general (partial): `float(Decimal)` is the nearest double
-- FULL: ∀ d, ∀ double y, |val d − f64Val (toF64 d)| ≤ |val d − y|
it is kernel-checked (`nearestOk`: neither neighbouring double is closer, ties to even) for every
entry of both shipped contexts (`attrs_and_floats_2014/2018`) and compared bit for bit with CPython
on a random stream.  The exponent limits Emin/Emax of the decimal context are not modelled.
-/
