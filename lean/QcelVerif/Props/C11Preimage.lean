import QcelVerif.Lemmas.HashRender
/-!
# C11 — the json preimage of the hash determines the canonical data (the "only if" direction)

`get_hash` concatenates ten `json.dumps` strings without separators.  Eight of them are JSON arrays
(or `null`), which are self-delimiting; the two adjacent scalars `molecular_charge`,
`molecular_multiplicity` are not: `"0.0" ++ "11" = "0.01" ++ "1"`.  For a validated molecule the
charge is tied to the fragment charges (which ARE delimited), and that is what the proof uses.

Float printing is a parameter: `Params.Ok` states what is assumed of CPython's `repr` (injective,
non-empty, never emits `,` `[` `]`).  SHA-1 does not occur here (see `hash_eq_iff_fields_agree`).

PROPERTY-THEOREMS: preimage_injective  preimage_collision_unvalidated
-/
namespace QcelVerif.Hash

/-- What is assumed of `repr(float)` as used by `json.dumps`. -/
structure Params.Ok {D} (P : Params D) : Prop where
  reprF : ∀ k, Atomic (fun _ : Rd => True) (P.reprF k)
  reprB : Atomic (fun _ : Rat => True) P.reprB

def Rd.toInt (r : Rd) : Int := if r.neg then -(r.mag : Int) else (r.mag : Int)
def Rd.ofInt (n : Int) : Rd := ⟨decide (n < 0), n.natAbs⟩

def isum : List Int → Int
  | [] => 0
  | x :: t => x + isum t

/-- The invariants of a validated molecule that decoding needs: element symbols are letters, and the
molecular charge is the sum of the fragment charges (`validate_and_fill_chgmult`; exact for the
integer charges of the property's scope, where rounding to 4 decimals is the identity). -/
structure Canon.Valid (c : Canon) : Prop where
  letters : ∀ s ∈ c.symbols, Letters s
  chargeTied : c.charge = Rd.ofInt (isum (c.fragCharges.map Rd.toInt))

theorem renderBond_sd {reprB : Rat → List Char} (hB : Atomic (fun _ : Rat => True) reprB) :
    SD (fun _ : Bond => True) (renderBond reprB) where
  head a _ := ⟨'[', _, rfl, by decide⟩
  split x y s t _ _ h _ _ := by
    simp only [renderBond, List.cons_append, List.append_assoc, List.cons.injEq, true_and, List.nil_append] at h
    have comma : ∀ r : List Char, ∀ c r', (',' :: r) = c :: r' → tokCh c = false := by
      intro r c r' e; injection e with e1 _; subst e1; decide
    have brack : ∀ r : List Char, ∀ c r', (']' :: r) = c :: r' → tokCh c = false := by
      intro r c r' e; injection e with e1 _; subst e1; decide
    obtain ⟨h1, h2⟩ := tok_split (showNat_atomic.tok x.a trivial) (showNat_atomic.tok y.a trivial) (comma _) (comma _) h
    simp only [List.cons.injEq, true_and] at h2
    obtain ⟨h3, h4⟩ := tok_split (showNat_atomic.tok x.b trivial) (showNat_atomic.tok y.b trivial) (comma _) (comma _) h2
    simp only [List.cons.injEq, true_and] at h4
    obtain ⟨h5, h6⟩ := tok_split (hB.tok x.order trivial) (hB.tok y.order trivial) (brack _) (brack _) h4
    simp only [List.cons.injEq, true_and] at h6
    refine ⟨?_, h6⟩
    cases x; cases y
    simp only [Bond.mk.injEq]
    exact ⟨showNat_inj h1, showNat_inj h3, hB.inj _ _ trivial trivial h5⟩

theorem renderConn_inj {reprB : Rat → List Char} (hB : Atomic (fun _ : Rat => True) reprB) :
    ∀ a b : Option (List Bond), renderConn reprB a = renderConn reprB b → a = b
  | none, none, _ => rfl
  | none, some l, h => by
      have := congrArg List.head? h
      simp [renderConn, renderList] at this
  | some l, none, h => by
      have := congrArg List.head? h
      simp [renderConn, renderList] at this
  | some l, some l', h => by
      simp only [renderConn] at h
      have := renderList_inj (renderBond_sd hB) l l' [] [] (fun _ _ => trivial) (fun _ _ => trivial) (by simpa using h)
      rw [this.1]

/-- **The preimage is injective on validated canonical data.** -/
theorem preimage_injective {D} (P : Params D) (hP : P.Ok) (c c' : Canon) (hc : c.Valid) (hc' : c'.Valid)
    (h : preimage P c = preimage P c') : c = c' := by
  unfold preimage at h
  have T : ∀ {α} (l : List α), ∀ x ∈ l, (fun _ : α => True) x := fun _ _ _ => trivial
  -- symbols, masses: self-delimiting arrays at the front
  obtain ⟨e1, h⟩ := renderList_inj showStr_atomic.sd _ _ _ _ hc.letters hc'.letters h
  obtain ⟨e2, h⟩ := renderList_inj (hP.reprF MASS_NOISE).sd _ _ _ _ (T _) (T _) h
  -- the two adjacent scalars, up to the `[` of the next array
  rw [← List.append_assoc, ← List.append_assoc (P.reprF CHARGE_NOISE c'.charge)] at h
  have open_ : ∀ (f : Bool → List Char) (l : List Bool) (r : List Char), ∀ ch r', renderList f l ++ r = ch :: r' → tokCh ch = false := by
    intro f l r ch r' e
    simp only [renderList, List.cons_append] at e
    injection e with e1 _; subst e1; decide
  have tokU : ∀ (x : Rd) (m : Int), ∀ ch ∈ P.reprF CHARGE_NOISE x ++ showInt m, tokCh ch = true := by
    intro x m ch hch
    rcases List.mem_append.mp hch with h1 | h1
    · exact (hP.reprF CHARGE_NOISE).tok x trivial ch h1
    · exact showInt_tok m ch h1
  obtain ⟨eU, h⟩ := tok_split (tokU c.charge c.mult) (tokU c'.charge c'.mult) (open_ _ _ _) (open_ _ _ _) h
  -- the remaining self-delimiting arrays
  obtain ⟨e5, h⟩ := renderList_inj showBool_atomic.sd _ _ _ _ (T _) (T _) h
  obtain ⟨e6, h⟩ := renderList_inj (hP.reprF GEOMETRY_NOISE).sd _ _ _ _ (T _) (T _) h
  obtain ⟨e7, h⟩ := renderList_inj (renderList_sd showInt_atomic.sd) _ _ _ _ (fun _ _ => T _) (fun _ _ => T _) h
  obtain ⟨e8, h⟩ := renderList_inj (hP.reprF CHARGE_NOISE).sd _ _ _ _ (T _) (T _) h
  have h' : renderList showInt c.fragMults ++ (renderConn P.reprB c.connectivity ++ [])
      = renderList showInt c'.fragMults ++ (renderConn P.reprB c'.connectivity ++ []) := by simpa using h
  obtain ⟨e9, h'⟩ := renderList_inj showInt_atomic.sd _ _ _ _ (T _) (T _) h'
  have e10 := renderConn_inj hP.reprB _ _ (by simpa using h')
  -- the scalars: the charge is determined by the fragment charges
  have e3 : c.charge = c'.charge := by rw [hc.chargeTied, hc'.chargeTied, e8]
  have e4 : c.mult = c'.mult := by
    rw [e3] at eU
    exact showInt_inj _ _ (List.append_cancel_left eU)
  cases c; cases c'
  simp only [Canon.mk.injEq]
  simp_all

/-- non-vacuity: a validated water-like canonical record -/
example : Canon.Valid
    { symbols := ["O".toList, "H".toList, "H".toList], masses := [⟨false, 15994915⟩, ⟨false, 1007825⟩, ⟨false, 1007825⟩],
      charge := ⟨true, 10000⟩, mult := 1, real := [true, true, true], geometry := List.replicate 9 ⟨false, 0⟩,
      fragments := [[0, 1, 2]], fragCharges := [⟨true, 10000⟩], fragMults := [1], connectivity := none } :=
  ⟨by decide, by decide⟩

/-! ### without the charge tie the adjacent scalars collide -/

/-- canonical data for one helium atom with charge `q` (scaled by 1e4) and multiplicity `m`, NOT charge-tied -/
def heCanon (q : Nat) (m : Int) : Canon :=
  { symbols := ["He".toList], masses := [⟨false, 4002603⟩], charge := ⟨false, q⟩, mult := m, real := [true],
    geometry := [⟨false, 0⟩, ⟨false, 0⟩, ⟨false, 0⟩], fragments := [[0]], fragCharges := [⟨false, 0⟩], fragMults := [1],
    connectivity := none }

/-- `"0.0" ++ "11" = "0.01" ++ "1"`: with any printer that writes 0 as `0.0` and 0.01 as `0.01` (CPython does),
charge 0 / multiplicity 11 and charge 0.01 / multiplicity 1 have the same preimage, hence the same hash. -/
theorem preimage_collision_unvalidated {D} (P : Params D)
    (h0 : P.reprF CHARGE_NOISE ⟨false, 0⟩ = "0.0".toList) (h1 : P.reprF CHARGE_NOISE ⟨false, 100⟩ = "0.01".toList) :
    heCanon 0 11 ≠ heCanon 100 1 ∧ preimage P (heCanon 0 11) = preimage P (heCanon 100 1) := by
  constructor
  · intro h
    have := congrArg Canon.mult h
    simp [heCanon] at this
  · have s11 : showInt 11 = ['1', '1'] := by
      show showNat 11 = _
      unfold showNat
      rw [natDigitsRev, natDigitsRev]
      decide
    have s1 : showInt 1 = ['1'] := by
      show showNat 1 = _
      unfold showNat
      rw [natDigitsRev]
      decide
    simp only [preimage, heCanon, h0, h1, s11, s1]
    simp

end QcelVerif.Hash
