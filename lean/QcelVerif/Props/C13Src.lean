import QcelVerif.Model.MillSrc
import QcelVerif.Props.C13
import QcelVerif.Props.C13Calculus
/-!
# C13 — the source-derived `AlignmentMill` functions ARE the hand model

`Gen/MillSrc.lean` is regenerated from `qcelemental/models/align.py` on every run (one AST per
method, `harness/c13_src.py`); `Model/MillAst.lean` evaluates it.  This file proves, for ALL sizes
`n`, `m`, ALL recipes, ALL inputs and every scalar type with `+ - * neg 0 1`:

    evalMill genAST_<method> env = Mill.<method> (the hand model of Model/Mill.lean)

so every theorem of `Props/C13.lean` and `Props/C13Calculus.lean` transfers verbatim to the functions
read from the source; the headline ones are restated below over `Src.*`.

An edit of align.py that changes what a method computes changes its AST and breaks the
corresponding `src_*` proof below (the run reports the broken obligation and searches a failing
input); an edit the translator cannot read fails the translator loudly.
-/
namespace QcelVerif.Mill
open Src

section tie
variable {K : Type} [Add K] [Sub K] [Mul K] [Neg K] [OfNat K 0] [OfNat K 1]

/-- `align_coordinates`: forward transform for `reverse=False`, reverse transform for `reverse=True` -/
theorem src_align_coordinates {α : Type} {n m : Nat} (env : Env K α n m) :
    evalMill (genAST_align_coordinates n m) env =
      if env.reverse then Mill.alignCoordsRev env.r env.rows else Mill.alignCoords env.r env.rows := by
  obtain ⟨⟨sh, rot, map, mir⟩, rev, x, v, h, mu, ats⟩ := env
  cases mir <;> cases rev <;> rfl

/-- `align_atoms` -/
theorem src_align_atoms {α : Type} {n m : Nat} (env : Env K α n m) :
    evalMill (genAST_align_atoms n m) env = Mill.alignAtoms env.r.map env.atoms := rfl

/-- `align_vector` -/
theorem src_align_vector {α : Type} {n m : Nat} (env : Env K α n m) :
    evalMill (genAST_align_vector n m) env = Mill.alignVector env.r env.vec := rfl

/-- `align_gradient` -/
theorem src_align_gradient {α : Type} {n m : Nat} (env : Env K α n m) :
    evalMill (genAST_align_gradient n m) env = Mill.alignGradient env.r env.rows := by
  obtain ⟨⟨sh, rot, map, mir⟩, rev, x, v, h, mu, ats⟩ := env
  cases mir <;> rfl

omit [Add K] [Sub K] [Mul K] in
/-- `np.diag([1.0, -1.0, 1.0])` of the source is the model's `diagMirror` -/
theorem diag3_mirror : (fun i j : Fin 3 =>
    if i = j then pick3 i (Lit.one.val : K) Lit.negOne.val Lit.one.val else 0) = diagMirror := by
  funext i j
  match i, j with
  | 0, 0 => rfl
  | 0, 1 => rfl
  | 0, 2 => rfl
  | 1, 0 => rfl
  | 1, 1 => rfl
  | 1, 2 => rfl
  | 2, 0 => rfl
  | 2, 1 => rfl
  | 2, 2 => rfl

/-- `align_hessian` (mirror on and off) -/
theorem src_align_hessian {α : Type} {n m : Nat} (env : Env K α n m) :
    evalMill (genAST_align_hessian n m) env = Mill.alignHessian env.r env.hess := by
  obtain ⟨⟨sh, rot, map, mir⟩, rev, x, v, h, mu, ats⟩ := env
  cases mir
  · rfl
  · simp only [evalMill, genAST_align_hessian, Expr.eval, Cond.val, Mill.alignHessian, hessFrame,
      diag3_mirror]
    rfl

/-- `align_vector_gradient` -/
theorem src_align_vector_gradient {α : Type} {n : Nat} (env : Env K α n n) :
    evalMill (genAST_align_vector_gradient n) env = Mill.alignVectorGradient env.r env.mu := by
  funext a c
  match a with
  | 0 => rfl
  | 1 => rfl
  | 2 => rfl

/-- `align_system(geom, mass, elem, elez, uniq, reverse=rev)` returns
`(align_coordinates(geom, reverse=rev), align_atoms(mass), …, align_atoms(uniq))` of the hand model -/
theorem src_align_system {α : Type} {n m : Nat} (r : Recipe K n m) (rev : Bool) (geom : Geom K n)
    (mass elem elez uniq : Fin n → α) :
    genArity_align_system = 5 ∧
    genSys_align_system.map (evalSysComp r rev (fun k => match k with
        | 0 => .inl geom | 1 => .inr mass | 2 => .inr elem | 3 => .inr elez | _ => .inr uniq))
      = [some (.inl (if rev then Mill.alignCoordsRev r geom else Mill.alignCoords r geom)),
         some (.inr (Mill.alignAtoms r.map mass)), some (.inr (Mill.alignAtoms r.map elem)),
         some (.inr (Mill.alignAtoms r.map elez)), some (.inr (Mill.alignAtoms r.map uniq))] := by
  refine ⟨rfl, ?_⟩
  simp only [genSys_align_system, List.map, evalSysComp, alignCoordsKw, src_align_coordinates,
    Bool.true_and]
  rfl

/-- `align_mini_system(geom, uniq, reverse=rev)` returns
`(align_coordinates(geom, reverse=rev), align_atoms(uniq))` of the hand model -/
theorem src_align_mini_system {α : Type} {n m : Nat} (r : Recipe K n m) (rev : Bool) (geom : Geom K n)
    (uniq : Fin n → α) :
    genArity_align_mini_system = 2 ∧
    genSys_align_mini_system.map (evalSysComp r rev (fun k => match k with
        | 0 => .inl geom | _ => .inr uniq))
      = [some (.inl (if rev then Mill.alignCoordsRev r geom else Mill.alignCoords r geom)),
         some (.inr (Mill.alignAtoms r.map uniq))] := by
  refine ⟨rfl, ?_⟩
  simp only [genSys_align_mini_system, List.map, evalSysComp, alignCoordsKw, src_align_coordinates,
    Bool.true_and]
  rfl

/-- the eight methods the translator reads, in source order -/
theorem src_method_names : methodNames =
    ["align_coordinates", "align_atoms", "align_vector", "align_gradient", "align_hessian",
     "align_vector_gradient", "align_system", "align_mini_system"] := by decide

/-! ### the `Src.*` functions (each method's AST evaluated on its own argument) -/

theorem src_alignCoords_eq {n m : Nat} (r : Recipe K n m) (x : Geom K n) :
    Src.alignCoords r x = Mill.alignCoords r x := by
  unfold Src.alignCoords Src.alignCoordsKw; rw [src_align_coordinates]; rfl

theorem src_alignCoordsRev_eq {n m : Nat} (r : Recipe K n m) (x : Geom K n) :
    Src.alignCoordsRev r x = Mill.alignCoordsRev r x := by
  unfold Src.alignCoordsRev Src.alignCoordsKw; rw [src_align_coordinates]; rfl

theorem src_alignGradient_eq {n m : Nat} (r : Recipe K n m) (g : Geom K n) :
    Src.alignGradient r g = Mill.alignGradient r g := by
  unfold Src.alignGradient; rw [src_align_gradient]; rfl

theorem src_alignVector_eq {n m : Nat} (r : Recipe K n m) (v : Vec3 K) :
    Src.alignVector r v = Mill.alignVector r v := rfl

theorem src_alignHessian_eq {n m : Nat} (r : Recipe K n m) (h : Hess K n) :
    Src.alignHessian r h = Mill.alignHessian r h := by
  unfold Src.alignHessian; rw [src_align_hessian]; rfl

theorem src_alignVectorGradient_eq {n : Nat} (r : Recipe K n n) (mu : Fin 3 → Fin (n * 3) → K) :
    Src.alignVectorGradient r mu = Mill.alignVectorGradient r mu := by
  unfold Src.alignVectorGradient; rw [src_align_vector_gradient]; rfl

theorem src_alignAtoms_eq {α : Type} {n m : Nat} (map : Fin m → Fin n) (ats : Fin n → α) :
    Src.alignAtoms map ats = Mill.alignAtoms map ats := rfl

end tie

/-! ## Headline theorems over the source-derived functions -/

section headline
open Finset
variable {K : Type} [CommRing K]

/-- first-order energy changes are preserved by the source-derived gradient transform -/
theorem src_pairing_preserved {n m : Nat} (r : Recipe K n m) (hR : IsOrtho r.rot)
    (hmap : Function.Bijective r.map) (d g : Geom K n) :
    ∑ i, sum3 (fun a => J r d i a * Src.alignGradient r g i a) = ∑ i, sum3 (fun a => d i a * g i a) := by
  rw [src_alignGradient_eq]; exact pairing_preserved r hR hmap d g

/-- the Hessian bilinear form is preserved by the source-derived Hessian transform, mirror on and off -/
theorem src_hessian_form_preserved {n m : Nat} (r : Recipe K n m) (hR : IsOrtho r.rot)
    (hmap : Function.Bijective r.map) (H : Hess K n) (d e : Geom K n) :
    bilin (Src.alignHessian r H) (flat (J r d)) (flat (J r e)) = bilin H (flat d) (flat e) := by
  rw [src_alignHessian_eq]; exact hessian_form_preserved r hR hmap H d e

/-- polynomial pair energies: gradient and Hessian at the source-derived aligned geometry are the
source-derived aligned gradient and Hessian (all recipes, mirror included) -/
theorem src_energy_covariance {n m : Nat} (r : Recipe K n m) (hR : IsOrtho r.rot)
    (hmap : Function.Bijective r.map) (k c : Fin n → Fin n → K) (x : Geom K n) :
    gradE (permute r.map k) (permute r.map c) (Src.alignCoords r x) = Src.alignGradient r (gradE k c x) ∧
    hessE (permute r.map k) (permute r.map c) (Src.alignCoords r x) = Src.alignHessian r (hessE k c x) := by
  rw [src_alignCoords_eq, src_alignGradient_eq, src_alignHessian_eq]
  exact ⟨energy_gradient_covariance r hR hmap k c x, energy_hessian_covariance r hR hmap k c x⟩

omit [CommRing K] in
/-- per-atom arrays and coordinates use the same atom map in the source-derived functions -/
theorem src_atoms_same_map {α : Type} {n m : Nat} (r : Recipe K n m) (ats : Fin n → α) (i : Fin m) :
    Src.alignAtoms r.map ats i = ats (r.map i) := rfl

end headline

section calculus
open Filter Topology
variable {n m : Nat}

/-- over ℝ, for EVERY energy pair with `E'(align y) = E(y)` near `x` (source-derived `align`),
`E'` twice differentiable at the aligned geometry: gradient and Hessian arrays there are the
source-derived `align_gradient` / `align_hessian` of those at `x` (mirror on and off) -/
theorem src_gradient_hessian_covariance (r : Recipe ℝ n m) (hR : IsOrtho r.rot)
    (hinj : Function.Injective r.map) (E : Geom ℝ n → ℝ) (E' : Geom ℝ m → ℝ) (x : Geom ℝ n)
    (hinv : ∀ᶠ y in 𝓝 x, E' (Src.alignCoords r y) = E y)
    (hd1 : ∀ᶠ z in 𝓝 (Src.alignCoords r x), DifferentiableAt ℝ E' z)
    (hd2 : DifferentiableAt ℝ (fderiv ℝ E') (Src.alignCoords r x)) :
    grad E' (Src.alignCoords r x) = Src.alignGradient r (grad E x) ∧
    hess E' (Src.alignCoords r x) = Src.alignHessian r (hess E x) := by
  have hc : (Src.alignCoords r : Geom ℝ n → Geom ℝ m) = Mill.alignCoords r := by
    funext y; exact src_alignCoords_eq r y
  rw [src_alignGradient_eq, src_alignHessian_eq]
  rw [hc] at hinv hd1 hd2 ⊢
  exact ⟨gradient_covariance r hR hinj E E' x hinv hd1.self_of_nhds,
    hessian_covariance r hR hinj E E' x hinv hd1 hd2⟩

/-- over ℝ, mirror off: nuclear derivatives of every equivariant vector field transform by the
source-derived `align_vector_gradient` -/
theorem src_vector_gradient_covariance (r : Recipe ℝ n n) (hm : r.mirror = false) (hR : IsOrtho r.rot)
    (hinj : Function.Injective r.map) (μ μ' : Geom ℝ n → Vec3 ℝ) (x : Geom ℝ n)
    (hequi : ∀ᶠ y in 𝓝 x, μ' (Src.alignCoords r y) = Src.alignVector r (μ y))
    (hμ' : DifferentiableAt ℝ μ' (Src.alignCoords r x)) :
    vecGrad μ' (Src.alignCoords r x) = Src.alignVectorGradient r (vecGrad μ x) := by
  have hc : (Src.alignCoords r : Geom ℝ n → Geom ℝ n) = Mill.alignCoords r := by
    funext y; exact src_alignCoords_eq r y
  have hv : (Src.alignVector r : Vec3 ℝ → Vec3 ℝ) = Mill.alignVector r := rfl
  rw [src_alignVectorGradient_eq]
  rw [hc] at hequi hμ' ⊢
  rw [hv] at hequi
  exact vector_gradient_covariance r hm hR hinj μ μ' x hequi hμ'

/-- (non-vacuity of `src_gradient_hessian_covariance`) the polynomial pair energies with symmetric
couplings meet every hypothesis, on every recipe (mirror included) -/
example (r : Recipe ℝ n m) (hR : IsOrtho r.rot) (hmap : Function.Bijective r.map)
    (k c : Fin n → Fin n → ℝ) (hk : ∀ i j, k i j = k j i) (hc : ∀ i j, c i j = c j i) (x : Geom ℝ n) :
    grad (energy (permute r.map k) (permute r.map c)) (Src.alignCoords r x)
        = Src.alignGradient r (grad (energy k c) x)
    ∧ hess (energy (permute r.map k) (permute r.map c)) (Src.alignCoords r x)
        = Src.alignHessian r (hess (energy k c) x) :=
  src_gradient_hessian_covariance r hR hmap.1 (energy k c) (energy (permute r.map k) (permute r.map c)) x
    (Filter.Eventually.of_forall fun y => by
      rw [src_alignCoords_eq]; exact energy_invariant r hR hmap k c hk hc y)
    (twice_differentiable_of_contDiffAt (energy_contDiff _ _ 2).contDiffAt).1
    (twice_differentiable_of_contDiffAt (energy_contDiff _ _ 2).contDiffAt).2

/-- (non-vacuity of `src_vector_gradient_covariance`) the polynomial pair vector field meets every
hypothesis on every mirror-free recipe -/
example (r : Recipe ℝ n n) (hm : r.mirror = false) (hR : IsOrtho r.rot)
    (hmap : Function.Bijective r.map) (w : Fin n → Fin n → ℝ) (x : Geom ℝ n) :
    vecGrad (fieldMu (permute r.map w)) (Src.alignCoords r x)
      = Src.alignVectorGradient r (vecGrad (fieldMu w) x) :=
  src_vector_gradient_covariance r hm hR hmap.1 (fieldMu w) (fieldMu (permute r.map w)) x
    (Filter.Eventually.of_forall fun y => by
      rw [src_alignCoords_eq]; exact (field_covariance r hm hR hmap w y).1)
    ((fieldMu_contDiff (permute r.map w) 1).differentiable (by simp)).differentiableAt

end calculus

/-! ## `np_blockwise.py`: the source-derived view / reshape chains ARE the model's index maps -/

section blockwise

theorem memRC_eq {α : Type} {R C : Nat} (a : Fin R → Fin C → α) (k : Nat) (r : Fin R) (c : Fin C)
    (h : k = r.val * C + c.val) : memRC a k = some (a r c) := by
  have hC : 0 < C := Nat.lt_of_le_of_lt (Nat.zero_le _) c.isLt
  have hdiv : k / C = r.val := by
    rw [h, Nat.add_comm, Nat.add_mul_div_right _ _ hC, Nat.div_eq_of_lt c.isLt, Nat.zero_add]
  have hmod : k % C = c.val := by
    rw [h, Nat.add_comm, Nat.add_mul_mod_self_right, Nat.mod_eq_of_lt c.isLt]
  unfold memRC
  rw [dif_pos ⟨hC, by rw [hdiv]; exact r.isLt⟩]
  congr 2
  · exact Fin.ext hdiv
  · exact Fin.ext hmod

/-- `blockwise_expand(a, (lr, lc), False)` as read from the source (asserts, `as_strided` shape and
strides evaluated on the memory of a C-contiguous `(gr*lr, gc*lc)` array): entry `[i,j,p,q]` of the
view exists and is the model's `blockwiseExpand a i j p q`, for every block shape and block count -/
theorem src_blockwise_expand {α : Type} {gr gc lr lc : Nat} (a : Fin (gr * lr) → Fin (gc * lc) → α)
    (i : Fin gr) (j : Fin gc) (p : Fin lr) (q : Fin lc) :
    evalExpand genAST_blockwise_expand a [lr, lc] [i.val, j.val, p.val, q.val]
      = some (blockwiseExpand a i j p q) := by
  have hlr : 0 < lr := Nat.lt_of_le_of_lt (Nat.zero_le _) p.isLt
  have hlc : 0 < lc := Nat.lt_of_le_of_lt (Nat.zero_le _) q.isLt
  have hm : memRC a (i.val * (gc * lc * lr) + (j.val * (1 * lc) + (p.val * (gc * lc) + (q.val * 1 + 0))))
      = some (a (idx i p) (idx j q)) := by
    apply memRC_eq
    simp only [idx]
    ring
  simp only [evalExpand, genAST_blockwise_expand, IVec.eval, List.zipWith, List.length, List.all,
    Nat.mul_mod_left, List.cons_append, List.nil_append, allLt, dotNat,
    Nat.mul_div_cancel _ hlr, Nat.mul_div_cancel _ hlc, hm]
  simp [i.isLt, j.isLt, p.isLt, q.isLt, blockwiseExpand]

/-- both asserts of `blockwise_expand` are still in the source -/
theorem src_blockwise_expand_asserts :
    genAST_blockwise_expand.assertContiguous = true ∧ genAST_blockwise_expand.assertAligned = true := by
  decide

theorem divmod_of_eq {k x y z : Nat} (h : k = x * z + y) (hy : y < z) : k / z = x ∧ k % z = y := by
  have hz : 0 < z := Nat.lt_of_le_of_lt (Nat.zero_le _) hy
  constructor
  · rw [h, Nat.add_comm, Nat.add_mul_div_right _ _ hz, Nat.div_eq_of_lt hy, Nat.zero_add]
  · rw [h, Nat.add_comm, Nat.add_mul_mod_self_right, Nat.mod_eq_of_lt hy]

theorem flat4_eq {α : Type} {gr gc lr lc : Nat} (b : Fin gr → Fin gc → Fin lr → Fin lc → α) (k : Nat)
    (i : Fin gr) (j : Fin gc) (p : Fin lr) (q : Fin lc)
    (h : k = ((i.val * gc + j.val) * lr + p.val) * lc + q.val) : flat4 b k = some (b i j p q) := by
  obtain ⟨h1, h2⟩ := divmod_of_eq h q.isLt
  obtain ⟨h3, h4⟩ := divmod_of_eq h1 p.isLt
  obtain ⟨h5, h6⟩ := divmod_of_eq h3 j.isLt
  have hlc : 0 < lc := Nat.lt_of_le_of_lt (Nat.zero_le _) q.isLt
  have hlr : 0 < lr := Nat.lt_of_le_of_lt (Nat.zero_le _) p.isLt
  have hgc : 0 < gc := Nat.lt_of_le_of_lt (Nat.zero_le _) j.isLt
  unfold flat4
  rw [dif_pos ⟨hlc, hlr, hgc, by rw [h5]; exact i.isLt⟩]
  congr 2
  · exact Fin.ext h5
  · exact Fin.ext h6
  · exact Fin.ext h4
  · exact Fin.ext h2

/-- `blockwise_contract(b)` as read from the source (reshape, reshape with an inferred `-1`,
`swapaxes(1,2)`, reshape - evaluated on the C-ordered memory of a `(gr,gc,lr,lc)` array): the result
has shape `(gr*lr, gc*lc)` and entry `[r,c]` is the model's `blockwiseContract b r c`.  Sizes
`gr, lr, lc > 0`: on an empty array numpy cannot infer the `-1` and raises, the evaluator likewise
(`none`), while the hand model returns the empty array - outside the property's quantifier. -/
-- FULL: the same for gr = 0, lr = 0 or lc = 0.  That statement is FALSE of the code: numpy raises
-- "cannot reshape array of size 0 into shape (0,newaxis,3,3)" (so does the evaluator) whereas the hand
-- model's `blockwiseContract` is the empty array; the tie holds for every non-empty array.
theorem src_blockwise_contract_partial {α : Type} {gr gc lr lc : Nat} (b : Fin gr → Fin gc → Fin lr → Fin lc → α)
    (hgr : 0 < gr) (hlr : 0 < lr) (hlc : 0 < lc) :
    ∃ f, evalContract genAST_blockwise_contract b = some ([gr * lr, gc * lc], f) ∧
      ∀ (r : Fin (gr * lr)) (c : Fin (gc * lc)),
        f (r.val * (gc * lc) + c.val) = some (blockwiseContract b r c) := by
  have hp1 : gr * gc * (lr * (lc * 1)) = gr * (gc * (lr * (lc * 1))) := by ring
  have hk : gr * (1 * (lr * (lc * 1))) ≠ 0 := by
    have := Nat.mul_pos hgr (Nat.mul_pos hlr hlc); simpa using Nat.pos_iff_ne_zero.mp this
  have hq : gr * gc * (lr * (lc * 1)) / (gr * (1 * (lr * (lc * 1)))) = gc := by
    have : gr * gc * (lr * (lc * 1)) = gc * (gr * (1 * (lr * (lc * 1)))) := by ring
    rw [this, Nat.mul_div_cancel _ (Nat.pos_of_ne_zero hk)]
  have hp3 : gr * lr * (gc * lc * 1) = gr * (lr * (gc * (lc * 1))) := by ring
  refine ⟨fun k => flat4 b (((k / lc / gc / lr * gc + k / lc % gc) * lr + k / lc / gc % lr) * lc + k % lc), ?_, ?_⟩
  · have s1 : applyOps (α := α) [gr, gc, lr, lc] [] genAST_blockwise_contract.outer ([gr, gc, lr, lc], flat4 b)
        = some ([gr * gc, lr, lc], flat4 b) := by
      simp only [genAST_blockwise_contract, applyOps, ViewOp.apply, reshapeArr, DimE.eval, List.getD,
        List.getElem?_cons_zero, List.getElem?_cons_succ, Option.getD_some, knownProd, countNeg1, prodNat,
        List.map, reduceCtorEq, ↓reduceIte]
      rw [if_neg (by decide), if_neg (fun h => absurd h.1 (by decide)), if_pos hp1]
      rfl
    have s2 : applyOps (α := α) [gr, gc, lr, lc] [gr * gc, lr, lc] genAST_blockwise_contract.inner
        ([gr * gc, lr, lc], flat4 b) = some ([gr * lr, gc * lc],
          fun k => flat4 b (((k / lc / gc / lr * gc + k / lc % gc) * lr + k / lc / gc % lr) * lc + k % lc)) := by
      simp only [genAST_blockwise_contract, applyOps, ViewOp.apply, reshapeArr, DimE.eval, List.getD,
        List.getElem?_cons_zero, List.getElem?_cons_succ, Option.getD_some, knownProd, countNeg1, prodNat,
        List.map, Nat.mul_div_cancel _ hlr, reduceCtorEq, ↓reduceIte]
      rw [if_neg (by decide), if_neg (by intro h; exact hk h.2), hq, if_pos (by ring)]
      simp only [Option.bind, swapArr, prodNat]
      rw [if_neg (by decide), if_neg (fun h => absurd h.1 (by decide))]
      simp only [hp3, ↓reduceIte]
    have hin : genAST_blockwise_contract.inRank = 4 := rfl
    have harg : genAST_blockwise_contract.argRank = 3 := rfl
    simp only [evalContract]
    rw [s1]
    simp only [hin, harg, Option.bind, List.length, s2, ne_eq, not_true_eq_false, if_false]
  · intro r c
    have hcl : c.val / lc < gc := Nat.div_lt_of_lt_mul (calc c.val < gc * lc := c.isLt
      _ = lc * gc := Nat.mul_comm _ _)
    have hk0 : r.val * (gc * lc) + c.val = (r.val * gc + c.val / lc) * lc + c.val % lc := by
      have := Nat.div_add_mod c.val lc
      calc r.val * (gc * lc) + c.val = r.val * (gc * lc) + (lc * (c.val / lc) + c.val % lc) := by rw [this]
        _ = _ := by ring
    obtain ⟨h1, h2⟩ := divmod_of_eq hk0 (Nat.mod_lt _ hlc)
    obtain ⟨h3, h4⟩ := divmod_of_eq (k := r.val * gc + c.val / lc) rfl hcl
    simp only [h1, h2, h3, h4]
    exact flat4_eq b _ (blk r) (blk c) (off r) (off c) rfl

/-- reordering into blocks and back is lossless for the SOURCE-derived functions: whatever array `b`
is read out of the source-derived `blockwise_expand` view of `a`, the source-derived
`blockwise_contract(b)` has the shape of `a` and the entries of `a` -/
-- FULL: without `0 < gr`, `0 < lr`, `0 < lc` (empty arrays: numpy's reshape(-1) raises, see above)
theorem src_blockwise_roundtrip_partial {α : Type} {gr gc lr lc : Nat} (a : Fin (gr * lr) → Fin (gc * lc) → α)
    (b : Fin gr → Fin gc → Fin lr → Fin lc → α) (hgr : 0 < gr) (hlr : 0 < lr) (hlc : 0 < lc)
    (hb : ∀ i j p q, evalExpand genAST_blockwise_expand a [lr, lc] [i.val, j.val, p.val, q.val]
      = some (b i j p q)) :
    ∃ f, evalContract genAST_blockwise_contract b = some ([gr * lr, gc * lc], f) ∧
      ∀ (r : Fin (gr * lr)) (c : Fin (gc * lc)), f (r.val * (gc * lc) + c.val) = some (a r c) := by
  have hbe : b = blockwiseExpand a := by
    funext i j p q
    have := hb i j p q
    rw [src_blockwise_expand] at this
    exact (Option.some.inj this).symm
  obtain ⟨f, hf, hrc⟩ := src_blockwise_contract_partial b hgr hlr hlc
  refine ⟨f, hf, fun r c => ?_⟩
  rw [hrc, hbe, blockwise_roundtrip]

/-- (non-vacuity of `src_blockwise_roundtrip_partial`) the hypothesis is satisfied by `b = blockwiseExpand a` -/
example {α : Type} {gr gc lr lc : Nat} (a : Fin (gr * lr) → Fin (gc * lc) → α) :
    ∀ i j p q, evalExpand genAST_blockwise_expand a [lr, lc] [i.val, j.val, p.val, q.val]
      = some (blockwiseExpand a i j p q) := fun i j p q => src_blockwise_expand a i j p q

/-- (non-vacuity of the size hypotheses, and a test) a (2,2,1,2) array is contracted to shape (2,4) -/
example : (evalContract genAST_blockwise_contract
    (fun (i : Fin 2) (j : Fin 2) (_ : Fin 1) (q : Fin 2) => i.val * 10 + j.val * 2 + q.val)).map (·.1)
    = some [2, 4] := by decide

/-- (test) a 2x2 grid of 1x2 blocks -/
example : evalExpand genAST_blockwise_expand (fun (r : Fin (2 * 1)) (c : Fin (2 * 2)) => r.val * 10 + c.val)
    [1, 2] [1, 1, 0, 1] = some 13 := by decide

end blockwise

/-! ## Non-vacuity and tests -/

/-- (non-vacuity) the hypotheses of the headline theorems hold for the mirrored, rotating,
permuting recipe `exRecipe` of Props/C13.lean -/
example : IsOrtho exRecipe.rot ∧ Function.Bijective exRecipe.map := by
  refine ⟨by unfold IsOrtho; decide, ?_, ?_⟩
  · intro a b; revert a b; decide
  · intro b; revert b; decide

/-- (test) the source-derived forward transform on `exRecipe`: atom 2 of the result is the image of
atom 0 = (5,5,5): reflect (5,-5,5), shift (4,-3,2), rotate (-3,-4,2) -/
example : Src.alignCoords exRecipe (fun i c => if i.val = 1 then ((c.val : ℤ) + 1) else 5) 2 1 = -4 := by
  decide

/-- (test) the source-derived `align_hessian` consults the mirror flag: on the one-atom recipe
`exRecipe1` (mirror on) it differs from the pre-fix function that ignored it -/
example : Src.alignHessian exRecipe1 (fun s t => if s.val = 0 ∧ t.val = 1 then 1 else 0)
    ≠ alignHessianOld exRecipe1 (fun s t => if s.val = 0 ∧ t.val = 1 then 1 else 0) := by
  intro h
  have := congrFun (congrFun h ⟨1, by decide⟩) ⟨0, by decide⟩
  revert this; decide

end QcelVerif.Mill
