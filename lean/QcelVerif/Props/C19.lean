import QcelVerif.Model.Compare
/-!
# C19 — property theorems about the comparison-helper model (`Model/Compare.lean`)

Manifest (audited by harness/c19.py):
  closeR_fin_iff, nan_only_on_request, phase_only_on_request, all2_iff, compareValues_true_iff,
  compareValues_never_raises, compareExact_true_iff, compareExact_never_raises,
  verdict_independent_of_reporting, recErrs_agree, agreeDict_iff, removeLoop_perm, errAt_iff,
  compare_recursive_iff (FULL: forgive and equal_phase included), compare_recursive_total,
  agree_iff_no_errAt, compareRecursive_default_iff, compareRecursive_atol_ge_one
  (+ Lemmas/CompareSqrt.lean: sqrtLe_iff)

Scope hypothesis of the recursion theorems: the recursion meets no `unmodelled` pair (list vs str/dict/ndarray,
exact scalar vs ndarray, numpy scalar vs list, ragged/mixed array data) — the harness never generates those.
-/
namespace QcelVerif.Compare

/-! ## element rule -/

/-- Finite real data: the model of `np.isclose` is the documented inequality (or plain equality). -/
theorem closeR_fin_iff (atol rtol : Rat) (en : Bool) (c e : Rat) :
    closeR atol rtol en (.fin c) (.fin e) = true ↔ (absQ (c - e) ≤ atol + rtol * absQ e ∨ c = e) := by
  simp [closeR]

/-- NaNs are equal only on request (real data): without `equal_nan` a NaN on either side fails. -/
theorem nan_only_on_request (atol rtol : Rat) (x : XR) :
    closeR atol rtol false .nan x = false ∧ closeR atol rtol false x .nan = false ∧
    (closeR atol rtol true .nan .nan = true) := by
  refine ⟨?_, ?_, ?_⟩ <;> cases x <;> simp [closeR]

/-- An overall sign flip is a *retry*: it can only turn a failure into a pass, and only when requested. -/
theorem phase_only_on_request {α : Type} (close : α → α → Bool) (neg : α → α) (cs es : List α) :
    allClosePhase close neg false cs es = all2 close cs es := by
  simp [allClosePhase]

/-! ## `all2` is "same length and the rule holds at every index" -/

theorem all2_iff {α : Type} (f : α → α → Bool) (cs es : List α) :
    all2 f cs es = true ↔
      cs.length = es.length ∧ ∀ i (h₁ : i < cs.length) (h₂ : i < es.length), f cs[i] es[i] = true := by
  induction cs generalizing es with
  | nil => cases es <;> simp [all2]
  | cons c cs ih =>
    cases es with
    | nil => simp [all2]
    | cons e es =>
      simp only [all2, Bool.and_eq_true, ih, List.length_cons, Nat.add_right_cancel_iff]
      constructor
      · rintro ⟨h0, hl, hi⟩
        refine ⟨hl, ?_⟩
        intro i h₁ h₂
        cases i with
        | zero => simpa using h0
        | succ j => simpa using hi j (by simpa using h₁) (by simpa using h₂)
      · rintro ⟨hl, hi⟩
        refine ⟨by simpa using hi 0 (by simp) (by simp), hl, ?_⟩
        intro i h₁ h₂
        have := hi (i + 1) (by simpa using h₁) (by simpa using h₂)
        simpa only [List.getElem_cons_succ] using this

/-- non-vacuity of `all2_iff`: a two-element pass and a one-element failure (tests) -/
example : all2 (closeR (1/1000) 0 false) [.fin 1, .fin 2] [.fin 1, .fin (2001/1000)] = true := by decide +kernel
example : all2 (closeR (1/1000) 0 false) [.fin 1, .fin 2] [.fin 1, .fin (2002/1000)] = false := by decide +kernel

/-! ## `compare_values` -/

/-- what "the inputs cast to arrays of one dtype" means in the model -/
def CastsTo {α : Type} (cast : Sc → Option α) (t : Tree) (shape : List Nat) (xs : List α) : Prop :=
  ∃ f, flatten t = .ok f ∧ f.kind.isSome ∧ f.shape = shape ∧ f.data.mapM cast = some xs

/-- is the input complex data (`np.iscomplexobj`) -/
def IsCx (t : Tree) : Prop := ∃ f, flatten t = .ok f ∧ f.kind = some .cpx

/-- **The numeric comparison returns True exactly when** `passnone` applies, or both inputs cast to the
dtype chosen from the pair (complex as soon as one of them is complex), have the same shape, and every element is close — or, on request only,
every element of `-computed` is close.  All shapes, all sizes, real and complex. -/
theorem compareValues_true_iff (o : VOpts) (e c : Tree) :
    compareValues o e c = .verdict true ↔
      (o.passnone = true ∧ isNone e = true ∧ isNone c = true) ∨
      ((IsCx e ∨ IsCx c) ∧ ∃ sh es cs, CastsTo castC e sh es ∧ CastsTo castC c sh cs ∧
          (all2 (closeC o.atol o.rtol o.equalNan) cs es = true ∨
           (o.equalPhase = true ∧ all2 (closeC o.atol o.rtol o.equalNan) (cs.map Cx.neg) es = true))) ∨
      (¬ (IsCx e ∨ IsCx c) ∧ ∃ sh es cs, CastsTo castF e sh es ∧ CastsTo castF c sh cs ∧
          (all2 (closeR o.atol o.rtol o.equalNan) cs es = true ∨
           (o.equalPhase = true ∧ all2 (closeR o.atol o.rtol o.equalNan) (cs.map XR.neg) es = true))) := by
  unfold compareValues
  by_cases hp : (o.passnone && isNone e && isNone c) = true
  · simp only [hp, if_true, true_iff]
    left
    simpa [Bool.and_eq_true, and_assoc] using hp
  · have hp' : ¬ (o.passnone = true ∧ isNone e = true ∧ isNone c = true) := by
      simpa [Bool.and_eq_true, and_assoc] using hp
    simp only [hp, if_false, Bool.false_eq_true]
    rw [or_iff_right hp']
    unfold IsCx CastsTo allClosePhase
    cases he : flatten e with
    | unmodelled => simp
    | notArrayLike => cases hc : flatten c <;> simp
    | ok fe =>
      cases hc : flatten c with
      | unmodelled => simp
      | notArrayLike => simp
      | ok fc =>
        cases hke : fe.kind with
        | none => simp [hke]
        | some ke =>
          cases hkc : fc.kind with
          | none => simp [hke, hkc]
          | some kc =>
            by_cases hcx : ke = .cpx ∨ kc = .cpx
            · cases hes : fe.data.mapM castC with
              | none => simp [hke, hkc, hes, hcx]
              | some es =>
                cases hcs : fc.data.mapM castC with
                | none => simp [hke, hkc, hes, hcs, hcx]
                | some cs =>
                  by_cases hsh : fe.shape = fc.shape
                  · simp [hke, hkc, hes, hcs, hcx, hsh, Bool.or_eq_true, Bool.and_eq_true]
                    exact ⟨fun h => ⟨fc.shape, es, ⟨rfl, rfl⟩, cs, ⟨rfl, rfl⟩, h⟩,
                           fun ⟨_, _, ⟨_, h1⟩, _, ⟨_, h2⟩, h⟩ => by subst h1; subst h2; exact h⟩
                  · simp [hke, hkc, hes, hcs, hcx, hsh]
                    intro h; exact absurd h.symm hsh
            · cases hes : fe.data.mapM castF with
              | none => simp [hke, hkc, hes, hcx]
              | some es =>
                cases hcs : fc.data.mapM castF with
                | none => simp [hke, hkc, hes, hcs, hcx]
                | some cs =>
                  by_cases hsh : fe.shape = fc.shape
                  · simp [hke, hkc, hes, hcs, hcx, hsh, Bool.or_eq_true, Bool.and_eq_true]
                    exact ⟨fun h => ⟨fc.shape, es, ⟨rfl, rfl⟩, cs, ⟨rfl, rfl⟩, h⟩,
                           fun ⟨_, _, ⟨_, h1⟩, _, ⟨_, h2⟩, h⟩ => by subst h1; subst h2; exact h⟩
                  · simp [hke, hkc, hes, hcs, hcx, hsh]
                    intro h; exact absurd h.symm hsh

/-- `compare_values` returns a verdict on every modelled input: it never raises. -/
theorem compareValues_never_raises (o : VOpts) (e c : Tree) (x : Exc) :
    compareValues o e c ≠ .raised x := by
  unfold compareValues
  repeat' split
  all_goals simp

/-! ## `compare` (exact) -/

/-- **The exact comparison returns True exactly when** both inputs are array-like of one dtype, have
the same shape, and every element is equal — or, on request only and only for a dtype that has a
unary minus, every element equals the negated computed element. -/
theorem compareExact_true_iff (phase : Bool) (e c : Tree) :
    compareExact phase e c = .verdict true ↔
      ∃ fe fc kc, flatten e = .ok fe ∧ flatten c = .ok fc ∧ fe.kind.isSome ∧ fc.kind = some kc ∧
        fe.shape = fc.shape ∧
        (all2 scEq fe.data fc.data = true ∨
          (phase = true ∧ kc.negatable = true ∧ all2 scEq fe.data (fc.data.map Sc.negate) = true)) := by
  unfold compareExact
  cases he : flatten e with
  | unmodelled => simp
  | notArrayLike => simp
  | ok fe =>
    cases hc : flatten c with
    | unmodelled => simp
    | notArrayLike => simp
    | ok fc =>
      cases hke : fe.kind with
      | none => simp [hke]
      | some ke =>
        cases hkc : fc.kind with
        | none => simp [hke, hkc]
        | some kc =>
          by_cases hsh : fe.shape = fc.shape
          · simp [hke, hkc, hsh, Bool.or_eq_true, Bool.and_eq_true, and_assoc]
          · simp [hke, hkc, hsh]

theorem compareExact_never_raises (phase : Bool) (e c : Tree) (x : Exc) :
    compareExact phase e c ≠ .raised x := by
  unfold compareExact
  repeat' split
  all_goals simp

/-! ## reporting -/

/-- **The message / return-handler options do not change the verdict**: whatever `quiet`,
`return_message` and `return_handler` are, the pass/fail value handed back is the verdict computed by
the comparison (which has no access to those options). -/
theorem verdict_independent_of_reporting (r₁ r₂ : Reporting) (b : Bool) :
    (report r₁ b).passfail = b ∧ (report r₁ b).passfail = (report r₂ b).passfail := by
  have h : ∀ r : Reporting, (report r b).passfail = b := by
    intro r; unfold report
    split
    · rfl
    · split <;> rfl
  exact ⟨h r₁, by rw [h r₁, h r₂]⟩

/-! ## the recursion: empty error list ↔ declarative agreement -/

/-- a Python scalar compared with `!=` -/
def ExactOk (s : Sc) (c : Tree) : Prop := ∃ t, c = .sc t ∧ scEq s t = true

/-- a leaf compared by `compare_values` with the recursion's tolerances -/
def NumOk (o : ROpts) (e c : Tree) : Prop :=
  compareValues ⟨o.atol, o.rtol, false, o.phase, false⟩ e c = .verdict true

mutual
/-- **Declarative agreement of two trees** (no names, no error lists): dictionaries have the same key
set and agree at every key, lists have the same length and agree position-wise, every leaf passes
the rule its *expected* type selects. -/
def Agree (o : ROpts) : Tree → Tree → Prop
  | .sc (.str s), c => ExactOk (.str s) c
  | .sc (.int n), c => ExactOk (.int n) c
  | .sc (.bool b), c => ExactOk (.bool b) c
  | .sc (.cpx z), c => ExactOk (.cpx z) c
  | .sc (.npcpx z), c => ExactOk (.npcpx z) c
  | .sc (.flt x), c => NumOk o (.sc (.flt x)) c
  | .sc (.npflt x), c => NumOk o (.sc (.npflt x)) c
  | .sc (.npint n), c => NumOk o (.sc (.npint n)) c
  | .sc .none, c => c = .sc .none
  | .sc (.npbool b), c => ExactOk (.npbool b) c
  | .arr k sh fl, c =>
      if k = .flt then NumOk o (.arr k sh fl) c else compareExact o.phase (.arr k sh fl) c = .verdict true
  | .list es, c => ∃ cs, c = .list cs ∧ AgreeList o es cs
  | .dict ekv, c => ∃ ckv, c = .dict ckv ∧
      (∀ p ∈ ckv, hasKey p.1 ekv = true) ∧ (∀ p ∈ ekv, hasKey p.1 ckv = true) ∧ AgreeDict o ekv ckv
def AgreeList (o : ROpts) : List Tree → List Tree → Prop
  | [], [] => True
  | e :: es, c :: cs => Agree o e c ∧ AgreeList o es cs
  | _, _ => False
def AgreeDict (o : ROpts) : List (String × Tree) → List (String × Tree) → Prop
  | [], _ => True
  | (k, e) :: rest, ckv => (∀ c, lookup k ckv = some c → Agree o e c) ∧ AgreeDict o rest ckv
end

theorem verdictOf_nil (name : String) (tag : Nat) (r : Res) :
    verdictOf name tag r = [] ↔ r = .verdict true := by
  cases r with
  | verdict b => cases b <;> simp [verdictOf]
  | raised e => simp [verdictOf]
  | unmodelled => simp [verdictOf]

theorem exactLeaf_nil (name : String) (s : Sc) (c : Tree) :
    exactLeaf name s c = [] ↔ ExactOk s c := by
  cases c with
  | sc t =>
    by_cases h : scEq s t = true <;> simp [exactLeaf, ExactOk, h]
  | list l => cases hs : s.isNumpy <;> simp [exactLeaf, ExactOk, hs]
  | dict kv => simp [exactLeaf, ExactOk]
  | arr k sh fl => simp [exactLeaf, ExactOk]

theorem agreeList_length (o : ROpts) : ∀ es cs, AgreeList o es cs → es.length = cs.length
  | [], [], _ => rfl
  | [], _ :: _, h => by simp [AgreeList] at h
  | _ :: _, [], h => by simp [AgreeList] at h
  | _ :: es, _ :: cs, h => by
    simp only [AgreeList] at h
    simp [agreeList_length o es cs h.2]

mutual
/-- **No forgive, no phase filtering: the recursion reports no error exactly when the trees agree.**
Both directions, for every pair of trees (any depth, any width) and every name prefix. -/
theorem recErrs_agree (o : ROpts) (name : String) : ∀ e c, recErrs o name e c = [] ↔ Agree o e c
  | .sc (.str s), c => by simp only [recErrs, Agree]; exact exactLeaf_nil ..
  | .sc (.int n), c => by simp only [recErrs, Agree]; exact exactLeaf_nil ..
  | .sc (.bool b), c => by simp only [recErrs, Agree]; exact exactLeaf_nil ..
  | .sc (.cpx z), c => by simp only [recErrs, Agree]; exact exactLeaf_nil ..
  | .sc (.npcpx z), c => by simp only [recErrs, Agree]; exact exactLeaf_nil ..
  | .sc (.flt x), c => by simp only [recErrs, Agree, NumOk]; exact verdictOf_nil ..
  | .sc (.npflt x), c => by simp only [recErrs, Agree, NumOk]; exact verdictOf_nil ..
  | .sc (.npint n), c => by simp only [recErrs, Agree, NumOk]; exact verdictOf_nil ..
  | .sc .none, c => by
    cases c with
    | sc t => cases t <;> simp [recErrs, Agree, isNone]
    | list l => simp [recErrs, Agree, isNone]
    | dict kv => simp [recErrs, Agree, isNone]
    | arr k sh fl => simp [recErrs, Agree, isNone]
  | .sc (.npbool b), c => by simp only [recErrs, Agree]; exact exactLeaf_nil ..
  | .arr k sh fl, c => by
    simp only [recErrs, Agree, NumOk]
    split <;> exact verdictOf_nil ..
  | .list es, c => by
    cases c with
    | sc t => cases t <;> simp [recErrs, Agree]
    | dict kv => simp [recErrs, Agree]
    | arr k sh fl => simp [recErrs, Agree]
    | list cs =>
      simp only [recErrs, Agree]
      by_cases hl : es.length = cs.length
      · simp only [hl, ne_eq, not_true_eq_false, if_false]
        rw [recList_agree o name 0 es cs hl]
        simp
      · simp only [ne_eq, hl, not_false_eq_true, if_true]
        constructor
        · intro h; simp at h
        · rintro ⟨cs', h1, h2⟩
          cases h1
          exact absurd (agreeList_length o _ _ h2) hl
  | .dict ekv, c => by
    cases c with
    | sc t => simp [recErrs, Agree]
    | list l => simp [recErrs, Agree]
    | arr k sh fl => simp [recErrs, Agree]
    | dict ckv =>
      simp only [recErrs, Agree, List.append_eq_nil_iff]
      rw [recDict_agree o name ekv ckv]
      constructor
      · rintro ⟨⟨h1, h2⟩, h3⟩
        refine ⟨ckv, rfl, ?_, ?_, h3⟩
        · intro p hp
          by_cases hk : hasKey p.1 ekv = true
          · exact hk
          · exfalso
            have : ckv.any (fun p => !hasKey p.1 ekv) = true :=
              List.any_eq_true.mpr ⟨p, hp, by simpa using hk⟩
            simp [this] at h1
        · intro p hp
          by_cases hk : hasKey p.1 ckv = true
          · exact hk
          · exfalso
            have : ekv.any (fun p => !hasKey p.1 ckv) = true :=
              List.any_eq_true.mpr ⟨p, hp, by simpa using hk⟩
            simp [this] at h2
      · rintro ⟨ckv', h0, h1, h2, h3⟩
        cases h0
        refine ⟨⟨?_, ?_⟩, h3⟩
        · have : ckv.any (fun p => !hasKey p.1 ekv) = false := by
            rw [List.any_eq_false]; intro p hp; simpa using h1 p hp
          simp [this]
        · have : ekv.any (fun p => !hasKey p.1 ckv) = false := by
            rw [List.any_eq_false]; intro p hp; simpa using h2 p hp
          simp [this]
theorem recList_agree (o : ROpts) (name : String) : ∀ (i : Nat) es cs,
    es.length = cs.length → (recList o name i es cs = [] ↔ AgreeList o es cs)
  | _, [], [], _ => by simp [recList, AgreeList]
  | _, [], _ :: _, h => by simp at h
  | _, _ :: _, [], h => by simp at h
  | i, e :: es, c :: cs, h => by
    simp only [recList, AgreeList, List.append_eq_nil_iff]
    rw [recErrs_agree o _ e c, recList_agree o name (i + 1) es cs (by simpa using h)]
theorem recDict_agree (o : ROpts) (name : String) : ∀ ekv ckv,
    recDict o name ekv ckv = [] ↔ AgreeDict o ekv ckv
  | [], _ => by simp [recDict, AgreeDict]
  | (k, e) :: rest, ckv => by
    simp only [recDict, AgreeDict, List.append_eq_nil_iff]
    rw [recDict_agree o name rest ckv]
    cases hl : lookup k ckv with
    | none => simp
    | some c => simp [recErrs_agree o _ e c]
end

/-- the dictionary clause in membership form: every key of `expected` that `computed` also has agrees -/
theorem agreeDict_iff (o : ROpts) (ckv : List (String × Tree)) : ∀ ekv,
    AgreeDict o ekv ckv ↔ ∀ k e c, (k, e) ∈ ekv → lookup k ckv = some c → Agree o e c
  | [] => by simp [AgreeDict]
  | (k, e) :: rest => by
    simp only [AgreeDict, agreeDict_iff o ckv rest, List.mem_cons]
    constructor
    · rintro ⟨h1, h2⟩ k' e' c' (h | h) hl
      · cases h; exact h1 c' hl
      · exact h2 k' e' c' h hl
    · intro h
      exact ⟨fun c hl => h k e c (Or.inl rfl) hl, fun k' e' c' hm hl => h k' e' c' (Or.inr hm) hl⟩

/-- non-vacuity (tests): a nested structure that agrees, and one whose leaf is just outside the tolerance -/
example : recErrs ⟨1/1000, 0, false⟩ "root"
    (.dict [("a", .list [.sc (.flt (.fin 1)), .sc (.int 2)]), ("b", .sc (.str "x"))])
    (.dict [("b", .sc (.str "x")), ("a", .list [.sc (.flt (.fin (1001/1000))), .sc (.int 2)])]) = [] := by
  decide +kernel
example : recErrs ⟨1/1000, 0, false⟩ "root"
    (.dict [("a", .list [.sc (.flt (.fin 1))])]) (.dict [("a", .list [.sc (.flt (.fin (1002/1000)))])])
    = [.err ⟨"root.a.0", 4⟩] := by
  decide +kernel


/-! ## the filtering loops (`forgive`, `equal_phase`) after the repairs 6bb542d / 9979db7 -/

/-- inner loop: at the first matching prefix the entry is removed once (`break`) -/
theorem removeFor_eq (hit : String → Bool) (nm : Err) : ∀ ps errs,
    removeFor hit nm ps errs =
      if ps.any hit = true then (if errs.contains nm = true then some (errs.erase nm) else none) else some errs
  | [], _ => by simp [removeFor]
  | p :: ps, errs => by
    by_cases hp : hit p = true
    · simp [removeFor, hp]
    · have hp' : hit p = false := by simpa using hp
      simp [removeFor, hp', removeFor_eq hit nm ps errs]

def hitE (cond : Err → String → Bool) (ps : List String) (x : Err) : Bool := ps.any (cond x)

theorem removeLoop_count (cond : Err → String → Bool) (ps : List String) : ∀ iter cur,
    (∀ x, iter.count x ≤ cur.count x) →
    ∃ out, removeLoop cond ps iter cur = some out ∧
      ∀ x, out.count x = cur.count x - (if hitE cond ps x = true then iter.count x else 0)
  | [], cur, _ => ⟨cur, rfl, by simp⟩
  | nm :: rest, cur, h => by
    simp only [removeLoop, removeFor_eq]
    by_cases hh : ps.any (cond nm) = true
    · have hmem : nm ∈ cur := by
        have := h nm
        simp only [List.count_cons_self] at this
        exact List.count_pos_iff.mp (by omega)
      have hc : cur.contains nm = true := by simpa using hmem
      simp only [hh, hc, if_true]
      have hrest : ∀ x, rest.count x ≤ (cur.erase nm).count x := by
        intro x
        have := h x
        rw [List.count_erase]
        rw [List.count_cons] at this
        by_cases hx : (nm == x) = true
        · simp only [hx, if_true] at this ⊢; omega
        · simp only [hx] at this ⊢; simp at this ⊢; omega
      obtain ⟨out, ho, hcount⟩ := removeLoop_count cond ps rest (cur.erase nm) hrest
      refine ⟨out, ho, fun x => ?_⟩
      rw [hcount x, List.count_erase, List.count_cons]
      have := h x
      rw [List.count_cons] at this
      by_cases hx : (nm == x) = true
      · have hxe : nm = x := by simpa using hx
        subst hxe
        simp only [hitE, hh, if_true, hx] at this ⊢
        omega
      · simp only [hx] at this ⊢
        simp
    · have hh' : ps.any (cond nm) = false := by simpa using hh
      simp only [hh', Bool.false_eq_true, if_false]
      have hrest : ∀ x, rest.count x ≤ cur.count x := by
        intro x
        have := h x
        rw [List.count_cons] at this
        omega
      obtain ⟨out, ho, hcount⟩ := removeLoop_count cond ps rest cur hrest
      refine ⟨out, ho, fun x => ?_⟩
      rw [hcount x, List.count_cons]
      by_cases hx : (nm == x) = true
      · have hxe : nm = x := by simpa using hx
        subst hxe
        simp [hitE, hh']
      · simp [hx]

/-- **The filtering loop never raises and keeps exactly the entries no prefix matches**, whatever the
iteration order (`sorted(errors)` is a permutation of `errors`) and even with repeated entries. -/
theorem removeLoop_perm (cond : Err → String → Bool) (ps : List String) (iter errs : List Err)
    (hp : iter.Perm errs) :
    ∃ out, removeLoop cond ps iter errs = some out ∧
      ∀ x, x ∈ out ↔ (x ∈ errs ∧ hitE cond ps x = false) := by
  obtain ⟨out, ho, hc⟩ := removeLoop_count cond ps iter errs (fun x => by rw [hp.count_eq x]; exact Nat.le_refl _)
  refine ⟨out, ho, fun x => ?_⟩
  rw [← List.count_pos_iff, hc x, hp.count_eq x, ← List.count_pos_iff]
  cases hh : hitE cond ps x <;> simp

/-! ## which dotted paths mismatch: a declarative description -/

mutual
/-- `ErrAt o name e c p`: comparing `e` (expected) with `c` under the name `name`, the node with dotted
path `p` mismatches — its key set / length differs, or its leaf fails the rule of its expected type. -/
def ErrAt (o : ROpts) (name : String) : Tree → Tree → String → Prop
  | .sc (.str s), c, p => p = name ∧ ¬ ExactOk (.str s) c
  | .sc (.int n), c, p => p = name ∧ ¬ ExactOk (.int n) c
  | .sc (.bool b), c, p => p = name ∧ ¬ ExactOk (.bool b) c
  | .sc (.cpx z), c, p => p = name ∧ ¬ ExactOk (.cpx z) c
  | .sc (.npcpx z), c, p => p = name ∧ ¬ ExactOk (.npcpx z) c
  | .sc (.npbool b), c, p => p = name ∧ ¬ ExactOk (.npbool b) c
  | .sc (.flt x), c, p => p = name ∧ ¬ NumOk o (.sc (.flt x)) c
  | .sc (.npflt x), c, p => p = name ∧ ¬ NumOk o (.sc (.npflt x)) c
  | .sc (.npint n), c, p => p = name ∧ ¬ NumOk o (.sc (.npint n)) c
  | .sc .none, c, p => p = name ∧ c ≠ .sc .none
  | .arr k sh fl, c, p => p = name ∧
      ¬ (if k = .flt then NumOk o (.arr k sh fl) c else compareExact o.phase (.arr k sh fl) c = .verdict true)
  | .list es, c, p =>
      (p = name ∧ ∀ cs, c = .list cs → es.length ≠ cs.length) ∨
      (∃ cs, c = .list cs ∧ es.length = cs.length ∧ ErrAtList o name 0 es cs p)
  | .dict ekv, c, p =>
      (p = name ∧ ∀ ckv, c = .dict ckv →
          ((∃ q ∈ ckv, hasKey q.1 ekv = false) ∨ (∃ q ∈ ekv, hasKey q.1 ckv = false))) ∨
      (∃ ckv, c = .dict ckv ∧ ErrAtDict o name ekv ckv p)
def ErrAtList (o : ROpts) (name : String) : Nat → List Tree → List Tree → String → Prop
  | i, e :: es, c :: cs, p => ErrAt o (name ++ "." ++ toString i) e c p ∨ ErrAtList o name (i + 1) es cs p
  | _, _, _, _ => False
def ErrAtDict (o : ROpts) (name : String) : List (String × Tree) → List (String × Tree) → String → Prop
  | [], _, _ => False
  | (k, e) :: rest, ckv, p =>
      (∃ c, lookup k ckv = some c ∧ ErrAt o (name ++ "." ++ k) e c p) ∨ ErrAtDict o name rest ckv p
end

/-- names of the error entries -/
def errNames (items : List Item) : List String := (errsOf items).map Err.name

theorem errsOf_append : ∀ a b : List Item, errsOf (a ++ b) = errsOf a ++ errsOf b
  | [], _ => rfl
  | .err e :: t, b => by simp [errsOf, errsOf_append t b]
  | .unmodelled :: t, b => by simp [errsOf, errsOf_append t b]

theorem errNames_append (a b : List Item) : errNames (a ++ b) = errNames a ++ errNames b := by
  simp [errNames, errsOf_append]

theorem exactLeaf_names (name : String) (s : Sc) (c : Tree) (p : String)
    (h : Item.unmodelled ∉ exactLeaf name s c) :
    p ∈ errNames (exactLeaf name s c) ↔ (p = name ∧ ¬ ExactOk s c) := by
  cases c with
  | sc t => by_cases hh : scEq s t = true <;> simp [exactLeaf, ExactOk, hh, errNames, errsOf]
  | list l =>
    cases hs : s.isNumpy
    · simp [exactLeaf, ExactOk, hs, errNames, errsOf]
    · simp [exactLeaf, hs] at h
  | dict kv => simp [exactLeaf, ExactOk, errNames, errsOf]
  | arr k sh fl => simp [exactLeaf] at h

theorem verdictOf_names (name : String) (tag : Nat) (r : Res) (p : String)
    (h : Item.unmodelled ∉ verdictOf name tag r) :
    p ∈ errNames (verdictOf name tag r) ↔ (p = name ∧ r ≠ .verdict true) := by
  cases r with
  | verdict b => cases b <;> simp [verdictOf, errNames, errsOf]
  | raised e => simp [verdictOf] at h
  | unmodelled => simp [verdictOf] at h

/-- **The error names of the recursion are exactly the mismatching paths** (modelled inputs; mutual induction). -/
theorem anyNames (name : String) (tag : Nat) (b : Bool) (p : String) :
    p ∈ errNames (if b = true then [Item.err ⟨name, tag⟩] else []) ↔ (p = name ∧ b = true) := by
  cases b <;> simp [errNames, errsOf]

mutual
theorem errAt_iff (o : ROpts) (name : String) : ∀ e c p, Item.unmodelled ∉ recErrs o name e c →
    (p ∈ errNames (recErrs o name e c) ↔ ErrAt o name e c p)
  | .sc (.str s), c, p, h => by
    simp only [recErrs] at h ⊢; simp only [ErrAt]; exact exactLeaf_names _ _ _ _ h
  | .sc (.int n), c, p, h => by
    simp only [recErrs] at h ⊢; simp only [ErrAt]; exact exactLeaf_names _ _ _ _ h
  | .sc (.bool b), c, p, h => by
    simp only [recErrs] at h ⊢; simp only [ErrAt]; exact exactLeaf_names _ _ _ _ h
  | .sc (.cpx z), c, p, h => by
    simp only [recErrs] at h ⊢; simp only [ErrAt]; exact exactLeaf_names _ _ _ _ h
  | .sc (.npcpx z), c, p, h => by
    simp only [recErrs] at h ⊢; simp only [ErrAt]; exact exactLeaf_names _ _ _ _ h
  | .sc (.npbool b), c, p, h => by
    simp only [recErrs] at h ⊢; simp only [ErrAt]; exact exactLeaf_names _ _ _ _ h
  | .sc (.flt x), c, p, h => by
    simp only [recErrs] at h ⊢; simp only [ErrAt, NumOk]; exact verdictOf_names _ _ _ _ h
  | .sc (.npflt x), c, p, h => by
    simp only [recErrs] at h ⊢; simp only [ErrAt, NumOk]; exact verdictOf_names _ _ _ _ h
  | .sc (.npint n), c, p, h => by
    simp only [recErrs] at h ⊢; simp only [ErrAt, NumOk]; exact verdictOf_names _ _ _ _ h
  | .sc .none, c, p, _ => by
    cases c with
    | sc t => cases t <;> simp [recErrs, ErrAt, isNone, errNames, errsOf]
    | list l => simp [recErrs, ErrAt, isNone, errNames, errsOf]
    | dict kv => simp [recErrs, ErrAt, isNone, errNames, errsOf]
    | arr k sh fl => simp [recErrs, ErrAt, isNone, errNames, errsOf]
  | .arr k sh fl, c, p, h => by
    simp only [recErrs] at h ⊢
    simp only [ErrAt, NumOk]
    by_cases hk : k = .flt
    · simp only [hk, if_true] at h ⊢; exact verdictOf_names _ _ _ _ h
    · simp only [hk, if_false] at h ⊢; exact verdictOf_names _ _ _ _ h
  | .list es, c, p, h => by
    cases c with
    | sc t =>
      cases t
      all_goals first
        | (exfalso; simp [recErrs] at h; done)
        | simp [recErrs, ErrAt, errNames, errsOf]
    | dict kv => exfalso; simp [recErrs] at h
    | arr k sh fl => exfalso; simp [recErrs] at h
    | list cs =>
      simp only [recErrs] at h ⊢
      by_cases hl : es.length = cs.length
      · simp only [hl, ne_eq, not_true_eq_false, if_false] at h ⊢
        rw [errAtList_iff o name 0 es cs p h]
        simp [ErrAt, hl]
      · simp only [ne_eq, hl, not_false_eq_true, if_true]
        simp [ErrAt, hl, errNames, errsOf]
  | .dict ekv, c, p, h => by
    cases c with
    | sc t => simp [recErrs, ErrAt, errNames, errsOf]
    | list l => simp [recErrs, ErrAt, errNames, errsOf]
    | arr k sh fl => simp [recErrs, ErrAt, errNames, errsOf]
    | dict ckv =>
      simp only [recErrs] at h ⊢
      have h3 : Item.unmodelled ∉ recDict o name ekv ckv := fun hm => h (List.mem_append_right _ hm)
      rw [errNames_append, errNames_append, List.mem_append, List.mem_append,
        errAtDict_iff o name ekv ckv p h3, anyNames, anyNames]
      simp only [ErrAt, List.any_eq_true, Bool.not_eq_true', Tree.dict.injEq, forall_eq', exists_eq_left']
      constructor
      · rintro ((⟨h1, h2⟩ | ⟨h1, h2⟩) | h3)
        · exact Or.inl ⟨h1, Or.inl h2⟩
        · exact Or.inl ⟨h1, Or.inr h2⟩
        · exact Or.inr h3
      · rintro (⟨h1, h2 | h2⟩ | h3)
        · exact Or.inl (Or.inl ⟨h1, h2⟩)
        · exact Or.inl (Or.inr ⟨h1, h2⟩)
        · exact Or.inr h3
theorem errAtList_iff (o : ROpts) (name : String) : ∀ i es cs p, Item.unmodelled ∉ recList o name i es cs →
    (p ∈ errNames (recList o name i es cs) ↔ ErrAtList o name i es cs p)
  | _, [], [], _, _ => by simp [recList, ErrAtList, errNames, errsOf]
  | _, [], _ :: _, _, _ => by simp [recList, ErrAtList, errNames, errsOf]
  | _, _ :: _, [], _, _ => by simp [recList, ErrAtList, errNames, errsOf]
  | i, e :: es, c :: cs, p, h => by
    simp only [recList] at h ⊢
    have h1 : Item.unmodelled ∉ recErrs o (name ++ "." ++ toString i) e c := fun hm => h (List.mem_append_left _ hm)
    have h2 : Item.unmodelled ∉ recList o name (i + 1) es cs := fun hm => h (List.mem_append_right _ hm)
    rw [errNames_append, List.mem_append, errAt_iff o _ e c p h1, errAtList_iff o name (i + 1) es cs p h2]
    simp [ErrAtList]
theorem errAtDict_iff (o : ROpts) (name : String) : ∀ ekv ckv p, Item.unmodelled ∉ recDict o name ekv ckv →
    (p ∈ errNames (recDict o name ekv ckv) ↔ ErrAtDict o name ekv ckv p)
  | [], _, _, _ => by simp [recDict, ErrAtDict, errNames, errsOf]
  | (k, e) :: rest, ckv, p, h => by
    simp only [recDict] at h ⊢
    have h2 : Item.unmodelled ∉ recDict o name rest ckv := fun hm => h (List.mem_append_right _ hm)
    rw [errNames_append, List.mem_append, errAtDict_iff o name rest ckv p h2]
    simp only [ErrAtDict]
    cases hl : lookup k ckv with
    | none => simp [errNames, errsOf]
    | some c =>
      have h1 : Item.unmodelled ∉ recErrs o (name ++ "." ++ k) e c := by
        intro hm; apply h; apply List.mem_append_left; simpa [hl] using hm
      simp [errAt_iff o _ e c p h1]
end

/-! ## `compare_recursive`: the full characterisation -/

/-- a path is forgiven when it is one of the `forgive` paths or lies below one (whole dotted segments) -/
def Forgiven (forgive : Option (List String)) (p : String) : Prop :=
  ∃ fg ∈ forgive.getD [], pathUnder p (rootify fg) = true

/-- a path is open to the sign-flip retry: everywhere for `equal_phase=True`, under the listed paths for a list -/
def PhaseListed : PhaseOpt → String → Prop
  | .off, _ => False
  | .all, _ => True
  | .paths l, p => ∃ ep ∈ l, pathUnder p (rootify ep) = true

theorem pathUnder_self (p : String) : pathUnder p p = true := by simp [pathUnder]

theorem mem_dedupNames : ∀ (errs : List Err) (seen : List String) (e : Err), e ∈ errs →
    e.name ∈ seen ∨ e.name ∈ dedupNames errs seen
  | [], _, _, h => by simp at h
  | x :: t, seen, e, h => by
    simp only [dedupNames]
    by_cases hs : seen.contains x.name = true
    · simp only [hs, if_true]
      rcases List.mem_cons.mp h with rfl | h
      · exact Or.inl (by simpa using hs)
      · exact mem_dedupNames t seen e h
    · simp only [hs, if_false, Bool.false_eq_true]
      rcases List.mem_cons.mp h with rfl | h
      · exact Or.inr (List.mem_cons_self ..)
      · rcases mem_dedupNames t (x.name :: seen) e h with h' | h'
        · rcases List.mem_cons.mp h' with h'' | h''
          · exact Or.inr (by rw [h'']; exact List.mem_cons_self ..)
          · exact Or.inl h''
        · exact Or.inr (List.mem_cons_of_mem _ h')

theorem forgiveStage_spec (forgive : Option (List String)) (errors : List Err) :
    ∃ out, forgiveStage forgive errors = some out ∧
      ∀ x, x ∈ out ↔ (x ∈ errors ∧ ¬ Forgiven forgive x.name) := by
  unfold forgiveStage
  cases forgive with
  | none =>
    obtain ⟨out, ho, hm⟩ := removeLoop_perm (fun nm fg => pathUnder nm.name fg) []
      (errors.mergeSort Err.le) errors (List.mergeSort_perm errors Err.le)
    refine ⟨out, ho, fun x => ?_⟩
    rw [hm x]; simp [hitE, Forgiven]
  | some l =>
    obtain ⟨out, ho, hm⟩ := removeLoop_perm (fun nm fg => pathUnder nm.name fg) (l.map rootify)
      (errors.mergeSort Err.le) errors (List.mergeSort_perm errors Err.le)
    refine ⟨out, ho, fun x => ?_⟩
    rw [hm x]; simp [hitE, Forgiven, List.any_map]

theorem phaseStage_spec (phase : PhaseOpt) (nn : List String) (errors : List Err) :
    ∃ out, phaseStage phase nn errors = some out ∧
      ∀ x, x ∈ out ↔ (x ∈ errors ∧ ¬ (PhaseListed phase x.name ∧ x.name ∉ nn)) := by
  unfold phaseStage
  by_cases hb : (!errors.isEmpty && phase.truthy) = true
  · simp only [hb, if_true]
    obtain ⟨out, ho, hm⟩ := removeLoop_perm (fun nm ep => pathUnder nm.name ep && !nn.contains nm.name)
      (phaseEps phase errors) (errors.mergeSort Err.le) errors (List.mergeSort_perm errors Err.le)
    refine ⟨out, ho, fun x => ?_⟩
    rw [hm x]
    constructor
    · rintro ⟨hx, hh⟩
      refine ⟨hx, ?_⟩
      rintro ⟨hl, hn⟩
      have : hitE (fun nm ep => pathUnder nm.name ep && !nn.contains nm.name) (phaseEps phase errors) x = true := by
        simp only [hitE, List.any_eq_true, Bool.and_eq_true, Bool.not_eq_true', ]
        cases phase with
        | off => simp [PhaseListed] at hl
        | all =>
          rcases mem_dedupNames errors [] x hx with h | h
          · simp at h
          · exact ⟨x.name, h, pathUnder_self _, by simpa using hn⟩
        | paths l =>
          obtain ⟨ep, hep, hu⟩ := hl
          exact ⟨rootify ep, by simpa [phaseEps] using ⟨ep, hep, rfl⟩, hu, by simpa using hn⟩
      rw [this] at hh; exact absurd hh (by simp)
    · rintro ⟨hx, hh⟩
      refine ⟨hx, ?_⟩
      cases hE : hitE (fun nm ep => pathUnder nm.name ep && !nn.contains nm.name) (phaseEps phase errors) x with
      | false => rfl
      | true =>
        exfalso; apply hh
        simp only [hitE, List.any_eq_true, Bool.and_eq_true, Bool.not_eq_true'] at hE
        obtain ⟨ep, hep, hu, hn⟩ := hE
        refine ⟨?_, by simpa using hn⟩
        cases phase with
        | off => simp [phaseEps] at hep
        | all => trivial
        | paths l =>
          simp only [phaseEps, List.mem_map] at hep
          obtain ⟨ep', hep', rfl⟩ := hep
          exact ⟨ep', hep', hu⟩
  · have hb' : (!errors.isEmpty && phase.truthy) = false := by simpa using hb
    simp only [hb', Bool.false_eq_true, if_false]
    refine ⟨errors, rfl, fun x => ?_⟩
    constructor
    · intro hx
      refine ⟨hx, ?_⟩
      rintro ⟨hl, _⟩
      cases phase with
      | off => exact hl
      | all =>
        have : errors.isEmpty = true := by simpa [PhaseOpt.truthy] using hb'
        simp [List.isEmpty_iff.mp this] at hx
      | paths l =>
        obtain ⟨ep, hep, _⟩ := hl
        have hb'' : ¬ errors = [] → l = [] := by
          simpa [PhaseOpt.truthy, Bool.and_eq_false_iff] using hb'
        by_cases he : errors = []
        · simp [he] at hx
        · simp [hb'' he] at hep
    · exact fun h => h.1

/-- **compare_recursive returns True exactly when every mismatching path is excused**: it is forgiven
(equal to or below a `forgive` path, whole dotted segments), or it is open to the sign-flip retry
(`equal_phase=True`, or at/below a listed path) and no longer mismatches when leaves may be compared
up to an overall sign.  In particular: never a pass when a non-forgiven key set, length or leaf is
off, never a failure when all non-forgiven paths agree.  All trees, all option values. -/
theorem compare_recursive_iff (atol rtol : Rat) (forgive : Option (List String)) (phase : PhaseOpt) (e c : Tree)
    (hm : Item.unmodelled ∉ recErrs ⟨atol, rtol, false⟩ "root" e c)
    (hm' : Item.unmodelled ∉ recErrs ⟨atol, rtol, true⟩ "root" e c) :
    compareRecursive atol rtol forgive phase e c = .verdict true ↔
      (atol < 1 ∧ ∀ p, ErrAt ⟨atol, rtol, false⟩ "root" e c p →
          (PhaseListed phase p ∧ ¬ ErrAt ⟨atol, rtol, true⟩ "root" e c p) ∨ Forgiven forgive p) := by
  have hc1 : (recErrs ⟨atol, rtol, false⟩ "root" e c).contains .unmodelled = false := by simpa using hm
  have hc2 : (recErrs ⟨atol, rtol, true⟩ "root" e c).contains .unmodelled = false := by simpa using hm'
  unfold compareRecursive
  by_cases ha : 1 ≤ atol
  · have : ¬ atol < 1 := Rat.not_lt.mpr ha
    simp [ha, this]
  · have hlt : atol < 1 := Rat.not_le.mp ha
    simp only [ha, if_false, hc1, hc2, Bool.and_false, Bool.false_eq_true, hlt, true_and]
    obtain ⟨o1, h1, m1⟩ := phaseStage_spec phase ((errsOf (recErrs ⟨atol, rtol, true⟩ "root" e c)).map Err.name)
      (errsOf (recErrs ⟨atol, rtol, false⟩ "root" e c))
    obtain ⟨o2, h2, m2⟩ := forgiveStage_spec forgive o1
    simp only [h1, h2]
    have key : ∀ p, p ∈ (errsOf (recErrs ⟨atol, rtol, true⟩ "root" e c)).map Err.name ↔
        ErrAt ⟨atol, rtol, true⟩ "root" e c p := fun p => errAt_iff _ _ e c p hm'
    constructor
    · intro hv p hp
      have hemp : o2 = [] := by simpa using hv
      have hp' : p ∈ errNames (recErrs ⟨atol, rtol, false⟩ "root" e c) := (errAt_iff _ _ e c p hm).mpr hp
      obtain ⟨x, hx, rfl⟩ := List.mem_map.mp hp'
      by_cases hf : Forgiven forgive x.name
      · exact Or.inr hf
      · left
        refine Classical.byContradiction fun hcon => ?_
        have : x ∈ o2 := (m2 x).mpr ⟨(m1 x).mpr ⟨hx, fun ⟨hl, hn⟩ => hcon ⟨hl, fun h => hn ((key _).mpr h)⟩⟩, hf⟩
        simp [hemp] at this
    · intro hall
      have : o2 = [] := by
        apply List.eq_nil_iff_forall_not_mem.mpr
        intro x hx
        obtain ⟨hx1, hnf⟩ := (m2 x).mp hx
        obtain ⟨hxe, hnp⟩ := (m1 x).mp hx1
        have hp : ErrAt ⟨atol, rtol, false⟩ "root" e c x.name :=
          (errAt_iff _ _ e c x.name hm).mp (List.mem_map.mpr ⟨x, hxe, rfl⟩)
        rcases hall x.name hp with ⟨hl, hn⟩ | hf
        · exact hnp ⟨hl, fun h => hn ((key _).mp h)⟩
        · exact hnf hf
      simp [this]

/-- with `atol < 1`, `compare_recursive` always returns a verdict (no exception) on modelled inputs -/
theorem compare_recursive_total (atol rtol : Rat) (forgive : Option (List String)) (phase : PhaseOpt) (e c : Tree)
    (ha : atol < 1)
    (hm : Item.unmodelled ∉ recErrs ⟨atol, rtol, false⟩ "root" e c)
    (hm' : Item.unmodelled ∉ recErrs ⟨atol, rtol, true⟩ "root" e c) :
    ∃ b, compareRecursive atol rtol forgive phase e c = .verdict b := by
  have hc1 : (recErrs ⟨atol, rtol, false⟩ "root" e c).contains .unmodelled = false := by simpa using hm
  have hc2 : (recErrs ⟨atol, rtol, true⟩ "root" e c).contains .unmodelled = false := by simpa using hm'
  unfold compareRecursive
  have ha' : ¬ 1 ≤ atol := Rat.not_le.mpr ha
  simp only [ha', if_false, hc1, hc2, Bool.and_false, Bool.false_eq_true]
  obtain ⟨o1, h1, _⟩ := phaseStage_spec phase ((errsOf (recErrs ⟨atol, rtol, true⟩ "root" e c)).map Err.name)
    (errsOf (recErrs ⟨atol, rtol, false⟩ "root" e c))
  obtain ⟨o2, h2, _⟩ := forgiveStage_spec forgive o1
  simp only [h1, h2]
  exact ⟨_, rfl⟩


theorem items_nil_of_names (items : List Item) (h : Item.unmodelled ∉ items) (hn : errNames items = []) :
    items = [] := by
  cases items with
  | nil => rfl
  | cons i t =>
    cases i with
    | err e => simp [errNames, errsOf] at hn
    | unmodelled => simp at h

/-- coherence of the two declarative descriptions: no path mismatches exactly when the trees agree -/
theorem agree_iff_no_errAt (o : ROpts) (name : String) (e c : Tree) (hm : Item.unmodelled ∉ recErrs o name e c) :
    Agree o e c ↔ ∀ p, ¬ ErrAt o name e c p := by
  rw [← recErrs_agree o name e c]
  constructor
  · intro h p hp
    have := (errAt_iff o name e c p hm).mpr hp
    simp [h, errNames, errsOf] at this
  · intro h
    apply items_nil_of_names _ hm
    apply List.eq_nil_iff_forall_not_mem.mpr
    intro p hp
    exact h p ((errAt_iff o name e c p hm).mp hp)

/-- default options: `compare_recursive` returns True exactly when the structures agree -/
theorem compareRecursive_default_iff (atol rtol : Rat) (e c : Tree)
    (hm : Item.unmodelled ∉ recErrs ⟨atol, rtol, false⟩ "root" e c)
    (hm' : Item.unmodelled ∉ recErrs ⟨atol, rtol, true⟩ "root" e c) :
    compareRecursive atol rtol none .off e c = .verdict true ↔ (atol < 1 ∧ Agree ⟨atol, rtol, false⟩ e c) := by
  rw [compare_recursive_iff atol rtol none .off e c hm hm', agree_iff_no_errAt _ "root" e c hm]
  simp [PhaseListed, Forgiven]

/-- the documented refusal: `atol >= 1` raises ValueError whatever the inputs -/
theorem compareRecursive_atol_ge_one (atol rtol : Rat) (forgive : Option (List String)) (phase : PhaseOpt)
    (e c : Tree) (h : 1 ≤ atol) : compareRecursive atol rtol forgive phase e c = .raised .valueError := by
  simp [compareRecursive, h]

/-! ## the five repaired defect classes, as positive regression tests of the model (kernel-evaluated) -/

/-- 6bb542d: a path matched by two forgive entries is simply forgiven -/
example : compareRecursive (1/1000000) 0 (some ["a", "a.b"]) .off
    (.dict [("a", .dict [("b", .sc (.flt (.fin 1)))])])
    (.dict [("a", .dict [("b", .sc (.flt (.fin 2)))])]) = .verdict true := by decide +kernel
example : compareRecursive (1/1000000) 0 none (.paths ["a", "root.a"])
    (.dict [("a", .sc (.flt (.fin 1)))]) (.dict [("a", .sc (.flt (.fin (-1))))]) = .verdict true := by
  decide +kernel
/-- 9979db7: forgiving `a` does not forgive the sibling key `ab` -/
example : compareRecursive (1/1000000) 0 (some ["a"]) .off
    (.dict [("a", .sc (.flt (.fin 1))), ("ab", .sc (.flt (.fin 2)))])
    (.dict [("a", .sc (.flt (.fin 1))), ("ab", .sc (.flt (.fin 3)))]) = .verdict false := by decide +kernel
/-- 2189975: equal `np.bool_` leaves agree -/
example : compareRecursive (1/1000000) 0 none .off
    (.dict [("a", .sc (.npbool true))]) (.dict [("a", .sc (.npbool true))]) = .verdict true := by decide +kernel
/-- cf6f150: dict vs non-dict is a reported mismatch, not an exception -/
example : compareRecursive (1/1000000) 0 none .off
    (.dict [("a", .dict [("b", .sc (.int 1))])]) (.dict [("a", .sc .none)]) = .verdict false := by decide +kernel
/-- ca03624: a complex `computed` is compared as complex data -/
example : compareValues ⟨1/1000000, 0, false, false, false⟩
    (.sc (.flt (.fin 1))) (.arr .cpx [] [.npcpx ⟨.fin 1, .fin 2⟩]) = .verdict false := by decide +kernel
example : compareValues ⟨1/1000000, 0, false, false, false⟩
    (.list [.sc (.flt (.fin 1))]) (.list [.sc (.cpx ⟨.fin 1, .fin 0⟩)]) = .verdict true := by decide +kernel

end QcelVerif.Compare
