import QcelVerif.Model.KabschMirror
import QcelVerif.Props.C12Unique
/-!
# C12 — the mirror clause: recipes with `mirror = True`, and "mirror images are matched only when requested"

The code mirrors FIRST (`algeom[:, 1] *= -1.0`), then subtracts the shift, then rotates (models/align.py:80-83);
`B787`'s mirror pass (align.py:216-227) mirrors the concern geometry the same way before handing it to
`kabsch_align`, so the rotation/shift it stores are those of the MIRRORED second geometry.  The model is
`alignCoords true T U amap geom` (`Model/Kabsch.lean`).

* `alignCoords_true_eq`              `alignCoords true … g = alignCoords false … (g.map mirrorY)`
* **`align_recovers_motion_mirror`** second geometry = mirror image (y → −y) of the rigid copy `r·A + t` (what
                                     `harness/c12.py:make_case(mirror=True)` builds), recipe with `mirror = true`
                                     superimposes exactly, reference non-collinear about its centroid ⇒ `U = Aᵀ`, `T = t`;
                                     the composite linear map of the recipe is `reflY·U = (A·reflY)ᵀ`, the inverse of
                                     the improper motion that was applied, determinant −1
* `align_recovers_motion_mirror_of_reference`  the other reading (rigid copy of the mirrored reference,
                                     `c = mirrorY(r)·A + t`): `U = (S A S)ᵀ`, `T = mirrorY t`
* `nonPlanar_iff_not_planar`         the two predicates of `Model/KabschMirror.lean` are complementary
* `planar_mirror_is_rotation`, **`mirror_never_needed_for_planar`**  a planar centred set coincides with a properly
                                     rotated copy of its mirror image, so for a planar molecule a recipe with
                                     `mirror = false` superimposes the mirror image exactly — the oracle's 'flat' exemption
* `no_rotation_onto_mirror_image`, **`chiral_needs_mirror`**  for a non-planar set NO matrix of determinant +1
                                     superimposes the mirror image with the same atom correspondence (det argument):
                                     with `mirror = false` an exact match is impossible — together with
                                     `B787.mirror_only_on_request` this is the clause "mirror images are matched only
                                     when mirror matching is requested"

Over every linearly ordered field unless a section says "any commutative ring".
-/
namespace QcelVerif.Kabsch
variable {K : Type}

/-! ## 0. list helper: building a `mapM` result pointwise -/

theorem mapM_eq_some_of_getElem {α β : Type} (f : α → Option β) :
    ∀ (l : List α) (r : List β), r.length = l.length →
      (∀ (k : Nat) (hk : k < l.length) (hk' : k < r.length), f l[k] = some r[k]) → l.mapM f = some r := by
  intro l
  induction l with
  | nil =>
    intro r hlen _
    have : r = [] := List.length_eq_zero_iff.mp (by simpa using hlen)
    subst this; rfl
  | cons a t ih =>
    intro r hlen h
    cases r with
    | nil => simp at hlen
    | cons b r' =>
      have h0 := h 0 (by simp) (by simp)
      simp only [List.getElem_cons_zero] at h0
      have ht := ih r' (by simpa using hlen) (fun k hk hk' => by
        have := h (k + 1) (by simpa using hk) (by simpa using hk')
        simpa using this)
      simp only [List.mapM_cons, h0, ht, bind, Option.bind, pure]

section Ring
variable [CommRing K]

/-! ## 1. the reflection `y → −y` (any commutative ring) -/

theorem mirrorY_eq_rowMul (v : V3 K) : v.mirrorY = rowMul v reflY := by
  ext <;> simp only [V3.mirrorY, rowMul, reflY] <;> ring

theorem mirrorY_mirrorY (v : V3 K) : v.mirrorY.mirrorY = v := by
  ext <;> simp only [V3.mirrorY, neg_neg]

theorem reflY_mul_reflY : (reflY : M3 K).mul reflY = M3.one := by
  ext <;> simp only [M3.mul, reflY, M3.one] <;> ring

theorem reflY_transpose : (reflY : M3 K).transpose = reflY := by
  ext <;> simp only [M3.transpose, reflY]

theorem reflY_orth : (reflY : M3 K).mul reflY.transpose = M3.one := by
  rw [reflY_transpose, reflY_mul_reflY]

theorem reflY_det : (reflY : M3 K).det = -1 := by
  simp only [M3.det, reflY]; ring

/-- product of orthogonal matrices is orthogonal (no determinant condition) -/
theorem orth_mul {A B : M3 K} (hA : A.mul A.transpose = M3.one) (hB : B.mul B.transpose = M3.one) :
    (A.mul B).mul (A.mul B).transpose = M3.one := by
  rw [M3.transpose_mul, M3.mul_assoc', ← M3.mul_assoc' B, hB, M3.one_mul', hA]

/-- the model mirrors first: a `mirror = true` recipe is the `mirror = false` recipe on the mirrored geometry -/
theorem alignCoords_true_eq (T : V3 K) (U : M3 K) (amap : List Nat) (g : List (V3 K)) :
    alignCoords true T U amap g = alignCoords false T U amap (g.map V3.mirrorY) := by
  simp only [alignCoords, if_true, Bool.false_eq_true, if_false]

/-- what one atom of a `mirror = true` recipe undergoes, as ONE affine map with an improper linear part:
    `(mirrorY c − T)·U = c·(reflY·U) − T·U`, and `det(reflY·U) = −det U` -/
theorem mirror_recipe_composite (T c : V3 K) (U : M3 K) :
    rowMul (c.mirrorY.sub T) U = (rowMul c (reflY.mul U)).sub (rowMul T U)
      ∧ (reflY.mul U).det = -U.det := by
  refine ⟨?_, by rw [M3.det_mul, reflY_det]; ring⟩
  rw [rowMul_sub, mirrorY_eq_rowMul, rowMul_mul]

/-- determinant of the matrix of rows is the scalar triple product -/
theorem det_ofRows (a b d : V3 K) : (ofRows a b d).det = triple a b d := by
  simp only [ofRows, M3.det, triple, V3.cross, V3.dot]; ring

theorem ofRows_mul (a b d : V3 K) (Q : M3 K) :
    (ofRows a b d).mul Q = ofRows (rowMul a Q) (rowMul b Q) (rowMul d Q) := by
  ext <;> simp only [ofRows, M3.mul, rowMul]

/-- a matrix that fixes three vectors with non-zero triple product has determinant 1 (over a domain) -/
theorem det_eq_one_of_fixes_three [IsDomain K] (Q : M3 K) (a b d : V3 K) (ha : rowMul a Q = a) (hb : rowMul b Q = b)
    (hd : rowMul d Q = d) (h3 : triple a b d ≠ 0) : Q.det = 1 := by
  have h := congrArg M3.det (ofRows_mul a b d Q)
  rw [ha, hb, hd, M3.det_mul, det_ofRows] at h
  have : triple a b d * (Q.det - 1) = 0 := by linear_combination h
  rcases mul_eq_zero.mp this with h0 | h1
  · exact absurd h0 h3
  · linear_combination h1

/-- Cramer: `[a, b, d]·n = (n·a)(b × d) + (n·b)(d × a) + (n·d)(a × b)` -/
theorem triple_smul (a b d n : V3 K) :
    V3.smul (triple a b d) n
      = ((V3.smul (a.dot n) (V3.cross b d)).add (V3.smul (b.dot n) (V3.cross d a))).add
          (V3.smul (d.dot n) (V3.cross a b)) := by
  ext <;> simp only [V3.smul, V3.add, triple, V3.dot, V3.cross] <;> ring

end Ring

section Field
variable [Field K]

/-- a vector of the plane is fixed by the reflection through the plane (no hypothesis on `|n|²`) -/
theorem reflPlane_fixes (n a : V3 K) (h : a.dot n = 0) : rowMul a (reflPlane n) = a := by
  simp only [V3.dot] at h
  ext <;> simp only [rowMul, reflPlane]
  · linear_combination (-2 * n.x / n.nrm2) * h
  · linear_combination (-2 * n.y / n.nrm2) * h
  · linear_combination (-2 * n.z / n.nrm2) * h

theorem reflPlane_orth (n : V3 K) (hn : n.nrm2 ≠ 0) : (reflPlane n).mul (reflPlane n).transpose = M3.one := by
  ext <;> simp only [reflPlane, M3.mul, M3.transpose, M3.one] <;> field_simp <;> simp only [V3.nrm2] <;> ring

theorem reflPlane_det (n : V3 K) (hn : n.nrm2 ≠ 0) : (reflPlane n).det = -1 := by
  simp only [reflPlane, M3.det]; field_simp; simp only [V3.nrm2]; ring

end Field

section Ordered
variable [Field K] [LinearOrder K] [IsStrictOrderedRing K]

/-! ## 2. the `mirror = true` recipe recovers the applied motion -/

omit [LinearOrder K] [IsStrictOrderedRing K] in
/-- reading an exact superposition of `alignCoords false` atom by atom: if the second geometry holds, at the place
    the recipe pairs with reference atom `k`, the vector `f (Rg[k])`, then `(f r − T)·U = r` for every atom -/
theorem alignCoords_false_pointwise (f : V3 K → V3 K) (T : V3 K) (U : M3 K) (Rg Cg : List (V3 K)) (amap : List Nat)
    (hcopy : ∀ (k : Nat) (r : V3 K), Rg[k]? = some r → ∃ i, amap[k]? = some i ∧ Cg[i]? = some (f r))
    (hal : alignCoords false T U amap Cg = some Rg) : ∀ r ∈ Rg, rowMul ((f r).sub T) U = r := by
  intro r hr
  obtain ⟨k, hk, rfl⟩ := List.mem_iff_getElem.mp hr
  simp only [alignCoords, Bool.false_eq_true, if_false] at hal
  have hlen := mapM_some_length _ _ _ hal
  have hk' : k < amap.length := by rw [← hlen]; exact hk
  have hget := mapM_some_getElem _ _ _ hal k hk' hk
  obtain ⟨i, hi, hc⟩ := hcopy k Rg[k] (List.getElem?_eq_getElem hk)
  have hi' : amap[k] = i := by
    have := List.getElem?_eq_getElem hk'
    rw [this] at hi
    exact Option.some.inj hi
  rw [hi', List.getElem?_map, hc] at hget
  exact Option.some.inj hget

omit [LinearOrder K] [IsStrictOrderedRing K] in
/-- … and conversely: an atom map of the right length plus the pointwise statement give the exact superposition -/
theorem alignCoords_false_of_pointwise (f : V3 K → V3 K) (T : V3 K) (U : M3 K) (Rg Cg : List (V3 K))
    (amap : List Nat) (hlen : amap.length = Rg.length)
    (hcopy : ∀ (k : Nat) (r : V3 K), Rg[k]? = some r → ∃ i, amap[k]? = some i ∧ Cg[i]? = some (f r))
    (hpt : ∀ r ∈ Rg, rowMul ((f r).sub T) U = r) : alignCoords false T U amap Cg = some Rg := by
  simp only [alignCoords, Bool.false_eq_true, if_false]
  apply mapM_eq_some_of_getElem _ _ _ hlen.symm
  intro k hk hk'
  obtain ⟨i, hi, hc⟩ := hcopy k Rg[k] (List.getElem?_eq_getElem hk')
  have hi' : amap[k] = i := by
    have := List.getElem?_eq_getElem hk
    rw [this] at hi
    exact Option.some.inj hi
  rw [hi', List.getElem?_map, hc]
  simp only [Option.map_some]
  rw [hpt _ (List.getElem_mem hk')]

/-- **(mirror = true, on the model's `alignCoords`)** let the reference `Rg` be non-collinear about its centroid,
    let the second geometry `Cg` contain, at the place `amap[k]` the recipe pairs with reference atom `k`, the MIRROR
    IMAGE `mirrorY (Rg[k]·A + t)` of the moved copy of that atom (rotated, translated, then `y → −y`, and — through
    `amap` — arbitrarily shuffled), and let the recipe `(rotation U, shift T, atommap amap, mirror ON)` superimpose
    it exactly: `alignCoords true T U amap Cg = some Rg`.  Then `U = Aᵀ = A⁻¹` and `T = t` — rotation and shift are
    those of the underlying proper motion — and the recipe as a whole is that motion composed with the reflection:
    its linear part `reflY·U` equals `(A·reflY)ᵀ`, the inverse of the improper map `r ↦ r·(A·reflY) + mirrorY t`
    that produced the second geometry, and has determinant −1. -/
theorem align_recovers_motion_mirror (A U : M3 K) (hoA : A.mul A.transpose = M3.one) (hdA : A.det = 1)
    (hoU : U.mul U.transpose = M3.one) (hdU : U.det = 1) (t T : V3 K) (Rg Cg : List (V3 K)) (amap : List Nat)
    (hcopy : ∀ (k : Nat) (r : V3 K), Rg[k]? = some r →
      ∃ i, amap[k]? = some i ∧ Cg[i]? = some ((rowMul r A).add t).mirrorY)
    (hal : alignCoords true T U amap Cg = some Rg)
    (hnc : NonCollinear (centre Rg)) :
    U = A.transpose ∧ T = t ∧ reflY.mul U = (A.mul reflY).transpose ∧ (reflY.mul U).det = -1 := by
  rw [alignCoords_true_eq] at hal
  have h := align_recovers_motion A U hoA hdA hoU hdU t T Rg (Cg.map V3.mirrorY) amap (by
    intro k r hk
    obtain ⟨i, hi, hc⟩ := hcopy k r hk
    refine ⟨i, hi, ?_⟩
    rw [List.getElem?_map, hc]
    simp only [Option.map_some, mirrorY_mirrorY]) hal hnc
  refine ⟨h.1, h.2, ?_, ?_⟩
  · rw [h.1, M3.transpose_mul, reflY_transpose]
  · rw [M3.det_mul, reflY_det, hdU]; ring

/-- the other reading — the second geometry is a rigid copy of the MIRRORED reference, `c = mirrorY(r)·A + t`:
    then the `mirror = true` recipe is `U = (S·A·S)ᵀ`, `T = mirrorY t` with `S = reflY` (conjugating by the
    reflection turns the proper rotation `A` into the proper rotation `S A S`). -/
theorem align_recovers_motion_mirror_of_reference (A U : M3 K) (hoA : A.mul A.transpose = M3.one) (hdA : A.det = 1)
    (hoU : U.mul U.transpose = M3.one) (hdU : U.det = 1) (t T : V3 K) (Rg Cg : List (V3 K)) (amap : List Nat)
    (hcopy : ∀ (k : Nat) (r : V3 K), Rg[k]? = some r →
      ∃ i, amap[k]? = some i ∧ Cg[i]? = some ((rowMul r.mirrorY A).add t))
    (hal : alignCoords true T U amap Cg = some Rg)
    (hnc : NonCollinear (centre Rg)) :
    U = ((reflY.mul A).mul reflY).transpose ∧ T = t.mirrorY := by
  rw [alignCoords_true_eq] at hal
  have hoB : ((reflY.mul A).mul reflY).mul ((reflY.mul A).mul reflY).transpose = M3.one :=
    orth_mul (orth_mul reflY_orth hoA) reflY_orth
  have hdB : ((reflY.mul A).mul reflY).det = 1 := by
    rw [M3.det_mul, M3.det_mul, reflY_det, hdA]; ring
  exact align_recovers_motion _ U hoB hdB hoU hdU t.mirrorY T Rg (Cg.map V3.mirrorY) amap (by
    intro k r hk
    obtain ⟨i, hi, hc⟩ := hcopy k r hk
    refine ⟨i, hi, ?_⟩
    rw [List.getElem?_map, hc]
    simp only [Option.map_some, Option.some.injEq]
    ext <;> simp only [V3.mirrorY, rowMul, V3.add, M3.mul, reflY] <;> ring) hal hnc

-- non-vacuity (test) of `align_recovers_motion_mirror`: triangle (0,0,0), (1,0,0), (0,2,0), quarter-turn A about z,
-- t = (1,2,3); the second geometry is the mirror image of the moved copy, listed as (atom 1, atom 0, atom 2);
-- the recipe (Aᵀ, t, [1,0,2], mirror = true) superimposes it exactly
example :
    let A : M3 ℚ := ⟨0, 1, 0, -1, 0, 0, 0, 0, 1⟩
    let t : V3 ℚ := ⟨1, 2, 3⟩
    let Rg : List (V3 ℚ) := [⟨0, 0, 0⟩, ⟨1, 0, 0⟩, ⟨0, 2, 0⟩]
    let Cg : List (V3 ℚ) := [((rowMul ⟨1, 0, 0⟩ A).add t).mirrorY, ((rowMul ⟨0, 0, 0⟩ A).add t).mirrorY,
      ((rowMul ⟨0, 2, 0⟩ A).add t).mirrorY]
    alignCoords true t A.transpose [1, 0, 2] Cg = some Rg := by
  simp [alignCoords, rowMul, V3.sub, V3.add, M3.transpose, V3.mirrorY]

/-! ## 3. planar / non-planar -/

/-- `NonPlanar c ↔ ¬ Planar c`: three position vectors are linearly independent iff no plane through the origin
    contains all of them -/
theorem nonPlanar_iff_not_planar (c : List (V3 K)) : NonPlanar c ↔ ¬ Planar c := by
  constructor
  · rintro ⟨a, ha, b, hb, d, hd, h3⟩ ⟨n, hn, hpl⟩
    have hs := triple_smul a b d n
    rw [hpl a ha, hpl b hb, hpl d hd] at hs
    apply hn
    simp only [V3.ext_iff, V3.smul, V3.add, V3.zero] at hs ⊢
    refine ⟨?_, ?_, ?_⟩
    · have : triple a b d * n.x = 0 := by linear_combination hs.1
      exact (mul_eq_zero.mp this).resolve_left h3
    · have : triple a b d * n.y = 0 := by linear_combination hs.2.1
      exact (mul_eq_zero.mp this).resolve_left h3
    · have : triple a b d * n.z = 0 := by linear_combination hs.2.2
      exact (mul_eq_zero.mp this).resolve_left h3
  · intro hnp
    by_contra h3
    apply hnp
    by_cases hnc : NonCollinear c
    · obtain ⟨a, ha, b, hb, hab⟩ := hnc
      refine ⟨V3.cross a b, hab, fun d hd => ?_⟩
      by_contra hne
      apply h3
      refine ⟨a, ha, b, hb, d, hd, ?_⟩
      intro h0; apply hne
      simp only [triple, V3.dot] at h0 ⊢
      linear_combination h0
    · rw [nonCollinear_iff_not_onLine, not_not] at hnc
      obtain ⟨d0, hd0⟩ := hnc
      by_cases hxy : d0.x = 0 ∧ d0.y = 0
      · refine ⟨⟨1, 0, 0⟩, by intro h; simp [V3.zero, V3.ext_iff] at h, fun a ha => ?_⟩
        obtain ⟨s, rfl⟩ := hd0 a ha
        simp only [V3.dot, V3.smul, hxy.1]; ring
      · refine ⟨⟨-d0.y, d0.x, 0⟩, ?_, fun a ha => ?_⟩
        · intro h
          simp only [V3.zero, V3.ext_iff] at h
          exact hxy ⟨h.2.1, by linear_combination -h.1⟩
        · obtain ⟨s, rfl⟩ := hd0 a ha
          simp only [V3.dot, V3.smul]; ring

/-- **a planar centred set coincides with a properly rotated copy of its mirror image**: if all position vectors
    of `c` lie in a plane through the origin, there is a proper rotation `P` (the reflection `y → −y` undone, then
    the reflection through the plane: two reflections make a rotation) with `mirrorY(a)·P = a` for every atom -/
theorem planar_mirror_is_rotation (c : List (V3 K)) (h : Planar c) :
    ∃ P : M3 K, P.mul P.transpose = M3.one ∧ P.det = 1 ∧ ∀ a ∈ c, rowMul a.mirrorY P = a := by
  obtain ⟨n, hn, hpl⟩ := h
  have hn2 : n.nrm2 ≠ 0 := fun h0 => hn ((nrm2_eq_zero_iff n).mp h0)
  refine ⟨reflY.mul (reflPlane n), orth_mul reflY_orth (reflPlane_orth n hn2), ?_, ?_⟩
  · rw [M3.det_mul, reflY_det, reflPlane_det n hn2]; ring
  · intro a ha
    rw [mirrorY_eq_rowMul, ← rowMul_mul, ← M3.mul_assoc', reflY_mul_reflY, M3.one_mul']
    exact reflPlane_fixes n a (hpl a ha)

/-- **mirror matching is never REQUIRED for a planar molecule** (on the model's `alignCoords`): if the reference is
    planar about its centroid and the second geometry is the mirror image of a rigid copy of it (any proper `A`, any
    `t`, any atom map `amap` of the right length), then a recipe with `mirror = false` and a PROPER rotation
    superimposes it exactly.  (This is why the oracle does not insist on `mirror = True` for the families
    'planar' and 'collinear' — its 'flat' exemption.) -/
theorem mirror_never_needed_for_planar (A : M3 K) (hoA : A.mul A.transpose = M3.one) (hdA : A.det = 1) (t : V3 K)
    (Rg Cg : List (V3 K)) (amap : List Nat) (hlen : amap.length = Rg.length)
    (hcopy : ∀ (k : Nat) (r : V3 K), Rg[k]? = some r →
      ∃ i, amap[k]? = some i ∧ Cg[i]? = some ((rowMul r A).add t).mirrorY)
    (hpl : Planar (centre Rg)) :
    ∃ (U : M3 K) (T : V3 K), U.mul U.transpose = M3.one ∧ U.det = 1
      ∧ alignCoords false T U amap Cg = some Rg := by
  obtain ⟨n, hn, hpln⟩ := hpl
  have hn2 : n.nrm2 ≠ 0 := fun h0 => hn ((nrm2_eq_zero_iff n).mp h0)
  have hHo := reflPlane_orth n hn2
  have hHd := reflPlane_det n hn2
  have hfix : ∀ r ∈ Rg, rowMul (r.sub (centroid Rg)) (reflPlane n) = r.sub (centroid Rg) := fun r hr =>
    reflPlane_fixes n _ (hpln _ (List.mem_map.mpr ⟨r, hr, rfl⟩))
  generalize reflPlane n = H at hHo hHd hfix
  -- the second geometry is ALSO a proper rigid copy: rotation B = H·A·S, shift t'
  set B : M3 K := H.mul (A.mul reflY) with hB
  have hBo : B.mul B.transpose = M3.one := orth_mul hHo (orth_mul hoA reflY_orth)
  have hBd : B.det = 1 := by rw [hB, M3.det_mul, M3.det_mul, hHd, hdA, reflY_det]; ring
  have hBrot : IsRot B := ⟨hBo, hBd⟩
  set T : V3 K := ((rowMul (centroid Rg) (A.mul reflY)).sub (rowMul (centroid Rg) B)).add t.mirrorY with hT
  refine ⟨B.transpose, T, ?_, ?_, ?_⟩
  · rw [M3.transpose_transpose]; exact hBrot.orth'
  · rw [M3.det_transpose]; exact hBd
  · apply alignCoords_false_of_pointwise (fun r => ((rowMul r A).add t).mirrorY) T B.transpose Rg Cg amap hlen hcopy
    intro r hr
    have hr' := hfix r hr
    have key : (((rowMul r A).add t).mirrorY).sub T = rowMul r B := by
      rw [hT, hB]
      simp only [V3.ext_iff, rowMul, V3.sub, M3.mul, reflY, V3.mirrorY, V3.add] at hr' ⊢
      refine ⟨?_, ?_, ?_⟩
      · linear_combination (-A.a00) * hr'.1 + (-A.a10) * hr'.2.1 + (-A.a20) * hr'.2.2
      · linear_combination (A.a01) * hr'.1 + (A.a11) * hr'.2.1 + (A.a21) * hr'.2.2
      · linear_combination (-A.a02) * hr'.1 + (-A.a12) * hr'.2.1 + (-A.a22) * hr'.2.2
    rw [key]
    exact rowMul_rowMul_transpose hBrot r

-- non-vacuity (test): the centred triangle (2,−1,0), (−1,2,0), (−1,−1,0) lies in the plane z = 0
example : Planar [(⟨2, -1, 0⟩ : V3 ℚ), ⟨-1, 2, 0⟩, ⟨-1, -1, 0⟩] := by
  refine ⟨⟨0, 0, 1⟩, by intro h; simp [V3.zero, V3.ext_iff] at h, ?_⟩
  intro a ha
  simp only [List.mem_cons, List.not_mem_nil, or_false] at ha
  rcases ha with rfl | rfl | rfl <;> simp [V3.dot]

/-! ## 4. a non-planar set cannot be rotated onto its mirror image -/

/-- **det argument**: for a non-planar set there is NO matrix `P` of determinant `+1` (in particular no proper
    rotation) with `mirrorY(a)·P = a` for every atom: `reflY·P` would fix three independent vectors, hence have
    determinant `+1`, but `det(reflY·P) = −det P = −1`. -/
theorem no_rotation_onto_mirror_image (c : List (V3 K)) (h : NonPlanar c) :
    ¬ ∃ P : M3 K, P.det = 1 ∧ ∀ a ∈ c, rowMul a.mirrorY P = a := by
  rintro ⟨P, hdP, hfix⟩
  obtain ⟨a, ha, b, hb, d, hd, h3⟩ := h
  have hQ : ∀ v ∈ c, rowMul v (reflY.mul P) = v := fun v hv => by
    rw [rowMul_mul, ← mirrorY_eq_rowMul]; exact hfix v hv
  have h1 := det_eq_one_of_fixes_three (reflY.mul P) a b d (hQ a ha) (hQ b hb) (hQ d hd) h3
  rw [M3.det_mul, reflY_det, hdP] at h1
  have : (2 : K) = 0 := by linear_combination -h1
  exact two_ne_zero this

/-- **a chiral arrangement needs the mirror flag** (on the model's `alignCoords`): if the reference is non-planar
    about its centroid and the second geometry is the mirror image of a rigid copy of it (atom correspondence
    `amap`), then NO recipe with `mirror = false`, whatever its shift and whatever its matrix of determinant `+1`,
    superimposes it exactly with that atom correspondence.  With `B787.mirror_only_on_request` (the held recipe
    has `mirror = true` only if `run_mirror` was requested) this is the clause "mirror images are matched only when
    mirror matching is requested".  (With ANOTHER atom correspondence an achiral non-planar molecule — methane —
    can of course be superimposed on its mirror image; the oracle therefore demands the clause on chiral generic
    geometries with distinct enough atoms, cf. ASSUMPTIONS in harness/c12.py.) -/
theorem chiral_needs_mirror (A : M3 K) (hdA : A.det = 1) (t : V3 K)
    (Rg Cg : List (V3 K)) (amap : List Nat)
    (hcopy : ∀ (k : Nat) (r : V3 K), Rg[k]? = some r →
      ∃ i, amap[k]? = some i ∧ Cg[i]? = some ((rowMul r A).add t).mirrorY)
    (hnp : NonPlanar (centre Rg)) :
    ¬ ∃ (U : M3 K) (T : V3 K), U.det = 1 ∧ alignCoords false T U amap Cg = some Rg := by
  rintro ⟨U, T, hdU, hal⟩
  have hpt := alignCoords_false_pointwise (fun r => ((rowMul r A).add t).mirrorY) T U Rg Cg amap hcopy hal
  have hne : Rg ≠ [] := by
    rintro rfl
    obtain ⟨a, ha, _⟩ := hnp
    simp [centre] at ha
  -- the composite is the affine map r ↦ r·M + w with M = A·S·U of determinant −1
  set M : M3 K := (A.mul reflY).mul U with hM
  have haff : ∀ r ∈ Rg, (rowMul r M).add (rowMul (t.mirrorY.sub T) U) = r := by
    intro r hr
    have h := hpt r hr
    rw [hM]
    simp only [V3.ext_iff, rowMul, V3.add, V3.sub, V3.mirrorY, M3.mul, reflY] at h ⊢
    exact ⟨by linear_combination h.1, by linear_combination h.2.1, by linear_combination h.2.2⟩
  have hcen := affine_fixes_centroid _ _ Rg hne haff
  have hfix : ∀ c ∈ centre Rg, rowMul c M = c := by
    intro c hc
    obtain ⟨r, hr, rfl⟩ := List.mem_map.mp hc
    have h := haff r hr
    simp only [V3.ext_iff, rowMul, V3.add, V3.sub] at h hcen ⊢
    exact ⟨by linear_combination h.1 - hcen.1, by linear_combination h.2.1 - hcen.2.1,
      by linear_combination h.2.2 - hcen.2.2⟩
  obtain ⟨a, ha, b, hb, d, hd, h3⟩ := hnp
  have h1 := det_eq_one_of_fixes_three M a b d (hfix a ha) (hfix b hb) (hfix d hd) h3
  rw [hM, M3.det_mul, M3.det_mul, reflY_det, hdA, hdU] at h1
  have : (2 : K) = 0 := by linear_combination -h1
  exact two_ne_zero this

-- non-vacuity (test): the centred positions e₁, e₂, e₃, −(e₁+e₂+e₃) of a (chiral once labelled) tetrahedral
-- arrangement are non-planar
example : NonPlanar [(⟨1, 0, 0⟩ : V3 ℚ), ⟨0, 1, 0⟩, ⟨0, 0, 1⟩, ⟨-1, -1, -1⟩] :=
  ⟨⟨1, 0, 0⟩, by simp, ⟨0, 1, 0⟩, by simp, ⟨0, 0, 1⟩, by simp, by simp [triple, V3.cross, V3.dot]⟩

end Ordered

end QcelVerif.Kabsch
