import QcelVerif.Model.TextToMol
import QcelVerif.Gen.SrcConsts
import QcelVerif.Props.ConstTieLib
/-!
# C07 — the processing options `from_string` hands on are those of the source

`from_string` calls `from_input_arrays(speclabel=True, …)` and passes no `tooclose=`, `mtol=`, `nonphysical=`,
`zero_ghost_fragments=`, so `from_input_arrays`' keyword defaults apply and are forwarded unchanged to `from_arrays`.
The model writes these values into `textInp` / `textSettings` (via `FromArrays.dfltTooclose`, `dfltMtol` and literal
booleans).  `Gen/SrcConsts.lean` is rewritten on every run from `from_string.py` / `from_arrays.py` (by `ast`); the
theorems below hold for every parsed text.  Core Lean only.

PROPERTY-THEOREMS: text_float_literals_ok text_options_match_source text_settings_match_source
  text_default_unit_matches_source
-/
namespace QcelVerif.TextToMol
open QcelVerif QcelVerif.MolText QcelVerif.FromArrays QcelVerif.ConstTie

theorem text_float_literals_ok :
    FloatLit.ok Src.from_input_arrays.tooclose Src.from_input_arrays.tooclose_dec Src.from_input_arrays.tooclose_bits Src.from_input_arrays.tooclose_f64 = true ∧
    FloatLit.ok Src.from_input_arrays.mtol Src.from_input_arrays.mtol_dec Src.from_input_arrays.mtol_bits Src.from_input_arrays.mtol_f64 = true := by
  decide +kernel

/-- for every processed text: the options of the `from_arrays` call are the source's — `speclabel` as written in
`from_string`'s call, the other four `from_input_arrays`' defaults (which the call does not override and
`from_input_arrays` forwards unchanged) -/
theorem text_options_match_source (p : Processed) (g : List Rat) (c m : Option Int) (fc fm : List (Option Int)) :
    (textInp p g c m fc fm).speclabel = Src.from_string.call_speclabel ∧
    (textInp p g c m fc fm).tooclose = Src.from_input_arrays.tooclose_f64 ∧
    (textInp p g c m fc fm).mtol = Src.from_input_arrays.mtol_f64 ∧
    (textInp p g c m fc fm).nonphysical = Src.from_input_arrays.nonphysical ∧
    (textInp p g c m fc fm).zgf = Src.from_input_arrays.zero_ghost_fragments ∧
    Src.from_string.call_uses_defaults = true ∧ Src.from_input_arrays.forwards_options = true := by
  have h1 : dfltTooclose = Src.from_input_arrays.tooclose_f64 := by decide +kernel
  have h2 : dfltMtol = Src.from_input_arrays.mtol_f64 := by decide +kernel
  refine ⟨by simp [textInp]; decide, by simp [textInp, h1], by simp [textInp, h2], by simp [textInp]; decide,
    by simp [textInp]; decide, by decide, by decide⟩

/-- the settings the per-atom reconciler sees on the text route -/
theorem text_settings_match_source :
    textSettings = { speclabel := Src.from_string.call_speclabel, nonphysical := Src.from_input_arrays.nonphysical,
                     mtol := Src.from_input_arrays.mtol_f64 } := by
  decide +kernel

/-- a text that names no unit is read in `from_input_arrays`' default unit; `bohr` texts in the source's second word -/
theorem text_default_unit_matches_source :
    unitsOf none = Src.from_input_arrays.units.toList ∧ unitsOf (some false) = Src.from_input_arrays.units.toList ∧
    [unitsOf (some false), unitsOf (some true)] = Src.units.accepted.map String.toList := by
  decide

end QcelVerif.TextToMol
