import QcelVerif.Props.C09Typed
import QcelVerif.Model.ResultValues
/-!
# C09 — typing and conformance theorems for Provenance, BasisSet, AtomicResultProperties, AtomicInput, AtomicResult

`Props/C09Typed.lean` proves that every validated Molecule inhabits its declared type.  Here the same is proved for
the other five schema-bearing models, about the constructor models of `Model/ResultValues.lean`:

    <model>_hasType  : input.ok  →  hasType Δ _ (<model>Val input) (.model "<Model>")
    <model>_conforms : input.ok  →  validate (defsOf Δ) _ (declSchema <decl>) (emit Δ (<model>Val input)) = true

for EVERY well-formed keyword input (no per-instance `hasType` check), in every declaration environment `Δ` that
carries the hand-copied declarations (`EnvOk Δ`); `decls_tie` shows at every build that the environment regenerated
from the live classes does.  Values in `Any` / `Dict[str, Any]` slots and extra attributes are arbitrary `Val`s.

BasisSet (and the two models that embed one): the theorems need `….uniq` on top of `….ok`; `basis_uniq_needed`
exhibits an input with `ok` and without `uniq` whose emitted JSON the schema rejects at every fuel
(known finding C09-basis-uniqueItems is exactly this gap).

PROPERTY-THEOREMS: decls_tie  provenance_hasType  provenance_conforms  basis_hasType  basis_conforms
  basis_uniq_needed  props_hasType  props_conforms  atomicInput_hasType  atomicInput_conforms
  atomicResult_hasType  atomicResult_conforms  wfn_shapes_nonempty  rank0_array_counterexample
-/
set_option linter.unusedSimpArgs false
set_option linter.unusedVariables false
set_option linter.unusedSectionVars false
namespace QcelVerif.C09Models
open QcelVerif QcelVerif.Schema QcelVerif.MolSchema QcelVerif.MolDict QcelVerif.ResultValues

/-- the declarations the theorems are about are present in the environment -/
structure EnvOk (Δ : Env) : Prop where
  ident : lookupDecl Δ "Identifiers" = some identDecl
  prov : lookupDecl Δ "Provenance" = some provDecl
  mol : lookupDecl Δ "Molecule" = some C09Typed.molDecl
  harm : lookupDecl Δ "HarmonicType" = some harmDecl
  ecpType : lookupDecl Δ "ECPType" = some ecpTypeDecl
  shell : lookupDecl Δ "ElectronShell" = some shellDecl
  ecp : lookupDecl Δ "ECPPotential" = some ecpDecl
  center : lookupDecl Δ "BasisCenter" = some centerDecl
  basis : lookupDecl Δ "BasisSet" = some basisDecl
  driver : lookupDecl Δ "DriverEnum" = some driverDecl
  model : lookupDecl Δ "Model" = some modelDecl
  wfnProto : lookupDecl Δ "WavefunctionProtocolEnum" = some wfnProtoDecl
  native : lookupDecl Δ "NativeFilesProtocolEnum" = some nativeDecl
  ec : lookupDecl Δ "ErrorCorrectionProtocol" = some ecDecl
  proto : lookupDecl Δ "AtomicResultProtocols" = some protoDecl
  ain : lookupDecl Δ "AtomicInput" = some ainDecl
  props : lookupDecl Δ "AtomicResultProperties" = some propsDecl
  wfn : lookupDecl Δ "WavefunctionProperties" = some wfnDecl
  err : lookupDecl Δ "ComputeError" = some errDecl
  ares : lookupDecl Δ "AtomicResult" = some aresDecl

/-- **Tie to the source, re-checked on every build**: every hand-written declaration used below IS the declaration
the translator regenerated from the live class on this run (field names, aliases, types, required flags, `allOf`
wrapping, `extra` policy, enum members).  An edit of a declared field type in /repo breaks this theorem. -/
theorem decls_tie : EnvOk Gen.SchemaC09.env :=
  ⟨rfl, rfl, rfl, rfl, rfl, rfl, rfl, rfl, rfl, rfl, rfl, rfl, rfl, rfl, rfl, rfl, rfl, rfl, rfl, rfl⟩

/-! ### generic typing lemmas -/

section generic
variable (Δ : Env) (n : Nat)

theorem fieldOk_owner (rec : Val → Ty → Bool) (fields : List Field) (extra : Bool) (k : String) (v : Val) (ty : Ty)
    (hf : ownerTy fields k = some ty) (hv : rec v ty = true) : fieldOk rec fields extra (k, v) = true := by
  unfold ownerTy at hf
  unfold fieldOk
  cases hfind : fields.find? (fun f => aliasIn fields k = f.alias) with
  | none => rw [hfind] at hf; cases hf
  | some f =>
    rw [hfind] at hf
    simp only [Option.map_some, Option.some.injEq] at hf
    simp [hf, hv]

theorem fieldOk_extra (rec : Val → Ty → Bool) (fields : List Field) (k : String) (v : Val)
    (h : notDeclared fields k = true) : fieldOk rec fields true (k, v) = true := by
  unfold notDeclared at h
  unfold fieldOk
  cases hfind : fields.find? (fun f => aliasIn fields k = f.alias) with
  | none => simp
  | some f => rw [hfind] at h; cases h

theorem all_optEntryOf {α : Type} (P : String × Val → Bool) (k : String) (o : Option α) (f : α → Val)
    (h : ∀ a, o = some a → P (k, f a) = true) : (optEntryOf k o f).all P = true := by
  cases o with
  | none => rfl
  | some a => simp [optEntryOf, optEntry, h a rfl]

theorem obj_hasType (m nm : String) (fields : List Field) (extra : Bool) (fs : List (String × Val))
    (hΔ : lookupDecl Δ m = some (.model nm fields extra))
    (hall : fs.all (fieldOk (hasType Δ n) fields extra) = true) (hreq : requiredOk fields fs = true) :
    hasType Δ (n + 1) (.obj m fs) (.model m) = true := by
  show ((m == m) && (match lookupDecl Δ m with
    | some (.model _ fields extra) => fs.all (fieldOk (hasType Δ n) fields extra) && requiredOk fields fs
    | _ => false)) = true
  rw [hΔ]
  simp [hall, hreq]

theorem ht_any (v : Val) : hasType Δ (n + 1) v .any = true := by
  cases v <;> rfl

theorem ht_list (t : Ty) (mn : Option Nat) (xs : List Val) (h1 : ∀ x ∈ xs, hasType Δ n x t = true)
    (h2 : optMinLen mn xs.length = true) : hasType Δ (n + 1) (.list xs) (.list t mn false) = true := by
  show (xs.all (fun x => hasType Δ n x t) && optMinLen mn xs.length && (!false || uniqueJ (emitList Δ xs))) = true
  simp [h2, List.all_eq_true]
  exact h1

theorem ht_listU (t : Ty) (mn : Option Nat) (xs : List Val) (h1 : ∀ x ∈ xs, hasType Δ n x t = true)
    (h2 : optMinLen mn xs.length = true) (h3 : uniqueJ (emitList Δ xs) = true) :
    hasType Δ (n + 1) (.list xs) (.list t mn true) = true := by
  show (xs.all (fun x => hasType Δ n x t) && optMinLen mn xs.length && (!true || uniqueJ (emitList Δ xs))) = true
  simp [h2, h3, List.all_eq_true]
  exact h1

theorem ht_dict (t : Ty) (kvs : List (String × Val)) (h : ∀ kv ∈ kvs, hasType Δ n kv.2 t = true) :
    hasType Δ (n + 1) (.dict kvs) (.dict t) = true := by
  show kvs.all (fun kv => hasType Δ n kv.2 t) = true
  rw [List.all_eq_true]
  exact h

theorem ht_dictAny (kvs : List (String × Val)) : hasType Δ (n + 2) (.dict kvs) (.dict .any) = true :=
  ht_dict Δ (n + 1) .any kvs (fun kv _ => ht_any Δ n kv.2)

theorem ht_union (ts : List Ty) (v : Val) (t : Ty) (hmem : t ∈ ts) (h : hasType Δ n v t = true) :
    hasType Δ (n + 1) v (.union ts) = true := by
  have : ts.any (fun t => hasType Δ n v t) = true := List.any_eq_true.2 ⟨t, hmem, h⟩
  cases v <;> exact this

theorem ht_enum (e nm : String) (vals : List String) (s : String) (hΔ : lookupDecl Δ e = some (.enum nm vals))
    (h : vals.contains s = true) : hasType Δ (n + 1) (.str s) (.enumRef e) = true := by
  show (match lookupDecl Δ e with
    | some (.enum _ vals) => vals.contains s
    | _ => false) = true
  rw [hΔ]
  exact h

theorem ht_lit (vals : List String) (s : String) (h : vals.contains s = true) :
    hasType Δ (n + 1) (.str s) (.lit vals) = true := h

theorem optMinLen_one {α : Type} (l : List α) (h : l.isEmpty = false) : optMinLen (some 1) l.length = true := by
  cases l with
  | nil => simp at h
  | cons a t => simp [optMinLen]

theorem ht_numOrStr (q : Rat) : hasType Δ (n + 2) (.num q) numOrStr = true :=
  ht_union Δ (n + 1) _ _ (.float none none) (by simp) (C09Typed.ht_num Δ n q)

theorem ht_numList (l : List Rat) (h : l.isEmpty = false) :
    hasType Δ (n + 3) (numList l) (.list numOrStr (some 1) false) = true := by
  refine ht_list Δ (n + 2) _ _ _ ?_ (by simpa using optMinLen_one l h)
  intro x hx
  obtain ⟨q, _, rfl⟩ := List.mem_map.1 hx
  exact ht_numOrStr Δ n q

theorem ht_natList (l : List Nat) (h : l.isEmpty = false) (hu : uniqueJ (natsJ l) = true) :
    hasType Δ (n + 2) (natList l) (.list (.int (some 0)) (some 1) true) = true := by
  refine ht_listU Δ (n + 1) _ _ _ ?_ (by simpa [natList] using optMinLen_one l h) ?_
  · intro x hx
    obtain ⟨k, _, rfl⟩ := List.mem_map.1 hx
    show optLe (some 0) (Int.ofNat k) = true
    simp [optLe]
  · rw [emitList_eq_map]
    simpa [natList, natsJ, List.map_map, Function.comp_def, emit] using hu

theorem requiredOk_of (fields : List Field) (fs : List (String × Val))
    (h : ∀ f ∈ fields, f.required = true → ∃ kv ∈ fs, dropped kv.2 = false ∧ aliasIn fields kv.1 = f.alias) :
    requiredOk fields fs = true := by
  unfold requiredOk
  rw [List.all_eq_true]
  intro f hf
  obtain ⟨hf1, hf2⟩ := List.mem_filter.1 hf
  obtain ⟨kv, hkv, hd, ha⟩ := h f hf1 hf2
  exact List.any_eq_true.2 ⟨kv, hkv, by simp [hd, ha]⟩

end generic

/-! ### emitted JSON of number / index lists -/

theorem emit_numList (Δ : Env) (l : List Rat) : emit Δ (numList l) = numsJ l := by
  simp [numList, numsJ, emit, emitList_eq_map, List.map_map, Function.comp_def]

theorem emit_natList (Δ : Env) (l : List Nat) : emit Δ (natList l) = .arr (natsJ l) := by
  simp [natList, natsJ, emit, emitList_eq_map, List.map_map, Function.comp_def]

theorem dropped_natList (l : List Nat) : dropped (natList l) = false := rfl
theorem dropped_numList (l : List Rat) : dropped (numList l) = false := rfl
theorem dropped_str (x : String) : dropped (.str x) = false := rfl
theorem dropped_list (l : List Val) : dropped (.list l) = false := rfl

/-! ### Provenance -/

/-- **provenance_hasType.**  Every Provenance built from a creator, optional version / routine strings and ANY further
keywords (arbitrary values; they must not shadow the three declared names) inhabits the declared type. -/
theorem provenance_hasType (Δ : Env) (hΔ : lookupDecl Δ "Provenance" = some provDecl) (n : Nat) (p : ProvIn)
    (hp : p.ok = true) : hasType Δ (n + 2) (provVal p) (.model "Provenance") = true := by
  refine obj_hasType Δ (n + 1) "Provenance" "Provenance" provFields true _ hΔ ?_ ?_
  · simp only [List.all_cons, List.all_append, Bool.and_eq_true]
    refine ⟨fieldOk_owner _ _ _ _ _ .str rfl (C09Typed.ht_str Δ n _), ?_, ?_, ?_⟩
    · exact all_optEntryOf _ _ _ _ (fun s _ => fieldOk_owner _ _ _ _ _ .str rfl (C09Typed.ht_str Δ n s))
    · exact all_optEntryOf _ _ _ _ (fun s _ => fieldOk_owner _ _ _ _ _ .str rfl (C09Typed.ht_str Δ n s))
    · rw [List.all_eq_true]
      intro kv hkv
      exact fieldOk_extra _ _ _ _ (List.all_eq_true.1 hp kv hkv)
  · refine requiredOk_of _ _ ?_
    intro f hf hr
    simp only [provFields, List.mem_cons, List.not_mem_nil, or_false] at hf
    rcases hf with rfl | rfl | rfl
    · exact ⟨("creator", .str p.creator), by simp, rfl, (by decide : aliasIn provFields "creator" = "creator")⟩
    · cases hr
    · cases hr

theorem provenance_conforms (Δ : Env) (hΔ : lookupDecl Δ "Provenance" = some provDecl) (n : Nat) (p : ProvIn)
    (hp : p.ok = true) :
    validate (defsOf Δ) (3 * (n + 2)) (declSchema provDecl) (emit Δ (provVal p)) = true :=
  root_conforms Δ (n + 2) "Provenance" _ provDecl hΔ (provenance_hasType Δ hΔ n p hp)

/-- test input: a provenance with a nested extra value -/
def exProv : ProvIn :=
  ⟨"psi4", some "1.9", none, [("wall_time", .dict [("a", .list [.num 1, .null]), ("nd", .arr [2] [.num 1, .num 2])])]⟩

/-- test (non-vacuity), in the regenerated environment -/
example : validate (defsOf Gen.SchemaC09.env) (3 * (0 + 2)) (declSchema provDecl)
    (emit Gen.SchemaC09.env (provVal exProv)) = true :=
  provenance_conforms _ decls_tie.prov 0 _ (by decide)

/-! ### BasisSet -/

section basis
variable (Δ : Env) (hΔ : EnvOk Δ) (n : Nat)
include hΔ

theorem emit_shellVal (s : ShellIn) : emit Δ (shellVal s) = shellJson s := by
  have a1 : aliasOf Δ "ElectronShell" "angular_momentum" = "angular_momentum" := by simp [aliasOf, hΔ.shell, shellDecl]; decide
  have a2 : aliasOf Δ "ElectronShell" "harmonic_type" = "harmonic_type" := by simp [aliasOf, hΔ.shell, shellDecl]; decide
  have a3 : aliasOf Δ "ElectronShell" "exponents" = "exponents" := by simp [aliasOf, hΔ.shell, shellDecl]; decide
  have a4 : aliasOf Δ "ElectronShell" "coefficients" = "coefficients" := by simp [aliasOf, hΔ.shell, shellDecl]; decide
  have hc : emitList Δ (s.coefs.map numList) = s.coefs.map numsJ := by
    simp [emitList_eq_map, List.map_map, Function.comp_def, emit_numList]
  simp [shellVal, shellJson, emit, emitFields, dropped_natList, dropped_numList, dropped_str, dropped_list, a1, a2, a3, a4, emit_natList, emit_numList, hc]

theorem emit_ecpVal (e : EcpIn) : emit Δ (ecpVal e) = ecpJson e := by
  have a0 : aliasOf Δ "ECPPotential" "ecp_type" = "ecp_type" := by simp [aliasOf, hΔ.ecp, ecpDecl]; decide
  have a1 : aliasOf Δ "ECPPotential" "angular_momentum" = "angular_momentum" := by simp [aliasOf, hΔ.ecp, ecpDecl]; decide
  have a2 : aliasOf Δ "ECPPotential" "r_exponents" = "r_exponents" := by simp [aliasOf, hΔ.ecp, ecpDecl]; decide
  have a3 : aliasOf Δ "ECPPotential" "gaussian_exponents" = "gaussian_exponents" := by simp [aliasOf, hΔ.ecp, ecpDecl]; decide
  have a4 : aliasOf Δ "ECPPotential" "coefficients" = "coefficients" := by simp [aliasOf, hΔ.ecp, ecpDecl]; decide
  have hc : emitList Δ (e.coefs.map numList) = e.coefs.map numsJ := by
    simp [emitList_eq_map, List.map_map, Function.comp_def, emit_numList]
  have hr : emitList Δ (e.rexp.map Val.int) = e.rexp.map Json.int := by
    simp [emitList_eq_map, List.map_map, Function.comp_def, emit]
  simp [ecpVal, ecpJson, emit, emitFields, dropped_natList, dropped_numList, dropped_str, dropped_list, a0, a1, a2, a3, a4, emit_natList, emit_numList, hc, hr]

omit hΔ in
theorem ht_rows (coefs : List (List Rat)) (hne : coefs.isEmpty = false) (hrow : ∀ r ∈ coefs, r.isEmpty = false) :
    hasType Δ (n + 4) (.list (coefs.map numList)) (.list (.list numOrStr (some 1) false) (some 1) false) = true := by
  refine ht_list Δ (n + 3) _ _ _ ?_ (by simpa using optMinLen_one coefs hne)
  intro x hx
  obtain ⟨r, hr, rfl⟩ := List.mem_map.1 hx
  exact ht_numList Δ n r (hrow r hr)

theorem shell_hasType (s : ShellIn) (hok : s.ok = true) (hu : s.uniq = true) :
    hasType Δ (n + 5) (shellVal s) (.model "ElectronShell") = true := by
  simp only [ShellIn.ok, Protocols.Shell.ok, ShellIn.toP, Bool.and_eq_true, Bool.not_eq_true', List.all_eq_true,
    List.mem_map, beq_iff_eq, forall_exists_index, and_imp, forall_apply_eq_imp_iff₂] at hok
  obtain ⟨⟨⟨ham, hex⟩, hco⟩, hrows, _⟩ := hok
  have hrow : ∀ r ∈ s.coefs, r.isEmpty = false := by
    intro r hr
    have hlen := hrows r hr
    cases r with
    | nil =>
      have h0 : s.exps = [] := List.eq_nil_of_length_eq_zero (by simpa using hlen.symm)
      simp [h0] at hex
    | cons a t => rfl
  refine obj_hasType Δ (n + 4) "ElectronShell" "ElectronShell" shellFields false _ hΔ.shell ?_ ?_
  · simp only [List.all_cons, List.all_nil, Bool.and_true, Bool.and_eq_true]
    refine ⟨?_, ?_, ?_, ?_⟩
    · exact fieldOk_owner _ _ _ _ _ _ rfl (ht_natList Δ (n + 2) s.am ham hu)
    · refine fieldOk_owner _ _ _ _ _ _ rfl (ht_enum Δ (n + 3) "HarmonicType" "HarmonicType" _ _ hΔ.harm ?_)
      cases s.harm <;> decide
    · exact fieldOk_owner _ _ _ _ _ _ rfl (ht_numList Δ (n + 1) s.exps hex)
    · exact fieldOk_owner _ _ _ _ _ _ rfl (ht_rows Δ n s.coefs hco hrow)
  · refine requiredOk_of _ _ ?_
    intro f hf _
    simp only [shellFields, List.mem_cons, List.not_mem_nil, or_false] at hf
    rcases hf with rfl | rfl | rfl | rfl
    · exact ⟨("angular_momentum", natList s.am), by simp [shellVal], rfl, (by decide : aliasIn shellFields "angular_momentum" = "angular_momentum")⟩
    · exact ⟨("harmonic_type", .str (harmStr s.harm)), by simp [shellVal], rfl, (by decide : aliasIn shellFields "harmonic_type" = "harmonic_type")⟩
    · exact ⟨("exponents", numList s.exps), by simp [shellVal], rfl, (by decide : aliasIn shellFields "exponents" = "exponents")⟩
    · exact ⟨("coefficients", .list (s.coefs.map numList)), by simp [shellVal], rfl, (by decide : aliasIn shellFields "coefficients" = "coefficients")⟩

theorem ecp_hasType (e : EcpIn) (hok : e.ok = true) (hu : e.uniq = true) :
    hasType Δ (n + 5) (ecpVal e) (.model "ECPPotential") = true := by
  simp only [EcpIn.ok, Bool.and_eq_true, Bool.not_eq_true', List.all_eq_true, beq_iff_eq] at hok
  obtain ⟨⟨⟨⟨⟨ham, hre⟩, hge⟩, hco⟩, _⟩, hrows⟩ := hok
  have hrow : ∀ r ∈ e.coefs, r.isEmpty = false := by
    intro r hr
    have hlen := hrows r hr
    cases r with
    | nil =>
      have h0 : e.rexp = [] := List.eq_nil_of_length_eq_zero (by simpa using hlen.symm)
      simp [h0] at hre
    | cons a t => rfl
  refine obj_hasType Δ (n + 4) "ECPPotential" "ECPPotential" ecpFields false _ hΔ.ecp ?_ ?_
  · simp only [List.all_cons, List.all_nil, Bool.and_true, Bool.and_eq_true]
    refine ⟨?_, ?_, ?_, ?_, ?_⟩
    · refine fieldOk_owner _ _ _ _ _ _ rfl (ht_enum Δ (n + 3) "ECPType" "ECPType" _ _ hΔ.ecpType ?_)
      cases e.spinorbit <;> decide
    · exact fieldOk_owner _ _ _ _ _ _ rfl (ht_natList Δ (n + 2) e.am ham hu)
    · refine fieldOk_owner _ _ _ _ _ _ rfl (ht_list Δ (n + 3) _ _ _ ?_ (by simpa using optMinLen_one e.rexp hre))
      intro x hx
      obtain ⟨i, _, rfl⟩ := List.mem_map.1 hx
      exact C09Typed.ht_int Δ (n + 2) i
    · exact fieldOk_owner _ _ _ _ _ _ rfl (ht_numList Δ (n + 1) e.gexp hge)
    · exact fieldOk_owner _ _ _ _ _ _ rfl (ht_rows Δ n e.coefs hco hrow)
  · refine requiredOk_of _ _ ?_
    intro f hf _
    simp only [ecpFields, List.mem_cons, List.not_mem_nil, or_false] at hf
    rcases hf with rfl | rfl | rfl | rfl | rfl
    · exact ⟨("ecp_type", .str (ecpTypeStr e.spinorbit)), by simp [ecpVal], rfl, (by decide : aliasIn ecpFields "ecp_type" = "ecp_type")⟩
    · exact ⟨("angular_momentum", natList e.am), by simp [ecpVal], rfl, (by decide : aliasIn ecpFields "angular_momentum" = "angular_momentum")⟩
    · exact ⟨("r_exponents", .list (e.rexp.map Val.int)), by simp [ecpVal], rfl, (by decide : aliasIn ecpFields "r_exponents" = "r_exponents")⟩
    · exact ⟨("gaussian_exponents", numList e.gexp), by simp [ecpVal], rfl, (by decide : aliasIn ecpFields "gaussian_exponents" = "gaussian_exponents")⟩
    · exact ⟨("coefficients", .list (e.coefs.map numList)), by simp [ecpVal], rfl, (by decide : aliasIn ecpFields "coefficients" = "coefficients")⟩

theorem center_hasType (c : CenterIn) (hok : c.ok = true) (hu : c.uniq = true) :
    hasType Δ (n + 7) (centerVal c) (.model "BasisCenter") = true := by
  simp only [CenterIn.ok, Bool.and_eq_true, Bool.not_eq_true', List.all_eq_true] at hok
  obtain ⟨⟨hne, hsh⟩, hecp⟩ := hok
  simp only [CenterIn.uniq, Bool.and_eq_true, List.all_eq_true] at hu
  obtain ⟨⟨hush, hujs⟩, huecp⟩ := hu
  refine obj_hasType Δ (n + 6) "BasisCenter" "BasisCenter" centerFields false _ hΔ.center ?_ ?_
  · simp only [centerVal, List.all_cons, List.all_append, Bool.and_eq_true]
    refine ⟨?_, ?_, ?_⟩
    · refine fieldOk_owner _ _ _ _ _ _ rfl (ht_listU Δ (n + 5) _ _ _ ?_ (by simpa using optMinLen_one c.shells hne) ?_)
      · intro x hx
        obtain ⟨s, hs, rfl⟩ := List.mem_map.1 hx
        exact shell_hasType Δ hΔ n s (hsh s hs) (hush s hs)
      · rw [emitList_eq_map, List.map_map]
        have : (emit Δ ∘ shellVal) = shellJson := funext (fun s => emit_shellVal Δ hΔ s)
        rw [this]; exact hujs
    · exact all_optEntryOf _ _ _ _ (fun i _ => fieldOk_owner _ _ _ _ _ _ rfl (C09Typed.ht_int Δ (n + 5) i))
    · refine all_optEntryOf _ _ _ _ (fun l hl => ?_)
      rw [hl] at hecp huecp
      simp only [Bool.and_eq_true, Bool.not_eq_true', List.all_eq_true] at hecp huecp
      refine fieldOk_owner _ _ _ _ _ _ rfl (ht_listU Δ (n + 5) _ _ _ ?_ (by simpa using optMinLen_one l hecp.1) ?_)
      · intro x hx
        obtain ⟨e, he, rfl⟩ := List.mem_map.1 hx
        exact ecp_hasType Δ hΔ n e (hecp.2 e he) (huecp.1 e he)
      · rw [emitList_eq_map, List.map_map]
        have : (emit Δ ∘ ecpVal) = ecpJson := funext (fun e => emit_ecpVal Δ hΔ e)
        rw [this]; exact huecp.2
  · refine requiredOk_of _ _ ?_
    intro f hf hr
    simp only [centerFields, List.mem_cons, List.not_mem_nil, or_false] at hf
    rcases hf with rfl | rfl | rfl
    · exact ⟨("electron_shells", .list (c.shells.map shellVal)), by simp [centerVal], rfl, (by decide : aliasIn centerFields "electron_shells" = "electron_shells")⟩
    · cases hr
    · cases hr

/-- **basis_hasType.**  Every BasisSet the constructor accepts (`b.ok`: shell / potential validators, atom_map keys,
nbf checksum, schema_name) whose shells and potentials are ALSO pairwise distinct with no repeated angular momentum
(`b.uniq`, the hypothesis the published schema adds) inhabits the declared type. -/
theorem basis_hasType (b : BasisIn) (hok : b.ok = true) (hu : b.uniq = true) :
    hasType Δ (n + 9) (basisVal b) (.model "BasisSet") = true := by
  simp only [BasisIn.ok, Bool.and_eq_true, List.all_eq_true] at hok
  obtain ⟨⟨⟨hcen, hname⟩, _⟩, _⟩ := hok
  simp only [BasisIn.uniq, List.all_eq_true] at hu
  refine obj_hasType Δ (n + 8) "BasisSet" "BasisSet" basisFields false _ hΔ.basis ?_ ?_
  · simp only [basisVal, List.all_cons, List.all_append, Bool.and_eq_true]
    refine ⟨?_, ?_, ?_, ?_, ?_, ?_, ?_⟩
    · refine all_optEntryOf _ _ _ _ (fun s hs => ?_)
      rw [hs] at hname
      exact fieldOk_owner _ _ _ _ _ _ rfl (C09Typed.ht_strPat Δ (n + 7) _ _ hname)
    · exact all_optEntryOf _ _ _ _ (fun i _ => fieldOk_owner _ _ _ _ _ _ rfl (C09Typed.ht_int Δ (n + 7) i))
    · exact fieldOk_owner _ _ _ _ _ _ rfl (C09Typed.ht_str Δ (n + 7) _)
    · exact all_optEntryOf _ _ _ _ (fun s _ => fieldOk_owner _ _ _ _ _ _ rfl (C09Typed.ht_str Δ (n + 7) s))
    · refine fieldOk_owner _ _ _ _ _ _ rfl (ht_dict Δ (n + 7) _ _ ?_)
      intro kv hkv
      obtain ⟨kc, hkc, rfl⟩ := List.mem_map.1 hkv
      exact center_hasType Δ hΔ n kc.2 (hcen kc hkc) (hu kc hkc)
    · refine fieldOk_owner _ _ _ _ _ _ rfl (ht_list Δ (n + 7) _ _ _ ?_ rfl)
      intro x hx
      obtain ⟨s, _, rfl⟩ := List.mem_map.1 hx
      exact C09Typed.ht_str Δ (n + 6) s
    · exact all_optEntryOf _ _ _ _ (fun i _ => fieldOk_owner _ _ _ _ _ _ rfl (C09Typed.ht_int Δ (n + 7) i))
  · refine requiredOk_of _ _ ?_
    intro f hf hr
    simp only [basisFields, List.mem_cons, List.not_mem_nil, or_false] at hf
    rcases hf with rfl | rfl | rfl | rfl | rfl | rfl | rfl
    · cases hr
    · cases hr
    · exact ⟨("name", .str b.name), by simp [basisVal], rfl, (by decide : aliasIn basisFields "name" = "name")⟩
    · cases hr
    · exact ⟨("center_data", .dict (b.centers.map (fun kc => (kc.1, centerVal kc.2)))), by simp [basisVal], rfl,
        (by decide : aliasIn basisFields "center_data" = "center_data")⟩
    · exact ⟨("atom_map", strList b.atomMap), by simp [basisVal], rfl, (by decide : aliasIn basisFields "atom_map" = "atom_map")⟩
    · cases hr

theorem basis_conforms (b : BasisIn) (hok : b.ok = true) (hu : b.uniq = true) :
    validate (defsOf Δ) (3 * (n + 9)) (declSchema basisDecl) (emit Δ (basisVal b)) = true :=
  root_conforms Δ (n + 9) "BasisSet" _ basisDecl hΔ.basis (basis_hasType Δ hΔ n b hok hu)

end basis

/-! ### kinds -/

theorem isIntNone_eq (ty : Ty) (h : Ty.isIntNone ty = true) : ty = .int none := by
  cases ty <;> simp [Ty.isIntNone] at h
  rename_i lo; cases lo <;> simp [Ty.isIntNone] at h; rfl
theorem isFloatNN_eq (ty : Ty) (h : Ty.isFloatNN ty = true) : ty = .float none none := by
  cases ty <;> simp [Ty.isFloatNN] at h
  rename_i lo hi; cases lo <;> cases hi <;> simp [Ty.isFloatNN] at h; rfl
theorem isStr_eq (ty : Ty) (h : Ty.isStr ty = true) : ty = .str := by
  cases ty <;> simp [Ty.isStr] at h; rfl

theorem owner_of_any (fields : List Field) (k : String) (P : Ty → Bool) (h : (ownerTy fields k).any P = true) :
    ∃ ty, ownerTy fields k = some ty ∧ P ty = true := by
  cases ho : ownerTy fields k with
  | none => rw [ho] at h; simp at h
  | some ty => rw [ho] at h; exact ⟨ty, rfl, by simpa using h⟩

theorem requiredOk_none (fields : List Field) (fs : List (String × Val))
    (h : fields.filter (fun f => f.required) = []) : requiredOk fields fs = true := by
  unfold requiredOk; rw [h]; rfl

/-! ### array entries (AtomicResultProperties, WavefunctionProperties) -/

theorem arrEntries_ok {κ : Type} [DecidableEq κ] (Δ : Env) (n : Nat) (fields : List Field) (extra : Bool)
    (all : List κ) (name : κ → String) (out : κ → Option (List Nat)) (data : List (κ × ArrIn))
    (hname : ∀ k, ownerTy fields (name k) = some (.array .float))
    (hshape : ∀ k s, out k = some s → s ≠ []) :
    (arrEntries all name out data).all (fieldOk (hasType Δ (n + 1)) fields extra) = true := by
  rw [List.all_eq_true]
  intro kv hkv
  obtain ⟨k, _, hk⟩ := List.mem_filterMap.1 hkv
  cases ho : out k with
  | none => simp [ho] at hk
  | some s =>
    cases hl : lookupArr data k with
    | none => simp [ho, hl] at hk
    | some a =>
      simp only [ho, hl, Option.some.injEq] at hk
      subst hk
      exact fieldOk_owner _ _ _ _ _ _ (hname k) (C09Typed.ht_numArr Δ n s (hshape k s ho) a.flat)

theorem propArr_owner (k : Protocols.PropArr) : ownerTy propsFields k.name = some (.array .float) := by
  cases k <;> rfl

theorem arrKey_owner (k : Protocols.ArrKey) : ownerTy wfnFields k.name = some (.array .float) := by
  obtain ⟨b, sp⟩ := k
  cases b <;> cases sp <;> rfl

theorem ptrKey_owner (k : Protocols.PtrKey) : ownerTy wfnFields k.name = some .str := by
  obtain ⟨b, sp⟩ := k
  cases b <;> cases sp <;> rfl

/-! ### shapes left by C20's validators have rank >= 1 -/

theorem reshapeExact_eq (t s s' : List Nat) (h : Protocols.reshapeExact t s = some s') : s' = t := by
  unfold Protocols.reshapeExact at h
  split at h
  · exact (Option.some.inj h).symm
  · cases h

theorem applyPropRule_nonempty (natom : Option Nat) (r : Protocols.PropRule) (s s' : List Nat)
    (h : Protocols.applyPropRule natom r s = some s') : s' ≠ [] := by
  cases r <;> cases natom <;> simp only [Protocols.applyPropRule] at h <;>
    first
      | cases h
      | (rw [reshapeExact_eq _ _ _ h]; simp)

theorem validateProps_shapes (p out : Protocols.PropsIn) (h : Protocols.validateProps p = .ok out)
    (k : Protocols.PropArr) (s : List Nat) (hk : out.arr k = some s) : s ≠ [] := by
  unfold Protocols.validateProps at h
  split at h
  · cases h
    simp only [Protocols.propOut] at hk
    cases ha : p.arr k with
    | none => simp [ha] at hk
    | some s0 =>
      simp only [ha, Option.map_some, Option.join_some] at hk
      exact applyPropRule_nonempty _ _ _ _ hk
  · cases h

/-! ### AtomicResultProperties -/

/-- **props_hasType.**  Whenever the validators accept (`propsVal p = some v`; shapes by C20's `validateProps`) keywords
that are declared int / float / array fields of the right kind, the instance inhabits the declared type. -/
theorem props_hasType (Δ : Env) (hΔ : lookupDecl Δ "AtomicResultProperties" = some propsDecl) (n : Nat) (p : PropsIn)
    (v : Val) (hv : propsVal p = some v) (hok : p.kindsOk = true) :
    hasType Δ (n + 3) v (.model "AtomicResultProperties") = true := by
  unfold propsVal at hv
  cases hvp : Protocols.validateProps p.toP with
  | error l => simp [hvp] at hv
  | ok out =>
    simp only [hvp, Option.some.injEq] at hv
    subst hv
    simp only [PropsIn.kindsOk, Bool.and_eq_true, List.all_eq_true] at hok
    obtain ⟨⟨hi, hf⟩, _⟩ := hok
    refine obj_hasType Δ (n + 2) "AtomicResultProperties" "AtomicResultProperties" propsFields false _ hΔ ?_
      (requiredOk_none _ _ (by rfl))
    simp only [List.all_append, Bool.and_eq_true]
    refine ⟨?_, ?_, arrEntries_ok Δ (n + 1) _ _ _ _ _ _ propArr_owner (validateProps_shapes _ _ hvp)⟩
    · rw [List.all_eq_true]
      intro kv hkv
      obtain ⟨e, he, rfl⟩ := List.mem_map.1 hkv
      obtain ⟨ty, hty, hP⟩ := owner_of_any _ _ _ (hi e he)
      rw [isIntNone_eq ty hP] at hty
      exact fieldOk_owner _ _ _ _ _ _ hty (C09Typed.ht_int Δ (n + 1) e.2)
    · rw [List.all_eq_true]
      intro kv hkv
      obtain ⟨e, he, rfl⟩ := List.mem_map.1 hkv
      obtain ⟨ty, hty, hP⟩ := owner_of_any _ _ _ (hf e he)
      rw [isFloatNN_eq ty hP] at hty
      exact fieldOk_owner _ _ _ _ _ _ hty (C09Typed.ht_num Δ (n + 1) _)

theorem props_conforms (Δ : Env) (hΔ : lookupDecl Δ "AtomicResultProperties" = some propsDecl) (n : Nat) (p : PropsIn)
    (fs : List (String × Val)) (hv : propsVal p = some (.obj "AtomicResultProperties" fs)) (hok : p.kindsOk = true) :
    validate (defsOf Δ) (3 * (n + 3)) (declSchema propsDecl) (emit Δ (.obj "AtomicResultProperties" fs)) = true :=
  root_conforms Δ (n + 3) "AtomicResultProperties" _ propsDecl hΔ (props_hasType Δ hΔ n p _ hv hok)

/-- test input: int given for a float field, a gradient for two atoms, a dipole -/
def exProps : PropsIn :=
  ⟨[("calcinfo_natom", 2), ("scf_iterations", 12)], [("return_energy", .ofInt (-76)), ("scf_total_energy", .ofRat (-3/2))],
   [(.return_gradient, ⟨[6], [0, 0, 1, 0, 0, -1]⟩), (.scf_dipole_moment, ⟨[3], [0, 0, 1]⟩)]⟩

/-- test (non-vacuity): the validators accept `exProps` and leave a (2, 3) gradient -/
example : ∃ fs, propsVal exProps = some (.obj "AtomicResultProperties" fs) ∧
    validate (defsOf Gen.SchemaC09.env) (3 * (0 + 3)) (declSchema propsDecl)
      (emit Gen.SchemaC09.env (.obj "AtomicResultProperties" fs)) = true :=
  ⟨_, rfl, props_conforms _ decls_tie.props 0 exProps _ rfl (by decide)⟩

/-! ### the models nested in AtomicInput / AtomicResult -/

section nested
variable (Δ : Env) (hΔ : EnvOk Δ) (n : Nat)
include hΔ

theorem ident_hasType (l : List (String × String))
    (hl : l.all (fun kv => (ownerTy identFields kv.1).any Ty.isStr) = true) :
    hasType Δ (n + 2) (identVal l) (.model "Identifiers") = true := by
  refine obj_hasType Δ (n + 1) "Identifiers" "Identifiers" identFields false _ hΔ.ident ?_ (requiredOk_none _ _ (by rfl))
  rw [List.all_eq_true]
  intro kv hkv
  obtain ⟨e, he, rfl⟩ := List.mem_map.1 hkv
  obtain ⟨ty, hty, hP⟩ := owner_of_any _ _ _ (List.all_eq_true.1 hl e he)
  rw [isStr_eq ty hP] at hty
  exact fieldOk_owner _ _ _ _ _ _ hty (C09Typed.ht_str Δ n e.2)

/-- the Molecule object: `C09Typed.dict_hasType` with the four further entries typed from their structure -/
theorem molObj_hasType (m : MolObj) (hok : m.ok = true) :
    hasType Δ (n + 4) (molObjVal m) (.model "Molecule") = true := by
  simp only [MolObj.ok, Bool.and_eq_true] at hok
  obtain ⟨⟨⟨⟨⟨hsy, hge⟩, hnm⟩, hcn⟩, hid⟩, hpr⟩ := hok
  refine C09Typed.dict_hasType Δ hΔ.mol n m.nm m.ver m.d m.others ⟨hsy, hge, ?_, ?_⟩ ?_
  · intro s hs
    rw [hs] at hnm
    exact hnm
  · intro bs hbs
    rw [hbs] at hcn
    simp only [Bool.and_eq_true, Bool.not_eq_true', List.all_eq_true, decide_eq_true_eq] at hcn
    refine ⟨?_, fun b hb => hcn.2 b hb⟩
    intro h0
    rw [h0] at hcn
    simp at hcn
  · simp only [MolObj.others, List.all_append, Bool.and_eq_true]
    refine ⟨?_, ?_, ?_, ?_⟩
    · refine all_optEntryOf _ _ _ _ (fun l hl => ?_)
      rw [hl] at hid
      exact fieldOk_owner _ _ _ _ _ _ rfl (ident_hasType Δ hΔ (n + 1) l hid)
    · refine all_optEntryOf _ _ _ _ (fun p hp => ?_)
      rw [hp] at hpr
      exact fieldOk_owner _ _ _ _ _ _ rfl (provenance_hasType Δ hΔ.prov (n + 1) p hpr)
    · exact all_optEntryOf _ _ _ _ (fun v _ => fieldOk_owner _ _ _ _ _ _ rfl (ht_any Δ (n + 2) v))
    · exact all_optEntryOf _ _ _ _ (fun kvs _ => fieldOk_owner _ _ _ _ _ _ rfl (ht_dictAny Δ (n + 1) kvs))

theorem model_hasType (m : ModelIn) (hok : m.ok = true) (hu : m.uniq = true) :
    hasType Δ (n + 11) (modelVal m) (.model "Model") = true := by
  simp only [ModelIn.ok, Bool.and_eq_true, List.all_eq_true] at hok
  obtain ⟨hb, hex⟩ := hok
  refine obj_hasType Δ (n + 10) "Model" "Model" modelFields true _ hΔ.model ?_ ?_
  · simp only [modelVal, List.all_cons, List.all_append, Bool.and_eq_true]
    refine ⟨fieldOk_owner _ _ _ _ _ _ rfl (C09Typed.ht_str Δ (n + 9) _), ?_, ?_⟩
    · refine all_optEntryOf _ _ _ _ (fun b hbs => ?_)
      rw [hbs] at hb
      simp only [ModelIn.uniq, hbs] at hu
      refine fieldOk_owner _ _ _ _ _ _ rfl ?_
      cases b with
      | name s => exact ht_union Δ (n + 9) _ _ .str (by simp) (C09Typed.ht_str Δ (n + 8) s)
      | set b => exact ht_union Δ (n + 9) _ _ (.model "BasisSet") (by simp) (basis_hasType Δ hΔ n b hb hu)
    · rw [List.all_eq_true]
      intro kv hkv
      exact fieldOk_extra _ _ _ _ (hex kv hkv)
  · refine requiredOk_of _ _ ?_
    intro f hf hr
    simp only [modelFields, List.mem_cons, List.not_mem_nil, or_false] at hf
    rcases hf with rfl | rfl
    · exact ⟨("method", .str m.method), by simp [modelVal], rfl, (by decide : aliasIn modelFields "method" = "method")⟩
    · cases hr

theorem ec_hasType (e : ECIn) : hasType Δ (n + 3) (ecVal e) (.model "ErrorCorrectionProtocol") = true := by
  refine obj_hasType Δ (n + 2) "ErrorCorrectionProtocol" "ErrorCorrectionProtocol" ecFields false _ hΔ.ec ?_
    (requiredOk_none _ _ (by rfl))
  simp only [ecVal, List.all_append, Bool.and_eq_true]
  refine ⟨?_, ?_⟩
  · exact all_optEntryOf _ _ _ _ (fun b _ => fieldOk_owner _ _ _ _ _ _ rfl (C09Typed.ht_bool Δ (n + 1) b))
  · refine all_optEntryOf _ _ _ _ (fun l _ => fieldOk_owner _ _ _ _ _ _ rfl (ht_dict Δ (n + 1) _ _ ?_))
    intro kv hkv
    obtain ⟨e, _, rfl⟩ := List.mem_map.1 hkv
    exact C09Typed.ht_bool Δ n e.2

theorem proto_hasType (p : ProtoIn) : hasType Δ (n + 5) (protoVal p) (.model "AtomicResultProtocols") = true := by
  refine obj_hasType Δ (n + 4) "AtomicResultProtocols" "AtomicResultProtocols" protoFields false _ hΔ.proto ?_
    (requiredOk_none _ _ (by rfl))
  simp only [protoVal, List.all_append, Bool.and_eq_true]
  refine ⟨?_, ?_, ?_, ?_⟩
  · refine all_optEntryOf _ _ _ _ (fun w _ => fieldOk_owner _ _ _ _ _ _ rfl
      (ht_enum Δ (n + 3) "WavefunctionProtocolEnum" "WavefunctionProtocolEnum" _ _ hΔ.wfnProto ?_))
    cases w <;> decide
  · exact all_optEntryOf _ _ _ _ (fun b _ => fieldOk_owner _ _ _ _ _ _ rfl (C09Typed.ht_bool Δ (n + 3) b))
  · exact all_optEntryOf _ _ _ _ (fun e _ => fieldOk_owner _ _ _ _ _ _ rfl (ec_hasType Δ hΔ (n + 1) e))
  · refine all_optEntryOf _ _ _ _ (fun w _ => fieldOk_owner _ _ _ _ _ _ rfl
      (ht_enum Δ (n + 3) "NativeFilesProtocolEnum" "NativeFilesProtocolEnum" _ _ hΔ.native ?_))
    cases w <;> decide

theorem err_hasType (e : ErrIn) : hasType Δ (n + 3) (errVal e) (.model "ComputeError") = true := by
  refine obj_hasType Δ (n + 2) "ComputeError" "ComputeError" errFields false _ hΔ.err ?_ ?_
  · simp only [errVal, List.all_cons, Bool.and_eq_true]
    refine ⟨fieldOk_owner _ _ _ _ _ _ rfl (C09Typed.ht_str Δ (n + 1) _),
      fieldOk_owner _ _ _ _ _ _ rfl (C09Typed.ht_str Δ (n + 1) _), ?_⟩
    exact all_optEntryOf _ _ _ _ (fun kvs _ => fieldOk_owner _ _ _ _ _ _ rfl (ht_dictAny Δ n kvs))
  · refine requiredOk_of _ _ ?_
    intro f hf hr
    simp only [errFields, List.mem_cons, List.not_mem_nil, or_false] at hf
    rcases hf with rfl | rfl | rfl
    · exact ⟨("error_type", .str e.errorType), by simp [errVal], rfl, (by decide : aliasIn errFields "error_type" = "error_type")⟩
    · exact ⟨("error_message", .str e.errorMessage), by simp [errVal], rfl, (by decide : aliasIn errFields "error_message" = "error_message")⟩
    · cases hr

/-- the ten entries AtomicInput and AtomicResult share, typed against either declaration (`fields`) -/
theorem head_ok (fields : List Field) (i : AInIn) (sn : Option Val) (snTy : Ty)
    (h1 : ownerTy fields "id" = some .str) (h2 : ownerTy fields "schema_name" = some snTy)
    (h3 : ownerTy fields "schema_version" = some (.int none)) (h4 : ownerTy fields "molecule" = some (.model "Molecule"))
    (h5 : ownerTy fields "driver" = some (.enumRef "DriverEnum")) (h6 : ownerTy fields "model" = some (.model "Model"))
    (h7 : ownerTy fields "keywords" = some (.dict .any)) (h8 : ownerTy fields "protocols" = some (.model "AtomicResultProtocols"))
    (h9 : ownerTy fields "extras" = some (.dict .any)) (h10 : ownerTy fields "provenance" = some (.model "Provenance"))
    (hsn : ∀ v, sn = some v → hasType Δ (n + 11) v snTy = true)
    (hok : i.okCommon = true) (hu : i.uniq = true) :
    (i.head sn).all (fieldOk (hasType Δ (n + 11)) fields false) = true := by
  simp only [AInIn.okCommon, Bool.and_eq_true] at hok
  obtain ⟨⟨hmol, hmod⟩, hprov⟩ := hok
  simp only [AInIn.head, List.all_cons, List.all_append, Bool.and_eq_true]
  refine ⟨?_, ?_, ?_, ?_, ?_, ?_, ?_, ?_, ?_, ?_⟩
  · exact all_optEntryOf _ _ _ _ (fun s _ => fieldOk_owner _ _ _ _ _ _ h1 (C09Typed.ht_str Δ (n + 10) s))
  · cases sn with
    | none => rfl
    | some v => simpa [optEntry] using fieldOk_owner _ _ _ _ _ _ h2 (hsn v rfl)
  · exact all_optEntryOf _ _ _ _ (fun k _ => fieldOk_owner _ _ _ _ _ _ h3 (C09Typed.ht_int Δ (n + 10) k))
  · exact fieldOk_owner _ _ _ _ _ _ h4 (molObj_hasType Δ hΔ (n + 7) i.molecule hmol)
  · refine fieldOk_owner _ _ _ _ _ _ h5 (ht_enum Δ (n + 10) "DriverEnum" "DriverEnum" _ _ hΔ.driver ?_)
    cases i.driver <;> decide
  · exact fieldOk_owner _ _ _ _ _ _ h6 (model_hasType Δ hΔ n i.model hmod hu)
  · exact all_optEntryOf _ _ _ _ (fun kvs _ => fieldOk_owner _ _ _ _ _ _ h7 (ht_dictAny Δ (n + 9) kvs))
  · exact all_optEntryOf _ _ _ _ (fun p _ => fieldOk_owner _ _ _ _ _ _ h8 (proto_hasType Δ hΔ (n + 6) p))
  · exact all_optEntryOf _ _ _ _ (fun kvs _ => fieldOk_owner _ _ _ _ _ _ h9 (ht_dictAny Δ (n + 9) kvs))
  · refine all_optEntryOf _ _ _ _ (fun p hp => ?_)
    rw [hp] at hprov
    exact fieldOk_owner _ _ _ _ _ _ h10 (provenance_hasType Δ hΔ.prov (n + 9) p hprov)

theorem head_mem (i : AInIn) (sn : Option Val) :
    ("molecule", molObjVal i.molecule) ∈ i.head sn ∧ ("driver", Val.str (driverStr i.driver)) ∈ i.head sn ∧
    ("model", modelVal i.model) ∈ i.head sn := by
  simp [AInIn.head]

theorem dropped_molObj (m : MolObj) : dropped (molObjVal m) = false := rfl
theorem dropped_model (m : ModelIn) : dropped (modelVal m) = false := rfl

/-- **atomicInput_hasType.**  Every AtomicInput built from a well-formed Molecule object, a driver, a model
(method, optional basis name or BasisSet keywords, any further attributes), optional keywords / extras (any values),
protocols and provenance inhabits the declared type — provided an embedded BasisSet also meets the schema's
uniqueness demand (`i.uniq`). -/
theorem atomicInput_hasType (i : AInIn) (hok : i.ok = true) (hu : i.uniq = true) :
    hasType Δ (n + 12) (ainVal i) (.model "AtomicInput") = true := by
  simp only [AInIn.ok, Bool.and_eq_true] at hok
  obtain ⟨hc, hname⟩ := hok
  refine obj_hasType Δ (n + 11) "AtomicInput" "AtomicInput" ainFields false _ hΔ.ain ?_ ?_
  · refine head_ok Δ hΔ n ainFields i _ _ rfl rfl rfl rfl rfl rfl rfl rfl rfl rfl ?_ hc hu
    intro v hv
    cases hs : i.schemaName with
    | none => simp [hs] at hv
    | some s =>
      simp only [hs, Option.map_some, Option.some.injEq] at hv
      subst hv
      rw [hs] at hname
      exact C09Typed.ht_strPat Δ (n + 10) _ _ hname
  · obtain ⟨m1, m2, m3⟩ := head_mem Δ hΔ i (i.schemaName.map (fun s => .str (pyStrip s)))
    refine requiredOk_of _ _ ?_
    intro f hf hr
    simp only [ainFields, List.mem_cons, List.not_mem_nil, or_false] at hf
    rcases hf with rfl | rfl | rfl | rfl | rfl | rfl | rfl | rfl | rfl | rfl <;> first
      | exact ⟨_, m1, rfl, (by decide : aliasIn ainFields "molecule" = "molecule")⟩
      | exact ⟨_, m2, rfl, (by decide : aliasIn ainFields "driver" = "driver")⟩
      | exact ⟨_, m3, rfl, (by decide : aliasIn ainFields "model" = "model")⟩
      | exact absurd hr (by decide)

theorem atomicInput_conforms (i : AInIn) (hok : i.ok = true) (hu : i.uniq = true) :
    validate (defsOf Δ) (3 * (n + 12)) (declSchema ainDecl) (emit Δ (ainVal i)) = true :=
  root_conforms Δ (n + 12) "AtomicInput" _ ainDecl hΔ.ain (atomicInput_hasType Δ hΔ n i hok hu)

end nested

/-! ### WavefunctionProperties: shapes through `_wavefunction_protocol` and the validators (C20's model) -/

section wfnshapes
open QcelVerif.Protocols

theorem applyArrRule_nonempty (nbf : Option Nat) (r : ArrRule) (s s' : List Nat) (hs : s ≠ [])
    (h : applyArrRule nbf r s = some s') : s' ≠ [] := by
  cases r <;> cases nbf <;> simp only [applyArrRule, reshapeFlat, Option.some.injEq] at h
  all_goals first
    | (subst h; exact hs)
    | (subst h; simp)
    | (rw [reshapeExact_eq _ _ _ h]; simp)
    | (unfold reshapeRows at h
       split at h
       · cases h
       · split at h
         · cases h; simp
         · cases h)

theorem validateWfn_shapes (w1 w2 : Wfn Protocols.BasisIn) (h : validateWfn w1 = .ok w2)
    (hw : ∀ k s, w1.arr k = some s → s ≠ []) : ∀ k s, w2.arr k = some s → s ≠ [] := by
  intro k s hk
  unfold validateWfn at h
  split at h
  · cases h
  · split at h
    · cases h
      simp only [arrOut] at hk
      cases ha : w1.arr k with
      | none => simp [ha] at hk
      | some s0 =>
        simp only [ha, Option.map_some, Option.join_some] at hk
        exact applyArrRule_nonempty _ _ _ _ (hw k s0 ha) hk
    · cases h

theorem keepLoop_shapes {β : Type} (w : Wfn β) (hw : ∀ k s, w.arr k = some s → s ≠ []) :
    ∀ (keep : List PtrKey) (ret out : Wfn β), (∀ k s, ret.arr k = some s → s ≠ []) →
      keepLoop w keep ret = .ok out → ∀ k s, out.arr k = some s → s ≠ []
  | [], ret, out, hret, h => by
    simp only [keepLoop, Except.ok.injEq] at h
    subst h
    exact hret
  | rk :: rest, ret, out, hret, h => by
    unfold keepLoop at h
    cases hp : w.ptr rk with
    | none => rw [hp] at h; exact keepLoop_shapes w hw rest ret out hret h
    | some key =>
      rw [hp] at h
      simp only at h
      cases ha : w.arr key with
      | none => rw [ha] at h; cases h
      | some v =>
        rw [ha] at h
        simp only at h
        refine keepLoop_shapes w hw rest _ out ?_ h
        intro k s hk
        simp only [setArr, setPtr] at hk
        split at hk
        · cases hk; exact hw key _ ha
        · exact hret k s hk

theorem dropBeta_shapes {β : Type} (w : Wfn β) (hw : ∀ k s, w.arr k = some s → s ≠ []) :
    ∀ k s, (dropBeta w).arr k = some s → s ≠ [] := by
  intro k s hk
  simp only [dropBeta] at hk
  split at hk
  · cases hk
  · exact hw k s hk

theorem wfnProtocol_shapes {β : Type} (p : WfnProto) (w w1 : Wfn β) (h : wfnProtocol p w = .ok (some w1))
    (hw : ∀ k s, w.arr k = some s → s ≠ []) : ∀ k s, w1.arr k = some s → s ≠ [] := by
  unfold wfnProtocol at h
  cases hr : w.restricted with
  | none => rw [hr] at h; cases h
  | some r =>
    rw [hr] at h
    have hw1 : ∀ k s, (if r = true then dropBeta w else w).arr k = some s → s ≠ [] := by
      cases r
      · simpa using hw
      · simpa using dropBeta_shapes w hw
    cases p <;> simp only [keepList] at h
    · cases h; exact hw1
    all_goals first
      | (cases h; done)
      | (split at h
         · cases h
           rename_i ret hk
           exact keepLoop_shapes _ hw1 _ _ _ (by intro k s hks; cases hks) hk
         · cases h)

/-- **wfn_shapes_nonempty.**  Whatever the wavefunction protocol keeps and the validators reshape (C20's `wfnField`),
every array the resulting WavefunctionProperties holds has rank >= 1 if the supplied ones had. -/
theorem wfn_shapes_nonempty (p : WfnProto) (w w2 : Wfn Protocols.BasisIn) (h : wfnField p (some w) = .ok (some w2))
    (hw : ∀ k s, w.arr k = some s → s ≠ []) : ∀ k s, w2.arr k = some s → s ≠ [] := by
  simp only [wfnField] at h
  cases hp : wfnProtocol p w with
  | error e => rw [hp] at h; cases h
  | ok o =>
    rw [hp] at h
    cases o with
    | none => cases h
    | some w1 =>
      simp only at h
      cases hv : validateWfn w1 with
      | error e => rw [hv] at h; cases e <;> cases h
      | ok w2' =>
        rw [hv] at h
        cases h
        exact validateWfn_shapes w1 _ hv (wfnProtocol_shapes p w w1 hp hw)

end wfnshapes

theorem toP_shapes (w : WfnIn) (hok : w.arrs.all (fun e => !e.2.shape.isEmpty) = true) :
    ∀ k s, w.toP.arr k = some s → s ≠ [] := by
  intro k s hk
  simp only [WfnIn.toP, lookupArr, Option.map_map] at hk
  cases hf : w.arrs.find? (fun e => e.1 = k) with
  | none => simp [hf] at hk
  | some e =>
    simp only [hf, Option.map_some, Option.some.injEq, Function.comp] at hk
    have := List.all_eq_true.1 hok e (List.mem_of_find?_eq_some hf)
    intro h0
    rw [hk, h0] at this
    simp at this

/-! ### AtomicResult -/

section result
variable (Δ : Env) (hΔ : EnvOk Δ) (n : Nat)
include hΔ

theorem wfnObj_hasType (p : Protocols.WfnProto) (w : WfnIn) (w2 : Protocols.Wfn Protocols.BasisIn)
    (h : Protocols.wfnField p (some w.toP) = .ok (some w2)) (hok : w.ok = true) (hu : w.basis.uniq = true) :
    hasType Δ (n + 10) (wfnObj w w2) (.model "WavefunctionProperties") = true := by
  simp only [WfnIn.ok, Bool.and_eq_true] at hok
  obtain ⟨hb, harr⟩ := hok
  refine obj_hasType Δ (n + 9) "WavefunctionProperties" "WavefunctionProperties" wfnFields false _ hΔ.wfn ?_ ?_
  · simp only [wfnObj, List.all_cons, List.all_append, Bool.and_eq_true]
    refine ⟨fieldOk_owner _ _ _ _ _ _ rfl (basis_hasType Δ hΔ n w.basis hb hu),
      fieldOk_owner _ _ _ _ _ _ rfl (C09Typed.ht_bool Δ (n + 8) _),
      arrEntries_ok Δ (n + 8) _ _ _ _ _ _ arrKey_owner (wfn_shapes_nonempty p _ _ h (toP_shapes w harr)), ?_⟩
    rw [List.all_eq_true]
    intro kv hkv
    obtain ⟨k, _, hk⟩ := List.mem_filterMap.1 hkv
    cases ho : w2.ptr k with
    | none => simp [ho] at hk
    | some t =>
      simp only [ho, Option.map_some, Option.some.injEq] at hk
      subst hk
      exact fieldOk_owner _ _ _ _ _ _ (ptrKey_owner k) (C09Typed.ht_str Δ (n + 8) _)
  · refine requiredOk_of _ _ ?_
    intro f hf hr
    have hreq : f ∈ wfnFields.filter (fun f => f.required) := List.mem_filter.2 ⟨hf, hr⟩
    have hlist : wfnFields.filter (fun f => f.required) =
        [⟨"basis", "basis", (.model "BasisSet"), true, true⟩, ⟨"restricted", "restricted", .bool, true, false⟩] := by rfl
    rw [hlist] at hreq
    simp only [List.mem_cons, List.not_mem_nil, or_false] at hreq
    rcases hreq with rfl | rfl
    · exact ⟨("basis", basisVal w.basis), by simp [wfnObj], rfl, (by decide : aliasIn wfnFields "basis" = "basis")⟩
    · exact ⟨("restricted", .bool w.restricted), by simp [wfnObj], rfl, (by decide : aliasIn wfnFields "restricted" = "restricted")⟩

theorem rr_hasType (r : RRIn) (rr : Protocols.RR)
    (hshape : (match r with | .arr a => !a.shape.isEmpty | _ => true) = true)
    (hrr : Protocols.validateRR d r.toP = some rr) :
    hasType Δ (n + 11) (rrVal r rr)
      (.union [(.float none none), (.array .float), (.dict .any)]) = true := by
  cases r with
  | scalar x => exact ht_union Δ (n + 10) _ _ (.float none none) (by simp) (C09Typed.ht_num Δ (n + 9) _)
  | dict kvs => exact ht_union Δ (n + 10) _ _ (.dict .any) (by simp) (ht_dictAny Δ (n + 8) kvs)
  | arr a =>
    refine ht_union Δ (n + 10) _ _ (.array .float) (by simp) ?_
    have ha : a.shape ≠ [] := by
      intro h0
      simp only [h0] at hshape
      simp at hshape
    cases rr with
    | scalar => exact C09Typed.ht_numArr Δ (n + 9) a.shape ha a.flat
    | dict => exact C09Typed.ht_numArr Δ (n + 9) a.shape ha a.flat
    | arr s =>
      refine C09Typed.ht_numArr Δ (n + 9) s ?_ a.flat
      cases d <;> simp only [Protocols.validateRR, RRIn.toP, Protocols.RR.asShape, Option.some.injEq,
        Protocols.RR.arr.injEq, Option.map_eq_some_iff] at hrr
      · subst hrr; exact ha
      · obtain ⟨s', h1, h2⟩ := hrr
        cases h2
        unfold Protocols.reshapeCols3 at h1
        split at h1
        · cases h1; simp
        · cases h1
      · obtain ⟨s', h1, h2⟩ := hrr
        cases h2
        simp only [Protocols.reshapeSquare] at h1
        split at h1
        · cases h1; simp
        · cases h1
      · subst hrr; exact ha

/-- **atomicResult_hasType.**  Whenever the validators accept (`aresVal r = some v`: property / wavefunction / return_result
shapes, wavefunction protocol, stdout and native_files protocols by C20's model) a well-formed input (`r.ok`) whose
embedded basis sets meet the schema's uniqueness demand (`r.uniq`), the AtomicResult inhabits the declared type - for all
four drivers, wavefunction / protocols / error blocks present or absent, any values in keywords / extras / native_files /
the dictionary form of return_result. -/
theorem atomicResult_hasType (r : AResIn) (v : Val) (hv : aresVal r = some v) (hok : r.ok = true) (hu : r.uniq = true) :
    hasType Δ (n + 12) v (.model "AtomicResult") = true := by
  simp only [AResIn.ok, Bool.and_eq_true] at hok
  obtain ⟨⟨⟨⟨⟨hc, hprov⟩, hkinds⟩, hname⟩, hwok⟩, hrs⟩ := hok
  simp only [AResIn.uniq, Bool.and_eq_true] at hu
  obtain ⟨hu1, hu2⟩ := hu
  unfold aresVal at hv
  cases hpv : propsVal r.properties with
  | none => simp [hpv] at hv
  | some pv =>
    cases hw : Protocols.wfnField (ProtoIn.wp r.inp.protocols) (r.wavefunction.map WfnIn.toP) with
    | error e => simp [hpv, hw] at hv
    | ok w2 =>
      cases hrr : Protocols.validateRR r.inp.driver r.returnResult.toP with
      | none => simp [hpv, hw, hrr] at hv
      | some rr =>
        simp only [hpv, hw, hrr, Option.some.injEq] at hv
        subst hv
        obtain ⟨prov, hprov'⟩ := Option.isSome_iff_exists.1 hprov
        refine obj_hasType Δ (n + 11) "AtomicResult" "AtomicResult" aresFields false _ hΔ.ares ?_ ?_
        · simp only [List.all_append, List.all_cons, Bool.and_eq_true]
          refine ⟨?_, ?_, ?_, ?_, ?_, ?_, ?_, ?_, ?_⟩
          · refine head_ok Δ hΔ n aresFields r.inp _ _ rfl rfl rfl rfl rfl rfl rfl rfl rfl rfl ?_ hc hu1
            intro v hv
            cases hs : r.inp.schemaName with
            | none => simp [hs] at hv
            | some s =>
              simp only [hs, Option.map_some, Option.some.injEq] at hv
              subst hv
              exact ht_lit Δ (n + 10) _ _ (by decide)
          · exact fieldOk_owner _ _ _ _ _ _ rfl (props_hasType Δ hΔ.props (n + 8) _ _ hpv hkinds)
          · cases hwf : r.wavefunction with
            | none => rfl
            | some w =>
              cases w2 with
              | none => rfl
              | some w2 =>
                rw [hwf] at hw hwok hu2
                simp only [Option.map_some] at hw
                simp only [List.all_cons, List.all_nil, Bool.and_true]
                exact fieldOk_owner _ _ _ _ _ _ rfl (wfnObj_hasType Δ hΔ (n + 1) _ w w2 hw hwok hu2)
          · exact fieldOk_owner _ _ _ _ _ _ rfl (rr_hasType Δ hΔ n (d := r.inp.driver) _ _ hrs hrr)
          · refine all_optEntryOf _ _ _ _ (fun s _ => ?_)
            cases hso : Protocols.stdoutProtocol (ProtoIn.so r.inp.protocols) s with
            | none => simp [optStrVal, fieldOk, dropped]
            | some t => exact fieldOk_owner _ _ _ _ _ _ rfl (C09Typed.ht_str Δ (n + 10) t)
          · refine all_optEntryOf _ _ _ _ (fun s _ => ?_)
            cases s with
            | none => simp [optStrVal, fieldOk, dropped]
            | some t => exact fieldOk_owner _ _ _ _ _ _ rfl (C09Typed.ht_str Δ (n + 10) t)
          · exact all_optEntryOf _ _ _ _ (fun f _ => fieldOk_owner _ _ _ _ _ _ rfl (ht_dictAny Δ (n + 9) _))
          · exact fieldOk_owner _ _ _ _ _ _ rfl (C09Typed.ht_bool Δ (n + 10) _)
          · exact all_optEntryOf _ _ _ _ (fun e _ => fieldOk_owner _ _ _ _ _ _ rfl (err_hasType Δ hΔ (n + 8) e))
        · obtain ⟨m1, m2, m3⟩ := head_mem Δ hΔ r.inp (r.inp.schemaName.map (fun _ => Val.str "qcschema_output"))
          have m4 : ("provenance", provVal prov) ∈ r.inp.head (r.inp.schemaName.map (fun _ => Val.str "qcschema_output")) := by
            simp [AInIn.head, hprov', optEntryOf, optEntry]
          refine requiredOk_of _ _ ?_
          intro f hf hr
          have hreq : f ∈ aresFields.filter (fun f => f.required) := List.mem_filter.2 ⟨hf, hr⟩
          have hlist : (aresFields.filter (fun f => f.required)).map (fun f => f.alias) =
              ["molecule", "driver", "model", "provenance", "properties", "return_result", "success"] := by rfl
          have hal : f.alias ∈ ["molecule", "driver", "model", "provenance", "properties", "return_result", "success"] := by
            rw [← hlist]; exact List.mem_map_of_mem hreq
          simp only [List.mem_cons, List.not_mem_nil, or_false] at hal
          rcases hal with h | h | h | h | h | h | h <;> rw [h]
          · exact ⟨_, List.mem_append_left _ m1, rfl, (by decide : aliasIn aresFields "molecule" = "molecule")⟩
          · exact ⟨_, List.mem_append_left _ m2, rfl, (by decide : aliasIn aresFields "driver" = "driver")⟩
          · exact ⟨_, List.mem_append_left _ m3, rfl, (by decide : aliasIn aresFields "model" = "model")⟩
          · exact ⟨_, List.mem_append_left _ m4, rfl, (by decide : aliasIn aresFields "provenance" = "provenance")⟩
          · refine ⟨("properties", pv), by simp, ?_, (by decide : aliasIn aresFields "properties" = "properties")⟩
            unfold propsVal at hpv
            split at hpv
            · cases hpv
            · cases hpv; rfl
          · refine ⟨("return_result", rrVal r.returnResult rr), by simp, ?_,
              (by decide : aliasIn aresFields "return_result" = "return_result")⟩
            cases r.returnResult <;> cases rr <;> rfl
          · exact ⟨("success", .bool r.success), by simp, rfl, (by decide : aliasIn aresFields "success" = "success")⟩

theorem atomicResult_conforms (r : AResIn) (fs : List (String × Val)) (hv : aresVal r = some (.obj "AtomicResult" fs))
    (hok : r.ok = true) (hu : r.uniq = true) :
    validate (defsOf Δ) (3 * (n + 12)) (declSchema aresDecl) (emit Δ (.obj "AtomicResult" fs)) = true :=
  root_conforms Δ (n + 12) "AtomicResult" _ aresDecl hΔ.ares (atomicResult_hasType Δ hΔ n r _ hv hok hu)

end result

/-! ### the uniqueness hypothesis is needed (known finding C09-basis-uniqueItems, at BasisSet level) -/

section needed

theorem validateStep_prop_false (defs : List (String × Schema)) (rec : Schema → Json → Bool) (s : Schema)
    (kvs : List (String × Json)) (k : String) (v : Json) (p : Schema) (hmem : (k, v) ∈ kvs) (href : s.ref = none)
    (hp : assoc k s.props = some p) (hf : rec p v = false) : validateStep defs rec s (.obj kvs) = false := by
  have h : chkProps rec s (.obj kvs) = false := by
    simp only [chkProps]
    exact List.all_eq_false.2 ⟨(k, v), hmem, by simp [chkProp, hp, hf]⟩
  unfold validateStep
  simp [href, h]

theorem validateStep_addl_false (defs : List (String × Schema)) (rec : Schema → Json → Bool) (s : Schema)
    (kvs : List (String × Json)) (k : String) (v : Json) (a : Schema) (hmem : (k, v) ∈ kvs) (href : s.ref = none)
    (hp : s.props = []) (ha : s.addlSchema = some a) (hf : rec a v = false) :
    validateStep defs rec s (.obj kvs) = false := by
  have h : chkProps rec s (.obj kvs) = false := by
    simp only [chkProps]
    exact List.all_eq_false.2 ⟨(k, v), hmem, by simp [chkProp, hp, ha, hf, assoc]⟩
  unfold validateStep
  simp [href, h]

theorem validateStep_items_false (defs : List (String × Schema)) (rec : Schema → Json → Bool) (s : Schema)
    (xs : List Json) (x : Json) (it : Schema) (hmem : x ∈ xs) (href : s.ref = none) (hi : s.items = some it)
    (hf : rec it x = false) : validateStep defs rec s (.arr xs) = false := by
  have h : chkItems rec s (.arr xs) = false := by
    simp only [chkItems, hi]
    have : xs.all (rec it) = false := List.all_eq_false.2 ⟨x, hmem, by simp [hf]⟩
    simp [this]
  unfold validateStep
  simp [href, h]

theorem validateStep_ref_false (defs : List (String × Schema)) (rec : Schema → Json → Bool) (r : String) (d : Schema)
    (j : Json) (hd : assoc r defs = some d) (hf : rec d j = false) :
    validateStep defs rec { ref := some r } j = false := by
  simp [validateStep, hd, hf]

/-- a fused shell with the angular momentum 0 twice (two coefficient rows): accepted by every validator of basis.py -/
def dupShell : ShellIn := ⟨[0, 0], .spherical, [1], [[1], [1]]⟩
def dupBasis : BasisIn :=
  { name := "dup", centers := [("H", { shells := [dupShell] })], atomMap := ["H"] }

abbrev D := defsOf Gen.SchemaC09.env

def amSchema : Schema := schemaOf (.list (.int (some 0)) (some 1) true)
def amJson : Json := .arr [.int 0, .int 0]

theorem am_false : ∀ k, validate D k amSchema amJson = false
  | 0 => rfl
  | k + 1 => by
    show validateStep D (validate D k) amSchema amJson = false
    simp [validateStep, amSchema, amJson, schemaOf, chkArr, uniqueJ, Json.beq, chkType, typeOk, chkEnum, chkPattern, chkNum,
      optMinLen, optMaxLen]

theorem shell_false : ∀ k, validate D k (declSchema shellDecl) (shellJson dupShell) = false
  | 0 => rfl
  | k + 1 =>
    validateStep_prop_false D (validate D k) _ _ "angular_momentum" amJson amSchema (by simp [shellJson, dupShell, natsJ, amJson])
      rfl (by rfl) (am_false k)

theorem shellRef_false : ∀ k, validate D k { ref := some "ElectronShell" } (shellJson dupShell) = false
  | 0 => rfl
  | k + 1 => validateStep_ref_false D (validate D k) "ElectronShell" (declSchema shellDecl) _
      (by rw [assoc_defsOf, decls_tie.shell]; rfl) (shell_false k)

def shellsSchema : Schema := schemaOf (.list (.model "ElectronShell") (some 1) true)

theorem shells_false : ∀ k, validate D k shellsSchema (.arr [shellJson dupShell]) = false
  | 0 => rfl
  | k + 1 => validateStep_items_false D (validate D k) shellsSchema _ (shellJson dupShell) { ref := some "ElectronShell" }
      (by simp) rfl rfl (shellRef_false k)

def centerJson : Json := .obj [("electron_shells", .arr [shellJson dupShell])]

theorem center_false : ∀ k, validate D k (declSchema centerDecl) centerJson = false
  | 0 => rfl
  | k + 1 => validateStep_prop_false D (validate D k) _ _ "electron_shells" (.arr [shellJson dupShell]) shellsSchema
      (by simp [centerJson]) rfl (by rfl) (shells_false k)

theorem centerRef_false : ∀ k, validate D k { ref := some "BasisCenter" } centerJson = false
  | 0 => rfl
  | k + 1 => validateStep_ref_false D (validate D k) "BasisCenter" (declSchema centerDecl) _
      (by rw [assoc_defsOf, decls_tie.center]; rfl) (center_false k)

def centerDataSchema : Schema := schemaOf (.dict (.model "BasisCenter"))

theorem centerData_false : ∀ k, validate D k centerDataSchema (.obj [("H", centerJson)]) = false
  | 0 => rfl
  | k + 1 => validateStep_addl_false D (validate D k) centerDataSchema _ "H" centerJson { ref := some "BasisCenter" }
      (by simp) rfl rfl rfl (centerRef_false k)

theorem emit_dupBasis : emit Gen.SchemaC09.env (basisVal dupBasis) =
    .obj [("name", .str "dup"), ("center_data", .obj [("H", centerJson)]), ("atom_map", .arr [.str "H"])] := by
  have hs := emit_shellVal Gen.SchemaC09.env decls_tie dupShell
  have a1 : aliasOf Gen.SchemaC09.env "BasisSet" "name" = "name" := by decide
  have a2 : aliasOf Gen.SchemaC09.env "BasisSet" "center_data" = "center_data" := by decide
  have a3 : aliasOf Gen.SchemaC09.env "BasisSet" "atom_map" = "atom_map" := by decide
  have a4 : aliasOf Gen.SchemaC09.env "BasisCenter" "electron_shells" = "electron_shells" := by decide
  simp [basisVal, dupBasis, optEntryOf, optEntry, emit, emitFields, emitKvs, emitList, dropped, centerVal, strList, a1, a2, a3,
    a4, hs, centerJson]

/-- **basis_uniq_needed.**  `uniq` cannot be dropped from `basis_hasType` / `basis_conforms`: `dupBasis` (one centre, one
fused shell listing angular momentum 0 twice) passes every check of the constructor model (`ok`), fails `uniq`, and the JSON
emitted for it is rejected by the generated (= published) BasisSet schema at EVERY fuel.  This is known finding
C09-basis-uniqueItems: exactly the gap between what the constructor demands and what the schema demands. -/
theorem basis_uniq_needed : dupBasis.ok = true ∧ dupBasis.uniq = false ∧
    ∀ k, validate D k (declSchema basisDecl) (emit Gen.SchemaC09.env (basisVal dupBasis)) = false := by
  refine ⟨by decide, by decide, ?_⟩
  intro k
  rw [emit_dupBasis]
  cases k with
  | zero => rfl
  | succ k =>
    exact validateStep_prop_false D (validate D k) _ _ "center_data" (.obj [("H", centerJson)]) centerDataSchema
      (by simp) rfl (by rfl) (centerData_false k)

/-- **rank0_array_counterexample.**  The rank >= 1 demand on supplied arrays (`WfnIn.ok`, `AResIn.ok`) is needed where no
validator reshapes: a rank-0 `localized_fock_a` (shape `[]`) passes C20's `validateWfn` untouched, is emitted as a bare
number (JSONArrayEncoder: `tolist()` of a rank-0 array), and the schema's `type: array` rejects it at every fuel. -/
theorem rank0_array_counterexample :
    Protocols.applyArrRule (some 1) (Protocols.arrRule .localized_fock) [] = some [] ∧
    emit Gen.SchemaC09.env (.arr [] [.num 5]) = .num 5 ∧
    ∀ k, validate D k (schemaOf (.array .float)) (.num 5) = false := by
  refine ⟨rfl, rfl, ?_⟩
  intro k
  cases k with
  | zero => rfl
  | succ k =>
    show validateStep D (validate D k) _ _ = false
    simp [validateStep, schemaOf, chkType, typeOk]

end needed

/-! ### non-vacuity (tests) of the BasisSet / AtomicInput / AtomicResult theorems in the regenerated environment -/

def exShell : ShellIn := ⟨[0, 1], .cartesian, [3/2, 1/4], [[1, 2], [0, 1]]⟩
def exBasis : BasisIn :=
  { schemaName := some " qcschema_basis ", name := "sto", atomMap := ["He_0", "He_0"], nbf := some 8,
    centers := [("He_0", { shells := [exShell], ecpElectrons := some 2,
                           ecpPotentials := some [⟨true, [1], [2], [1/2], [[1]]⟩] })] }

/-- test: hypotheses of `basis_conforms` are met by a fused cartesian shell with an ECP and a supplied nbf checksum -/
example : validate D (3 * (0 + 9)) (declSchema basisDecl) (emit Gen.SchemaC09.env (basisVal exBasis)) = true :=
  basis_conforms _ decls_tie 0 exBasis (by decide) (by decide)

def exMol : MolObj :=
  { nm := some "qcschema_molecule", ver := some 2,
    d := { (emptyDict : MolDict Rat) with symbols := some ["He"], geometry := some [0, 0, 0], validated := some true },
    provenance := some ⟨"QCElemental", some "0.28", some "x", []⟩, extras := some [("k", .list [.null, .dict []])] }

def exIn : AInIn :=
  { molecule := exMol, driver := .gradient, model := { method := "hf", basis := some (.set exBasis), extras := [("knob", .dict [("a", .null)])] },
    schemaName := some " qcschema_input", keywords := some [("e_conv", .num (1/1000)), ("nested", .dict [("l", .list [.int 1, .str "x"])])],
    protocols := some { wavefunction := some .all, errorCorrection := some { policies := some [("a", true)] } },
    provenance := some ⟨"me", none, none, [("note", .arr [2] [.num 1, .num 2])]⟩ }

/-- test: hypotheses of `atomicInput_conforms` are met -/
example : validate D (3 * (0 + 12)) (declSchema ainDecl) (emit Gen.SchemaC09.env (ainVal exIn)) = true :=
  atomicInput_conforms _ decls_tie 0 exIn (by decide) (by decide)

def exWfn : WfnIn :=
  ⟨exBasis, true,
   [(⟨.scf_orbitals, .a⟩, ⟨[16], [1, 0, 0, 0, 0, 0, 0, 0, 0, 1, 0, 0, 0, 0, 0, 0]⟩), (⟨.scf_eigenvalues, .b⟩, ⟨[2], [1, 2]⟩)],
   [(⟨.orbitals, .a⟩, ⟨.scf_orbitals, .a⟩)]⟩

def exRes : AResIn :=
  ⟨{ exIn with schemaName := some "QCSchema_Input " }, exProps, some exWfn, .arr ⟨[6], [0, 0, 1, 0, 0, -1]⟩,
   some (some "out"), some none, some [("input", .str "x")], true, some ⟨"e", "m", some [("k", .null)]⟩⟩

/-- test (non-vacuity of `wfn_shapes_nonempty`): the wavefunction protocol `orbitals_and_eigenvalues` and the validators accept `exWfn` -/
example : (match Protocols.wfnField .orbitals_and_eigenvalues (some exWfn.toP) with | .ok (some _) => true | _ => false) = true := by
  decide +kernel

/-- test: the validators accept `exRes` (restricted: beta array dropped; (8, 2) orbitals; (2, 3) gradient) and the
hypotheses of `atomicResult_conforms` are met -/
example : (aresVal exRes).isSome = true ∧ ∀ fs, aresVal exRes = some (.obj "AtomicResult" fs) →
    validate D (3 * (0 + 12)) (declSchema aresDecl) (emit Gen.SchemaC09.env (.obj "AtomicResult" fs)) = true :=
  ⟨by decide +kernel, fun fs h => atomicResult_conforms _ decls_tie 0 exRes fs h (by decide +kernel) (by decide +kernel)⟩

end QcelVerif.C09Models
