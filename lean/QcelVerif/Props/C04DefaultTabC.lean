import QcelVerif.Props.C04DefaultNuc
/-! C04 (extension) — kernel evaluation of `elementIsoOk` (Props/C04DefaultNuc.lean) over the generated periodic
table, four element rows per obligation (each `decide +kernel` ≈ 10–15 s); part C of A–E.  Re-checked whenever
`tools/gen_periodic.py` regenerates `Gen/PT.lean` from a changed data file. -/
namespace QcelVerif.FromArrays
open QcelVerif QcelVerif.Nucleus
set_option maxRecDepth 100000

theorem iso_rows_48 : ((Gen.PT.elements.drop 48).take 4).all elementIsoOk = true := by decide +kernel
theorem iso_rows_52 : ((Gen.PT.elements.drop 52).take 4).all elementIsoOk = true := by decide +kernel
theorem iso_rows_56 : ((Gen.PT.elements.drop 56).take 4).all elementIsoOk = true := by decide +kernel
theorem iso_rows_60 : ((Gen.PT.elements.drop 60).take 4).all elementIsoOk = true := by decide +kernel
theorem iso_rows_64 : ((Gen.PT.elements.drop 64).take 4).all elementIsoOk = true := by decide +kernel
theorem iso_rows_68 : ((Gen.PT.elements.drop 68).take 4).all elementIsoOk = true := by decide +kernel

end QcelVerif.FromArrays
