import QcelVerif.Model.HashConcrete
import QcelVerif.Gen.HashSpec
/-!
# C11 — the constants and the field list the hand model hard-codes are those of the source

`Gen/HashSpec.lean` is rewritten on every run by `harness/c11.py:gen_hash_spec`, which re-reads
`/repo/qcelemental/models/molecule.py` by `ast` (never by importing): the `*_NOISE` constants, `hash_fields`
with its order, which constant `get_hash` hands to `float_prep` for which field, and base / exponent offset of
`float_prep`'s zero band `5 ** (-(around + 1))`.

Two kinds of statements (core Lean only, all by `rfl` / `decide`):
  (a) the model follows its own tables: `canon`, `preimage`, `zeroBand` of `Model/Hash.lean` are the
      table-driven `canonBy` / `preimageBy` / `zeroBandBy` of `Model/HashConcrete.lean` at the model's tables;
  (b) the model's tables are EQUAL to the generated ones.
Together: `canon`, `preimage`, `zeroBand` are the table-driven functions at the tables read from the source
(`*_matches_source`).  A change of a constant, of the field list or its order, of the field → constant map or of
the zero-band expression in the source therefore breaks a proof obligation of this file, whether or not a
generated molecule happens to expose it.

PROPERTY-THEOREMS: noise_constants_match_source fieldSpec_matches_source fieldConst_matches_source
  zeroBand_constants_match_source preimage_follows_fieldSpec canon_follows_fieldSpec zeroBand_follows_constants
  preimage_matches_source canon_matches_source zeroBand_matches_source
-/
namespace QcelVerif.Hash

/-! ## (b) the model's tables are the source's -/

theorem noise_constants_match_source :
    GEOMETRY_NOISE = Gen.GEOMETRY_NOISE ∧ MASS_NOISE = Gen.MASS_NOISE ∧ CHARGE_NOISE = Gen.CHARGE_NOISE := by
  decide

/-- field list, its order, and the decimals each field is rounded to -/
theorem fieldSpec_matches_source : fieldSpec = Gen.fieldSpec := by decide

/-- which named constant `get_hash` uses for which field -/
theorem fieldConst_matches_source : fieldConst = Gen.fieldConst := by decide

theorem zeroBand_constants_match_source :
    zeroBandBase = Gen.zeroBandBase ∧ zeroBandExpOffset = Gen.zeroBandExpOffset := by
  decide

/-- the named constants of `fieldConst` resolve to the decimals of `fieldSpec` (test of internal consistency) -/
example : fieldConst.map (fun p => (p.1, decimalsIn fieldSpec p.1))
    = [("masses", Gen.MASS_NOISE), ("molecular_charge", Gen.CHARGE_NOISE), ("geometry", Gen.GEOMETRY_NOISE),
       ("fragment_charges", Gen.CHARGE_NOISE)] := by decide

/-! ## (a) the model follows its tables -/

/-- `preimage` concatenates the fields in `fieldSpec` order, printing with the decimals of `fieldSpec` -/
theorem preimage_follows_fieldSpec {D} (P : Params D) (c : Canon) : preimage P c = preimageBy P fieldSpec c := by
  simp [preimage, preimageBy, fieldSpec, renderField]

/-- `canon` rounds each field to the decimals of `fieldSpec` -/
theorem canon_follows_fieldSpec {D} (P : Params D) (m : Mol) : canon P m = canonBy P fieldSpec m := rfl

theorem zeroBand_follows_constants (k : Nat) (r : Rd) : zeroBand k r = zeroBandBy zeroBandBase zeroBandExpOffset k r := rfl

/-! ## together -/

/-- **`preimage` serialises exactly the source's `hash_fields`, in the source's order** -/
theorem preimage_matches_source {D} (P : Params D) (c : Canon) : preimage P c = preimageBy P Gen.fieldSpec c := by
  rw [preimage_follows_fieldSpec, fieldSpec_matches_source]

/-- **`canon` rounds each field to the decimals `get_hash` names in the source** -/
theorem canon_matches_source {D} (P : Params D) (m : Mol) : canon P m = canonBy P Gen.fieldSpec m := by
  rw [canon_follows_fieldSpec, fieldSpec_matches_source]

/-- **the model's zero band is the source's `B ** (-(around + O))`**: `|mag / 10^k| < 1 / B^(k+O)` -/
theorem zeroBand_matches_source (k : Nat) (r : Rd) :
    zeroBand k r = decide (r.mag * Gen.zeroBandBase ^ (k + Gen.zeroBandExpOffset) < 10 ^ k) := by
  rw [zeroBand_follows_constants, zeroBand_constants_match_source.1, zeroBand_constants_match_source.2]
  rfl

/-- test: a field outside the model's ten would be printed as a marker, never silently dropped -/
example {D} (P : Params D) (c : Canon) : renderField P c ("atom_labels", none) = "<field outside the model>".toList := by
  simp [renderField]

end QcelVerif.Hash
