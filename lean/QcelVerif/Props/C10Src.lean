import QcelVerif.Model.SerializeSrc
import QcelVerif.Props.C10Msgpack
import QcelVerif.Props.C10Text
/-!
# C10 — the encoder / decoder LOGIC as regenerated from the source equals the hand model, for all inputs

`Gen/SerializeSrc.lean` is the translation of every function body of `qcelemental/util/serialization.py` (python `ast`,
harness/c10_src.py, every run) into the AST of `Model/SerializeAst.lean`; `Model/SerializeSrc.lean` evaluates it on the
model's own value trees.  Here: for ALL payload trees / maps / encoding strings the source-derived hooks, walkers and
dispatch compute what `Model/Serialize.lean` (+ the flat encoders of `Model/JsonText.lean`) compute, and the round-trip /
identical-re-serialisation headline theorems are restated over the source-derived functions.

A change of the source that alters the envelope's keys or their order, the rank test guarding `shape`, the rank-0 test,
the primitives applied (`ravel`, `tobytes`, `hex`, `fromhex`, `frombuffer`), the `pydantic_encoder` guard, the order of the
`isinstance` / `in` tests, a wrapper's callee / keyword arguments or an arm / spelling of the `encoding.lower()` dispatch
regenerates a different term and one of the theorems below stops checking.
-/
namespace QcelVerif.Ser.Src
open QcelVerif.Ser QcelVerif.Ser.Ast

/-! ## helpers -/

theorem lookupB_eq (k : String) : ∀ l, lookupB (asciiBytes k) l = lookupBin k l
  | [] => rfl
  | (a, b) :: t => by simp [lookupB, lookupBin, lookupB_eq k t]

theorem lookupS_eq (k : String) : ∀ l, lookupS (asciiBytes k) l = lookupStr k l
  | [] => rfl
  | (a, b) :: t => by simp [lookupS, lookupStr, lookupS_eq k t]

/-- the hand model's decoder outcome inside the evaluator's exception type -/
def liftH : Except HookErr Val → Except Exc Val
  | .ok v => .ok v
  | .error e => .error (.hook e)

/-- the hand model's flat-encoder outcome (`none` = element kind outside the flat model) -/
def liftO {α : Type} : Option α → Except Exc α
  | some v => .ok v
  | none => .error .flatDtype

theorem kb1 : asciiBytes "_nd_" ≠ asciiBytes "shape" := by decide
theorem kb2 : asciiBytes "dtype" ≠ asciiBytes "shape" := by decide
theorem kb3 : asciiBytes "data" ≠ asciiBytes "shape" := by decide
theorem int_lt2 (k : Nat) : (1 : Int) < (k : Int) + 1 + 1 := by omega

macro "src_simp" : tactic => `(tactic| simp [*, mxEncodeSrc, mpFlatEncodeSrc, jxDefaultSrc, jsonFlatDefaultSrc, mpHookSrc, jxHookSrc,
    defaultHook, objectHook, runFn, runTail,
    Gen.Src.msgpackext_encode, Gen.Src.msgpackext_decode, Gen.Src.jsonext_decode, Gen.Src.msgpack_encode,
    Gen.Src.JSONExtArrayEncoder_default, Gen.Src.JSONArrayEncoder_default,
    bindArgs, execL, execS, evalE, evalEs, evalKV, primApply, prim1, prim2, lookupVar, truthy, excMatches, lookupKey,
    lookupB_eq, lookupS_eq, mpHook, jxHook, liftH, liftO, frombuffer, fromhex, setShape, tolist, isinstanceOf, shapeVal,
    ndEnvelope, jxEnvelope, dictSet, pyEq, kb1, kb2, kb3, int_lt2, QcelVerif.Ser.prodL_singleton, prodL])

/-! ## the `default` hooks (encoders) -/

/-- **msgpackext_encode, from the source**: an ndarray of rank ≥ 1 becomes exactly the hand model's envelope
(`b"_nd_"`, `b"dtype"`, `b"data"` in this order, `b"shape"` appended iff rank > 1) -/
theorem msgpackext_encode_src (dt data : Bytes) (shape : List Nat) (h : shape ≠ []) :
    mxEncodeSrc (.nd dt shape data) = .ok (ndEnvelope dt shape data) := by
  match shape, h with
  | [_], _ => src_simp
  | _ :: _ :: _, _ => src_simp

/-- rank 0: no envelope, the array decays to its one element (`obj.tolist()`) -/
theorem msgpackext_encode_src_rank0 (dt data : Bytes) :
    mxEncodeSrc (.nd dt [] data) = tolist (.nd dt [] data) := by
  rcases h : elemsOf dt data with _ | ⟨_ | ⟨x, _ | _⟩⟩ <;> src_simp

/-- anything that is not an ndarray falls through: `return obj` -/
theorem msgpackext_encode_src_other (v : Val) (h : ∀ dt s d, v ≠ .nd dt s d) : mxEncodeSrc v = .ok v := by
  cases v <;> first | exact absurd rfl (h _ _ _) | src_simp

/-- **JSONExtArrayEncoder.default, from the source**: the json-ext envelope (str keys, hex data) of the hand model -/
theorem jsonext_default_src (dt data : Bytes) (shape : List Nat) (h : shape ≠ []) :
    jxDefaultSrc (.nd dt shape data) = .ok (jxEnvelope dt shape data) := by
  match shape, h with
  | [_], _ => src_simp
  | _ :: _ :: _, _ => src_simp

theorem jsonext_default_src_rank0 (dt data : Bytes) :
    jxDefaultSrc (.nd dt [] data) = tolist (.nd dt [] data) := by
  rcases h : elemsOf dt data with _ | ⟨_ | ⟨x, _ | _⟩⟩ <;> src_simp

/-- anything else is refused (`json.JSONEncoder.default` raises `TypeError`): the hand model's `jxEnc` leaves such
leaves alone and `toJ` then has no JSON form for them -/
theorem jsonext_default_src_other (v : Val) (h : ∀ dt s d, v ≠ .nd dt s d) : jxDefaultSrc v = .error .typeError := by
  cases v <;> first | exact absurd rfl (h _ _ _) | src_simp

/-- **the flat encoders, from the source** (`JSONArrayEncoder.default`, `msgpack_encode`): an ndarray of rank ≥ 1 is
handed on as `ravel().tolist()` — the element list in buffer (row-major) order, exactly the hand model's flat leaf -/
theorem json_flat_default_src (dt data : Bytes) (shape : List Nat) (h : shape ≠ []) :
    jsonFlatDefaultSrc (.nd dt shape data) = liftO ((elemsOf dt data).map .arr) := by
  match shape, h with
  | _ :: _, _ => cases he : elemsOf dt data <;> src_simp

theorem msgpack_flat_encode_src (dt data : Bytes) (shape : List Nat) (h : shape ≠ []) :
    mpFlatEncodeSrc (.nd dt shape data) = liftO ((elemsOf dt data).map .arr) := by
  match shape, h with
  | _ :: _, _ => cases he : elemsOf dt data <;> src_simp

/-! ## the object hooks (decoders) -/

/-- **msgpackext_decode, from the source, equals the hand model's `mpHook` on EVERY decoded map** — same array, same
refusals, same error class -/
theorem msgpackext_decode_src (l : List (Val × Val)) : mpHookSrc l = liftH (mpHook l) := by
  cases h0 : lookupBin "_nd_" l
  · src_simp
  cases h1 : lookupBin "data" l
  · src_simp
  cases h2 : lookupBin "dtype" l
  · src_simp
  rename_i a b
  cases a <;> cases b <;> try (src_simp; done)
  rename_i data dt
  cases h3 : itemsize dt
  · src_simp
  rename_i isz
  cases isz
  · src_simp
  rename_i k
  by_cases h4 : data.length % (k + 1) = 0
  · cases h5 : lookupBin "shape" l
    · src_simp
    · rename_i s
      cases s <;> try (src_simp; done)
      rename_i sv
      cases h6 : shapeOfVals sv
      · src_simp
      · rename_i shape
        by_cases h7 : prodL shape = data.length / (k + 1)
        · src_simp
        · src_simp
  · src_simp

/-- **jsonext_decode, from the source, equals the hand model's `jxHook`** on every parsed object that is not the
evaluation-order corner below (no `"_nd_"`, or no `"data"`, or a `"dtype"` present) -/
theorem jsonext_decode_src (l : List (Val × Val))
    (h : lookupStr "_nd_" l = none ∨ lookupStr "data" l = none ∨ lookupStr "dtype" l ≠ none) :
    jxHookSrc l = liftH (jxHook l) := by
  cases h0 : lookupStr "_nd_" l
  · src_simp
  cases h1 : lookupStr "data" l
  · src_simp
  cases h2 : lookupStr "dtype" l
  · simp [h0, h1, h2] at h
  rename_i a b
  cases a <;> try (cases b <;> src_simp; done)
  rename_i hx
  cases h8 : unhex (bytesToChars hx)
  · cases b <;> src_simp
  rename_i data
  cases b <;> try (src_simp; done)
  rename_i dt
  cases h3 : itemsize dt
  · src_simp
  rename_i isz
  cases isz
  · src_simp
  rename_i k
  by_cases h4 : data.length % (k + 1) = 0
  · cases h5 : lookupStr "shape" l
    · src_simp
    · rename_i s
      cases s <;> try (src_simp; done)
      rename_i sv
      cases h6 : shapeOfVals sv
      · src_simp
      · rename_i shape
        by_cases h7 : prodL shape = data.length / (k + 1)
        · src_simp
        · src_simp
  · src_simp

/-- `jsonext_decode` with Python's evaluation order made explicit: `bytes.fromhex(obj["data"])` is evaluated (and may
raise) BEFORE `obj["dtype"]` is looked up.  Differs from the hand model's `jxHook` only in the error CLASS of a corrupted
envelope whose data is bad and whose dtype is missing. -/
def jxHookOrd (l : List (Val × Val)) : Except HookErr Val :=
  match lookupStr "_nd_" l with
  | none => .ok (.map l)
  | some _ =>
    match lookupStr "data" l with
    | none => .error .keyData
    | some (.str hx) =>
      (match unhex (bytesToChars hx) with
       | none => .error .badBuffer
       | some data =>
         match lookupStr "dtype" l with
         | none => .error .keyData
         | some (.str dt) =>
           (match itemsize dt with
            | none => .error .badBuffer
            | some 0 => .error .badBuffer
            | some isz =>
              if data.length % isz ≠ 0 then .error .badBuffer
              else
                match lookupStr "shape" l with
                | none => .ok (.nd dt [data.length / isz] data)
                | some (.arr sv) =>
                  (match shapeOfVals sv with
                   | some shape => if prodL shape = data.length / isz then .ok (.nd dt shape data) else .error .badShape
                   | none => .error .badShape)
                | some _ => .error .badShape)
         | some _ => .error .badBuffer)
    | some _ => .error .badBuffer

/-- **jsonext_decode, from the source, on EVERY parsed object** (no side condition): the order-explicit hook -/
theorem jsonext_decode_src_full (l : List (Val × Val)) : jxHookSrc l = liftH (jxHookOrd l) := by
  unfold jxHookOrd
  cases h0 : lookupStr "_nd_" l
  · src_simp
  cases h1 : lookupStr "data" l
  · src_simp
  rename_i a
  cases a <;> try (src_simp; done)
  rename_i hx
  cases h8 : unhex (bytesToChars hx)
  · src_simp
  rename_i data
  cases h2 : lookupStr "dtype" l
  · src_simp
  rename_i b
  cases b <;> try (src_simp; done)
  rename_i dt
  cases h3 : itemsize dt
  · src_simp
  rename_i isz
  cases isz
  · src_simp
  rename_i k
  by_cases h4 : data.length % (k + 1) = 0
  · cases h5 : lookupStr "shape" l
    · src_simp
    · rename_i s
      cases s <;> try (src_simp; done)
      rename_i sv
      cases h6 : shapeOfVals sv
      · src_simp
      · rename_i shape
        by_cases h7 : prodL shape = data.length / (k + 1)
        · src_simp
        · src_simp
  · src_simp

/-- the order-explicit hook and the hand model's accept exactly the same objects with the same result -/
theorem jxHookOrd_ok_iff (l : List (Val × Val)) (v : Val) : jxHookOrd l = .ok v ↔ jxHook l = .ok v := by
  unfold jxHookOrd jxHook
  cases h0 : lookupStr "_nd_" l
  · simp
  cases h1 : lookupStr "data" l
  · simp
  rename_i a
  cases h2 : lookupStr "dtype" l
  · cases a with
    | str hx => cases hu : unhex (bytesToChars hx) <;> simp [hu]
    | _ => simp
  rename_i b
  cases a with
  | str hx => cases b <;> cases hu : unhex (bytesToChars hx) <;> first | (simp [hu]; done) | exact Iff.rfl | (simp only [hu]; exact Iff.rfl)
  | _ => cases b <;> simp

/-- whenever the hand model's hook accepts, the source-derived hook returns the same value (no side condition) -/
theorem jsonext_decode_src_ok (l : List (Val × Val)) (v : Val) (h : jxHook l = .ok v) : jxHookSrc l = .ok v := by
  have hc : lookupStr "_nd_" l = none ∨ lookupStr "data" l = none ∨ lookupStr "dtype" l ≠ none := by
    cases h0 : lookupStr "_nd_" l
    · exact .inl rfl
    · cases h2 : lookupStr "dtype" l
      · cases h1 : lookupStr "data" l <;> simp [jxHook, h0, h1, h2] at h
      · exact .inr (.inr (by simp))
  rw [jsonext_decode_src l hc, h]; rfl

/-- the corner, as a concrete TEST: a corrupted envelope whose `"data"` is not a hex string AND whose `"dtype"` is
missing.  Python evaluates `bytes.fromhex(obj["data"])` before `obj["dtype"]`, so the source-derived hook reports the
buffer error; the hand model `jxHook` classes it as the missing key.  Both refuse; only the error CLASS differs. -/
example : jxHookSrc [(.str (asciiBytes "_nd_"), .bool true), (.str (asciiBytes "data"), .int 5)] = .error (.hook .badBuffer)
    ∧ jxHook [(.str (asciiBytes "_nd_"), .bool true), (.str (asciiBytes "data"), .int 5)] = .error .keyData := by
  constructor <;> rfl

/-! ## whole trees: what the native writers are handed -/

mutual
  /-- every ndarray leaf has rank ≥ 1 (rank-0 arrays decay to scalars before they reach a `Val` tree) -/
  def rk1 : Val → Bool
    | .arr l => rk1L l
    | .map l => rk1P l
    | .nd _ shape _ => !shape.isEmpty
    | _ => true
  def rk1L : List Val → Bool
    | [] => true
    | v :: t => rk1 v && rk1L t
  def rk1P : List (Val × Val) → Bool
    | [] => true
    | (_, v) :: t => rk1 v && rk1P t
end

theorem ne_nil_of_not_isEmpty {α : Type} {l : List α} (h : (!l.isEmpty) = true) : l ≠ [] := by
  cases l <;> simp_all

mutual
  /-- **json-ext, whole trees**: `json.dumps(v, cls=JSONExtArrayEncoder)` with the source-derived `default` is handed
  exactly the hand model's `jxEnc v` -/
  theorem jsonext_tree_src : ∀ v : Val, rk1 v = true → walkD jxDefaultSrc v = .ok (jxEnc v)
    | .nil, _ => by simp [walkD, jxEnc]
    | .bool _, _ => by simp [walkD, jxEnc]
    | .int _, _ => by simp [walkD, jxEnc]
    | .f64 _, _ => by simp [walkD, jxEnc]
    | .str _, _ => by simp [walkD, jxEnc]
    | .bin _, _ => by simp [walkD, jxEnc]
    | .arr l, h => by
      simp only [rk1] at h
      simp [walkD, jxEnc, jsonext_tree_srcL l h]
    | .map l, h => by
      simp only [rk1] at h
      simp [walkD, jxEnc, jsonext_tree_srcP l h]
    | .nd dt shape data, h => by
      simp only [rk1] at h
      simp only [walkD, jxEnc]
      exact jsonext_default_src dt data shape (ne_nil_of_not_isEmpty h)
  theorem jsonext_tree_srcL : ∀ l : List Val, rk1L l = true → walkDL jxDefaultSrc l = .ok (jxEncL l)
    | [], _ => by simp [walkDL, jxEncL]
    | v :: t, h => by
      simp only [rk1L, Bool.and_eq_true] at h
      simp [walkDL, jxEncL, jsonext_tree_src v h.1, jsonext_tree_srcL t h.2]
  theorem jsonext_tree_srcP : ∀ l : List (Val × Val), rk1P l = true → walkDP jxDefaultSrc l = .ok (jxEncP l)
    | [], _ => by simp [walkDP, jxEncP]
    | (k, v) :: t, h => by
      simp only [rk1P, Bool.and_eq_true] at h
      simp [walkDP, jxEncP, jsonext_tree_src v h.1, jsonext_tree_srcP t h.2]
end

/-- the flat walkers: any `default` that agrees with the hand model's flat leaf on arrays of rank ≥ 1 hands on `flatEnc v` -/
def FlatLeaf (d : Val → Except Exc Val) : Prop :=
  ∀ dt data shape, shape ≠ [] → d (.nd dt shape data) = liftO ((elemsOf dt data).map .arr)

mutual
  theorem flat_tree_gen (d : Val → Except Exc Val) (hd : FlatLeaf d) : ∀ v : Val, rk1 v = true → walkD d v = liftO (flatEnc v)
    | .nil, _ => by simp [walkD, flatEnc, liftO]
    | .bool _, _ => by simp [walkD, flatEnc, liftO]
    | .int _, _ => by simp [walkD, flatEnc, liftO]
    | .f64 _, _ => by simp [walkD, flatEnc, liftO]
    | .str _, _ => by simp [walkD, flatEnc, liftO]
    | .bin _, _ => by simp [walkD, flatEnc, liftO]
    | .arr l, h => by
      simp only [rk1] at h
      simp only [walkD, flatEnc, flat_tree_genL d hd l h]
      cases flatEncL l <;> simp [liftO]
    | .map l, h => by
      simp only [rk1] at h
      simp only [walkD, flatEnc, flat_tree_genP d hd l h]
      cases flatEncP l <;> simp [liftO]
    | .nd dt shape data, h => by
      simp only [rk1] at h
      simp only [walkD, flatEnc]
      exact hd dt data shape (ne_nil_of_not_isEmpty h)
  theorem flat_tree_genL (d : Val → Except Exc Val) (hd : FlatLeaf d) :
      ∀ l : List Val, rk1L l = true → walkDL d l = liftO (flatEncL l)
    | [], _ => by simp [walkDL, flatEncL, liftO]
    | v :: t, h => by
      simp only [rk1L, Bool.and_eq_true] at h
      simp only [walkDL, flatEncL, flat_tree_gen d hd v h.1, flat_tree_genL d hd t h.2]
      cases flatEnc v <;> cases flatEncL t <;> simp [liftO]
  theorem flat_tree_genP (d : Val → Except Exc Val) (hd : FlatLeaf d) :
      ∀ l : List (Val × Val), rk1P l = true → walkDP d l = liftO (flatEncP l)
    | [], _ => by simp [walkDP, flatEncP, liftO]
    | (k, v) :: t, h => by
      simp only [rk1P, Bool.and_eq_true] at h
      simp only [walkDP, flatEncP, flat_tree_gen d hd v h.1, flat_tree_genP d hd t h.2]
      cases flatEnc v <;> cases flatEncP t <;> simp [liftO]
end

/-- **plain json, whole trees**: `json.dumps(v, cls=JSONArrayEncoder)` with the source-derived `default` is handed the
hand model's `flatEnc v` (or both refuse an element kind outside the flat model) -/
theorem json_flat_tree_src (v : Val) (h : rk1 v = true) : walkD jsonFlatDefaultSrc v = liftO (flatEnc v) :=
  flat_tree_gen _ (fun dt data shape hs => json_flat_default_src dt data shape hs) v h

/-- **plain msgpack, whole trees** -/
theorem msgpack_flat_tree_src (v : Val) (h : rk1 v = true) : walkD mpFlatEncodeSrc v = liftO (flatEnc v) :=
  flat_tree_gen _ (fun dt data shape hs => msgpack_flat_encode_src dt data shape hs) v h

mutual
  /-- the tree `msgpack.dumps(v, default=msgpackext_encode)` packs natively: ndarray leaves replaced by their envelopes -/
  def mxEnc : Val → Val
    | .arr l => .arr (mxEncL l)
    | .map l => .map (mxEncP l)
    | .nd dt shape data => ndEnvelope dt shape data
    | v => v
  def mxEncL : List Val → List Val
    | [] => []
    | v :: t => mxEnc v :: mxEncL t
  def mxEncP : List (Val × Val) → List (Val × Val)
    | [] => []
    | (k, v) :: t => (k, mxEnc v) :: mxEncP t
end

mutual
  theorem msgpackext_tree_src : ∀ v : Val, rk1 v = true → walkD mxEncodeSrc v = .ok (mxEnc v)
    | .nil, _ => by simp [walkD, mxEnc]
    | .bool _, _ => by simp [walkD, mxEnc]
    | .int _, _ => by simp [walkD, mxEnc]
    | .f64 _, _ => by simp [walkD, mxEnc]
    | .str _, _ => by simp [walkD, mxEnc]
    | .bin _, _ => by simp [walkD, mxEnc]
    | .arr l, h => by
      simp only [rk1] at h
      simp [walkD, mxEnc, msgpackext_tree_srcL l h]
    | .map l, h => by
      simp only [rk1] at h
      simp [walkD, mxEnc, msgpackext_tree_srcP l h]
    | .nd dt shape data, h => by
      simp only [rk1] at h
      simp only [walkD, mxEnc]
      exact msgpackext_encode_src dt data shape (ne_nil_of_not_isEmpty h)
  theorem msgpackext_tree_srcL : ∀ l : List Val, rk1L l = true → walkDL mxEncodeSrc l = .ok (mxEncL l)
    | [], _ => by simp [walkDL, mxEncL]
    | v :: t, h => by
      simp only [rk1L, Bool.and_eq_true] at h
      simp [walkDL, mxEncL, msgpackext_tree_src v h.1, msgpackext_tree_srcL t h.2]
  theorem msgpackext_tree_srcP : ∀ l : List (Val × Val), rk1P l = true → walkDP mxEncodeSrc l = .ok (mxEncP l)
    | [], _ => by simp [walkDP, mxEncP]
    | (k, v) :: t, h => by
      simp only [rk1P, Bool.and_eq_true] at h
      simp [walkDP, mxEncP, msgpackext_tree_src v h.1, msgpackext_tree_srcP t h.2]
end

theorem mxEncL_length : ∀ l, (mxEncL l).length = l.length
  | [] => rfl
  | _ :: t => by simp [mxEncL, mxEncL_length t]

theorem mxEncP_length : ∀ l, (mxEncP l).length = l.length
  | [] => rfl
  | (_, _) :: t => by simp [mxEncP, mxEncP_length t]

mutual
  /-- the hand model's `mpEnc` of an ndarray leaf IS the packing of its envelope: the bytes of the tree the source-derived
  encoder hands to the packer are the bytes of the hand model, for every tree -/
  theorem mpEnc_mxEnc : ∀ v : Val, mpEnc (mxEnc v) = mpEnc v
    | .nil => by simp [mxEnc]
    | .bool _ => by simp [mxEnc]
    | .int _ => by simp [mxEnc]
    | .f64 _ => by simp [mxEnc]
    | .str _ => by simp [mxEnc]
    | .bin _ => by simp [mxEnc]
    | .arr l => by
      simp only [mxEnc]; rw [mpEnc, mpEnc, mxEncL_length, mpEnc_mxEncL l]
    | .map l => by
      simp only [mxEnc]; rw [mpEnc, mpEnc, mxEncP_length, mpEnc_mxEncP l]
    | .nd dt shape data => by
      simp only [mxEnc]
      rw [ndEnvelope_eq, mpEnc_nd_eq, mpEnc]
  theorem mpEnc_mxEncL : ∀ l : List Val, mpEncL (mxEncL l) = mpEncL l
    | [] => by simp [mxEncL]
    | v :: t => by
      simp only [mxEncL]; rw [mpEncL, mpEncL, mpEnc_mxEnc v, mpEnc_mxEncL t]
  theorem mpEnc_mxEncP : ∀ l : List (Val × Val), mpEncP (mxEncP l) = mpEncP l
    | [] => by simp [mxEncP]
    | (k, v) :: t => by
      simp only [mxEncP]; rw [mpEncP, mpEncP, mpEnc_mxEnc v, mpEnc_mxEncP t]
end

/-! ## decoding whole trees with the source-derived hook -/

mutual
  /-- whatever the hand model's `jxDec` reads, `json.loads(object_hook=<source-derived jsonext_decode>)` reads the same -/
  theorem decW_jx_ok : ∀ (v w : Val), jxDec v = .ok w → decW jxHookSrc v = .ok w
    | .nil, w, h => by simpa [jxDec, decW] using h
    | .bool _, w, h => by simpa [jxDec, decW] using h
    | .int _, w, h => by simpa [jxDec, decW] using h
    | .f64 _, w, h => by simpa [jxDec, decW] using h
    | .str _, w, h => by simpa [jxDec, decW] using h
    | .bin _, w, h => by simpa [jxDec, decW] using h
    | .nd _ _ _, w, h => by simpa [jxDec, decW] using h
    | .arr l, w, h => by
      simp only [jxDec] at h
      cases hl : jxDecL l with
      | error e => simp [hl, Except.map] at h
      | ok l' =>
        simp [hl, Except.map] at h
        subst h
        simp [decW, decW_jx_okL l l' hl]
    | .map l, w, h => by
      simp only [jxDec] at h
      cases hl : jxDecP l with
      | error e => simp [hl] at h
      | ok l' =>
        simp [hl] at h
        simp [decW, decW_jx_okP l l' hl, jsonext_decode_src_ok l' w h]
  theorem decW_jx_okL : ∀ (l l' : List Val), jxDecL l = .ok l' → decWL jxHookSrc l = .ok l'
    | [], l', h => by simpa [jxDecL, decWL] using h
    | v :: t, l', h => by
      simp only [jxDecL] at h
      cases hv : jxDec v with
      | error e => simp [hv] at h
      | ok v' =>
        cases ht : jxDecL t with
        | error e => simp [hv, ht, Except.map] at h
        | ok t' =>
          simp [hv, ht, Except.map] at h
          subst h
          simp [decWL, decW_jx_ok v v' hv, decW_jx_okL t t' ht]
  theorem decW_jx_okP : ∀ (l l' : List (Val × Val)), jxDecP l = .ok l' → decWP jxHookSrc l = .ok l'
    | [], l', h => by simpa [jxDecP, decWP] using h
    | (k, v) :: t, l', h => by
      simp only [jxDecP] at h
      cases hv : jxDec v with
      | error e => simp [hv] at h
      | ok v' =>
        cases ht : jxDecP t with
        | error e => simp [hv, ht, Except.map] at h
        | ok t' =>
          simp [hv, ht, Except.map] at h
          subst h
          simp [decWP, decW_jx_ok v v' hv, decW_jx_okP t t' ht]
end

/-! ## the msgpack byte decoder with the hook as a parameter equals the hand model's at `mpHook` -/

theorem mpHookSrcH_eq : mpHookSrcH = mpHook := by
  funext l
  unfold mpHookSrcH
  rw [msgpackext_decode_src]
  cases mpHook l <;> rfl

theorem mpDecW_eq_aux (fuel : Nat) (hW : ∀ bs, mpDecW mpHook fuel bs = mpDec fuel bs) :
    (∀ k bs, mpDecLW mpHook fuel k bs = mpDecL fuel k bs) ∧ (∀ k bs, mpDecPW mpHook fuel k bs = mpDecP fuel k bs) := by
  constructor
  · intro k
    induction k with
    | zero => intro bs; rw [mpDecLW, mpDecL]
    | succ k ih => intro bs; rw [mpDecLW, mpDecL, hW]; simp only [ih]; rfl
  · intro k
    induction k with
    | zero => intro bs; rw [mpDecPW, mpDecP]
    | succ k ih => intro bs; rw [mpDecPW, mpDecP, hW]; simp only [hW, ih]; rfl

set_option maxRecDepth 20000 in
theorem mpDecW_eq : ∀ (fuel : Nat) (bs : Bytes), mpDecW mpHook fuel bs = mpDec fuel bs
  | 0, bs => by rw [mpDecW, mpDec]
  | fuel + 1, [] => by rw [mpDecW, mpDec] <;> simp
  | fuel + 1, h :: r => by
    obtain ⟨hL, hP⟩ := mpDecW_eq_aux fuel (mpDecW_eq fuel)
    rw [mpDecW, mpDec]
    simp only [hL, hP]
    rfl

/-- **the source-derived msgpack reader IS the hand model's reader**: `msgpack.loads(object_hook=<source-derived
msgpackext_decode>)` = `mpDecode` on every byte string -/
theorem mpDecodeSrc_eq (bs : Bytes) : mpDecodeSrc bs = mpDecode bs := by
  unfold mpDecodeSrc mpDecodeW mpDecode
  rw [mpHookSrcH_eq, mpDecW_eq]
  rfl

/-! ## the dispatch on the encoding string -/

def encOfLower (s : Bytes) : Option Enc :=
  if s = asciiBytes "json" then some .json
  else if s = asciiBytes "json-ext" then some .jsonExt
  else if s = asciiBytes "msgpack" then some .msgpack
  else if s = asciiBytes "msgpack-ext" then some .msgpackExt
  else none

/-- the encoding a name selects: ASCII-lower-cased, then one of the four spellings -/
def encOfName (enc : Bytes) : Option Enc := encOfLower (enc.map lowerByte)

def writerFn : Enc → String
  | .json => "json_dumps" | .jsonExt => "jsonext_dumps" | .msgpack => "msgpack_dumps" | .msgpackExt => "msgpackext_dumps"

def readerFn : Enc → String
  | .json => "json_loads" | .jsonExt => "jsonext_loads" | .msgpack => "msgpack_loads" | .msgpackExt => "msgpackext_loads"

/-- the `assert isinstance(blob, …)` of each arm of `deserialize` -/
def blobOK : Enc → Val → Bool
  | .json, .str _ => true
  | .jsonExt, .str _ => true
  | .jsonExt, .bin _ => true
  | .msgpack, .bin _ => true
  | .msgpackExt, .bin _ => true
  | _, _ => false

macro "disp_simp" : tactic => `(tactic| simp (config := { decide := true }) [*, runTail, Gen.Src.serialize, Gen.Src.deserialize, bindArgs, execL, execS,
    evalE, evalEs, primApply, prim1, prim2, lookupVar, truthy, pyEq, isinstanceOf, encOfName, encOfLower, writerFn, readerFn, blobOK])

/-- **serialize's dispatch, from the source, for EVERY encoding string**: the arm taken is the one of the lower-cased
name among "json", "json-ext", "msgpack", "msgpack-ext" (each calling its own `*_dumps` on `data`); anything else raises
`KeyError` -/
theorem serialize_dispatch_src (v : Val) (enc : Bytes) :
    runTail Gen.Src.serialize [v, .str enc] =
      match encOfName enc with
      | some e => .ok (writerFn e, [v], [])
      | none => .error (.raised "KeyError") := by
  by_cases h1 : enc.map lowerByte = asciiBytes "json"
  · disp_simp
  by_cases h2 : enc.map lowerByte = asciiBytes "json-ext"
  · disp_simp
  by_cases h3 : enc.map lowerByte = asciiBytes "msgpack"
  · disp_simp
  by_cases h4 : enc.map lowerByte = asciiBytes "msgpack-ext"
  · disp_simp
  · disp_simp

/-- **deserialize's dispatch, from the source, for every encoding string and blob** -/
theorem deserialize_dispatch_src (blob : Val) (enc : Bytes) :
    runTail Gen.Src.deserialize [blob, .str enc] =
      match encOfName enc with
      | some e => if blobOK e blob then .ok (readerFn e, [blob], []) else .error .assertion
      | none => .error (.raised "KeyError") := by
  by_cases h1 : enc.map lowerByte = asciiBytes "json"
  · cases blob <;> disp_simp
  by_cases h2 : enc.map lowerByte = asciiBytes "json-ext"
  · cases blob <;> disp_simp
  by_cases h3 : enc.map lowerByte = asciiBytes "msgpack"
  · cases blob <;> disp_simp
  by_cases h4 : enc.map lowerByte = asciiBytes "msgpack-ext"
  · cases blob <;> disp_simp
  · disp_simp

/-- the four canonical spellings and a mixed-case one (TESTS of `encOfName`) -/
example : encOfName (asciiBytes "json") = some .json ∧ encOfName (asciiBytes "json-ext") = some .jsonExt ∧
    encOfName (asciiBytes "msgpack") = some .msgpack ∧ encOfName (asciiBytes "msgpack-ext") = some .msgpackExt ∧
    encOfName (asciiBytes "MsgPack-EXT") = some .msgpackExt ∧ encOfName (asciiBytes "msgpack_ext") = none ∧
    encOfName (asciiBytes "") = none := by decide

/-! ## the wrappers: callee, keyword arguments and the hook they name (by evaluation of the generated terms) -/

theorem fd_json_dumps : findDef "json_dumps" Gen.Src.defs = some Gen.Src.json_dumps := rfl
theorem fd_jsonext_dumps : findDef "jsonext_dumps" Gen.Src.defs = some Gen.Src.jsonext_dumps := rfl
theorem fd_msgpack_dumps : findDef "msgpack_dumps" Gen.Src.defs = some Gen.Src.msgpack_dumps := rfl
theorem fd_msgpackext_dumps : findDef "msgpackext_dumps" Gen.Src.defs = some Gen.Src.msgpackext_dumps := rfl
theorem fd_json_loads : findDef "json_loads" Gen.Src.defs = some Gen.Src.json_loads := rfl
theorem fd_jsonext_loads : findDef "jsonext_loads" Gen.Src.defs = some Gen.Src.jsonext_loads := rfl
theorem fd_msgpack_loads : findDef "msgpack_loads" Gen.Src.defs = some Gen.Src.msgpack_loads := rfl
theorem fd_msgpackext_loads : findDef "msgpackext_loads" Gen.Src.defs = some Gen.Src.msgpackext_loads := rfl

theorem wr_json_dumps (a : Val) :
    resolveWrapper Gen.Src.defs Gen.Src.json_dumps a = .ok (.jsonDumps, Gen.Src.JSONArrayEncoder_default, a) := rfl
theorem wr_jsonext_dumps (a : Val) :
    resolveWrapper Gen.Src.defs Gen.Src.jsonext_dumps a = .ok (.jsonDumps, Gen.Src.JSONExtArrayEncoder_default, a) := rfl
theorem wr_msgpack_dumps (a : Val) :
    resolveWrapper Gen.Src.defs Gen.Src.msgpack_dumps a = .ok (.msgpackDumps, Gen.Src.msgpack_encode, a) := rfl
theorem wr_msgpackext_dumps (a : Val) :
    resolveWrapper Gen.Src.defs Gen.Src.msgpackext_dumps a = .ok (.msgpackDumps, Gen.Src.msgpackext_encode, a) := rfl
theorem wr_json_loads (a : Val) :
    resolveWrapper Gen.Src.defs Gen.Src.json_loads a = .ok (.jsonLoads, Gen.Src.jsonext_decode, a) := rfl
theorem wr_jsonext_loads (a : Val) :
    resolveWrapper Gen.Src.defs Gen.Src.jsonext_loads a = .ok (.jsonLoads, Gen.Src.jsonext_decode, a) := rfl
theorem wr_msgpack_loads (a : Val) :
    resolveWrapper Gen.Src.defs Gen.Src.msgpack_loads a = .ok (.msgpackLoads, Gen.Src.msgpackext_decode, a) := rfl
theorem wr_msgpackext_loads (a : Val) :
    resolveWrapper Gen.Src.defs Gen.Src.msgpackext_loads a = .ok (.msgpackLoads, Gen.Src.msgpackext_decode, a) := rfl

/-- what the hand model hands the native writer for each encoding -/
def handEncode : Enc → Val → Except Exc (Lib × Val)
  | .json, v => (match flatEnc v with | some t => .ok (.jsonDumps, t) | none => .error .flatDtype)
  | .jsonExt, v => .ok (.jsonDumps, jxEnc v)
  | .msgpack, v => (match flatEnc v with | some t => .ok (.msgpackDumps, t) | none => .error .flatDtype)
  | .msgpackExt, v => .ok (.msgpackDumps, mxEnc v)

/-- **serialize, end to end from the source** (dispatch → wrapper → keyword arguments → hook body → walker), for every
encoding string and every payload tree whose arrays have rank ≥ 1: the native writer chosen and the tree it is handed are
the hand model's; an unknown name raises `KeyError` -/
theorem encodeSrc_eq (enc : Bytes) (v : Val) (h : rk1 v = true) :
    encodeSrc enc v = match encOfName enc with
      | some e => handEncode e v
      | none => .error (.raised "KeyError") := by
  unfold encodeSrc
  rw [serialize_dispatch_src]
  cases he : encOfName enc with
  | none => rfl
  | some e =>
    cases e
    · simp only [writerFn, fd_json_dumps, wr_json_dumps, handEncode]
      have := json_flat_tree_src v h
      unfold jsonFlatDefaultSrc at this
      rw [this]; cases flatEnc v <;> rfl
    · simp only [writerFn, fd_jsonext_dumps, wr_jsonext_dumps, handEncode]
      have := jsonext_tree_src v h
      unfold jxDefaultSrc at this
      rw [this]
    · simp only [writerFn, fd_msgpack_dumps, wr_msgpack_dumps, handEncode]
      have := msgpack_flat_tree_src v h
      unfold mpFlatEncodeSrc at this
      rw [this]; cases flatEnc v <;> rfl
    · simp only [writerFn, fd_msgpackext_dumps, wr_msgpackext_dumps, handEncode]
      have := msgpackext_tree_src v h
      unfold mxEncodeSrc at this
      rw [this]

/-- the reader family a (native reader, hook) pair is -/
def familyOf (lib : Lib) (hookName : String) : Option Reader :=
  if lib = .jsonLoads ∧ hookName = "jsonext_decode" then some .jsonExt
  else if lib = .msgpackLoads ∧ hookName = "msgpackext_decode" then some .msgpackExt
  else none

/-- **deserialize, from the source**: for every encoding string and blob, the native reader and the object hook it is
given -/
theorem readerSrc_eq (enc : Bytes) (blob : Val) :
    readerSrc enc blob = match encOfName enc with
      | some e =>
        if blobOK e blob then
          (match e with
           | .json | .jsonExt => .ok (.jsonLoads, Gen.Src.jsonext_decode)
           | .msgpack | .msgpackExt => .ok (.msgpackLoads, Gen.Src.msgpackext_decode))
        else .error .assertion
      | none => .error (.raised "KeyError") := by
  unfold readerSrc
  rw [deserialize_dispatch_src]
  cases he : encOfName enc with
  | none => rfl
  | some e =>
    by_cases hb : blobOK e blob = true
    · cases e <;> simp only [hb, if_true, readerFn, fd_json_loads, fd_jsonext_loads, fd_msgpack_loads, fd_msgpackext_loads,
        wr_json_loads, wr_jsonext_loads, wr_msgpack_loads, wr_msgpackext_loads]
    · simp [hb]

/-- **the reader `deserialize(·, e)` runs reads what `serialize(·, e)` wrote**, with both sides read from the source:
for each of the four encodings the (reader, hook) pair of `deserialize` is a family that `reads` encoding `e` -/
theorem deserialize_reads_serialize_src (e : Enc) (enc : Bytes) (blob : Val) (he : encOfName enc = some e)
    (hb : blobOK e blob = true) :
    ∃ lib d r, readerSrc enc blob = .ok (lib, d) ∧ familyOf lib d.name = some r ∧ reads r e = true := by
  rw [readerSrc_eq, he]
  cases e
  · exact ⟨.jsonLoads, Gen.Src.jsonext_decode, .jsonExt, by simp [hb], by decide, by decide⟩
  · exact ⟨.jsonLoads, Gen.Src.jsonext_decode, .jsonExt, by simp [hb], by decide, by decide⟩
  · exact ⟨.msgpackLoads, Gen.Src.msgpackext_decode, .msgpackExt, by simp [hb], by decide, by decide⟩
  · exact ⟨.msgpackLoads, Gen.Src.msgpackext_decode, .msgpackExt, by simp [hb], by decide, by decide⟩

/-- non-vacuity -/
example : encOfName (asciiBytes "Msgpack-Ext") = some .msgpackExt ∧ blobOK .msgpackExt (.bin [0xc0]) = true := by decide

/-! ## the headline theorems over the source-derived functions -/

mutual
  theorem rk1_of_JWF : ∀ v : Val, JWF v → rk1 v = true
    | .nil, _ => rfl
    | .bool _, _ => rfl
    | .int _, _ => rfl
    | .f64 _, _ => rfl
    | .str _, _ => rfl
    | .bin _, _ => rfl
    | .arr l, h => by
      have hl : ∀ x ∈ l, JWF x := by cases h; assumption
      simp only [rk1]; exact rk1L_of_JWF l hl
    | .map l, h => by
      have hl : ∀ p ∈ l, JWF p.2 := by cases h; assumption
      simp only [rk1]; exact rk1P_of_JWF l hl
    | .nd dt shape data, h => by
      have hwf : ndWF dt shape data := by cases h; assumption
      simp only [rk1]
      cases shape with
      | nil => exact absurd hwf.1 (by simp)
      | cons _ _ => rfl
  theorem rk1L_of_JWF : ∀ l : List Val, (∀ x ∈ l, JWF x) → rk1L l = true
    | [], _ => rfl
    | v :: t, h => by
      simp only [rk1L, Bool.and_eq_true]
      exact ⟨rk1_of_JWF v (h v (List.mem_cons_self ..)), rk1L_of_JWF t (fun x hx => h x (List.mem_cons_of_mem _ hx))⟩
  theorem rk1P_of_JWF : ∀ l : List (Val × Val), (∀ p ∈ l, JWF p.2) → rk1P l = true
    | [], _ => rfl
    | (k, v) :: t, h => by
      simp only [rk1P, Bool.and_eq_true]
      exact ⟨rk1_of_JWF v (h (k, v) (List.mem_cons_self ..)), rk1P_of_JWF t (fun p hp => h p (List.mem_cons_of_mem _ hp))⟩
end

mutual
  theorem rk1_of_wf : ∀ v : Val, wf v = true → rk1 v = true
    | .nil, _ => rfl
    | .bool _, _ => rfl
    | .int _, _ => rfl
    | .f64 _, _ => rfl
    | .str _, _ => rfl
    | .bin _, _ => rfl
    | .arr l, h => by
      simp only [wf, Bool.and_eq_true] at h
      simp only [rk1]; exact rk1L_of_wf l h.2
    | .map l, h => by
      simp only [wf, Bool.and_eq_true] at h
      simp only [rk1]; exact rk1P_of_wf l h.2
    | .nd dt shape data, h => by
      simp only [wf, ndOK, Bool.and_eq_true, decide_eq_true_eq] at h
      simp only [rk1]
      cases shape with
      | nil => exact absurd h.1.1.1.1.1 (by simp)
      | cons _ _ => rfl
  theorem rk1L_of_wf : ∀ l : List Val, wfL l = true → rk1L l = true
    | [], _ => rfl
    | v :: t, h => by
      simp only [wfL, Bool.and_eq_true] at h
      simp only [rk1L, Bool.and_eq_true]
      exact ⟨rk1_of_wf v h.1, rk1L_of_wf t h.2⟩
  theorem rk1P_of_wf : ∀ l : List (Val × Val), wfP l = true → rk1P l = true
    | [], _ => rfl
    | (k, v) :: t, h => by
      simp only [wfP, Bool.and_eq_true] at h
      simp only [rk1P, Bool.and_eq_true]
      exact ⟨rk1_of_wf v h.1.2, rk1P_of_wf t h.2⟩
end

/-- **msgpack-ext envelope round trip, both sides from the source**: `msgpackext_decode(msgpackext_encode(a)) = a`
(dtype, shape, bytes) for every well-formed array of rank ≥ 1, zero extents included -/
theorem ext_envelope_roundtrip_msgpack_src (dt data : Bytes) (shape : List Nat) (h : ndWF dt shape data) :
    ∃ l, mxEncodeSrc (.nd dt shape data) = .ok (.map l) ∧ mpHookSrc l = .ok (.nd dt shape data) := by
  have hne : shape ≠ [] := by intro hs; subst hs; exact absurd h.1 (by simp)
  refine ⟨ndList dt shape data, ?_, ?_⟩
  · rw [msgpackext_encode_src dt data shape hne, ndEnvelope_eq]
  · rw [msgpackext_decode_src, ext_envelope_roundtrip_msgpack dt data shape h _ (ndEnvelope_eq dt shape data)]; rfl

/-- **json-ext envelope round trip, both sides from the source** -/
theorem ext_envelope_roundtrip_json_src (dt data : Bytes) (shape : List Nat) (h : ndWF dt shape data) :
    ∃ l, jxDefaultSrc (.nd dt shape data) = .ok (.map l) ∧ jxHookSrc l = .ok (.nd dt shape data) := by
  have hne : shape ≠ [] := by intro hs; subst hs; exact absurd h.1 (by simp)
  obtain ⟨l, hl⟩ : ∃ l, jxEnvelope dt shape data = .map l := ⟨_, rfl⟩
  refine ⟨l, ?_, ?_⟩
  · rw [jsonext_default_src dt data shape hne, hl]
  · exact jsonext_decode_src_ok l _ (ext_envelope_roundtrip_json dt data shape h l hl)

/-- non-vacuity -/
example : ndWF (asciiBytes "<f8") [2, 0, 3] [] := ⟨by decide, 8, by decide, by decide, by decide⟩

/-- **json-ext round trip over whole trees, encoder and decoder from the source** -/
theorem jsonext_roundtrip_src (v : Val) (h : JWF v) :
    ∃ w, walkD jxDefaultSrc v = .ok w ∧ decW jxHookSrc w = .ok v :=
  ⟨jxEnc v, jsonext_tree_src v (rk1_of_JWF v h), decW_jx_ok _ _ (jsonext_roundtrip v h)⟩

/-- **identical re-serialisation (json-ext), from the source**: encoding what was read back gives the same tree for the
native writer (hence the same text) -/
theorem jsonext_reserialise_identical_src (v v' w : Val) (h : JWF v) (hs : walkD jxDefaultSrc v = .ok w)
    (hd : decW jxHookSrc w = .ok v') : walkD jxDefaultSrc v' = .ok w := by
  obtain ⟨w', hw', hd'⟩ := jsonext_roundtrip_src v h
  rw [hs] at hw'; cases hw'
  rw [hd] at hd'; cases hd'
  exact hs

/-- **msgpack-ext byte-stream round trip, encoder, hook and reader from the source**: the bytes of the tree the
source-derived encoder hands to the packer are read back to `v` by the reader running the source-derived hook -/
theorem msgpack_roundtrip_src (v : Val) (h : WellFormed v) :
    ∃ w, walkD mxEncodeSrc v = .ok w ∧ mpEnc w = mpEnc v ∧ mpDecodeSrc (mpEnc w) = .ok v := by
  refine ⟨mxEnc v, msgpackext_tree_src v (rk1_of_wf v h), mpEnc_mxEnc v, ?_⟩
  rw [mpDecodeSrc_eq, mpEnc_mxEnc, msgpack_roundtrip v h]

/-- **identical re-serialisation (msgpack-ext), from the source** -/
theorem msgpack_reserialise_identical_src (v v' w : Val) (h : WellFormed v) (hs : walkD mxEncodeSrc v = .ok w)
    (hd : mpDecodeSrc (mpEnc w) = .ok v') : ∃ w', walkD mxEncodeSrc v' = .ok w' ∧ mpEnc w' = mpEnc w := by
  obtain ⟨w0, hw0, _, hd0⟩ := msgpack_roundtrip_src v h
  rw [hs] at hw0; cases hw0
  rw [hd] at hd0; cases hd0
  exact ⟨w, hs, rfl⟩

/-- non-vacuity: the example tree of `Props/C10Msgpack.lean` is well-formed -/
example : WellFormed (.arr [.nd (asciiBytes "<f8") [0, 3] [], .int 300]) := by decide

/-! ## text level (json-ext): the character-level round trip with the source-derived pipeline on both sides -/

section text
variable (P : FloatCodec)

/-- **json-ext at TEXT level, from the source**: `serialize(v, "json-ext")` — dispatch, wrapper, encoder class and
`default` body read from the source, printed by the model's `json.dumps` — is read back to `v` by the model's
`json.loads` running the source-derived `jsonext_decode` -/
theorem jsonext_text_roundtrip_src (v : Val) (hv : JWF v) (ht : TextOK P (jxEnc v)) :
    ∃ t, textOfSrc P (asciiBytes "json-ext") v = .ok t ∧ deserializeJsonSrc P t = .ok v := by
  obtain ⟨t, hs, hd⟩ := jsonext_text_roundtrip P v hv ht
  refine ⟨t, ?_, ?_⟩
  · unfold textOfSrc
    rw [encodeSrc_eq _ _ (rk1_of_JWF v hv)]
    have hn : encOfName (asciiBytes "json-ext") = some .jsonExt := by decide
    rw [hn]
    simp only [handEncode]
    unfold serializeJsonExt at hs
    cases hj : toJ (jxEnc v) with
    | none => simp [hj] at hs
    | some j =>
      simp [hj] at hs
      simp [hs]
  · unfold deserializeJsonExt at hd
    unfold deserializeJsonSrc
    cases hp : jsonParse P t with
    | error e => simp [hp] at hd
    | ok j =>
      simp only [hp] at hd ⊢
      cases hx : jxDec (ofJ j) with
      | error e => simp [hx] at hd
      | ok w =>
        simp [hx] at hd
        subst hd
        rw [decW_jx_ok _ _ hx]

/-- **identical re-serialisation at TEXT level, from the source** -/
theorem json_text_reserialise_identical_src (v v' : Val) (hv : JWF v) (ht : TextOK P (jxEnc v)) (t : List Char)
    (hs : textOfSrc P (asciiBytes "json-ext") v = .ok t) (hd : deserializeJsonSrc P t = .ok v') :
    textOfSrc P (asciiBytes "json-ext") v' = .ok t := by
  obtain ⟨t', hs', hd'⟩ := jsonext_text_roundtrip_src P v hv ht
  rw [hs] at hs'
  cases hs'
  rw [hd'] at hd
  cases hd
  exact hs

end text

end QcelVerif.Ser.Src
