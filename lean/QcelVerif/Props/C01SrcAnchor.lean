import QcelVerif.Props.C01SrcShipped
import QcelVerif.Props.C01Anchor
/-! C01 — `bare_default_textbook` (anchored in the table embedded in harness/c01_anchor.py, not in /repo) restated for the
source-derived lookups; own module so that it builds in parallel. -/
namespace QcelVerif.PT.Src
open QcelVerif QcelVerif.PStr
set_option maxRecDepth 100000

/-- **`bare_default_textbook` for the source-derived lookups**: for every row of the embedded textbook table the
shipped table has an element for, the label `symbol ++ str(A)` of the textbook default isotope makes the translated
bodies return that element's symbol, Z and that mass number, and int Z / str Z / symbol / name make the translated
to_A return that mass number and the translated to_mass the very mass of that label (no exception). -/
theorem bare_default_textbook_src :
    ∀ r ∈ anchorPrefix,
      let lbl : PyVal := .str (unpack r.2.1 ++ natDigits r.2.2.2.1)
      accessorRun Env.ofSource .to_E lbl false = .ok (.pstr r.2.1) ∧
      accessorRun Env.ofSource .to_Z lbl false = .ok (.int r.1) ∧
      accessorRun Env.ofSource .to_A lbl false = .ok (.int r.2.2.2.1) ∧
      ∀ a ∈ [PyVal.int r.1, .str (natDigits r.1), .str (unpack r.2.1), .str (unpack r.2.2.1)],
        accessorRun Env.ofSource .to_A a false = .ok (.int r.2.2.2.1) ∧
        (accessorRun Env.ofSource .to_mass a false).toOption = (accessorRun Env.ofSource .to_mass lbl false).toOption ∧
        (accessorRun Env.ofSource .to_mass lbl false).toOption.isSome = true := by
  intro r hr
  have h := List.all_eq_true.mp bare_default_textbook.2.2 r hr
  simp only [anchorRowOk, Bool.and_eq_true, beq_iff_eq, List.all_eq_true] at h
  obtain ⟨⟨⟨⟨h1, h2⟩, h3⟩, h4⟩, h5⟩ := h
  obtain ⟨a1, a2, _, a4, a5⟩ := accessors_src_shipped (.str (unpack r.2.1 ++ natDigits r.2.2.2.1)) false
  refine ⟨?_, ?_, ?_, ?_⟩
  · rw [← toOption_some, a2, h1]; rfl
  · rw [← toOption_some, a1, h2]; rfl
  · rw [← toOption_some, a4, h3]; rfl
  · intro a ha
    obtain ⟨_, _, _, b4, b5⟩ := accessors_src_shipped a false
    have := h5 a ha
    refine ⟨?_, ?_, ?_⟩
    · rw [← toOption_some, b4, this.1]; rfl
    · rw [b5, a5, this.2]
    · rw [a5]; cases hm : shipped.toMass (.str (unpack r.2.1 ++ natDigits r.2.2.2.1)) <;> simp [hm] at h4 ⊢

end QcelVerif.PT.Src
