import QcelVerif.Model.CodataBuild
import QcelVerif.Gen.Codata2018
/-! C02 table theorem, CODATA 2018 (kernel evaluation over the generated tables). -/
namespace QcelVerif.Codata
open QcelVerif
set_option maxRecDepth 100000

/-- **The shipped 2018 table is NIST's published ASCII table** (`raw_data/nist_data/codata-2018.txt`):
row for row, in order, none missing or extra — key = lower-cased name, same name, same value text
after deleting blanks and the `...` of exact values, same uncertainty text, unit equal up to `{}`
exponent markup (`^-1` ↦ `^{-1}`, `_90` ↦ `_{90}`). -/
theorem shipped_eq_nist_2018 :
    tableMatchesTxt Gen.Codata2018.shipped Gen.Codata2018.raw = true := by decide +kernel

/-- test (not a property): 354 rows -/
example : Gen.Codata2018.shipped.length = 354 := by decide +kernel

end QcelVerif.Codata
