import QcelVerif.Props.C16

/-!
# C16 — the inertial frame belongs to the masses it was computed with

The harness's call-sequence stream orients isotopologues / custom-mass copies of one structure one after
another in one process: a frame worked out for the masses `ms` and handed to a molecule with the same
coordinates but masses `ms'` (a memo keyed without the masses, masses looked up per element, …) is
what that stream looks for.  These theorems say exactly when such a *stale* frame still satisfies the
centre-of-mass clause: **iff the two mass distributions have the same centre of mass** — so the oracle
clause `oracle:com`, evaluated with the molecule's OWN masses, separates the two whenever they differ.

Manifest (3 obligations): `wsum_center_other`, `orient_com_other_masses`, `stale_frame_witness`
(the last one a kernel-evaluated concrete witness, i.e. a test).
-/

namespace QcelVerif.Orient

section Field
variable {K : Type} [Field K]

/-- centring with the masses `ms`, weighing with OTHER masses `ms'` (one per row, total `≠ 0`):
`Σ m'ᵢ (xᵢ − c_ms) = (Σ m') · (c_ms' − c_ms)`; no hypothesis on `ms` at all. -/
theorem wsum_center_other {ms ms' : List K} {xs : List (V3 K)} (hl' : ms'.length = xs.length)
    (hM' : massSum ms' ≠ 0) :
    wsum ms' (center ms xs) = V3.smul (massSum ms') (V3.sub (com ms' xs) (com ms xs)) := by
  unfold center
  rw [wsum_map_sub _ ms' xs hl']
  apply V3.ext' <;> simp only [com, V3.sub, V3.smul] <;> field_simp
end Field

section Ordered
variable {K : Type} [Field K] [LinearOrder K] [IsStrictOrderedRing K]

/-- **Stale frame.**  `out` = the geometry oriented with masses `ms` (any `V` with `V Vᵀ = 1`).  For any
other masses `ms'` (one per atom, total `≠ 0`) the `ms'`-weighted sum of `out` vanishes **iff** the centre
of mass of the input under `ms'` is the centre of mass under `ms`. -/
theorem orient_com_other_masses {noise : K} {ms ms' : List K} {xs : List (V3 K)} {V : M3 K} {out : List (V3 K)}
    (hV : M3.mul V (M3.tr V) = M3.one) (h : orientCore noise ms xs V = .ok out)
    (hl' : ms'.length = xs.length) (hM' : massSum ms' ≠ 0) :
    wsum ms' out = V3.zero ↔ com ms' xs = com ms xs := by
  obtain ⟨_, _, rfl⟩ := orientCore_ok h
  rw [phase_eq, wsum_map_flip, rotate, wsum_map_mulMat, wsum_center_other hl' hM']
  set g1 := (center ms xs).map (fun p => V3.mulMat p V) with hg1
  have sx := pm_sq (colSign_pm noise (g1.map (·.x)))
  have sy := pm_sq (colSign_pm noise (g1.map (·.y)))
  have sz := pm_sq (colSign_pm noise (g1.map (·.z)))
  constructor
  · intro h0
    -- undo the sign flips, then the rotation, then the factor Σ m'
    have h1 := congrArg (V3.flip (colSign noise (g1.map (·.x))) (colSign noise (g1.map (·.y))) (colSign noise (g1.map (·.z)))) h0
    rw [flip_flip, sx, sy, sz, flip_one, flip_zero] at h1
    have h2 := congrArg (fun p => V3.mulMat p (M3.tr V)) h1
    simp only [mulMat_mulMat, hV, mulMat_one, mulMat_zero] at h2
    have hx : (com ms' xs).x - (com ms xs).x = 0 := by
      have := congrArg V3.x h2
      simpa [V3.smul, V3.sub, V3.zero, hM'] using this
    have hy : (com ms' xs).y - (com ms xs).y = 0 := by
      have := congrArg V3.y h2
      simpa [V3.smul, V3.sub, V3.zero, hM'] using this
    have hz : (com ms' xs).z - (com ms xs).z = 0 := by
      have := congrArg V3.z h2
      simpa [V3.smul, V3.sub, V3.zero, hM'] using this
    exact V3.ext' (sub_eq_zero.mp hx) (sub_eq_zero.mp hy) (sub_eq_zero.mp hz)
  · intro hc
    rw [hc]
    have : V3.smul (massSum ms') (V3.sub (com ms xs) (com ms xs)) = V3.zero := by
      apply V3.ext' <;> simp [V3.smul, V3.sub, V3.zero]
    rw [this, mulMat_zero, flip_zero]

end Ordered

/-! ### tests (concrete, kernel-evaluated) -/
section Examples

/-- the hypotheses of `orient_com_other_masses` are satisfiable with `com ms' xs ≠ com ms xs`:
H–H–H on a line, unit masses vs. the first atom doubled (H → D) -/
def staleXs : List (V3 ℚ) := [⟨0, 0, 0⟩, ⟨1, 0, 0⟩, ⟨3, 0, 0⟩]

example : com [2, 1, 1] staleXs ≠ com [1, 1, 1] staleXs := by decide +kernel

/-- test: the frame computed for masses `[1,1,1]` (here `V = 1` is a legitimate eigen-frame: the tensor is
diagonal) is centred for `[1,1,1]` and NOT centred for the isotopologue `[2,1,1]` -/
theorem stale_frame_witness :
    (orientCore (1 / 100000000) [1, 1, 1] staleXs M3.one).map (wsum [1, 1, 1]) = .ok V3.zero ∧
    (orientCore (1 / 100000000) [1, 1, 1] staleXs M3.one).map (wsum [2, 1, 1]) ≠ .ok V3.zero := by
  decide +kernel

end Examples

end QcelVerif.Orient
