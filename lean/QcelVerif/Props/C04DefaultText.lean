import QcelVerif.Props.C04Default
import QcelVerif.Props.C07Full
/-!
# C04 ∘ C07 — the text round-trip theorems of C07 for EVERY record built at the default settings

C07's end-to-end theorems (`Props/C07Full.lean`, imported read-only) are stated about a record `r` that is a
fixed point of `from_arrays` (`hfix : fromArrays env (asInput i₀ r) = .ok r`).  `from_arrays_idempotent_default`
(`Props/C04Default.lean`) makes that hypothesis a consequence of `r` having been BUILT by `from_arrays` at the
default settings (`mtol = 1.0e-3`, `nonphysical = False`), whatever was supplied.  The theorems below are C07's
with `hfix` replaced by the build itself; every other hypothesis is C07's, unchanged.

PROPERTY-THEOREMS: read_write_validated_psi4_default  read_write_validated_xyzplus_default
  text_roundtrip_same_hash_default
-/
namespace QcelVerif.TextToMol
open QcelVerif QcelVerif.MolText QcelVerif.FromArrays QcelVerif.Hash
open QcelVerif.Nucleus (rd64)

/-- **psi4 text read back — for every record built at the default settings** (`read_write_validated_psi4`
with `hfix` discharged by `from_arrays_idempotent_default`). -/
theorem read_write_validated_psi4_default (angToAu : Rat) (i : Inp) (r : Molrec)
    (h : fromArrays (envC06 rd64 angToAu) i = .ok r) (hnp : i.nonphysical = false) (hmt : i.mtol = dfltMtol)
    (m : MolRec) (hok : RecOk m) (hatoms : ForallPairs Carried (allAtoms m) (recNucs r))
    (g : List Rat) (hg : optMapM (floatOf rd64) (projectPsi4 m).geom = some g)
    (hscreen : validateGeometry dfltTooclose g = .ok g)
    (hseps : (projectPsi4 m).seps.map (fun (k : Nat) => (k : Int)) = r.seps)
    (hfc : optMapM (optOpt (chargeOf rd64)) (projectPsi4 m).fragChg = some (r.fc.map some))
    (hfm : optMapM (optOpt multOf) (projectPsi4 m).fragMult = some (r.fm.map some))
    (hshape : Psi4Shape r m) :
    readMol (envC06 rd64 angToAu) rd64 .psi4 (render (writePsi4 m)) =
      .mol { r with units := unitsOf (some m.bohr), iutau := none, name := none, comment := none, conn := none, geom := g,
                    fixCom := m.fixCom, fixOrient := m.fixOrient, fixSymm := none } :=
  read_write_validated_psi4 angToAu i r (from_arrays_idempotent_default angToAu i r h hnp hmt)
    m hok hatoms g hg hscreen hseps hfc hfm hshape

/-- **xyz+ text read back — for every record built at the default settings.** -/
theorem read_write_validated_xyzplus_default (angToAu : Rat) (i : Inp) (r : Molrec)
    (h : fromArrays (envC06 rd64 angToAu) i = .ok r) (hnp : i.nonphysical = false) (hmt : i.mtol = dfltMtol)
    (hseps : r.seps = []) (hfc1 : r.fc = [r.c]) (hfm1 : r.fm = [r.m])
    (natS : Str) (m : MolRec) (hok : XyzOk natS m) (hname : Clean m.name) (hne : allAtoms m ≠ [])
    (hatoms : ForallPairs (fun a u => Carried a u ∧ u.label = "") (allAtoms m) (recNucs r))
    (g : List Rat) (hg : optMapM (floatOf rd64) (projectXyzPlus m).geom = some g)
    (hscreen : validateGeometry dfltTooclose g = .ok g)
    (hc : chargeOf rd64 m.chg.parts = some r.c) (hmu : multOf m.mult = some r.m) :
    readMol (envC06 rd64 angToAu) rd64 .xyzPlus (render (writeXyz natS m)) =
      .mol { r with units := unitsOf (some m.bohr), iutau := none, name := none, comment := none, conn := none, geom := g,
                    fixCom := false, fixOrient := false, fixSymm := none } :=
  read_write_validated_xyzplus angToAu i r (from_arrays_idempotent_default angToAu i r h hnp hmt)
    hseps hfc1 hfm1 natS m hok hname hne hatoms g hg hscreen hc hmu

/-- **The hash survives Molecule → psi4 text → Molecule — for every record built at the default settings**
(`text_roundtrip_same_hash` with `hfix` discharged). -/
theorem text_roundtrip_same_hash_default {D} (P : Params D) (hfl : FlOk P.fl) (angToAu : Rat) (i : Inp) (r : Molrec)
    (h : fromArrays (envC06 rd64 angToAu) i = .ok r) (hnp : i.nonphysical = false) (hmt : i.mtol = dfltMtol)
    (hunits : r.units = sBohr) (hconn : r.conn = none)
    (m : MolRec) (hok : RecOk m) (hbohr : m.bohr = true)
    (hatoms : ForallPairs Carried (allAtoms m) (recNucs r))
    (g : List Rat) (hg : optMapM (floatOf rd64) (projectPsi4 m).geom = some g)
    (hscreen : validateGeometry dfltTooclose g = .ok g)
    (hseps : (projectPsi4 m).seps.map (fun (k : Nat) => (k : Int)) = r.seps)
    (hfc : optMapM (optOpt (chargeOf rd64)) (projectPsi4 m).fragChg = some (r.fc.map some))
    (hfm : optMapM (optOpt multOf) (projectPsi4 m).fragMult = some (r.fm.map some))
    (hshape : Psi4Shape r m)
    (hprec : List.Forall₂ (fun x x' => ∃ n : Int, |x * (10 : Rat) ^ 8| ≤ 2 ^ 45 - 1 ∧
        |x * (10 : Rat) ^ 8 - n| ≤ 48 / 100 ∧ |x' - x| * (10 : Rat) ^ 8 ≤ 1 / 100) r.geom g) :
    ∃ r', readMol (envC06 rd64 angToAu) rd64 .psi4 (render (writePsi4 m)) = .mol r' ∧
      r' = readBack r sBohr g m.fixCom m.fixOrient none ∧ r'.units = r.units ∧
      hash P (molOfRec r' r'.geom) = hash P (molOfRec r r.geom) :=
  text_roundtrip_same_hash P hfl angToAu i r (from_arrays_idempotent_default angToAu i r h hnp hmt)
    hunits hconn m hok hbohr hatoms g hg hscreen hseps hfc hfm hshape hprec

/-! ## non-vacuity (tests, labelled as tests) -/

section NonVacuity
open QcelVerif.Nucleus

local instance exDecide'' {ε α} [DecidableEq ε] [DecidableEq α] : DecidableEq (Except ε α) := fun a b =>
  match a, b with
  | .ok x, .ok y => if h : x = y then isTrue (h ▸ rfl) else isFalse (fun e => h (Except.ok.inj e))
  | .error x, .error y => if h : x = y then isTrue (h ▸ rfl) else isFalse (fun e => h (Except.error.inj e))
  | .ok _, .error _ => isFalse (fun e => by cases e)
  | .error _, .ok _ => isFalse (fun e => by cases e)

set_option maxRecDepth 100000

/-- test: every hypothesis of `read_write_validated_psi4_default` is met by C07's two-fragment example (helium + labelled
ghost): the record `exR` is BUILT by `from_arrays` at the default settings from the arguments `asInput hdoInp exR`
(`exR_fix`, kernel evaluation) — no fixed-point hypothesis is supplied -/
example : readMol (envC06 rd64 1) rd64 .psi4 (render (writePsi4 exM)) =
    .mol { exR with units := unitsOf (some true), iutau := none, name := none, comment := none, conn := none,
                    geom := [0, 0, 0, 0, 0, 5 / 2], fixCom := true, fixOrient := false, fixSymm := none } :=
  read_write_validated_psi4_default 1 (asInput hdoInp exR) exR exR_fix rfl rfl exM exM_ok exCarried [0, 0, 0, 0, 0, 5 / 2]
    (by decide +kernel) (by decide +kernel) (by decide +kernel) (by decide +kernel) (by decide +kernel)
    (Or.inl ⟨by decide +kernel, by decide +kernel⟩)

end NonVacuity

end QcelVerif.TextToMol
