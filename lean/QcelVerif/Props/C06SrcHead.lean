import QcelVerif.Props.C06SrcShipped
import QcelVerif.Lemmas.C04Rd64
/-!
# C06 — the property theorems restated over the SOURCE-DERIVED procedure

`reconcileSrc program` is the evaluator of `Model/NucleusAst.lean` run on the statements that `harness/c06_src.py` regenerates from
`qcelemental/molparse/nucleus.py` on every run (`Gen/NucleusSrc.lean`).  `Props/C06Src.lean` proves it equal to the hand model
`reconcileWith` for ALL clue tuples; here the hypotheses are discharged (every match has well-formed captures; the shipped table's
mass strings parse; `rd64` is idempotent) and the headline theorems of `Props/C06Sound.lean` are restated over it.

 * `reconcileSrc_eq`, `reconcileSrc_shipped_eq`, `driver_src_eq`   source-derived reconcile = model (any table / shipped + rd64 / what the driver runs)
 * `parseSrc_eq_model`                                              source-derived label field extraction = model's `parseLabel`
 * `reconcileSrc_sound` … `reconcileSrc_unparseable_label`          soundness, default isotope, mass window, every conflict class, ghost/real, lower-cased tag
-/
set_option linter.constructorNameAsVariable false
namespace QcelVerif.Nucleus.Ast
open QcelVerif QcelVerif.PStr QcelVerif.PT QcelVerif.Nucleus QcelVerif.Gen.NucleusSrc

/-- what the equality needs of the table and of the rounding function -/
structure SrcOk (N : NTables) (rd : Rat → Rat) : Prop where
  /-- `float(x)` of a float is that float -/
  idem : ∀ q, rd (rd q) = rd q
  /-- `periodictable.to_mass` fails with NotAnElementError or not at all (every tabulated mass string parses) -/
  massParse : ∀ k, tableMass N rd k ≠ .error .other

/-- **source-derived reconcile_nucleus = the model**, all inputs, any per-element range table -/
theorem reconcileSrc_eq {N : NTables} {rd : Rat → Rat} (hok : SrcOk N rd) (rng : Nat → Option Range) (i : Input) :
    reconcileSrc program N rd rng i = reconcileWith N rd rng i :=
  reconcileSrc_eq_model N rd rng hok.idem hok.massParse i (fun l g _ hm => matchNucleus_groupsOk l g hm)

/-- the hypotheses hold for what the driver runs (non-vacuity of `SrcOk`) -/
theorem srcOk_shipped : SrcOk shippedN rd64 := ⟨rd64_idem, shipped_tableMass_ok rd64⟩

/-- shipped table, binary64 rounding: NO hypothesis left -/
theorem reconcileSrc_shipped_eq (rng : Nat → Option Range) (i : Input) :
    reconcileSrc program shippedN rd64 rng i = reconcileWith shippedN rd64 rng i :=
  reconcileSrc_eq srcOk_shipped rng i

/-- what `Driver/C06.lean` prints after the `#` on an R line (memoised range table) is the model `reconcile` -/
theorem driver_src_eq (syms : List Nat) (i : Input) :
    reconcileSrc program shippedN rd64 (lookupRange shippedN rd64 (memoRange shippedN rd64 syms)) i = reconcile shippedN rd64 i := by
  have h : lookupRange shippedN rd64 (memoRange shippedN rd64 syms) = elRange shippedN rd64 := funext (lookupRange_memo shippedN rd64 syms)
  rw [h, reconcileSrc_shipped_eq]; rfl

/-- **source-derived field extraction of `parse_nucleus_label` = the model's `parseLabel`** for EVERY byte string: refusal exactly when
the pattern does not match, else the six fields (A, Z as ints, E, mass through `float`, real, user) -/
theorem parseSrc_eq_model (N : NTables) (rd : Rat → Rat) (rng : Nat → Option Range) (l : Bytes) :
    parseSrc program (W0 N rd rng) (.str l) =
      match parseLabel l with
      | none => .error .unparseable
      | some L => .ok (labelVals rd L) := by
  rw [parseLabel_eq]
  cases hm : matchNucleus l with
  | none => simp only [parseSrc, hm, Option.map]; rfl
  | some gr =>
    simp only [parseSrc, hm, Option.map]
    exact parseFields_eq N rd rng gr (matchNucleus_groupsOk l gr hm)

section headline
variable {N : NTables} {rd : Rat → Rat} (hok : SrcOk N rd) (rng : Nat → Option Range)
include hok

/-- soundness over the source-derived procedure (statement of `reconcile_sound`) -/
theorem reconcileSrc_sound (hcoh : DefaultCoherent N) (i : Input) (o : Output) (h : reconcileSrc program N rd rng i = .ok o) :
    N.pt.toE (.int o.Z) false = some o.E ∧
    (∀ z, NamesZ N i z → z = o.Z) ∧
    (∀ a, ClaimsA i a → a = o.A) ∧
    (∀ m, ClaimsMass rd i m → m = o.mass) ∧
    (o.A = -1 ∨ ∃ tm, tableMass N rd (.str (unpack o.E ++ intStr o.A)) = .ok tm ∧
        (tm = o.mass ∨ absR (rd (tm - o.mass)) ≤ i.mtol.val ∨ absR (rd (o.mass - tm)) ≤ i.mtol.val)) ∧
    (∃ r, rng o.E = some r ∧
        (if i.nonphysical then (o.A = -1 ∨ 1 ≤ o.A) ∧ 1/2 < o.mass
         else (o.A = -1 ∨ (r.amin ≤ o.A ∧ o.A ≤ r.amax)) ∧
              rd (r.mmin - 1/2) ≤ o.mass ∧ o.mass ≤ rd (r.mmax + 1/2))) ∧
    (∀ v, ClaimsReal i v → o.real.val = v) ∧
    ((∀ v, ¬ ClaimsReal i v) → o.real = .bool true) ∧
    o.user = expectedUser i :=
  reconcile_sound N rd rng hcoh i o (by rwa [reconcileSrc_eq hok] at h)

/-- no isotope information: the most abundant isotope -/
theorem reconcileSrc_default (i : Input) (o : Output) (h : reconcileSrc program N rd rng i = .ok o)
    (hA : ∀ a, ¬ ClaimsA i a) (hM : ∀ m, ¬ ClaimsMass rd i m) :
    (∃ a : Nat, N.pt.toA (.int o.Z) = some a ∧ o.A = (a : Int)) ∧ tableMass N rd (.int o.Z) = .ok o.mass :=
  reconcile_default N rd rng i o (by rwa [reconcileSrc_eq hok] at h) hA hM

/-- a supplied mass number is returned and the mass is inside its `mtol` window (closed: `<=`) -/
theorem reconcileSrc_supplied_A_window (i : Input) (o : Output) (h : reconcileSrc program N rd rng i = .ok o) (a : Int) (hA : ClaimsA i a) :
    o.A = a ∧ ∃ tm, tableMass N rd (.str (unpack o.E ++ intStr a)) = .ok tm ∧ absR (rd (o.mass - tm)) ≤ i.mtol.val :=
  supplied_A_window N rd rng i o (by rwa [reconcileSrc_eq hok] at h) a hA

theorem reconcileSrc_conflict_element (hcoh : DefaultCoherent N) (i : Input) (z₁ z₂ : Int) (h₁ : NamesZ N i z₁) (h₂ : NamesZ N i z₂)
    (hne : z₁ ≠ z₂) : ∃ e, reconcileSrc program N rd rng i = .error e := by
  rw [reconcileSrc_eq hok]; exact conflict_element N rd rng hcoh i z₁ z₂ h₁ h₂ hne

/-- element clues that each name an element but disagree: exactly ValidationError('atomic number') -/
theorem reconcileSrc_conflict_element_validation (i : Input) (zo : List ZOffer) (lab : Option Label)
    (hz : zStage N rd rng i = .ok (zo, lab)) (x y : ZOffer) (hx : x ∈ zo) (hy : y ∈ zo) (hne : x.z ≠ y.z) :
    reconcileSrc program N rd rng i = .error (.validation .atomicNumber) := by
  rw [reconcileSrc_eq hok]; exact conflict_element_validation N rd rng i zo lab hz x y hx hy hne

theorem reconcileSrc_conflict_mass_number (hcoh : DefaultCoherent N) (i : Input) (a₁ a₂ : Int) (h₁ : ClaimsA i a₁) (h₂ : ClaimsA i a₂)
    (hne : a₁ ≠ a₂) : ∃ e, reconcileSrc program N rd rng i = .error e := by
  rw [reconcileSrc_eq hok]; exact conflict_mass_number N rd rng hcoh i a₁ a₂ h₁ h₂ hne

theorem reconcileSrc_conflict_mass (hcoh : DefaultCoherent N) (i : Input) (m₁ m₂ : Rat) (h₁ : ClaimsMass rd i m₁) (h₂ : ClaimsMass rd i m₂)
    (hne : m₁ ≠ m₂) : ∃ e, reconcileSrc program N rd rng i = .error e := by
  rw [reconcileSrc_eq hok]; exact conflict_mass N rd rng hcoh i m₁ m₂ h₁ h₂ hne

theorem reconcileSrc_conflict_mass_number_vs_mass (hcoh : DefaultCoherent N) (i : Input) (z a : Int) (m : Rat) (sym : Nat)
    (hz : NamesZ N i z) (hsym : N.pt.toE (.int z) false = some sym) (hA : ClaimsA i a) (hM : ClaimsMass rd i m)
    (hout : ∀ tm, tableMass N rd (.str (unpack sym ++ intStr a)) = .ok tm → ¬ absR (rd (m - tm)) ≤ i.mtol.val) :
    ∃ e, reconcileSrc program N rd rng i = .error e := by
  rw [reconcileSrc_eq hok]; exact conflict_mass_number_vs_mass N rd rng hcoh i z a m sym hz hsym hA hM hout

theorem reconcileSrc_conflict_real (hcoh : DefaultCoherent N) (i : Input) (v₁ v₂ : Rat) (h₁ : ClaimsReal i v₁) (h₂ : ClaimsReal i v₂)
    (hne : v₁ ≠ v₂) : ∃ e, reconcileSrc program N rd rng i = .error e := by
  rw [reconcileSrc_eq hok]; exact conflict_real N rd rng hcoh i v₁ v₂ h₁ h₂ hne

theorem reconcileSrc_unparseable_label (i : Input) (l : Bytes) (hl : i.label = some l) (hs : i.speclabel = true) (hp : parseLabel l = none) :
    ∃ e, reconcileSrc program N rd rng i = .error e := by
  rw [reconcileSrc_eq hok]; exact unparseable_label N rd rng i l hl hs hp

end headline

/-! ## tests / non-vacuity (toy table of `Props/C06Idem.lean`, exact arithmetic) -/

theorem srcOk_toy : SrcOk toyN id := ⟨fun _ => rfl, tableMass_ok_of_allVals toyN (by decide) id⟩

-- test: the source-derived procedure run by the kernel on the full clue set `@2h_Tag@2.0` + A=2.0, Z=True, E="h", mass=2, real=0
example : reconcileSrc program toyN id (elRange toyN id) inFull =
    .ok { A := 2, Z := 1, E := pack [72], mass := 2, real := .int 0, user := [95, 116, 97, 103] } := by
  decide +kernel
-- test (hypotheses of the conflict theorems are satisfiable and the refusal is the source's own): A=1 against the label's 2h
example : reconcileSrc program toyN id (elRange toyN id) { inFull with A := some (.int 1) } = .error (.validation .mass) := by decide +kernel
example : reconcileSrc program toyN id (elRange toyN id) { inFull with real := some (.bool true) } = .error (.validation .realGhost) := by
  decide +kernel
example : reconcileSrc program toyN id (elRange toyN id) { inFull with A := some (.int 3) } = .error .notAnElement := by decide +kernel
example : reconcileSrc program toyN id (elRange toyN id) { inFull with label := some [64, 50, 104, 41] } = .error .unparseable := by
  decide +kernel
-- test: no isotope clue -> default isotope
example : reconcileSrc program toyN id (elRange toyN id) { inFull with A := none, mass := none, label := none } =
    .ok { A := 1, Z := 1, E := pack [72], mass := 1, real := .int 0, user := [] } := by decide +kernel
-- test: the source-derived field extraction on `@2h_Tag@2.0`
example : parseSrc program (W0 toyN id (elRange toyN id)) (.str [64, 50, 104, 95, 84, 97, 103, 64, 50, 46, 48]) =
    .ok [.num (.int 2), .none, .str [104], .num (.float 2), .num (.bool false), .str [95, 84, 97, 103]] := by decide +kernel

end QcelVerif.Nucleus.Ast
