import QcelVerif.Model.RadiiFactor
import QcelVerif.Model.RadiiShipped
import QcelVerif.Props.C17
import QcelVerif.Props.C17Units
import QcelVerif.Props.C03
/-!
# C17 — the unit clauses with the factor DERIVED from the CODATA set (closes the `-- FULL:` gap of Props/C17.lean)

Manifest (namespace `QcelVerif.Radii`):
  factor_is_si_ratio, default_is_bohr_full, shipped_default_is_bohr_full, native_unit_exact_full,
  native_get_full, units_linear_full, factor_chain, factor_swap, convModel_is_convImpl,
  factor_tolerance_accuracy, full_value_accuracy, impl_factor_value_accuracy, getFull_eq_of_factor_eq,
  rnd64_within_tol
(the link to C02's `bohr2angstroms` is in Props/C17FactorC02.lean; the Datum clause in Props/C17ToUnits.lean)

`Props/C17.lean` states the unit clauses for EVERY factor (`value_is_factor_times_native`, `default_value`)
and takes the concrete factor from the implementation.  Here the factor is C03's SI model
(`Units.conv` on the unit expressions of bohr / angstrom / pm / nm / m) over the CODATA table regenerated
from `/repo`, and the model's double is `rnd64` of that exact rational.

What REMAINS a checked parameter (not modelled, not proved): pint's float evaluation of the factor.
The implementation's double `f` is compared on every run with the model's exact rational `q`
(`withinTol f q`: `|f − q| ≤ 2^-50·|q|`, i.e. 4 units of the machine epsilon 2^-52); what follows from that
tolerance for the returned radius is `impl_factor_value_accuracy`.  Where `f = rnd64 q` (true of ångström→bohr,
pm, m and the identity on this platform) the implementation's result must equal `getFull` exactly
(`getFull_eq_of_factor_eq`).
-/
namespace QcelVerif.Radii
open QcelVerif QcelVerif.PStr QcelVerif.PT

/-! ## the exact factors -/

/-- SI magnitude (in metres) of the five units under the CODATA set `cd` -/
def lmag (cd : Units.Codata) : LUnit → Rat
  | .bohr => cd.a0
  | .angstrom => 1 / 10000000000
  | .pm => 1 / 1000000000000
  | .nm => 1 / 1000000000
  | .m => 1

theorem mag_expr (cd : Units.Codata) (u : LUnit) : Units.mag cd u.expr = lmag cd u := by
  cases u <;> simp [LUnit.expr, Units.mag, Units.baseMag, lmag, Units.ten, Units.zpw_eq] <;> norm_num

theorem dim_expr (u : LUnit) : Units.dim u.expr = Units.Dim.length := by
  cases u <;> rfl

/-- **The factor of every ordered pair of the quantifier's units is the ratio of SI magnitudes**, an exact
rational, and never an error (all five are lengths). -/
theorem factor_is_si_ratio (cd : Units.Codata) (s d : LUnit) :
    factorQ cd s d = .ok (lmag cd s / lmag cd d) := by
  unfold factorQ Units.conv
  rw [dim_expr, dim_expr, mag_expr, mag_expr]
  simp

theorem ofName_name (u : LUnit) : LUnit.ofName u.name = some u := by
  cases u <;> decide

theorem convModel_eq (cd : Units.Codata) (s d : LUnit) :
    convModel cd s.name d.name = some (rnd64 (lmag cd s / lmag cd d)) := by
  unfold convModel
  simp only [ofName_name, factor_is_si_ratio]

theorem rnd64_one : rnd64 1 = 1 := by decide +kernel

theorem lmag_ne_zero (cd : Units.Codata) (ha0 : cd.a0 ≠ 0) (u : LUnit) : lmag cd u ≠ 0 := by
  cases u <;> simp [lmag, ha0]

/-- `getFull` once the identifier is known -/
theorem getFull_of_identify (cd : Units.Codata) (T : Tables) (t : Table) (a : PyVal) (k : Nat) (rt : Bool)
    (u : Option Bytes) (m : Option Rat) (hid : identify T t a = some k) :
    getFull cd T t a rt u m = getByKey t (fun src => convModel cd src (u.getD bBohr)) k rt m := by
  unfold getFull getU get
  simp only [hid]

/-! ## the default unit -/

theorem angstrom_bohr_ratio (cd : Units.Codata) :
    lmag cd .angstrom / lmag cd .bohr = 1 / (cd.a0 * 10000000000) := by
  simp only [lmag]
  rw [div_div, mul_comm]

/-- **The default result is the tabulated ångström value times the context's ångström→bohr factor**, with
that factor derived: `conversion_factor("angstrom", "bohr")` of the SI model is `1 / (a0·10^10)`, `a0` the
CODATA set's "bohr radius" (in metres; `a0·10^10` is the context's `bohr2angstroms`, see
`Props/C17FactorC02.lean`), the model's double is the correctly rounded value of that rational, and the
returned radius is `fl(that double · float(tabulated decimal))` — for ANY tables and ANY CODATA set. -/
theorem default_is_bohr_full (cd : Units.Codata) (T : Tables) (t : Table) (a : PyVal) (k : Nat) (m : Option Rat)
    (d : Datum) (n : Bool) (c : Nat) (e : Int)
    (hid : identify T t a = some k) (hd : lookupK t k = some d) (hdec : d.data = .dec n c e)
    (hu : d.units = bAngstrom) :
    getFull cd T t a false none m = .ok (.value (fmul (rnd64 (1 / (cd.a0 * 10000000000))) (ofDec n c e))) ∧
    Units.conv cd (LUnit.expr .angstrom) (LUnit.expr .bohr) = .ok (1 / (cd.a0 * 10000000000)) := by
  constructor
  · unfold getFull
    apply default_value T t (convModel cd) a k m d _ n c e hid hd hdec
    rw [hu, ← angstrom_bohr_ratio]
    exact convModel_eq cd .angstrom .bohr
  · have h := factor_is_si_ratio cd .angstrom .bohr
    rw [angstrom_bohr_ratio] at h
    exact h

/-- entry predicate: stored in ångström as a Decimal -/
def angDecOk (d : Datum) : Bool :=
  d.units == bAngstrom && (match d.data with | .dec _ _ _ => true | _ => false)

/-- every stored Datum of both shipped sets is a Decimal in ångström (kernel evaluation over the generated tables) -/
theorem shipped_entries_angstrom_decimal :
    cov.all (fun p => angDecOk p.2) = true ∧ vdw.all (fun p => angDecOk p.2) = true := by
  constructor <;> decide +kernel

/-- **Shipped tables, both sets, every argument that identifies a tabulated entry** (any alias form, any
case, special labels): the default result is `fl(rnd(1/(a0·10^10)) · float(tabulated decimal))`. -/
theorem shipped_default_is_bohr_full (cd : Units.Codata) (t : Table) (ht : t = cov ∨ t = vdw) (a : PyVal) (k : Nat)
    (m : Option Rat) (d : Datum) (hid : identify shipped t a = some k) (hd : lookupK t k = some d) :
    ∃ n c e, d.data = .dec n c e ∧
      getFull cd shipped t a false none m = .ok (.value (fmul (rnd64 (1 / (cd.a0 * 10000000000))) (ofDec n c e))) := by
  obtain ⟨p, hp, _, hpd⟩ := lookupK_mem hd
  have hall : t.all (fun p => angDecOk p.2) = true := by
    rcases ht with rfl | rfl
    · exact shipped_entries_angstrom_decimal.1
    · exact shipped_entries_angstrom_decimal.2
  rw [List.all_eq_true] at hall
  have hok := hall p hp
  rw [hpd] at hok
  unfold angDecOk at hok
  simp only [Bool.and_eq_true, beq_iff_eq] at hok
  cases hdat : d.data with
  | dec n c e => exact ⟨n, c, e, rfl, (default_is_bohr_full cd shipped t a k m d n c e hid hd hdat hok.1).1⟩
  | flt x => rw [hdat] at hok; exact absurd hok.2 (by simp)
  | arr xs => rw [hdat] at hok; exact absurd hok.2 (by simp)

-- the hypotheses are satisfiable (tests): "HYDROGEN" identifies H, which both sets tabulate; "c_SP3" does not
-- identify anything, "C_sp3" identifies its own covalent entry
example : identify shipped cov (.str [72, 89, 68, 82, 79, 71, 69, 78]) = some (pack [72]) ∧
    (lookupK cov (pack [72])).isSome = true ∧ (lookupK vdw (pack [72])).isSome = true := by decide +kernel
example : identify shipped cov (.str [67, 95, 115, 112, 51]) = some (pack [67, 95, 115, 112, 51]) ∧
    (lookupK cov (pack [67, 95, 115, 112, 51])).isSome = true := by decide +kernel

/-! ## the native unit -/

/-- **Asking for the unit the entry is stored in has factor exactly 1** — the exact rational is 1 and so is
the model's double (`a0 ≠ 0` is needed for bohr→bohr only; it holds of both generated sets,
`Units.codata2014_pos` / `codata2018_pos`). -/
theorem native_unit_exact_full (cd : Units.Codata) (ha0 : cd.a0 ≠ 0) (u : LUnit) :
    factorQ cd u u = .ok 1 ∧ convModel cd u.name u.name = some 1 := by
  have h1 : lmag cd u / lmag cd u = 1 := div_self (lmag_ne_zero cd ha0 u)
  refine ⟨by rw [factor_is_si_ratio, h1], ?_⟩
  rw [convModel_eq, h1, rnd64_one]

/-- … hence the lookup returns `float(tabulated Decimal)` itself, for ANY tables. -/
theorem native_get_full (cd : Units.Codata) (ha0 : cd.a0 ≠ 0) (T : Tables) (t : Table) (a : PyVal) (k : Nat)
    (m : Option Rat) (d : Datum) (u : LUnit) (n : Bool) (c : Nat) (e : Int)
    (hid : identify T t a = some k) (hd : lookupK t k = some d) (hdec : d.data = .dec n c e)
    (hu : d.units = u.name) :
    getFull cd T t a false (some u.name) m = .ok (.value (ofDec n c e)) := by
  rw [getFull_of_identify cd T t a k false _ m hid]
  apply native_unit_exact_any t _ k m d n c e hd hdec
  simp only [Option.getD_some, hu]
  exact (native_unit_exact_full cd ha0 u).2

example : Units.Gen.codata2014.a0 ≠ 0 ∧ Units.Gen.codata2018.a0 ≠ 0 :=
  ⟨Units.codata2014_pos.a0.ne', Units.codata2018_pos.a0.ne'⟩

/-! ## the other units: exact decimal scales -/

/-- **Other length units scale linearly, exactly**: before rounding, the factors from ångström are the
exact rationals 1 (Å), 100 (pm), 1/10 (nm), 10^-10 (m), 1/(a0·10^10) (bohr); and bohr→Å is `a0·10^10`. -/
theorem units_linear_full (cd : Units.Codata) :
    factorQ cd .angstrom .angstrom = .ok 1 ∧ factorQ cd .angstrom .pm = .ok 100 ∧
    factorQ cd .angstrom .nm = .ok (1 / 10) ∧ factorQ cd .angstrom .m = .ok (1 / 10000000000) ∧
    factorQ cd .angstrom .bohr = .ok (1 / (cd.a0 * 10000000000)) ∧
    factorQ cd .bohr .angstrom = .ok (cd.a0 * 10000000000) := by
  refine ⟨?_, ?_, ?_, ?_, ?_, ?_⟩
  · rw [factor_is_si_ratio]; norm_num [lmag]
  · rw [factor_is_si_ratio]; norm_num [lmag]
  · rw [factor_is_si_ratio]; norm_num [lmag]
  · rw [factor_is_si_ratio]; norm_num [lmag]
  · rw [factor_is_si_ratio, angstrom_bohr_ratio]
  · rw [factor_is_si_ratio]; simp only [lmag]; congr 1; ring

/-- going through an intermediate unit multiplies the exact factors (all 125 triples) -/
theorem factor_chain (cd : Units.Codata) (ha0 : cd.a0 ≠ 0) (s d e : LUnit) :
    ∃ x y z, factorQ cd s d = .ok x ∧ factorQ cd d e = .ok y ∧ factorQ cd s e = .ok z ∧ x * y = z := by
  refine ⟨_, _, _, factor_is_si_ratio cd s d, factor_is_si_ratio cd d e, factor_is_si_ratio cd s e, ?_⟩
  have := lmag_ne_zero cd ha0 d
  field_simp

/-- the factors of the two directions are reciprocal (all 25 pairs) -/
theorem factor_swap (cd : Units.Codata) (ha0 : cd.a0 ≠ 0) (s d : LUnit) :
    ∃ x y, factorQ cd s d = .ok x ∧ factorQ cd d s = .ok y ∧ x * y = 1 := by
  refine ⟨_, _, factor_is_si_ratio cd s d, factor_is_si_ratio cd d s, ?_⟩
  have h1 := lmag_ne_zero cd ha0 d
  have h2 := lmag_ne_zero cd ha0 s
  field_simp

/-- C03's model of the CODE (`convImpl`: pint's container arithmetic and context graph as driven by
`context.py:278-331`) returns the same exact rational as the SI model on these units, for every positive
CODATA set (from C03's `convImpl_same_dim`). -/
theorem convModel_is_convImpl {cd : Units.Codata} (hp : cd.Pos) (s d : LUnit) :
    Units.convImpl cd s.expr d.expr = factorQ cd s d := by
  unfold factorQ
  exact Units.convImpl_same_dim hp s.expr d.expr (by rw [dim_expr, dim_expr])

/-! ## what a tolerance on the factor means for the radius -/

/-- one float multiplication: relative error at most `u = 2^-53` -/
theorem fmul_err (f x : Rat) : |fmul f x - f * x| ≤ (2 : Rat) ^ (-53 : Int) * |f * x| := rnd64_err _

/-- a factor within `ε` (relative) of `q`, one multiplication by a double `x`: within `(1+ε)(1+u) − 1` of `q·x` -/
theorem fmul_factor_tol (q f x ε : Rat) (hf : |f - q| ≤ ε * |q|) :
    |fmul f x - q * x| ≤ ((1 + ε) * (1 + (2 : Rat) ^ (-53 : Int)) - 1) * |q * x| := by
  generalize hu : (2 : Rat) ^ (-53 : Int) = u
  have upos : 0 ≤ u := by rw [← hu]; exact (two_zpow_pos _).le
  have h1 : |fmul f x - f * x| ≤ u * |f * x| := by rw [← hu]; exact fmul_err f x
  have xn := abs_nonneg x
  have qn := abs_nonneg q
  have hfq : |f| ≤ |q| + |f - q| := by
    have := abs_add_le q (f - q)
    have e : q + (f - q) = f := by ring
    rwa [e] at this
  have hf2 : |f| ≤ (1 + ε) * |q| := by linarith
  have e1 : fmul f x - q * x = (fmul f x - f * x) + (f - q) * x := by ring
  rw [e1]
  refine (abs_add_le _ _).trans ?_
  rw [abs_mul (f - q) x, abs_mul q x]
  rw [abs_mul] at h1
  have hA : u * (|f| * |x|) ≤ u * ((1 + ε) * |q| * |x|) :=
    mul_le_mul_of_nonneg_left (mul_le_mul_of_nonneg_right hf2 xn) upos
  have hB : |f - q| * |x| ≤ ε * |q| * |x| := mul_le_mul_of_nonneg_right hf xn
  calc |fmul f x - f * x| + |f - q| * |x|
      ≤ u * ((1 + ε) * |q| * |x|) + ε * |q| * |x| := add_le_add (h1.trans hA) hB
    _ = ((1 + ε) * (1 + u) - 1) * (|q| * |x|) := by ring

/-- **A factor within `ε` of the exact rational `q`, applied to a tabulated decimal `v`**: the returned
radius `fl(f · float(v))` is within `(1+ε)(1+u)² − 1` (relative) of the exact product `q·v`, `u = 2^-53`
— for EVERY `q`, `f`, `ε ≥ 0` and decimal. -/
theorem factor_tolerance_accuracy (q f ε : Rat) (n : Bool) (c : Nat) (e : Int) (hε : 0 ≤ ε)
    (hf : |f - q| ≤ ε * |q|) :
    |fmul f (ofDec n c e) - q * decVal n c e|
      ≤ ((1 + ε) * (1 + (2 : Rat) ^ (-53 : Int)) ^ 2 - 1) * |q * decVal n c e| := by
  have h0 := fmul_factor_tol q f (ofDec n c e) ε hf
  unfold ofDec at h0 ⊢
  generalize decVal n c e = v at h0 ⊢
  generalize hu : (2 : Rat) ^ (-53 : Int) = u at h0 ⊢
  have upos : 0 ≤ u := by rw [← hu]; exact (two_zpow_pos _).le
  have h1 : |rnd64 v - v| ≤ u * |v| := by rw [← hu]; exact rnd64_err v
  have hx : |rnd64 v| ≤ |v| + |rnd64 v - v| := by
    have := abs_add_le v (rnd64 v - v)
    have e : v + (rnd64 v - v) = rnd64 v := by ring
    rwa [e] at this
  have hx2 : |rnd64 v| ≤ (1 + u) * |v| := by linarith
  have qn := abs_nonneg q
  have vn := abs_nonneg v
  have kn : 0 ≤ (1 + ε) * (1 + u) - 1 := by nlinarith
  have e1 : fmul f (rnd64 v) - q * v = (fmul f (rnd64 v) - q * rnd64 v) + q * (rnd64 v - v) := by ring
  rw [e1]
  refine (abs_add_le _ _).trans ?_
  rw [abs_mul q (rnd64 v - v), abs_mul q v]
  rw [abs_mul] at h0
  have hA : ((1 + ε) * (1 + u) - 1) * (|q| * |rnd64 v|) ≤ ((1 + ε) * (1 + u) - 1) * (|q| * ((1 + u) * |v|)) :=
    mul_le_mul_of_nonneg_left (mul_le_mul_of_nonneg_left hx2 qn) kn
  have hB : |q| * |rnd64 v - v| ≤ |q| * (u * |v|) := mul_le_mul_of_nonneg_left h1 qn
  calc |fmul f (rnd64 v) - q * rnd64 v| + |q| * |rnd64 v - v|
      ≤ ((1 + ε) * (1 + u) - 1) * (|q| * ((1 + u) * |v|)) + |q| * (u * |v|) := add_le_add (h0.trans hA) hB
    _ = ((1 + ε) * (1 + u) ^ 2 - 1) * (|q| * |v|) := by ring

/-- **The model's result is the exact factor times the tabulated decimal up to three roundings** (factor,
`float(Decimal)`, product): relative error at most `(1+u)³ − 1 = 3u + 3u² + u³`. -/
theorem full_value_accuracy (q : Rat) (n : Bool) (c : Nat) (e : Int) :
    |fmul (rnd64 q) (ofDec n c e) - q * decVal n c e|
      ≤ ((1 + (2 : Rat) ^ (-53 : Int)) ^ 3 - 1) * |q * decVal n c e| := by
  have h := factor_tolerance_accuracy q (rnd64 q) ((2 : Rat) ^ (-53 : Int)) n c e (two_zpow_pos _).le (rnd64_err q)
  have e1 : (1 + (2 : Rat) ^ (-53 : Int)) ^ 3 = (1 + (2 : Rat) ^ (-53 : Int)) * (1 + (2 : Rat) ^ (-53 : Int)) ^ 2 := by ring
  rw [e1]
  exact h

/-- `withinTol` is the inequality it names -/
theorem withinTol_iff (f q : Rat) : withinTol f q = true ↔ |f - q| ≤ (2 : Rat) ^ (-50 : Int) * |q| := by
  have habs : ∀ x : Rat, qabs x = |x| := by
    intro x
    unfold qabs
    split
    · next h => exact (abs_of_neg h).symm
    · next h => exact (abs_of_nonneg (not_lt.mp h)).symm
  unfold withinTol
  rw [decide_eq_true_iff, habs, habs]
  have h2 : (2 : Rat) ^ (-50 : Int) = 1 / (2 : Rat) ^ (50 : Nat) := by
    rw [zpow_neg, one_div]; norm_cast
  rw [h2]
  have hp : (0 : Rat) < (2 : Rat) ^ (50 : Nat) := by positivity
  constructor
  · intro h
    rw [one_div, inv_mul_eq_div, le_div_iff₀ hp]
    exact h
  · intro h
    rw [one_div, inv_mul_eq_div, le_div_iff₀ hp] at h
    exact h

/-- **What the per-run check of the implementation's double buys**: if the double `f` that
`constants.conversion_factor` returned passes `withinTol f q` against the model's exact rational `q`, then the
radius the code returns, `fl(f · float(v))` (that it IS this product is the existing exact correspondence), is
within `(1 + 2^-50)(1+u)² − 1 < 11u` (relative) of the exact `q·v`. -/
theorem impl_factor_value_accuracy (q f : Rat) (n : Bool) (c : Nat) (e : Int) (h : withinTol f q = true) :
    |fmul f (ofDec n c e) - q * decVal n c e|
      ≤ ((1 + (2 : Rat) ^ (-50 : Int)) * (1 + (2 : Rat) ^ (-53 : Int)) ^ 2 - 1) * |q * decVal n c e| :=
  factor_tolerance_accuracy q f _ n c e (two_zpow_pos _).le ((withinTol_iff f q).mp h)

/-- the correctly rounded factor always passes the tolerance (so the check cannot reject the model's own double) -/
theorem rnd64_within_tol (q : Rat) : withinTol (rnd64 q) q = true := by
  rw [withinTol_iff]
  refine (rnd64_err q).trans (mul_le_mul_of_nonneg_right ?_ (abs_nonneg q))
  exact zpow_le_zpow_right₀ (by norm_num) (by norm_num)

-- the bound of `impl_factor_value_accuracy` is below 11u (test)
example : (1 + (2 : Rat) ^ (-50 : Int)) * (1 + (2 : Rat) ^ (-53 : Int)) ^ 2 - 1 < 11 * (2 : Rat) ^ (-53 : Int) := by
  norm_num

/-- **Where the implementation's double IS the correctly rounded factor, its answer is the model's**: `getU`
with any factor map that agrees with `convModel cd` on the entry's unit and the requested unit equals `getFull`. -/
theorem getFull_eq_of_factor_eq (cd : Units.Codata) (T : Tables) (t : Table) (convF : Bytes → Bytes → Option Rat)
    (a : PyVal) (k : Nat) (rt : Bool) (u : Option Bytes) (m : Option Rat) (d : Datum)
    (hid : identify T t a = some k) (hd : lookupK t k = some d)
    (hagree : convF d.units (u.getD bBohr) = convModel cd d.units (u.getD bBohr)) :
    getU T t convF a rt u m = getFull cd T t a rt u m := by
  unfold getFull getU get
  simp only [hid, getByKey, hd, Datum.toUnits, hagree]

end QcelVerif.Radii
