import QcelVerif.Props.C17Factor
import QcelVerif.Model.ConstantsShipped
/-!
# C17 — the ångström→bohr factor is the reciprocal of the context's `bohr2angstroms` (link to C02)

Manifest (namespace `QcelVerif.Radii`): bohr2angstroms_is_a0_2014, bohr2angstroms_is_a0_2018,
default_factor_is_inverse_bohr2angstroms_2014, default_factor_is_inverse_bohr2angstroms_2018,
shipped_default_over_bohr2angstroms_2014, shipped_default_over_bohr2angstroms_2018

WHICH constant: the convenience alias **`bohr2angstroms`** of `PhysicalConstantsContext` (context.py:158:
`self.pc['bohr radius'].data * Decimal('1.E10')`, units "AA"), as C02's model of the context construction
(`Model/Constants.lean`, `Constants.pc2014` / `pc2018`) builds it from the table `Gen/Codata201x.lean` that
C02's translator (`tools/gen_codata.py`) regenerates from `qcelemental/data/nist_201x_codata.py` on every run.
C03's unit model reads the SAME data file through ITS translator (`harness/c03.py:gen_units_codata` →
`Gen/UnitsCodata.lean`, field `a0` = the "bohr radius" row).  The theorems below are kernel evaluations over both
regenerated tables: the Decimal stored under `bohr2angstroms` is exactly `a0·10^10` (no decimal rounding
happened) and positive, so `conversion_factor("angstrom", "bohr") = 1 / bohr2angstroms` exactly.

`qcelemental.constants` — the context `covalentradii`, `vdwradii` and `Datum.to_units` use — is
`PhysicalConstantsContext("CODATA2014")` (context.py, last line); the harness reads `constants.name` and
selects the set accordingly, so the 2018 statements are there for a re-pointed default.
-/
namespace QcelVerif.Radii
open QcelVerif QcelVerif.PStr

/-- exact value of the Decimal the context stores under the key `bohr2angstroms` -/
def b2aOf (o : Option Constants.PC) : Option Rat :=
  match o with
  | some pc => (Constants.pcFind pc (pack b!"bohr2angstroms")).map (·.data.val)
  | none => none

/-- exact value of the Decimal the context stores under the key `bohr radius` -/
def bohrRadiusOf (o : Option Constants.PC) : Option Rat :=
  match o with
  | some pc => (Constants.pcFind pc (pack b!"bohr radius")).map (·.data.val)
  | none => none

/-- the context's `bohr2angstroms` is `a0·10^10` of the unit model's CODATA set, its `bohr radius` is `a0`, both positive -/
def b2aChk (o : Option Constants.PC) (cd : Units.Codata) : Bool :=
  match b2aOf o, bohrRadiusOf o with
  | some b, some r => (b == cd.a0 * 10000000000) && (r == cd.a0) && decide (0 < b)
  | _, _ => false

/-- **CODATA2014: the alias `bohr2angstroms` of C02's context model is exactly C03's `a0·10^10`** (the two
translators read the same "bohr radius" row; the alias multiplication by `Decimal('1.E10')` is exact). -/
theorem bohr2angstroms_is_a0_2014 : b2aChk Constants.pc2014 Units.Gen.codata2014 = true := by decide +kernel

/-- **CODATA2018**, likewise. -/
theorem bohr2angstroms_is_a0_2018 : b2aChk Constants.pc2018 Units.Gen.codata2018 = true := by decide +kernel

theorem inverse_b2a_of_chk (o : Option Constants.PC) (cd : Units.Codata) (h : b2aChk o cd = true) :
    ∃ b, b2aOf o = some b ∧ 0 < b ∧
      Units.conv cd (LUnit.expr .angstrom) (LUnit.expr .bohr) = .ok (1 / b) ∧
      factorQ cd .angstrom .bohr = .ok (1 / b) ∧ factorQ cd .bohr .angstrom = .ok b ∧
      convModel cd bAngstrom bBohr = some (rnd64 (1 / b)) := by
  unfold b2aChk at h
  cases hb : b2aOf o with
  | none => rw [hb] at h; simp at h
  | some b =>
    cases hr : bohrRadiusOf o with
    | none => rw [hb, hr] at h; simp at h
    | some r =>
      rw [hb, hr] at h
      simp only [Bool.and_eq_true, beq_iff_eq, decide_eq_true_eq] at h
      obtain ⟨⟨h1, _⟩, h3⟩ := h
      have hl := units_linear_full cd
      refine ⟨b, rfl, h3, ?_, ?_, ?_, ?_⟩
      · rw [h1]; exact hl.2.2.2.2.1
      · rw [h1]; exact hl.2.2.2.2.1
      · rw [h1]; exact hl.2.2.2.2.2
      · have := convModel_eq cd .angstrom .bohr
        rw [angstrom_bohr_ratio, ← h1] at this
        exact this

/-- **The default factor, CODATA2014 (the context the radii use)**: `conversion_factor("angstrom", "bohr")` of
the SI model over the regenerated table is exactly `1 / bohr2angstroms`, `bohr2angstroms` the Decimal of the
context's alias of that name; bohr→ångström is `bohr2angstroms` itself; the model's double is `rnd64` of it. -/
theorem default_factor_is_inverse_bohr2angstroms_2014 :
    ∃ b, b2aOf Constants.pc2014 = some b ∧ 0 < b ∧
      Units.conv Units.Gen.codata2014 (LUnit.expr .angstrom) (LUnit.expr .bohr) = .ok (1 / b) ∧
      factorQ Units.Gen.codata2014 .angstrom .bohr = .ok (1 / b) ∧ factorQ Units.Gen.codata2014 .bohr .angstrom = .ok b ∧
      convModel Units.Gen.codata2014 bAngstrom bBohr = some (rnd64 (1 / b)) :=
  inverse_b2a_of_chk _ _ bohr2angstroms_is_a0_2014

theorem default_factor_is_inverse_bohr2angstroms_2018 :
    ∃ b, b2aOf Constants.pc2018 = some b ∧ 0 < b ∧
      Units.conv Units.Gen.codata2018 (LUnit.expr .angstrom) (LUnit.expr .bohr) = .ok (1 / b) ∧
      factorQ Units.Gen.codata2018 .angstrom .bohr = .ok (1 / b) ∧ factorQ Units.Gen.codata2018 .bohr .angstrom = .ok b ∧
      convModel Units.Gen.codata2018 bAngstrom bBohr = some (rnd64 (1 / b)) :=
  inverse_b2a_of_chk _ _ bohr2angstroms_is_a0_2018

theorem shipped_default_of_chk (o : Option Constants.PC) (cd : Units.Codata) (h : b2aChk o cd = true) :
    ∃ b, b2aOf o = some b ∧ 0 < b ∧
      ∀ (t : Table), (t = cov ∨ t = vdw) → ∀ (a : PT.PyVal) (k : Nat) (m : Option Rat) (d : Datum),
        identify PT.shipped t a = some k → lookupK t k = some d →
        ∃ n c e, d.data = .dec n c e ∧
          getFull cd PT.shipped t a false none m = .ok (.value (fmul (rnd64 (1 / b)) (ofDec n c e))) := by
  unfold b2aChk at h
  cases hb : b2aOf o with
  | none => rw [hb] at h; simp at h
  | some b =>
    cases hr : bohrRadiusOf o with
    | none => rw [hb, hr] at h; simp at h
    | some r =>
      rw [hb, hr] at h
      simp only [Bool.and_eq_true, beq_iff_eq, decide_eq_true_eq] at h
      obtain ⟨⟨h1, _⟩, h3⟩ := h
      refine ⟨b, rfl, h3, ?_⟩
      intro t ht a k m d hid hd
      rw [h1]
      exact shipped_default_is_bohr_full cd t ht a k m d hid hd

/-- **The default clause end to end, shipped tables, the context the radii use (CODATA2014)**: there is a
positive rational `b` — the Decimal under the context's alias `bohr2angstroms` — such that for BOTH radius sets
and EVERY argument that identifies a tabulated entry (any alias form, any case, special labels) the default
result is `fl(rnd(1/b) · float(tabulated ångström decimal))`; nothing is taken from the implementation. -/
theorem shipped_default_over_bohr2angstroms_2014 :
    ∃ b, b2aOf Constants.pc2014 = some b ∧ 0 < b ∧
      ∀ (t : Table), (t = cov ∨ t = vdw) → ∀ (a : PT.PyVal) (k : Nat) (m : Option Rat) (d : Datum),
        identify PT.shipped t a = some k → lookupK t k = some d →
        ∃ n c e, d.data = .dec n c e ∧
          getFull Units.Gen.codata2014 PT.shipped t a false none m = .ok (.value (fmul (rnd64 (1 / b)) (ofDec n c e))) :=
  shipped_default_of_chk _ _ bohr2angstroms_is_a0_2014

theorem shipped_default_over_bohr2angstroms_2018 :
    ∃ b, b2aOf Constants.pc2018 = some b ∧ 0 < b ∧
      ∀ (t : Table), (t = cov ∨ t = vdw) → ∀ (a : PT.PyVal) (k : Nat) (m : Option Rat) (d : Datum),
        identify PT.shipped t a = some k → lookupK t k = some d →
        ∃ n c e, d.data = .dec n c e ∧
          getFull Units.Gen.codata2018 PT.shipped t a false none m = .ok (.value (fmul (rnd64 (1 / b)) (ofDec n c e))) :=
  shipped_default_of_chk _ _ bohr2angstroms_is_a0_2018

end QcelVerif.Radii
