import QcelVerif.Lemmas.Protocols
/-!
# C20 — result models: array shapes, basis function count, retention protocols, re-validation

Model: `Model/Protocols.lean`.  All theorems hold for every payload (no size bound): any shapes,
any subset of the 22 wavefunction arrays and 10 return pointers with any targets, any basis set,
any number of native files or trajectory steps.

PROPERTY-THEOREMS (audited on every run):
  reshapeExact_ok_iff reshapeRows_ok_iff reshapeCols3_ok_iff reshapeSquare_ok_iff
  props_shapes props_accept_iff rr_ok_iff
  nfunctions_append cartesian_count nbf_consistent validateBasis_idem
  wfn_all_keeps wfn_keeps_exactly wfn_none_drops wfn_rejects_iff_dangling wfn_idempotent
  wfn_shapes validateWfn_idem
  stdout_keeps native_keeps trajectory_selects trajectory_sublist trajectory_idempotent
  atomicResult_revalidate

History: six departures of the code from the statement found while building this file (dangling pointer →
KeyError, empty / one-step trajectory, native_files `input` placeholder on re-validation, ccsdt/ccsdtq dipoles
and coulomb/exchange matrices without a shape validator) were first proved as counter-examples, then repaired
in /repo (a7b6198, c295d95, 2c95a77, 763bf2b, c58ba51); the model follows the repaired code and the
corresponding theorems are now positive and unconditional.
-/
namespace QcelVerif.Protocols

/-! ## reshape accepts iff the size fits -/

/-- a fully specified target (gradient `[nat,3]`, Hessian `[3nat,3nat]`, dipole `[3]`, quadrupole `[3,3]`,
AO matrix `[nbf,nbf]`): accepted iff the element counts agree; the result is exactly the target. -/
theorem reshapeExact_ok_iff (t s r : Shape) :
    reshapeExact t s = some r ↔ (prod s = prod t ∧ r = t) := by
  rw [reshapeExact_eq_some]; constructor <;> rintro ⟨h1, h2⟩ <;> exact ⟨h1.symm, h2⟩

/-- `(nbf, -1)`: accepted iff `nbf > 0` and `nbf ∣ size`; the result has `nbf` rows and the same size. -/
theorem reshapeRows_ok_iff (n : Nat) (s r : Shape) :
    reshapeRows n s = some r ↔ (0 < n ∧ n ∣ prod s ∧ r = [n, prod s / n] ∧ prod r = prod s) := by
  rw [reshapeRows_eq_some]
  constructor
  · rintro ⟨h1, h2, rfl⟩
    exact ⟨h1, Nat.dvd_of_mod_eq_zero h2, rfl, by simp [mul_div_of_mod h2]⟩
  · rintro ⟨h1, h2, h3, _⟩
    exact ⟨h1, Nat.mod_eq_zero_of_dvd h2, h3⟩

/-- `(-1, 3)` (gradient return): accepted iff `3 ∣ size`. -/
theorem reshapeCols3_ok_iff (s r : Shape) :
    reshapeCols3 s = some r ↔ (3 ∣ prod s ∧ r = [prod s / 3, 3] ∧ prod r = prod s) := by
  rw [reshapeCols3_eq_some]
  constructor
  · rintro ⟨h1, rfl⟩
    exact ⟨Nat.dvd_of_mod_eq_zero h1, rfl, by simp [div_mul_of_mod h1]⟩
  · rintro ⟨h1, h2, _⟩
    exact ⟨Nat.mod_eq_zero_of_dvd h1, h2⟩

/-- Hessian return: accepted iff the size is a perfect square `k*k`; the result is `[k,k]`. -/
theorem reshapeSquare_ok_iff (s r : Shape) :
    reshapeSquare s = some r ↔ ∃ k, k * k = prod s ∧ r = [k, k] ∧ prod r = prod s := by
  rw [reshapeSquare_eq_some]
  constructor
  · rintro ⟨k, h1, rfl⟩; exact ⟨k, h1, rfl, by simp [h1]⟩
  · rintro ⟨k, h1, h2, _⟩; exact ⟨k, h1, h2⟩

example : reshapeExact [2, 3] [6] = some [2, 3] := by decide          -- test: flat → shaped
example : reshapeExact [2, 3] [7] = none := by decide                 -- test: wrong size rejected
example : reshapeRows 7 [21] = some [7, 3] := by decide               -- test
example : reshapeRows 0 [0] = none := by decide                       -- test: numpy's ambiguous (0,-1)
example : reshapeSquare [3, 12] = some [6, 6] := by decide            -- test
example : reshapeSquare [8] = none := by decide                       -- test

/-! ## AtomicResultProperties -/

/-- what the registered validator makes of a supplied shape `s` -/
def PropFits (natom : Option Nat) (k : PropArr) (s s' : Shape) : Prop :=
  match propRule k with
  | .gradient => ∃ n, natom = some n ∧ prod s = n * 3 ∧ s' = [n, 3]
  | .hessian => ∃ n, natom = some n ∧ prod s = (3 * n) * (3 * n) ∧ s' = [3 * n, 3 * n]
  | .dipole => prod s = 3 ∧ s' = [3]
  | .quadrupole => prod s = 9 ∧ s' = [3, 3]

theorem applyPropRule_iff (natom : Option Nat) (k : PropArr) (s s' : Shape) :
    applyPropRule natom (propRule k) s = some s' ↔ PropFits natom k s s' := by
  unfold PropFits
  cases hk : propRule k with
  | dipole => simp [applyPropRule, reshapeExact_ok_iff]
  | quadrupole => simp [applyPropRule, reshapeExact_ok_iff]
  | gradient =>
    cases natom with
    | none => simp [applyPropRule]
    | some n => simp [applyPropRule, reshapeExact_ok_iff]
  | hessian =>
    cases natom with
    | none => simp [applyPropRule]
    | some n => simp [applyPropRule, reshapeExact_ok_iff]

/-- An accepted properties object: `calcinfo_natom` unchanged; a field is present iff it was supplied; every
gradient is `[nat,3]`, every Hessian `[3nat,3nat]`, every dipole (all six dipole fields) `[3]`, the quadrupole
`[3,3]`, and every array keeps its element count. -/
theorem props_shapes (p o : PropsIn) (h : validateProps p = .ok o) :
    o.natom = p.natom ∧
    (∀ k, o.arr k = none ↔ p.arr k = none) ∧
    (∀ k s', o.arr k = some s' → ∃ s, p.arr k = some s ∧ PropFits p.natom k s s' ∧ prod s' = prod s) := by
  obtain ⟨hf, rfl⟩ := (validateProps_ok_iff p o).mp h
  have hne := (propFails_nil_iff p).mp hf
  refine ⟨rfl, ?_, ?_⟩
  · intro k
    have := hne k
    simp only [propOut] at this ⊢
    cases hk : p.arr k with
    | none => simp
    | some s =>
      simp only [hk, Option.map_some, ne_eq, Option.some.injEq] at this
      cases ha : applyPropRule p.natom (propRule k) s with
      | none => exact absurd ha this
      | some s' => simp [ha]
  · intro k s' hs
    simp only [propOut] at hs
    cases hk : p.arr k with
    | none => simp [hk] at hs
    | some s =>
      simp only [hk, Option.map_some, Option.join_some] at hs
      refine ⟨s, rfl, (applyPropRule_iff _ _ _ _).mp hs, ?_⟩
      have hfit := (applyPropRule_iff _ _ _ _).mp hs
      unfold PropFits at hfit
      cases hr : propRule k <;> simp only [hr] at hfit
      · obtain ⟨n, _, h2, rfl⟩ := hfit; simp [h2]
      · obtain ⟨n, _, h2, rfl⟩ := hfit; simp [h2]
      · obtain ⟨h2, rfl⟩ := hfit; simp [h2]
      · obtain ⟨h2, rfl⟩ := hfit; simp [h2]

/-- Properties are accepted iff every supplied array fits its validator. -/
theorem props_accept_iff (p : PropsIn) :
    (∃ o, validateProps p = .ok o) ↔ ∀ k s, p.arr k = some s → ∃ s', PropFits p.natom k s s' := by
  constructor
  · rintro ⟨o, h⟩ k s hk
    obtain ⟨_, h2, h3⟩ := props_shapes p o h
    cases ho : o.arr k with
    | none => rw [(h2 k).mp ho] at hk; cases hk
    | some s' =>
      obtain ⟨s0, hs0, hfit, _⟩ := h3 k s' ho
      rw [hk] at hs0; cases hs0
      exact ⟨s', hfit⟩
  · intro h
    refine ⟨_, (validateProps_ok_iff p _).mpr ⟨(propFails_nil_iff p).mpr ?_, rfl⟩⟩
    intro k hk
    simp only [propOut] at hk
    cases hp : p.arr k with
    | none => simp [hp] at hk
    | some s =>
      obtain ⟨s', hs'⟩ := h k s hp
      simp [hp, (applyPropRule_iff _ _ _ _).mpr hs'] at hk

-- non-vacuity / tests
example : ∃ o, validateProps { natom := some 2, arr := fun k => if k = .return_gradient then some [6] else none } = .ok o
    ∧ o.arr .return_gradient = some [2, 3] := ⟨_, rfl, by decide⟩
example : validateProps { natom := none, arr := fun k => if k = .return_gradient then some [6] else none }
    = .error [.return_gradient] := by rfl   -- test: derivative without calcinfo_natom

/-! ## return_result by driver -/

theorem rr_ok_iff (d : Driver) (v v' : RR) :
    validateRR d v = some v' ↔
      match d with
      | .gradient => 3 ∣ prod v.asShape ∧ v' = .arr [prod v.asShape / 3, 3]
      | .hessian => ∃ k, k * k = prod v.asShape ∧ v' = .arr [k, k]
      | .energy => v' = v
      | .properties => v' = v := by
  cases d with
  | energy => simp [validateRR, eq_comm]
  | properties => simp [validateRR, eq_comm]
  | gradient =>
    simp only [validateRR, Option.map_eq_some_iff]
    constructor
    · rintro ⟨r, hr, rfl⟩
      obtain ⟨h1, rfl, _⟩ := (reshapeCols3_ok_iff _ _).mp hr
      exact ⟨h1, rfl⟩
    · rintro ⟨h1, rfl⟩
      exact ⟨_, (reshapeCols3_ok_iff _ _).mpr ⟨h1, rfl, by simp [div_mul_of_mod (Nat.mod_eq_zero_of_dvd h1)]⟩, rfl⟩
  | hessian =>
    simp only [validateRR, Option.map_eq_some_iff]
    constructor
    · rintro ⟨r, hr, rfl⟩
      obtain ⟨k, h1, rfl, _⟩ := (reshapeSquare_ok_iff _ _).mp hr
      exact ⟨k, h1, rfl⟩
    · rintro ⟨k, h1, rfl⟩
      exact ⟨_, (reshapeSquare_ok_iff _ _).mpr ⟨k, h1, rfl, by simp [h1]⟩, rfl⟩

example : validateRR .gradient (.arr [9]) = some (.arr [3, 3]) := by decide      -- test
example : validateRR .hessian (.arr [4]) = some (.arr [2, 2]) := by decide       -- test
example : validateRR .gradient (.arr [4]) = none := by decide                    -- test

/-! ## basis sets -/

/-- a fused shell counts as its parts together -/
theorem nfunctions_append (h : Harm) (l₁ l₂ : List Nat) :
    nfunctions h (l₁ ++ l₂) = nfunctions h l₁ + nfunctions h l₂ := by
  induction l₁ with
  | nil => simp [nfunctions]
  | cons a t ih => simp only [List.cons_append, nfunctions, ih]; omega

theorem nfunctions_single (h : Harm) (l : Nat) :
    nfunctions h [l] = match h with | .spherical => 2 * l + 1 | .cartesian => (l + 1) * (l + 2) / 2 := by
  cases h <;> simp [nfunctions]

/-- all exponent triples `(i, j, k)` with `i + j + k = L` -/
def cartTriples (L : Nat) : List (Nat × Nat × Nat) :=
  flatten ((List.range (L + 1)).map (fun i => (List.range (L + 1 - i)).map (fun j => (i, j, L - i - j))))

theorem mem_flatten {α : Type} {x : α} : ∀ {ls : List (List α)}, x ∈ flatten ls ↔ ∃ l, l ∈ ls ∧ x ∈ l
  | [] => by simp [flatten]
  | l :: ls => by
    simp only [flatten, List.mem_append, List.mem_cons, mem_flatten (ls := ls)]
    constructor
    · rintro (h | ⟨l', h1, h2⟩)
      · exact ⟨l, Or.inl rfl, h⟩
      · exact ⟨l', Or.inr h1, h2⟩
    · rintro ⟨l', h1 | h1, h2⟩
      · subst h1; exact Or.inl h2
      · exact Or.inr ⟨l', h1, h2⟩

theorem length_flatten_map {α : Type} (f : Nat → List α) (g : Nat → Nat) (hg : ∀ i, (f i).length = g i) :
    ∀ l : List Nat, (flatten (l.map f)).length = (l.map g).foldr (· + ·) 0
  | [] => rfl
  | a :: t => by
    simp only [List.map, flatten, List.length_append, List.foldr, hg, length_flatten_map f g hg t]

theorem sum_range_desc (L : Nat) : ∀ n, n ≤ L + 1 →
    2 * (((List.range n).map (fun i => L + 1 - i)).foldr (· + ·) 0) = n * (2 * L + 3 - n)
  | 0, _ => by simp
  | n + 1, h => by
    have ih := sum_range_desc L n (by omega)
    rw [List.range_succ, List.map_append, List.foldr_append]
    simp only [List.map, List.foldr]
    have hfold : ∀ (l : List Nat) (a : Nat), l.foldr (· + ·) a = l.foldr (· + ·) 0 + a := by
      intro l a
      induction l with
      | nil => simp
      | cons x t iht => simp only [List.foldr, iht]; omega
    rw [hfold, Nat.mul_add, ih]
    have h1 : n ≤ L := by omega
    obtain ⟨d, rfl⟩ : ∃ d, L = n + d := ⟨L - n, by omega⟩
    have e1 : 2 * (n + d) + 3 - n = n + (2 * d + 3) := by omega
    have e2 : 2 * (n + d) + 3 - (n + 1) = n + (2 * d + 2) := by omega
    have e3 : n + d + 1 - n + 0 = d + 1 := by omega
    rw [e1, e2, e3]
    simp only [Nat.mul_add, Nat.add_mul, Nat.mul_one, Nat.one_mul]
    omega

/-- `(L+1)(L+2)/2` — the cartesian count used by `nfunctions` — is the number of exponent triples with
`i+j+k = L`, and those are exactly the members of the enumeration. -/
theorem cartesian_count (L : Nat) :
    (cartTriples L).length = (L + 1) * (L + 2) / 2 ∧
    (∀ i j k, (i, j, k) ∈ cartTriples L ↔ i + j + k = L) := by
  constructor
  · unfold cartTriples
    rw [length_flatten_map _ (fun i => L + 1 - i) (by intro i; simp)]
    have h := sum_range_desc L (L + 1) (Nat.le_refl _)
    have e : 2 * L + 3 - (L + 1) = L + 2 := by omega
    rw [e] at h
    omega
  · intro i j k
    unfold cartTriples
    rw [mem_flatten]
    constructor
    · rintro ⟨l, hl, hx⟩
      simp only [List.mem_map, List.mem_range] at hl
      obtain ⟨i', hi', rfl⟩ := hl
      simp only [List.mem_map, List.mem_range, Prod.mk.injEq] at hx
      obtain ⟨j', hj', rfl, rfl, rfl⟩ := hx
      omega
    · intro h
      refine ⟨_, List.mem_map.mpr ⟨i, List.mem_range.mpr (by omega), rfl⟩, ?_⟩
      refine List.mem_map.mpr ⟨j, List.mem_range.mpr (by omega), ?_⟩
      have : L - i - j = k := by omega
      rw [this]

/-- An accepted basis set carries `nbf` equal to the count implied by its shells and is otherwise
unchanged; the supplied value was absent or already equal.  A well-formed basis with a different supplied
`nbf` is rejected (`nbfMismatch`), with an absent one it is accepted. -/
theorem nbf_consistent (b : BasisIn) :
    (∀ b', validateBasis b = .ok b' →
        b'.nbf = some (calcNbf b.centers b.atomMap) ∧ b'.centers = b.centers ∧ b'.atomMap = b.atomMap ∧
        (b.nbf = none ∨ b.nbf = some (calcNbf b.centers b.atomMap))) ∧
    (b.wellFormed → ∀ v, b.nbf = some v → v ≠ calcNbf b.centers b.atomMap → validateBasis b = .error .nbfMismatch) ∧
    (b.wellFormed → b.nbf = none → ∃ b', validateBasis b = .ok b') := by
  refine ⟨?_, ?_, ?_⟩
  · intro b' h
    obtain ⟨_, h2, rfl⟩ := (validateBasis_ok_iff b b').mp h
    exact ⟨rfl, rfl, rfl, h2⟩
  · intro hw v hn hv; exact validateBasis_mismatch b v hw hn hv
  · intro hw hn; exact ⟨_, (validateBasis_ok_iff b _).mpr ⟨hw, Or.inl hn, rfl⟩⟩

theorem validateBasis_idem (b b' : BasisIn) (h : validateBasis b = .ok b') : validateBasis b' = .ok b' := by
  obtain ⟨hw, _, rfl⟩ := (validateBasis_ok_iff b b').mp h
  exact (validateBasis_ok_iff _ _).mpr ⟨hw, Or.inr rfl, rfl⟩

/-- `calcNbf` adds up over the atoms -/
theorem calcNbf_append (cs : List Center) (a₁ a₂ : List Nat) :
    calcNbf cs (a₁ ++ a₂) = calcNbf cs a₁ + calcNbf cs a₂ := by
  induction a₁ with
  | nil => simp [calcNbf]
  | cons a t ih => simp only [List.cons_append, calcNbf, ih]; omega

-- test: the water/STO-3G-like basis of the test-suite: O = s + fused sp (cartesian) + s, H = s  →  8
example : validateBasis { centers := [⟨0, [⟨.spherical, [0], 3, [3]⟩, ⟨.cartesian, [0, 1], 3, [3, 3]⟩, ⟨.cartesian, [0], 3, [3, 3]⟩]⟩,
                                      ⟨1, [⟨.spherical, [0], 3, [3]⟩]⟩],
                          atomMap := [0, 1, 1], nbf := some 8 } = .ok
                        { centers := [⟨0, [⟨.spherical, [0], 3, [3]⟩, ⟨.cartesian, [0, 1], 3, [3, 3]⟩, ⟨.cartesian, [0], 3, [3, 3]⟩]⟩,
                                      ⟨1, [⟨.spherical, [0], 3, [3]⟩]⟩],
                          atomMap := [0, 1, 1], nbf := some 8 } := by rfl

/-! ## the wavefunction protocol -/

/-- the pointer keys a protocol may retain, given `restricted` -/
def Selected (keep : List PtrKey) (r : Bool) (pk : PtrKey) : Prop :=
  pk ∈ keep ∧ ¬ (r = true ∧ pk.spin = .b)

theorem afterRestricted_ptr {β : Type} (r : Bool) (w : Wfn β) (pk : PtrKey) (ak : ArrKey) :
    (afterRestricted r w).ptr pk = some ak ↔ (¬ (r = true ∧ pk.spin = .b) ∧ w.ptr pk = some ak) := by
  cases r with
  | false => simp [afterRestricted]
  | true =>
    simp only [afterRestricted, if_true, dropBeta, true_and]
    by_cases hs : pk.spin = .b <;> simp [hs]

theorem afterRestricted_arr {β : Type} (r : Bool) (w : Wfn β) (ak : ArrKey) (v : Shape) :
    (afterRestricted r w).arr ak = some v ↔ (¬ (r = true ∧ ak.spin = .b) ∧ w.arr ak = some v) := by
  cases r with
  | false => simp [afterRestricted]
  | true =>
    simp only [afterRestricted, if_true, dropBeta, true_and]
    by_cases hs : ak.spin = .b <;> simp [hs]

/-- Protocol `all`: for a restricted wavefunction exactly the non-beta entries survive, unchanged; for an
unrestricted one everything is returned unchanged (`untouched_kept`). -/
theorem wfn_all_keeps {β : Type} (w : Wfn β) (r : Bool) (hr : w.restricted = some r) :
    ∃ w', wfnProtocol .all w = .ok (some w') ∧ w'.restricted = some r ∧ w'.basis = w.basis ∧
      (∀ pk ak, w'.ptr pk = some ak ↔ (¬ (r = true ∧ pk.spin = .b) ∧ w.ptr pk = some ak)) ∧
      (∀ ak v, w'.arr ak = some v ↔ (¬ (r = true ∧ ak.spin = .b) ∧ w.arr ak = some v)) ∧
      (r = false → w' = w) := by
  refine ⟨_, wfnProtocol_all w r hr, ?_, (afterRestricted_restricted r w).2, afterRestricted_ptr r w,
    afterRestricted_arr r w, ?_⟩
  · rw [(afterRestricted_restricted r w).1, hr]
  · intro h; subst h; rfl

/-- Subset protocols (`return_results`, `orbitals_and_eigenvalues`, `occupations_and_eigenvalues`):
exactly what is kept.  The retained pointers are the selected, supplied, non-beta-if-restricted ones with
their values; the retained arrays are exactly the arrays those pointers name, unchanged; `basis` and
`restricted` are kept; nothing else survives. -/
theorem wfn_keeps_exactly {β : Type} (p : WfnProto) (keep : List PtrKey) (hk : keepList p = some keep)
    (w w' : Wfn β) (r : Bool) (hr : w.restricted = some r) (h : wfnProtocol p w = .ok (some w')) :
    w'.restricted = some r ∧ w'.basis = w.basis ∧
    (∀ pk ak, w'.ptr pk = some ak ↔ (Selected keep r pk ∧ w.ptr pk = some ak)) ∧
    (∀ ak v, w'.arr ak = some v ↔ ((∃ pk, Selected keep r pk ∧ w.ptr pk = some ak) ∧ w.arr ak = some v)) := by
  rw [wfnProtocol_subset p keep hk w r hr] at h
  cases hl : keepLoop (afterRestricted r w) keep (emptyRet r (afterRestricted r w).basis) with
  | error e => rw [hl] at h; cases h
  | ok ret =>
    rw [hl] at h
    simp only [Except.ok.injEq, Option.some.injEq] at h
    subst h
    obtain ⟨hinv, hres, hbas⟩ := keepLoop_inv _ keep [] _ ret (keepInv_empty _ r _) hl
    simp only [List.nil_append] at hinv
    -- every selected pointer resolved, otherwise the loop would have failed
    have hresolved : ∀ pk, pk ∈ keep → ∀ ak, (afterRestricted r w).ptr pk = some ak →
        ∃ v, (afterRestricted r w).arr ak = some v := by
      intro pk hpk ak hpa
      cases ha : (afterRestricted r w).arr ak with
      | some v => exact ⟨v, rfl⟩
      | none =>
        have := keepLoop_error_of_dangling (afterRestricted r w) keep
          (emptyRet r (afterRestricted r w).basis) ⟨pk, hpk, ak, hpa, ha⟩
        rw [hl] at this; cases this
    refine ⟨by rw [hres]; rfl, by rw [hbas]; exact (afterRestricted_restricted r w).2, ?_, ?_⟩
    · intro pk ak
      rw [hinv.ptr, afterRestricted_ptr]
      unfold Selected
      constructor
      · rintro ⟨h1, h2, h3⟩; exact ⟨⟨h1, h2⟩, h3⟩
      · rintro ⟨⟨h1, h2⟩, h3⟩; exact ⟨h1, h2, h3⟩
    · intro ak v
      rw [hinv.arr]
      unfold Selected
      constructor
      · rintro ⟨⟨pk, h1, h2⟩, h3⟩
        obtain ⟨h2a, h2b⟩ := (afterRestricted_ptr r w pk ak).mp h2
        exact ⟨⟨pk, ⟨h1, h2a⟩, h2b⟩, ((afterRestricted_arr r w ak v).mp h3).2⟩
      · rintro ⟨⟨pk, ⟨h1, h2⟩, h3⟩, h4⟩
        have hp := (afterRestricted_ptr r w pk ak).mpr ⟨h2, h3⟩
        obtain ⟨v', hv'⟩ := hresolved pk h1 ak hp
        have := ((afterRestricted_arr r w ak v').mp hv').2
        rw [h4] at this; cases this
        exact ⟨⟨pk, h1, hp⟩, hv'⟩

/-- Protocol `none` keeps no wavefunction. -/
theorem wfn_none_drops {β : Type} (w : Wfn β) (r : Bool) (hr : w.restricted = some r) :
    wfnProtocol .none w = .ok none := wfnProtocol_none w r hr

/-- The filter rejects — as a validation error at `wavefunction`, never as another exception — exactly when
some selected pointer names an array that is not supplied (or was removed as a beta quantity).  With
`restricted` supplied there is no other failure, and under `all` / `none` none at all. -/
theorem wfn_rejects_iff_dangling {β : Type} (p : WfnProto) (w : Wfn β) (r : Bool) (hr : w.restricted = some r) :
    (∀ e, wfnProtocol p w = .error e → e = .validation ["wavefunction"]) ∧
    ((∃ e, wfnProtocol p w = .error e) ↔
      ∃ keep, keepList p = some keep ∧ ∃ pk ak, Selected keep r pk ∧ w.ptr pk = some ak ∧
        ¬ (∃ v, ¬ (r = true ∧ ak.spin = .b) ∧ w.arr ak = some v)) := by
  cases hk : keepList p with
  | none =>
    have hok : ∃ o, wfnProtocol p w = .ok o := by
      cases p with
      | none => exact ⟨_, wfnProtocol_none w r hr⟩
      | all => exact ⟨_, wfnProtocol_all w r hr⟩
      | orbitals_and_eigenvalues => simp [keepList] at hk
      | occupations_and_eigenvalues => simp [keepList] at hk
      | return_results => simp [keepList] at hk
    obtain ⟨o, ho⟩ := hok
    rw [ho]
    constructor
    · intro e h; cases h
    · constructor
      · rintro ⟨e, h⟩; cases h
      · rintro ⟨keep, h, _⟩; cases h
  | some keep =>
    rw [wfnProtocol_subset p keep hk w r hr]
    cases hl : keepLoop (afterRestricted r w) keep (emptyRet r (afterRestricted r w).basis) with
    | ok ret =>
      simp only
      constructor
      · intro e h; cases h
      · constructor
        · rintro ⟨e, h⟩; cases h
        · rintro ⟨keep', hk', pk, ak, ⟨h1, h2⟩, h3, h4⟩
          cases hk'
          have hp := (afterRestricted_ptr r w pk ak).mpr ⟨h2, h3⟩
          have ha : (afterRestricted r w).arr ak = none := by
            cases hv : (afterRestricted r w).arr ak with
            | none => rfl
            | some v => exact absurd ⟨v, (afterRestricted_arr r w ak v).mp hv⟩ h4
          have := keepLoop_error_of_dangling (afterRestricted r w) keep
            (emptyRet r (afterRestricted r w).basis) ⟨pk, h1, ak, hp, ha⟩
          rw [hl] at this; cases this
    | error e =>
      simp only
      obtain ⟨he, pk, h1, ak, h2, h3⟩ := keepLoop_error _ keep _ e hl
      subst he
      constructor
      · intro e h; cases h; rfl
      · constructor
        · intro _
          obtain ⟨h2a, h2b⟩ := (afterRestricted_ptr r w pk ak).mp h2
          refine ⟨keep, rfl, pk, ak, ⟨h1, h2a⟩, h2b, ?_⟩
          rintro ⟨v, hv⟩
          rw [(afterRestricted_arr r w ak v).mpr hv] at h3; cases h3
        · intro _; exact ⟨_, rfl⟩

/-- Every wavefunction protocol is idempotent: applied to its own output it returns that output. -/
theorem wfn_idempotent {β : Type} (p : WfnProto) (w : Wfn β) :
    (∀ w', wfnProtocol p w = .ok (some w') → wfnProtocol p w' = .ok (some w')) ∧
    (wfnProtocol p w = .ok none → p = .none) := by
  constructor
  · intro w' h
    have hp : p ≠ .none := by
      intro hp; subst hp
      cases hr : w.restricted with
      | none => rw [wfnProtocol_no_restricted _ w hr] at h; cases h
      | some r => rw [wfnProtocol_none w r hr] at h; cases h
    exact protocol_of_closed p hp w' (closed_of_protocol p w w' h)
  · intro h
    cases hr : w.restricted with
    | none => rw [wfnProtocol_no_restricted _ w hr] at h; cases h
    | some r =>
      cases hk : keepList p with
      | none =>
        cases p with
        | none => rfl
        | all => rw [wfnProtocol_all w r hr] at h; cases h
        | orbitals_and_eigenvalues => simp [keepList] at hk
        | occupations_and_eigenvalues => simp [keepList] at hk
        | return_results => simp [keepList] at hk
      | some keep =>
        rw [wfnProtocol_subset p keep hk w r hr] at h
        cases hl : keepLoop (afterRestricted r w) keep (emptyRet r (afterRestricted r w).basis) with
        | ok ret => rw [hl] at h; cases h
        | error e => rw [hl] at h; cases h

-- tests / non-vacuity: a restricted wavefunction with alpha and beta orbitals and pointers
def exWfn : Wfn Unit :=
  { restricted := some true, basis := some (),
    arr := fun k => if k = ⟨.scf_orbitals, .a⟩ ∨ k = ⟨.scf_orbitals, .b⟩ ∨ k = ⟨.scf_fock, .a⟩ then some [4] else none,
    ptr := fun k => if k = ⟨.orbitals, .a⟩ then some ⟨.scf_orbitals, .a⟩
                    else if k = ⟨.orbitals, .b⟩ then some ⟨.scf_orbitals, .b⟩
                    else if k = ⟨.fock, .a⟩ then some ⟨.scf_fock, .a⟩ else none }

example : ∃ w', wfnProtocol .orbitals_and_eigenvalues exWfn = .ok (some w') ∧
    w'.arr ⟨.scf_orbitals, .a⟩ = some [4] ∧ w'.arr ⟨.scf_orbitals, .b⟩ = none ∧ w'.arr ⟨.scf_fock, .a⟩ = none ∧
    w'.ptr ⟨.orbitals, .a⟩ = some ⟨.scf_orbitals, .a⟩ ∧ w'.ptr ⟨.fock, .a⟩ = none := ⟨_, rfl, by decide⟩

/-- test: a restricted wavefunction whose alpha pointer names a beta array is rejected -/
example : wfnProtocol .return_results
    ({ exWfn with ptr := fun k => if k = ⟨.orbitals, .a⟩ then some ⟨.scf_orbitals, .b⟩ else none } : Wfn Unit)
    = .error (.validation ["wavefunction"]) := by rfl

/-! ## WavefunctionProperties: shapes, and re-validation -/

/-- what the registered validator makes of a supplied shape `s`, given the basis size -/
def ArrFits (nbf : Nat) (b : ArrBase) (s s' : Shape) : Prop :=
  match arrRule b with
  | .square => prod s = nbf * nbf ∧ s' = [nbf, nbf]
  | .rows => 0 < nbf ∧ nbf ∣ prod s ∧ s' = [nbf, prod s / nbf]
  | .flat => s' = [prod s]
  | .unvalidated => s' = s

/-- Accepted `WavefunctionProperties`: the basis carries `nbf` = the count implied by its shells; every AO
matrix (`h_core`, `h_effective`, `scf_density`, `scf_fock`, `scf_coulomb`, `scf_exchange`, both spins) is
`[nbf, nbf]`, `scf_orbitals` and `localized_orbitals` are `[nbf, size/nbf]`, eigenvalues and occupations are flat,
`localized_fock` is left as supplied; every array keeps its element count; a field is present iff it was supplied; pointers and
`restricted` are unchanged and every pointer names a present array. -/
theorem wfn_shapes (x y : Wfn BasisIn) (h : validateWfn x = .ok y) :
    ∃ b b' nbf, x.basis = some b ∧ y.basis = some b' ∧ b'.nbf = some nbf ∧ nbf = calcNbf b.centers b.atomMap ∧
      y.restricted = x.restricted ∧ y.ptr = x.ptr ∧
      (∀ k, y.arr k = none ↔ x.arr k = none) ∧
      (∀ k s', y.arr k = some s' → ∃ s, x.arr k = some s ∧ ArrFits nbf k.base s s' ∧ prod s' = prod s) ∧
      (∀ pk ak, y.ptr pk = some ak → ∃ v, y.arr ak = some v) := by
  obtain ⟨b, b', hb, hv, _, hfa, hfp, rfl⟩ := (validateWfn_ok_iff x y).mp h
  obtain ⟨_, _, rfl⟩ := (validateBasis_ok_iff b b').mp hv
  have hpres := validated_arr_presence hfa
  refine ⟨b, _, _, hb, rfl, rfl, rfl, rfl, rfl, ?_, ?_, ?_⟩
  · intro k
    constructor
    · intro hy
      cases hx : x.arr k with
      | none => rfl
      | some s =>
        obtain ⟨s', hs'⟩ := (hpres k).1 s hx
        simp only at hy
        rw [hs'] at hy; cases hy
    · exact (hpres k).2
  · intro k s' hs'
    obtain ⟨s, hx, hr⟩ := arrOut_join_some.mp hs'
    refine ⟨s, hx, ?_, applyArrRule_size hr⟩
    unfold ArrFits
    cases hrule : arrRule k.base <;> simp only [hrule, applyArrRule] at hr ⊢
    · obtain ⟨h1, h2⟩ := (reshapeExact_ok_iff _ _ _).mp hr
      exact ⟨by simpa using h1, h2⟩
    · obtain ⟨h1, h2, h3, _⟩ := (reshapeRows_ok_iff _ _ _).mp hr
      exact ⟨h1, h2, h3⟩
    · simp only [reshapeFlat, Option.some.injEq] at hr; exact hr.symm
    · simp only [Option.some.injEq] at hr; exact hr.symm
  · intro pk ak hp
    have h0 := (ptrFails_nil_iff _ _).mp hfp pk
    have hp' : x.ptr pk = some ak := hp
    simp only [ptrBad, hp'] at h0
    simp only
    cases hj : (arrOut (some (calcNbf b.centers b.atomMap)) x ak).join with
    | none => rw [hj] at h0; simp at h0
    | some v => exact ⟨v, rfl⟩

theorem validateWfn_idem (x y : Wfn BasisIn) (h : validateWfn x = .ok y) : validateWfn y = .ok y := by
  obtain ⟨b, b', hb, hv, hr, hfa, hfp, rfl⟩ := (validateWfn_ok_iff x y).mp h
  have hv' := validateBasis_idem b b' hv
  -- arrays: the output of each validator is a fixed point of that validator
  have harr : ∀ k, arrOut b'.nbf
      ({ restricted := x.restricted, basis := some b', arr := fun k => (arrOut b'.nbf x k).join, ptr := x.ptr } : Wfn BasisIn) k
      = ((arrOut b'.nbf x k).join).map some := by
    intro k
    simp only [arrOut]
    cases hj : ((x.arr k).map (applyArrRule b'.nbf (arrRule k.base))).join with
    | none => rfl
    | some s' =>
      have : ∃ s, x.arr k = some s ∧ applyArrRule b'.nbf (arrRule k.base) s = some s' := by
        cases hx : x.arr k with
        | none => simp [hx] at hj
        | some s => simp only [hx, Option.map_some, Option.join_some] at hj; exact ⟨s, rfl, hj⟩
      obtain ⟨s, _, hs⟩ := this
      simp [applyArrRule_idem hs]
  refine (validateWfn_ok_iff _ _).mpr ⟨b', b', rfl, hv', hr, ?_, ?_, ?_⟩
  · apply (arrFails_nil_iff _ _).mpr
    intro k
    rw [harr]
    cases (arrOut b'.nbf x k).join <;> simp
  · apply (ptrFails_nil_iff _ _).mpr
    intro pk
    have h0 := (ptrFails_nil_iff _ _).mp hfp pk
    simp only [ptrBad] at h0 ⊢
    cases hp : x.ptr pk with
    | none => rfl
    | some ak =>
      simp only [hp] at h0 ⊢
      rw [harr]
      cases hj : (arrOut b'.nbf x ak).join with
      | none => rw [hj] at h0; simp at h0
      | some _ => rfl
  · apply Wfn.ext'
    · rfl
    · rfl
    · intro k
      simp only
      rw [harr]
      cases (arrOut b'.nbf x k).join <;> rfl
    · intro _; rfl

/-! ## stdout, native files, trajectory -/

theorem stdout_keeps {α : Type} (keep : Bool) (v : Option α) :
    (keep = true → stdoutProtocol keep v = v) ∧ (keep = false → stdoutProtocol keep v = none) ∧
    stdoutProtocol keep (stdoutProtocol keep v) = stdoutProtocol keep v := by
  cases keep <;> simp [stdoutProtocol]

/-- native files: `all` returns the dict unchanged, `none` the empty dict, `input` exactly the entry
"input" (id 0) with its supplied content (`None` if there was none); each policy is idempotent. -/
theorem native_keeps {γ : Type} (f : Files γ) :
    nativeProtocol .all f = f ∧ nativeProtocol .none f = [] ∧
    nativeProtocol .input f = [(0, filesGet f 0)] ∧
    (∀ p, nativeProtocol p (nativeProtocol p f) = nativeProtocol p f) := by
  refine ⟨rfl, rfl, rfl, ?_⟩
  intro p
  cases p <;> simp [nativeProtocol, filesGet]

theorem nativeField_idem {γ : Type} (p : NativePolicy) (f : Option (Files γ)) :
    nativeField p (some (nativeField p f)) = nativeField p f := by
  simp only [nativeField, Option.getD_some]
  exact (native_keeps (f.getD [])).2.2.2 p

theorem lastOf_mem {α : Type} : ∀ (x : α) (l : List α), lastOf x l = (x :: l).getLast (by simp)
  | x, [] => rfl
  | x, y :: ys => by
    rw [List.getLast_cons (by simp : y :: ys ≠ [])]
    simp only [lastOf]
    exact lastOf_mem y ys

/-- what each trajectory policy selects -/
theorem trajectory_selects {α : Type} (x : α) (l : List α) :
    (∀ v : List α, trajectoryProtocol .all v = v ∧ trajectoryProtocol .none v = []) ∧
    trajectoryProtocol .final ([] : List α) = [] ∧
    trajectoryProtocol .initial_and_final ([] : List α) = [] ∧
    trajectoryProtocol .final (x :: l) = [(x :: l).getLast (by simp)] ∧
    trajectoryProtocol .initial_and_final [x] = [x] ∧
    (l ≠ [] → trajectoryProtocol .initial_and_final (x :: l) = [x, (x :: l).getLast (by simp)]) := by
  refine ⟨fun v => ⟨rfl, rfl⟩, rfl, rfl, ?_, rfl, ?_⟩
  · cases l with
    | nil => rfl
    | cons y ys =>
      have : (x :: y :: ys).length > 1 := by simp
      simp only [trajectoryProtocol, this, if_true, lastOf_mem]
  · intro hl
    cases l with
    | nil => exact absurd rfl hl
    | cons y ys =>
      cases ys with
      | nil => rfl
      | cons z zs =>
        have : (x :: y :: z :: zs).length > 2 := by simp
        simp only [trajectoryProtocol, this, if_true, lastOf_mem]

theorem lastOf_sublist {α : Type} : ∀ (x : α) (l : List α), [lastOf x l].Sublist (x :: l)
  | x, [] => List.Sublist.refl _
  | x, y :: ys => by
    simp only [lastOf]
    exact List.Sublist.cons x (lastOf_sublist y ys)

/-- Whatever a trajectory policy returns is a sub-list of the trajectory: the function is total (no
exception on the empty trajectory) and never repeats a step. -/
theorem trajectory_sublist {α : Type} (p : TrajPolicy) (v : List α) : (trajectoryProtocol p v).Sublist v := by
  cases p with
  | all => exact List.Sublist.refl _
  | none => exact List.nil_sublist _
  | initial_and_final =>
    simp only [trajectoryProtocol]
    split
    · cases v with
      | nil => exact List.Sublist.refl _
      | cons x xs =>
        cases xs with
        | nil => rename_i h; simp at h
        | cons y ys =>
          simp only [lastOf]
          exact List.Sublist.cons_cons x (lastOf_sublist y ys)
    · exact List.Sublist.refl _
  | final =>
    simp only [trajectoryProtocol]
    split
    · cases v with
      | nil => exact List.Sublist.refl _
      | cons x xs => exact lastOf_sublist x xs
    · exact List.Sublist.refl _

/-- every trajectory policy is idempotent (on any list, including the empty one) -/
theorem trajectory_idempotent {α : Type} (p : TrajPolicy) (v : List α) :
    trajectoryProtocol p (trajectoryProtocol p v) = trajectoryProtocol p v := by
  cases p with
  | all => rfl
  | none => rfl
  | initial_and_final =>
    simp only [trajectoryProtocol]
    split
    · cases v with
      | nil => rfl
      | cons x xs => simp
    · simp
  | final =>
    simp only [trajectoryProtocol]
    split
    · cases v with
      | nil => rfl
      | cons x xs => simp
    · simp

-- tests
example : trajectoryProtocol .initial_and_final [0, 1, 2, 3, 4] = [0, 4] := by decide
example : trajectoryProtocol .initial_and_final [7] = [7] := by decide
example : trajectoryProtocol .final ([] : List Nat) = [] := by decide

/-! ## the whole AtomicResult: validating the dumped object again changes nothing -/

theorem validateProps_idem (p o : PropsIn) (h : validateProps p = .ok o) : validateProps o = .ok o := by
  obtain ⟨hf, rfl⟩ := (validateProps_ok_iff p o).mp h
  have hne := (propFails_nil_iff p).mp hf
  have hout : ∀ k, propOut ({ natom := p.natom, arr := fun k => (propOut p k).join } : PropsIn) k
      = ((propOut p k).join).map some := by
    intro k
    simp only [propOut]
    cases hj : ((p.arr k).map (applyPropRule p.natom (propRule k))).join with
    | none => rfl
    | some s' =>
      have : ∃ s, p.arr k = some s ∧ applyPropRule p.natom (propRule k) s = some s' := by
        cases hx : p.arr k with
        | none => simp [hx] at hj
        | some s => simp only [hx, Option.map_some, Option.join_some] at hj; exact ⟨s, rfl, hj⟩
      obtain ⟨s, _, hs⟩ := this
      simp [applyPropRule_idem hs]
  refine (validateProps_ok_iff _ _).mpr ⟨(propFails_nil_iff _).mpr ?_, ?_⟩
  · intro k
    rw [hout]
    cases (propOut p k).join <;> simp
  · apply PropsIn.ext'
    · rfl
    · intro k
      simp only
      rw [hout]
      cases (propOut p k).join <;> rfl

/-- validation keeps a fixed point of the protocol a fixed point (it only changes shapes and fills `nbf`) -/
theorem closed_validate (p : WfnProto) (x y : Wfn BasisIn) (h : validateWfn x = .ok y) (hc : Closed p x) :
    Closed p y := by
  obtain ⟨b, b', _, _, _, hfa, _, rfl⟩ := (validateWfn_ok_iff x y).mp h
  have hpres := validated_arr_presence hfa
  have hsome : ∀ k v, (arrOut b'.nbf x k).join = some v → ∃ v0, x.arr k = some v0 := by
    intro k v hv
    cases hx : x.arr k with
    | some v0 => exact ⟨v0, rfl⟩
    | none => rw [(hpres k).2 hx] at hv; cases hv
  obtain ⟨r, hr, hnb⟩ := hc.restricted
  refine ⟨⟨r, hr, ?_⟩, ?_⟩
  · intro hrt
    obtain ⟨h1, h2⟩ := hnb hrt
    exact ⟨fun k hk => (hpres k).2 (h1 k hk), h2⟩
  · intro keep hk
    obtain ⟨hc1, hc2⟩ := hc.keep keep hk
    constructor
    · intro pk ak hpa
      obtain ⟨h1, v, hv⟩ := hc1 pk ak hpa
      exact ⟨h1, (hpres ak).1 v hv⟩
    · intro ak v hv
      obtain ⟨v0, hv0⟩ := hsome ak v hv
      exact hc2 ak v0 hv0

/-- the `wavefunction` field as a whole is idempotent -/
theorem wfnField_idem (p : WfnProto) (w w' : Option (Wfn BasisIn)) (h : wfnField p w = .ok w') :
    wfnField p w' = .ok w' := by
  cases w with
  | none => simp only [wfnField, Except.ok.injEq] at h; subst h; rfl
  | some x =>
    simp only [wfnField] at h
    cases hp : wfnProtocol p x with
    | error e => rw [hp] at h; cases h
    | ok o =>
      rw [hp] at h
      cases o with
      | none => simp only [Except.ok.injEq] at h; subst h; rfl
      | some x1 =>
        simp only at h
        cases hv : validateWfn x1 with
        | error e => rw [hv] at h; cases e <;> cases h
        | ok x2 =>
          rw [hv] at h
          simp only [Except.ok.injEq] at h; subst h
          have hpn : p ≠ .none := by
            intro hpn; subst hpn
            cases hr : x.restricted with
            | none => rw [wfnProtocol_no_restricted _ x hr] at hp; cases hp
            | some r => rw [wfnProtocol_none x r hr] at hp; cases hp
          have hc := closed_validate p x1 x2 hv (closed_of_protocol p x x1 hp)
          simp only [wfnField, protocol_of_closed p hpn x2 hc, validateWfn_idem x1 x2 hv]

theorem atomicResult_ok_iff {γ σ : Type} (i : ARIn γ σ) (o : AROut γ σ) :
    atomicResult i = .ok o ↔
      ∃ p w r, validateProps i.props = .ok p ∧ wfnField i.wp i.wfn = .ok w ∧ validateRR i.driver i.rr = some r ∧
        o = { props := p, wfn := w, rr := r, stdout := stdoutProtocol i.so i.stdout,
              native := nativeField i.nf i.native } := by
  unfold atomicResult
  cases hw : wfnField i.wp i.wfn with
  | error e =>
    cases e <;> simp
  | ok w =>
    cases hp : validateProps i.props with
    | error l => simp
    | ok p =>
      cases hr : validateRR i.driver i.rr with
      | none => simp
      | some r => simp [eq_comm]

/-- the dumped object, fed back with the same protocols and driver (`.dict()` always contains
`native_files`, so the field is supplied the second time) -/
def AROut.toInput {γ σ : Type} (o : AROut γ σ) (i : ARIn γ σ) : ARIn γ σ :=
  { i with props := o.props, wfn := o.wfn, rr := o.rr, stdout := o.stdout, native := some o.native }

/-- **Re-validation is the identity**: an accepted `AtomicResult`, dumped and validated again under the same
protocols and driver, is accepted and is the same object — shapes, retained wavefunction keys, pointers,
`nbf`, stdout, native files.  No side condition. -/
theorem atomicResult_revalidate {γ σ : Type} (i : ARIn γ σ) (o : AROut γ σ) (h : atomicResult i = .ok o) :
    atomicResult (o.toInput i) = .ok o := by
  obtain ⟨p, w, r, hp, hw, hr, rfl⟩ := (atomicResult_ok_iff i o).mp h
  refine (atomicResult_ok_iff _ _).mpr ⟨p, w, r, validateProps_idem _ _ hp, wfnField_idem _ _ _ hw,
    validateRR_idem hr, ?_⟩
  simp only [AROut.toInput, (stdout_keeps i.so i.stdout).2.2, nativeField_idem]

/-- the policy `input` on an unsupplied `native_files` yields the placeholder already at first construction
(the validator is `always=True`), which is why re-validation is the identity without a side condition -/
example : nativeField (γ := Unit) .input none = [(0, none)] := rfl

-- non-vacuity of `atomicResult_revalidate`: a gradient job with a flat gradient, a flat dipole, a restricted
-- wavefunction filtered by `orbitals_and_eigenvalues`, stdout dropped, native files reduced to the input
def exBasis : BasisIn := { centers := [⟨0, [⟨.spherical, [0], 1, [1]⟩, ⟨.cartesian, [1], 1, [1]⟩]⟩], atomMap := [0], nbf := none }
def exAR : ARIn Unit Unit :=
  { wp := .orbitals_and_eigenvalues, so := false, nf := .input, driver := .gradient,
    props := { natom := some 2, arr := fun k => if k = .return_gradient then some [6] else if k = .scf_dipole_moment then some [3, 1] else none },
    wfn := some { restricted := some true, basis := some exBasis,
                  arr := fun k => if k = ⟨.scf_orbitals, .a⟩ then some [16] else if k = ⟨.scf_fock, .b⟩ then some [5] else none,
                  ptr := fun k => if k = ⟨.orbitals, .a⟩ then some ⟨.scf_orbitals, .a⟩ else none },
    rr := .arr [6], stdout := some (), native := some [(1, some ()), (0, some ())] }

example : ∃ o, atomicResult exAR = .ok o ∧ o.rr = .arr [2, 3] ∧ o.stdout = none ∧ o.native = [(0, some ())] ∧
    o.props.arr .return_gradient = some [2, 3] ∧ o.props.arr .scf_dipole_moment = some [3] ∧
    (∃ w, o.wfn = some w ∧ w.arr ⟨.scf_orbitals, .a⟩ = some [4, 4] ∧ w.arr ⟨.scf_fock, .b⟩ = none ∧
      w.basis.bind (·.nbf) = some 4) :=
  ⟨_, rfl, by decide, rfl, rfl, by decide, by decide, _, rfl, by decide, by decide, by decide⟩

end QcelVerif.Protocols
