import QcelVerif.Lemmas.MunkresSrc.Step136
import QcelVerif.Lemmas.MunkresSrc.Step4
import QcelVerif.Lemmas.MunkresSrc.Step5
import QcelVerif.Props.C14Exact
/-!
C14 — the solver REGENERATED FROM THE SOURCE equals the hand-written model.

`Gen/MunkresSrc.lean` is written by `harness/c14_src.py` from `qcelemental/util/scipy_hungarian.py`
on every run (one array-statement term per step function, the constants of `_Hungary`, the statements
of `linear_sum_assignment`); `Model/MunkresAst.lean` evaluates those terms over the model's state type
with a rounding parameter at every `+`/`-` of the work matrix.  This file proves, for ALL states, all
rounding functions and every fuel, that

* each source-derived step function is the model's step (`Model/Munkres.lean`), and — with rounding —
  performs exactly the operations, in the order, that `Model/MunkresFloat.lean` had read off by hand;
* the source-derived `while step is not None` loop is the model's `runSteps` / `runStepsF`;
* the source-derived `linear_sum_assignment` (validation, transposition test, `_Hungary`, first step,
  loop, un-transposition, read-out) is the model's `solve` / `solveFloat`;

and restates total correctness, refusal and the exactness of the float64 / int64 / uint64 runs over
the source-derived solver.  All five steps are reached: nothing here is partial.
-/
namespace QcelVerif.MunkresAst
open QcelVerif.Munkres QcelVerif.Assign QcelVerif.Gen.MunkresSrc

/-- **every step, work dtype**: for all states and rounding functions the source-derived `_stepN`
is the step of `Model/MunkresFloat.lean` (same state, same next-step label, same error). -/
theorem doStep_src_float (rnd : Rat → Rat) (st : Step) (s : State) :
    prog.doStep rnd st s = doStepF rnd st s := by
  cases st
  · exact step1_src rnd s
  · exact step3_src rnd s
  · exact step4_src rnd s
  · exact step5_src rnd s
  · exact step6_src rnd s

theorem step1F_id (s : State) : step1F id s = Munkres.step1 s := rfl
theorem step6F_id (s : State) : step6F id s = Munkres.step6 s := rfl

/-- **every step, exact arithmetic**: with `rnd = id` the source-derived `_stepN` is the step of
`Model/Munkres.lean`. -/
theorem doStep_src (st : Step) (s : State) : prog.doStep id st s = doStep st s := by
  rw [doStep_src_float]
  cases st <;> simp only [doStepF, doStep, step1F_id, step6F_id]

/-- **the state machine**: the source-derived `while step is not None: step = step(state)` equals the
model's, for every fuel, start label, state and trace prefix. -/
theorem runSteps_src_float (rnd : Rat → Rat) :
    ∀ (f : Nat) (st : Step) (s : State) (tr : Array (Step × State)),
      prog.runSteps rnd f st s tr = runStepsF rnd f st s tr := by
  intro f
  induction f with
  | zero => intro st s tr; rfl
  | succ f ih =>
    intro st s tr
    simp only [Prog.runSteps, runStepsF, doStep_src_float]
    cases h : doStepF rnd st s with
    | error e => rfl
    | ok r =>
      obtain ⟨s', nx⟩ := r
      cases nx with
      | none => rfl
      | some st' => simp only [ih]

theorem runSteps_src :
    ∀ (f : Nat) (st : Step) (s : State) (tr : Array (Step × State)),
      prog.runSteps id f st s tr = runSteps f st s tr := by
  intro f
  induction f with
  | zero => intro st s tr; rfl
  | succ f ih =>
    intro st s tr
    simp only [Prog.runSteps, runSteps, doStep_src]
    cases h : doStep st s with
    | error e => rfl
    | ok r =>
      obtain ⟨s', nx⟩ := r
      cases nx with
      | none => rfl
      | some st' => simp only [ih]

theorem init_src (n m : Nat) (cost : Mat Rat) : prog.init.state n m cost = initState n m cost := rfl

theorem nonzeroEq_one (M : Mat Nat) : nonzeroEq 1 M = starPairs M := rfl

/-- the statements of `linear_sum_assignment` up to and including the transposition test -/
theorem head_src (rnd : Rat → Rat) (inp : Input) (fuelOf : Nat → Nat → Nat) (rest : List PStmt) (p : PState) :
    evalMain prog rnd inp fuelOf
      (.asarray :: .raiseIfNdimNe 2 .ndim :: .raiseIfNotNumeric .dtype :: .raiseIfAnyNonfinite .nonfinite ::
        .widenDtype :: .transposeIf 1 .lt 0 :: rest) p =
      if inp.ndim != 2 then .error .ndim
      else if inp.dt = .other then .error .dtype
      else if !inp.allFinite then .error .nonfinite
      else if p.m < p.n then
        evalMain prog rnd inp fuelOf rest { p with cost := transpose p.n p.m p.cost, n := p.m, m := p.n, transposed := true }
      else evalMain prog rnd inp fuelOf rest { p with transposed := false } := by
  simp only [evalMain, PStmt.eval]
  by_cases h1 : (inp.ndim != 2) = true
  · simp only [h1, if_true]
  by_cases h2 : inp.dt = .other
  · simp only [h1, h2, if_true]
    simp
  by_cases h3 : (!inp.allFinite) = true
  · simp only [h1, h2, h3, if_true]
    simp
  simp only [h1, h2, h3, if_false, Bool.false_eq_true]
  by_cases h4 : p.m < p.n
  · simp [Cmp.eval, h4]
  · simp [Cmp.eval, h4]

/-- lines 113-120 from the source-derived program, on `fuelOf n m` step calls -/
def srcWide (rnd : Rat → Rat) (fuelOf : Nat → Nat → Nat) (n m : Nat) (cost : Mat Rat) :
    Except Err (State × Array (Step × State)) :=
  if n == 0 || m == 0 then .ok (initState n m cost, #[])
  else prog.runSteps rnd (fuelOf n m) .s1 (initState n m cost) #[]

/-- the statements after the transposition test: `_Hungary`, the first step, the loop, the
un-transposition and the read-out -/
theorem tail_gen (rnd : Rat → Rat) (inp : Input) (fuelOf : Nat → Nat → Nat) (p : PState) (ht : p.trace = #[]) :
    evalMain prog rnd inp fuelOf [.mkState, .firstStep true .s1, .loop, .untransposeIf, .retNonzeroEq 1] p =
      match srcWide rnd fuelOf p.n p.m p.cost with
      | .error e => .error e
      | .ok (s, tr) =>
        if p.transposed then
          .ok { n := p.m, m := p.n, pairs := starPairs (transpose p.n p.m s.marked), red := transpose p.n p.m s.C,
                trace := tr }
        else .ok { n := p.n, m := p.m, pairs := starPairs s.marked, red := s.C, trace := tr } := by
  simp only [evalMain, PStmt.eval, srcWide, init_src, nonzeroEq_one]
  by_cases h5 : (p.n == 0 || p.m == 0) = true
  · simp only [h5, Bool.and_self, if_true]
    cases p.transposed <;> simp [ht]
  · simp only [h5, Bool.and_false, Bool.false_eq_true, if_false]
    cases prog.runSteps rnd (fuelOf p.n p.m) Step.s1 (initState p.n p.m p.cost) #[] with
    | error e => rfl
    | ok r => cases p.transposed <;> simp

theorem srcWide_stepFuel (rnd : Rat → Rat) (n m : Nat) (cost : Mat Rat) :
    srcWide rnd stepFuel n m cost = solveWideF rnd n m cost := by
  simp only [srcWide, solveWideF, runSteps_src_float]

theorem main_split : prog.main = .asarray :: .raiseIfNdimNe 2 .ndim :: .raiseIfNotNumeric .dtype ::
    .raiseIfAnyNonfinite .nonfinite :: .widenDtype :: .transposeIf 1 .lt 0 ::
    [.mkState, .firstStep true .s1, .loop, .untransposeIf, .retNonzeroEq 1] := rfl

/-- the source-derived `linear_sum_assignment` on any fuel, in closed form -/
theorem solveWith_src (rnd : Rat → Rat) (fuelOf : Nat → Nat → Nat) (inp : Input) :
    prog.solveWith fuelOf rnd inp =
      if inp.ndim != 2 then .error .ndim
      else if inp.dt = .other then .error .dtype
      else if !inp.allFinite then .error .nonfinite
      else
        let cost : Mat Rat := inp.ent.map fun r => r.map Entry.val
        if inp.m < inp.n then
          match srcWide rnd fuelOf inp.m inp.n (transpose inp.n inp.m cost) with
          | .error e => .error e
          | .ok (s, tr) =>
            .ok { n := inp.n, m := inp.m, pairs := starPairs (transpose inp.m inp.n s.marked), red := transpose inp.m inp.n s.C, trace := tr }
        else
          match srcWide rnd fuelOf inp.n inp.m cost with
          | .error e => .error e
          | .ok (s, tr) => .ok { n := inp.n, m := inp.m, pairs := starPairs s.marked, red := s.C, trace := tr } := by
  unfold Prog.solveWith
  rw [main_split, head_src]
  by_cases h1 : (inp.ndim != 2) = true
  · rw [if_pos h1, if_pos h1]
  rw [if_neg h1, if_neg h1]
  by_cases h2 : inp.dt = .other
  · rw [if_pos h2, if_pos h2]
  rw [if_neg h2, if_neg h2]
  by_cases h3 : (!inp.allFinite) = true
  · rw [if_pos h3, if_pos h3]
  rw [if_neg h3, if_neg h3]
  simp only
  by_cases h4 : inp.m < inp.n
  · rw [if_pos h4, if_pos h4, tail_gen _ _ _ _ rfl]
    cases srcWide rnd fuelOf inp.m inp.n (transpose inp.n inp.m (inp.ent.map fun r => r.map Entry.val)) with
    | error e => rfl
    | ok r => rfl
  · rw [if_neg h4, if_neg h4, tail_gen _ _ _ _ rfl]
    cases srcWide rnd fuelOf inp.n inp.m (inp.ent.map fun r => r.map Entry.val) with
    | error e => rfl
    | ok r => rfl

/-- **the whole function, work dtype**: the source-derived `linear_sum_assignment(cost, return_cost=True)`
equals `solveFloat rnd` (same refusals, same trace, pairs, reduced matrix), for every input. -/
theorem solve_src_float (rnd : Rat → Rat) (inp : Input) : prog.solve rnd inp = solveFloat rnd inp := by
  unfold Prog.solve solveFloat
  rw [solveWith_src]
  simp only [srcWide_stepFuel]
  rfl

/-! ### the driver's smaller fuel -/

/-- more fuel never changes an answer of the state machine -/
theorem runSteps_mono (p : Prog) (rnd : Rat → Rat) : ∀ (f k : Nat) (st : Step) (s : State) (tr : Array (Step × State))
    (r : State × Array (Step × State)), p.runSteps rnd f st s tr = .ok r → p.runSteps rnd (f + k) st s tr = .ok r := by
  intro f
  induction f with
  | zero => intro k st s tr r h; simp [Prog.runSteps] at h
  | succ f ih =>
    intro k st s tr r h
    rw [Nat.add_right_comm]
    simp only [Prog.runSteps] at h ⊢
    cases hd : p.doStep rnd st s with
    | error e => rw [hd] at h; simp at h
    | ok q =>
      obtain ⟨s', nx⟩ := q
      rw [hd] at h
      cases nx with
      | none => exact h
      | some st' => exact ih k st' s' _ r h

theorem srcWide_mono (rnd : Rat → Rat) (f1 f2 : Nat → Nat → Nat) (hle : ∀ n m, f1 n m ≤ f2 n m) (n m : Nat)
    (cost : Mat Rat) (r : State × Array (Step × State)) (h : srcWide rnd f1 n m cost = .ok r) :
    srcWide rnd f2 n m cost = .ok r := by
  unfold srcWide at h ⊢
  by_cases h0 : (n == 0 || m == 0) = true
  · rw [if_pos h0] at h ⊢; exact h
  · rw [if_neg h0] at h ⊢
    obtain ⟨k, hk⟩ := Nat.exists_eq_add_of_le (hle n m)
    rw [hk]
    exact runSteps_mono prog rnd _ k _ _ _ r h

/-- **the driver's run is the solver's run**: whenever the source-derived solver answers on the driver's
fuel `capFuel` (what ops `TS`/`FS` of `Driver/C14.lean` execute), `Prog.solve` — the object of the theorems of
this file — returns the same answer. -/
theorem solveCapped_ok (rnd : Rat → Rat) (inp : Input) (o : Output) (h : prog.solveCapped rnd inp = .ok o) :
    prog.solve rnd inp = .ok o := by
  unfold Prog.solveCapped at h
  unfold Prog.solve
  rw [solveWith_src] at h ⊢
  have hle : ∀ n m, capFuel n m ≤ stepFuel n m := fun n m => Nat.min_le_right _ _
  by_cases h1 : (inp.ndim != 2) = true
  · rw [if_pos h1] at h ⊢; exact h
  rw [if_neg h1] at h ⊢
  by_cases h2 : inp.dt = .other
  · rw [if_pos h2] at h ⊢; exact h
  rw [if_neg h2] at h ⊢
  by_cases h3 : (!inp.allFinite) = true
  · rw [if_pos h3] at h ⊢; exact h
  rw [if_neg h3] at h ⊢
  simp only at h ⊢
  by_cases h4 : inp.m < inp.n
  · rw [if_pos h4] at h ⊢
    cases hc : srcWide rnd capFuel inp.m inp.n (transpose inp.n inp.m (inp.ent.map fun r => r.map Entry.val)) with
    | error e => rw [hc] at h; simp at h
    | ok r => rw [hc] at h; rw [srcWide_mono rnd capFuel stepFuel hle _ _ _ r hc]; exact h
  · rw [if_neg h4] at h ⊢
    cases hc : srcWide rnd capFuel inp.n inp.m (inp.ent.map fun r => r.map Entry.val) with
    | error e => rw [hc] at h; simp at h
    | ok r => rw [hc] at h; rw [srcWide_mono rnd capFuel stepFuel hle _ _ _ r hc]; exact h

/-- TEST (non-vacuity): the docstring example is answered on the driver's fuel -/
example : (match prog.solveCapped id exInput with | .ok _ => true | .error _ => false) = true := by decide +kernel

theorem runStepsF_id (f : Nat) (st : Step) (s : State) (tr : Array (Step × State)) :
    runStepsF id f st s tr = runSteps f st s tr := by
  rw [← runSteps_src_float, runSteps_src]

theorem solveFloat_id (inp : Input) : solveFloat id inp = Munkres.solve inp := by
  unfold solveFloat Munkres.solve solveWideF solveWide
  simp only [runStepsF_id]
  rfl

/-- **the whole function, exact arithmetic**: the source-derived `linear_sum_assignment` is the model's
`solve` — for every input (valid or not, any shape), same refusal or same trace, pairs and reduced matrix. -/
theorem solve_src (inp : Input) : prog.solve id inp = Munkres.solve inp := by
  rw [solve_src_float, solveFloat_id]

/-! ### the property theorems over the source-derived solver -/

/-- **TOTAL CORRECTNESS of the source-derived solver** (`solve_correct` restated): for every valid
well-shaped cost matrix the program regenerated from `scipy_hungarian.py` returns an answer, and it is a
complete assignment, rows increasing, of minimum total cost over all complete assignments; every optimum
lies on the zeros of the reduced matrix, which is non-negative, zero on the pairs and `cost - u_i - v_j`. -/
theorem solve_src_correct (inp : Input) (hw : inp.WellShaped) (h2 : inp.ndim = 2) (hdt : inp.dt ≠ .other)
    (hfin : inp.allFinite = true) :
    ∃ o, prog.solve id inp = .ok o
    ∧ IsAssign inp.n inp.m o.pairs
    ∧ (o.pairs.map Prod.fst).Pairwise (· < ·)
    ∧ (∀ τ, IsAssign inp.n inp.m τ → total inp.costFn o.pairs ≤ total inp.costFn τ)
    ∧ (∀ τ, IsAssign inp.n inp.m τ → total inp.costFn τ ≤ total inp.costFn o.pairs →
        ∀ p ∈ τ, matFn o.red p.1 p.2 = 0)
    ∧ (∀ i < inp.n, ∀ j < inp.m, 0 ≤ matFn o.red i j)
    ∧ (∀ p ∈ o.pairs, matFn o.red p.1 p.2 = 0)
    ∧ ∃ u v : Nat → Rat, ∀ i < inp.n, ∀ j < inp.m, matFn o.red i j = inp.costFn i j - u i - v j := by
  rw [solve_src]
  exact solve_correct inp hw h2 hdt hfin

/-- TEST (non-vacuity): the docstring example and the tall example satisfy the hypotheses -/
example : exInput.WellShaped ∧ exInput.ndim = 2 ∧ exInput.dt ≠ .other ∧ exInput.allFinite = true := by
  refine ⟨by unfold Input.WellShaped; decide, by decide, by decide, by decide +kernel⟩
example : exTall.WellShaped ∧ exTall.ndim = 2 ∧ exTall.dt ≠ .other ∧ exTall.allFinite = true := by
  refine ⟨by unfold Input.WellShaped; decide, by decide, by decide, by decide +kernel⟩

/-- **refusal** (`solve_refuses_bad` restated) for every rounding function: not 2-d, non-numeric, or an
inf/nan entry → the source-derived solver returns the corresponding error, never an answer. -/
theorem solve_src_refuses_bad (rnd : Rat → Rat) (inp : Input)
    (h : inp.ndim ≠ 2 ∨ inp.dt = .other ∨ ∃ r ∈ inp.ent.toList, ∃ e ∈ r.toList, e.isFinite = false) :
    ∃ e, prog.solve rnd inp = .error e ∧ (e = .ndim ∨ e = .dtype ∨ e = .nonfinite) := by
  rw [solve_src_float]
  unfold solveFloat
  by_cases h1 : inp.ndim = 2
  · by_cases h2 : inp.dt = .other
    · exact ⟨.dtype, by simp [h1, h2], by simp⟩
    · have h3 : inp.allFinite = false := by
        rcases h with h | h | ⟨r, hr, e, he, hf⟩
        · exact absurd h1 h
        · exact absurd h h2
        · unfold Input.allFinite
          rw [Bool.eq_false_iff]
          intro hall
          have := List.all_eq_true.1 (List.all_eq_true.1 hall r hr) e he
          rw [hf] at this
          exact Bool.false_ne_true this
      refine ⟨.nonfinite, ?_, by simp⟩
      simp [h1, h2, h3]
  · exact ⟨.ndim, by simp [h1], by simp⟩

/-- TEST (non-vacuity of the three refusal branches, on the source-derived solver) -/
example : errOf (prog.solve id { ndim := 2, n := 1, m := 2, dt := .float, ent := #[#[.fin 1, .posInf]] }) = some .nonfinite := by
  decide +kernel
example : errOf (prog.solve id { ndim := 1, n := 0, m := 0, dt := .float, ent := #[] }) = some .ndim := by decide +kernel
example : errOf (prog.solve id { ndim := 2, n := 1, m := 1, dt := .other, ent := #[] }) = some .dtype := by decide +kernel

/-- TEST (non-vacuity): a 1-d input satisfies the hypothesis -/
example : ({ ndim := 1, n := 0, m := 0, dt := .float, ent := #[] } : Input).ndim ≠ 2 := by decide

/-- **the work dtype, from the source** (`float64_exact_run`, `no_overflow_int64`, `no_overflow_uint64`
restated): the source-derived solver run with IEEE round-to-nearest-even / int64 / uint64 wrap-around at
every `+`/`-` the SOURCE performs on `state.C` (in source order) equals its exact run, for integer entries
within the bounds of `Props/C14Exact.lean`. -/
theorem solve_src_float64_exact (inp : Input) (hw : inp.WellShaped) (M : Rat) (hI : inp.IntBounded M)
    (hB : boundB M inp.n inp.m ≤ 2 ^ 53) : prog.solve Hash.rndDouble inp = prog.solve id inp := by
  rw [solve_src_float, solve_src]
  exact float64_exact_run inp hw M hI hB

/-- TEST (non-vacuity): the docstring example satisfies the hypotheses of the three theorems around, and the
source-derived runs of it in float64 / int64 reach step 6 and agree with the exact one -/
example : exInput.WellShaped ∧ exInput.IntBounded 5 ∧ boundB 5 exInput.n exInput.m ≤ 2 ^ 53 := by
  refine ⟨by unfold Input.WellShaped; decide, ?_, by norm_num [boundB]⟩
  have hb := intBoxB_sound exInput (-5) 5 (by decide +kernel)
  intro i hi j hj
  exact ⟨isInt_iff_grid.2 (hb.grid i hi j hj), abs_le.2 ⟨hb.lo_le i hi j hj, hb.le_hi i hi j hj⟩⟩
example : (match prog.solve Hash.rndDouble exInput, prog.solve wrapInt64 exInput, prog.solve id exInput with
    | .ok a, .ok b, .ok c => a.pairs == c.pairs && a.red == c.red && b.red == c.red
        && a.trace.size == c.trace.size && c.trace.any (·.1 == .s6) && c.trace.any (·.1 == .s5)
    | _, _, _ => false) = true := by decide +kernel

theorem solve_src_int64_exact (inp : Input) (hw : inp.WellShaped) (M : Rat) (hI : inp.IntBounded M)
    (hB : boundB M inp.n inp.m < 2 ^ 63) : prog.solve wrapInt64 inp = prog.solve id inp := by
  rw [solve_src_float, solve_src]
  exact (no_overflow_int64 inp hw M hI hB).2

theorem solve_src_uint64_exact (inp : Input) (hw : inp.WellShaped) (M : Rat) (hI : inp.IntBounded M)
    (hB : boundB M inp.n inp.m < 2 ^ 64) : prog.solve wrapUInt64 inp = prog.solve id inp := by
  rw [solve_src_float, solve_src]
  exact no_overflow_uint64 inp hw M hI hB

/-- **any grid / rounding pair** (`solveFloat_eq_solve_box` restated) -/
theorem solve_src_box_exact {g lo hi : Rat} (inp : Input) (hw : inp.WellShaped)
    (hb : CostBox g lo hi inp.n inp.m inp.costFn)
    (rnd : Rat → Rat) (hrnd : ∀ x, OnGrid g x → 0 ≤ x → x ≤ 4 * (hi - lo) → rnd x = x) :
    prog.solve rnd inp = prog.solve id inp := by
  rw [solve_src_float, solve_src]
  exact solveFloat_eq_solve_box inp hw hb rnd hrnd

/-- TEST (non-vacuity), as for `solveFloat_eq_solve_box` -/
example : CostBox 1 0 5 exInput.n exInput.m exInput.costFn
    ∧ ∀ x, OnGrid 1 x → 0 ≤ x → x ≤ 4 * ((5 : Rat) - 0) → Hash.rndDouble x = x :=
  ⟨intBoxB_sound exInput 0 5 (by decide +kernel), fun x hx h0 hK =>
    rndDouble_exact53 x (exact53_of (isInt_iff_grid.2 hx) h0 hK (by norm_num))⟩

end QcelVerif.MunkresAst
