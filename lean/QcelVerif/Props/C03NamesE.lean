import QcelVerif.Lemmas.UnitNamesChk
/-! C03 text level: every listed spelling of these table units resolves to its unit over the regenerated registry names
(kernel evaluation, one table unit per lemma; the collisions are the eight of `collisionTable`).  Helper lemmas for `Props/C03Text.lean`. -/
namespace QcelVerif.Units.Text

theorem sp_au_quadrupole : (spellingsOf (.au .quadrupole)).all chk = true := by decide +kernel
theorem sp_au_force : (spellingsOf (.au .force)).all chk = true := by decide +kernel
theorem sp_au_magDipole : (spellingsOf (.au .magDipole)).all chk = true := by decide +kernel
theorem sp_au_magFlux : (spellingsOf (.au .magFlux)).all chk = true := by decide +kernel
theorem sp_au_magnetizability : (spellingsOf (.au .magnetizability)).all chk = true := by decide +kernel
theorem sp_au_momentum : (spellingsOf (.au .momentum)).all chk = true := by decide +kernel
theorem sp_au_permittivity : (spellingsOf (.au .permittivity)).all chk = true := by decide +kernel
theorem sp_au_time : (spellingsOf (.au .time)).all chk = true := by decide +kernel
theorem sp_au_velocity : (spellingsOf (.au .velocity)).all chk = true := by decide +kernel

end QcelVerif.Units.Text
