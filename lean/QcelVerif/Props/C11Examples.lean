import QcelVerif.Props.C11
/-!
# C11 — non-vacuity: the hypotheses of the property theorems are satisfiable by non-trivial values
(these are examples / tests, not property theorems)
-/
namespace QcelVerif.Hash

/-- a printer satisfying `Params.Ok` exists (sign character + digits; `num/den` for bond orders):
the injectivity assumptions are consistent -/
def demoParams : Params (List Char) :=
  { massOf := fun _ => .val 1
    fl := id
    reprF := fun _ r => (if r.neg then '-' else '+') :: showNat r.mag
    reprB := fun q => showInt q.num ++ ('/' :: showNat q.den)
    sha1 := id }

theorem demoParams_ok : demoParams.Ok where
  reprF k :=
    { inj := by
        intro a b _ _ h
        simp only [demoParams, List.cons.injEq] at h
        obtain ⟨h1, h2⟩ := h
        have hm := showNat_inj h2
        cases a; cases b
        simp only [Rd.mk.injEq]
        refine ⟨?_, hm⟩
        simp only at h1
        split at h1 <;> split at h1 <;> simp_all
      tok := by
        intro a _ c hc
        simp only [demoParams, List.mem_cons] at hc
        rcases hc with rfl | hc
        · split <;> decide
        · exact isDigit_tokCh (showNat_digits _ c hc)
      ne := by intro a _; simp [demoParams] }
  reprB :=
    { inj := by
        intro a b _ _ h
        simp only [demoParams] at h
        have hp : ∀ z : Int, ∀ c ∈ showInt z, (c != '/') = true := by
          intro z c hc
          cases z with
          | ofNat n =>
            have := showNat_digits n c hc
            simp only [bne_iff_ne, ne_eq]; intro e; subst e; revert this; decide
          | negSucc n =>
            simp only [showInt, List.mem_cons] at hc
            rcases hc with rfl | hc
            · decide
            · have := showNat_digits _ c hc
              simp only [bne_iff_ne, ne_eq]; intro e; subst e; revert this; decide
        have hs : ∀ r : List Char, ∀ c r', ('/' :: r) = c :: r' → (c != '/') = false := by
          intro r c r' e; injection e with e1 _; subst e1; decide
        obtain ⟨h1, h2⟩ := tok_split (hp a.num) (hp b.num) (hs _) (hs _) h
        have e1 := showInt_inj _ _ h1
        have e2 : a.den = b.den := showNat_inj (List.cons.inj h2).2
        exact Rat.ext e1 e2
      tok := by
        intro a _ c hc
        simp only [demoParams, List.mem_append, List.mem_cons] at hc
        rcases hc with hc | rfl | hc
        · exact showInt_tok _ c hc
        · decide
        · exact isDigit_tokCh (showNat_digits _ c hc)
      ne := by intro a _; simp [demoParams] }

/-- a coordinate pair related by admissible noise: 1.5 and 1.5 + 1e-11 -/
example : NoiseClose (.val (3 / 2)) (.val (3 / 2 + 1 / 10 ^ 11)) :=
  ⟨3 / 2, 1 / 10 ^ 11, 150000000, rfl, rfl, by rw [abs_le]; constructor <;> norm_num,
    by rw [abs_le]; constructor <;> norm_num, by rw [abs_le]; constructor <;> norm_num⟩

/-- an entry outside the zero band: 1e-6 bohr = 100 units (band: < 51.2 units) -/
example : NoBand id 8 (.val (1 / 1000000)) := by
  have r : roundTo id 8 (.val (1 / 1000000)) = 100 := by
    unfold roundTo; simp only [Dbl.toRat, id]; exact rint_near _ 100 (by norm_num) (by norm_num)
  intro h
  rw [r] at h
  simp [zeroBand, Rd.ofInt] at h

/-- `FlOk` holds for exact arithmetic (and, by IEEE-754, for the double product when `|y| ≤ 2^45`) -/
example : FlOk demoParams.fl := flOk_id

end QcelVerif.Hash
