import QcelVerif.Props.C15
/-!
# C15 — the per-fragment variants `nelectrons(ifr)` and `nuclear_repulsion_energy(ifr)`

`Props/C15.lean` proves that the per-fragment electron counts add up; `Props/C15Nre.lean` proves
real-only / permutation / rigid invariance of the pair sum on an arbitrary atom list.  This file
states what the *per-fragment* calls compute — for a fragment that may mix real and ghost atoms —
on the executable model (`nelectronsFrag`, `nreMol … (some fr)`, Model/Fragments.lean):

* `nelectrons_fragment` : `nelectrons(ifr)` = Σ Z over the atoms of the fragment flagged real
  − `fragment_charges[ifr]`;
* `nre_fragment` : `nuclear_repulsion_energy(ifr)` = the pair sum over the fragment's real nuclei
  only (ghost atoms of the fragment and all atoms outside it do not enter);
* `nre_append` : the energy of two blocks is the sum of the block energies **plus the
  inter-block term** — so the per-fragment energies do NOT add up to the total
  (`nre_not_additive`, a concrete counter-example; additivity is not part of the property).
-/
namespace QcelVerif.Fragments
open QcelVerif.ChgMult (isum)

/-! ### electrons of one fragment -/

theorem isum_eq_sum (l : List Int) : isum l = l.sum := by
  induction l with
  | nil => rfl
  | cons x t ih => simp [ChgMult.isum_cons, ih]

theorem isum_map_indicator (z : Int) (k : Nat) : ∀ (fr : List Nat), fr.Nodup →
    isum (fr.map (fun i => if i = k then z else 0)) = if fr.contains k then z else 0
  | [], _ => by simp [isum]
  | a :: fr, hnd => by
      rw [List.nodup_cons] at hnd
      rw [List.map_cons, ChgMult.isum_cons, isum_map_indicator z k fr hnd.2]
      by_cases hak : a = k
      · subst hak
        have : fr.contains a = false := by simpa using hnd.1
        have h2 : (a :: fr).contains a = true := by simp
        rw [h2, this]; simp
      · have h1 : (a :: fr).contains k = fr.contains k := by
          simp [Ne.symm hak]
        rw [h1]; simp [hak]

/-- the sum the code forms (`zf for iat, zf in enumerate(Zeff) if iat in fragment`) is the sum
over the listed atoms, for a duplicate-free index list; offset `k` for the induction -/
theorem zeffIn_offset : ∀ (zeff : List Int) (k : Nat) (fr : List Nat), fr.Nodup →
    isum (((zeff.zipIdx k).filter (fun p => fr.contains p.2)).map (·.1)) =
      isum (fr.map (fun i => if k ≤ i then zeff.getD (i - k) 0 else 0))
  | [], k, fr, _ => by
      simp only [List.zipIdx_nil, List.filter_nil, List.map_nil, List.getD_nil, ite_self]
      exact (ChgMult.isum_zeros fr).symm
  | z :: zs, k, fr, hnd => by
      have ih := zeffIn_offset zs (k + 1) fr hnd
      rw [List.zipIdx_cons, isum_filter_map] at *
      rw [List.map_cons, ChgMult.isum_cons]
      rw [← isum_filter_map, ih] at *
      have e : (fun i => if k ≤ i then (z :: zs).getD (i - k) 0 else 0) =
          (fun i => (if i = k then z else 0) + (if k + 1 ≤ i then zs.getD (i - (k + 1)) 0 else 0)) := by
        funext i
        by_cases h1 : i = k
        · subst h1; simp
        · by_cases h2 : k + 1 ≤ i
          · have : i - k = (i - (k + 1)) + 1 := by omega
            have hk : k ≤ i := by omega
            simp [h1, h2, hk, this]
          · have hk : ¬ k ≤ i := by omega
            simp [h1, h2, hk]
      rw [e, ← isum_map_add, isum_map_indicator z k fr hnd]

theorem zeffIn_eq_listed (zeff : List Int) (fr : List Nat) (hnd : fr.Nodup) :
    zeffIn zeff fr = isum (fr.map (fun i => zeff.getD i 0)) := by
  unfold zeffIn
  have := zeffIn_offset zeff 0 fr hnd
  simpa using this

/-- non-vacuity (tests, evaluated): a duplicate-free list; with a duplicate the code's `in` test
counts the atom once while the listed sum counts it twice — the hypothesis is needed -/
example : [2, 0].Nodup ∧ zeffIn [1, 6, 8] [2, 0] = 9 ∧ isum ([2, 0].map (fun i => [1, 6, 8].getD i 0)) = 9 := by decide
example : zeffIn [1, 6, 8] [2, 2] = 8 ∧ isum ([2, 2].map (fun i => ([1, 6, 8] : List Int).getD i 0)) = 16 := by decide

/-- nuclear charge of atom `i` (0 outside the atom list) -/
def zAt {α} (zOf : α → Int) (atoms : List α) (i : Nat) : Int := (atoms[i]?.map zOf).getD 0

theorem zeffList_getD {α} (zOf : α → Int) (atoms : List α) (real : List Bool) (i : Nat) :
    (zeffList zOf atoms real).getD i 0 = if real.getD i false then zAt zOf atoms i else 0 := by
  unfold zeffList zAt
  rw [List.getD_eq_getElem?_getD, List.getElem?_zipWith, List.getD_eq_getElem?_getD]
  cases atoms[i]? <;> cases hr : real[i]? <;> simp [b2i]

/-- **Electrons of one fragment** (a fragment may mix real and ghost atoms).  For a fragment
`fr = fragments[k]` without repeated atom indices and its charge `c = fragment_charges[k]`:
`nelectrons(k)` is the sum of the nuclear charges of those atoms of the fragment that are flagged
real, minus `c`.  Ghost atoms of the fragment and atoms of other fragments do not count. -/
theorem nelectrons_fragment {α} (zOf : α → Int) (mol : Mol α) (k : Nat) (fr : List Nat) (c : Int)
    (hfr : mol.frags[k]? = some fr) (hc : mol.fc[k]? = some c) (hnd : fr.Nodup) :
    nelectronsFrag zOf mol k =
      some (isum ((fr.filter (fun i => mol.real.getD i false)).map (zAt zOf mol.atoms)) - c) := by
  unfold nelectronsFrag
  rw [hfr, hc]
  simp only [Option.bind_eq_bind, Option.bind_some, Option.pure_def, Option.some.injEq]
  rw [zeffIn_eq_listed _ _ hnd, isum_filter_map]
  congr 2
  apply List.map_congr_left
  intro i _
  exact zeffList_getD zOf mol.atoms mol.real i

/-- non-vacuity (test, evaluated): fragment [0,1,2] = He, ghost H, Li with charge +1 → 2 + 3 − 1 -/
example : nelectronsFrag (fun z : Int => z)
    { atoms := [2, 1, 3, 8], real := [true, false, true, true], frags := [[0, 1, 2], [3]],
      fc := [1, 0], fm := [1, 1], c := 1, m := 1 } 0 = some 4 := by decide

/-! ### nuclear repulsion of one fragment -/

section nre
variable {K : Type} [Field K]

/-- removing atoms whose effective charge is zero does not change the pair sum -/
theorem nre_filter_of_zero {γ} (dist : γ → γ → K) (q : Int × γ → Bool) (atoms : List (Int × γ))
    (hq : ∀ a ∈ atoms, q a = false → a.1 = 0) :
    nre dist atoms = nre dist (atoms.filter q) := by
  rw [nre_real_only dist atoms, nre_real_only dist (atoms.filter q), List.filter_filter]
  congr 1
  apply List.filter_congr
  intro a ha
  cases h : q a
  · simp [hq a ha h]
  · simp

/-- **Nuclear repulsion of one fragment** = the pair sum restricted to the fragment's real nuclei.
`nuclear_repulsion_energy(ifr)` with `fr = fragments[ifr]` is the sum over unordered pairs of
those atoms of `fr` whose effective charge `Z·real` is non-zero; ghost atoms of the fragment
contribute nothing and atoms outside the fragment do not enter at all.  (Any field, any distance
function.) -/
theorem nre_fragment (zeff : List Int) (dist : Nat → Nat → K) (fr : List Nat) :
    nreMol zeff dist (some fr) =
      nre dist ((fr.filter (fun i => zeff.getD i 0 != 0)).map (fun i => (zeff.getD i 0, i))) := by
  unfold nreMol
  simp only [Option.getD_some]
  rw [nre_real_only, List.filter_map]
  rfl

/-- the same with the real/ghost flags of the molecule: only atoms of the fragment flagged real -/
theorem nre_fragment_real {α} (zOf : α → Int) (atoms : List α) (real : List Bool)
    (dist : Nat → Nat → K) (fr : List Nat) :
    nreMol (zeffList zOf atoms real) dist (some fr) =
      nre dist ((fr.filter (fun i => real.getD i false)).map (fun i => (zAt zOf atoms i, i))) := by
  unfold nreMol
  simp only [Option.getD_some]
  rw [nre_filter_of_zero dist (fun a => real.getD a.2 false)]
  · rw [List.filter_map]
    congr 1
    apply List.map_congr_left
    intro i hi
    have hr : real.getD i false = true := (List.mem_filter.1 hi).2
    rw [zeffList_getD, hr]; rfl
  · intro a ha h
    obtain ⟨i, _, rfl⟩ := List.mem_map.1 ha
    have hr : real.getD i false = false := h
    show (zeffList zOf atoms real).getD i 0 = 0
    rw [zeffList_getD, hr]; rfl

/-- a fragment made of ghost atoms only has no nuclear repulsion energy -/
theorem nre_fragment_all_ghost (zeff : List Int) (dist : Nat → Nat → K) (fr : List Nat)
    (h : ∀ i ∈ fr, zeff.getD i 0 = 0) : nreMol zeff dist (some fr) = 0 := by
  rw [nre_fragment]
  have : fr.filter (fun i => zeff.getD i 0 != 0) = [] := by
    apply List.filter_eq_nil_iff.2
    intro i hi
    rw [h i hi]; simp
  rw [this]; rfl

/-- non-vacuity (tests): fragment [0,1,2] of He, ghost Li, H, O on a line (distance = |i-j|):
only the He–H pair of the fragment counts, 2·1/2 = 1; the all-ghost fragment [1] has energy 0 -/
example : nreMol (K := ℚ) [2, 0, 1, 8] (fun i j => ((i : ℚ) - j) * (if i < j then -1 else 1)) (some [0, 1, 2]) = 1 := by
  norm_num [nreMol, nre, pairSum, ksum, nreTerm]
example : ∀ i ∈ [1], ([2, 0, 1, 8] : List Int).getD i 0 = 0 := by decide

/-- the whole-molecule call is the per-fragment call on `arange(n)` (the default single fragment) -/
theorem nre_whole (zeff : List Int) (dist : Nat → Nat → K) :
    nreMol zeff dist none = nreMol zeff dist (some (List.range zeff.length)) := rfl

/-- interaction of two blocks of atoms: every pair with one atom in each -/
def cross {γ} (dist : γ → γ → K) (A B : List (Int × γ)) : K :=
  ksum (A.map (fun a => ksum (B.map (fun b => nreTerm dist b a))))

/-- **Two blocks.** The energy of `A ++ B` is the energy of `A` plus the energy of `B` plus the
inter-block interaction — which is why the per-fragment energies are *not* additive. -/
theorem nre_append {γ} (dist : γ → γ → K) : ∀ (A B : List (Int × γ)),
    nre dist (A ++ B) = nre dist A + nre dist B + cross dist A B
  | [], B => by simp [nre, pairSum, cross, ksum]
  | a :: A, B => by
      have ih := nre_append dist A B
      unfold nre at ih ⊢
      simp only [List.cons_append, pairSum, ih, cross, List.map_cons, ksum, List.map_append]
      rw [ksum_eq_sum (_ ++ _), List.sum_append, ← ksum_eq_sum, ← ksum_eq_sum]
      ring

/-- **Per-fragment energies do not add up** (so additivity is deliberately not claimed): two
one-atom fragments H, H at distance 1 have fragment energies 0 and 0, the molecule has 1. -/
theorem nre_not_additive :
    ∃ (zeff : List Int) (dist : Nat → Nat → ℚ) (frags : List (List Nat)),
      frags.flatten = List.range zeff.length ∧
      ksum (frags.map (fun fr => nreMol zeff dist (some fr))) ≠ nreMol zeff dist none := by
  refine ⟨[1, 1], fun _ _ => 1, [[0], [1]], by decide, ?_⟩
  norm_num [nreMol, nre, pairSum, ksum, nreTerm, List.range, List.range.loop]

end nre

end QcelVerif.Fragments
