import QcelVerif.Model.PeriodicTable
import QcelVerif.Lemmas.PStr
/-!
# C01 — periodic-table lookups: general theorems (any table, any ASCII text)
-/
namespace QcelVerif.PT
open QcelVerif QcelVerif.PStr

/-! ## general theorems -/

/-- **Letter case never matters**: two texts that agree after lower-casing resolve identically
(any table, any ASCII text, strict or not). -/
theorem resolve_case_insensitive (T : Tables) (s s' : Bytes) (h : lower s = lower s') (strict : Bool) :
    T.resolve (.str s) strict = T.resolve (.str s') strict := by
  unfold Tables.resolve Tables.resolveEliso
  simp only [capitalize_congr h, pyInt_congr h]

/-- every accessor inherits case-insensitivity -/
theorem accessors_case_insensitive (T : Tables) (s s' : Bytes) (h : lower s = lower s') (strict : Bool) :
    T.toE (.str s) strict = T.toE (.str s') strict ∧ T.toZ (.str s) strict = T.toZ (.str s') strict ∧
    T.toName (.str s) strict = T.toName (.str s') strict ∧ T.toA (.str s) = T.toA (.str s') ∧
    T.toMass (.str s) = T.toMass (.str s') ∧ T.toPeriod (.str s) = T.toPeriod (.str s') ∧
    T.toGroup (.str s) = T.toGroup (.str s') := by
  simp only [Tables.toE, Tables.toZ, Tables.toName, Tables.toA, Tables.toMass, Tables.toPeriod,
    Tables.toGroup, resolve_case_insensitive T s s' h]
  simp

example : lower [107, 82, 56, 52] = lower [75, 114, 56, 52] := by decide  -- hypothesis satisfiable: "kR84" ~ "Kr84"

/-- **No wrong species**: a successful lookup is always justified by one of the three alias
relations — the capitalised text is itself a nuclide key, or its integer value is an atomic number
of the table, or the capitalised text is an element name — so an unknown name can never return some
other species' data. -/
theorem no_wrong_species (T : Tables) (a : PyVal) (strict : Bool) (k : Nat)
    (h : T.resolve a strict = some k) :
    (∃ s, a = .str s ∧ k = pack (capitalize s) ∧ T.eliso.contains k = true) ∨
    (∃ z, (a = .int z ∨ ∃ s, a = .str s ∧ pyInt s = some z) ∧ T.z2el z = some k) ∨
    (∃ s, a = .str s ∧ T.name2el (pack (capitalize s)) = some k) := by
  unfold Tables.resolve at h
  cases hr : T.resolveEliso a with
  | none => simp [hr] at h
  | some k' =>
    simp only [hr] at h
    have hk : k' = k := by
      split at h
      · cases h
      · exact Option.some.inj h
    subst hk
    cases a with
    | int z => exact Or.inr (Or.inl ⟨z, Or.inl rfl, hr⟩)
    | str s =>
      simp only [Tables.resolveEliso] at hr
      split at hr
      · rename_i hc
        exact Or.inl ⟨s, rfl, (Option.some.inj hr).symm, by rw [← Option.some.inj hr]; exact hc⟩
      · split at hr
        · rename_i e he
          cases hp : pyInt s with
          | none => simp [hp] at he
          | some z =>
            simp only [hp] at he
            exact Or.inr (Or.inl ⟨z, Or.inr ⟨s, rfl, hp⟩, by rw [he, Option.some.inj hr]⟩)
        · exact Or.inr (Or.inr ⟨s, rfl, hr⟩)

/-- **Strict mode** accepts exactly the non-strict answers that are bare element symbols. -/
theorem strict_exact (T : Tables) (a : PyVal) (k : Nat) :
    T.resolve a true = some k ↔ (T.resolve a false = some k ∧ T.isElementSymbol k = true) := by
  unfold Tables.resolve
  cases T.resolveEliso a with
  | none => simp
  | some k' =>
    cases hs : T.isElementSymbol k' with
    | true => simp [hs]; intro h; rw [← h]; exact hs
    | false => simp [hs]; intro h; rw [← h]; simp [hs]

/-- **Period and group are the position in the standard 18-column table**, for every atomic
number: the period ladder and the group membership lists of the code agree with the independent
layout rule (noble gases close the periods; group from the offset in the period; f-block: none). -/
theorem period_group_standard (z : Nat) : periodOfZ z = specPeriod z ∧ groupOfZ z = specGroup z := by
  by_cases h : z < 119
  · have key : ∀ z, z < 119 → (periodOfZ z = specPeriod z ∧ groupOfZ z = specGroup z) := by decide
    exact key z h
  · have hz : 119 ≤ z := by omega
    constructor
    · have e1 : periodOfZ z = 8 := by
        simp only [periodOfZ]
        repeat (first | rfl | (split; omega))
      have e2 : specPeriod z = 8 := by
        simp only [specPeriod, nobleGases, List.filter]
        have : ∀ k, k ≤ 118 → decide (k < z) = true := by intro k hk; simp; omega
        simp [this]
      rw [e1, e2]
    · have e2 : specGroup z = none := by
        simp only [specGroup]; rw [if_pos (Or.inr (by omega))]
      have e1 : groupOfZ z = none := by
        simp only [groupOfZ, List.contains, List.elem]
        have : ∀ k, k ≤ 118 → (z == k) = false := by intro k hk; simp; omega
        simp [this]
      rw [e1, e2]

end QcelVerif.PT
