import QcelVerif.Driver.C16
import QcelVerif.Gen.SrcConsts
/-!
# C16 — the phase threshold and the zero band used by the C16 model are those of `molecule.py`

`_orient_molecule_internal` skips entries with `abs(val) < geom_noise`, `geom_noise = 10 ** (-GEOMETRY_NOISE)`; the
model's phase loop takes the threshold as an argument and the driver (`Driver/C16.lean`) runs it at `noiseQ`.
`float_prep` zeroes entries below `5 ** (-(around + 1))`; `Model/Orient.lean: floatPrepK` has `5` and `+ 1` inline.
`Gen/SrcConsts.lean` is rewritten on every run from `qcelemental/models/molecule.py` (by `ast`); the translator also
compares harness/c16.py's `NOISE` and `FLUSH8` with the source.

PROPERTY-THEOREMS: orient_noise_matches_source phase_test_matches_source zero_band_matches_source
-/
namespace QcelVerif.Orient
open QcelVerif

/-- the threshold the driver hands to the phase loop is `B ** (-GEOMETRY_NOISE)` with the source's base and constant -/
theorem orient_noise_matches_source :
    noiseQ = 1 / ((Src.orient.noise_base : Int) : Rat) ^ Src.molecule.GEOMETRY_NOISE.toNat := by
  have h1 : Src.orient.noise_base = 10 := by decide
  have h2 : Src.molecule.GEOMETRY_NOISE.toNat = 8 := by decide
  rw [h1, h2]
  norm_num [noiseQ]

/-- one column step on an undecided column (`val = s·v` is the entry the code reads, `s` the sign applied so far):
an entry with `|val| < noise` (strict) is skipped; otherwise the column is decided and flipped iff `val < 0` (strict)
— the two tests as the source writes them -/
theorem phase_test_matches_source (noise s v : Rat) :
    colStep noise (false, s) v = (if |s * v| < noise then (false, s) else (true, if s * v < 0 then -s else s)) ∧
    Src.orient.tests_strict = true :=
  ⟨rfl, by decide⟩

/-- `float_prep(v, d)`: the rounded entry `k·10^-d` becomes 0 iff `|k|·B^(d+O) < 10^d`, i.e. `|k·10^-d| < B^-(d+O)`,
with the source's base `B = 5` and offset `O = 1` -/
theorem zero_band_matches_source (d : Nat) (v : Rat) :
    floatPrepK d v =
      (if (roundHalfEven (v * (10 : Rat) ^ d)).natAbs * Src.float_prep.zero_band_base.toNat ^ (d + Src.float_prep.zero_band_offset.toNat) < 10 ^ d
       then 0 else roundHalfEven (v * (10 : Rat) ^ d)) := by
  have h1 : Src.float_prep.zero_band_base.toNat = 5 := by decide
  have h2 : Src.float_prep.zero_band_offset.toNat = 1 := by decide
  rw [h1, h2]
  rfl

end QcelVerif.Orient
