import QcelVerif.Props.C06Sound
/-!
# C06 — the tolerance is honoured *as given*, down to zero

Corollaries of `reconcile_sound` / `conflict_mass_number_vs_mass` at the falsy end of the `mtol`
setting (`mtol = 0`, `0.0`, `False`; stated for every `mtol ≤ 0`): the tolerance is never replaced by
a default.  For ANY table, ANY rounding function that does not round a non-zero number to zero
(`hrd0`; true of IEEE subtraction of two doubles, which is exact whenever the result would be
subnormal), ANY range table, ALL inputs.

 * `zero_tolerance_exact`     success ⇒ `A = −1` or `E+str(A)` is tabulated with *exactly* the returned mass
 * `zero_tolerance_conflict`  a mass-number clue and a mass clue whose float differs from the tabulated
                              mass of that nuclide ⇒ error (exact-mass matching is not widened)
-/
namespace QcelVerif.Nucleus
open QcelVerif QcelVerif.PStr QcelVerif.PT

theorem absR_nonneg (x : Rat) : 0 ≤ absR x := by
  unfold absR
  split <;> grind

theorem eq_zero_of_absR_nonpos {x : Rat} (h : absR x ≤ 0) : x = 0 := by
  unfold absR at h
  split at h <;> grind

/-- **Zero tolerance means exact.**  With `mtol ≤ 0` a successful reconciliation returns `A = −1` or a
tabulated nuclide whose (float) tabulated mass *equals* the returned mass. -/
theorem zero_tolerance_exact (N : NTables) (rd : Rat → Rat) (rng : Nat → Option Range) (hcoh : DefaultCoherent N)
    (hrd0 : ∀ q, rd q = 0 → q = 0)
    (i : Input) (o : Output) (h : reconcileWith N rd rng i = .ok o) (hz : i.mtol.val ≤ 0) :
    o.A = -1 ∨ tableMass N rd (.str (unpack o.E ++ intStr o.A)) = .ok o.mass := by
  obtain ⟨_, _, _, _, hnuc, _⟩ := reconcile_sound N rd rng hcoh i o h
  rcases hnuc with hneg | ⟨tm, htm, heq | hle | hle⟩
  · exact Or.inl hneg
  · exact Or.inr (heq ▸ htm)
  · have h0 : tm - o.mass = 0 := hrd0 _ (eq_zero_of_absR_nonpos (Rat.le_trans hle hz))
    have : tm = o.mass := by grind
    exact Or.inr (this ▸ htm)
  · have h0 : o.mass - tm = 0 := hrd0 _ (eq_zero_of_absR_nonpos (Rat.le_trans hle hz))
    have : tm = o.mass := by grind
    exact Or.inr (this ▸ htm)

/-- the hypotheses are satisfiable by a non-trivial value: the identity rounding never maps a non-zero
number to zero, and `0`, `0.0`, `False` all have value `0` -/
example : (∀ q : Rat, id q = 0 → q = 0) ∧ (PyNum.int 0).val ≤ 0 ∧ (PyNum.float 0).val ≤ 0 ∧ (PyNum.bool false).val ≤ 0 := by
  refine ⟨fun q h => h, ?_, ?_, ?_⟩ <;> decide

/-- **Zero tolerance is not widened.**  With `mtol ≤ 0`, a mass-number clue `a` and a mass clue `m` for
the element named `z`: unless `E + str(a)` is tabulated with exactly the float `m`, error. -/
theorem zero_tolerance_conflict (N : NTables) (rd : Rat → Rat) (rng : Nat → Option Range) (hcoh : DefaultCoherent N)
    (hrd0 : ∀ q, rd q = 0 → q = 0)
    (i : Input) (z a : Int) (m : Rat) (sym : Nat) (hz : NamesZ N i z) (hsym : N.pt.toE (.int z) false = some sym)
    (hA : ClaimsA i a) (hM : ClaimsMass rd i m) (hzero : i.mtol.val ≤ 0)
    (hne : ∀ tm, tableMass N rd (.str (unpack sym ++ intStr a)) = .ok tm → tm ≠ m) :
    ∃ e, reconcileWith N rd rng i = .error e := by
  apply conflict_mass_number_vs_mass N rd rng hcoh i z a m sym hz hsym hA hM
  intro tm htm hle
  have h0 : m - tm = 0 := hrd0 _ (eq_zero_of_absR_nonpos (Rat.le_trans hle hzero))
  exact hne tm htm (by grind)

end QcelVerif.Nucleus
